#!/bin/sh
mk() { # file N Objective Dir GN GD Vals Gen AllStarts
cat > $1 <<EOF
SPECIFICATION Spec
CONSTANT N = $2
CONSTANT Objective = "$3"
CONSTANT Dir = $4
CONSTANT GN = $5
CONSTANT GD = $6
CONSTANT Vals <- $7
CONSTANT Gen = $8
CONSTANT AllStarts = $9
CHECK_DEADLOCK FALSE
EOF
if [ "$8" = FALSE ]; then cat >> $1 <<EOF
INVARIANT BookkeepingInv
INVARIANT AggregationInv
INVARIANT ObjIsModularity
PROPERTY MoveRaisesObj
EOF
fi
}
rm -f MC_LouvainB_*.cfg Gen_LouvainB_*.cfg
mk MC_LouvainB_q_mod4.cfg    4 modularity    FALSE 1 1 V01  FALSE FALSE
mk MC_LouvainB_q_moddir3.cfg 3 modularity    TRUE  3 4 V012 FALSE TRUE
mk MC_LouvainB_q_potts4.cfg  4 potts         FALSE 5 4 V01  FALSE FALSE
mk MC_LouvainB_q_nsym3.cfg   3 negative_sym  FALSE 1 1 VS2  FALSE TRUE
mk MC_LouvainB_q_nasym3.cfg  3 negative_asym FALSE 3 4 VS2  FALSE TRUE
mk MC_LouvainB_t_mod4w.cfg   4 modularity    FALSE 3 4 V012 FALSE TRUE
mk MC_LouvainB_t_nsym4.cfg   4 negative_sym  FALSE 5 4 VS   FALSE TRUE
mk MC_LouvainB_t_nasym4.cfg  4 negative_asym FALSE 1 1 VS   FALSE TRUE
mk MC_LouvainB_t_moddir4.cfg 4 modularity    TRUE  1 1 V01  FALSE TRUE
mk MC_LouvainB_q_mod3d.cfg   3 modularity    FALSE 1 1 V012 FALSE TRUE; echo "CONSTANT DiagVals <- DiagVals01" >> MC_LouvainB_q_mod3d.cfg
mk MC_LouvainB_t_moddir3d.cfg 3 modularity   TRUE  3 4 V01  FALSE TRUE; echo "CONSTANT DiagVals <- DiagVals01" >> MC_LouvainB_t_moddir3d.cfg
mk MC_LouvainB_t_potts3d.cfg 3 potts         FALSE 5 4 V01  FALSE TRUE; echo "CONSTANT DiagVals <- DiagVals01" >> MC_LouvainB_t_potts3d.cfg
mk Gen_LouvainB_mod5.cfg     5 modularity    FALSE 1 1 V01  TRUE TRUE
mk Gen_LouvainB_moddir4.cfg  4 modularity    TRUE  5 4 V01  TRUE TRUE
mk Gen_LouvainB_potts5.cfg   5 potts         FALSE 3 4 V01  TRUE TRUE
mk Gen_LouvainB_nsym4.cfg    4 negative_sym  FALSE 1 1 VS   TRUE TRUE
mk Gen_LouvainB_nasym4.cfg   4 negative_asym FALSE 5 4 VS   TRUE TRUE
