------------------------------ MODULE DistanceImpl ------------------------------
(* C03 / C12, L2: the loops of bct/algorithms/distance.py as machines, one       *)
(* action per loop body, same variables (held in the record `st`), over EVERY     *)
(* small input, with the invariants that tie each machine to the L0 definitions   *)
(* of Distance.tla (refinement) and the loop invariants on the way.               *)
(*                                                                                *)
(*   dijkstra   distance_wei            (also efficiency_wei.distance_inv_wei)    *)
(*   floyd      distance_wei_floyd + retrieve_shortest_path (also rout_efficiency)*)
(*   algebraic  distance_bin            (also efficiency_bin.distance_inv)        *)
(*   bfs        breadth / breadthdist                                             *)
(*   reach      reachdist / reachdist2                                            *)
(*   nav        navigation_wu (one ordered pair (i, j) per behaviour: the two     *)
(*              outer `for` loops only store the results of independent runs)     *)
(*                                                                                *)
(* One TLC run explores all machines named in `Machines` (st.m tags the machine)   *)
(* over the union of the input domains given as constants (MC_Distance.tla):      *)
(*   DjDomains, FwDomains : triples <<n, sym, lens>> - every digraph (every graph *)
(*       if sym) on n nodes with lengths from lens; FwDomains may contain 0, the  *)
(*       'log' image of weight 1                                                  *)
(*   BinDomains : pairs <<n, loopnodes>> - every 0/1 digraph on n nodes, with     *)
(*       self-loops allowed on loopnodes (algebraic, reach);  BfsDomains : pairs  *)
(*       <<n, sym>> for bfs, which never gets self-loops (see BrFinalInv)         *)
(*   NavDomains : <<n, und, dists, maxhops>> - every 0/1 digraph (graph if und)   *)
(*       x every symmetric nodal distance matrix over dists x max_hops (-1 =      *)
(*       None) x every ordered pair                                               *)
EXTENDS Distance
CONSTANTS Machines, DjDomains, FwDomains, BinDomains, BfsDomains, NavDomains
VARIABLES inp, st
vars == <<inp, st>>

DPairs(n) == {p \in (1..n) \X (1..n) : p[1] # p[2]}
UPairs(n) == {p \in (1..n) \X (1..n) : p[1] < p[2]}
(* matrix from a cell assignment f (cells outside DOMAIN f get `dflt`)            *)
MatOf(n, f, dflt) == EMat(n, LAMBDA i, j : IF <<i, j>> \in DOMAIN f THEN f[<<i, j>>] ELSE dflt)
SymOf(n, f, dflt) == EMat(n, LAMBDA i, j : IF <<i, j>> \in DOMAIN f THEN f[<<i, j>>]
                                           ELSE IF <<j, i>> \in DOMAIN f THEN f[<<j, i>>] ELSE dflt)
Dim(M) == Cardinality(DOMAIN M)

(* ------------------------------------------------------------------ Init ---- *)
(* the initial state only fixes the input; `Begin` runs the code's initialisation *)
WInputs(dom, none) ==
  LET n == dom[1]  sym == dom[2]  lens == dom[3] IN
  IF sym THEN {SymOf(n, f, none) : f \in [UPairs(n) -> {none} \cup lens]}
         ELSE {MatOf(n, f, none) : f \in [DPairs(n) -> {none} \cup lens]}
BinInputs(n, loopnodes) ==
  {MatOf(n, [p \in E |-> 1], 0) : E \in SUBSET (DPairs(n) \cup {<<v, v>> : v \in loopnodes})}
SymInputs(n) == {SymOf(n, [p \in E |-> 1], 0) : E \in SUBSET UPairs(n)}
NavInputs(dom) ==
  LET n == dom[1]  und == dom[2]  dists == dom[3]  maxhops == dom[4] IN
  {[L |-> IF und THEN SymOf(n, [p \in E |-> 1], 0) ELSE MatOf(n, [p \in E |-> 1], 0),
    Dm |-> SymOf(n, g, 0), maxh |-> mh, i |-> ij[1], j |-> ij[2]] :
     E \in SUBSET (IF und THEN UPairs(n) ELSE DPairs(n)), g \in [UPairs(n) -> dists],
     mh \in maxhops, ij \in DPairs(n)}
InitOf(m) == CASE m = "dijkstra"  -> \E dom \in DjDomains : inp \in WInputs(dom, 0)
               [] m = "floyd"     -> \E dom \in FwDomains : inp \in WInputs(dom, INF)
               [] m = "algebraic" -> \E dom \in BinDomains : inp \in BinInputs(dom[1], dom[2])
               [] m = "reach"     -> \E dom \in BinDomains : inp \in BinInputs(dom[1], dom[2])
               [] m = "bfs"       -> \E dom \in BfsDomains :
                                       inp \in IF dom[2] THEN SymInputs(dom[1]) ELSE BinInputs(dom[1], {})
               [] m = "nav"       -> \E dom \in NavDomains : inp \in NavInputs(dom)
Init == \E m \in Machines : InitOf(m) /\ st = [m |-> m, pc |-> "init", status |-> "run"]
NI == IF st.m = "nav" THEN Dim(inp.L) ELSE Dim(inp)          \* node count of the input

(* ------------------------------------------------------------------ Next ---- *)
Tag(m, s) == [m |-> m] @@ s
(* the code's initialisation block                                                *)
Begin == /\ st.pc = "init"
         /\ st' = Tag(st.m, CASE st.m = "dijkstra"  -> DjInit(NI, inp)
                               [] st.m = "floyd"     -> FwInit(NI, inp)
                               [] st.m = "algebraic" -> AbInit(NI, inp)
                               [] st.m = "bfs"       -> BrInit(NI)
                               [] st.m = "reach"     -> RdInit(NI, inp)
                               [] st.m = "nav"       -> [pc |-> "while"] @@ NavStart(inp.i))
DjAct == st.m = "dijkstra" /\ st.pc = "while" /\ st' = Tag("dijkstra", DjWhile(NI, inp, st))
FwAct == st.m = "floyd" /\ st.pc \in {"for", "post"} /\ st' = Tag("floyd", FwNext(NI, st))
AbAct == st.m = "algebraic" /\ st.pc = "while" /\ st' = Tag("algebraic", AbStep(NI, st))
BrAct == st.m = "bfs" /\ st.pc = "while" /\ st' = Tag("bfs", BrStep(NI, inp, st))
RdAct == st.m = "reach" /\ st.pc \in {"call", "post"} /\ st' = Tag("reach", RdStep(NI, st))
NavAct == st.m = "nav" /\ st.pc = "while" /\ st.status = "run"
          /\ st' = [m |-> "nav", pc |-> "while"] @@ NavStep(NI, inp.L, inp.Dm, inp.maxh, inp.j, st)
Next == (Begin \/ DjAct \/ FwAct \/ AbAct \/ BrAct \/ RdAct \/ NavAct) /\ UNCHANGED inp
Spec == Init /\ [][Next]_vars
FairSpec == Spec /\ WF_vars(Next)

Is(m) == st.m = m /\ st.pc # "init"
Finished == IF st.m = "nav" THEN st.status # "run" ELSE st.pc = "done"
(* every machine stops (nav: possibly by predicting that the code never does)     *)
Terminates == <>Finished

(* ---------------------------------------------------- L0 cross-check (oracle) *)
(* fixpoint distance = minimum over enumerated simple paths; hop sets of the walk *)
(* table = hop counts of minimum simple paths (superset if zero lengths exist)    *)
OracleInv ==
  (Is("floyd") /\ st.pc = "for" /\ st.k = 1) =>
    LET D == Dist(NI, inp)  WT == WalkTab(NI, inp)
        pos == \A i, j \in 1..NI : inp[i][j] > 0
    IN \A s, t \in 1..NI :
         /\ D[s][t] = DistByPaths(NI, inp, s, t)
         /\ MinHopsByPaths(NI, inp, s, t) \subseteq MinHops(NI, D, WT, s, t)
         /\ pos => MinHops(NI, D, WT, s, t) = MinHopsByPaths(NI, inp, s, t)
         /\ (D[s][t] < INF) <=> Reaches(NI, AdjOfLen(NI, inp), s, t)

(* the cheap operators used for inputs beyond n = 12 (Distance.tla, "cheap          *)
(* equivalents") decide the same as the L0 definitions: reachable sets, hop        *)
(* distances by BFS levels, "hop counts of minimum walks = {distance}" for unit    *)
(* lengths, the one-pass characterisation of a distance row (the true row passes;  *)
(* n = 3: NO other row over 0..5, INF passes; n > 3: no single-entry change        *)
(* passes), the hop-count sets by increasing distance, the 10^-9 mean inverse.     *)
FastOracleInv ==
  (Is("floyd") /\ st.pc = "for" /\ st.k = 1) =>
    LET n == NI
        D == Dist(n, inp)  Out == DOutNb(n, inp)  In == DInNb(n, inp)
        HL == HopLen(n, inp)  HD == Dist(n, HL)  HWT == WalkTab(n, HL)
        WT == WalkTab(n, inp)
        pos == PosLen(n, inp)
        vals == (0..5) \cup {INF}
        np == n * (n - 1)
        fin == {p \in OffPairs(n) : D[p[1]][p[2]] < INF}
        e6 == ToQ6(Sum(fin, LAMBDA p : 27720 \div D[p[1]][p[2]]), 27720 * np)
    IN /\ \A s \in 1..n : ReachFrom(Out, s) = {t \in 1..n : D[s][t] < INF}
       /\ HopDistFast(n, inp) = HD
       /\ IsHopLen(n, HL) /\ (IsHopLen(n, inp) <=> inp = HL)
       /\ \A s, t \in 1..n : HD[s][t] < INF => MinHops(n, HD, HWT, s, t) = {HD[s][t]}
       /\ pos =>
            /\ IsDistMat(n, inp, D)
            /\ \A s \in 1..n :
                 IF n = 3
                 THEN \A row \in [1..n -> vals] : IsDistRow(n, inp, In, s, row) => row = D[s]
                 ELSE \A j \in 1..n, v \in vals :
                        v # D[s][j] => ~IsDistRow(n, inp, In, s, [D[s] EXCEPT ![j] = v])
            /\ \A s, t \in 1..n : MinHopsRow(n, inp, In, s, D[s])[t] = MinHops(n, D, WT, s, t)
            /\ MeanInvBigInRange(n, D)
            /\ MeanInvBigOK(e6, n, D) \/ MeanInvBigOK(e6 + 1, n, D)
            /\ ~MeanInvBigOK(e6 - 2, n, D) /\ ~MeanInvBigOK(e6 + 3, n, D)
            /\ \A o \in {e6 - 2, e6 - 1, e6, e6 + 1, e6 + 2, e6 + 3} :
                 MeanInvBigOK(o, n, D) => MeanInvOK(o, n, D)

(* ------------------------------------------------------------------ dijkstra *)
DjLm == LenOfAdj(NI, inp)
HopsOK(n, Lm, D, B, r, w) ==          \* "number of edges of some minimum-length path"
  IF D[r][w] < INF THEN B[r][w] \in MinHopsByPaths(n, Lm, r, w) ELSE B[r][w] = 0
DjRowsDoneInv ==                      \* rows of finished sources are final and right
  Is("dijkstra") =>
    LET DD == Dist(NI, DjLm)
        done == IF st.pc = "done" THEN 1..NI ELSE 1..(st.u - 1)
    IN \A r \in done, w \in 1..NI : st.D[r][w] = DD[r][w] /\ HopsOK(NI, DjLm, DD, st.B, r, w)
DjWhileInv ==                         \* at the head of `while True`
  (Is("dijkstra") /\ st.pc = "while") =>
    LET DD == Dist(NI, DjLm)  u == st.u  perm == (1..NI) \ st.S IN
    /\ st.V # {} /\ st.V \subseteq st.S                              \* progress
    /\ \A w \in perm \cup st.V : st.D[u][w] = DD[u][w] /\ HopsOK(NI, DjLm, DD, st.B, u, w)
    /\ \A p \in perm, w \in st.S : DD[u][p] <= DD[u][w]              \* permanent = nearest
    /\ \A w \in st.S \ {u} :                                         \* tentative labels
         st.D[u][w] = MinOf({INF} \cup {st.D[u][p] + inp[p][w] : p \in {p \in perm : inp[p][w] # 0}})
    /\ \A a, b \in 1..NI : st.G1[a][b] = IF b \in perm THEN 0 ELSE inp[a][b]
    /\ \A w \in st.V, x \in st.S : st.D[u][w] <= st.D[u][x]          \* V = current minimum
DjFinalInv ==
  (Is("dijkstra") /\ st.pc = "done") =>
    /\ st.D = Dist(NI, DjLm)
    /\ DiagZero(NI, st.D) /\ DiagZero(NI, st.B)
    /\ <<st.D, st.B>> = DijkstraAll(NI, inp)

(* --------------------------------------------------------------------- floyd *)
FwForInv ==                           \* before iteration k: interiors within 1..k-1
  (Is("floyd") /\ st.pc # "done") =>
    \A i, j \in 1..NI : i # j =>
      /\ st.SPL[i][j] = DistVia(NI, inp, 1..(st.k - 1), i, j)
      /\ IF st.SPL[i][j] >= INF THEN st.hops[i][j] = 0
         ELSE LET p == Retrieve(st.hops, st.Pmat, i, j) IN
              /\ IsPath(NI, inp, p, i, j) /\ IsSimple(p)
              /\ Interior(p) \subseteq 1..(st.k - 1)
              /\ Len(p) = st.hops[i][j] + 1
              /\ PathLen(inp, p) = st.SPL[i][j]
FwFinalInv ==
  (Is("floyd") /\ st.pc = "done") =>
    LET DD == Dist(NI, inp) IN
    /\ st.SPL = DD
    /\ DiagZero(NI, st.hops)
    /\ \A i, j \in 1..NI : i # j => HopsOK(NI, inp, DD, st.hops, i, j)
    /\ <<st.SPL, st.hops, st.Pmat>> = FloydAll(NI, inp)
(* C12: following Pmat for hops[s,t] steps is a real minimum path; empty iff      *)
(* the target is unreachable                                                      *)
FwRetrieveInv ==
  (Is("floyd") /\ st.pc = "done") =>
    LET DD == Dist(NI, inp) IN
    \A s, t \in 1..NI : s # t =>
      LET p == Retrieve(st.hops, st.Pmat, s, t) IN
      /\ (p = <<>>) <=> (DD[s][t] >= INF)
      /\ p # <<>> => /\ IsPath(NI, inp, p, s, t)
                     /\ Len(p) = st.hops[s][t] + 1
                     /\ PathLen(inp, p) = st.SPL[s][t]
                     /\ p \in MinPaths(NI, inp, s, t)

(* ----------------------------------------------------------------- algebraic *)
BinLm == LenOfAdj(NI, inp)
AbWhileInv ==
  (Is("algebraic") /\ st.pc = "while") =>
    LET HD == Dist(NI, BinLm) IN
    \A i, j \in 1..NI : i # j =>
      /\ st.D[i][j] = IF HD[i][j] < st.nn THEN HD[i][j] ELSE 0
      /\ (st.L[i][j] = 1) <=> (HD[i][j] = st.nn)
      /\ st.nn <= NI
AbFinalInv ==
  (Is("algebraic") /\ st.pc = "done") =>
    /\ st.D = Dist(NI, BinLm)
    /\ st.D = AlgebraicAll(NI, inp)

(* ----------------------------------------------------------------------- bfs *)
(* Inputs without self-loops.  With A[s][s] # 0 the code overwrites distance[s]   *)
(* while scanning s itself and every later neighbour gets distance 2: BrWhileInv  *)
(* and BrFinalInv then fail (tried: BinInputs(n, 1..n) as bfs input) - the machine *)
(* still predicts the code's output there (drift "same") and Trace_Distance       *)
(* reports the wrong distances as clause OffDiagEqualsDist, class "selfloop".     *)
SeqSet(q) == {q[x] : x \in DOMAIN q}
BrWhileInv ==
  (Is("bfs") /\ st.pc = "while") =>
    LET HD == Dist(NI, BinLm)  s == st.src  Q == st.Q IN
    /\ \A v \in (1..NI) \ {s} : IF st.color[v] = 0 THEN st.dist[v] = INF
                               ELSE st.dist[v] = HD[s][v]
    /\ \A v \in 1..NI : (st.color[v] = 1) <=> (v \in SeqSet(Q))
    /\ \A x, y \in DOMAIN Q : x < y => HD[s][Q[x]] <= HD[s][Q[y]]       \* FIFO by level
    /\ Q # <<>> => HD[s][Q[Len(Q)]] <= HD[s][Q[1]] + 1
    /\ Q # <<>> => \A v \in 1..NI : HD[s][v] <= HD[s][Q[1]] => st.color[v] # 0
    /\ \A v \in (1..NI) \ {s} : st.color[v] # 0 =>                      \* branch = BFS tree
         LET b == st.branch[v] IN inp[b][v] # 0 /\ HD[s][v] = HD[s][b] + 1
    /\ \A r \in 1..(s - 1), w \in 1..NI :
         st.D[r][w] = IF r = w THEN (IF Cyc(NI, BinLm, HD, r) >= INF THEN 0 ELSE Cyc(NI, BinLm, HD, r))
                      ELSE HD[r][w]
BrFinalInv ==
  (Is("bfs") /\ st.pc = "done") =>
    LET HD == Dist(NI, BinLm) IN
    /\ \A i, j \in 1..NI : st.D[i][j] = IF i = j THEN Cyc(NI, BinLm, HD, i) ELSE HD[i][j]
    /\ st.D = BreadthAll(NI, inp)

(* --------------------------------------------------------------------- reach *)
RdFirst(HD, i, j) == IF i = j THEN Cyc(NI, BinLm, HD, i) ELSE HD[i][j]   \* shortest walk >= 1 edge
RdCallInv ==                          \* before a call: walks of 1..powr-1 edges are counted
  (Is("reach") /\ st.pc = "call") =>
    LET HD == Dist(NI, BinLm) IN
    /\ st.powr <= NI + 1
    /\ \A i, j \in 1..NI :
         LET f == RdFirst(HD, i, j) IN
         /\ (st.R[i][j] = 1) <=> (f <= st.powr - 1)
         /\ st.D[i][j] = IF f <= st.powr - 1 THEN st.powr - f ELSE 0
RdFinalInv ==
  (Is("reach") /\ st.pc = "done") =>
    LET HD == Dist(NI, BinLm) IN
    /\ \A i, j \in 1..NI : /\ st.D[i][j] = RdFirst(HD, i, j)
                          /\ (st.R[i][j] = 1) <=> (st.D[i][j] < INF)
    /\ <<st.R, st.D>> = ReachdistAll(NI, inp)

(* ----------------------------------------------------------------------- nav *)
NavLm == LenOfAdj(NI, inp.L)
NavWalkInv ==                         \* the path is always a walk from i; cur/last are its end
  Is("nav") =>
    LET p == st.path IN
    /\ IsWalk(NI, NavLm, p) /\ p[1] = inp.i /\ p[Len(p)] = st.cur
    /\ st.last = IF Len(p) = 1 THEN inp.i ELSE p[Len(p) - 1]
    /\ \A x \in 1..(Len(p) - 1) :                                      \* greedy choice
         \A k \in 1..NI : inp.L[p[x]][k] # 0 => inp.Dm[inp.j][p[x + 1]] <= inp.Dm[inp.j][k]
NavCountInv ==                        \* counters = sums along the path, unless failed
  (Is("nav") /\ st.status \in {"run", "arrived", "diverges"}) =>
    /\ st.plb = Len(st.path) - 1
    /\ st.plw = PathLen(inp.L, st.path)
    /\ st.pld = PathLen(inp.Dm, st.path)
NavFailInv ==
  (Is("nav") /\ st.status \in {"deadend", "backtrack", "maxhops"}) =>
    /\ st.plb = INF /\ st.plw = INF /\ st.pld = INF
    /\ st.cur # inp.j
NavArriveInv == (Is("nav") /\ st.status = "arrived") => st.cur = inp.j /\ st.plb < INF
(* max_hops = h lets walks of h+1 hops through (`pl_bin > max_hops` is tested      *)
(* before the hop is made); None can only diverge on a cycle of >= 3 nodes        *)
NavBoundInv ==
  Is("nav") =>
    /\ inp.maxh >= 0 => (st.status # "diverges" /\ Len(st.path) - 1 <= inp.maxh + 1)
    /\ st.status = "diverges" => ~IsSimple(st.path)
    /\ \A x \in 1..(Len(st.path) - 2) : st.path[x] # st.path[x + 2]    \* never straight back
NavFinalInv ==
  (Is("nav") /\ st.status # "run") =>
    st = [m |-> "nav", pc |-> "while"] @@ NavPair(NI, inp.L, inp.Dm, inp.maxh, inp.i, inp.j)
=============================================================================
