SPECIFICATION FairSpec
CONSTANT Machines <- C12Machines
CONSTANT DjDomains <- None
CONSTANT FwDomains <- TFw
CONSTANT BinDomains <- None
CONSTANT BfsDomains <- None
CONSTANT NavDomains <- TNav
INVARIANT OracleInv
INVARIANT FastOracleInv
INVARIANT DjRowsDoneInv
INVARIANT DjWhileInv
INVARIANT DjFinalInv
INVARIANT FwForInv
INVARIANT FwFinalInv
INVARIANT FwRetrieveInv
INVARIANT AbWhileInv
INVARIANT AbFinalInv
INVARIANT BrWhileInv
INVARIANT BrFinalInv
INVARIANT RdCallInv
INVARIANT RdFinalInv
INVARIANT NavWalkInv
INVARIANT NavCountInv
INVARIANT NavFailInv
INVARIANT NavArriveInv
INVARIANT NavBoundInv
INVARIANT NavFinalInv
PROPERTY Terminates
CHECK_DEADLOCK FALSE
