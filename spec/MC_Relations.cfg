SPECIFICATION Spec
CONSTANT NP = 5
CONSTANT NQ = 4
CONSTANT NT = 3
CONSTANT NG = 4
CONSTANT NS = 4
CONSTANT WMax = 3
CONSTANT Modes = {"relabel", "pair", "triple", "dir01", "symw"}
CONSTANT Pool <- PoolSix
CONSTANT PoolQ <- PoolFour
CONSTANT PoolT <- PoolFour
INVARIANT RelabelGivesSamePartition
INVARIANT UniqueInverseIsRelabelling
INVARIANT SamePartitionCharacterised
INVARIANT SamePartitionIsEquivalence
INVARIANT StrengthIsDegreeOn01
INVARIANT DirectedIsUndirectedOnSym
INVARIANT BigClassesCoincide
CHECK_DEADLOCK FALSE
