SPECIFICATION Spec
CONSTANT N = 4
CONSTANT Dir = TRUE
CONSTANT Conn = TRUE
CONSTANT Latt = FALSE
CONSTANT Mask = FALSE
CONSTANT Iters = 3
CONSTANT KCap = 99
CONSTANT AltD = FALSE
CONSTANT BadPicks = TRUE
CONSTANT Gen = TRUE
CHECK_DEADLOCK FALSE
