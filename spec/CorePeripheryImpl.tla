-------------------------- MODULE CorePeripheryImpl --------------------------
(* X06 L2 machine of core_periphery_dir (bct/algorithms/core.py).                          *)
(*   variables  adjm (W), gam (<<gp, gq>>), bbm (Den * B), c0v (initial assignment: the    *)
(*              argument C0 or the draw rng.randint(2, size=n)), cst = [cc, qq, ct, ixes,  *)
(*              flg, itn] (the Python variables C, q, Ct, ixes, flag, it), pc               *)
(*   actions    Round  head of `while flag:` (it += 1, flag = False, ixes = arange, Ct = C) *)
(*              Move   body of `while len(ixes) > 0:`; the random tie-break                 *)
(*                     u[rng.randint(len(u))] is the nondeterministic choice `pick`         *)
(*              Stop   flag is False at the head of the outer loop                          *)
(* Init enumerates every digraph on NN nodes with weights in Wts (at least one connection), *)
(* every gamma in Gammas and every initial assignment.                                      *)
EXTENDS CorePeriphery
CONSTANTS NN, Wts, Gammas, MaxRounds
VARIABLES adjm, gam, bbm, c0v, cst, pc

vars == <<adjm, gam, bbm, c0v, cst, pc>>
DPairs == {p \in (1..NN) \X (1..NN) : p[1] # p[2]}
Inputs == {Mat(NN, LAMBDA i, j : IF i = j THEN 0 ELSE wf[<<i, j>>]) : wf \in [DPairs -> Wts]}
Assigns == [1..NN -> {0, 1}]

Init == /\ adjm \in {M \in Inputs : CpTotal(NN, M) > 0}
        /\ gam \in Gammas
        /\ c0v \in Assigns
        /\ bbm = CpBB(NN, adjm, gam[1], gam[2])
        /\ cst = CpStart(NN, bbm, c0v)
        /\ pc = "outer"
Round == /\ pc = "outer" /\ cst.flg
         /\ cst' = CpRound(NN, cst)
         /\ pc' = "inner"
         /\ UNCHANGED <<adjm, gam, bbm, c0v>>
Move == /\ pc = "inner"
        /\ \E pick \in 1..NTies(NN, bbm, cst) :
             cst' = CpMove(NN, bbm, cst, pick)
        /\ pc' = IF Len(cst.ixes) = 1 THEN "outer" ELSE "inner"
        /\ UNCHANGED <<adjm, gam, bbm, c0v>>
Stop == /\ pc = "outer" /\ ~cst.flg
        /\ pc' = "done"
        /\ UNCHANGED <<adjm, gam, bbm, c0v, cst>>
Next == Round \/ Move \/ Stop
Spec == Init /\ [][Next]_vars
FairSpec == Spec /\ WF_vars(Next)

(* ---------------------------------------------------------------- invariants --------- *)
TypeInv == /\ IsAssign(NN, cst.cc) /\ IsAssign(NN, cst.ct)
           /\ pc \in {"outer", "inner", "done"}
           /\ \A k \in 1..Len(cst.ixes) : cst.ixes[k] \in 1..NN
           /\ (pc = "inner") => Len(cst.ixes) >= 1
           /\ (pc # "inner") => cst.ixes = <<>>
(* the L0 statistic has the documented reading in connections                             *)
StatisticInv == \A cv \in {cst.cc, cst.ct} : QQ(NN, bbm, cv) = QQEdges(NN, adjm, gam[1], gam[2], cv)
(* refinement: the q the loop keeps is the core-ness of the C it keeps                     *)
QIsCorenessInv == cst.qq = QQ(NN, bbm, cst.cc)
(* "%%% verify the above update %%%" of the toolbox: Qt[w] is the core-ness after node w  *)
(* changed sides                                                                           *)
QtInv == LET Qt == QtOf(NN, bbm, cst.ct) IN \A w \in 1..NN : Qt[w] = QQ(NN, bbm, Flip(NN, cst.ct, w))
(* never worse than the start                                                              *)
MonotoneInv == cst.qq >= QQ(NN, bbm, c0v)
(* the nodes still to be moved in this round are exactly those on which Ct and the round's *)
(* start agree is NOT claimed (C may have been replaced); claimed: no node twice            *)
IxesInv == \A k, l \in 1..Len(cst.ixes) : k # l => cst.ixes[k] # cst.ixes[l]
(* Kernighan-Lin: the loop ends only after a round whose first step found no better single *)
(* move, so the result is a single-node local optimum (L2 => L0 LocalOpt)                  *)
LocalOptInv == (pc = "done") => LocalOpt(NN, bbm, cst.cc)
(* every improving round raises the integer statistic: the loop cannot run 100 rounds      *)
RoundsInv == cst.itn <= MaxRounds
Terminates == <>(pc = "done")
(* "The optimal core/periphery subdivision": the statistic is linear in the +-1 assignment    *)
(* (QQ = sum_i x_i RowSum_i), so the single-move optimum the loop stops in IS the optimal     *)
(* subdivision, and its core-ness is the sum of the absolute row sums                         *)
GlobalOptInv == (pc = "done") => /\ cst.qq = GlobalMax(NN, bbm)
                                 /\ cst.qq = Sum(1..NN, LAMBDA i : Abs(RowSum(NN, bbm, i)))
(* ... already after the first round (later rounds change nothing)                            *)
OneRoundInv == (pc = "outer" /\ cst.itn >= 1) => cst.qq = GlobalMax(NN, bbm)

(* ---------------------------------------------------------------- reordering laws ----- *)
Perms == {p \in [1..NN -> 1..NN] : IsPerm(NN, p)}
Ident == [k \in 1..NN |-> k]
(* loop body of reorderMAT / reorder_matrix / align_matrices: swapping two places of the   *)
(* running order = re-indexing the running matrix by the transposition                     *)
ReorderLawInv ==
  (pc = "outer" /\ cst.itn = 0 /\ c0v = [k \in 1..NN |-> 0] /\ gam = CHOOSE g \in Gammas : TRUE) =>
    \A p \in Perms :
       /\ \A a, b \in 1..NN :
            Reindex(NN, Reindex(NN, adjm, p), SwapAt(Ident, a, b)) = Reindex(NN, adjm, SwapAt(p, a, b))
       /\ IsPerm(NN, SwapAt(p, 1, NN))
       /\ NonzeroBag(NN, Reindex(NN, adjm, p)) = NonzeroBag(NN, adjm)
=============================================================================
