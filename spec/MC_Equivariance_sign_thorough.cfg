SPECIFICATION Spec
CONSTANT NU = 5
CONSTANT ND = 4
CONSTANT NWU = 4
CONSTANT NWD = 3
CONSTANT NS = 3
CONSTANT WMax = 3
CONSTANT Modes = {"sign"}
CONSTANT PFirst = {1, 2, 3, 4, 5}
INVARIANT GroupLaws
INVARIANT DegreesEquivariant
INVARIANT ReachEquivariant
INVARIANT ComponentLabelsEquivariant
INVARIANT DistEquivariant
INVARIANT BetwEquivariant
INVARIANT BetwEnumEquivariant
INVARIANT ClustEquivariant
INVARIANT CoreEquivariant
INVARIANT ClassInvariant
CHECK_DEADLOCK FALSE
