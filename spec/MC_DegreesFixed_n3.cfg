SPECIFICATION Spec
CONSTANT N = 3
CONSTANT Gen = FALSE
CONSTANT KMin = 0
CONSTANT KMax = 99
CONSTANT InputPhase = FALSE
CHECK_DEADLOCK FALSE
INVARIANT TypeOK
INVARIANT TargetsInv
INVARIANT PlacedInv
INVARIANT SwitchInv
INVARIANT DoneContract
