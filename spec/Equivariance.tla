-------------------------------- MODULE Equivariance --------------------------------
(* C04.  The action of the symmetric group S_n on networks and on what a measure    *)
(* returns, and the relation "the measure of the renumbered network is the          *)
(* renumbered measure".  RELATIONAL: nothing here says what a measure is.           *)
(*                                                                                  *)
(* A renumbering is a permutation p of 1..n read as  "new node i is old node p[i]"  *)
(* (numpy: A2 = A[np.ix_(p, p)]), so                                                *)
(*    PermuteMat(n, A, p)[i][j] = A[p[i]][p[j]]        (= BctBase!Permuted)         *)
(*    PermuteVec(n, v, p)[i]    = v[p[i]]                                           *)
(* and an old node k is called Inv(p)[k] afterwards.                                *)
(*                                                                                  *)
(* Output kinds (harness/registry.py):                                              *)
(*   nodevec     per-node vector                 permutes                           *)
(*   pairmat     per-pair matrix                 permutes on both axes              *)
(*   pairstack   sequence of per-pair matrices   each slice permutes                *)
(*   noderows    per-node rows                   rows permute                       *)
(*   scalar      whole-network value(s), flattened          unchanged               *)
(*   bag         distribution: values in no defined order   equal as multisets      *)
(*   bagcols     distribution of tuples                     equal as multisets      *)
(*   partition   label vector                    permutes, up to renaming of labels *)
(*   nodesets    family of node sets             the family of renamed sets         *)
(*   nodesetseq  sequence of node sets           every set renamed                  *)
(* Encoding of observed numbers: num = "int" exact integers (E-int), num = "real"   *)
(* round(x * 10^6) (E-q6, agreement within +-2: summation order changes under the   *)
(* renumbering); +-inf / nan are the reserved values of BctBase and must sit at the *)
(* renumbered positions exactly.  n <= 12; no product is formed.                    *)
EXTENDS BctGraph, BctRational, SequencesExt

(* ------------------------------- the group ---------------------------------------- *)
IsPerm(n, p) == DOMAIN p = 1..n /\ {p[i] : i \in 1..n} = 1..n
Perms(n) == {p \in [1..n -> 1..n] : IsPerm(n, p)}
IdPerm(n) == [i \in 1..n |-> i]
Compose(n, p, q) == [i \in 1..n |-> p[q[i]]]                 \* first p, then q (see ActionLaw)
Inv(n, p) == [k \in 1..n |-> CHOOSE i \in 1..n : p[i] = k]

(* ------------------------------- the action --------------------------------------- *)
PermuteVec(n, v, p) == [i \in 1..n |-> v[p[i]]]
PermuteMat(n, A, p) == Permuted(n, A, p)
PermuteStack(n, T, p) == [k \in DOMAIN T |-> PermuteMat(n, T[k], p)]
(* a set of OLD node names in the NEW numbering                                       *)
RenameSet(n, S, p) == {i \in 1..n : p[i] \in S}
(* a set of NEW node names in the OLD numbering                                       *)
OldNames(S, p) == {p[i] : i \in S}

(* ------------------------- agreement of observed values --------------------------- *)
(* "exact for integer-valued outputs, within +-2 at 10^-6 for real-valued ones;       *)
(*  nan/inf patterns must permute too" (NearQ: non-finite values agree iff equal)     *)
ValAgrees(num, x, y) == IF num = "int" THEN x = y ELSE NearQ(x, y, 2)
IsVec(n, v) == DOMAIN v = 1..n
IsMat(n, X) == IsVec(n, X) /\ \A i \in 1..n : IsVec(n, X[i])

VecPermutes(num, n, o1, o2, p) ==
  /\ IsVec(n, o1) /\ IsVec(n, o2)
  /\ \A i \in 1..n : ValAgrees(num, o2[i], o1[p[i]])
MatPermutes(num, n, o1, o2, p) ==
  /\ IsMat(n, o1) /\ IsMat(n, o2)
  /\ \A i, j \in 1..n : ValAgrees(num, o2[i][j], o1[p[i]][p[j]])
(* pair matrix whose cells in `free` are not determined by the network (exact ties)  *)
MatPermutesExcept(num, n, o1, o2, p, free(_, _)) ==
  /\ IsMat(n, o1) /\ IsMat(n, o2)
  /\ \A i, j \in 1..n : free(p[i], p[j]) \/ ValAgrees(num, o2[i][j], o1[p[i]][p[j]])
StackPermutes(num, n, o1, o2, p) ==
  /\ Len(o1) = Len(o2)
  /\ \A k \in 1..Len(o1) : MatPermutes(num, n, o1[k], o2[k], p)
RowsPermute(num, n, o1, o2, p) ==
  /\ IsVec(n, o1) /\ IsVec(n, o2)
  /\ \A i \in 1..n : /\ Len(o2[i]) = Len(o1[p[i]])
                     /\ \A k \in 1..Len(o2[i]) : ValAgrees(num, o2[i][k], o1[p[i]][k])
SeqUnchanged(num, o1, o2) ==
  /\ Len(o1) = Len(o2)
  /\ \A k \in 1..Len(o1) : ValAgrees(num, o1[k], o2[k])
(* multisets of numbers: sort both; the sorted matching minimises the largest         *)
(* difference, so two bags agree within the tolerance iff their sorted sequences do   *)
Sorted(s) == SortSeq(s, LAMBDA a, b : a < b)
BagUnchanged(num, o1, o2) == SeqUnchanged(num, Sorted(o1), Sorted(o2))
BagOfSeq(s) == [v \in {s[i] : i \in DOMAIN s} |-> Cardinality({i \in DOMAIN s : s[i] = v})]
TupleBagUnchanged(o1, o2) == BagOfSeq(o1) = BagOfSeq(o2)
(* label vectors: node i of the renumbered network is node p[i]; labels are arbitrary *)
PartitionPermutes(n, o1, o2, p) ==
  /\ IsVec(n, o1) /\ IsVec(n, o2)
  /\ \A i, j \in 1..n : (o2[i] = o2[j]) <=> (o1[p[i]] = o1[p[j]])
SetsOf(o) == {SeqToSet(o[k]) : k \in DOMAIN o}
NodeSetsPermute(o1, o2, p) == {OldNames(S, p) : S \in SetsOf(o2)} = SetsOf(o1)
NodeSetSeqPermutes(o1, o2, p) ==
  /\ Len(o1) = Len(o2)
  /\ \A k \in 1..Len(o1) : OldNames(SeqToSet(o2[k]), p) = SeqToSet(o1[k])

(* "the measure of the renumbered network is the renumbered measure"                   *)
Equivariant(kind, num, n, o1, o2, p) ==
  CASE kind = "nodevec"    -> VecPermutes(num, n, o1, o2, p)
    [] kind = "pairmat"    -> MatPermutes(num, n, o1, o2, p)
    [] kind = "pairstack"  -> StackPermutes(num, n, o1, o2, p)
    [] kind = "noderows"   -> RowsPermute(num, n, o1, o2, p)
    [] kind = "scalar"     -> SeqUnchanged(num, o1, o2)
    [] kind = "bag"        -> BagUnchanged(num, o1, o2)
    [] kind = "bagcols"    -> TupleBagUnchanged(o1, o2)
    [] kind = "partition"  -> PartitionPermutes(n, o1, o2, p)
    [] kind = "nodesets"   -> NodeSetsPermute(o1, o2, p)
    [] kind = "nodesetseq" -> NodeSetSeqPermutes(o1, o2, p)
    [] OTHER -> FALSE
Kinds == {"nodevec", "pairmat", "pairstack", "noderows", "scalar", "bag", "bagcols",
          "partition", "nodesets", "nodesetseq"}
(* the sentence of the property that a kind renders (= clause name)                   *)
ClauseOf(kind) ==
  CASE kind \in {"nodevec", "noderows"}              -> "NodeVectorPermutes"
    [] kind \in {"pairmat", "pairstack", "pairmat_tie"} -> "PairMatrixPermutesBothAxes"
    [] kind = "scalar"                               -> "ScalarUnchanged"
    [] kind \in {"bag", "bagcols"}                   -> "DistributionUnchanged"
    [] kind \in {"partition", "nodesets", "nodesetseq"} -> "PartitionPermutesUpToRenaming"
    [] OTHER -> "UnknownKind"

(* --------------------- the renumbered INPUT (re-checked by the spec) --------------- *)
(* act: how an argument is renumbered together with the network                       *)
InputRenumbered(act, n, a, b, p) ==
  CASE act = "mat"       -> IsMat(n, a) /\ b = PermuteMat(n, a, p)
    [] act = "vec"       -> IsVec(n, a) /\ IsVec(n, b) /\ \A i \in 1..n : b[i] = a[p[i]]
    [] act = "ci"        -> IsVec(n, a) /\ IsVec(n, b) /\ \A i \in 1..n : b[i] = a[p[i]]
    [] act = "rows"      -> IsVec(n, a) /\ IsVec(n, b) /\ \A i \in 1..n : b[i] = a[p[i]]
    [] act = "cols"      -> /\ Len(a) = Len(b)
                            /\ \A k \in 1..Len(a) : IsVec(n, a[k]) /\ IsVec(n, b[k])
                                                    /\ \A i \in 1..n : b[k][i] = a[k][p[i]]
    [] act = "node"      -> a \in 1..n /\ b \in 1..n /\ p[b] = a
    [] act = "pairstack" -> Len(a) = Len(b) /\ \A k \in 1..Len(a) : IsMat(n, a[k])
                                                    /\ b[k] = PermuteMat(n, a[k], p)
    [] OTHER -> FALSE

(* ------------------------------- input classes ------------------------------------- *)
(* "has repeated structure": some renumbering other than the identity maps the network *)
(* onto itself (a non-trivial automorphism) - twin nodes, cycles, complete bipartite   *)
(* graphs, disjoint copies, regular graphs ...  Such networks have degenerate spectra  *)
(* and many exact ties.  Depth-first search over partial maps f : 1..k-1 -> nodes.     *)
RECURSIVE AutExt(_, _, _, _, _)
AutExt(n, A, f, k, moved) ==
  IF k > n THEN moved
  ELSE \E v \in (1..n) \ SeqToSet(f) :
         /\ A[v][v] = A[k][k]
         /\ \A i \in 1..(k - 1) : A[f[i]][v] = A[i][k] /\ A[v][f[i]] = A[k][i]
         /\ AutExt(n, A, Append(f, v), k + 1, moved \/ v # k)
HasRepeatedStructure(n, A) == AutExt(n, A, <<>>, 1, FALSE)
(* the same by brute force (mc cross-checks the two)                                   *)
HasAutomorphismBrute(n, A) == \E q \in Perms(n) : q # IdPerm(n) /\ PermuteMat(n, A, q) = A
StructureClass(n, A) ==
  IF HasRepeatedStructure(n, A) THEN "has_repeated_structure" ELSE "no_repeated_structure"
=============================================================================
