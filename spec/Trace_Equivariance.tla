---------------------------- MODULE Trace_Equivariance ----------------------------
(* C04 code -> spec.  Every record holds BOTH evaluations of one measure by the real  *)
(* code:   Call(f, args) -> outs[k].a | raised1    and                                *)
(*         Call(f, p . args) -> outs[k].b | raised2                                   *)
(* together with the renumbering p (1-based; new node i = old node p[i]) and, for     *)
(* every argument that is renumbered with the network, both versions (ins[k].a/.b,    *)
(* as integers `value * scale`).  The spec re-checks that p is a permutation and that *)
(* the second input IS the renumbered first one, then judges                           *)
(*         "the measure of the renumbered network is the renumbered measure"           *)
(* component by component with Equivariance!Equivariant.                               *)
EXTENDS Equivariance, TraceBase
Di == INSTANCE Distance

(* ---- documented domains (outside: the value is not defined by the network) -------- *)
(* leading eigenvector unique only for a connected undirected network                   *)
NeedsConnected == {"eigenvector_centrality_und"}
(* first-passage times exist only when every node reaches every node                    *)
NeedsStronglyConnected == {"mean_first_passage_time", "diffusion_efficiency"}

FirstMat(r) == IF Len(r.ins) >= 1 /\ r.ins[1].act = "mat" THEN r.ins[1].a ELSE <<>>
InDomain(r) ==
  LET A == FirstMat(r) IN
  /\ r.base \in NeedsConnected => (A # <<>> /\ IsSym(r.n, A) /\ Connected(r.n, A))
  /\ r.base \in NeedsStronglyConnected => (A # <<>> /\ StronglyConnected(r.n, A))

(* ---- "number of edges on the shortest path": not determined by the network where    *)
(* two minimum-length paths have different edge counts (exact tie); those cells are    *)
(* free.  Lengths: the matrix itself, or 1/w for transform='inv' (w in {1,2,3}: 6/w).  *)
TieRule(fn) == CASE fn \in {"distance_wei", "distance_wei_floyd"} -> "len"
                 [] fn = "distance_wei_floyd[inv]" -> "inv"
                 [] OTHER -> "none"
TieApplicable(r) ==
  LET A == FirstMat(r) IN
  /\ TieRule(r.fn) # "none" /\ A # <<>> /\ r.scale = 1 /\ r.n <= 10
  /\ \A i, j \in 1..r.n : A[i][j] \in (IF TieRule(r.fn) = "len" THEN 0..4 ELSE {0, 1, 2, 3, 6})
LenMat(r) ==
  LET A == FirstMat(r) IN
  IF TieRule(r.fn) = "len" THEN Di!LenOfAdj(r.n, A)
  ELSE Di!EMat(r.n, LAMBDA i, j : IF A[i][j] = 0 THEN INF ELSE 6 \div A[i][j])
TiedCells(r) ==
  LET Lm == LenMat(r)  D == Di!Dist(r.n, Lm)  WT == Di!WalkTab(r.n, Lm)
  IN {c \in (1..r.n) \X (1..r.n) : Cardinality(Di!MinHops(r.n, D, WT, c[1], c[2])) > 1}

CompOK(r, k) ==
  LET o == r.outs[k] IN
  IF o.kind = "pairmat_tie"
  THEN LET T == TiedCells(r) IN
       MatPermutesExcept(o.num, r.n, o.a, o.b, r.p, LAMBDA i, j : <<i, j>> \in T)
  ELSE Equivariant(o.kind, o.num, r.n, o.a, o.b, r.p)

JudgeClause(r) ==
  Skip("not_a_permutation",    ~IsPerm(r.n, r.p),
  Skip("input_not_renumbered", \E k \in 1..Len(r.ins) :
                                  ~InputRenumbered(r.ins[k].act, r.n, r.ins[k].a, r.ins[k].b, r.p),
  Skip("outside_domain",       ~InDomain(r),
  Skip("tie_rule_not_applicable", \E k \in 1..Len(r.outs) : r.outs[k].kind = "pairmat_tie" /\ ~TieApplicable(r),
  (* position dependence includes raising for one numbering and not for the other      *)
  Chk("RaisesAlike",           r.raised1 = r.raised2,
  Skip("both_raise",           r.raised1 # "",
  LET bad == {k \in 1..Len(r.outs) : ~CompOK(r, k)} IN
  IF bad = {} THEN "ok" ELSE ClauseOf(r.outs[MinOf(bad)].kind)))))))

Class(r) ==
  LET A == FirstMat(r) IN
  IF A = <<>> \/ ~IsMat(r.n, A) THEN "any"
  ELSE IF r.n > 12 THEN "large_network"      \* (the automorphism search is exponential)
  ELSE StructureClass(r.n, A)

Judge(r) ==
  IF "timeout" \in DOMAIN r THEN <<"skip:timeout", "na", "any">>
  ELSE IF "unencodable" \in DOMAIN r THEN <<"skip:unencodable", "na", "any">>
  ELSE <<JudgeClause(r), "na", Class(r)>>

VARIABLES tid, verdict
TInit == tid \in 1..Len(Recs) /\ verdict = <<>>
TNext == /\ verdict = <<>>
         /\ verdict' = Judge(Recs[tid])
         /\ PrintT(VLine(tid, verdict'))
         /\ UNCHANGED tid
TSpec == TInit /\ [][TNext]_<<tid, verdict>>
=============================================================================
