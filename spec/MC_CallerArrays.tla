---------------------------- MODULE MC_CallerArrays ----------------------------
(* C13, mc + gen.  The abstract heap machine of CallerArrays: TLC enumerates every     *)
(* PROGRAM of at most MaxLen calls over the abstract function classes in which later    *)
(* calls receive the caller's original array or the result of an earlier call, with    *)
(* every choice of copy flag and of Return / Raise, and proves on all of them           *)
(*   - the four property statements about the call just made (the very operators that   *)
(*     Trace_CallerArrays applies to recorded real calls),                              *)
(*   - the frame theorem: a buffer changes during a call only if the call is a utility  *)
(*     with copy=False and the buffer is that of its first argument - so whatever the    *)
(*     caller sees changing (through any alias) is explained by an explicit copy=False,  *)
(*   - results of "pure" calls and of copy=True utilities share no buffer with anything *)
(*     that existed before (a later in-place call on them cannot reach the caller).     *)
(* The same run prints every program shape ("G|<json>"); the harness instantiates them  *)
(* with real functions.  With the class "dirty" added (a routine that clears the        *)
(* diagonal of its argument, cf. np.fill_diagonal(W, 0) on the caller's array) the      *)
(* invariant ArgsUnchangedInv FAILS - MC_CallerArrays_defect.cfg, run by the harness to  *)
(* show that the statement is not vacuous.                                              *)
EXTENDS CallerArrays, Json
CONSTANTS MaxLen, Classes
VARIABLES heap,     \* sequence of buffers  [fp, dtype, shape]
          buf,      \* sequence: object -> buffer index
          ver,      \* number of fingerprints handed out so far
          prev,     \* heap before the last call
          last,     \* the last call as a CallerArrays record (+ argobj, resobj)
          prog      \* history: the program so far (gen)
vars == <<heap, buf, ver, prev, last, prog>>

NoCall == [base |-> "none", util |-> FALSE, copy |-> "na", raised |-> FALSE, args |-> <<>>,
           resis |-> 0, argobj |-> 0, resobj |-> 0]
Init == /\ heap = << [fp |-> 0, dtype |-> "float64", shape |-> "n,n"] >>
        /\ buf = <<1>>                          \* object 1 = the caller's matrix W
        /\ ver = 0 /\ prev = heap /\ last = NoCall /\ prog = <<>>

Copies(cls) == IF cls = "util" THEN {"true", "false", "na"} ELSE {"na"}
Written(h, b, v) == [h EXCEPT ![b].fp = v]

Call(cls, copy, a, rz, partial) ==
  LET b == buf[a]
      writes == \/ cls = "dirty"
                \/ (cls = "util" /\ copy = "false" /\ (~rz \/ partial))
      h1 == IF writes THEN Written(heap, b, ver + 1) ELSE heap
      v1 == IF writes THEN ver + 1 ELSE ver
      fresh == cls \in {"pure", "dirty"} \/ (cls = "util" /\ copy # "false")
      inplace == cls = "util" /\ copy = "false"
      robj == IF rz THEN 0 ELSE IF inplace THEN a ELSE Len(buf) + 1
  IN /\ prev' = heap
     /\ IF rz \/ inplace
        THEN heap' = h1 /\ buf' = buf /\ ver' = v1
        ELSE IF fresh
        THEN /\ heap' = Append(h1, [fp |-> v1 + 1, dtype |-> "float64", shape |-> "n,n"])
             /\ buf' = Append(buf, Len(heap) + 1) /\ ver' = v1 + 1
        ELSE heap' = h1 /\ buf' = Append(buf, b) /\ ver' = v1            \* alias
     /\ last' = [base |-> cls, util |-> cls = "util", copy |-> copy, raised |-> rz,
                 args |-> << [fp0 |-> heap[b].fp, dt0 |-> heap[b].dtype, sh0 |-> heap[b].shape,
                              fp1 |-> h1[b].fp, dt1 |-> h1[b].dtype, sh1 |-> h1[b].shape] >>,
                 resis |-> IF robj = a THEN 1 ELSE 0, argobj |-> a, resobj |-> robj]
     /\ prog' = Append(prog, [cls |-> cls, copy |-> copy, arg |-> a, raises |-> rz, res |-> robj])

Next == /\ Len(prog) < MaxLen
        /\ \E cls \in Classes : \E copy \in Copies(cls) : \E a \in 1..Len(buf) :
           \E rz \in BOOLEAN : \E partial \in (IF rz /\ cls = "util" /\ copy = "false" THEN BOOLEAN ELSE {FALSE}) :
              Call(cls, copy, a, rz, partial)
Spec == Init /\ [][Next]_vars

Called == last.base # "none"
(* ---- the property statements, on the call just made --------------------------------- *)
ArgsUnchangedInv            == Called => ArgsUnchanged(last)
UnchangedOnRaiseInv         == Called => UnchangedOnRaise(last)
DtypeShapeUnchangedInv      == Called => DtypeShapeUnchanged(last)
CopyFalseOperatesInPlaceInv == Called => CopyFalseOperatesInPlace(last)
(* ---- frame theorem: the ONLY way any existing buffer changes -------------------------- *)
OnlyCopyFalseWrites ==
  Called => \A b \in 1..Len(prev) :
               heap[b] # prev[b] => (last.util /\ last.copy = "false" /\ b = buf[last.argobj])
(* whatever name the caller holds: it sees a change only as an alias of that argument     *)
CallerSeesOnlyExplicitWrites ==
  Called => \A o \in 1..Len(buf) :
               (buf[o] <= Len(prev) /\ heap[buf[o]] # prev[buf[o]])
                  => (Exempt(last, 1) /\ buf[o] = buf[last.argobj])
(* results of pure calls / copy=True utilities are private                                *)
FreshResultsPrivate ==
  (Called /\ last.resobj > last.argobj /\ last.base # "alias")
     => \A o \in 1..(last.resobj - 1) : buf[o] # buf[last.resobj]
(* fingerprints name contents: two buffers never share a fingerprint, writes renew it     *)
FingerprintsDistinct == \A b1, b2 \in 1..Len(heap) : b1 # b2 => heap[b1].fp # heap[b2].fp

(* ---- gen: every program shape once ------------------------------------------------------ *)
Emit == prog = <<>> \/ PrintT("G|" \o ToJson(prog))
=============================================================================
