SPECIFICATION Spec
CONSTANT N = 4
CONSTANT Finetune = TRUE
CONSTANT QType = "smp"
CONSTANT GN = 3
CONSTANT GD = 4
CONSTANT Vals <- VS2
CONSTANT Gen = TRUE
CHECK_DEADLOCK FALSE
