SPECIFICATION Spec
CONSTANT N = 4
CONSTANT Dir = FALSE
CONSTANT Iters = 3
CONSTANT MaxAtt = 2
CONSTANT Vals <- ValsA
CONSTANT NullModel = FALSE
CONSTANT Gen = TRUE
CONSTANT Frame <- NoFrame
CHECK_DEADLOCK FALSE
