SPECIFICATION Spec
CONSTANT N = 4
CONSTANT Objective = "negative_sym"
CONSTANT Dir = FALSE
CONSTANT GN = 5
CONSTANT GD = 4
CONSTANT Vals <- VS
CONSTANT Gen = FALSE
CONSTANT AllStarts = TRUE
CHECK_DEADLOCK FALSE
INVARIANT BookkeepingInv
INVARIANT AggregationInv
INVARIANT ObjIsModularity
PROPERTY MoveRaisesObj
