SPECIFICATION Spec
CONSTANT N = 4
INVARIANT RoundTrip
INVARIANT PairLaw
CHECK_DEADLOCK FALSE
