-------------------------- MODULE MC_BetweennessChain --------------------------
(* Cross-check of the composition operator BetweennessChain!ChainBetw against the  *)
(* definitions of module Betweenness on small chains (one chain per initial state): *)
(*   Mode "pairs"   every chain of two gadgets, each ANY digraph on 2 or 3 nodes    *)
(*                  (68 x 68 chains, n <= 5): composition = explicit enumeration (E) *)
(*   Mode "triples" every chain of three gadgets of the library Lib below (ties,    *)
(*                  lengths 1..3, one-way, unreachable terminals, cliques, bundles; *)
(*                  n <= 10) with two patterns of scale exponents: = definition (D) *)
(*                  (and = (E) where n <= 6)                                        *)
(*   Mode "quick"   a subset of both (quick tier)                                   *)
EXTENDS BetweennessChain
CONSTANT Mode

DiG(m) == LET P == {p \in (1..m) \X (1..m) : p[1] # p[2]} IN
          {[m |-> m, A |-> Mat(m, LAMBDA i, j : IF <<i, j>> \in E THEN 1 ELSE 0)] : E \in SUBSET P}
Small == DiG(2) \cup DiG(3)

MatOf(m, W) == Mat(m, LAMBDA i, j : IF <<i, j>> \in DOMAIN W THEN W[<<i, j>>] ELSE 0)
Und(W) == [p \in DOMAIN W \cup {<<q[2], q[1]>> : q \in DOMAIN W} |->
             IF p \in DOMAIN W THEN W[p] ELSE W[<<p[2], p[1]>>]]
Lib == <<
  [m |-> 2, A |-> MatOf(2, Und((<<1, 2>> :> 1)))],                                             \* edge
  [m |-> 2, A |-> MatOf(2, (<<1, 2>> :> 2))],                                                  \* one-way edge
  [m |-> 4, A |-> MatOf(4, Und((<<1, 2>> :> 1) @@ (<<2, 4>> :> 1) @@ (<<1, 3>> :> 1) @@ (<<3, 4>> :> 1)))],  \* diamond
  [m |-> 4, A |-> MatOf(4, Und((<<1, 2>> :> 1) @@ (<<2, 4>> :> 3) @@ (<<1, 3>> :> 2) @@ (<<3, 4>> :> 2)))],  \* diamond 1+3 = 2+2
  [m |-> 4, A |-> MatOf(4, (<<1, 2>> :> 1) @@ (<<2, 4>> :> 1) @@ (<<1, 3>> :> 1) @@ (<<3, 4>> :> 1))],       \* one-way diamond
  [m |-> 3, A |-> MatOf(3, Und((<<1, 2>> :> 1) @@ (<<2, 3>> :> 1) @@ (<<1, 3>> :> 2)))],       \* triangle, tie 1+1 = 2
  [m |-> 3, A |-> MatOf(3, (<<1, 2>> :> 1) @@ (<<2, 3>> :> 1) @@ (<<3, 1>> :> 1))],            \* directed 3-cycle
  [m |-> 3, A |-> MatOf(3, Und((<<1, 2>> :> 1)))],                                             \* out is isolated
  [m |-> 4, A |-> MatOf(4, Und((<<1, 2>> :> 1) @@ (<<1, 3>> :> 1) @@ (<<1, 4>> :> 1) @@ (<<2, 3>> :> 1) @@ (<<2, 4>> :> 1) @@ (<<3, 4>> :> 1)))],  \* K4
  [m |-> 4, A |-> MatOf(4, Und((<<1, 2>> :> 1) @@ (<<2, 3>> :> 1) @@ (<<3, 4>> :> 1) @@ (<<2, 4>> :> 2)))],  \* pendant in, tie behind it
  [m |-> 4, A |-> MatOf(4, Und((<<1, 4>> :> 1) @@ (<<4, 2>> :> 1) @@ (<<4, 3>> :> 1) @@ (<<2, 3>> :> 1)))],  \* whiskers behind out
  [m |-> 3, A |-> MatOf(3, (<<1, 2>> :> 1) @@ (<<2, 1>> :> 1) @@ (<<3, 2>> :> 1) @@ (<<2, 3>> :> 3))]        \* asymmetric lengths
>>
Exps == {<<0, 0, 0>>, <<1, 0, 2>>}

Pairs(S1, S2) == {[lib |-> <<a, b>>, seq |-> <<<<1, 0>>, <<2, 0>>>>] : a \in S1, b \in S2}
Triples(ix) == {[lib |-> Lib, seq |-> <<<<t[1], e[1]>>, <<t[2], e[2]>>, <<t[3], e[3]>>>>] :
                  t \in ix \X ix \X ix, e \in Exps}
Chains ==
  IF Mode = "pairs" THEN Pairs(Small, Small)
  ELSE IF Mode = "triples" THEN Triples(1..Len(Lib))
  (* quick tier: a digraph on <= 3 nodes next to a digraph on 2 nodes (either order), *)
  (* and the triples of five library gadgets                                           *)
  ELSE Pairs(Small, DiG(2)) \cup Pairs(DiG(2), Small) \cup Triples({2, 4, 7, 8, 10})

VARIABLE ch
Init == ch \in Chains
Next == UNCHANGED ch
Spec == Init /\ [][Next]_ch

WellFormedInv == ChainOK(ch) /\ ChainDen(ch) <= DenMax
EdgeSetInv == LET n == ChainN(ch)  A == ChainMat(ch) IN
              /\ Cardinality(ChainEdges(ch)) = Cardinality({p \in (1..n) \X (1..n) : Edge(A, p[1], p[2])})
              /\ \A i, j \in 1..n : A[i][j] <= 12
AgreesDInv == ChainAgreesD(ch)
AgreesEInv == ChainN(ch) <= 6 => ChainAgreesE(ch)
=============================================================================
