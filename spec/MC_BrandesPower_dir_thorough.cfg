SPECIFICATION Spec
CONSTANT N = 4
CONSTANT Kind = "dir"
INVARIANT OracleInv
INVARIANT PowInv
INVARIANT TablesInv
INVARIANT BackInv
INVARIANT DiamInv
INVARIANT ResultInv
CHECK_DEADLOCK FALSE
