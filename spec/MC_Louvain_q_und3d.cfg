SPECIFICATION Spec
CONSTANT N = 3
CONSTANT Dir = FALSE
CONSTANT Finetune = FALSE
CONSTANT GN = 1
CONSTANT GD = 1
CONSTANT WMax = 2
CONSTANT Gen = FALSE
CONSTANT MaxSweeps = 50
CHECK_DEADLOCK FALSE
INVARIANT BookkeepingInv
INVARIANT AggregationInv
INVARIANT FinalInv
PROPERTY GainIsTrueDelta
PROPERTY MoveRaisesQ
PROPERTY AggregateKeepsQ
CONSTANT DiagVals <- DiagVals01
