SPECIFICATION Spec
CONSTANT N = 4
INVARIANT FrameInv
INVARIANT ReportedInv
INVARIANT ProcessedInv
INVARIANT PendingInv
INVARIANT LoopEndInv
INVARIANT CandOrderInv
INVARIANT FinalInv
INVARIANT OracleInv
INVARIANT DistinctInv
CHECK_DEADLOCK FALSE
