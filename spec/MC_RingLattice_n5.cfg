SPECIFICATION Spec
CONSTANT N = 5
CONSTANT Gen = FALSE
CONSTANT KMin = 0
CONSTANT KMax = 999
CHECK_DEADLOCK FALSE
INVARIANT TypeOK
INVARIANT FillInv
INVARIANT RemoveInv
INVARIANT DoneContract
INVARIANT DoneIsRingResult
