SPECIFICATION Spec
CONSTANT N = 4
CONSTANT Finetune = FALSE
CONSTANT QType = "gja"
CONSTANT GN = 5
CONSTANT GD = 4
CONSTANT Vals <- VS2
CONSTANT Gen = TRUE
CHECK_DEADLOCK FALSE
