---------------------------- MODULE Trace_Cliques ----------------------------
(* X02 code -> spec: every record is one real call                              *)
(*   Call(clique_communities, A, k) -> Return(M) | Raise(exc)                   *)
(* plus what the harness observed from outside (sys.setprofile, no hook in the  *)
(* library): the arguments (R, P, X) of every call of the inner `bk`, and the   *)
(* list MQ when `maximal_cliques` returned.  r.seen = 1 iff these were seen.    *)
(* Node sets arrive as ascending lists of 1-based node numbers.                 *)
EXTENDS Cliques, TraceBase

NodeSet(s) == {s[i] : i \in DOMAIN s}
SetsOf(ss) == [t \in DOMAIN ss |-> NodeSet(ss[t])]
CallsOf(cs) == [t \in DOMAIN cs |-> [R |-> NodeSet(cs[t].R), P |-> NodeSet(cs[t].P), X |-> NodeSet(cs[t].X)]]

(* domain: symmetric matrix (weights and diagonal are ignored by the routine:   *)
(* binarize, fill_diagonal 0), integer threshold k >= 1                          *)
JudgeSym(r) ==
  LET n == r.n  g == Adj(r.n, r.A)  k == r.k IN
  Skip("threshold_below_one",  k < 1,
  \* the call returns an affiliation matrix
  Chk("Returns",               r.raised = "",
  \* "MxN ... community affiliation matrix"
  Chk("ShapeMxN",              ShapeMxN(n, r.M),
  Chk("Rows01",                Rows01(r.M),
  \* the Bron-Kerbosch stage lists every maximal clique exactly once
  Chk("CliquesAreMaximalCliques", r.seen = 0 \/ CliquesAreMaximalCliques(n, g, SetsOf(r.mq)),
  \* "clique percolation": one row per class of cliques of size >= k sharing >= k-1 nodes
  Chk("CommunitiesArePercolationClasses", CommunitiesArePercolationClasses(n, g, k, r.M),
  "ok"))))))

(* "Input must be undirected"                                                   *)
JudgeAsym(r) == Chk("RejectsAsymmetric", r.raised = "BCTParamError", "ok")

(* drift: the implementation-shaped model predicts the order of the recursive   *)
(* calls, the order of the cliques and the order of the rows                     *)
Drift(r) ==
  IF ~IsSym(r.n, r.A) \/ r.k < 1 THEN "na"
  ELSE LET g == Adj(r.n, r.A)  bk == BKAll(r.n, g) IN
       IF r.seen = 1 /\ CallsOf(r.calls) # bk.calls THEN "differs:calls"
       ELSE IF r.seen = 1 /\ SetsOf(r.mq) # bk.mq THEN "differs:clique_order"
       ELSE IF r.raised # "" THEN "na"
       ELSE IF r.M # PredictedM(r.n, g, r.k) THEN "differs:rows"
       \* a library routine is expected to be silent; this one prints shapes and the overlap matrix
       ELSE IF r.printed > 0 THEN "differs:writes_to_stdout"
       ELSE "same"

Judge(r) == <<IF IsSym(r.n, r.A) THEN JudgeSym(r) ELSE JudgeAsym(r),
              Drift(r),
              IF IsSym(r.n, r.A) THEN CliqueClass(r.n, Adj(r.n, r.A), r.k) ELSE "asymmetric">>

VARIABLES tid, verdict
TInit == tid \in 1..Len(Recs) /\ verdict = <<>>
TNext == /\ verdict = <<>>
         /\ verdict' = Judge(Recs[tid])
         /\ PrintT(VLine(tid, verdict'))
         /\ UNCHANGED tid
TSpec == TInit /\ [][TNext]_<<tid, verdict>>
=============================================================================
