SPECIFICATION Spec
CONSTANT N = 3
CONSTANT Kind = "und"
CHECK_DEADLOCK FALSE
