SPECIFICATION Spec
CONSTANT FNS = {1}
CONSTANT ARGS = {1, 2}
CONSTANT SEEDS = {1, 2}
CONSTANT DRAWS = {1}
CONSTANT MaxLen = 5
CONSTANT Libs = {"good", "stray_global", "ignores_seed", "reseeds_global", "uses_pyrandom", "stray_pyrandom", "reseeds_inner", "fresh_entropy", "nondet"}
CONSTANT Canon = TRUE
CONSTANT GenMode = "none"
CONSTANT Cost <- CostOne
INVARIANT TypeOK
INVARIANT RecordingFaithful
INVARIANT GoodRefinesAllowed
INVARIANT Book
POSTCONDITION Post
CHECK_DEADLOCK FALSE
