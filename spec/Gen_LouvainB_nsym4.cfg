SPECIFICATION Spec
CONSTANT N = 4
CONSTANT Objective = "negative_sym"
CONSTANT Dir = FALSE
CONSTANT GN = 1
CONSTANT GD = 1
CONSTANT Vals <- VS
CONSTANT Gen = TRUE
CONSTANT AllStarts = TRUE
CHECK_DEADLOCK FALSE
