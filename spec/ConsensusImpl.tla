-------------------------------- MODULE ConsensusImpl --------------------------------
(* X02, L1/L2: consensus_und(D, tau, reps, seed) as a state machine over        *)
(* repeated community detection.  The clustering routine is NOT modelled: every *)
(* call may return any partition of the N nodes (weakest contract of            *)
(* modularity_louvain_und_sign: "returns a partition"), so whatever is proved   *)
(* here holds for every random stream.                                          *)
(*   Threshold  dt = D * (D >= tau); fill_diagonal(dt, 0); the branch test      *)
(*   Cluster    cis[:, i] = louvain(dt), i = 1..Reps                            *)
(*   Unique     unique_partitions(cis): relabel by first occurrence, squash     *)
(*              duplicates with the `while (c != 0).sum() > 0` loop; nu > 1:    *)
(*              flag, D = agreement(cis) / reps                                 *)
(* Numbers: D holds numerators over Reps (entries k/Reps, the form every D      *)
(* after the first pass has); tau is tau2 / (2 Reps), so thresholds fall on and *)
(* between the attainable values.  Termination is NOT a property (it is         *)
(* probabilistic): the machine may cycle.                                       *)
EXTENDS Consensus
CONSTANTS N, Reps, AnyLabels
VARIABLES D, tau2, dt, cis, ciu, pc, passes
vars == <<D, tau2, dt, cis, ciu, pc, passes>>

UPairs == {p \in (1..N) \X (1..N) : p[1] < p[2]}
(* Louvain numbers its modules in an order of its own: AnyLabels = TRUE lets a    *)
(* call return every label vector over 1..N, FALSE only first-occurrence ones    *)
Parts == IF AnyLabels THEN [1..N -> 1..N] ELSE {c \in [1..N -> 1..N] : IsRGString(c)}
SymD == {Mat(N, LAMBDA i, j : IF i = j THEN 0 ELSE IF i < j THEN f[<<i, j>>] ELSE f[<<j, i>>]) :
           f \in [UPairs -> 0..Reps]}

(* ---- the machine ----------------------------------------------------------------- *)
Init == /\ D \in SymD
        /\ tau2 \in 0..(2 * Reps + 1)
        /\ dt = Zero(N) /\ cis = <<>> /\ ciu = <<>>
        /\ pc = "top" /\ passes = 0
Threshold == /\ pc = "top"
             /\ dt' = Thresholded(N, D, tau2)
             /\ pc' = IF NoZeroCell(N, dt') THEN "trivial" ELSE "cluster"
             /\ UNCHANGED <<D, tau2, cis, ciu, passes>>
Trivial == /\ pc = "trivial"                       \* ciu = np.arange(1, n + 1)
           /\ ciu' = <<[i \in 1..N |-> i]>>
           /\ pc' = "done"
           /\ UNCHANGED <<D, tau2, dt, cis, passes>>
Cluster == /\ pc = "cluster"
           /\ cis' \in [1..Reps -> Parts]
           /\ pc' = "unique"
           /\ UNCHANGED <<D, tau2, dt, ciu, passes>>
Unique == /\ pc = "unique"
          /\ ciu' = UniquePartitions(cis)
          /\ IF Len(ciu') > 1
             THEN /\ D' = AgreementL0(N, Reps, StackOf(N, cis))     \* numerators over Reps
                  /\ pc' = "top"
                  /\ passes' = IF passes < 2 THEN passes + 1 ELSE passes   \* bounded counter
             ELSE /\ pc' = "done" /\ UNCHANGED <<D, passes>>
          /\ UNCHANGED <<tau2, dt, cis>>
Next == Threshold \/ Trivial \/ Cluster \/ Unique
Spec == Init /\ [][Next]_vars

(* the value returned: np.squeeze(ciu + 1)                                          *)
Result == PlusOne(ciu[1])

(* ---- invariants ------------------------------------------------------------------ *)
TypeInv == /\ IsSym(N, D) /\ DiagZero(N, D)
           /\ \A i, j \in 1..N : D[i][j] \in 0..Reps
(* thresholding keeps exactly the entries >= tau and clears the diagonal             *)
ThresholdInv == pc \in {"cluster", "trivial"} =>
  \A i, j \in 1..N : dt[i][j] = (IF i # j /\ 2 * D[i][j] >= tau2 THEN D[i][j] ELSE 0)
(* the code's first branch (`no zero entry in dt`) can never be taken once the        *)
(* diagonal is cleared - it is dead; the MATLAB test (`no nonzero entry`) is not      *)
DeadBranchInv == pc # "trivial"
(* unique_partitions: pairwise different partitions, exactly the ones that occur,     *)
(* in order of first occurrence, each relabelled 0.. by first occurrence               *)
UniqueInv == pc \in {"top", "done"} /\ cis # <<>> =>
  /\ \A s, t \in DOMAIN ciu : s # t => ~SamePart(ciu[s], ciu[t])
  /\ \A r \in 1..Reps : \E t \in DOMAIN ciu : SamePart(cis[r], ciu[t])
  /\ \A t \in DOMAIN ciu : \E r \in 1..Reps : ciu[t] = ZeroBased(cis[r])
  /\ Len(ciu) = Cardinality({Blocks(cis[r]) : r \in 1..Reps})
(* "If the partitions have not converged to a single representative partition, the   *)
(*  process repeats, starting with the newly built agreement matrix"                  *)
ContinueInv == pc = "top" /\ passes > 0 =>
  /\ \E r, s \in 1..Reps : ~SamePart(cis[r], cis[s])
  /\ \A i, j \in 1..N : i # j => D[i][j] = Cardinality({r \in 1..Reps : cis[r][i] = cis[r][j]})
(* the contract: a valid partition 1..k, and every partition of the last pass is it  *)
StopInv == pc = "done" =>
  /\ Len(ciu) = 1
  /\ IsPartition1toK(N, Result)
  /\ IsRGString(Result)
  /\ \A r \in 1..Reps : SamePart(cis[r], Result)
(* had the first branch been reachable, it would return 2..n+1 (arange(1, n+1) and    *)
(* then `ciu + 1`); Reps = 1 leaves ciu empty (the while loop never runs) and the      *)
(* code raises: outside the model                                                      *)
ASSUME Reps >= 2
=============================================================================
