SPECIFICATION Spec
CONSTANT Machines <- LemmaMachines
CONSTANT WalkDomains <- None
CONSTANT WalkerDomains <- None
CONSTANT LemmaDomains <- TLemma
CONSTANT Q = 0
INVARIANT LemmaMfptExact
INVARIANT LemmaMfptBudget
INVARIANT LemmaMfptRejects
INVARIANT LemmaEdiff
INVARIANT LemmaPagerank
INVARIANT LemmaSeries
CHECK_DEADLOCK FALSE
