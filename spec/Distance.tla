-------------------------------- MODULE Distance --------------------------------
(* C03 / C12.  L0: shortest-path distances of a matrix-encoded graph, defined   *)
(* twice (min-plus least fixpoint; minimum over enumerated simple paths), the   *)
(* hop counts of minimum-length paths, what "is a path" means; and the          *)
(* OPERATOR FORMS of the loops of bct/algorithms/distance.py (one operator per  *)
(* loop body) that DistanceImpl.tla turns into machines and Trace_Distance.tla  *)
(* uses to predict the very output (drift).                                     *)
(*                                                                              *)
(* Encoding.  A LENGTH MATRIX Lm has Lm[i][j] \in Nat \cup {INF}; INF = "no     *)
(* connection" (lengths may be 0: the 'log' transform maps weight 1 to length   *)
(* 0).  An ADJACENCY / python-style matrix G has 0 = "no connection".           *)
(* Bounds: n <= 12, lengths <= 4, so every distance is < 50; INF = 10^9 and     *)
(* Plus saturates, nothing approaches 2^31.  Walk counts (nPATH, CIJpwr) are     *)
(* capped at 10^6 - the code only ever tests them against 0.                    *)
EXTENDS BctGraph, BctRational, SequencesExt

(* eagerly evaluated matrix (TLC keeps [x \in S |-> e] lazy and re-evaluates e   *)
(* on every application; iterated relaxations would blow up exponentially)      *)
EMat(n, f(_, _)) == TLCEval([i \in 1..n |-> TLCEval([j \in 1..n |-> f(i, j)])])
EVec(n, f(_)) == TLCEval([i \in 1..n |-> f(i)])
Plus(a, b) == IF a >= INF \/ b >= INF THEN INF ELSE a + b
Min2(a, b) == IF a <= b THEN a ELSE b
Cap(x) == IF x > 1000000 THEN 1000000 ELSE x
Asc(S) == SetToSortSeq(S, LAMBDA a, b : a < b)          \* np.where order

LenOfAdj(n, G) == EMat(n, LAMBDA i, j : IF G[i][j] # 0 THEN G[i][j] ELSE INF)
HopLen(n, Lm)  == EMat(n, LAMBDA i, j : IF Lm[i][j] < INF THEN 1 ELSE INF)
AdjOfLen(n, Lm) == EMat(n, LAMBDA i, j : IF Lm[i][j] < INF THEN 1 ELSE 0)
IdLen(n) == EMat(n, LAMBDA i, j : IF i = j THEN 0 ELSE INF)
OffPairs(n) == {p \in (1..n) \X (1..n) : p[1] # p[2]}

(* ======================= L0, definition 1: least fixpoint ==================== *)
(* Dist = least X with X = Id (+) X (x) Lm in the (min,+) semiring               *)
RelaxOnce(n, Lm, D) ==
  EMat(n, LAMBDA i, j : Min2(D[i][j], MinOf({Plus(D[i][k], Lm[k][j]) : k \in 1..n})))
RECURSIVE RelaxFix(_, _, _)
RelaxFix(n, Lm, D) == LET D2 == RelaxOnce(n, Lm, D) IN IF D2 = D THEN D ELSE RelaxFix(n, Lm, D2)
Dist(n, Lm) == RelaxFix(n, Lm, IdLen(n))
HopDist(n, Lm) == Dist(n, HopLen(n, Lm))

(* W[h+1][s][t] = minimum length of a walk s -> t with exactly h edges, h <= H    *)
WalkTabH(n, Lm, H) ==
  FoldLeft(LAMBDA acc, h : Append(acc,
             EMat(n, LAMBDA i, j : MinOf({Plus(acc[h][i][k], Lm[k][j]) : k \in 1..n}))),
           <<IdLen(n)>>, [h \in 1..H |-> h])
WalkTab(n, Lm) == WalkTabH(n, Lm, n - 1)
(* edge counts of minimum-length walks within the table WT.  For positive lengths  *)
(* a minimum-length walk is a simple path, so WalkTab (h < n) gives exactly the    *)
(* hop counts of minimum-length paths (mc: OracleInv).  With zero-length edges     *)
(* ('log' of weight 1) a zero-length cycle may be inserted at no cost: walks that  *)
(* revisit nodes tie EXACTLY with the simple paths, and the code - whose float     *)
(* sums of multiples of ln 2 differ in the last bit - does pick them; the trace    *)
(* spec then uses a longer table (3n) and accepts any exactly minimal walk.        *)
(* D = Dist(n, Lm).                                                               *)
MinHops(n, D, WT, s, t) ==
  IF D[s][t] >= INF THEN {} ELSE {h \in 0..(Len(WT) - 1) : WT[h + 1][s][t] = D[s][t]}

(* ============ cheap equivalents for inputs beyond n = 12 (scale regime) ======= *)
(* RelaxFix costs n^3 x (longest minimum path), WalkTab n^4: unaffordable for the  *)
(* 50..300-node inputs of the scale-regime families.  The operators below decide   *)
(* the same questions in about n x (number of connections) steps; mc cross-checks  *)
(* each of them against the definitions above on every small input                 *)
(* (DistanceImpl!FastOracleInv).  No bound on n; lengths and path totals < INF/2.  *)
DOutNb(n, Lm) == EVec(n, LAMBDA i : {j \in 1..n : Lm[i][j] < INF})
DInNb(n, Lm)  == EVec(n, LAMBDA j : {k \in 1..n : Lm[k][j] < INF})
IsHopLen(n, Lm) == \A i, j \in 1..n : Lm[i][j] = 1 \/ Lm[i][j] = INF   \* every connection has length 1
PosLen(n, Lm) == \A i, j \in 1..n : Lm[i][j] >= 1                       \* no zero-length connection

(* breadth-first search by levels over out-neighbour sets: Lv[d + 1] = the nodes   *)
(* whose hop distance from s is d                                                  *)
RECURSIVE BfsGrow(_, _, _)
BfsGrow(Out, seen, Lv) ==
  LET nx == (UNION {Out[k] : k \in Lv[Len(Lv)]}) \ seen
  IN IF nx = {} THEN Lv ELSE BfsGrow(Out, seen \cup nx, Append(Lv, nx))
BfsLevels(Out, s) == BfsGrow(Out, {s}, <<{s}>>)
(* the nodes reachable from s (s included) = {t : Dist[s][t] < INF}               *)
ReachFrom(Out, s) == LET Lv == BfsLevels(Out, s) IN UNION {Lv[d] : d \in 1..Len(Lv)}
(* = HopDist(n, Lm) = Dist(n, HopLen(n, Lm))                                       *)
HopRowFast(n, Out, s) ==
  LET Lv == BfsLevels(Out, s) IN
  FoldLeft(LAMBDA acc, d : FoldSet(LAMBDA j, a : [a EXCEPT ![j] = d - 1], acc, Lv[d]),
           EVec(n, LAMBDA j : INF), [d \in 1..Len(Lv) |-> d])
HopDistFast(n, Lm) == LET Out == DOutNb(n, Lm) IN EVec(n, LAMBDA s : HopRowFast(n, Out, s))

(* ONE relaxation pass decides whether `row` is the vector of distances from s,    *)
(* provided every length is >= 1 (PosLen):  row[s] = 0 and, for j # s,             *)
(* row[j] = min over connections k -> j of row[k] + Lm[k][j]  (INF if there is     *)
(* none).  This equation has exactly one solution in Nat \cup {INF}: a solution is *)
(* <= Dist (induction along a minimum path) and >= Dist (every finite entry is     *)
(* supported by a strictly smaller one, hence - descending to s - by a real walk   *)
(* of that total length).  In = DInNb(n, Lm).                                       *)
IsDistRow(n, Lm, In, s, row) ==
  /\ row[s] = 0
  /\ \A j \in (1..n) \ {s} :
       /\ row[j] >= 0 /\ row[j] <= INF
       /\ row[j] = MinOf({INF} \cup {Plus(row[k], Lm[k][j]) : k \in In[j]})
IsDistMat(n, Lm, D) == LET In == DInNb(n, Lm) IN \A s \in 1..n : IsDistRow(n, Lm, In, s, D[s])

(* edge counts of the minimum-length walks from s to every node (PosLen; row = the *)
(* distances from s): nodes in the order of increasing distance, the counts of j   *)
(* are 1 + the counts of its tight predecessors.  H[t] = MinHops(n, D, WalkTab, s, t) *)
MinHopsRow(n, Lm, In, s, row) ==
  LET order == SetToSortSeq({j \in 1..n : row[j] < INF},
                            LAMBDA a, b : row[a] < row[b] \/ (row[a] = row[b] /\ a < b))
  IN FoldLeft(LAMBDA H, j :
                IF j = s THEN H
                ELSE [H EXCEPT ![j] = UNION {{h + 1 : h \in H[k]} :
                         k \in {k \in In[j] : row[k] < row[j] /\ row[k] + Lm[k][j] = row[j]}}],
              [j \in 1..n |-> IF j = s THEN {0} ELSE {}], order)

(* mean of 1/d over ordered pairs of distinct nodes for n beyond 12 (MeanInvOK     *)
(* below would exceed 2^31): floor(c_v / (v * np) * 10^9) per distinct distance v  *)
(* with c_v pairs, summed: S9 <= exact * 10^9 < S9 + K.  obs6 = round(x * 10^6) of *)
(* a float64 mean x (relative error < 10^-12).  Needs v * np < 2 * 10^8, all v >= 1 *)
(* or 0 (then the mean is +inf).                                                   *)
MeanInvBigInRange(n, D) ==
  \A p \in OffPairs(n) : D[p[1]][p[2]] >= INF \/ D[p[1]][p[2]] < 200000000 \div (n * (n - 1))
MeanInvBigOK(obs6, n, D) ==
  LET np == n * (n - 1)
      fin == {p \in OffPairs(n) : D[p[1]][p[2]] < INF}
      maxv == IF fin = {} THEN 0 ELSE MaxOf({MaxOf({D[i][j] : j \in {j \in 1..n : D[i][j] < INF}} \cup {0}) : i \in 1..n})
      (* bag[v] = number of pairs at distance v, counted in one pass                   *)
      bag == FoldSet(LAMBDA p, acc : [acc EXCEPT ![D[p[1]][p[2]]] = @ + 1], EVec(maxv, LAMBDA v : 0), fin)
      vals == {v \in 1..maxv : bag[v] > 0}
      T9(c, q) == (c \div q) * 1000000000 + Digits(c % q, q, 9, 0)
      S9 == Sum(vals, LAMBDA v : T9(bag[v], v * np))
      K == Cardinality(vals)
  IN IF \E p \in fin : D[p[1]][p[2]] = 0 THEN obs6 = INF
     ELSE /\ obs6 >= 0 /\ obs6 <= 1000000
          /\ obs6 * 1000 >= S9 - 501
          /\ obs6 * 1000 <= S9 + K + 501

(* ============== L0, definition 2: enumerated simple paths ==================== *)
RECURSIVE ExtendPaths(_, _, _, _)
ExtendPaths(n, Lm, p, t) ==
  LET c == p[Len(p)] IN
  IF c = t THEN {p}
  ELSE UNION {ExtendPaths(n, Lm, Append(p, k), t) :
                k \in {k \in 1..n : Lm[c][k] < INF /\ \A x \in 1..Len(p) : p[x] # k}}
SimplePaths(n, Lm, s, t) == ExtendPaths(n, Lm, <<s>>, t)
(* "moves only along existing connections", "starts at s", "ends at t"            *)
IsWalk(n, Lm, p) == /\ Len(p) >= 1
                    /\ \A x \in 1..Len(p) : p[x] \in 1..n
                    /\ \A x \in 1..(Len(p) - 1) : Lm[p[x]][p[x + 1]] < INF
IsPath(n, Lm, p, s, t) == IsWalk(n, Lm, p) /\ p[1] = s /\ p[Len(p)] = t
IsSimple(p) == \A x, y \in 1..Len(p) : x # y => p[x] # p[y]
PathLen(Lm, p) == Sum(1..(Len(p) - 1), LAMBDA x : Lm[p[x]][p[x + 1]])   \* only on walks
Interior(p) == {p[x] : x \in 2..(Len(p) - 1)}
DistByPaths(n, Lm, s, t) ==
  LET P == SimplePaths(n, Lm, s, t) IN
  IF P = {} THEN INF ELSE MinOf({PathLen(Lm, p) : p \in P})
MinPaths(n, Lm, s, t) ==
  LET P == SimplePaths(n, Lm, s, t)  d == DistByPaths(n, Lm, s, t)
  IN {p \in P : PathLen(Lm, p) = d}
MinHopsByPaths(n, Lm, s, t) == {Len(p) - 1 : p \in MinPaths(n, Lm, s, t)}
(* shortest s -> t path whose interior nodes lie in K (Floyd-Warshall invariant)  *)
DistVia(n, Lm, K, s, t) ==
  LET P == {p \in SimplePaths(n, Lm, s, t) : Interior(p) \subseteq K} IN
  IF P = {} THEN INF ELSE MinOf({PathLen(Lm, p) : p \in P})
(* length of the shortest cycle through i (self-loop counts); D = Dist            *)
Cyc(n, Lm, D, i) == MinOf({Plus(Lm[i][k], D[k][i]) : k \in 1..n})

(* ============ means over ordered pairs of distinct nodes (exact) ============= *)
(* observed values are 10^-6 fixed point (round); expected ones exact fractions   *)
MeanDistOK(obs6, n, D) ==
  IF \E p \in OffPairs(n) : D[p[1]][p[2]] >= INF THEN obs6 = INF
  ELSE NearFrac(obs6, Sum(OffPairs(n), LAMBDA p : D[p[1]][p[2]]), n * (n - 1), 2)
(* mean of 1/d, 1/INF = 0, 1/0 = +inf.  Exact over the denominator 27720 =        *)
(* lcm(1..12) when every distance divides it; otherwise term by term per distinct *)
(* distance value with the error budget  #values + rounding of obs (n <= 12).     *)
MeanInvOK(obs6, n, D) ==
  LET np == n * (n - 1)
      fin == {p \in OffPairs(n) : D[p[1]][p[2]] < INF}
      vals == {D[p[1]][p[2]] : p \in fin}
  IN IF 0 \in vals THEN obs6 = INF
     ELSE IF \A v \in vals : 27720 % v = 0
       THEN NearFrac(obs6, Sum(fin, LAMBDA p : 27720 \div D[p[1]][p[2]]), 27720 * np, 2)
       ELSE LET S6 == Sum(vals, LAMBDA v : (1000000 * Count(fin, LAMBDA p : D[p[1]][p[2]] = v)) \div v)
                K  == Cardinality(vals)
            IN /\ IsFinite(obs6)
               /\ obs6 * np >= S6 - (np \div 2) - 1
               /\ obs6 * np <= S6 + K + (np \div 2) + 1

(* ====================== operator forms of the code's loops =================== *)

(* ---- distance_wei: Dijkstra (distance.py 291-325) ---------------------------- *)
(* state: u (source), S (temporary nodes), G1 (G with the columns of permanent    *)
(* nodes zeroed), V (nodes at the current minimum), D, B.  G has 0 = no edge.     *)
DjStart(n, G, u, D, B) ==
  [u |-> u, S |-> 1..n, G1 |-> G, V |-> {u}, D |-> D, B |-> B, pc |-> "while"]
DjInit(n, G) == DjStart(n, G, 1, IdLen(n), EMat(n, LAMBDA i, j : 0))
(* one iteration of `for v in V`: relax all out-neighbours W of v at once;         *)
(* argmin picks the old value on a tie, so B changes on strict improvement only   *)
DjRelaxFrom(n, G1, DB, v) ==
  LET Dr == DB[1]  Br == DB[2]
      better(w) == G1[v][w] # 0 /\ Dr[v] + G1[v][w] < Dr[w]
  IN << EVec(n, LAMBDA w : IF better(w) THEN Dr[v] + G1[v][w] ELSE Dr[w]),
        EVec(n, LAMBDA w : IF better(w) THEN Br[v] + 1 ELSE Br[w]) >>
(* one iteration of `while True` (with both break tests and the advance of `u`)   *)
DjWhile(n, G, st) ==
  LET u  == st.u
      S2 == st.S \ st.V                                           \* S[V] = 0
      G2 == EMat(n, LAMBDA a, b : IF b \in st.V THEN 0 ELSE st.G1[a][b])  \* G1[:, V] = 0
      DB == FoldLeft(LAMBDA acc, v : DjRelaxFrom(n, G2, acc, v),
                     <<st.D[u], st.B[u]>>, Asc(st.V))
      D2 == [st.D EXCEPT ![u] = DB[1]]
      B2 == [st.B EXCEPT ![u] = DB[2]]
      minD == MinOf({DB[1][w] : w \in S2})
      brk == S2 = {} \/ minD >= INF
  IN IF brk
     THEN IF u = n THEN [u |-> u, S |-> S2, G1 |-> G2, V |-> {}, D |-> D2, B |-> B2, pc |-> "done"]
          ELSE DjStart(n, G, u + 1, D2, B2)
     ELSE [u |-> u, S |-> S2, G1 |-> G2, V |-> {w \in 1..n : DB[1][w] = minD},
           D |-> D2, B |-> B2, pc |-> "while"]
RECURSIVE DjRun(_, _, _)
DjRun(n, G, st) == IF st.pc = "done" THEN st ELSE DjRun(n, G, DjWhile(n, G, st))
DijkstraAll(n, G) == LET f == DjRun(n, G, DjInit(n, G)) IN <<f.D, f.B>>

(* ---- distance_wei_floyd (distance.py 385-422) -------------------------------- *)
(* input: the transformed length matrix (INF where the weight is 0).  Pmat holds  *)
(* node ids (python index + 1); the final `Pmat[I] = 0` therefore reads 1.        *)
FwInit(n, Lm) ==
  [k |-> 1, SPL |-> Lm,
   hops |-> EMat(n, LAMBDA i, j : IF Lm[i][j] < INF THEN 1 ELSE 0),
   Pmat |-> EMat(n, LAMBDA i, j : j), pc |-> "for"]
FwStep(n, st) ==                                     \* one iteration of `for k`
  LET k == st.k
      via(i, j)  == Plus(st.SPL[i][k], st.SPL[k][j])           \* i2k_k2j
      path(i, j) == st.SPL[i][j] > via(i, j)
  IN [k |-> k + 1,
      SPL  |-> EMat(n, LAMBDA i, j : Min2(st.SPL[i][j], via(i, j))),
      hops |-> EMat(n, LAMBDA i, j : IF path(i, j) THEN st.hops[i][k] + st.hops[k][j] ELSE st.hops[i][j]),
      Pmat |-> EMat(n, LAMBDA i, j : IF path(i, j) THEN st.Pmat[i][k] ELSE st.Pmat[i][j]),
      pc |-> IF k = n THEN "post" ELSE "for"]
FwPost(n, st) ==                                     \* SPL[I] = 0; hops[I], Pmat[I] = 0, 0
  [k |-> st.k,
   SPL  |-> EMat(n, LAMBDA i, j : IF i = j THEN 0 ELSE st.SPL[i][j]),
   hops |-> EMat(n, LAMBDA i, j : IF i = j THEN 0 ELSE st.hops[i][j]),
   Pmat |-> EMat(n, LAMBDA i, j : IF i = j THEN 1 ELSE st.Pmat[i][j]), pc |-> "done"]
FwNext(n, st) == IF st.pc = "for" THEN FwStep(n, st) ELSE FwPost(n, st)
RECURSIVE FwRun(_, _)
FwRun(n, st) == IF st.pc = "done" THEN st ELSE FwRun(n, FwNext(n, st))
FloydAll(n, Lm) == LET f == FwRun(n, FwInit(n, Lm)) IN <<f.SPL, f.hops, f.Pmat>>

(* retrieve_shortest_path (distance.py 457-467): follow Pmat for hops[s,t] steps  *)
Retrieve(hops, Pmat, s, t) ==
  LET h == hops[s][t] IN
  IF h = 0 THEN <<>>
  ELSE FoldLeft(LAMBDA acc, x : Append(acc, Pmat[acc[Len(acc)]][t]), <<s>>, [x \in 1..h |-> x])

(* ---- distance_bin: algebraic shortest paths (distance.py 237-251) ------------ *)
MatMul01(n, X, G) == EMat(n, LAMBDA i, j : Cap(Sum(1..n, LAMBDA k : X[i][k] * G[k][j])))
AbInit(n, A) ==
  LET G == Bin(n, A) IN
  [G |-> G, D |-> EMat(n, LAMBDA i, j : IF i = j THEN 1 ELSE 0), nn |-> 1, nPATH |-> G,
   L |-> EMat(n, LAMBDA i, j : IF G[i][j] # 0 THEN 1 ELSE 0), pc |-> "while"]
AbStep(n, st) ==
  IF \E i, j \in 1..n : st.L[i][j] # 0                 \* while np.any(L)
  THEN LET D2 == EMat(n, LAMBDA i, j : st.D[i][j] + st.nn * st.L[i][j])   \* D += n*L
           P2 == MatMul01(n, st.nPATH, st.G)
       IN [G |-> st.G, D |-> D2, nn |-> st.nn + 1, nPATH |-> P2,
           L |-> EMat(n, LAMBDA i, j : IF P2[i][j] # 0 /\ D2[i][j] = 0 THEN 1 ELSE 0),
           pc |-> "while"]
  ELSE [G |-> st.G, nn |-> st.nn, nPATH |-> st.nPATH, L |-> st.L, pc |-> "done",
        D |-> EMat(n, LAMBDA i, j : IF i = j THEN 0                      \* fill_diagonal(D, 0)
                                     ELSE IF st.D[i][j] = 0 THEN INF ELSE st.D[i][j])]
RECURSIVE AbRun(_, _)
AbRun(n, st) == IF st.pc = "done" THEN st ELSE AbRun(n, AbStep(n, st))
AlgebraicAll(n, A) == AbRun(n, AbInit(n, A)).D

(* ---- breadth / breadthdist (distance.py 35-104) ------------------------------ *)
(* colours 0 white, 1 gray, 2 black; branch: -1 source, 0 unset, else node id      *)
BrStart(n, s, D) ==
  [src |-> s, Q |-> <<s>>,
   color  |-> EVec(n, LAMBDA v : IF v = s THEN 1 ELSE 0),
   dist   |-> EVec(n, LAMBDA v : IF v = s THEN 0 ELSE INF),
   branch |-> EVec(n, LAMBDA v : IF v = s THEN -1 ELSE 0),
   D |-> D, pc |-> "while"]
BrInit(n) == BrStart(n, 1, EMat(n, LAMBDA i, j : 0))
(* one iteration of `for v in ns` - note that distance[u] is re-read every time   *)
BrSeeNeighbour(u, acc, v) ==
  LET d1 == IF acc.dist[v] = 0 THEN [acc.dist EXCEPT ![v] = acc.dist[u] + 1] ELSE acc.dist
  IN IF acc.color[v] = 0
     THEN [color |-> [acc.color EXCEPT ![v] = 1], dist |-> [d1 EXCEPT ![v] = d1[u] + 1],
           branch |-> [acc.branch EXCEPT ![v] = u], Q |-> Append(acc.Q, v)]
     ELSE [color |-> acc.color, dist |-> d1, branch |-> acc.branch, Q |-> acc.Q]
BrStep(n, A, st) ==
  IF st.Q # <<>>                                        \* one iteration of `while Q`
  THEN LET u == Head(st.Q)
           ns == Asc({v \in 1..n : A[u][v] # 0})
           r == FoldLeft(LAMBDA acc, v : BrSeeNeighbour(u, acc, v),
                         [color |-> st.color, dist |-> st.dist, branch |-> st.branch, Q |-> st.Q], ns)
       IN [src |-> st.src, Q |-> Tail(r.Q), color |-> [r.color EXCEPT ![u] = 2],
           dist |-> r.dist, branch |-> r.branch, D |-> st.D, pc |-> "while"]
  ELSE LET D2 == [st.D EXCEPT ![st.src] = st.dist]      \* D[i, :], _ = breadth(CIJ, i)
       IN IF st.src < n THEN BrStart(n, st.src + 1, D2)
          ELSE [src |-> st.src, Q |-> <<>>, color |-> st.color, dist |-> st.dist,
                branch |-> st.branch, pc |-> "done",          \* D[D == 0] = inf
                D |-> EMat(n, LAMBDA i, j : IF D2[i][j] = 0 THEN INF ELSE D2[i][j])]
RECURSIVE BrRun(_, _, _)
BrRun(n, A, st) == IF st.pc = "done" THEN st ELSE BrRun(n, A, BrStep(n, A, st))
BreadthAll(n, A) == BrRun(n, A, BrInit(n)).D
ROfD(n, D) == EMat(n, LAMBDA i, j : IF D[i][j] < INF THEN 1 ELSE 0)      \* R = (D != inf)

(* ---- reachdist / reachdist2 (distance.py 690-731) ---------------------------- *)
RdInit(n, A) ==
  LET C == Bin(n, A) IN
  [C |-> C, R |-> C, D |-> C, powr |-> 2, P |-> C,
   row |-> {i \in 1..n : OutDeg(n, C, i) # 0},          \* np.delete(range(n), od0)
   col |-> {j \in 1..n : InDeg(n, C, j) # 0},           \* np.delete(range(n), id0)
   pc |-> "call"]
RdStep(n, st) ==
  IF st.pc = "call"                                     \* one call of reachdist2
  THEN LET P2 == MatMul01(n, st.P, st.C)
           R2 == EMat(n, LAMBDA i, j : IF st.R[i][j] # 0 \/ P2[i][j] # 0 THEN 1 ELSE 0)
           D2 == EMat(n, LAMBDA i, j : st.D[i][j] + R2[i][j])
           again == st.powr <= n /\ \E i \in st.row, j \in st.col : R2[i][j] = 0
       IN [C |-> st.C, R |-> R2, D |-> D2, P |-> P2, row |-> st.row, col |-> st.col,
           powr |-> IF again THEN st.powr + 1 ELSE st.powr,
           pc |-> IF again THEN "call" ELSE "post"]
  ELSE [C |-> st.C, R |-> st.R, P |-> st.P, row |-> st.row, col |-> st.col, powr |-> st.powr,
        pc |-> "done",
        D |-> EMat(n, LAMBDA i, j :
                LET d == st.powr - st.D[i][j] + 1 IN           \* D = powr - D + 1
                IF d = n + 2 \/ j \notin st.col \/ i \notin st.row THEN INF ELSE d)]
RECURSIVE RdRun(_, _)
RdRun(n, st) == IF st.pc = "done" THEN st ELSE RdRun(n, RdStep(n, st))
ReachdistAll(n, A) == LET f == RdRun(n, RdInit(n, A)) IN <<f.R, f.D>>

(* ---- navigation_wu (distance.py 946-1003) ------------------------------------ *)
(* L: 0 = no connection; Dm: nodal distances; maxh < 0 renders max_hops=None.     *)
(* status: run | arrived | deadend | backtrack | maxhops | diverges.  The code    *)
(* itself never stops on a cycle of >= 3 nodes when max_hops is None; the model   *)
(* reports "diverges" once more than n*n hops were made (some (last, cur) pair    *)
(* has then repeated and the deterministic walk repeats for ever).                *)
NavStart(i) == [cur |-> i, last |-> i, path |-> <<i>>, plb |-> 0, plw |-> 0, pld |-> 0,
                status |-> "run"]
NavFail(st, why) == [st EXCEPT !.plb = INF, !.plw = INF, !.pld = INF, !.status = why]
NavStep(n, L, Dm, maxh, t, st) ==                        \* one iteration of `while`
  LET nb == {k \in 1..n : L[st.cur][k] # 0}
      dmin == MinOf({Dm[t][k] : k \in nb})
      next == MinOf({k \in nb : Dm[t][k] = dmin})        \* argmin: first minimum
  IN IF st.cur = t THEN [st EXCEPT !.status = "arrived"]
     ELSE IF maxh < 0 /\ st.plb > n * n THEN [st EXCEPT !.status = "diverges"]
     ELSE IF nb = {} THEN NavFail(st, "deadend")
     ELSE IF next = st.last THEN NavFail(st, "backtrack")
     ELSE IF maxh >= 0 /\ st.plb > maxh THEN NavFail(st, "maxhops")
     ELSE [cur |-> next, last |-> st.cur, path |-> Append(st.path, next),
           plb |-> st.plb + 1, plw |-> st.plw + L[st.cur][next],
           pld |-> Plus(st.pld, Dm[st.cur][next]), status |-> "run"]     \* (saturating: a nodal distance may be inf)
RECURSIVE NavRun(_, _, _, _, _, _)
NavRun(n, L, Dm, maxh, t, st) ==
  IF st.status # "run" THEN st ELSE NavRun(n, L, Dm, maxh, t, NavStep(n, L, Dm, maxh, t, st))
NavPair(n, L, Dm, maxh, i, j) == NavRun(n, L, Dm, maxh, j, NavStart(i))
NavAll(n, L, Dm, maxh) ==
  TLCEval([i \in 1..n |-> TLCEval([j \in 1..n |->
            IF i = j THEN NavFail(NavStart(i), "diagonal") ELSE NavPair(n, L, Dm, maxh, i, j)])])
=============================================================================
