SPECIFICATION Spec
CONSTANT N = 4
CONSTANT Dir = FALSE
CONSTANT Conn = FALSE
CONSTANT Latt = FALSE
CONSTANT Mask = FALSE
CONSTANT Iters = 3
CONSTANT KCap = 99
CONSTANT AltD = FALSE
CONSTANT BadPicks = TRUE
CONSTANT Gen = FALSE
CHECK_DEADLOCK FALSE
INVARIANT TypeOK
INVARIANT DegInv
INVARIANT BagInv
INVARIANT DiagInv
INVARIANT SymInv
INVARIANT OutStrInv
INVARIANT SyncInvM
INVARIANT ZeroEffInv
INVARIANT PickAlwaysPossible
INVARIANT ConnInv
INVARIANT MaskInv
PROPERTY LatticeStep
PROPERTY RefinesAbs
PROPERTY EffCounts
