----------------------------- MODULE Trace_Measures -----------------------------
(* X01 code -> spec: every record is one real call  Call(fn, A[, ci][, option]) ->     *)
(* Return(...) | Raise(exc)  of one of the measures of Measures.tla                     *)
(* (harness/props/x01.py).  Record fields:                                              *)
(*   fn    display name, option in brackets ("assortativity_bin[3]")                    *)
(*   base  bct function name, opt  integer option (flag / mode / klevel, -1 = None)     *)
(*   n, A  the integer input matrix (weights are small integers), ci labels (or <<>>)   *)
(*   raised, malformed  exception name / shape complaint of the harness ("" = none)      *)
(*   iv, im  integer outputs: vectors / matrices (inf -> INF, nan -> NAN)                *)
(*   qv, qm  real outputs as 10^-6 fixed point, q2: squares of qv entries (z-scores, r)  *)
(* The oracle is Part 1 of Measures.tla.  Judge dispatches on r.base.                    *)
EXTENDS Measures, TraceBase

TOL == 2       \* 10^-6 units: rounding of the observation + truncation in ToQ6

(* observed real vs exact fraction; Q = 0 = undefined: the code gives nan or inf        *)
NearF(obs, f) == IF f[2] = 0 THEN ~IsFinite(obs)
                 ELSE IF f[2] < 0 THEN NearFrac(obs, -f[1], -f[2], TOL)
                 ELSE NearFrac(obs, f[1], f[2], TOL)
VecNearF(O, X, m) == Len(O) = m /\ \A i \in 1..m : NearF(O[i], X[i])
MatNearF(O, X, n) == \A i, j \in 1..n : NearF(O[i][j], X[i][j])
IsVec(x, m) == DOMAIN x = 1..m
IsMatQ(X, n) == IsSquare(n, X)
LenIs(s, m) == Len(s) = m

(* ------------------------------- degrees, strengths ------------------------------- *)
JDegrees(r) ==
  LET n == r.n  A == r.A IN
  IF r.base = "degrees_und" THEN
    (* "deg: node degree"                                                              *)
    Chk("WellFormed", LenIs(r.iv, 1) /\ IsVec(r.iv[1], n),
    Chk("DegreesEqualsDefinition", r.iv[1] = InDegVec(n, A), "ok"))
  ELSE
    (* "id: node in-degree, od: node out-degree, deg: in-degree + out-degree"          *)
    Chk("WellFormed", LenIs(r.iv, 3) /\ \A k \in 1..3 : IsVec(r.iv[k], n),
    Chk("DegreesEqualsDefinition",
          /\ r.iv[1] = InDegVec(n, A) /\ r.iv[2] = OutDegVec(n, A) /\ r.iv[3] = TotDegVec(n, A),
        "ok"))
JStrengths(r) ==
  LET n == r.n  A == r.A IN
  IF r.base = "strengths_und" THEN
    Chk("WellFormed", LenIs(r.iv, 1) /\ IsVec(r.iv[1], n),
    Chk("StrengthsEqualsDefinition", r.iv[1] = InStrVec(n, A), "ok"))
  ELSE IF r.base = "strengths_dir" THEN
    (* "is: node in-strength, os: node out-strength, str: in-strength + out-strength".  *)
    (* The code returns the third vector only (already on record: it is why             *)
    (* assortativity_wei flags 1-4 raise); that shape is judged against `str` and       *)
    (* reported as drift, the documented triple against all three                        *)
    Chk("WellFormed", Len(r.iv) \in {1, 3} /\ \A k \in 1..Len(r.iv) : IsVec(r.iv[k], n),
    Chk("StrengthsEqualsDefinition",
          IF Len(r.iv) = 1 THEN r.iv[1] = TotStrVec(n, A)
          ELSE r.iv[1] = InStrVec(n, A) /\ r.iv[2] = OutStrVec(n, A) /\ r.iv[3] = TotStrVec(n, A),
        "ok"))
  ELSE
    (* strengths_und_sign: "Spos: nodal strength of positive weights, Sneg: nodal        *)
    (* strength of negative weights, vpos / vneg: total positive / negative weight"      *)
    Chk("WellFormed", LenIs(r.iv, 3) /\ IsVec(r.iv[1], n) /\ IsVec(r.iv[2], n) /\ IsVec(r.iv[3], 2),
    Chk("StrengthsEqualsDefinition",
          r.iv[1] = PosStrVec(n, A) /\ r.iv[3][1] = VecTotal(n, PosStrVec(n, A)),
    (* MATLAB-BCT: Sneg = sum(-W.*(W<0)), vneg = sum(Sneg): magnitudes                   *)
    Chk("NegativeStrengthIsMagnitude",
          r.iv[2] = NegStrVec(n, A) /\ r.iv[3][2] = VecTotal(n, NegStrVec(n, A)),
        "ok")))

(* ------------------------------------ density ------------------------------------- *)
JDensity(r) ==
  LET n == r.n  A == r.A
      und == r.base = "density_und"
      f == IF und THEN DensityUnd(n, A) ELSE DensityDir(n, A)
      K == IF und THEN EdgeCountUnd(n, A) ELSE EdgeCountDir(n, A)
  IN
  Chk("WellFormed", LenIs(r.qv, 1) /\ IsVec(r.qv[1], 1) /\ LenIs(r.iv, 1) /\ IsVec(r.iv[1], 2),
  (* "kden: density; N: number of vertices; k: number of edges"                          *)
  Chk("DensityEqualsDefinition", NearF(r.qv[1][1], f) /\ r.iv[1] = <<n, K>>,
  Chk("DensityIn01", r.qv[1][1] >= 0 /\ r.qv[1][1] <= Q6, "ok")))

(* ------------------------------------ jdegree ------------------------------------- *)
JJdegree(r) ==
  LET n == r.n  A == r.A  z == JSize(n, A) IN
  Chk("WellFormed", LenIs(r.im, 1) /\ IsSquare(z, r.im[1]) /\ LenIs(r.iv, 1) /\ IsVec(r.iv[1], 3),
  Chk("JdegreeEqualsDefinition", r.im[1] = JDegree(n, A),
  (* "J_od: number of vertices with od>id; J_id: ... id>od; J_bl: ... id==od"             *)
  Chk("JdegreeCountsEqualDefinition", r.iv[1] = <<JOd(n, A), JId(n, A), JBl(n, A)>>, "ok")))

(* ------------------------------------ matching ------------------------------------ *)
JMatching(r) ==
  LET n == r.n  A == r.A IN
  IF r.base = "matching_ind" THEN
    Chk("WellFormed", LenIs(r.qm, 3) /\ \A k \in 1..3 : IsMatQ(r.qm[k], n),
    Chk("MatchingEqualsDefinition",
          /\ MatNearF(r.qm[1], MatchingIn(n, A), n)
          /\ MatNearF(r.qm[2], MatchingOut(n, A), n)
          /\ MatNearF(r.qm[3], MatchingAll(n, A), n),
        "ok"))
  ELSE
    Chk("WellFormed", LenIs(r.qm, 1) /\ IsMatQ(r.qm[1], n),
    Chk("MatchingEqualsDefinition", MatNearF(r.qm[1], MatchingUnd(n, A), n),
    (* "The matching index is a symmetric quantity"                                      *)
    Chk("MatchingSymmetric", \A i, j \in 1..n : Abs(r.qm[1][i][j] - r.qm[1][j][i]) <= TOL, "ok")))

(* -------------------------------- edge_nei_overlap --------------------------------- *)
JEdgeOverlap(r) ==
  LET n == r.n  A == r.A
      es == EdgeSeq(n, A)
      K == Len(es)
      deg == IF r.base = "edge_nei_overlap_bu" THEN InDegVec(n, A) ELSE TotDegVec(n, A)
  IN
  Chk("WellFormed", /\ LenIs(r.qm, 1) /\ IsMatQ(r.qm[1], n) /\ LenIs(r.qv, 1) /\ IsVec(r.qv[1], K)
                    /\ LenIs(r.im, 1) /\ IsVec(r.im[1], 2) /\ IsVec(r.im[1][1], K) /\ IsVec(r.im[1][2], K),
  (* "EC: edge neighborhood overlap matrix ... Entries of 'EC' that are 'inf' indicate     *)
  (* that no edge is present"; "ec: edge neighborhood overlap per edge vector"             *)
  Chk("EdgeOverlapEqualsDefinition",
        /\ \A i, j \in 1..n : IF A[i][j] # 0 THEN NearF(r.qm[1][i][j], EdgeOverlap(n, A, i, j))
                                            ELSE r.qm[1][i][j] = INF
        /\ \A e \in 1..K : NearF(r.qv[1][e], EdgeOverlap(n, A, es[e][1], es[e][2])),
  (* "degij: degrees of node pairs connected by each edge"                                 *)
  Chk("EndDegreesEqualDefinition",
        \A e \in 1..K : r.im[1][1][e] = deg[es[e][1]] /\ r.im[1][2][e] = deg[es[e][2]],
      "ok")))

(* ------------------------------------- flow ---------------------------------------- *)
JFlow(r) ==
  LET n == r.n  A == r.A IN
  Chk("WellFormed", /\ LenIs(r.qv, 2) /\ IsVec(r.qv[1], n) /\ IsVec(r.qv[2], 1)
                    /\ LenIs(r.iv, 1) /\ IsVec(r.iv[1], n),
  (* "fc: flow coefficient for each node; total_flo: number of paths that flow across       *)
  (* the central node; FC: average flow coefficient over the network"                       *)
  Chk("FlowEqualsDefinition",
        /\ \A v \in 1..n : r.iv[1][v] = FlowTotal(n, A, v) /\ NearF(r.qv[1][v], FlowCoef(n, A, v))
        /\ NearF(r.qv[2][1], FlowMean(n, A)),
      "ok"))

(* ----------------------------------- rich club -------------------------------------- *)
JRichB(r) ==
  LET n == r.n  A == r.A
      deg == Force(IF r.base = "rich_club_bu" THEN InDegVec(n, A) ELSE TotDegVec(n, A))
      K == IF r.opt < 0 THEN MaxDeg(n, deg) ELSE r.opt
  IN
  Chk("WellFormed", /\ LenIs(r.qv, 1) /\ IsVec(r.qv[1], K)
                    /\ LenIs(r.iv, 2) /\ IsVec(r.iv[1], K) /\ IsVec(r.iv[2], K),
  (* "R: vector of rich-club coefficients for levels 1 to klevel; Nk: number of nodes with   *)
  (* degree > k; Ek: number of edges remaining in subgraph with degree > k"                  *)
  Chk("RichClubEqualsDefinition",
        \A k \in 1..K : /\ r.iv[1][k] = RichNk(n, deg, k)
                        /\ r.iv[2][k] = RichEk(n, A, deg, k)
                        /\ NearF(r.qv[1][k], RichB(n, A, deg, k)),
  (* "the fraction of edges ... out of the maximum number of edges that such nodes might      *)
  (* share": a fraction                                                                       *)
  Chk("RichClubIn01", \A k \in 1..K : IsFinite(r.qv[1][k]) => r.qv[1][k] >= 0 /\ r.qv[1][k] <= Q6,
      "ok")))
JRichW(r) ==
  LET n == r.n  A == r.A
      deg == Force(IF r.base = "rich_club_wu" THEN InDegVec(n, A) ELSE TotDegVec(n, A))
      K == IF r.opt < 0 THEN MaxDeg(n, deg) ELSE r.opt
  IN
  Chk("WellFormed", LenIs(r.qv, 1) /\ IsVec(r.qv[1], K),
  (* "Rw: vector of rich-club coefficients for levels 1 to klevel" (Opsahl et al. 2008).     *)
  (* A level whose club is the whole network is reported as NaN by the MATLAB source too:    *)
  (* NaN or the value of the definition (1) are both accepted there                          *)
  Chk("RichClubEqualsDefinition",
        \A k \in 1..K : \/ NearF(r.qv[1][k], RichW(n, A, deg, k))
                        \/ (ClubGE(n, deg, k) = 1..n /\ IsNan(r.qv[1][k])),
      "ok"))

(* --------------------------------- assortativity ------------------------------------ *)
JAssort(r) ==
  LET f == AssortPQ(r.n, r.A, r.opt) IN
  Chk("WellFormed", LenIs(r.qv, 1) /\ IsVec(r.qv[1], 1),
  (* "a correlation coefficient between the degrees of all nodes on two opposite ends of a    *)
  (* link" - the coefficient of Newman (2002) eq. 4 / Rubinov & Sporns (2010), exact           *)
  Chk("AssortativityEqualsDefinition", NearF(r.qv[1][1], f),
  Chk("AssortativityInMinus1Plus1",
        IsFinite(r.qv[1][1]) => Abs(r.qv[1][1]) <= Q6 + TOL, "ok")))
(* drift slot: is the returned value also the plain Pearson correlation of the two end        *)
(* degrees over the connections (Foster et al. 2010, which the routine cites)?  exact:        *)
(* r^2 = c^2 / (vx vy) and sign r = sign c, as in NullSign!CorrMatches                        *)
AssortDrift(r) ==
  (* flag 0 lists each edge once, in an arbitrary orientation: MC_Measures!XAssort proves   *)
  (* the coefficient equal to Pearson's r over both orientations; nothing to report          *)
  IF r.raised # "" \/ r.malformed # "" \/ r.opt = 0 THEN "na" ELSE
  LET s == AssortPearson(r.n, r.A, r.opt)  robs == r.qv[1][1]  r2obs == r.q2[1][1] IN
  IF Abs(s.c) >= 46000 \/ s.vx >= 46000 \/ s.vy >= 46000 THEN "na"
  ELSE IF s.vx = 0 \/ s.vy = 0 THEN (IF IsFinite(robs) THEN "differs:pearson_undefined" ELSE "same")
  ELSE IF /\ IsFinite(robs) /\ RatOK(s.c * s.c, s.vx * s.vy)
          /\ Abs(r2obs - ToQ6(s.c * s.c, s.vx * s.vy)) <= 4
          /\ (s.c = 0 => Abs(robs) <= 2) /\ (s.c # 0 => Sgn(robs) = Sgn(s.c))
       THEN "same"
  ELSE "differs:not_the_pearson_correlation_over_connections"

(* -------------------------- participation, z-score ----------------------------------- *)
JParticipation(r) ==
  Chk("WellFormed", LenIs(r.qv, 1) /\ IsVec(r.qv[1], r.n),
  (* "P: participation coefficient" = 1 - sum_m (k_im / k_i)^2, 0 without (out) neighbours     *)
  Chk("ParticipationEqualsDefinition",
        VecNearF(r.qv[1], Participation(r.n, r.A, r.ci, r.opt), r.n),
  Chk("ParticipationIn01", \A i \in 1..r.n : r.qv[1][i] >= 0 /\ r.qv[1][i] <= Q6, "ok")))
JZscore(r) ==
  LET n == r.n  A == r.A  ci == r.ci  flag == r.opt IN
  Chk("WellFormed", LenIs(r.qv, 1) /\ IsVec(r.qv[1], n) /\ LenIs(r.q2, 1) /\ IsVec(r.q2[1], n),
  (* "Z: within-module degree Z-score": z = (N k - S) / sqrt(N S2 - S^2), compared by          *)
  (* sign and square; 0 where the module has no spread                                         *)
  Chk("ZscoreEqualsDefinition",
        \A i \in 1..n :
          LET num == ZNum(n, A, ci, flag, i)  var == ZVar(n, A, ci, flag, i)  z == r.qv[1][i] IN
          IF var = 0 \/ num = 0 THEN Abs(z) <= TOL
          ELSE /\ IsFinite(z) /\ Sgn(z) = Sgn(num)
               /\ NearFrac(r.q2[1][i], num * num, var, TOL + 2),
      "ok"))
(* drift slot: MATLAB-BCT divides by the sample standard deviation (N - 1); bctpy documents     *)
(* the population one (test_zi).  The two differ wherever a z-score is not 0.                   *)
ZscoreDrift(r) ==
  IF r.raised # "" \/ r.malformed # "" THEN "na"
  ELSE IF \E i \in 1..r.n : ZVar(r.n, r.A, r.ci, r.opt, i) # 0 /\ ZNum(r.n, r.A, r.ci, r.opt, i) # 0
       THEN "differs:matlab_bct_uses_sample_std" ELSE "same"

(* -------------------------------------- erange ---------------------------------------- *)
JErange(r) ==
  LET n == r.n  A == r.A
      ER == ERange(n, A)
  IN
  Chk("WellFormed", /\ LenIs(r.im, 2) /\ IsSquare(n, r.im[1]) /\ IsSquare(n, r.im[2])
                    /\ LenIs(r.qv, 1) /\ IsVec(r.qv[1], 2),
  (* "Erange: range for each edge, i.e. the length of the shortest path from i to j for edge    *)
  (* c(i,j) after the edge has been removed from the graph"                                     *)
  Chk("ErangeEqualsDefinition", r.im[1] = ER,
  (* "eta: average range for the entire graph" (ignore Inf)                                     *)
  Chk("EtaIsMeanFiniteRange", NearF(r.qv[1][1], EtaPQ(n, ER)),
  (* "Eshort: entries are ones for shortcut edges" (range > 2)                                  *)
  Chk("ShortcutsAreRangeGT2",
        \A i, j \in 1..n : r.im[2][i][j] = (IF <<i, j>> \in Shortcuts(n, ER) THEN 1 ELSE 0),
  (* "fs: fractions of shortcuts in the graph"                                                  *)
  Chk("FsIsFractionOfShortcuts", NearF(r.qv[1][2], FsPQ(n, A, ER)), "ok")))))

(* ---------------------------------- local efficiency ----------------------------------- *)
JEffLocal(r) ==
  Chk("WellFormed", LenIs(r.qv, 1) /\ IsVec(r.qv[1], r.n),
  (* "The local efficiency is the global efficiency computed on the neighborhood of the node"   *)
  Chk("LocalEfficiencyEqualsDefinition", VecNearF(r.qv[1], EffLocal(r.n, r.A), r.n),
  Chk("LocalEfficiencyIn01", \A i \in 1..r.n : r.qv[1][i] >= 0 /\ r.qv[1][i] <= Q6, "ok")))

(* ------------------------------------ dispatch ---------------------------------------- *)
DegreeFns   == {"degrees_und", "degrees_dir"}
StrengthFns == {"strengths_und", "strengths_dir", "strengths_und_sign"}
DensityFns  == {"density_und", "density_dir"}
MatchFns    == {"matching_ind", "matching_ind_und"}
OverlapFns  == {"edge_nei_overlap_bu", "edge_nei_overlap_bd"}
RichBFns    == {"rich_club_bu", "rich_club_bd"}
RichWFns    == {"rich_club_wu", "rich_club_wd"}
PartFns     == {"participation_coef", "module_degree_zscore"}
AllFns == DegreeFns \cup StrengthFns \cup DensityFns \cup MatchFns \cup OverlapFns \cup RichBFns
          \cup RichWFns \cup PartFns
          \cup {"jdegree", "flow_coef_bd", "assortativity_bin", "erange", "efficiency_bin"}
(* routines documented for undirected (symmetric) input only                               *)
NeedsSym(r) ==
  \/ r.base \in {"degrees_und", "strengths_und", "strengths_und_sign", "density_und",
                 "matching_ind_und", "edge_nei_overlap_bu", "rich_club_bu", "rich_club_wu"}
  \/ r.base \in {"assortativity_bin", "participation_coef", "module_degree_zscore"} /\ r.opt = 0
NeedsBinary(r) ==
  r.base \in MatchFns \cup RichBFns \cup {"flow_coef_bd", "erange"}
NeedsNonNeg(r) ==
  r.base \notin {"strengths_und", "strengths_dir", "strengths_und_sign", "degrees_und", "degrees_dir",
                 "module_degree_zscore", "jdegree"}
(* "Assumes ... no self-connections" / "The main diagonal should be empty"                  *)
(* (strengths_und_sign clears the diagonal itself; matching_ind: "Self-connections ... are      *)
(* ignored")                                                                                  *)
NeedsNoDiag(r) == r.base \notin {"strengths_und_sign", "degrees_und", "degrees_dir", "jdegree",
                                 "strengths_und", "strengths_dir", "matching_ind"}
OptOK(r) ==
  CASE r.base = "assortativity_bin" -> r.opt \in 0..4
    [] r.base = "participation_coef" -> r.opt \in 0..2
    [] r.base = "module_degree_zscore" -> r.opt \in 0..3
    [] r.base \in RichBFns \cup RichWFns -> r.opt >= -1 /\ r.opt <= 2 * r.n
    [] OTHER -> TRUE
InDomain(r) ==
  /\ r.base \in AllFns /\ r.n >= 2 /\ r.n <= 10 /\ IsSquare(r.n, r.A)
  /\ \A i, j \in 1..r.n : Abs(r.A[i][j]) <= 4
  /\ OptOK(r)
  /\ r.base \in PartFns => DOMAIN r.ci = 1..r.n
  /\ NeedsSym(r) => IsSym(r.n, r.A)
  /\ NeedsBinary(r) => Is01(r.n, r.A)
  /\ NeedsNonNeg(r) => NonNegM(r.n, r.A)
  /\ NeedsNoDiag(r) => DiagZero(r.n, r.A)

Body(r) ==
  CASE r.base \in DegreeFns   -> JDegrees(r)
    [] r.base \in StrengthFns -> JStrengths(r)
    [] r.base \in DensityFns  -> JDensity(r)
    [] r.base = "jdegree"     -> JJdegree(r)
    [] r.base \in MatchFns    -> JMatching(r)
    [] r.base \in OverlapFns  -> JEdgeOverlap(r)
    [] r.base = "flow_coef_bd" -> JFlow(r)
    [] r.base \in RichBFns    -> JRichB(r)
    [] r.base \in RichWFns    -> JRichW(r)
    [] r.base = "assortativity_bin"  -> JAssort(r)
    [] r.base = "participation_coef" -> JParticipation(r)
    [] r.base = "module_degree_zscore" -> JZscore(r)
    [] r.base = "erange"      -> JErange(r)
    [] r.base = "efficiency_bin" -> JEffLocal(r)

JudgeDomain(r) ==
  (* every routine is a total function on its documented domain: "... returns ..."            *)
  Chk("Returns", r.raised = "",
  Chk("WellFormed", r.malformed = "", Body(r)))

Drift(r) ==
  CASE r.base = "assortativity_bin" -> AssortDrift(r)
    [] r.base = "module_degree_zscore" -> ZscoreDrift(r)
    [] r.base = "strengths_dir" ->
         IF r.raised # "" THEN "na"
         ELSE IF Len(r.iv) = 1 THEN "differs:returns_str_only_docstring_promises_is_os_str" ELSE "same"
    [] OTHER -> "na"

(* input class (for findings)                                                                 *)
ClassOf(r) ==
  LET n == r.n  A == r.A IN
  CASE r.base \in OverlapFns -> IF HasIsolatedEdge(n, A) THEN "has_isolated_edge" ELSE "no_isolated_edge"
    [] r.base = "strengths_und_sign" ->
         IF \E i, j \in 1..n : i # j /\ A[i][j] < 0 THEN "has_negative_weight" ELSE "no_negative_weight"
    (* do the third-party neighbourhoods of some pair overlap without being equal?            *)
    [] r.base = "matching_ind_und" ->
         IF \E c \in OffCells(n) :
              LET X == InNb(n, A, c[1], c[1], c[2])  Y == InNb(n, A, c[2], c[1], c[2]) IN
              X \cap Y # {} /\ X # Y
         THEN "overlapping_unequal_neighbourhoods" ELSE "equal_or_disjoint_neighbourhoods"
    [] r.base = "erange" -> IF Support(n, A) = {} THEN "no_connection" ELSE "has_connection"
    [] OTHER -> IF IsSym(n, A) THEN "symmetric" ELSE "asymmetric"

Judge(r) ==
  IF ~InDomain(r) THEN <<"skip:out_of_domain", "na", "any">>
  (* fs and eta of a network without connections are 0/0                                      *)
  ELSE IF r.base = "erange" /\ Support(r.n, r.A) = {} THEN <<"skip:no_connection", "na", "any">>
  ELSE <<JudgeDomain(r), Drift(r), ClassOf(r)>>

VARIABLES tid, verdict
TInit == tid \in 1..Len(Recs) /\ verdict = <<>>
TNext == /\ verdict = <<>>
         /\ verdict' = Judge(Recs[tid])
         /\ PrintT(VLine(tid, verdict'))
         /\ UNCHANGED tid
TSpec == TInit /\ [][TNext]_<<tid, verdict>>
=============================================================================
