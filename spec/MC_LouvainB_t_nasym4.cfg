SPECIFICATION Spec
CONSTANT N = 4
CONSTANT Objective = "negative_asym"
CONSTANT Dir = FALSE
CONSTANT GN = 1
CONSTANT GD = 1
CONSTANT Vals <- VS
CONSTANT Gen = FALSE
CONSTANT AllStarts = TRUE
CHECK_DEADLOCK FALSE
INVARIANT BookkeepingInv
INVARIANT AggregationInv
INVARIANT ObjIsModularity
PROPERTY MoveRaisesObj
