---- MODULE MC_Cliques ----
EXTENDS BKImpl
====
