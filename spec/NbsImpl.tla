-------------------------------- MODULE NbsImpl --------------------------------
(* C19, L2: the machine of bct.nbs.nbs_bct, one action per loop body.            *)
(*                                                                              *)
(*   pc = "start" --Observe--> "perm" | "raised"   t-tests, threshold, adjacency, *)
(*                                                 get_components, sz_links,     *)
(*                                                 labelled adj, max_sz          *)
(*   pc = "perm"  --Permute(draw)--> "perm"        one pass of `for u in range(k)`*)
(*                                                 draw = rng.permutation(nx+ny) *)
(*                                                 or the signs of 0.5-rng.rand  *)
(*   pc = "perm"  --Finish--> "done"               pvals                          *)
(*                                                                              *)
(* Inputs: N nodes, groups of NX and NY subjects; the edges in VarSet take       *)
(* every table [subject -> Vals], the remaining edges are constant BG for every  *)
(* subject (zero variance, no effect); thresholds tn/TD for tn in TNs; every     *)
(* tail in TailSet; paired when NX = NY and Paired (gen mode: one pseudo-random  *)
(* input per behaviour, action GenInput).  Every draw is a                        *)
(* nondeterministic action parameter.  Products stay far below 2^31 (Nbs.tla).   *)
EXTENDS Nbs, Json

CONSTANTS N, NX, NY, Vals, VarSet, BG, TNs, TD, TailSet, Paired, K,
          KeepDraws,   \* keep the draws in the state (needed by NullIsMaxComponent)
          Gen          \* gen mode: print every finished behaviour

VARIABLES xs, ys, tn, tail, pc,
          supra, adj, szl, maxsz,      \* observed
          u, null, hit, draws, tie, pv
vars == <<xs, ys, tn, tail, pc, supra, adj, szl, maxsz, u, null, hit, draws, tie, pv>>

M == NEdges(N)
Draws == IF Paired THEN [1..NX -> {-1, 1}]
         ELSE {p \in [1..(NX + NY) -> 1..(NX + NY)] : IsPermOf(p, NX + NY)}

ConstX == [s \in 1..NX |-> BG]
ConstY == [s \in 1..NY |-> BG]
Init ==
  /\ IF Gen
     THEN /\ pc = "input" /\ xs = <<>> /\ ys = <<>> /\ tn = 0 /\ tail = "both"
     ELSE /\ \E data \in [VarSet -> [1..(NX + NY) -> Vals]] :
               /\ xs = [e \in 1..M |-> IF e \in VarSet THEN SubSeq(data[e], 1, NX) ELSE ConstX]
               /\ ys = [e \in 1..M |-> IF e \in VarSet THEN SubSeq(data[e], NX + 1, NX + NY)
                                        ELSE ConstY]
          /\ tn \in TNs
          /\ tail \in TailSet
          /\ pc = "start"
  /\ supra = {} /\ adj = Zero(N) /\ szl = <<>> /\ maxsz = 0
  /\ u = 0 /\ null = <<>> /\ hit = 0 /\ draws = <<>> /\ tie = FALSE /\ pv = <<>>

(* gen mode (-simulate): one pseudo-random input per behaviour instead of the         *)
(* enumeration of all of them (TLC!RandomElement draws afresh at every evaluation)     *)
GenCell(mode, first) ==      \* mode 0: noise; 1: first group high; 2: second group high
  IF mode = 0 THEN RandomElement(Vals)
  ELSE IF (mode = 1) = first THEN MaxOf(Vals) - RandomElement({0, 1} \cap Vals)
  ELSE MinOf(Vals) + RandomElement({0, 1} \cap Vals)
GenInput ==
  /\ Gen /\ pc = "input"
  /\ LET mode == [e \in 1..M |-> RandomElement({0, 1, 2})] IN
       /\ xs' = [e \in 1..M |-> IF e \in VarSet THEN [s \in 1..NX |-> GenCell(mode[e], TRUE)]
                                 ELSE ConstX]
       /\ ys' = [e \in 1..M |-> IF e \in VarSet THEN [s \in 1..NY |-> GenCell(mode[e], FALSE)]
                                 ELSE ConstY]
  /\ tn' = RandomElement(TNs)
  /\ tail' = RandomElement(TailSet)
  /\ pc' = "start"
  (* keep only a quarter of the inputs without any supra-threshold edge (the trace of *)
  (* a rejected draw simply ends)                                                    *)
  /\ \/ CodeSupra(Paired, Verdicts(Paired, xs', ys', tn', TD, tail')) # {}
     \/ RandomElement(1..4) = 1
  /\ UNCHANGED <<supra, adj, szl, maxsz, u, null, hit, draws, tie, pv>>

ObsVerdicts == Verdicts(Paired, xs, ys, tn, TD, tail)

Observe ==
  /\ pc = "start"
  /\ LET v == ObsVerdicts
         S == CodeSupra(Paired, v)
         o == CodeObserved(N, S)
     IN /\ supra' = S
        /\ tie' = HasTie(v)
        /\ IF S = {} THEN /\ pc' = "raised"          \* BCTParamError("Unsuitable threshold")
                          /\ UNCHANGED <<adj, szl, maxsz>>
           ELSE /\ pc' = "perm"
                /\ adj' = o.adj /\ szl' = o.szl /\ maxsz' = o.maxsz
  /\ UNCHANGED <<xs, ys, tn, tail, u, null, hit, draws, pv>>

Permute(draw) ==
  /\ pc = "perm" /\ u < K
  /\ LET r == CodeNullEntry(N, Paired, xs, ys, tn, TD, tail, draw) IN
       /\ null' = Append(null, r.val)
       /\ hit' = IF r.val >= maxsz THEN hit + 1 ELSE hit
       /\ tie' = (tie \/ r.tie)
  /\ u' = u + 1
  /\ draws' = IF KeepDraws \/ Gen THEN Append(draws, draw) ELSE draws
  /\ UNCHANGED <<xs, ys, tn, tail, pc, supra, adj, szl, maxsz, pv>>

Finish ==
  /\ pc = "perm" /\ u = K
  /\ pv' = [i \in 1..Len(szl) |-> CountGE(null, szl[i])]
  /\ pc' = "done"
  /\ UNCHANGED <<xs, ys, tn, tail, supra, adj, szl, maxsz, u, null, hit, draws, tie>>

Emit ==
  /\ Gen /\ pc \in {"done", "raised"}
  /\ PrintT("G|" \o ToJson([n |-> N, xs |-> xs, ys |-> ys, tn |-> tn, td |-> TD, tail |-> tail,
                            paired |-> IF Paired THEN 1 ELSE 0, k |-> K,
                            script |-> draws, raised |-> IF pc = "raised" THEN 1 ELSE 0,
                            adj |-> adj, szl |-> szl, null |-> null, cnt |-> pv,
                            tie |-> IF tie THEN 1 ELSE 0]))
  /\ pc' = "emitted"
  /\ UNCHANGED <<xs, ys, tn, tail, supra, adj, szl, maxsz, u, null, hit, draws, tie, pv>>

Next == \/ GenInput
        \/ Observe
        \/ \E d \in Draws : Permute(d)
        \/ Finish
        \/ Emit
Spec == Init /\ [][Next]_vars

(* ------------------------------ invariants ---------------------------------- *)
TypeOK == /\ pc \in {"input", "start", "perm", "raised", "done", "emitted"}
          /\ u \in 0..K /\ Len(null) = u /\ hit \in 0..u
(* the state right after Observe: the observed quantities never change afterwards,  *)
(* so the invariants about them (and the lemmas on the input) are evaluated there   *)
Observed == pc = "perm" /\ u = 0
AfterObserve == Observed \/ pc = "raised"

(* L2 => L0: the thresholded set is a legal supra-threshold set; the call raises   *)
(* only when there is none                                                        *)
SupraRefinesL0 ==
  AfterObserve =>
    LET v == ObsVerdicts IN
    /\ DefSupra(v) \subseteq supra /\ supra \subseteq (DefSupra(v) \cup AmbSupra(v))
    /\ (pc = "raised") <=> (supra = {})
(* adj marks exactly the supra-threshold connections, labelled by component        *)
AdjMarksSupra ==
  Observed => /\ MarkedEdges(N, adj) = supra /\ NoDiagMarks(N, adj) /\ IsSym(N, adj)
LabelsByComponentInv == Observed => LabelsByComponent(N, adj)
(* sz_links[i] = number of connections of the component labelled i (L0 count)      *)
SizesAreLinkCounts ==
  Observed => /\ Len(szl) = Cardinality(LinkComps(N, supra))
              /\ \A i \in 1..Len(szl) : szl[i] = LinksWithLabel(N, adj, i)
              /\ maxsz = MaxLinks(N, supra)
              /\ {szl[i] : i \in 1..Len(szl)}
                   = {LinksIn(N, supra, C) : C \in LinkComps(N, supra)}
(* every null entry is the largest component size under the relabelling drawn      *)
(* (L0: label exchange / regrouping, reachability classes, link counts)            *)
NullIsMaxComponent ==
  (KeepDraws \/ Gen) =>
    \A w \in {Len(null)} \ {0} :     \* the entry just appended (older ones: earlier states)
       null[w] \in NullLegalUnder(N, Paired, xs, ys, tn, TD, tail, draws[w])
NullLenK == pc \in {"done", "emitted"} => Len(null) = K
HitCounts == hit = CountGE(null, maxsz)
(* pvals[i] * k = #{u : null[u] >= size_i} ; the largest component's is hit        *)
PvalsMatchNull ==
  pc = "done" =>
    /\ Len(pv) = Cardinality(LinkComps(N, supra))
    /\ \A i \in 1..Len(pv) : pv[i] = Cardinality({w \in 1..K : null[w] >= LinksWithLabel(N, adj, i)})
    /\ \E i \in 1..Len(pv) : szl[i] = maxsz /\ pv[i] = hit

(* ------------------------ lemmas on the input (evaluated once per input) ------- *)
AtStart == AfterObserve
(* swapping the groups together with the tail: the same verdict on every edge      *)
SwapGroupsAndTailSym ==
  AtStart => Verdicts(Paired, ys, xs, tn, TD, SwapTail(tail)) = ObsVerdicts
(* tail = both: swapping the groups alone                                          *)
TailBothSym ==
  (AtStart /\ tail = "both") => Verdicts(Paired, ys, xs, tn, TD, "both") = ObsVerdicts
(* reordering subjects within a group (paired: the pairs are reordered jointly)    *)
PermsOf(k) == {p \in [1..k -> 1..k] : IsPermOf(p, k)}
Reord(zs, p) == [e \in DOMAIN zs |-> [s \in DOMAIN p |-> zs[e][p[s]]]]
ReorderInv ==
  AtStart =>
    \A p \in PermsOf(NX) : \A q \in (IF Paired THEN {p} ELSE PermsOf(NY)) :
       Verdicts(Paired, Reord(xs, p), Reord(ys, q), tn, TD, tail) = ObsVerdicts
(* the integer triples against the textbook definitions (deviations from the mean, *)
(* everything scaled to integers):                                                *)
(*   two-sample: n1*n2*W = n2^2*sum(n1*x - Sx)^2 + n1^2*sum(n2*y - Sy)^2           *)
(*               where W*(n1+n2) = w, i.e. pooled SS = W/(n1*n2)                    *)
(*   paired:     n*w = sum(n*d - Sd)^2                                              *)
StatIsTextbook ==
  AtStart =>
    \A e \in 1..M :
      LET xe == xs[e]  ye == ys[e]  st == Stat(Paired, xe, ye) IN
      IF Paired
      THEN LET d == [s \in 1..NX |-> xe[s] - ye[s]]  Sd == SeqSum(d) IN
           /\ st.num = Sd
           /\ NX * st.w = Sum(1..NX, LAMBDA s : (NX * d[s] - Sd) * (NX * d[s] - Sd))
      ELSE LET Sx == SeqSum(xe)  Sy == SeqSum(ye) IN
           /\ st.num = NY * Sx - NX * Sy
           /\ NX * NY * st.w =
                (NX + NY) * ( NY * NY * Sum(1..NX, LAMBDA s : (NX * xe[s] - Sx) * (NX * xe[s] - Sx))
                            + NX * NX * Sum(1..NY, LAMBDA s : (NY * ye[s] - Sy) * (NY * ye[s] - Sy)))
(* the code's sign multiplication is the exchange of the two measurements of a pair *)
PairedDrawIsLabelSwap ==
  (AtStart /\ Paired) =>
    \A sg \in Draws : \A e \in 1..M :
      StatP(CodePermX(TRUE, xs, ys, sg)[e], CodePermY(TRUE, xs, ys, sg)[e])
        = StatP(FlipX(xs, ys, sg)[e], FlipY(xs, ys, sg)[e])
=============================================================================
