SPECIFICATION Spec
CONSTANT NG = 4
CONSTANT NS = 4
CONSTANT WMax = 3
CONSTANT Modes = {"dir01", "symw"}
INVARIANT WeightedIsBinaryOn01Dir
INVARIANT DistanceWeiIsBinOn01
INVARIANT UndirectedReductionsOn01
INVARIANT DirectedIsUndirectedOnSymW
INVARIANT ClassesAgree
CHECK_DEADLOCK FALSE
