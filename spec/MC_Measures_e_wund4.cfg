SPECIFICATION Spec
CONSTANT N = 4
CONSTANT Mode = "wund"
CONSTANT WMax = 2
CONSTANT LMax = 0
CONSTANT Checks = {"e"}
CONSTANT PSlice = "all"
INVARIANT XDensity
INVARIANT XJDegree
INVARIANT XMatching
INVARIANT XEdgeOverlap
INVARIANT XFlow
INVARIANT XRichB
INVARIANT XRichW
INVARIANT XAssort
INVARIANT XERange
INVARIANT XEffLocal
INVARIANT XStrengths
INVARIANT XPartition
INVARIANT EGraph
INVARIANT EPartition
CHECK_DEADLOCK FALSE
