----------------------------- MODULE ThresholdImpl -----------------------------
(* C17, L2: threshold_proportional (bct/utils/other.py:82-107) as a machine.    *)
(*                                                                              *)
(*   np.fill_diagonal(W, 0)                                   Prepare           *)
(*   if allclose(W, W.T): W[tril_indices(n)] = 0; ud = 2  else ud = 1           *)
(*   ind = where(W)                                                             *)
(*   I = argsort(W[ind])[::-1]                                Pick (repeated)   *)
(*   en = int(round((n*n-n)*p/ud))                                              *)
(*   W[ind[0][I][en:], ind[1][I][en:]] = 0                    Finish            *)
(*   if ud == 2: W[:,:] = W + W.T                                               *)
(*                                                                              *)
(* The sort is modelled as a selection sort with free choice among equal        *)
(* weights (argsort promises no order among ties): Pick takes any remaining     *)
(* strongest cell until en cells are taken or none is left.  Every reachable    *)
(* result must be legal (L0) and its support a member of KeepFamily.            *)
(* Inputs: every matrix with entries 0..WMax off the diagonal (symmetric ones   *)
(* if Sym), every p = pk/16.                                                    *)
EXTENDS Threshold
CONSTANTS N, Sym, WMax
VARIABLES W0, pk, W, ud, en, kept, pc
vars == <<W0, pk, W, ud, en, kept, pc>>
PD == 16

UPairs == {p \in (1..N) \X (1..N) : p[1] < p[2]}
DPairs == {p \in (1..N) \X (1..N) : p[1] # p[2]}
SymOf(f) == Mat(N, LAMBDA i, j : IF i < j THEN f[<<i, j>>] ELSE IF j < i THEN f[<<j, i>>] ELSE 0)
DirOf(f) == Mat(N, LAMBDA i, j : IF i # j THEN f[<<i, j>>] ELSE 0)
Inputs == IF Sym THEN {SymOf(f) : f \in [UPairs -> 0..WMax]}
          ELSE {DirOf(f) : f \in [DPairs -> 0..WMax]}

Init == /\ W0 \in Inputs
        /\ pk \in 0..PD
        /\ W = W0
        /\ ud = 0
        /\ en = 0
        /\ kept = {}
        /\ pc = "prepare"

Prepare == /\ pc = "prepare"
           /\ LET D == NoDiag(N, W)
                  s == IsSym(N, D)
              IN /\ W' = IF s THEN Mat(N, LAMBDA i, j : IF i < j THEN D[i][j] ELSE 0) ELSE D
                 /\ ud' = IF s THEN 2 ELSE 1
                 /\ en' = TRound((N * N - N) * pk, PD * (IF s THEN 2 ELSE 1))
           /\ pc' = "sort"
           /\ UNCHANGED <<W0, pk, kept>>

Ind == Support(N, W)                        \* where(W) of the prepared matrix
Remaining == Ind \ kept
Pick == /\ pc = "sort"
        /\ Cardinality(kept) < en
        /\ \E c \in Remaining :
             /\ \A d \in Remaining : At(W, c) >= At(W, d)
             /\ kept' = kept \cup {c}
        /\ UNCHANGED <<W0, pk, W, ud, en, pc>>

Finish == /\ pc = "sort"
          /\ (Cardinality(kept) = en \/ Remaining = {})
          /\ LET Cut == Mat(N, LAMBDA i, j : IF <<i, j>> \in kept THEN W[i][j] ELSE 0)
             IN W' = IF ud = 2 THEN Mat(N, LAMBDA i, j : Cut[i][j] + Cut[j][i]) ELSE Cut
          /\ pc' = "done"
          /\ UNCHANGED <<W0, pk, ud, en, kept>>

Next == Prepare \/ Pick \/ Finish
Spec == Init /\ [][Next]_vars

(* ---- invariants ------------------------------------------------------------ *)
(* the number of links to be preserved is the L0 target; ud=2 exactly for       *)
(* symmetric input                                                              *)
PrepareInv == pc # "prepare" =>
  /\ (ud = 2) = SymOffDiag(N, W0)
  /\ en = Target(N, ud = 2, pk, PD)
(* the picked cells are always among the strongest present ones                 *)
PickInv == pc = "sort" =>
  /\ kept \subseteq Present(N, W0, ud = 2)
  /\ Ind = Present(N, W0, ud = 2)
  /\ Strongest(W, Ind, kept)
  /\ Cardinality(kept) <= en
(* refinement: every result the machine can produce is legal and its support    *)
(* belongs to the family                                                        *)
ResultLegalInv == pc = "done" =>
  /\ LegalProportional(N, W0, pk, PD, W)
  /\ kept \in KeepFamily(N, W0, pk, PD)
  /\ W = OutOf(N, W0, ud = 2, kept)
(* L0 sanity on every input: the family is never empty, every member gives a    *)
(* legal (for symmetric input: symmetric) output, and the code's usual          *)
(* tie-break is one of the members                                              *)
FamilyInv == (pc = "sort" /\ kept = {}) =>
  LET F == KeepFamily(N, W0, pk, PD)
      s == SymOffDiag(N, W0)
  IN /\ F # {}
     /\ \A S \in F : LegalProportional(N, W0, pk, PD, OutOf(N, W0, s, S))
     /\ ImplKept(N, W0, pk, PD) \in F
(* rounding: the closed form equals the brute definition on the whole grid      *)
RoundInv == (pc = "sort" /\ kept = {}) =>
  \A K \in 0..30 : TRound(pk * K, PD) = TRoundBrute(pk * K, PD)
=============================================================================
