SPECIFICATION Spec
CONSTANT N = 4
CONSTANT Kind = "und"
INVARIANT OracleInv
INVARIANT PowInv
INVARIANT TablesInv
INVARIANT BackInv
INVARIANT DiamInv
INVARIANT ResultInv
CHECK_DEADLOCK FALSE
