SPECIFICATION Spec
CONSTANT N = 5
CONSTANT Dir = FALSE
CONSTANT Iters = 3
CONSTANT MaxAtt = 2
CONSTANT Vals <- ValsC
CONSTANT NullModel = FALSE
CONSTANT Gen = TRUE
CONSTANT Frame <- NoFrame
CHECK_DEADLOCK FALSE
