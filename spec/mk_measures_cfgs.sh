#!/bin/sh
# generates the MC_Measures_*.cfg instances (X01).  usage: sh mk_measures_cfgs.sh
cd "$(dirname "$0")" || exit 2
mk() {  # name N Mode WMax LMax Checks PSlice
cat > "MC_Measures_$1.cfg" <<EOT
SPECIFICATION Spec
CONSTANT N = $2
CONSTANT Mode = "$3"
CONSTANT WMax = $4
CONSTANT LMax = $5
CONSTANT Checks = $6
CONSTANT PSlice = "$7"
INVARIANT XDensity
INVARIANT XJDegree
INVARIANT XMatching
INVARIANT XEdgeOverlap
INVARIANT XFlow
INVARIANT XRichB
INVARIANT XRichW
INVARIANT XAssort
INVARIANT XERange
INVARIANT XEffLocal
INVARIANT XStrengths
INVARIANT XPartition
INVARIANT EGraph
INVARIANT EPartition
CHECK_DEADLOCK FALSE
EOT
}
# cross-checks and range lemmas
mk x_und4   4 und  1 0 '{"x"}' none
mk x_und5   5 und  1 0 '{"x"}' none
mk x_dir3   3 dir  1 0 '{"x"}' none
mk x_dir4   4 dir  1 0 '{"x"}' none
mk x_wund4  4 wund 2 0 '{"x"}' none
mk x_wdir3  3 wdir 2 0 '{"x"}' none
mk x_sund3  3 sund 2 0 '{"x"}' none
mk x_sund4  4 sund 1 0 '{"x"}' none
# partitions: cross-checks + equivariance (all permutations)
mk p_und4   4 und  1 3 '{"p", "ep"}' all
mk p_und4g  4 und  1 2 '{"p", "ep"}' generators
mk p_dir3   3 dir  1 3 '{"p", "ep"}' all
mk p_wund3  3 wund 2 3 '{"p", "ep"}' all
mk p_dir4   4 dir  1 2 '{"p", "ep"}' generators
# equivariance of the graph operators, all permutations
mk e_und4   4 und  1 0 '{"e"}' all
mk e_dir3   3 dir  1 0 '{"e"}' all
mk e_dir4   4 dir  1 0 '{"e"}' all
mk e_dir4g  4 dir  1 0 '{"e"}' generators
mk e_wund4  4 wund 2 0 '{"e"}' all
mk e_wdir3  3 wdir 2 0 '{"e"}' all
mk e_sund3  3 sund 2 0 '{"e"}' all
mk e_und5g  5 und  1 0 '{"e"}' generators
