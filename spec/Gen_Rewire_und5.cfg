SPECIFICATION Spec
CONSTANT N = 5
CONSTANT Dir = FALSE
CONSTANT Conn = FALSE
CONSTANT Latt = FALSE
CONSTANT Mask = FALSE
CONSTANT Iters = 3
CONSTANT KCap = 99
CONSTANT AltD = FALSE
CONSTANT BadPicks = TRUE
CONSTANT Gen = TRUE
CHECK_DEADLOCK FALSE
