SPECIFICATION Spec
CONSTANT FNS = {1, 2}
CONSTANT ARGS = {1, 2}
CONSTANT SEEDS = {1, 2}
CONSTANT DRAWS = {1}
CONSTANT MaxLen = 3
CONSTANT Libs = {"good"}
CONSTANT Canon = FALSE
CONSTANT GenMode = "none"
CONSTANT Cost <- CostMixed
INVARIANT TypeOK
INVARIANT RecordingFaithful
INVARIANT GlobalUntouchedInv
INVARIANT PyUntouchedInv
INVARIANT SeededFunctional
INVARIANT IntEqualsRandomState
INVARIANT UnseededFunctional
INVARIANT ReseedReproducible
INVARIANT GoodRefinesAllowed
PROPERTY SeededLeavesStreams
PROPERTY PyNeverConsumed
CHECK_DEADLOCK FALSE
