SPECIFICATION Spec
CONSTANT N = 2
CONSTANT Sym = FALSE
CONSTANT WMax = 3
CHECK_DEADLOCK FALSE
