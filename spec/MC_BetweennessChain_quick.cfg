SPECIFICATION Spec
CONSTANT Mode = "quick"
INVARIANT WellFormedInv
INVARIANT EdgeSetInv
INVARIANT AgreesDInv
INVARIANT AgreesEInv
CHECK_DEADLOCK FALSE
