SPECIFICATION Spec
CONSTANT N = 5
CONSTANT Gen = TRUE
CONSTANT KMin = 0
CONSTANT KMax = 99
CONSTANT InputPhase = TRUE
CHECK_DEADLOCK FALSE
INVARIANT TypeOK
INVARIANT TargetsInv
INVARIANT PlacedInv
INVARIANT SwitchInv
INVARIANT DoneContract
