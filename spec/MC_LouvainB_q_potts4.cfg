SPECIFICATION Spec
CONSTANT N = 4
CONSTANT Objective = "potts"
CONSTANT Dir = FALSE
CONSTANT GN = 5
CONSTANT GD = 4
CONSTANT Vals <- V01
CONSTANT Gen = FALSE
CONSTANT AllStarts = FALSE
CHECK_DEADLOCK FALSE
INVARIANT BookkeepingInv
INVARIANT AggregationInv
INVARIANT ObjIsModularity
PROPERTY MoveRaisesObj
