---------------------------- MODULE MC_PermLemma ----------------------------
(* Latticisers: R := R0[ix_(p,p)] ... rewire ... Rlatt := Rrp[ix_(q,q)].          *)
(* Lemma (all digraphs on N nodes, all p in S_N): with q = the inverse permutation *)
(* of p, un-permuting is the inverse of permuting, the returned pair satisfies    *)
(* Rrp = Rlatt[ix_(p,p)], and an abstract swap performed in latticisation order   *)
(* keeps every node's degrees in the caller's numbering.                          *)
EXTENDS Rewire
CONSTANT N
VARIABLES R0, p
DPairs == {c \in (1..N) \X (1..N) : c[1] # c[2]}
Perms == {f \in [1..N -> 1..N] : IsPerm(N, f)}
Init == /\ R0 \in {Mat(N, LAMBDA i, j : IF <<i, j>> \in E THEN 1 + ((i + 2 * j) % 2) ELSE 0) : E \in SUBSET DPairs}
        /\ p \in Perms
Next == UNCHANGED <<R0, p>>
Spec == Init /\ [][Next]_<<R0, p>>
Rp == Reindex(N, R0, p)
Undo(R) == Reindex(N, R, InvPerm(N, p))
RoundTrip == Undo(Rp) = R0
PairLaw == \A a, b, c, d \in 1..N :
             CanSwapDir(Rp, a, b, c, d) =>
               LET Rrp == SwapDir(N, Rp, a, b, c, d)  Rlatt == Undo(Rrp) IN
               /\ Rrp = Reindex(N, Rlatt, p)
               /\ SameDegrees(N, R0, Rlatt)
               /\ SameBag(N, R0, Rlatt)
=============================================================================
