SPECIFICATION Spec
CONSTANT N = 3
CONSTANT MaxM = 2
CONSTANT Canonical = TRUE
CONSTANT LabelPool <- PoolGapped
CONSTANT Buffs = {1}
CONSTANT Wts = {1, 2}
CONSTANT AsCoded = TRUE
INVARIANT DummyInv
INVARIANT ChunkInv
INVARIANT PartialInv
INVARIANT FinalInv
INVARIANT WPartialInv
INVARIANT WFinalInv
INVARIANT UnitWeightsInv
CHECK_DEADLOCK FALSE
