---- MODULE MC_MotifLib ----
EXTENDS MotifLibImpl
====
