SPECIFICATION Spec
CONSTANT N = 4
CONSTANT Dir = TRUE
INVARIANT ProbeSound
CHECK_DEADLOCK FALSE
