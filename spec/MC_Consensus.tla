---- MODULE MC_Consensus ----
EXTENDS ConsensusImpl
====
