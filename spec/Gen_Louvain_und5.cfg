SPECIFICATION Spec
CONSTANT N = 5
CONSTANT Dir = FALSE
CONSTANT Finetune = FALSE
CONSTANT GN = 3
CONSTANT GD = 4
CONSTANT WMax = 1
CONSTANT Gen = TRUE
CONSTANT MaxSweeps = 50
CHECK_DEADLOCK FALSE
