---- MODULE MC_Randomizer ----
EXTENDS RandomizerImpl
====
