---- MODULE MC_Distance ----
(* input domains of the DistanceImpl machines per property and tier (cfg files    *)
(* cannot spell tuples or negative numbers)                                       *)
EXTENDS DistanceImpl
C03Machines == {"dijkstra", "floyd", "algebraic", "bfs", "reach"}
C12Machines == {"floyd", "nav"}
None == {}
(* <<n, sym, lens>> *)
QDj == {<<3, FALSE, {1, 2, 3}>>, <<4, TRUE, {1, 2}>>}
QFw == {<<3, FALSE, {0, 1, 2}>>, <<4, TRUE, {0, 1, 2}>>}
TDj == {<<3, FALSE, {1, 2, 3}>>, <<4, TRUE, {1, 2, 3}>>, <<4, FALSE, {1}>>, <<5, TRUE, {1}>>}
TFw == {<<3, FALSE, {0, 1, 2, 3}>>, <<4, TRUE, {0, 1, 2, 3}>>, <<4, FALSE, {1}>>, <<5, TRUE, {1}>>}
(* <<n, loopnodes>> *)
QBin == {<<3, {1, 2, 3}>>}
TBin == {<<3, {1, 2, 3}>>, <<4, {2, 3}>>}
(* <<n, sym>> *)
QBfs == {<<3, FALSE>>, <<4, TRUE>>}
TBfs == {<<4, FALSE>>, <<5, TRUE>>}
(* <<n, und, dists, maxhops>>; -1 renders max_hops=None *)
QNav == {<<3, FALSE, {1, 2}, {-1, 1, 2, 3}>>, <<4, TRUE, {1}, {-1, 2}>>}
TNav == {<<3, FALSE, {1, 2, 3}, {-1, 0, 1, 2, 4}>>, <<4, TRUE, {1, 2}, {-1, 0, 1, 2, 4}>>}
====
