-------------------------------- MODULE BctGraph --------------------------------
(* L0: reachability, components, connectivity of a matrix-encoded graph.       *)
EXTENDS BctBase

(* nodes reachable from the set S by >= 0 steps along nonzero cells            *)
RECURSIVE GrowReach(_, _, _)
GrowReach(n, A, S) ==
  LET S2 == S \cup {j \in 1..n : \E i \in S : A[i][j] # 0}
  IN IF S2 = S THEN S ELSE GrowReach(n, A, S2)
ReachSet(n, A, s) == GrowReach(n, A, {s})
Reaches(n, A, s, t) == t \in ReachSet(n, A, s)

(* independent second definition: exists a simple path (used to cross-check)   *)
RECURSIVE PathExists(_, _, _, _, _)
PathExists(n, A, s, t, visited) ==
  \/ s = t
  \/ \E k \in (1..n) \ visited : A[s][k] # 0 /\ PathExists(n, A, k, t, visited \cup {k})
ReachesByPath(n, A, s, t) == PathExists(n, A, s, t, {s})

SymSupport(n, A) == Mat(n, LAMBDA i, j : IF A[i][j] # 0 \/ A[j][i] # 0 THEN 1 ELSE 0)

(* weakly-connected components = classes of mutual reachability in the          *)
(* symmetrised support                                                          *)
ComponentOf(n, A, v) == ReachSet(n, SymSupport(n, A), v)
Components(n, A) == {ComponentOf(n, A, v) : v \in 1..n}
Connected(n, A) == n = 0 \/ ComponentOf(n, A, 1) = 1..n
StronglyConnected(n, A) == \A s \in 1..n : ReachSet(n, A, s) = 1..n
=============================================================================
