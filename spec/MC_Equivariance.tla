---------------------------- MODULE MC_Equivariance ----------------------------
(* C04, mc.  A sanity theorem about the ORACLES: every L0 definition that the other  *)
(* topic modules give (degrees/strengths in BctBase, reachability and components in  *)
(* BctGraph, the set-merging labels of Components, Dist and the hop-count tie sets of *)
(* Distance, betweenness counts of Betweenness, the triangle definitions of           *)
(* Clustering, CoreSet of KCore) commutes with the renumbering of nodes:              *)
(*                 Op(p . A) = p . Op(A)                                              *)
(* for ALL networks of each mode and ALL permutations p.  Combined with the           *)
(* conformance checks C03/C08/C09/C15/C16 (code = oracle on these domains) it         *)
(* transfers equivariance to the code there.  Also: the group-action laws, sharpness  *)
(* of the Equivariant relation (it accepts the renumbered output and nothing else on  *)
(* injective data), and invariance + brute-force cross-check of the input class.      *)
(*                                                                                    *)
(* Modes (cells x values):  "und" upper pairs x {0,1};  "dir" ordered pairs x {0,1};  *)
(* "wund" upper pairs x 0..WMax;  "wdir" ordered pairs x 0..WMax;  "sign" upper pairs *)
(* x -WMax..WMax.  N[mode] nodes.  Staged enumeration (half the cells per step) so    *)
(* that all workers share the work; PFirst slices the permutations by their first   *)
(* entry so that several TLC runs can share one mode (all slices together = S_n).  Weights <= 3, n <= 5: everything is far below    *)
(* 2^31.                                                                              *)
EXTENDS Equivariance
CONSTANTS NU, ND, NWU, NWD, NS, WMax, Modes,
          PFirst          \* slice of the permutations handled by this run: p[1] \in PFirst
NOf == [und |-> NU, dir |-> ND, wund |-> NWU, wdir |-> NWD, sign |-> NS]
Di == INSTANCE Distance
Bw == INSTANCE Betweenness
Cl == INSTANCE Clustering
KC == INSTANCE KCore
Co == INSTANCE Components

VARIABLES mode, stage, A, p, PA          \* PA = the renumbered network (computed once per state)
vars == <<mode, stage, A, p, PA>>
UPairs(n) == {c \in (1..n) \X (1..n) : c[1] < c[2]}
DPairs(n) == {c \in (1..n) \X (1..n) : c[1] # c[2]}
Cells(m) == IF m \in {"und", "wund", "sign"} THEN UPairs(NOf[m]) ELSE DPairs(NOf[m])
Vals(m) == CASE m \in {"und", "dir"} -> {0, 1}
             [] m \in {"wund", "wdir"} -> 0..WMax
             [] m = "sign" -> (-WMax)..WMax
First(m) == {c \in Cells(m) : c[1] <= (NOf[m] + 1) \div 2}
MatOf(m, w) ==
  LET n == NOf[m] IN
  IF m \in {"und", "wund", "sign"}
  THEN Mat(n, LAMBDA i, j : IF i < j THEN w[<<i, j>>] ELSE IF j < i THEN w[<<j, i>>] ELSE 0)
  ELSE Mat(n, LAMBDA i, j : IF i = j THEN 0 ELSE w[<<i, j>>])

Init == mode \in Modes /\ stage = 0 /\ A = <<>> /\ PA = <<>>
        /\ p \in {q \in Perms(NOf[mode]) : q[1] \in PFirst}
Choose1 == /\ stage = 0 /\ stage' = 1 /\ UNCHANGED <<mode, p, PA>>
           /\ A' \in [First(mode) -> Vals(mode)]
Choose2 == /\ stage = 1 /\ stage' = 9 /\ UNCHANGED <<mode, p>>
           /\ \E w2 \in [Cells(mode) \ First(mode) -> Vals(mode)] : A' = MatOf(mode, A @@ w2)
           /\ PA' = PermuteMat(NOf[mode], A', p)
Next == Choose1 \/ Choose2
Spec == Init /\ [][Next]_vars

n == NOf[mode]
At(ms) == stage = 9 /\ mode \in ms
AllModes == {"und", "dir", "wund", "wdir", "sign"}
Positive == {"und", "dir", "wund", "wdir"}
Sym == {"und", "wund", "sign"}
NodeVec(f(_, _)) == [i \in 1..n |-> f(A, i)]
NodeVecP(f(_, _)) == [i \in 1..n |-> f(PA, i)]

(* ---- the action is a (right) group action; Inv undoes it ------------------------- *)
GroupLaws ==
  At(AllModes) =>
     /\ PermuteMat(n, A, IdPerm(n)) = A
     /\ PermuteMat(n, PA, Inv(n, p)) = A
     /\ IsPerm(n, Inv(n, p)) /\ Compose(n, p, Inv(n, p)) = IdPerm(n)
     /\ \A q \in Perms(n) : PermuteMat(n, PA, q) = PermuteMat(n, A, Compose(n, p, q))
     /\ \A S \in SUBSET (1..n) : OldNames(RenameSet(n, S, p), p) = S
(* ---- BctBase: degrees, strengths, totals, weight bag, symmetry -------------------- *)
DegreesEquivariant ==
  At(AllModes) =>
     /\ Equivariant("nodevec", "int", n, NodeVec(LAMBDA X, i : OutDeg(n, X, i)),
                                         NodeVecP(LAMBDA X, i : OutDeg(n, X, i)), p)
     /\ Equivariant("nodevec", "int", n, NodeVec(LAMBDA X, i : InDeg(n, X, i)),
                                         NodeVecP(LAMBDA X, i : InDeg(n, X, i)), p)
     /\ Equivariant("nodevec", "int", n, NodeVec(LAMBDA X, i : OutStr(n, X, i)),
                                         NodeVecP(LAMBDA X, i : OutStr(n, X, i)), p)
     /\ Equivariant("nodevec", "int", n, NodeVec(LAMBDA X, i : InStr(n, X, i)),
                                         NodeVecP(LAMBDA X, i : InStr(n, X, i)), p)
     /\ Total(n, PA) = Total(n, A)
     /\ NonzeroBag(n, PA) = NonzeroBag(n, A)
     /\ IsSym(n, PA) = IsSym(n, A)
     /\ Support(n, PA) = {c \in (1..n) \X (1..n) : <<p[c[1]], p[c[2]]>> \in Support(n, A)}
(* ---- BctGraph: reachability, components, connectivity ------------------------------ *)
ReachEquivariant ==
  At(AllModes) =>
     /\ \A i \in 1..n : ReachSet(n, PA, i) = RenameSet(n, ReachSet(n, A, p[i]), p)
     /\ \A i, j \in 1..n : ReachesByPath(n, PA, i, j) = ReachesByPath(n, A, p[i], p[j])
     /\ {OldNames(C, p) : C \in Components(n, PA)} = Components(n, A)
     /\ Connected(n, PA) = Connected(n, A)
     /\ StronglyConnected(n, PA) = StronglyConnected(n, A)
(* ---- Components: the set-merging labels (numbering differs, partition permutes) ---- *)
ComponentLabelsEquivariant ==
  At(Sym) =>
     LET c1 == Co!LabelsOf(n, Co!MergeAll(n, A))
         c2 == Co!LabelsOf(n, Co!MergeAll(n, PA))
     IN /\ Equivariant("partition", "int", n, c1, c2, p)
        /\ Equivariant("bag", "int", n, Co!SizesOf(Co!MergeAll(n, A)), Co!SizesOf(Co!MergeAll(n, PA)), p)
(* ---- Distance: Dist of the weights read as lengths, hop distances, tie sets -------- *)
DistEquivariant ==
  At(Positive) =>
     LET L1 == Di!LenOfAdj(n, A)   L2 == Di!LenOfAdj(n, PA)
         D1 == Di!Dist(n, L1)      D2 == Di!Dist(n, L2)
         W1 == Di!WalkTab(n, L1)   W2 == Di!WalkTab(n, L2)
     IN /\ Equivariant("pairmat", "int", n, D1, D2, p)
        /\ Equivariant("pairmat", "int", n, Di!HopDist(n, L1), Di!HopDist(n, L2), p)
        /\ \A i, j \in 1..n : Di!MinHops(n, D2, W2, i, j) = Di!MinHops(n, D1, W1, p[i], p[j])
(* ---- Betweenness: common denominator, node numerators, edge numerators ------------- *)
BetwEquivariant ==
  At(Positive) =>
     LET B1 == Bw!BetwD(n, A)   B2 == Bw!BetwD(n, PA)
     IN /\ B2.den = B1.den
        /\ Equivariant("nodevec", "int", n, B1.node, B2.node, p)
        /\ Equivariant("pairmat", "int", n, B1.edge, B2.edge, p)
BetwEnumEquivariant ==                         \* the definition proper (path enumeration)
  At(Positive) =>
     LET B1 == Bw!BetwE(n, A)   B2 == Bw!BetwE(n, PA)
     IN /\ B2.den = B1.den
        /\ Equivariant("nodevec", "int", n, B1.node, B2.node, p)
        /\ Equivariant("pairmat", "int", n, B1.edge, B2.edge, p)
(* ---- Clustering: per-node fractions permute, transitivities are unchanged ---------- *)
FnsOf(m) == CASE m = "und"  -> {Cl!FnBU, Cl!FnTBU, Cl!FnBD, Cl!FnTBD, Cl!FnWU, Cl!FnTWU}
              [] m = "dir"  -> {Cl!FnBD, Cl!FnTBD, Cl!FnWD, Cl!FnTWD}
              [] m = "wund" -> {Cl!FnWU, Cl!FnTWU, Cl!FnWD, Cl!FnTWD}
              [] m = "wdir" -> {Cl!FnWD, Cl!FnTWD}
              [] m = "sign" -> {Cl!FnSD, Cl!FnSZ, Cl!FnSC}
DenOf(m) == IF m \in {"und", "dir"} THEN 1 ELSE WMax
ClustEquivariant ==
  At(AllModes) =>
     \A fn \in FnsOf(mode) :
        LET o1 == Cl!Def(fn, n, A, DenOf(mode))   o2 == Cl!Def(fn, n, PA, DenOf(mode))
        IN IF fn \in Cl!TransFns THEN o2 = o1
           ELSE /\ Len(o1) = Len(o2)
                /\ \A v \in 1..Len(o1) : \A i \in 1..n : o2[v][i] = o1[v][p[i]]
(* ---- KCore: the maximal subset is renamed -------------------------------------------- *)
CoreKind(m) == CASE m = "und" -> "bu" [] m = "dir" -> "bd" [] OTHER -> "wu"
CoreTop(m) == CASE m = "und" -> 2 * (n - 1) [] m = "dir" -> 4 * (n - 1) [] OTHER -> 2 * WMax * (n - 1)
(* bounds are passed doubled (b2 = 2k); degrees are integers, so for the binary kinds     *)
(* only even b2 are distinct bounds; strengths (wu) also meet half-integer s                *)
CoreBounds(m) == IF m = "wund" THEN 0..(CoreTop(m) + 1)
                 ELSE {b2 \in 0..(CoreTop(m) + 2) : b2 % 2 = 0}
CoreEquivariant ==
  At({"und", "dir", "wund"}) =>
     \A b2 \in CoreBounds(mode) :
        /\ KC!CoreSet(n, PA, b2, CoreKind(mode)) = RenameSet(n, KC!CoreSet(n, A, b2, CoreKind(mode)), p)
        /\ KC!PeelCoreSet(n, PA, b2, CoreKind(mode))
              = RenameSet(n, KC!PeelCoreSet(n, A, b2, CoreKind(mode)), p)
(* ---- the input class is a property of the network, not of its numbering ------------- *)
ClassInvariant ==
  At(AllModes) =>
     /\ HasRepeatedStructure(n, A) = HasAutomorphismBrute(n, A)
     /\ StructureClass(n, PA) = StructureClass(n, A)

(* ---- Equivariant accepts the renumbered output and, on injective data, nothing else -- *)
SharpN == 4
InjVec == [i \in 1..SharpN |-> 10 * i]
InjMat == Mat(SharpN, LAMBDA i, j : 10 * i + j)
ASSUME \A p1, q1 \in Perms(SharpN) :
          /\ Equivariant("nodevec", "int", SharpN, InjVec, PermuteVec(SharpN, InjVec, q1), p1) <=> (q1 = p1)
          /\ Equivariant("pairmat", "int", SharpN, InjMat, PermuteMat(SharpN, InjMat, q1), p1) <=> (q1 = p1)
          /\ Equivariant("nodevec", "real", SharpN, InjVec, PermuteVec(SharpN, InjVec, q1), p1) <=> (q1 = p1)
          /\ Equivariant("partition", "int", SharpN, <<1, 1, 2, 3>>, PermuteVec(SharpN, <<7, 7, 5, 0>>, q1), p1)
                <=> ({q1[i] : i \in {k \in 1..SharpN : p1[k] \in {1, 2}}} = {1, 2})
          /\ Equivariant("bag", "int", SharpN, InjVec, PermuteVec(SharpN, InjVec, q1), p1)
          /\ Equivariant("nodesets", "int", SharpN, << <<1, 2>>, <<3>> >>,
                         << SetToSeq(RenameSet(SharpN, {3}, p1)), SetToSeq(RenameSet(SharpN, {1, 2}, p1)) >>, p1)
ASSUME /\ Equivariant("bag", "real", 3, <<1000000, 5, NAN>>, <<NAN, 999999, 7>>, IdPerm(3))
       /\ ~Equivariant("bag", "real", 3, <<1000000, 5, NAN>>, <<INF, 999999, 7>>, IdPerm(3))
       /\ ~Equivariant("bag", "real", 3, <<1000000, 5, 5>>, <<5, 1000000, 1000000>>, IdPerm(3))
       /\ Equivariant("scalar", "real", 3, <<INF, 12>>, <<INF, 14>>, IdPerm(3))
       /\ ~Equivariant("scalar", "real", 3, <<INF, 12>>, <<INF, 15>>, IdPerm(3))
       /\ ~Equivariant("scalar", "int", 3, <<12>>, <<13>>, IdPerm(3))
       /\ Equivariant("bagcols", "int", 3, << <<1, 2>>, <<2, 1>>, <<1, 2>> >>, << <<2, 1>>, <<1, 2>>, <<1, 2>> >>, IdPerm(3))
       /\ ~Equivariant("bagcols", "int", 3, << <<1, 2>>, <<2, 1>>, <<1, 2>> >>, << <<2, 1>>, <<2, 1>>, <<1, 2>> >>, IdPerm(3))
=============================================================================
