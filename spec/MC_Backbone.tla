---- MODULE MC_Backbone ----
(* X05 mc: input domains of the BackboneImpl machine per tier (<<n, weights, dn values>>) *)
(* + lemmas on every 0/1 graph on <= 5 nodes for gtom: the toolbox loop of neighbourhood    *)
(* expansions (gtom.m and the port: the EXPANDED matrix supplies both the neighbours and     *)
(* their neighbours) reaches the nodes within 2^(m-1) steps - the documented "at most        *)
(* length m" only for m <= 2 (or small diameters); the L0 overlap lies within [0, 1], is     *)
(* symmetric and 1 on the diagonal                                                           *)
EXTENDS BackboneImpl
QDom == {<<2, {1, 2}, 0..3>>, <<3, {1, 2, 3}, 0..7>>, <<4, {1, 2, 3}, 0..13>>}
TDom == QDom \cup {<<4, {1, 2, 3, 5}, {6, 8, 10}>>, <<5, {1, 2}, {0, 8, 9, 10, 12, 14, 20, 21}>>}
RECURSIVE Pow2(_)
Pow2(k) == IF k <= 0 THEN 1 ELSE 2 * Pow2(k - 1)
BinGraphs(n) == {EdgeMat(n, E) : E \in SUBSET UPairs(n)}
GtomLemma(n) ==
  \A B \in BinGraphs(n) : \A m \in 1..n :
     LET G == GtLoop(n, B, m) IN
     /\ \A i \in 1..n : {j \in 1..n : G[i][j] # 0} = NbWithin(n, B, i, Pow2(m - 1))
     /\ m <= 2 => \A i \in 1..n : {j \in 1..n : G[i][j] # 0} = NbWithin(n, B, i, m)
     /\ \A i, j \in 1..n :
          LET f == GtomFrac(n, B, m, i, j) IN
          /\ f[2] > 0 /\ f[1] >= 0 /\ f[1] <= f[2]                  \* "bounded between 0 and 1"
          /\ f = GtomFrac(n, B, m, j, i)
ASSUME GtomLemma(3) /\ GtomLemma(4) /\ GtomLemma(5)
====
