-------------------------------- MODULE RandomizerImpl --------------------------------
(* C01, randomizer_bin_und (bct/algorithms/reference.py): L2 machine.                   *)
(*                                                                                     *)
(* Unlike the randmio family this routine scans its edge list once and, for a fraction  *)
(* alpha of the edges, searches directly for a second edge among the nodes adjacent to  *)
(* neither end:                                                                         *)
(*   Prepare: (complement if more than half of the possible edges are present) ->        *)
(*            mask fully connected nodes -> edge list of the upper triangle              *)
(*   for it in 1..K:  Coin(rewire?)  ->  [Mate(m, orient)]  (swap a-b,c-d -> a-c,b-d     *)
(*            and rewrite the two edge-list entries as the code does)                    *)
(*   Restore: unmask, un-complement, diagonal                                            *)
(* Random draws = action parameters: the alpha coin, the mate index, the orientation.    *)
EXTENDS Rewire, Json

CONSTANTS N, Gen
VARIABLES R0,      \* input (binary, symmetric, empty diagonal)
          W,       \* working matrix (possibly complemented, full nodes masked)
          comp,    \* TRUE iff the working matrix is the complement
          full,    \* masked fully-connected nodes
          ei, ej,  \* edge list (upper triangle of the working matrix at Prepare)
          it, pc, out, hist
vars == <<R0, W, comp, full, ei, ej, it, pc, out, hist>>

UPairs == {p \in (1..N) \X (1..N) : p[1] < p[2]}
UndOf(E) == Mat(N, LAMBDA i, j : IF <<i, j>> \in E \/ <<j, i>> \in E THEN 1 ELSE 0)
Poss == (N * N - N) \div 2
NEdges(M) == Cardinality({p \in UPairs : M[p[1]][p[2]] # 0})
Complement(M) == Mat(N, LAMBDA i, j : IF i = j THEN 0 ELSE 1 - M[i][j])
FullNodes(M) == {v \in 1..N : OutDeg(N, M, v) = N - 1}
MaskNodes(M, S) == Mat(N, LAMBDA i, j : IF i \in S \/ j \in S THEN 0 ELSE M[i][j])
UpperList(M) == SelectSeq(CellSeq(N), LAMBDA c : c[1] < c[2] /\ M[c[1]][c[2]] # 0)
K == Len(ei)

Init == /\ R0 \in {UndOf(E) : E \in SUBSET UPairs}
        /\ W = R0 /\ comp = FALSE /\ full = {} /\ ei = <<>> /\ ej = <<>> /\ it = 0
        /\ pc = "prepare" /\ out = <<>> /\ hist = <<>>

Prepare ==
  /\ pc = "prepare"
  /\ LET c == 2 * NEdges(R0) > Poss
         W1 == IF c THEN Complement(R0) ELSE R0
         fn == FullNodes(W1)
         W2 == MaskNodes(W1, fn)
         el == UpperList(W2)
         k == Len(el)
     IN /\ comp' = c /\ full' = fn /\ W' = W2
        /\ ei' = [e \in 1..k |-> el[e][1]] /\ ej' = [e \in 1..k |-> el[e][2]]
        /\ it' = 1
        \* "No possible randomization"
        /\ pc' = IF k = 0 \/ k >= Poss - 1 THEN "rejected" ELSE "coin"
  /\ UNCHANGED <<R0, out, hist>>

Advance == /\ it' = it + 1
           /\ pc' = IF it + 1 > K THEN "restore" ELSE "coin"

(* candidate second edges: both ends adjacent to neither a nor b, listed in the order    *)
(* np.where(np.triu(R[ix_(h,h)], 1)) yields them                                          *)
Holes(a, b) == {x \in 1..N : x # a /\ x # b /\ W[x][a] = 0 /\ W[x][b] = 0 /\ x \notin full}
Mates(a, b) == SelectSeq(CellSeq(N), LAMBDA c : /\ c[1] < c[2] /\ W[c[1]][c[2]] # 0
                                                /\ c[1] \in Holes(a, b) /\ c[2] \in Holes(a, b))

(* script items: ["u", x] = random_sample() value x/10^6 (alpha = 1/2: > alpha skips), *)
(* ["k", v] = randint value, ["f", o] = orientation coin                               *)
Log(items) == hist' = IF Gen THEN hist \o items ELSE hist
Skip == /\ pc = "coin" /\ Advance /\ Log(<< <<"u", 900000>> >>)
        /\ UNCHANGED <<R0, W, comp, full, ei, ej, out>>

(* the edge-index update loop of the code: for every entry equal to (d,c): i[it]=c, j[m]=b; *)
(* for every entry equal to (c,d): j[it]=c, i[m]=b                                          *)
Reindex2(a, b, c, d) ==
  LET hitDC == {m \in 1..K : ei[m] = d /\ ej[m] = c}
      hitCD == {m \in 1..K : ei[m] = c /\ ej[m] = d}
      ei1 == [m \in 1..K |-> IF m \in hitCD THEN b ELSE IF m = it /\ hitDC # {} THEN c ELSE ei[m]]
      ej1 == [m \in 1..K |-> IF m \in hitDC THEN b ELSE IF m = it /\ hitCD # {} THEN c ELSE ej[m]]
  IN <<ei1, ej1>>

RewireStep(m, o) ==
  /\ pc = "coin"
  /\ LET a == ei[it]  b == ej[it]  ms == Mates(a, b) IN
     IF Len(ms) = 0 THEN /\ m = 1 /\ o = 0 /\ UNCHANGED <<W, ei, ej>> /\ Log(<< <<"u", 100000>> >>)
     ELSE /\ m \in 1..Len(ms)
          /\ Log(<< <<"u", 100000>>, <<"k", m - 1>>, <<"f", o>> >>)
          /\ LET c == IF o = 1 THEN ms[m][1] ELSE ms[m][2]
                 d == IF o = 1 THEN ms[m][2] ELSE ms[m][1]
                 re == Reindex2(a, b, c, d)
             IN /\ W' = Mat(N, LAMBDA i, j :
                              IF {i, j} = {a, b} \/ {i, j} = {c, d} THEN 0
                              ELSE IF {i, j} = {a, c} \/ {i, j} = {b, d} THEN 1 ELSE W[i][j])
                /\ ei' = re[1] /\ ej' = re[2]
  /\ Advance
  /\ UNCHANGED <<R0, comp, full, out>>

Restore ==
  /\ pc = "restore"
  /\ LET W1 == Mat(N, LAMBDA i, j : IF i # j /\ (i \in full \/ j \in full) THEN 1 ELSE W[i][j])
         W2 == IF comp THEN Complement(W1) ELSE W1
     IN out' = W2
  /\ pc' = "done"
  /\ UNCHANGED <<R0, W, comp, full, ei, ej, it, hist>>

Emit == /\ Gen /\ pc \in {"done", "rejected"}
        /\ PrintT("G|" \o ToJson([R0 |-> R0, script |-> hist, R |-> out, rejected |-> (pc = "rejected")]))
        /\ pc' = "emitted"
        /\ UNCHANGED <<R0, W, comp, full, ei, ej, it, out, hist>>

Next == Prepare \/ Skip \/ (\E m \in 1..(N * N), o \in {0, 1} : RewireStep(m, o)) \/ Restore \/ Emit
Spec == Init /\ [][Next]_vars

(* ------------------------------- invariants ----------------------------------- *)
(* what the working matrix stands for in the caller's terms                         *)
Meaning ==
  LET W1 == Mat(N, LAMBDA i, j : IF i # j /\ (i \in full \/ j \in full) THEN 1 ELSE W[i][j])
  IN IF comp THEN Complement(W1) ELSE W1
Active == pc \in {"coin", "restore"}
DegInv  == Active => SameDegrees(N, R0, Meaning)
SymInv  == Active => IsSym(N, W) /\ Is01(N, W) /\ DiagZero(N, W)
(* the scan only relies on the entries it has not reached yet: they are accurate     *)
AheadInv == pc = "coin" =>
              /\ \A e \in it..K : W[ei[e]][ej[e]] # 0 /\ ei[e] # ej[e]
              /\ \A e, f \in it..K : e # f => {ei[e], ej[e]} # {ei[f], ej[f]}
FinalInv == pc = "done" =>
              /\ SameDegrees(N, R0, out) /\ IsSym(N, out) /\ Is01(N, out) /\ DiagZero(N, out)
              /\ NEdges(out) = NEdges(R0)
RefinesSwap ==
  [][pc = "coin" /\ W' # W =>
       \E a, b, c, d \in 1..N : CanSwapUnd(W, a, b, c, d) /\ W' = SwapUnd(N, W, a, b, c, d)]_vars
=============================================================================
