---------------------------- MODULE RandomWalkImpl ----------------------------
(* C18, L2 and lemmas.  Three machines share the variables (inp, st); st.m tags    *)
(* the machine, `Machines` selects which ones a TLC run explores.                  *)
(*                                                                                *)
(*  "findwalks" the loop of bct/algorithms/distance.py:findwalks, one action per   *)
(*              loop body, same variables (q, pwr = CIJpwr, Wq) - the INTENDED     *)
(*              loop (slice k-1 = walks of k steps, as in BCT's findwalks.m);      *)
(*              refinement: the final Wq is the table of matrix powers, which is   *)
(*              the table of behaviour counts of the walker.                       *)
(*  "walker"    a random walker on the graph: one variable of interest, pos, and   *)
(*              one action, Step (plus the bookkeeping start/len).  Its transition *)
(*              relation is RandomWalk!StepTo; NPaths counts its behaviours.       *)
(*  "lemma"     no transitions: every initial state is one model input on which    *)
(*              the arithmetic lemmas (exact solutions satisfy the defining        *)
(*              equations exactly; rounded to fixed point they stay within the     *)
(*              spec-computed budgets; nothing overflows) are evaluated as         *)
(*              invariants.                                                        *)
(* Domains (MC_RandomWalk.tla): WalkDomains (findwalks) / WalkerDomains (walker) =  *)
(* pairs <<n, loopnodes>> (every 0/1 digraph on n nodes, self-loops allowed on      *)
(* loopnodes); LemmaDomains = triples <<n, sym, heavy>> (every connected graph /     *)
(* strongly connected digraph on n nodes with weights 1 and, if heavy, 2);          *)
(* Q = number of steps of the walker.                                               *)
EXTENDS RandomWalk
CONSTANTS Machines, WalkDomains, WalkerDomains, LemmaDomains, Q
VARIABLES inp, st
vars == <<inp, st>>

DPairs(n) == {p \in (1..n) \X (1..n) : p[1] # p[2]}
UPairs(n) == {p \in (1..n) \X (1..n) : p[1] < p[2]}
BinInputs(n, loopnodes) ==
  {EMat(n, LAMBDA i, j : IF <<i, j>> \in E THEN 1 ELSE 0) :
     E \in SUBSET (DPairs(n) \cup {<<v, v>> : v \in loopnodes})}
(* weights 1 (edge) / 2 (heavy edge)                                               *)
WDir(n, E, H) == EMat(n, LAMBDA i, j : IF <<i, j>> \in H THEN 2 ELSE IF <<i, j>> \in E THEN 1 ELSE 0)
WSym(n, E, H) == EMat(n, LAMBDA i, j :
                   LET p == IF i < j THEN <<i, j>> ELSE <<j, i>> IN
                   IF p \in H THEN 2 ELSE IF p \in E THEN 1 ELSE 0)
WInputs(n, sym, heavy) ==
  IF sym THEN UNION {{WSym(n, E, H) : H \in (IF heavy THEN SUBSET E ELSE {{}})} : E \in SUBSET UPairs(n)}
         ELSE UNION {{WDir(n, E, H) : H \in (IF heavy THEN SUBSET E ELSE {{}})} : E \in SUBSET DPairs(n)}
Dim(M) == Cardinality(DOMAIN M)
NI == Dim(inp)

(* the initial state only fixes the machine and its input (cheap: TLC computes and   *)
(* checks initial states on one thread); the *Begin actions do the set-up            *)
Init ==
  \E m \in Machines :
     /\ st = [m |-> m, pc |-> "init"]
     /\ IF m = "lemma"
        THEN \E d \in LemmaDomains : inp \in WInputs(d[1], d[2], d[3])
        ELSE \E d \in (IF m = "walker" THEN WalkerDomains ELSE WalkDomains) :
                inp \in BinInputs(d[1], d[2])

(* ------------------------------------------------------------ findwalks ------- *)
FwBegin == /\ st.m = "findwalks" /\ st.pc = "init"
           /\ st' = [m |-> "findwalks", pc |-> "for"] @@ FwInit(NI, inp)
FwLoop  == /\ st.m = "findwalks" /\ st.pc = "for" /\ ~FwDone(NI, st)
           /\ st' = [m |-> "findwalks", pc |-> "for"] @@ FwStep(NI, inp, st)
FwEnd   == /\ st.m = "findwalks" /\ st.pc = "for" /\ FwDone(NI, st)
           /\ st' = [m |-> "findwalks", pc |-> "done", Wq |-> st.Wq,
                     tot |-> FwTotals(NI, st.Wq)]

(* --------------------------------------------------------------- walker ------- *)
WkBegin == /\ st.m = "walker" /\ st.pc = "init"
           /\ \E s \in 1..NI : st' = [m |-> "walker", pc |-> "walk", start |-> s, pos |-> s, len |-> 0]
Step == /\ st.m = "walker" /\ st.pc = "walk" /\ st.len < Q
        /\ \E p2 \in StepTo(NI, inp, st.pos) :
              st' = [st EXCEPT !.pos = p2, !.len = @ + 1]
(* lemma inputs outside the property's domain (not strongly connected) stop here     *)
LmBegin == /\ st.m = "lemma" /\ st.pc = "init" /\ StronglyConnected(NI, inp)
           /\ st' = [m |-> "lemma", pc |-> "eval"]

Fw == (FwBegin \/ FwLoop \/ FwEnd) /\ UNCHANGED inp
Next == Fw \/ ((WkBegin \/ Step \/ LmBegin) /\ UNCHANGED inp)
Spec == Init /\ [][Next]_vars
FairSpec == Spec /\ WF_vars(Fw)
Terminates == (st.m = "findwalks") ~> (st.m = "findwalks" /\ st.pc = "done")

(* ----------------------------------------------------------- invariants ------- *)
(* loop invariant: after the body for q, pwr = A^q and slices 1..q hold A^1..A^q   *)
FwLoopInv ==
  (st.m = "findwalks" /\ st.pc = "for") =>
     LET P == PowTab(NI, inp, NI) IN
     /\ st.q \in 1..NI /\ st.pwr = P[st.q]
     /\ \A k \in 1..NI : st.Wq[k] = IF k <= st.q THEN P[k] ELSE Zero(NI)
(* progress without a liveness check: until done some loop action is enabled, and     *)
(* q (bounded by FwLoopInv) strictly increases in FwLoop                              *)
FwProgressInv ==
  (st.m = "findwalks" /\ st.pc # "done") => ENABLED Fw
(* refinement: the result is the table of powers (toolbox reading), hence satisfies *)
(* the clause of the trace module; totals are the sums of the counts                *)
FwFinalInv ==
  (st.m = "findwalks" /\ st.pc = "done") =>
     /\ WqShifted(NI, inp, st.Wq) /\ WqIsPower(NI, inp, st.Wq)
     /\ TotalsAreSums(NI, st.Wq, st.tot[1], st.tot[2])
     /\ st.Wq = FwAll(NI, inp)
(* ... and the table of powers is the table of behaviour counts of the walker        *)
FwCountsBehavioursInv ==
  (st.m = "findwalks" /\ st.pc = "done") =>
     LET c == NPaths(NI, inp, NI) IN
     \A k \in 1..NI : \A i, j \in 1..NI : st.Wq[k][i][j] = c[k, i, j]
(* scale-regime operators (RandomWalk.tla, "walk counts beyond 32 bits"): the clipped  *)
(* and the modular table ARE the table of powers clipped / reduced (small cap and       *)
(* modulus, so that both bite on these inputs), and the loop's result, encoded as       *)
(* mantissa / exponent / residue, passes every clause of Trace_RandomWalk!JudgeFwBig    *)
FwBigLemmaInv ==
  (st.m = "findwalks" /\ st.pc = "done") =>
     LET n == NI
         P == PowTab(n, inp, n)
         C5 == ClipTab(n, inp, n, 5)
         R7 == ModTab(n, inp, n, 7)
         Wm == st.Wq
         We == [k \in 1..n |-> Zero(n)]
         Wr == [k \in 1..n |-> EMat(n, LAMBDA i, j : st.Wq[k][i][j] % BigP)]
         wl == st.tot[2]
     IN /\ \A k \in 0..n : \A i, j \in 1..n :
              /\ C5[k][i][j] = (IF P[k][i][j] > 5 THEN 5 ELSE P[k][i][j])
              /\ R7[k][i][j] = P[k][i][j] % 7
        /\ BigEncodingOK(n, n, Wm, We, Wr, BigP) /\ BigFinite(n, n, Wm) /\ BigNonNeg(n, n, Wm)
        /\ BigClipOK(n, n, C5, 5, Wm, We, 0)
        /\ BigClipOK(n, n, ClipTab(n, inp, n, T24), T24, Wm, We, 0)
        /\ BigModOK(n, n, ModTab(n, inp, n, BigP), We, Wr, 0)
        /\ BigRecOK(n, n, InNbTab(n, inp), Wm, We, 0)
        /\ BigRegularOK(n, n, inp, Wm, We, 0)
        /\ BigTotalsOK(n, n, Wm, We, Wr, BigP, <<st.tot[1], 0, st.tot[1] % BigP>>,
                       wl, [k \in 1..n |-> 0], [k \in 1..n |-> wl[k] % BigP])
(* every behaviour prefix of the walker is a walk that Walks counts                  *)
WalkerCountedInv ==
  (st.m = "walker" /\ st.pc = "walk") => Walks(NI, inp, st.len)[st.start][st.pos] >= 1
(* the number of behaviours of `len` steps from start to t (NPaths, built from the   *)
(* machine's own transition relation) equals the entry of the matrix power           *)
WalkerCountInv ==
  (st.m = "walker" /\ st.pc = "walk" /\ st.len = 0) =>
     LET c == NPaths(NI, inp, Q)  P == PowTab(NI, inp, Q) IN
     \A len \in 0..Q : \A t \in 1..NI : c[len, st.start, t] = P[len][st.start][t]
(* a walker that can still move has exactly the successors the count recursion uses  *)
WalkerEnabledInv ==
  (st.m = "walker" /\ st.pc = "walk" /\ st.len < Q) =>
     (ENABLED Step <=> StepTo(NI, inp, st.pos) # {})

(* --------------------------------------------------------------- lemmas ------- *)
IsLemma == st.m = "lemma" /\ st.pc = "eval"
Floor6(P, D) == ToQ6(P, D)
(* MFPT: the Cramer solution satisfies the defining equation EXACTLY (integers)      *)
LemmaMfptExact ==
  IsLemma =>
     /\ MfptExactFits(NI, inp)
     /\ LET X == MfptExact(NI, inp) IN
        \A p \in OffPairs(NI) :
           LET i == p[1]  j == p[2]  d == X[i][j][2] IN
           /\ d > 0 /\ X[i][j][1] >= d /\ FracFits(X[i][j])    \* M >= 1
           /\ \A k \in Others(NI, j) : X[k][j][2] = d          \* common denominator
           /\ OutStr(NI, inp, i) * X[i][j][1]
                = OutStr(NI, inp, i) * d
                  + Sum(Others(NI, j), LAMBDA k : inp[i][k] * (IF k = j THEN 0 ELSE X[k][j][1]))
(* budget soundness: the exact solution rounded down / half-up / up to 10^-6 passes  *)
(* the residual clause, meets its magnitude precondition, and the exactness clause   *)
LemmaMfptBudget ==
  IsLemma =>
     LET X == MfptExact(NI, inp)
         img(r) == EMat(NI, LAMBDA i, j : IF i = j THEN 0 ELSE
                      CASE r = "floor" -> Floor6(X[i][j][1], X[i][j][2])
                        [] r = "round" -> Round6(X[i][j][1], X[i][j][2])
                        [] r = "ceil"  -> Floor6(X[i][j][1], X[i][j][2]) + 1)
     IN \A r \in {"floor", "round", "ceil"} :
           /\ MfptMagOK(NI, inp, img(r)) /\ MfptEquation(NI, inp, img(r))
           /\ MfptNearExact(NI, inp, img(r))
(* ... and a matrix that is NOT the solution is rejected: one entry off by 10^-4     *)
LemmaMfptRejects ==
  IsLemma =>
     LET X == MfptExact(NI, inp)
         bad == EMat(NI, LAMBDA i, j : IF i = j THEN 0
                       ELSE Round6(X[i][j][1], X[i][j][2]) + (IF i = 1 /\ j = 2 THEN 100 ELSE 0))
     IN NI >= 2 => ~MfptEquation(NI, inp, bad)
(* diffusion efficiency: inverse of the rounded exact M vs the rounded exact 1/M     *)
LemmaEdiff ==
  IsLemma =>
     LET X == MfptExact(NI, inp)
         M == EMat(NI, LAMBDA i, j : IF i = j THEN 0 ELSE Round6(X[i][j][1], X[i][j][2]))
         E(r) == EMat(NI, LAMBDA i, j : IF i = j THEN 0 ELSE
                      CASE r = "floor" -> Floor6(X[i][j][2], X[i][j][1])
                        [] r = "round" -> Round6(X[i][j][2], X[i][j][1])
                        [] r = "ceil"  -> Floor6(X[i][j][2], X[i][j][1]) + 1)
     IN /\ EdiffMagOK(NI, M)
        /\ \A r \in {"floor", "round", "ceil"} : EdiffIsInverse(NI, M, E(r))
(* PageRank on the lemma inputs with n <= 3: d in {1/2, 17/20}, f uniform or 1,2,3   *)
PrCases(n) == {<<1, 2>>, <<17, 20>>} \X {[i \in 1..n |-> 1], [i \in 1..n |-> i]}
LemmaPagerank ==
  (IsLemma /\ NI <= 3) =>
     \A c \in PrCases(NI) :
        LET p == c[1][1]  q == c[1][2]  f == c[2] IN
        /\ PrMagFits(NI, inp, q, f) /\ PrExactFits(NI, inp, q, f)
        /\ LET X == PrExact(NI, inp, p, q, f)
               S == PrScale(NI, inp, q, f)
               R6(r) == [i \in 1..NI |->
                           CASE r = "floor" -> Floor6(X[i][1], X[i][2])
                             [] r = "round" -> Round6(X[i][1], X[i][2])
                             [] r = "ceil"  -> Floor6(X[i][1], X[i][2]) + 1]
               RS(r) == [i \in 1..NI |-> RoundDiv(R6(r)[i], Q6 \div S)]
           IN /\ \A i \in 1..NI : X[i][2] > 0 /\ X[i][1] > 0 /\ X[i][2] < 200000000
              /\ \A r \in {"floor", "round", "ceil"} :
                    /\ PrPositive(NI, R6(r)) /\ PrSumsToOne(NI, R6(r), Q6)
                    /\ PrEquation(NI, inp, p, q, f, RS(r), S)
                    /\ PrNearExact(NI, inp, p, q, f, R6(r))
              (* a vector that is not the solution is rejected: first entry off by 1%   *)
              /\ LET B == [i \in 1..NI |-> RS("round")[i] + (IF i = 1 THEN S \div 100 ELSE 0)]
                 IN ~PrEquation(NI, inp, p, q, f, B, S)
(* the series machinery never overflows and its remainder bound is small on the      *)
(* lemma inputs (MaxStr <= 2(n-1))                                                    *)
LemmaSeries ==
  (IsLemma /\ IsSym(NI, inp) /\ SubMagOK(NI, inp)) =>
        LET S == SubSeries6(NI, inp) IN
        /\ \A i \in 1..NI : S[i] >= Q6                      \* exp diag >= 1
        /\ SubRem6(NI, inp) >= 1
=============================================================================
