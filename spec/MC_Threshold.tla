---- MODULE MC_Threshold ----
EXTENDS ThresholdImpl
====
