---- MODULE MC_FindPaths ----
(* input domains of the FindPathsImpl machine per tier (cfg files cannot spell tuples) *)
(* <<n, allsources, qmaxes>>: every digraph without self-loops on n nodes; sources =    *)
(* all nodes (TRUE) or every non-empty subset (FALSE); qmax from qmaxes                 *)
EXTENDS FindPathsImpl
QDom == {<<3, FALSE, {1, 2, 3, 4}>>, <<4, TRUE, {4}>>}
TDom == {<<2, FALSE, {1, 2, 3}>>, <<3, FALSE, {1, 2, 3, 4}>>, <<4, FALSE, {4}>>, <<4, TRUE, {1, 2, 3, 5}>>}
====
