SPECIFICATION Spec
CONSTANT N = 3
CONSTANT Reps = 3
CONSTANT AnyLabels = FALSE
INVARIANT TypeInv
INVARIANT ThresholdInv
INVARIANT DeadBranchInv
INVARIANT UniqueInv
INVARIANT ContinueInv
INVARIANT StopInv
CHECK_DEADLOCK FALSE
