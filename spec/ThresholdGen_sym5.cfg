SPECIFICATION Spec
CONSTANT N = 5
CONSTANT Sym = TRUE
CONSTANT WMax = 1
CHECK_DEADLOCK FALSE
