SPECIFICATION Spec
CONSTANT N = 5
INVARIANT FrameInv
INVARIANT ReportedInv
INVARIANT ProcessedInv
INVARIANT PendingInv
INVARIANT LoopEndInv
INVARIANT CandOrderInv
INVARIANT FinalInv
INVARIANT OracleInv
INVARIANT DistinctInv
CHECK_DEADLOCK FALSE
