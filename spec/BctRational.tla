-------------------------------- MODULE BctRational --------------------------------
(* Exact fractions <<P, Q>> of 32-bit integers and their meeting point with      *)
(* observed 10^-6 fixed-point values (DESIGN 3.3).                                *)
EXTENDS BctBase

Q6 == 1000000
RECURSIVE Gcd(_, _)
Gcd(a, b) == IF b = 0 THEN Abs(a) ELSE Gcd(b, a % b)
Lcm(a, b) == IF a = 0 \/ b = 0 THEN 0 ELSE (Abs(a) \div Gcd(a, b)) * Abs(b)

(* floor(|P|/Q * 10^6) by six steps of long division; needs Q < 2*10^8 and        *)
(* |P|/Q < 2000 so that nothing exceeds 2^31                                      *)
RECURSIVE Digits(_, _, _, _)
Digits(r, Q, k, acc) == IF k = 0 THEN acc
                        ELSE Digits((r * 10) % Q, Q, k - 1, acc * 10 + ((r * 10) \div Q))
ToQ6(P, Q) ==
  LET a == Abs(P)
      v == (a \div Q) * Q6 + Digits(a % Q, Q, 6, 0)
  IN IF P < 0 THEN -v ELSE v
RatOK(P, Q) == Q > 0 /\ Q < 200000000 /\ (Abs(P) \div Q) < 2000

(* the one operator through which observed reals meet exact expectations          *)
NearFrac(obs, P, Q, tol) == IsFinite(obs) /\ Abs(obs - ToQ6(P, Q)) <= tol
NearQ(obs1, obs2, tol) == \/ (IsFinite(obs1) /\ IsFinite(obs2) /\ Abs(obs1 - obs2) <= tol)
                          \/ (~IsFinite(obs1) /\ obs1 = obs2)

(* exact comparison of fractions with positive denominators (cross products must  *)
(* stay below 2^31: callers keep numerators/denominators < 46000 or reduce first)  *)
FracLess(p1, q1, p2, q2) == p1 * q2 < p2 * q1
FracEq(p1, q1, p2, q2) == p1 * q2 = p2 * q1
FracAdd(a, b) == LET g == Lcm(a[2], b[2]) IN <<a[1] * (g \div a[2]) + b[1] * (g \div b[2]), g>>
FracNorm(a) == LET g == Gcd(a[1], a[2]) IN IF g = 0 THEN a ELSE <<a[1] \div g, a[2] \div g>>
=============================================================================
