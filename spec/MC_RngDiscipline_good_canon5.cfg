SPECIFICATION Spec
CONSTANT FNS = {1, 2}
CONSTANT ARGS = {1, 2}
CONSTANT SEEDS = {1, 2}
CONSTANT DRAWS = {1}
CONSTANT MaxLen = 5
CONSTANT Libs = {"good"}
CONSTANT Canon = TRUE
CONSTANT GenMode = "none"
CONSTANT Cost <- CostOne
INVARIANT TypeOK
INVARIANT RecordingFaithful
INVARIANT GlobalUntouchedInv
INVARIANT PyUntouchedInv
INVARIANT SeededFunctional
INVARIANT IntEqualsRandomState
INVARIANT UnseededFunctional
INVARIANT ReseedReproducible
INVARIANT GoodRefinesAllowed
PROPERTY SeededLeavesStreams
PROPERTY PyNeverConsumed
CHECK_DEADLOCK FALSE
