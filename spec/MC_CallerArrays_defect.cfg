SPECIFICATION Spec
CONSTANT MaxLen = 2
CONSTANT Classes = {"pure", "util", "alias", "dirty"}
INVARIANT ArgsUnchangedInv
INVARIANT UnchangedOnRaiseInv
INVARIANT DtypeShapeUnchangedInv
INVARIANT CopyFalseOperatesInPlaceInv
INVARIANT OnlyCopyFalseWrites
INVARIANT CallerSeesOnlyExplicitWrites
INVARIANT FreshResultsPrivate
INVARIANT FingerprintsDistinct
CHECK_DEADLOCK FALSE
