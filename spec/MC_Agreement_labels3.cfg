SPECIFICATION Spec
CONSTANT N = 3
CONSTANT MaxM = 2
CONSTANT Canonical = FALSE
CONSTANT LabelPool <- PoolGapped
CONSTANT Buffs = {1, 2, 1000}
CONSTANT Wts = {1, 2, 5}
CONSTANT AsCoded = FALSE
INVARIANT DummyInv
INVARIANT ChunkInv
INVARIANT PartialInv
INVARIANT FinalInv
INVARIANT WPartialInv
INVARIANT WFinalInv
INVARIANT UnitWeightsInv
CHECK_DEADLOCK FALSE
