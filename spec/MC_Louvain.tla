---- MODULE MC_Louvain ----
EXTENDS LouvainImpl
====
