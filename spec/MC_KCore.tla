---- MODULE MC_KCore ----
EXTENDS PeelImpl
====
