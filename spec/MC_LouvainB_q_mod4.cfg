SPECIFICATION Spec
CONSTANT N = 4
CONSTANT Objective = "modularity"
CONSTANT Dir = FALSE
CONSTANT GN = 1
CONSTANT GD = 1
CONSTANT Vals <- V01
CONSTANT Gen = FALSE
CONSTANT AllStarts = FALSE
CHECK_DEADLOCK FALSE
INVARIANT BookkeepingInv
INVARIANT AggregationInv
INVARIANT ObjIsModularity
PROPERTY MoveRaisesObj
