#!/bin/sh
# regenerates MC_Rewire_*.cfg / Gen_Rewire_*.cfg (run inside spec/)
mk() { # file N Dir Conn Latt Mask Iters KCap AltD BadPicks Gen
cat > $1 <<EOF
SPECIFICATION Spec
CONSTANT N = $2
CONSTANT Dir = $3
CONSTANT Conn = $4
CONSTANT Latt = $5
CONSTANT Mask = $6
CONSTANT Iters = $7
CONSTANT KCap = $8
CONSTANT AltD = $9
CONSTANT BadPicks = ${10}
CONSTANT Gen = ${11}
CHECK_DEADLOCK FALSE
EOF
if [ "${11}" = FALSE ]; then cat >> $1 <<EOF
INVARIANT TypeOK
INVARIANT DegInv
INVARIANT BagInv
INVARIANT DiagInv
INVARIANT SymInv
INVARIANT OutStrInv
INVARIANT SyncInvM
INVARIANT ZeroEffInv
INVARIANT PickAlwaysPossible
INVARIANT ConnInv
INVARIANT MaskInv
PROPERTY LatticeStep
PROPERTY RefinesAbs
PROPERTY EffCounts
EOF
fi
}
rm -f MC_Rewire_*.cfg Gen_Rewire_*.cfg
#  file                          N Dir   Conn  Latt  Mask  It KCap AltD  Bad   Gen
mk MC_Rewire_q_und4.cfg          4 FALSE FALSE FALSE FALSE 3  99 FALSE TRUE  FALSE
mk MC_Rewire_q_undconn4.cfg      4 FALSE TRUE  FALSE FALSE 3  99 FALSE FALSE FALSE
mk MC_Rewire_q_dir4.cfg          4 TRUE  FALSE FALSE FALSE 1  99 FALSE TRUE  FALSE
mk MC_Rewire_q_dirconn4.cfg      4 TRUE  TRUE  FALSE FALSE 1  99 FALSE FALSE FALSE
mk MC_Rewire_q_lattund4.cfg      4 FALSE FALSE TRUE  FALSE 1  4  FALSE FALSE FALSE
mk MC_Rewire_q_lattundconn4.cfg  4 FALSE TRUE  TRUE  FALSE 1  4  TRUE  FALSE FALSE
mk MC_Rewire_q_lattdir4.cfg      4 TRUE  FALSE TRUE  FALSE 1  3  TRUE  FALSE FALSE
mk MC_Rewire_q_lattdirconn4.cfg  4 TRUE  TRUE  TRUE  FALSE 1  5  FALSE FALSE FALSE
mk MC_Rewire_q_mask4.cfg         4 FALSE FALSE FALSE TRUE  1  99 FALSE FALSE FALSE
mk MC_Rewire_t_und5.cfg          5 FALSE FALSE FALSE FALSE 2  99 FALSE FALSE FALSE
mk MC_Rewire_t_undconn5.cfg      5 FALSE TRUE  FALSE FALSE 2  99 FALSE FALSE FALSE
mk MC_Rewire_t_dir4.cfg          4 TRUE  FALSE FALSE FALSE 2  99 FALSE TRUE  FALSE
mk MC_Rewire_t_dirconn4.cfg      4 TRUE  TRUE  FALSE FALSE 2  99 FALSE FALSE FALSE
mk MC_Rewire_t_lattund5.cfg      5 FALSE FALSE TRUE  FALSE 1  4  TRUE  FALSE FALSE
mk MC_Rewire_t_lattundconn5.cfg  5 FALSE TRUE  TRUE  FALSE 1  5  FALSE FALSE FALSE
mk MC_Rewire_t_lattdir4.cfg      4 TRUE  FALSE TRUE  FALSE 1  4  FALSE FALSE FALSE
mk MC_Rewire_t_lattdirconn4.cfg  4 TRUE  TRUE  TRUE  FALSE 1  6  TRUE  FALSE FALSE
mk MC_Rewire_t_mask4.cfg         4 FALSE FALSE FALSE TRUE  2  99 FALSE FALSE FALSE
# gen: behaviours printed with their draw scripts (spec -> code), used with -simulate
#  file                          N Dir   Conn  Latt  Mask  It KCap AltD  Bad   Gen
mk Gen_Rewire_und4.cfg           4 FALSE FALSE FALSE FALSE 2  99 FALSE TRUE  TRUE
mk Gen_Rewire_und5.cfg           5 FALSE FALSE FALSE FALSE 3  99 FALSE TRUE  TRUE
mk Gen_Rewire_undconn5.cfg       5 FALSE TRUE  FALSE FALSE 3  99 FALSE TRUE  TRUE
mk Gen_Rewire_dir4.cfg           4 TRUE  FALSE FALSE FALSE 3  99 FALSE TRUE  TRUE
mk Gen_Rewire_dirconn4.cfg       4 TRUE  TRUE  FALSE FALSE 3  99 FALSE TRUE  TRUE
mk Gen_Rewire_lattund5.cfg       5 FALSE FALSE TRUE  FALSE 1  5  FALSE TRUE  TRUE
mk Gen_Rewire_lattundconn5.cfg   5 FALSE TRUE  TRUE  FALSE 1  5  TRUE  TRUE  TRUE
mk Gen_Rewire_lattdir4.cfg       4 TRUE  FALSE TRUE  FALSE 1  5  TRUE  TRUE  TRUE
mk Gen_Rewire_lattdirconn4.cfg   4 TRUE  TRUE  TRUE  FALSE 1  6  FALSE TRUE  TRUE
mk Gen_Rewire_mask4.cfg          4 FALSE FALSE FALSE TRUE  2  99 FALSE TRUE  TRUE
mk Gen_Rewire_mask5.cfg          5 FALSE FALSE FALSE TRUE  2  4  FALSE TRUE  TRUE
