---------------------------------- MODULE Paths ----------------------------------
(* X04 (extended coverage).  L0 definitions for the path / walk enumeration and the *)
(* communication measures of bct/algorithms/distance.py, clustering.py, efficiency.py *)
(*   findpaths, cycprob, breadth, breadthdist, reachdist, search_information,        *)
(*   path_transitivity, rout_efficiency, diffusion_efficiency, resource_efficiency_bin *)
(* and the operator form of findpaths' loop (FindPathsImpl.tla turns it into a       *)
(* machine).  Built on Distance.tla (Dist, SimplePaths, MinPaths, Cyc, the BFS and    *)
(* reachdist loop replicas) and, through the instance RW, on RandomWalk.tla          *)
(* (MfptExact: Cramer solution of the first-passage equations).                      *)
(*                                                                                   *)
(* Encoding.  A = 0/1 adjacency matrix (0 = no connection).  Weighted routines get a *)
(* LENGTH matrix Lm in exact integer units (INF = no connection) and the `mode` that *)
(* says which matrix the code was handed (harness/props/x04.py, as in c03.py):       *)
(*   "bin"/"len": the lengths themselves (transform None);                           *)
(*   "inv": weights 1/k, k in {1,2,4} (transform 'inv');                             *)
(*   "log": weights 2^-k, k in {1,2,3} (transform 'log'; lengths in units of ln 2).  *)
(* WtOf gives integers PROPORTIONAL to the weights handed to the code - transition   *)
(* probabilities and matching indices are ratios, the factor cancels.                *)
(* Bounds: findpaths n <= 8; weighted routines n <= 7 and every product guarded by a *)
(* ...Fits predicate (pairs that do not fit are not judged); BFS / reachdist any n.  *)
EXTENDS Distance
RW == INSTANCE RandomWalk

LastOf(p) == p[Len(p)]
SumAll(n, M) == Sum(1..n, LAMBDA i : Sum(1..n, LAMBDA j : M[i][j]))
SumDiag(n, M) == Sum(1..n, LAMBDA i : M[i][i])
RECURSIVE IPow(_, _)
IPow(s, k) == IF k = 0 THEN 1 ELSE s * IPow(s, k - 1)

(* =============================== 1. findpaths ==================================== *)
(* "Paths are sequences of linked nodes, that never visit a single node more than    *)
(*  once.  This function finds all paths that start at a set of source nodes, up to  *)
(*  a specified length."  "Cycles of length N are possible, with all vertices        *)
(*  visited exactly once (except for source and target)": a path with q connections  *)
(* is a sequence p of q+1 nodes, p[1] a source, consecutive nodes connected, no node *)
(* twice - except that the LAST node may be the first one again (a cycle, which is   *)
(* not continued).  B is 0/1 with an empty diagonal; S the set of sources.           *)
IsFPath(n, B, S, p) ==
  LET m == Len(p) IN
  /\ m >= 2 /\ p[1] \in S
  /\ \A x \in 1..(m - 1) : B[p[x]][p[x + 1]] # 0
  /\ \A x, y \in 1..(m - 1) : x # y => p[x] # p[y]
  /\ \A x, y \in 2..m : x # y => p[x] # p[y]
IsOpenP(p) == p[1] # LastOf(p)
OpenOf(P) == {p \in P : IsOpenP(p)}

(* definition 1 (declarative; the explicit enumeration of every node sequence)       *)
FPathsDecl(n, B, S, q) == {p \in [1..(q + 1) -> 1..n] : IsFPath(n, B, S, p)}

(* definition 2 (growth by one connection; what the code's loop over q does)         *)
FSeeds(n, B, S) == {e \in S \X (1..n) : B[e[1]][e[2]] # 0}
FGrow(n, B, P) ==
  UNION {{Append(p, k) : k \in {k \in 1..n : B[LastOf(p)][k] # 0 /\ \A x \in 2..Len(p) : p[x] # k}}
           : p \in OpenOf(P)}
(* tab[q] = the set of paths with q connections, q = 1..Q                             *)
FPathsTab(n, B, S, Q) ==
  FoldLeft(LAMBDA acc, q : Append(acc, FGrow(n, B, acc[q])), <<FSeeds(n, B, S)>>, [q \in 1..(Q - 1) |-> q])

(* "Pq[i,j,q] = number of paths from i to j with length q"                            *)
PqOfSet(n, P) == EMat(n, LAMBDA i, j : Cardinality({p \in P : p[1] = i /\ LastOf(p) = j}))
(* "util: node use index": the number of paths of that length in which the node       *)
(* occurs ("correct for cycles, count source/target only once")                       *)
UtilOfSet(n, P) == EVec(n, LAMBDA v : Cardinality({p \in P : \E x \in 1..Len(p) : p[x] = v}))
(* "qstop: path length at which findpaths is stopped": the first q >= 2 at which no   *)
(* path that could be continued is left, else qmax (qmax = 1: the loop never starts)  *)
QStopOfTab(tab, Q) ==
  IF Q = 1 THEN 1
  ELSE LET dead == {q \in 2..Q : OpenOf(tab[q]) = {}} IN IF dead = {} THEN Q ELSE MinOf(dead)

(* everything findpaths reports, from definition 2: Pq[q][i][j], util[q][v], plq[q]   *)
FindPathsL0(n, B, S, Q) ==
  LET tab == FPathsTab(n, B, S, Q)
      Pq == [q \in 1..Q |-> PqOfSet(n, tab[q])]
      plq == [q \in 1..Q |-> Cardinality(tab[q])]
  IN [Pq |-> Pq, util |-> [q \in 1..Q |-> UtilOfSet(n, tab[q])], plq |-> plq,
      tpath |-> SeqSum(plq), qstop |-> QStopOfTab(tab, Q)]

(* definition 3 (counting without listing: for n beyond 6).  For one source i,        *)
(* F[<<V, v>>] = number of simple paths that start at i, visit exactly the node set V  *)
(* and end at v; layer k holds the sets of k nodes.                                    *)
DpFirst(i) == [x \in {<<{i}, i>>} |-> 1]
DpNext(n, B, F) ==
  LET keys == {<<y[1][1] \cup {y[2]}, y[2]>> :
                 y \in {z \in (DOMAIN F) \X (1..n) : z[2] \notin z[1][1] /\ B[z[1][2]][z[2]] # 0}}
  IN TLCEval([key \in keys |->
        LET V0 == key[1] \ {key[2]} IN
        Sum({u \in V0 : B[u][key[2]] # 0 /\ <<V0, u>> \in DOMAIN F}, LAMBDA u : F[<<V0, u>>])])
(* layers 1..Q+1 for source i                                                          *)
DpLayers(n, B, i, Q) ==
  FoldLeft(LAMBDA acc, k : Append(acc, DpNext(n, B, acc[k])), <<DpFirst(i)>>, [k \in 1..Q |-> k])
(* counts for source i and q connections: open paths to j, cycles, node use            *)
DpOpen(L, q, j) == Sum({x \in DOMAIN L[q + 1] : x[2] = j}, LAMBDA x : L[q + 1][x])
DpCycKeys(B, L, i, q) == IF q < 2 THEN {} ELSE {x \in DOMAIN L[q] : x[2] # i /\ B[x[2]][i] # 0}
DpCyc(B, L, i, q) == Sum(DpCycKeys(B, L, i, q), LAMBDA x : L[q][x])
DpUse(B, L, i, q, v) ==
  Sum({x \in DOMAIN L[q + 1] : v \in x[1]}, LAMBDA x : L[q + 1][x])
    + Sum({x \in DpCycKeys(B, L, i, q) : v \in x[1]}, LAMBDA x : L[q][x])
FindPathsDp(n, B, S, Q) ==
  LET Ls == TLCEval([i \in 1..n |-> IF i \in S THEN DpLayers(n, B, i, Q) ELSE <<>>])
      Pq == [q \in 1..Q |-> EMat(n, LAMBDA i, j :
               IF i \notin S THEN 0
               ELSE IF i = j THEN DpCyc(B, Ls[i], i, q) ELSE DpOpen(Ls[i], q, j))]
      plq == [q \in 1..Q |-> SumAll(n, Pq[q])]
      open(q) == Sum(1..n, LAMBDA i : Sum((1..n) \ {i}, LAMBDA j : Pq[q][i][j]))
      dead == {q \in 2..Q : open(q) = 0}
  IN [Pq |-> Pq,
      util |-> [q \in 1..Q |-> EVec(n, LAMBDA v : Sum(S, LAMBDA i : DpUse(B, Ls[i], i, q, v)))],
      plq |-> plq, tpath |-> SeqSum(plq),
      qstop |-> IF Q = 1 THEN 1 ELSE IF dead = {} THEN Q ELSE MinOf(dead)]

(* ---- operator form of findpaths' loops (the port of findpaths.m; FindPathsImpl) --- *)
(* pths: SEQUENCE of the paths that can still be continued, in the code's order;       *)
(* npths: the paths of length q collected so far; Pq, util as in the code (slice q-1   *)
(* of the python arrays = index q here).                                               *)
Hist(n, cells) == EVec(n, LAMBDA v : Cardinality({c \in cells : c[3] = v}))
(* cells of a sequence of paths: <<path index, position, node>>                        *)
CellsOf(P) == UNION {{<<x, y, P[x][y]>> : y \in 1..Len(P[x])} : x \in 1..Len(P)}
FpSeed(n, B, srcs) ==           \* `for j in range(n): for i in range(len(sources))`
  FoldLeft(LAMBDA acc, j :
     FoldLeft(LAMBDA acc2, x : IF B[srcs[x]][j] = 1 THEN Append(acc2, <<srcs[x], j>>) ELSE acc2,
              acc, [x \in 1..Len(srcs) |-> x]),
     <<>>, [j \in 1..n |-> j])
FpCount(n, M, P) ==             \* Pq[pths[nrp, 0], pths[nrp, q], q - 1] += 1 for every path
  EMat(n, LAMBDA i, j : M[i][j] + Cardinality({x \in 1..Len(P) : P[x][1] = i /\ LastOf(P[x]) = j}))
(* body of `for j in nendp` for the endpoint i: the previous paths pb that end in i and *)
(* do not hold j at positions 2..q (python pths[pb, 1:q]) are extended by j             *)
FpExtend(pths, q, i, j) ==
  SelectSeq(pths, LAMBDA p : p[q] = i /\ \A x \in 2..q : p[x] # j)
FpEndpoint(n, B, pths, q, i, npths) ==
  FoldLeft(LAMBDA acc, j :
             LET pb == FpExtend(pths, q, i, j) IN acc \o [x \in 1..Len(pb) |-> Append(pb[x], j)],
           npths, Asc({j \in 1..n : B[i][j] = 1}))

(* =============================== 2. cycprob ====================================== *)
(* Pq[q][i][j], Q slices of any non-negative integers.                                *)
(* "fcyc: fraction of all paths that are cycles for each path length q"               *)
FcycFrac(n, Pq, q) == <<SumDiag(n, Pq[q]), SumAll(n, Pq[q])>>
(* "pcyc: probability that a non-cyclic path of length q-1 can be extended to form a  *)
(*  cycle of length q" = cycles of length q / non-cyclic paths of length q-1;          *)
(* "pcyc[1] is not defined (set to zero)"                                             *)
PcycFrac(n, Pq, q) ==
  IF q = 1 THEN <<0, 1>>
  ELSE <<SumDiag(n, Pq[q]), SumAll(n, Pq[q - 1]) - SumDiag(n, Pq[q - 1])>>
(* an observed 10^-6 value against a fraction; "else 0" where the denominator is 0     *)
NearOrZero(obs, f, tol) ==
  IF f[2] <= 0 THEN obs = 0 ELSE RatOK(f[1], f[2]) => NearFrac(obs, f[1], f[2], tol)

(* ===================== 3. breadth: the breadth-first search tree ================== *)
(* hop distances from s in the 0/1 graph A (INF = unreachable), any n                  *)
HopRowOf(n, A, s) == HopRowFast(n, DOutNb(n, LenOfAdj(n, Bin(n, A))), s)
(* shortest cycle through s (INF if none): one connection s -> k plus the way back     *)
CycThrough(n, A, s) ==
  LET back == TLCEval([k \in 1..n |-> IF A[s][k] # 0 THEN HopRowOf(n, A, k)[s] ELSE INF])
  IN MinOf({INF} \cup {Plus(1, back[k]) : k \in 1..n})
(* "distance: vector of distances between source and ith vertex (0 for source)".  The  *)
(* toolbox records the length of the shortest cycle through the source in its own slot *)
(* ("this allows the source distance itself to be recorded"); both are accepted there  *)
BfsDistOK(n, A, s, dist) ==
  LET row == HopRowOf(n, A, s) IN
  /\ \A v \in (1..n) \ {s} : dist[v] = row[v]
  /\ dist[s] = 0 \/ dist[s] = CycThrough(n, A, s)
(* "branch: vertex that precedes i in the breadth-first search (-1 for source)":       *)
(* par[v] is a node id (python value + 1) one step closer to the source and connected  *)
(* to v.  Nothing is said about unreachable nodes.  braw = the python values.          *)
BfsBranchOK(n, A, s, braw) ==
  LET row == HopRowOf(n, A, s) IN
  /\ braw[s] = -1
  /\ \A v \in (1..n) \ {s} : row[v] < INF =>
        LET u == braw[v] + 1 IN u \in 1..n /\ A[u][v] # 0 /\ row[u] + 1 = row[v]

(* ================ 4. breadthdist / reachdist: reachability and distance =========== *)
(* "R: an entry (u,v)=1 means that there exists a path from node u to node v";         *)
(* "D: an entry (u,v) represents the length of shortest path from node u to node v".   *)
(* Both routines count paths of at least one connection: the diagonal holds the        *)
(* shortest cycle through the node, INF / 0 where there is none.                       *)
DPlusOf(n, A) ==
  LET H == HopDistFast(n, LenOfAdj(n, Bin(n, A)))
  IN EMat(n, LAMBDA i, j :
       IF i # j THEN H[i][j]
       ELSE MinOf({INF} \cup {Plus(1, H[k][i]) : k \in {k \in 1..n : A[i][k] # 0}}))
RPlusOf(n, DP) == EMat(n, LAMBDA i, j : IF DP[i][j] < INF THEN 1 ELSE 0)

(* ============================ weights of a length matrix ========================== *)
WtOf(mode, k) ==
  IF k >= INF THEN 0
  ELSE IF mode = "inv" THEN 4 \div k                 \* 1/k, k in {1,2,4}, times 4
  ELSE IF mode = "log" THEN 2 ^ (3 - k)              \* 2^-k, k in {1,2,3}, times 8
  ELSE k                                             \* "bin", "len"
ModeOK(n, Lm, mode) ==
  \A i, j \in 1..n : Lm[i][j] < INF =>
     IF mode = "inv" THEN Lm[i][j] \in {1, 2, 4}
     ELSE IF mode = "log" THEN Lm[i][j] \in {1, 2, 3}
     ELSE IF mode = "bin" THEN Lm[i][j] = 1 ELSE Lm[i][j] >= 1
WtMat(n, Lm, mode) == EMat(n, LAMBDA i, j : WtOf(mode, Lm[i][j]))
StrVec(n, W) == EVec(n, LAMBDA i : OutStr(n, W, i))
MinPathTab(n, Lm) ==            \* [s][t] -> the set of minimum-length simple paths
  TLCEval([s \in 1..n |-> TLCEval([t \in 1..n |-> IF s = t THEN {} ELSE MinPaths(n, Lm, s, t)])])

(* ============================ 5. search_information =============================== *)
(* "the amount of information (measured in bits) that a random walker needs to follow  *)
(*  the shortest path between a given pair of nodes": -log2 of the product of the      *)
(* transition probabilities T[a][b] = W[a][b] / strength(a) along the path.  A         *)
(* probability is the fraction <<num, den>>; 2^SI = den / num.                         *)
ProbPlain(W, str, p) ==
  <<FoldLeft(LAMBDA acc, z : acc * W[p[z]][p[z + 1]], 1, [z \in 1..(Len(p) - 1) |-> z]),
    FoldLeft(LAMBDA acc, z : acc * str[p[z]], 1, [z \in 1..(Len(p) - 1) |-> z])>>
(* has_memory, "the random walker remembers its previous step": the walker at p[z] does *)
(* not step back to p[z-1]; the remaining connections are renormalised:                 *)
(*   W[p_z][p_z+1] / (strength(p_z) - W[p_z][p_z-1])                                    *)
ProbMemRenorm(W, str, p) ==
  <<FoldLeft(LAMBDA acc, z : acc * W[p[z]][p[z + 1]], 1, [z \in 1..(Len(p) - 1) |-> z]),
    FoldLeft(LAMBDA acc, z : acc * (IF z = 1 THEN str[p[1]] ELSE str[p[z]] - W[p[z]][p[z - 1]]),
             1, [z \in 1..(Len(p) - 1) |-> z])>>
(* the toolbox's formula (search_information.m and its port) divides by                 *)
(* 1 - T[p_z-1][p_z] instead:  T[p_z][p_z+1] / (1 - T[p_z-1][p_z])                      *)
ProbMemToolbox(W, str, p) ==
  <<FoldLeft(LAMBDA acc, z : acc * W[p[z]][p[z + 1]] * (IF z = 1 THEN 1 ELSE str[p[z - 1]]),
             1, [z \in 1..(Len(p) - 1) |-> z]),
    FoldLeft(LAMBDA acc, z : acc * str[p[z]] * (IF z = 1 THEN 1 ELSE str[p[z - 1]] - W[p[z - 1]][p[z]]),
             1, [z \in 1..(Len(p) - 1) |-> z])>>
(* every factor <= smax, Len(p) - 1 <= h steps, two factors per step at most; then        *)
(* 2^SI * 1000 <= 9 * 10^8 stays below INF and every cross product below 2^31              *)
SiFits(smax, h) == smax >= 1 /\ RW!MaxPow(smax * smax, 0, 1, h) = h /\ IPow(smax * smax, h) <= 900000
(* observed x3 = round(2^SI * 1000) against the probability f: x3 * num = den * 1000    *)
(* up to one unit of x3 and the rounding; den = 0 (probability "infinite"): x3 = 0      *)
InfoMatches(x3, f) ==
  IF f[1] <= 0 THEN FALSE
  ELSE IF f[2] <= 0 THEN x3 = 0
  ELSE IsFinite(x3) /\ Abs(x3 * f[1] - f[2] * 1000) <= 2 * f[1]

(* ============================ 6. path_transitivity ================================ *)
(* matching index of i and j: (w_ik + w_jk summed over the common neighbours k other    *)
(* than i, j) / (strength of i without w_ij + strength of j without w_ji)               *)
MatchFrac(n, W, i, j) ==
  <<Sum({k \in (1..n) \ {i, j} : W[i][k] # 0 /\ W[j][k] # 0}, LAMBDA k : W[i][k] + W[j][k]),
    Sum((1..n) \ {j}, LAMBDA k : W[i][k]) + Sum((1..n) \ {i}, LAMBDA k : W[j][k])>>
PairsOfPath(p) == {xy \in (1..Len(p)) \X (1..Len(p)) : xy[1] < xy[2]}
PtDefined(n, W, p) == \A xy \in PairsOfPath(p) : MatchFrac(n, W, p[xy[1]], p[xy[2]])[2] > 0
(* "density of local detours (triangles) that are available along the shortest-paths":  *)
(* T = 2 * sum of the matching indices of all pairs of nodes on the path / (k (k-1)),   *)
(* k = nodes on the path.  obs6 * k(k-1) = 2 * sum m, each m floored at 10^-6.          *)
PtMatches(n, W, p, obs6) ==
  LET k == Len(p)
      pp == PairsOfPath(p)
      S6 == Sum(pp, LAMBDA xy : LET f == MatchFrac(n, W, p[xy[1]], p[xy[2]]) IN ToQ6(f[1], f[2]))
  IN /\ IsFinite(obs6)
     /\ obs6 * k * (k - 1) >= 2 * S6 - k * (k - 1)
     /\ obs6 * k * (k - 1) <= 2 * S6 + 2 * Cardinality(pp) + k * (k - 1)

(* ============================ 7. efficiencies ===================================== *)
(* sum of 10^6 / d over a bag of distances d >= 1: S6 <= exact * 10^6 < S6 + #values     *)
InvSum6(D, cells) ==
  LET bag == BagOfCells(D, cells) IN
  [lo |-> Sum(DOMAIN bag, LAMBDA v : (1000000 * bag[v]) \div v), k |-> Cardinality(DOMAIN bag)]
(* obs6 * den = sum of 1/d over the cells (den = number of terms of the mean)            *)
MeanInvNear(obs6, D, cells, den) ==
  LET s == InvSum6(D, cells) IN
  /\ IsFinite(obs6)
  /\ obs6 * den >= s.lo - den
  /\ obs6 * den <= s.lo + s.k + den
(* rout_efficiency: "Erout: pairwise routing efficiency matrix" = 1 / distance            *)
EroutOK(n, DD, E) ==
  \A p \in OffPairs(n) :
     LET d == DD[p[1]][p[2]]  e == E[p[1]][p[2]] IN
     IF d >= INF THEN e = 0 ELSE IF d = 0 THEN e = INF ELSE NearFrac(e, 1, d, 2)
(* "The local routing efficiency of a node u is the routing efficiency computed on the    *)
(*  subgraph formed by the neighborhood of node u (excluding node u)"                     *)
NbhdOf(n, Lm, u) == Asc({v \in 1..n : Lm[u][v] < INF \/ Lm[v][u] < INF})
SubLen(Lm, g) == EMat(Len(g), LAMBDA a, b : Lm[g[a]][g[b]])
(* the finite distances between distinct neighbours inside the neighbourhood subgraph     *)
ElocParts(n, Lm, u) ==
  LET g == NbhdOf(n, Lm, u)  m == Len(g)  Ds == Dist(m, SubLen(Lm, g))
  IN [m |-> m, D |-> Ds, cells |-> {p \in OffPairs(m) : Ds[p[1]][p[2]] < INF}]

(* diffusion_efficiency: "the inverse of the mean first passage time"; the exact MFPT      *)
(* <<num, den>> is the Cramer solution of RandomWalk.tla                                  *)
EdiffExactOK(n, A, E) ==
  LET X == RW!MfptExact(n, A) IN
  \A p \in OffPairs(n) :
     LET f == X[p[1]][p[2]] IN
     (f[1] > 0 /\ f[2] > 0 /\ RatOK(f[2], f[1])) => NearFrac(E[p[1]][p[2]], f[2], f[1], 3)

(* resource_efficiency_bin: "The shortest-path probability between nodes i and j is the    *)
(*  probability that a single random walker starting at node i will arrive at node j by    *)
(*  following (one of) the shortest path(s)" = sum over the shortest paths of the product  *)
(* of 1/degree.  Common denominator M^d, M = lcm of the degrees, d = distance.             *)
DegLcm(n, A) == FoldLeft(LAMBDA acc, i : IF OutDeg(n, A, i) = 0 THEN acc ELSE Lcm(acc, OutDeg(n, A, i)),
                         1, [i \in 1..n |-> i])
ProbSplFrac(n, A, MP, M, s, t) ==
  LET P == MP[s][t] IN
  IF P = {} THEN <<0, 1>>
  ELSE LET d == Len(CHOOSE p \in P : TRUE) - 1 IN
       <<Sum(P, LAMBDA p : FoldLeft(LAMBDA acc, z : acc * (M \div OutDeg(n, A, p[z])), 1,
                                    [z \in 1..(Len(p) - 1) |-> z])),
         IPow(M, d)>>
(* the same probability as the entry of the d-th power of the transition matrix (every     *)
(* walk of d = distance steps from s to t is a shortest path): cross-check for mc          *)
ProbSplByPower(n, A, M, H, s, t) ==
  LET d == H[s][t]
      T == EMat(n, LAMBDA i, j : IF A[i][j] # 0 THEN M \div OutDeg(n, A, i) ELSE 0)
  IN IF d >= INF \/ s = t THEN <<0, 1>> ELSE <<RW!PowTab(n, T, d)[d][s][t], IPow(M, d)>>
ResFits(n, A) == n <= 7 /\ IPow(DegLcm(n, A), n - 1) <= 2000000
=============================================================================
