------------------------------- MODULE Threshold -------------------------------
(* C17.  L0 definitions for bct/utils/other.py: threshold_proportional,         *)
(* threshold_absolute, binarize, normalize, invert, weight_conversion and the   *)
(* copy flag.                                                                   *)
(*                                                                              *)
(* Numbers.  A weight matrix is sent as integers W with a common denominator    *)
(* den in {1,2,4}: the real weight is W[i][j]/den (exact in binary floating     *)
(* point).  p is the fraction pn/pd with pd a power of two, thr is thrn/den.    *)
(* Outputs that must consist of input entries are sent in the same units as     *)
(* integers; outputs of normalize / invert are sent as round(x * 10^6).         *)
(* Bounds: n <= 12, |W| <= 100, den <= 4, pd <= 64: every product < 2^31.       *)
EXTENDS BctBase, SequencesExt

Q6 == 1000000

(* ---- teachers_round on a non-negative fraction P/Q (".5 rounds up") -------- *)
TRound(P, Q) == (2 * P + Q) \div (2 * Q)
(* brute definition: the integer m with m - 1/2 <= P/Q < m + 1/2                *)
TRoundBrute(P, Q) ==
  CHOOSE m \in 0..((P \div Q) + 1) : (2 * m - 1) * Q <= 2 * P /\ 2 * P < (2 * m + 1) * Q

(* ---- threshold_proportional ------------------------------------------------ *)
(* symmetric input (the diagonal plays no role) is treated as undirected: its   *)
(* connections are the unordered pairs, represented by the cells above the      *)
(* diagonal; otherwise every off-diagonal cell is a connection                  *)
SymOffDiag(n, W) == \A i, j \in 1..n : W[i][j] = W[j][i]
Cells(n, sym) == IF sym THEN {c \in (1..n) \X (1..n) : c[1] < c[2]}
                 ELSE {c \in (1..n) \X (1..n) : c[1] # c[2]}
(* "number of possible connections": n(n-1) cells, n(n-1)/2 pairs if symmetric  *)
Possible(n, sym) == IF sym THEN (n * (n - 1)) \div 2 ELSE n * (n - 1)
At(W, c) == W[c[1]][c[2]]
Present(n, W, sym) == {c \in Cells(n, sym) : At(W, c) # 0}
(* "round(p x number of possible connections) connections (all of them if       *)
(* fewer exist)"                                                                *)
Target(n, sym, pn, pd) == TRound(pn * Possible(n, sym), pd)
Want(n, W, sym, pn, pd) ==
  LET t == Target(n, sym, pn, pd)
      m == Cardinality(Present(n, W, sym))
  IN IF t < m THEN t ELSE m
(* "these are the strongest ones": nothing kept is weaker than anything dropped *)
Strongest(W, P, S) == \A c \in S : \A d \in P \ S : At(W, c) >= At(W, d)
(* the family of legal supports - several when weights tie at the cut           *)
KeepFamily(n, W, pn, pd) ==
  LET sym == SymOffDiag(n, W)
      P == Present(n, W, sym)
      w == Want(n, W, sym, pn, pd)
  IN {S \in SUBSET P : Cardinality(S) = w /\ Strongest(W, P, S)}
(* the output that keeps support S                                              *)
OutOf(n, W, sym, S) ==
  Mat(n, LAMBDA i, j : IF <<i, j>> \in S \/ (sym /\ <<j, i>> \in S) THEN W[i][j] ELSE 0)

(* property-level predicates on an observed output Out                          *)
Kept(n, W, sym, Out) == {c \in Present(n, W, sym) : At(Out, c) # 0}
DiagCleared(n, Out) == \A i \in 1..n : Out[i][i] = 0
SymmetricStaysSymmetric(n, W, Out) == SymOffDiag(n, W) => IsSym(n, Out)
(* keeping a connection means keeping its weight; nothing new appears           *)
KeptAreInputEntries(n, W, Out) ==
  \A i, j \in 1..n : i # j => (Out[i][j] = 0 \/ Out[i][j] = W[i][j])
CountExact(n, W, pn, pd, Out) ==
  LET sym == SymOffDiag(n, W)
  IN Cardinality(Kept(n, W, sym, Out)) = Want(n, W, sym, pn, pd)
KeptAreStrongest(n, W, Out) ==
  LET sym == SymOffDiag(n, W)
  IN Strongest(W, Present(n, W, sym), Kept(n, W, sym, Out))
LegalProportional(n, W, pn, pd, Out) ==
  /\ DiagCleared(n, Out)
  /\ SymmetricStaysSymmetric(n, W, Out)
  /\ KeptAreInputEntries(n, W, Out)
  /\ CountExact(n, W, pn, pd, Out)
  /\ KeptAreStrongest(n, W, Out)

(* a reference choice at ties, for drift only: a stable ascending argsort,      *)
(* reversed - among equal weights the cell later in row-major order comes       *)
(* first.  (NumPy >= 2 sorts float64 with SIMD networks that are not stable, so *)
(* "differs:ties" is expected on part of the tie-rich inputs; every such        *)
(* output still has to pass the property clauses.)                              *)
Pos(n, c) == (c[1] - 1) * n + c[2]
Before(n, W, d, c) == At(W, d) > At(W, c) \/ (At(W, d) = At(W, c) /\ Pos(n, d) > Pos(n, c))
ImplKept(n, W, pn, pd) ==
  LET sym == SymOffDiag(n, W)
      P == Present(n, W, sym)
      en == Target(n, sym, pn, pd)
  IN {c \in P : Cardinality({d \in P : Before(n, W, d, c)}) < en}
ImplOut(n, W, pn, pd) == OutOf(n, W, SymOffDiag(n, W), ImplKept(n, W, pn, pd))

(* ---- threshold_absolute: "keeps exactly the off-diagonal entries not below   *)
(* the threshold" --------------------------------------------------------------*)
AbsOut(n, W, thr) == Mat(n, LAMBDA i, j : IF i # j /\ W[i][j] >= thr THEN W[i][j] ELSE 0)

(* ---- binarize: "maps every nonzero to 1" = BctBase!Bin --------------------- *)

(* ---- normalize: "scales the largest magnitude to 1": obs/10^6 = W/max|W|     *)
(* compared by cross-multiplication within the rounding of obs                  *)
MaxMag(n, W) == MaxOf({Abs(W[i][j]) : i, j \in 1..n})
NormalizeOK(n, W, obs) ==
  LET mx == MaxMag(n, W) IN
  \A i, j \in 1..n : /\ IsFinite(obs[i][j]) /\ Abs(obs[i][j]) <= Q6 + 1
                     /\ Abs(obs[i][j] * mx - W[i][j] * Q6) <= mx

(* ---- invert: "maps every nonzero w to 1/w" (w = W/den, 1/w = den/W) -------- *)
InvertOK(n, W, den, obs) ==
  \A i, j \in 1..n :
    IF W[i][j] = 0 THEN obs[i][j] = 0
    ELSE /\ IsFinite(obs[i][j]) /\ Abs(obs[i][j]) <= den * Q6 + 1
         /\ Abs(obs[i][j] * W[i][j] - den * Q6) <= Abs(W[i][j])
(* "and undoes itself": obs2 = invert(invert(W)) is W again (+-1 ulp of 10^-6)  *)
InvolutionOK(n, W, den, obs2) ==
  \A i, j \in 1..n : /\ IsFinite(obs2[i][j]) /\ Abs(obs2[i][j]) <= 200 * Q6
                     /\ Abs(obs2[i][j] * den - W[i][j] * Q6) <= den

(* ---- weight_conversion: the command selects the function ------------------- *)
Dispatch(wcm) == IF wcm = "binarize" THEN "binarize"
                 ELSE IF wcm = "normalize" THEN "normalize"
                 ELSE IF wcm = "lengths" THEN "invert" ELSE "none"
SameMatrix(n, X, Y, tol) == \A i, j \in 1..n : Abs(X[i][j] - Y[i][j]) <= tol
=============================================================================
