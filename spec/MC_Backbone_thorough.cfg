SPECIFICATION Spec
CONSTANT Domains <- TDom
INVARIANT CycleLemmaInv
INVARIANT GrowInv
INVARIANT TreeInv
INVARIANT ClusInv
INVARIANT IsoInv
INVARIANT RunInv
CHECK_DEADLOCK FALSE
