-------------------------------- MODULE MergeImpl --------------------------------
(* C16, L2: the edge-scan / set-merging machine of get_components, one action  *)
(* per scanned item, over every undirected graph on N nodes.                   *)
EXTENDS Components
(* ---- the machine ----------------------------------------------------------- *)
CONSTANT N
VARIABLES A, em, k, sets
vars == <<A, em, k, sets>>

UPairs == {p \in (1..N) \X (1..N) : p[1] < p[2]}
UndOf(E) == Mat(N, LAMBDA i, j : IF <<i, j>> \in E \/ <<j, i>> \in E THEN 1 ELSE 0)
SymMatrices01 == {UndOf(E) : E \in SUBSET UPairs}

Init == /\ A \in SymMatrices01
        /\ em = EdgeMap(N, A)
        /\ k = 1
        /\ sets = <<>>
Scan == /\ k <= Len(em)
        /\ sets' = MergeStep(sets, em[k])
        /\ k' = k + 1
        /\ UNCHANGED <<A, em>>
Next == Scan
Spec == Init /\ [][Next]_vars

Done == k > Len(em)
(* scanned-so-far graph: the items em[1..k-1] seen as edges                      *)
ScannedGraph ==
  Mat(N, LAMBDA i, j : IF \E e \in 1..(k-1) : em[e] = {i, j} THEN 1 ELSE 0)
Touched == UNION {em[e] : e \in 1..(k-1)}

(* invariants of the scan: the partial sets are pairwise disjoint, cover the   *)
(* touched nodes, and are exactly the reachability classes of the scanned      *)
(* prefix - also when an edge arrives late and has to merge two older sets     *)
DisjointInv == \A i, j \in DOMAIN sets : i # j => sets[i] \cap sets[j] = {}
PartialInv  == {sets[i] : i \in DOMAIN sets}
                 = {ComponentOf(N, ScannedGraph, v) : v \in Touched}
FinalInv == Done => /\ {sets[i] : i \in DOMAIN sets} = Components(N, A)
                    /\ LET c == LabelsOf(N, sets) IN
                         /\ SameLabelIffReachable(N, A, c)
                         /\ Labels1toM(N, c, Len(sets))
                         /\ SizesAreCounts(N, c, SizesOf(sets))
                    /\ sets = MergeAll(N, A)
(* L0 cross-check: closure-based reachability = existence of a simple path      *)
OracleInv == \A u, v \in 1..N :
               Reaches(N, SymSupport(N, A), u, v) <=> ReachesByPath(N, SymSupport(N, A), u, v)
=============================================================================
