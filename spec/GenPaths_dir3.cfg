SPECIFICATION Spec
CONSTANT N = 3
CONSTANT Kind = "dir"
CHECK_DEADLOCK FALSE
