---------------------------- MODULE MC_RngDiscipline ----------------------------
(* Model-checking harness for RngDiscipline.                                     *)
(*  _good_mixedN : the well-behaved abstract library, all programs of length <= N *)
(*             (no renaming reduction, routines of cost 0/1/2): every clause      *)
(*             holds, action properties hold, it refines Allowed.                 *)
(*  _good_canonN : same, one program per renaming class, unit costs.              *)
(*  _matrix_fK_lenN : every library, K function tokens, programs of length <= N;  *)
(*             which clauses are broken by which misbehaviour is                  *)
(*             collected in TLC registers (one worker) and the POSTCONDITION      *)
(*             demands exactly the table Catches: every clause is violated by     *)
(*             the misbehaviours it should catch (non-vacuity) and by no other.   *)
(*  Gen_*    : the programs themselves are printed ("G|" lines) and run against   *)
(*             every seed-accepting routine of bctpy (harness/props/c05.py).      *)
EXTENDS RngDiscipline

CostMixed(fn, a) == (fn + a) % 3      \* (1,1)->2, (1,2)->0, (2,1)->0, (2,2)->1
CostOne(fn, a) == 1                   \* symmetric under renaming (Canon)

AllLibs == <<"good", "stray_global", "ignores_seed", "reseeds_global", "uses_pyrandom",
             "stray_pyrandom", "reseeds_inner", "fresh_entropy", "nondet">>
G  == "GlobalUntouchedWhenSeeded"
P  == "PyRandomUntouched"
S  == "SameSeedSameResult"
I  == "IntSeedEqualsRandomState"
U  == "UnseededIsFunctionOfGlobalState"
R  == "ReseedReproduces"
Catches(L) ==
  CASE L = "good"           -> {}
    [] L = "stray_global"   -> {G}
    [] L = "ignores_seed"   -> {G, S, I}
    [] L = "reseeds_global" -> {G}
    [] L = "uses_pyrandom"  -> {P, S, I, U, R}
    [] L = "stray_pyrandom" -> {P}
    [] L = "reseeds_inner"  -> {I}
    [] L = "fresh_entropy"  -> {U, R}
    [] L = "nondet"         -> {S, I, U, R}

(* register 100 + 10 * lib + clause holds TRUE once a violating history was seen  *)
LibIx(L) == CHOOSE k \in 1..Len(AllLibs) : AllLibs[k] = L
Reg(L, k) == 100 + 10 * LibIx(L) + k
ASSUME \A L \in 1..Len(AllLibs) : \A k \in 1..Len(ClauseNames) : TLCSet(100 + 10 * L + k, FALSE)
Book ==
  \A k \in 1..Len(ClauseNames) :
     IF hist # <<>> /\ ~StepHolds(ClauseNames[k], SubSeq(hist, 1, Len(hist) - 1), hist[Len(hist)])
     THEN TLCSet(Reg(lib, k), TRUE) ELSE TRUE
Observed(L) == {ClauseNames[k] : k \in {m \in 1..Len(ClauseNames) : TLCGet(Reg(L, m))}}
Post ==
  /\ \A L \in Libs : (Observed(L) = Catches(L) \/ (PrintT(<<"MISMATCH", L, Observed(L)>>) /\ FALSE))
  /\ \A c \in {ClauseNames[k] : k \in 1..Len(ClauseNames)} : \E L \in Libs : c \in Catches(L)
  /\ PrintT(<<"matrix", [L \in Libs |-> Observed(L)]>>)
=============================================================================
