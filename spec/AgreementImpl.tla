-------------------------------- MODULE AgreementImpl --------------------------------
(* X02, L2: agreement(ci, buffsz) and agreement_weighted(ci, wts) as machines,  *)
(* over every stack of 1..MaxM partitions of N nodes and every buffer size in   *)
(* Buffs / every weight vector over Wts.                                        *)
(*   agreement:  AllAtOnce (n_partitions <= buffsz)  |  Split, Chunk* (one per  *)
(*               `for i, j in zip(a, b)` body), then FillDiag                   *)
(*   weighted:   WStart, WStep* (one per `for i in range(m)` body)              *)
(* Canonical = TRUE: partitions enumerated as restricted growth strings;        *)
(* FALSE: every label vector over LabelPool (arbitrary, gapped, negative).      *)
(* AsCoded = TRUE replaces the weighted loop body by what the code computes     *)
(* today (dummyvar of a 1 x n array: n one-node partitions, d.d^T = [[n]]),     *)
(* used by MC_Agreement_defect.cfg only, which is expected to FAIL WFinalInv.   *)
EXTENDS Agreement
CONSTANTS N, MaxM, Canonical, LabelPool, Buffs, Wts, AsCoded
VARIABLES mode, m, ci, buffsz, w, a, b, k, D, pc
vars == <<mode, m, ci, buffsz, w, a, b, k, D, pc>>

Cols == IF Canonical THEN {c \in [1..N -> 1..N] : IsRGString(c)} ELSE [1..N -> LabelPool]
Stacks(mm) == {[i \in 1..N |-> [p \in 1..mm |-> st[p][i]]] : st \in [1..mm -> Cols]}

Init == /\ m \in 1..MaxM
        /\ ci \in Stacks(m)
        /\ \/ mode = "agreement" /\ buffsz \in Buffs /\ w = <<>>
           \/ mode = "weighted" /\ buffsz = 0 /\ w \in [1..m -> Wts]
        /\ a = <<>> /\ b = <<>> /\ k = 0
        /\ D = Zero(N)
        /\ pc = "start"

(* ---- agreement ---------------------------------------------------------------- *)
AllAtOnce == /\ mode = "agreement" /\ pc = "start" /\ m <= buffsz
             /\ D' = Gram(N, DummyCols(N, ci, IntSeq(1, m)))
             /\ pc' = "fill"
             /\ UNCHANGED <<mode, m, ci, buffsz, w, a, b, k>>
Split == /\ mode = "agreement" /\ pc = "start" /\ m > buffsz
         /\ a' = ChunkA(m, buffsz)
         /\ b' = ChunkB(m, buffsz)
         /\ D' = Zero(N)
         /\ k' = 1
         /\ pc' = "loop"
         /\ UNCHANGED <<mode, m, ci, buffsz, w>>
NZip == IF Len(a) < Len(b) THEN Len(a) ELSE Len(b)
Chunk == /\ mode = "agreement" /\ pc = "loop" /\ k <= NZip
         /\ D' = MatAdd(N, D, Gram(N, DummyCols(N, ci, ChunkCols(a[k], b[k]))))
         /\ k' = k + 1
         /\ UNCHANGED <<mode, m, ci, buffsz, w, a, b, pc>>
FillDiag == /\ mode = "agreement"
            /\ \/ pc = "fill"
               \/ pc = "loop" /\ k > NZip
            /\ D' = NoDiag(N, D)
            /\ pc' = "done"
            /\ UNCHANGED <<mode, m, ci, buffsz, w, a, b, k>>

(* ---- agreement_weighted: D holds numerators over WSum(m, w) -------------------- *)
WStart == /\ mode = "weighted" /\ pc = "start"
          /\ D' = Zero(N) /\ k' = 1 /\ pc' = "loop"
          /\ UNCHANGED <<mode, m, ci, buffsz, w, a, b>>
WStep == /\ mode = "weighted" /\ pc = "loop" /\ k <= m
         /\ D' = IF AsCoded
                 THEN Mat(N, LAMBDA i, j : D[i][j] + N * w[k])
                 ELSE MatAdd(N, D, MatScale(N, Gram(N, DummyCols(N, ci, <<k>>)), w[k]))
         /\ k' = k + 1
         /\ UNCHANGED <<mode, m, ci, buffsz, w, a, b, pc>>
WEnd == /\ mode = "weighted" /\ pc = "loop" /\ k > m
        /\ pc' = "done"
        /\ UNCHANGED <<mode, m, ci, buffsz, w, a, b, k, D>>

Next == AllAtOnce \/ Split \/ Chunk \/ FillDiag \/ WStart \/ WStep \/ WEnd
Spec == Init /\ [][Next]_vars

(* ---- invariants ----------------------------------------------------------------- *)
(* dummyvar: the indicator columns of one partition are exactly its blocks          *)
DummyInv == pc = "start" =>
  \A p \in 1..m : SeqToSet(DummyCols(N, ci, <<p>>)) = Blocks(Column(N, ci, p))
              /\ Len(DummyCols(N, ci, <<p>>)) = Cardinality(Blocks(Column(N, ci, p)))
(* the chunks [a[t], b[t]) tile 0..m without gap or overlap and none exceeds buffsz  *)
ChunkInv == mode = "agreement" /\ pc = "loop" =>
  /\ Len(a) = Len(b) /\ Len(a) >= 1
  /\ a[1] = 0 /\ b[Len(b)] = m
  /\ \A t \in 1..Len(a) : a[t] < b[t] /\ b[t] - a[t] <= buffsz
  /\ \A t \in 1..(Len(a) - 1) : a[t + 1] = b[t]
(* after k-1 chunks D counts the co-assignments in the columns consumed so far       *)
(* (the diagonal counts every consumed column: it is cleared at the end only)        *)
PartialInv == mode = "agreement" /\ pc = "loop" =>
  LET used == IF k = 1 THEN 0 ELSE b[k - 1] IN
  \A i, j \in 1..N : D[i][j] = Cardinality({p \in 1..used : ci[i][p] = ci[j][p]})
FinalInv == mode = "agreement" /\ pc = "done" =>
  /\ D = AgreementL0(N, m, ci)
  /\ D = AgreementL2(N, m, ci, buffsz)
  /\ CountsCoassignments(N, m, ci, D) /\ ZeroDiagonal(N, D) /\ IsSym(N, D)
WPartialInv == mode = "weighted" /\ pc = "loop" /\ ~AsCoded =>
  \A i, j \in 1..N : D[i][j] = Sum({p \in 1..(k - 1) : ci[i][p] = ci[j][p]}, LAMBDA p : w[p])
WFinalInv == mode = "weighted" /\ pc = "done" =>
  /\ \A i, j \in 1..N : i # j => D[i][j] = WNum(m, ci, w, i, j)
  /\ \A i \in 1..N : D[i][i] = WSum(m, w)                \* i.e. 1 after normalisation
(* relation between the two routines: unit weights give agreement / m off the diagonal *)
UnitWeightsInv == mode = "weighted" /\ pc = "done" /\ ~AsCoded /\ (\A p \in 1..m : w[p] = 1) =>
  \A i, j \in 1..N : i # j => D[i][j] = AgreementL0(N, m, ci)[i][j]
=============================================================================
