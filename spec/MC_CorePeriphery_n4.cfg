SPECIFICATION Spec
CONSTANT NN = 4
CONSTANT Wts <- W01
CONSTANT Gammas <- G1
CONSTANT MaxRounds = 2
INVARIANT TypeInv
INVARIANT StatisticInv
INVARIANT QIsCorenessInv
INVARIANT QtInv
INVARIANT MonotoneInv
INVARIANT IxesInv
INVARIANT LocalOptInv
INVARIANT RoundsInv
INVARIANT GlobalOptInv
INVARIANT OneRoundInv
INVARIANT ReorderLawInv
CHECK_DEADLOCK FALSE
