SPECIFICATION FairSpec
CONSTANT Machines <- C03Machines
CONSTANT DjDomains <- TDj
CONSTANT FwDomains <- TFw
CONSTANT BinDomains <- TBin
CONSTANT BfsDomains <- TBfs
CONSTANT NavDomains <- None
INVARIANT OracleInv
INVARIANT FastOracleInv
INVARIANT DjRowsDoneInv
INVARIANT DjWhileInv
INVARIANT DjFinalInv
INVARIANT FwForInv
INVARIANT FwFinalInv
INVARIANT FwRetrieveInv
INVARIANT AbWhileInv
INVARIANT AbFinalInv
INVARIANT BrWhileInv
INVARIANT BrFinalInv
INVARIANT RdCallInv
INVARIANT RdFinalInv
INVARIANT NavWalkInv
INVARIANT NavCountInv
INVARIANT NavFailInv
INVARIANT NavArriveInv
INVARIANT NavBoundInv
INVARIANT NavFinalInv
PROPERTY Terminates
CHECK_DEADLOCK FALSE
