SPECIFICATION Spec
CONSTANT N = 4
CONSTANT Dir = FALSE
CONSTANT Finetune = TRUE
CONSTANT GN = 5
CONSTANT GD = 4
CONSTANT WMax = 2
CONSTANT Gen = TRUE
CONSTANT MaxSweeps = 50
CHECK_DEADLOCK FALSE
