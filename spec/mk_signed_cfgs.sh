#!/bin/sh
mk() { # file N Dir Iters MaxAtt Vals Null Gen Frame
cat > $1 <<EOF
SPECIFICATION Spec
CONSTANT N = $2
CONSTANT Dir = $3
CONSTANT Iters = $4
CONSTANT MaxAtt = $5
CONSTANT Vals <- $6
CONSTANT NullModel = $7
CONSTANT Gen = $8
CONSTANT Frame <- $9
CHECK_DEADLOCK FALSE
EOF
if [ "$8" = FALSE ]; then cat >> $1 <<EOF
INVARIANT SignedDegInv
INVARIANT PosBagInv
INVARIANT NegBagInv
INVARIANT DiagInv
INVARIANT SymInv
PROPERTY EffCounts
EOF
fi
}
rm -f MC_Signed_*.cfg Gen_Signed_*.cfg
mk MC_Signed_q_und4.cfg 4 FALSE 2 2 ValsA FALSE FALSE NoFrame
mk MC_Signed_q_dir3null.cfg 3 TRUE 0 3 ValsA TRUE FALSE NoFrame
mk MC_Signed_q_dir4.cfg 4 TRUE 1 4 ValsC FALSE FALSE Frame8
mk MC_Signed_t_und4null.cfg 4 FALSE 1 2 ValsC TRUE FALSE NoFrame
mk MC_Signed_t_und4.cfg 4 FALSE 3 2 ValsB FALSE FALSE NoFrame
mk MC_Signed_t_dir4.cfg 4 TRUE 2 4 ValsC FALSE FALSE Frame8
mk Gen_Signed_und4.cfg 4 FALSE 3 2 ValsA FALSE TRUE NoFrame
mk Gen_Signed_und5.cfg 5 FALSE 3 2 ValsC FALSE TRUE NoFrame
mk Gen_Signed_dir4.cfg 4 TRUE 3 4 ValsC FALSE TRUE Frame8
