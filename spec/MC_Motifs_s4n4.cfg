SPECIFICATION Spec
CONSTANT N = 4
CONSTANT K = 4
CONSTANT Funct = FALSE
CONSTANT AsCoded = FALSE
CONSTANT Inputs = "dir"
CONSTANT Lemmas = FALSE
INVARIANT LibInv
INVARIANT VisitInv
INVARIANT ProgressInv
INVARIANT OrderInv
INVARIANT PartialInv
INVARIANT FinalInv
INVARIANT LookupInv
INVARIANT SumInv
INVARIANT CrossInv
INVARIANT PermInv
CHECK_DEADLOCK FALSE
