SPECIFICATION Spec
CONSTANT N = 5
CONSTANT Gen = TRUE
CHECK_DEADLOCK FALSE
