-------------------------------- MODULE Measures --------------------------------
(* X01 (extended coverage, DESIGN section 8 item 1).  L0 definitions of the       *)
(* deterministic local/global measures of bctpy that no listed property judges:   *)
(*   degrees_und/_dir, strengths_und/_dir/_und_sign, density_und/_dir, jdegree,   *)
(*   matching_ind(_und), edge_nei_overlap_bu/_bd, flow_coef_bd, rich_club_bu/_bd/ *)
(*   _wu/_wd, assortativity_bin (flags 0..4), participation_coef,                 *)
(*   module_degree_zscore, erange, efficiency_bin(local=True).                    *)
(* The definitions are those of the docstrings and of the MATLAB-BCT sources the  *)
(* docstrings cite, written as set comprehensions over nodes / node pairs; they   *)
(* are NOT transcriptions of the numpy code.  Part 2 gives, for every measure for *)
(* which there is one, an INDEPENDENT second formulation; MC_Measures proves the  *)
(* two equal on every small graph, proves range/identity lemmas and proves every  *)
(* operator equivariant under node relabelling.                                   *)
(*                                                                                *)
(* Conventions (BctBase): nodes 1..n, A[i][j] # 0 is the connection i -> j,       *)
(* in-degree = column count, out-degree = row count.  Values are exact fractions  *)
(* <<P, Q>>; Q = 0 means "undefined (0/0 or x/0)".                                *)
(* 32-bit bounds: n <= 10, |weights| <= 4.  Largest intermediates: local          *)
(* efficiency numerator 4 * 2*27720 * 72 < 1.6*10^7; assortativity               *)
(* 4*K*Sum(x*y) <= 4*90*90*81 < 2.7*10^6.                                         *)
EXTENDS Distance          \* BctBase, BctGraph, BctRational, SequencesExt, Dist, SimplePaths

Cells(n) == (1..n) \X (1..n)
OffCells(n) == {c \in Cells(n) : c[1] # c[2]}
UpCells(n) == {c \in Cells(n) : c[1] < c[2]}
Nz(x) == IF x # 0 THEN 1 ELSE 0
Sq(x) == x * x
(* "x/0 -> 0" convention of a measure that is set to 0 where it is undefined       *)
FracOr0(P, Q) == IF Q = 0 THEN <<0, 1>> ELSE <<P, Q>>
(* row-major order of np.where                                                     *)
RowMajor(a, b) == a[1] < b[1] \/ (a[1] = b[1] /\ a[2] < b[2])
EdgeSeq(n, A) == SetToSortSeq(Support(n, A), RowMajor)
(* nodes adjacent to v by an incoming, outgoing or reciprocal connection           *)
NbrSet(n, A, v) == {k \in 1..n : A[v][k] # 0 \/ A[k][v] # 0}

(* ================================ Part 1: L0 =================================== *)
(* ---- degrees_und, degrees_dir, strengths_* (degree.py) ------------------------- *)
(* "Node degree is the number of links connected to the node"; weights discarded   *)
InDegVec(n, A)  == [i \in 1..n |-> InDeg(n, A, i)]
OutDegVec(n, A) == [i \in 1..n |-> OutDeg(n, A, i)]
TotDegVec(n, A) == [i \in 1..n |-> InDeg(n, A, i) + OutDeg(n, A, i)]
(* "Node strength is the sum of weights of links connected to the node"            *)
InStrVec(n, W)  == [i \in 1..n |-> InStr(n, W, i)]
OutStrVec(n, W) == [i \in 1..n |-> OutStr(n, W, i)]
TotStrVec(n, W) == [i \in 1..n |-> InStr(n, W, i) + OutStr(n, W, i)]
(* strengths_und_sign (MATLAB-BCT): diagonal cleared, Spos = sum(W.*(W>0)),        *)
(* Sneg = sum(-W.*(W<0)) (a strength is a magnitude), vpos = sum(Spos), vneg = sum(Sneg) *)
PosW(x) == IF x > 0 THEN x ELSE 0
NegW(x) == IF x < 0 THEN -x ELSE 0
PosStrVec(n, W) == [i \in 1..n |-> Sum((1..n) \ {i}, LAMBDA j : PosW(W[j][i]))]
NegStrVec(n, W) == [i \in 1..n |-> Sum((1..n) \ {i}, LAMBDA j : NegW(W[j][i]))]
VecTotal(n, x) == Sum(1..n, LAMBDA i : x[i])

(* ---- density_und, density_dir (physical_connectivity.py) ------------------------ *)
(* "the fraction of present connections to possible connections" (no self-         *)
(* connections): K / (n(n-1)/2) undirected, K / (n(n-1)) directed                  *)
EdgeCountUnd(n, A) == Cardinality({c \in UpCells(n) : A[c[1]][c[2]] # 0})
EdgeCountDir(n, A) == Cardinality({c \in OffCells(n) : A[c[1]][c[2]] # 0})
DensityUnd(n, A) == <<2 * EdgeCountUnd(n, A), n * (n - 1)>>
DensityDir(n, A) == <<EdgeCountDir(n, A), n * (n - 1)>>

(* ---- jdegree (degree.py) ---------------------------------------------------------- *)
(* joint degree distribution, shifted by one: J[id+1][od+1] = number of nodes with  *)
(* that in- and out-degree ("upper triangular part has vertices with od > id");     *)
(* J_od, J_id, J_bl = number of nodes with od > id, id > od, id = od                *)
JSize(n, A) == 1 + MaxOf({InDeg(n, A, i) : i \in 1..n} \cup {OutDeg(n, A, i) : i \in 1..n})
JDegree(n, A) ==
  LET z == JSize(n, A)  id == InDegVec(n, A)  od == OutDegVec(n, A) IN
  [u \in 1..z |-> [v \in 1..z |-> Cardinality({i \in 1..n : id[i] = u - 1 /\ od[i] = v - 1})]]
JOd(n, A) == Cardinality({i \in 1..n : OutDeg(n, A, i) > InDeg(n, A, i)})
JId(n, A) == Cardinality({i \in 1..n : InDeg(n, A, i) > OutDeg(n, A, i)})
JBl(n, A) == Cardinality({i \in 1..n : InDeg(n, A, i) = OutDeg(n, A, i)})

(* ---- matching_ind, matching_ind_und (similarity.py) ------------------------------- *)
(* "the amount of overlap in the connection patterns of u and v.  Self-connections  *)
(* and u-v connections are ignored": twice the number of common neighbours over the *)
(* sum of the two degrees, third parties only; 0 when neither has a third party     *)
Third(n, i, j) == (1..n) \ {i, j}
InNb(n, A, v, i, j)  == {k \in Third(n, i, j) : A[k][v] # 0}
OutNb(n, A, v, i, j) == {k \in Third(n, i, j) : A[v][k] # 0}
MatchPQ(X, Y) == <<2 * Cardinality(X \cap Y), Cardinality(X) + Cardinality(Y)>>
MatchInPQ(n, A, i, j)  == MatchPQ(InNb(n, A, i, i, j), InNb(n, A, j, i, j))
MatchOutPQ(n, A, i, j) == MatchPQ(OutNb(n, A, i, i, j), OutNb(n, A, j, i, j))
MatchAllPQ(n, A, i, j) ==
  LET a == MatchInPQ(n, A, i, j)  b == MatchOutPQ(n, A, i, j) IN <<a[1] + b[1], a[2] + b[2]>>
MatchMat(n, A, f(_, _, _, _)) ==
  Mat(n, LAMBDA i, j : IF i = j THEN <<0, 1>> ELSE LET pq == f(n, A, i, j) IN FracOr0(pq[1], pq[2]))
MatchingIn(n, A)  == MatchMat(n, A, MatchInPQ)
MatchingOut(n, A) == MatchMat(n, A, MatchOutPQ)
MatchingAll(n, A) == MatchMat(n, A, MatchAllPQ)
(* undirected: "similarity between two nodes' connectivity profiles (excluding      *)
(* their mutual connection, should it exist)" = the same index on the symmetric A   *)
MatchingUnd(n, A) == MatchingIn(n, A)

(* ---- edge_nei_overlap_bu / _bd (similarity.py) ------------------------------------ *)
(* for an existing connection i -> j: the neighbours of i and of j (linked by        *)
(* incoming, outgoing or reciprocal connections), i and j themselves left out;       *)
(* overlap = |intersection| / |union|; undefined (0/0) when both are empty           *)
EdgeNb(n, A, v, i, j) == NbrSet(n, A, v) \ {i, j}
EdgeOverlap(n, A, i, j) ==
  LET X == EdgeNb(n, A, i, i, j)  Y == EdgeNb(n, A, j, i, j) IN
  <<Cardinality(X \cap Y), Cardinality(X \cup Y)>>
HasIsolatedEdge(n, A) == \E c \in Support(n, A) : EdgeOverlap(n, A, c[1], c[2])[2] = 0

(* ---- flow_coef_bd (centrality.py; Honey et al. 2007) ------------------------------- *)
(* paths of length two i -> v -> j between two different neighbours of v that are    *)
(* not short-cut by a direct connection i -> j, out of the k(k-1) ordered pairs of   *)
(* neighbours; 0 for a node with fewer than two neighbours                           *)
FlowPaths(n, A, v) ==
  LET nb == NbrSet(n, A, v) \ {v} IN
  {p \in nb \X nb : p[1] # p[2] /\ A[p[1]][v] # 0 /\ A[v][p[2]] # 0 /\ A[p[1]][p[2]] = 0}
FlowTotal(n, A, v) == Cardinality(FlowPaths(n, A, v))
FlowMax(n, A, v) == LET k == Cardinality(NbrSet(n, A, v) \ {v}) IN k * (k - 1)
FlowCoef(n, A, v) == FracOr0(FlowTotal(n, A, v), FlowMax(n, A, v))
(* network average, exact over 2520 = lcm{k(k-1) : k <= 10}                           *)
FlowL == 2520
FlowMean(n, A) ==
  <<Sum(1..n, LAMBDA v : LET f == FlowCoef(n, A, v) IN f[1] * (FlowL \div f[2])), FlowL * n>>

(* ---- rich_club_bu / _bd (core.py; Colizza et al. 2006) ------------------------------ *)
(* level k: the nodes of degree > k (bd: in- plus out-degree); Nk their number, Ek the *)
(* number of connections among them (entries of the submatrix: an undirected edge      *)
(* counts twice), R = Ek / (Nk (Nk - 1)); undefined for Nk < 2                          *)
ClubGT(n, deg, k) == {i \in 1..n : deg[i] > k}
ClubSum(A, C) == Sum(C \X C, LAMBDA c : A[c[1]][c[2]])
RichNk(n, deg, k) == Cardinality(ClubGT(n, deg, k))
RichEk(n, A, deg, k) == ClubSum(A, ClubGT(n, deg, k))
RichB(n, A, deg, k) == LET nk == RichNk(n, deg, k) IN <<RichEk(n, A, deg, k), nk * (nk - 1)>>
MaxDeg(n, deg) == MaxOf({deg[i] : i \in 1..n})

(* ---- rich_club_wu / _wd (core.py; Opsahl et al. 2008) -------------------------------- *)
(* level k: the nodes of degree >= k; Wr = total weight among them, Er = number of      *)
(* connections among them; Rw = Wr / (sum of the Er strongest weights of the whole       *)
(* network).  Weights >= 0.                                                              *)
ClubGE(n, deg, k) == {i \in 1..n : deg[i] >= k}
(* sum of the E largest entries: by value classes, strongest class first                 *)
TopSum(n, W, E) ==
  LET vals == {W[c[1]][c[2]] : c \in Cells(n)} \ {0}
      cnt(v) == Cardinality({c \in Cells(n) : W[c[1]][c[2]] = v})
      above(v) == Cardinality({c \in Cells(n) : W[c[1]][c[2]] > v})
      take(v) == LET room == E - above(v) IN
                 IF room <= 0 THEN 0 ELSE IF room < cnt(v) THEN room ELSE cnt(v)
  IN Sum(vals, LAMBDA v : v * take(v))
RichW(n, W, deg, k) ==
  LET C == ClubGE(n, deg, k)
      Er == Cardinality({c \in C \X C : W[c[1]][c[2]] # 0})
  IN <<ClubSum(W, C), TopSum(n, W, Er)>>

(* ---- assortativity_bin (core.py; Newman 2002, Rubinov & Sporns 2010) ------------------ *)
(* over the K connections (flag 0: each undirected edge once), with x, y the degrees      *)
(* of the flag at the two ends:                                                           *)
(*   r = (K^-1 Sum xy - [K^-1 Sum (x+y)/2]^2) / (K^-1 Sum (x^2+y^2)/2 - [K^-1 Sum (x+y)/2]^2) *)
(* both parts multiplied by 4 K^2.  Undefined (Q = 0) when all end degrees are equal.     *)
AssortEdges(n, A, flag) ==
  IF flag = 0 THEN {c \in UpCells(n) : A[c[1]][c[2]] > 0} ELSE {c \in Cells(n) : A[c[1]][c[2]] > 0}
AssortX(id, od, flag, c) == IF flag \in {1, 3} THEN od[c[1]] ELSE id[c[1]]     \* 0: degree
AssortY(id, od, flag, c) == IF flag \in {2, 3} THEN od[c[2]] ELSE id[c[2]]
AssortPQ(n, A, flag) ==
  LET id == Force(InDegVec(n, A))  od == Force(OutDegVec(n, A))
      E == AssortEdges(n, A, flag)
      K == Cardinality(E)
      x(c) == AssortX(id, od, flag, c)
      y(c) == AssortY(id, od, flag, c)
      Sxy == Sum(E, LAMBDA c : x(c) * y(c))
      Ss  == Sum(E, LAMBDA c : x(c) + y(c))
      Sqq == Sum(E, LAMBDA c : Sq(x(c)) + Sq(y(c)))
  IN <<4 * K * Sxy - Sq(Ss), 2 * K * Sqq - Sq(Ss)>>

(* ---- participation_coef (centrality.py; Guimera & Amaral 2005) -------------------------- *)
(* P_i = 1 - Sum_m (k_im / k_i)^2, k_im = weight from i into module m; 0 for k_i = 0.        *)
(* mode 0 'undirected' and 1 'out': row i of W;  2 'in': column i.  ci: arbitrary labels.     *)
ModuleLabels(n, ci) == {ci[i] : i \in 1..n}
WTo(n, W, mode, i, j) == IF mode = 2 THEN W[j][i] ELSE W[i][j]
KToModule(n, W, ci, mode, i, m) == Sum({j \in 1..n : ci[j] = m}, LAMBDA j : WTo(n, W, mode, i, j))
KTotal(n, W, mode, i) == Sum(1..n, LAMBDA j : WTo(n, W, mode, i, j))
Participation(n, W, ci, mode) ==
  [i \in 1..n |->
     LET k == KTotal(n, W, mode, i) IN
     FracOr0(Sq(k) - Sum(ModuleLabels(n, ci), LAMBDA m : Sq(KToModule(n, W, ci, mode, i, m))), Sq(k))]

(* ---- module_degree_zscore (centrality.py; Guimera & Amaral 2005) -------------------------- *)
(* z_i = (k_i - mean k) / std k over the nodes of i's module, k = within-module degree         *)
(* (flag 0 undirected and 1: row sums = out-degree; 2: column sums = in-degree; 3: both),      *)
(* population standard deviation (bctpy's documented choice, test_zi); 0 when std = 0.         *)
(* With N = module size, S = Sum k, S2 = Sum k^2:  z = (N k - S) / sqrt(N S2 - S^2).           *)
ModuleOf(n, ci, i) == {j \in 1..n : ci[j] = ci[i]}
WithinDeg(n, W, ci, flag, i) ==
  Sum(ModuleOf(n, ci, i), LAMBDA j : CASE flag \in {0, 1} -> W[i][j]
                                       [] flag = 2 -> W[j][i]
                                       [] flag = 3 -> W[i][j] + W[j][i])
ZNum(n, W, ci, flag, i) ==
  LET M == ModuleOf(n, ci, i) IN
  Cardinality(M) * WithinDeg(n, W, ci, flag, i) - Sum(M, LAMBDA j : WithinDeg(n, W, ci, flag, j))
ZVar(n, W, ci, flag, i) ==
  LET M == ModuleOf(n, ci, i)
      S == Sum(M, LAMBDA j : WithinDeg(n, W, ci, flag, j))
  IN Cardinality(M) * Sum(M, LAMBDA j : Sq(WithinDeg(n, W, ci, flag, j))) - Sq(S)

(* ---- erange (centrality.py; Watts 1999) --------------------------------------------------- *)
(* "range for each edge, i.e. the length of the shortest path from i to j for edge c(i,j)      *)
(* after the edge has been removed from the graph" (INF: none), 0 where there is no edge;      *)
(* eta = mean of the finite ranges; a shortcut is an edge of range > 2; fs = their fraction    *)
(* length of a shortest path = the least h such that t lies within h steps of s, by growing   *)
(* the set of reached nodes one step at a time                                                *)
RECURSIVE HopsGrow(_, _, _, _, _)
HopsGrow(n, M, S, t, h) ==
  IF t \in S THEN h
  ELSE LET S2 == S \cup {k \in 1..n : \E a \in S : M[a][k] # 0} IN
       IF S2 = S THEN INF ELSE HopsGrow(n, M, S2, t, h + 1)
Hops(n, M, s, t) == HopsGrow(n, M, {s}, t, 0)
CutEdge(n, A, i, j) == Mat(n, LAMBDA a, b : IF a = i /\ b = j THEN 0 ELSE A[a][b])
ERangeAt(n, A, i, j) == Hops(n, CutEdge(n, A, i, j), i, j)
ERange(n, A) == Mat(n, LAMBDA i, j : IF A[i][j] # 0 THEN ERangeAt(n, A, i, j) ELSE 0)
EtaPQ(n, ER) ==
  LET fin == {c \in Cells(n) : ER[c[1]][c[2]] > 0 /\ ER[c[1]][c[2]] < INF} IN
  <<Sum(fin, LAMBDA c : ER[c[1]][c[2]]), Cardinality(fin)>>
Shortcuts(n, ER) == {c \in Cells(n) : ER[c[1]][c[2]] > 2}
FsPQ(n, A, ER) == <<Cardinality(Shortcuts(n, ER)), Cardinality(Support(n, A))>>

(* ---- efficiency_bin(local=True) (efficiency.py; Latora & Marchiori 2001, Fagiolo 2007) ----- *)
(* "the global efficiency computed on the neighborhood of the node": distances d inside the    *)
(* subgraph induced by the neighbours V of u; with a_j = [u->j] + [j->u]:                      *)
(*   E(u) = 1/2 Sum_{j#h in V} a_j a_h (1/d_jh + 1/d_hj) / ((Sum a)^2 - Sum a^2)               *)
(* (undirected: Sum_{j#h} 1/d_jh / (k(k-1))).  Exact over 27720 = lcm(1..12).                   *)
EffL == 27720
InvLen(d) == IF d >= INF THEN 0 ELSE EffL \div d
NbLen(n, A, V) == EMat(n, LAMBDA i, j : IF i \in V /\ j \in V /\ i # j /\ A[i][j] # 0 THEN 1 ELSE INF)
EffLocalAt(n, A, u) ==
  LET V == NbrSet(n, A, u) \ {u}
      D == Dist(n, NbLen(n, A, V))
      a(j) == Nz(A[u][j]) + Nz(A[j][u])
      num == Sum({p \in V \X V : p[1] # p[2]},
                 LAMBDA p : a(p[1]) * a(p[2]) * (InvLen(D[p[1]][p[2]]) + InvLen(D[p[2]][p[1]])))
      den == Sq(Sum(V, a)) - Sum(V, LAMBDA j : Sq(a(j)))
  IN FracOr0(num, 2 * EffL * den)
EffLocal(n, A) == [u \in 1..n |-> EffLocalAt(n, A, u)]

(* ==================== Part 2: independent second formulations ========================= *)
SameFrac(a, b) == FracNorm(a) = FracNorm(b)
(* density: handshake lemma, from the degree vectors                                       *)
DensityUnd2(n, A) == <<VecTotal(n, InDegVec(n, NoDiag(n, A))), n * (n - 1)>>
DensityDir2(n, A) == <<VecTotal(n, OutDegVec(n, NoDiag(n, A))), n * (n - 1)>>
(* jdegree: the three counts read off the matrix, as the MATLAB source does                *)
JTri(J, rel(_, _)) == Sum({c \in (DOMAIN J) \X (DOMAIN J) : rel(c[1], c[2])}, LAMBDA c : J[c[1]][c[2]])
(* matching index from the Jaccard parts: c common, u in the union  ->  2c / (u + c)       *)
MatchPQ2(X, Y) == LET c == Cardinality(X \cap Y)  u == Cardinality(X \cup Y) IN <<2 * c, u + c>>
MatchIn2(n, A, i, j) ==
  LET use == {k \in Third(n, i, j) : A[k][i] # 0 \/ A[k][j] # 0} IN
  <<2 * Cardinality({k \in use : A[k][i] # 0 /\ A[k][j] # 0}),
    Sum(use, LAMBDA k : Nz(A[k][i]) + Nz(A[k][j]))>>
(* edge overlap by inclusion-exclusion                                                     *)
EdgeOverlap2(n, A, i, j) ==
  LET X == EdgeNb(n, A, i, i, j)  Y == EdgeNb(n, A, j, i, j)  c == Cardinality(X \cap Y) IN
  <<c, Cardinality(X) + Cardinality(Y) - c>>
(* flow: the matrix form of the MATLAB source: F = -A[nb,nb] + in (x) out, count F = 1       *)
FlowTotal2(n, A, v) ==
  LET nb == NbrSet(n, A, v) \ {v}
      F(i, j) == (IF A[i][v] # 0 /\ A[v][j] # 0 THEN 1 ELSE 0) - A[i][j]
  IN Cardinality({p \in nb \X nb : p[1] # p[2] /\ F(p[1], p[2]) = 1})
(* rich club: all connections minus those that touch a small node                           *)
RichEk2(n, A, deg, k) ==
  LET C == ClubGT(n, deg, k) IN
  Total(n, A) - Sum({c \in Cells(n) : c[1] \notin C \/ c[2] \notin C}, LAMBDA c : A[c[1]][c[2]])
(* sum of the E largest entries: sort all cells by weight, strongest first, add the first E *)
TopSum2(n, W, E) ==
  LET s == SetToSortSeq(Cells(n), LAMBDA a, b : W[a[1]][a[2]] > W[b[1]][b[2]]
                                               \/ (W[a[1]][a[2]] = W[b[1]][b[2]] /\ RowMajor(a, b)))
  IN Sum(1..E, LAMBDA x : W[s[x][1]][s[x][2]])
(* assortativity: Pearson's r of the sample that holds every connection in both            *)
(* orientations, (x,y) and (y,x): r = Cov/Var, both variances being equal                   *)
CovSeq(s, t) == Len(s) * Sum(DOMAIN s, LAMBDA e : s[e] * t[e]) - SeqSum(s) * SeqSum(t)
AssortPQ2(n, A, flag) ==
  LET id == Force(InDegVec(n, A))  od == Force(OutDegVec(n, A))
      es == SetToSeq(AssortEdges(n, A, flag))
      xs == [e \in 1..Len(es) |-> AssortX(id, od, flag, es[e])]
      ys == [e \in 1..Len(es) |-> AssortY(id, od, flag, es[e])]
  IN <<CovSeq(xs \o ys, ys \o xs), CovSeq(xs \o ys, xs \o ys)>>
(* plain Pearson correlation over the connections (Newman 2003 / Foster et al. 2010 for     *)
(* directed networks): c / sqrt(vx vy); equals the above iff the two marginals coincide     *)
AssortPearson(n, A, flag) ==
  LET id == Force(InDegVec(n, A))  od == Force(OutDegVec(n, A))
      es == SetToSeq(AssortEdges(n, A, flag))
      xs == [e \in 1..Len(es) |-> AssortX(id, od, flag, es[e])]
      ys == [e \in 1..Len(es) |-> AssortY(id, od, flag, es[e])]
  IN [c |-> CovSeq(xs, ys), vx |-> CovSeq(xs, xs), vy |-> CovSeq(ys, ys)]
(* participation: weight pairs that end in different modules                                *)
Participation2(n, W, ci, mode) ==
  [i \in 1..n |->
     FracOr0(Sum({p \in Cells(n) : ci[p[1]] # ci[p[2]]},
                 LAMBDA p : WTo(n, W, mode, i, p[1]) * WTo(n, W, mode, i, p[2])),
             Sq(KTotal(n, W, mode, i)))]
(* erange: the (min,+) least-fixpoint distance of Distance.tla on the graph without the edge  *)
ERangeAtDist(n, A, i, j) == Dist(n, LenOfAdj(n, Bin(n, CutEdge(n, A, i, j))))[i][j]
(* erange: shortest simple path i -> j with at least two hops (enumerated paths)             *)
ERangeAt2(n, A, i, j) ==
  LET P == {p \in SimplePaths(n, LenOfAdj(n, Bin(n, A)), i, j) : Len(p) > 2} IN
  IF P = {} THEN INF ELSE MinOf({Len(p) - 1 : p \in P})
(* local efficiency, undirected (Latora & Marchiori): mean inverse distance of the           *)
(* neighbourhood subgraph, distances by enumerated simple paths                              *)
EffLocalUnd2(n, A, u) ==
  LET V == NbrSet(n, A, u) \ {u}
      Lm == NbLen(n, A, V)
      k == Cardinality(V)
  IN FracOr0(Sum({p \in V \X V : p[1] # p[2]}, LAMBDA p : InvLen(DistByPaths(n, Lm, p[1], p[2]))),
             EffL * k * (k - 1))

(* ============================ input domains ============================================ *)
NonNegM(n, A) == \A i, j \in 1..n : A[i][j] >= 0
=============================================================================
