SPECIFICATION Spec
CONSTANT N = 4
CONSTANT Kind = "dir"
CONSTANT Lens = {1, 2}
CONSTANT MaxEdges = 5
CONSTANT Routines = {"wei", "bin"}
CONSTANT Slack = 0
INVARIANT OracleInv
INVARIANT NoRaise
INVARIANT QueueInv
INVARIANT PhaseInv
INVARIANT DepInv
INVARIANT ResultInv
CHECK_DEADLOCK FALSE
