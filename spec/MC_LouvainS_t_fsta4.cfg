SPECIFICATION Spec
CONSTANT N = 4
CONSTANT Finetune = TRUE
CONSTANT QType = "sta"
CONSTANT GN = 3
CONSTANT GD = 4
CONSTANT Vals <- VS
CONSTANT Gen = FALSE
CHECK_DEADLOCK FALSE
INVARIANT BookkeepingInv
INVARIANT AggregationInv
INVARIANT FinalInv
PROPERTY GainIsTrueDelta
PROPERTY MoveRaisesQ
