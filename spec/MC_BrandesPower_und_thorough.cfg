SPECIFICATION Spec
CONSTANT N = 5
CONSTANT Kind = "und"
INVARIANT OracleInv
INVARIANT PowInv
INVARIANT TablesInv
INVARIANT BackInv
INVARIANT DiamInv
INVARIANT ResultInv
CHECK_DEADLOCK FALSE
