SPECIFICATION Spec
CONSTANT N = 3
CONSTANT NX = 2
CONSTANT NY = 2
CONSTANT Vals = {0, 1, 2}
CONSTANT VarSet = {1, 2}
CONSTANT BG = 1
CONSTANT TNs = {8}
CONSTANT TD = 8
CONSTANT TailSet = {"right"}
CONSTANT Paired = FALSE
CONSTANT K = 1
CONSTANT KeepDraws = TRUE
CONSTANT Gen = FALSE
INVARIANT TypeOK
INVARIANT SupraRefinesL0
INVARIANT AdjMarksSupra
INVARIANT LabelsByComponentInv
INVARIANT SizesAreLinkCounts
INVARIANT NullIsMaxComponent
INVARIANT NullLenK
INVARIANT HitCounts
INVARIANT PvalsMatchNull
INVARIANT SwapGroupsAndTailSym
INVARIANT TailBothSym
INVARIANT ReorderInv
INVARIANT StatIsTextbook
INVARIANT PairedDrawIsLabelSwap
CHECK_DEADLOCK FALSE
