-------------------------------- MODULE TraceBase --------------------------------
(* Batch validation protocol shared by all Trace_* modules.                     *)
(* The harness writes a JSON array of records (one per real execution) to       *)
(* $TRACE_FILE; every record is an initial state (tid), one Next step judges it *)
(* and prints exactly one line <<"V", tid, clause, drift, class>>.              *)
(* clause = "ok" | "skip:<why>" | name of the first failing property clause.    *)
EXTENDS Json, IOUtils, TLC, Sequences, Integers

Recs == JsonDeserialize(IOEnv.TRACE_FILE)

(* ordered, lazily evaluated clause chain: first failing name wins             *)
Chk(name, cond, rest) == IF cond THEN rest ELSE name
Skip(why, cond, rest) == IF cond THEN "skip:" \o why ELSE rest

(* one short single-line string per record (PrintT wraps long tuples)           *)
VLine(tid, v) == "V|" \o ToString(tid) \o "|" \o v[1] \o "|" \o v[2] \o "|" \o v[3]
=============================================================================
