SPECIFICATION Spec
CONSTANT N = 3
CHECK_DEADLOCK FALSE
