-------------------------------- MODULE KCore --------------------------------
(* C15.  L0: the k-core / s-core as the unique subset-largest node set in      *)
(* which every node keeps degree (bu), in- plus out-degree (bd) or strength    *)
(* (wu) at least the bound inside the set - found by enumerating SUBSET (1..n).*)
(* Operator forms of peeling: a set-based one (the textbook fixpoint, used as  *)
(* the fast oracle for n > 5 after mc proved it equal to CoreSet) and a        *)
(* matrix-based one that mirrors bct/algorithms/core.py round by round (used   *)
(* for drift: predicted peel order and levels).                                *)
(*                                                                             *)
(* Bounds are passed doubled (b2 = 2*k, 2*s) so that half-integer s stay       *)
(* integers.  Domain: empty diagonal, weights >= 0, n <= 12, weights <= 6 :    *)
(* every intermediate value is below 200 (large inputs of the harness: n <=     *)
(* 300, weights <= 3, below 2000; two-level weights: see that section).         *)
EXTENDS BctBase, SequencesExt

(* degree of node i counted inside the node set S                              *)
DegIn(n, A, S, i, kind) ==
  IF kind = "bu" THEN Cardinality({j \in S : A[j][i] # 0})
  ELSE IF kind = "bd" THEN Cardinality({j \in S : A[j][i] # 0})
                         + Cardinality({j \in S : A[i][j] # 0})
  ELSE Sum(S, LAMBDA j : A[j][i])                                  \* "wu"
Meets(d, b2) == 2 * d >= b2

(* ---- L0 : subset enumeration ----------------------------------------------- *)
GoodSet(n, A, S, b2, kind) == \A i \in S : Meets(DegIn(n, A, S, i, kind), b2)
(* ({S : S \in ...} makes TLC enumerate the filtered set once instead of at     *)
(* every later use)                                                            *)
GoodSets(n, A, b2, kind) ==
  {S : S \in {T \in SUBSET (1..n) : GoodSet(n, A, T, b2, kind)}}
(* the good set that contains every good set: it can only be the union of all  *)
(* good sets, and the definition insists that this union is itself good        *)
CoreSet(n, A, b2, kind) ==
  LET G == GoodSets(n, A, b2, kind)
      U == {i \in 1..n : \E S \in G : i \in S}                       \* = UNION G
  IN CHOOSE S \in {U} : GoodSet(n, A, S, b2, kind) /\ \A T \in G : T \subseteq S
(* uniqueness: exactly one good set is maximal w.r.t. inclusion                *)
CoreUnique(n, A, b2, kind) ==
  LET G == GoodSets(n, A, b2, kind)
  IN Cardinality({S \in G : \A T \in G : S \subseteq T => S = T}) = 1

RestrictTo(n, A, S) == Mat(n, LAMBDA i, j : IF i \in S /\ j \in S THEN A[i][j] ELSE 0)

(* ---- operator form 1: textbook peeling on node sets ------------------------ *)
RECURSIVE PeelSet(_, _, _, _, _)
PeelSet(n, A, S, b2, kind) ==
  LET bad == {i \in S : ~Meets(DegIn(n, A, S, i, kind), b2)}
  IN IF bad = {} THEN S ELSE PeelSet(n, A, S \ bad, b2, kind)
PeelCoreSet(n, A, b2, kind) == PeelSet(n, A, 1..n, b2, kind)

(* ---- operator form 2: the code's rounds on the matrix ---------------------- *)
(* ff = where(deg < k and deg > 0) ; CIJkcore[ff,:] = 0 ; CIJkcore[:,ff] = 0    *)
DegM(n, M, i, kind) == DegIn(n, M, 1..n, i, kind)
Small(n, M, b2, kind) ==
  {i \in 1..n : LET d == DegM(n, M, i, kind) IN d > 0 /\ ~Meets(d, b2)}
ZeroOut(n, M, ff) == Mat(n, LAMBDA i, j : IF i \in ff \/ j \in ff THEN 0 ELSE M[i][j])
Alive(n, M, kind) == {i \in 1..n : DegM(n, M, i, kind) > 0}
Ascending(S) == SetToSortSeq(S, <)
RECURSIVE PeelFrom(_, _, _, _, _)
PeelFrom(n, M, b2, kind, rounds) ==
  LET ff == Small(n, M, b2, kind)
  IN IF ff = {} THEN [M |-> M, kn |-> Cardinality(Alive(n, M, kind)), rounds |-> rounds]
     ELSE PeelFrom(n, ZeroOut(n, M, ff), b2, kind, Append(rounds, ff))
PeelRun(n, A, b2, kind) == PeelFrom(n, A, b2, kind, <<>>)
(* peelorder / peellevel flattened the way the harness flattens them            *)
OrderOf(rounds) == FlattenSeq([t \in 1..Len(rounds) |-> Ascending(rounds[t])])
LevelOf(rounds) ==
  FlattenSeq([t \in 1..Len(rounds) |-> [x \in 1..Cardinality(rounds[t]) |-> t]])

(* ---- coreness -------------------------------------------------------------- *)
(* <<f(1), ..., f(m)>> as an explicit tuple: TLC evaluates [i \in S |-> e] lazily *)
(* and re-evaluates e at every application, a tuple built by Append is evaluated *)
(* once                                                                         *)
Tabulate(f(_), m) == FoldLeft(LAMBDA acc, i : Append(acc, f(i)), <<>>, [i \in 1..m |-> i])
(* the largest bound any node can meet: n-1 neighbours, in and out for bd       *)
KTop(n, kind) == IF n = 0 THEN 0 ELSE IF kind = "bd" THEN 2 * (n - 1) ELSE n - 1
(* "the largest k whose core contains it", given the tuple cores[k+1] = the      *)
(* k-core for k = 0..KTop                                                       *)
CorenessFrom(cores, v) == MaxOf({k \in 0..(Len(cores) - 1) : v \in cores[k + 1]})

(* ---- two-level weights (near-threshold inputs of score_wu) ------------------ *)
(* A weight is the pair (A[i][j], E[i][j]) standing for the real number         *)
(* A[i][j]*G + E[i][j] in some unit, a bound is the pair (b2, e2) standing for  *)
(* (b2*G + e2)/2, where G is a (huge, never materialised) radix: the harness    *)
(* uses G = 2^gap, gap >= 21, i.e. E perturbs a weight by 1e-7 .. 1 ulp         *)
(* relative.  As long as 2*(sum of |E| over a column) + |e2| < G (TwoLevelOk     *)
(* demands it for G = 2^20 already) the comparison "strength >= s" is decided   *)
(* lexicographically and exactly on 32-bit integers:                            *)
(*    2*(dA*G + dE) >= b2*G + e2  <=>  (2*dA - b2)*G >= e2 - 2*dE               *)
(*                                <=>  2*dA > b2 \/ (2*dA = b2 /\ 2*dE >= e2).  *)
(* MC_KCoreLex checks, for every small instance, that these definitions agree   *)
(* with CoreSet on the materialised weights A*R + E for a small radix R.        *)
ECap == 1048576                                                       \* 2^20
TwoLevelOk(n, E, e2) ==
  \A i \in 1..n : 2 * Sum(1..n, LAMBDA j : Abs(E[j][i])) + Abs(e2) < ECap
(* a weight is positive / zero (the pair is compared with (0,0))                *)
PosX(a, e) == a > 0 \/ (a = 0 /\ e > 0)
ZeroX(a, e) == a = 0 /\ e = 0
MeetsX(dA, dE, b2, e2) == 2 * dA > b2 \/ (2 * dA = b2 /\ 2 * dE >= e2)
DegInX(n, A, E, S, i) == <<Sum(S, LAMBDA j : A[j][i]), Sum(S, LAMBDA j : E[j][i])>>
GoodSetX(n, A, E, S, b2, e2) ==
  \A i \in S : LET d == DegInX(n, A, E, S, i) IN MeetsX(d[1], d[2], b2, e2)
GoodSetsX(n, A, E, b2, e2) ==
  {S : S \in {T \in SUBSET (1..n) : GoodSetX(n, A, E, T, b2, e2)}}
(* L0, as CoreSet: the good set that contains every good set                    *)
CoreSetX(n, A, E, b2, e2) ==
  LET G == GoodSetsX(n, A, E, b2, e2)
      U == {i \in 1..n : \E S \in G : i \in S}
  IN CHOOSE S \in {U} : GoodSetX(n, A, E, S, b2, e2) /\ \A T \in G : T \subseteq S
RECURSIVE PeelSetX(_, _, _, _, _, _)
PeelSetX(n, A, E, S, b2, e2) ==
  LET bad == {i \in S : LET d == DegInX(n, A, E, S, i) IN ~MeetsX(d[1], d[2], b2, e2)}
  IN IF bad = {} THEN S ELSE PeelSetX(n, A, E, S \ bad, b2, e2)
PeelCoreSetX(n, A, E, b2, e2) == PeelSetX(n, A, E, 1..n, b2, e2)

(* ---- property-level predicates on observed outputs ------------------------- *)
(* "return the input restricted to the largest node set ..., all other rows    *)
(* and columns zeroed"                                                         *)
MatrixIsInputRestrictedTo(n, A, M, core) == M = RestrictTo(n, A, core)
(* "cores are nested as k grows" (on two observed matrices, lower bound first) *)
NestedObs(n, Mlo, Mhi) == Support(n, Mhi) \subseteq Support(n, Mlo)
(* "the optional peel order and level list each removed node exactly once":    *)
(* no node twice, one level per listed node, no listed node belongs to the     *)
(* core, and every connection that does not survive has a listed endpoint      *)
(* (a node whose neighbours were all peeled needs no removal of its own)       *)
(* (listed == the set of listed nodes, evaluated once: large inputs)            *)
PeelListsEachOnce(n, A, core, order, level) ==
  LET listed == SeqToSet(order) IN
  /\ Len(level) = Len(order)
  /\ \A x \in DOMAIN order : order[x] \in 1..n
  /\ Cardinality(listed) = Len(order)                    \* no node twice
  /\ listed \cap core = {}
  /\ \A i, j \in 1..n : (A[i][j] # 0 /\ ~(i \in core /\ j \in core))
                           => (i \in listed \/ j \in listed)
=============================================================================
