SPECIFICATION Spec
CONSTANT N = 6
CONSTANT Dir = FALSE
INVARIANT ProbeSound
CHECK_DEADLOCK FALSE
