SPECIFICATION Spec
CONSTANT N = 4
CONSTANT Kind = "wu"
CONSTANT WMax = 2
INVARIANT SubnetworkInv
INVARIANT CoreSafeInv
INVARIANT IterInv
INVARIANT ResultIsCoreInv
INVARIANT UniqueInv
INVARIANT PeelSetInv
INVARIANT OperatorInv
INVARIANT NestedInv
INVARIANT PeelOnceInv
INVARIANT CorenessInv
CHECK_DEADLOCK FALSE
