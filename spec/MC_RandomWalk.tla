---- MODULE MC_RandomWalk ----
(* C18: input domains per tier (cfg files cannot spell tuples) and the constant-   *)
(* level lemmas: the clauses of RandomWalk.tla accept the known closed forms        *)
(*   diag expm:  K2 cosh 1; K3 (e^2 + 2/e)/3; C4 (e^2 + e^-2 + 2)/4;                *)
(*               P3 centre cosh sqrt2, ends (cosh sqrt2 + 1)/2; star S4             *)
(*   Perron vectors of K2, K3, C4, P3, S4, K2+K2                                    *)
(* (10^-6 images computed outside TLC - mathematical constants, trusted) and reject  *)
(* the outputs the defective eigendecomposition gave / vectors of other eigenvalues. *)
EXTENDS RandomWalkImpl

None == {}
(* <<n, loopnodes>> *)
QWalk == {<<2, {1, 2}>>, <<3, {1, 2, 3}>>, <<4, {}>>}
TWalk == {<<2, {1, 2}>>, <<3, {1, 2, 3}>>, <<4, {1, 2}>>}
QWalker == {<<2, {1, 2}>>, <<3, {1, 2, 3}>>}
TWalker == {<<2, {1, 2}>>, <<3, {1, 2, 3}>>, <<4, {1}>>}
(* <<n, sym, heavy>> : connected graphs / strongly connected digraphs, weights 1 (, 2)  *)
QLemma == {<<2, TRUE, TRUE>>, <<3, TRUE, TRUE>>, <<4, TRUE, TRUE>>, <<3, FALSE, TRUE>>}
TLemma == QLemma \cup {<<5, TRUE, FALSE>>, <<4, FALSE, FALSE>>}
WalkMachines == {"findwalks", "walker"}
LemmaMachines == {"lemma"}
FwOnly == {"findwalks"}

SymOfEdges(n, E) == EMat(n, LAMBDA i, j : IF <<i, j>> \in E \/ <<j, i>> \in E THEN 1 ELSE 0)
K2 == SymOfEdges(2, {<<1, 2>>})
K3 == SymOfEdges(3, {<<1, 2>>, <<1, 3>>, <<2, 3>>})
P3 == SymOfEdges(3, {<<1, 2>>, <<2, 3>>})
C4 == SymOfEdges(4, {<<1, 2>>, <<2, 3>>, <<3, 4>>, <<1, 4>>})
S4 == SymOfEdges(4, {<<1, 2>>, <<1, 3>>, <<1, 4>>})
K4 == SymOfEdges(4, {<<1, 2>>, <<1, 3>>, <<1, 4>>, <<2, 3>>, <<2, 4>>, <<3, 4>>})
K2K2 == SymOfEdges(4, {<<1, 2>>, <<3, 4>>})
K2K3 == SymOfEdges(5, {<<1, 2>>, <<3, 4>>, <<3, 5>>, <<4, 5>>})
W2 == EMat(2, LAMBDA i, j : IF i = j THEN 0 ELSE 2)

(* ---- scale-regime clauses (RandomWalk.tla, "walk counts beyond 32 bits") on inputs whose   *)
(* counts pass 2^24 but still fit TLC: K5 with 14 slices (4^14 = 2.7e8, totals up to 1.8e9)    *)
(* and the irregular K4 + pendant node with 17 slices.  Enc* is the encoding of                 *)
(* harness/props/c18.py:big_enc in TLA+ (24-bit mantissa, half-up).                             *)
EncE0(x) == IF x < T24 THEN 0 ELSE CHOOSE k \in 1..7 : Shr(x, k) < T24 /\ Shr(x, k - 1) >= T24
EncM0(x) == LET k == EncE0(x) IN IF k = 0 THEN x ELSE (x + Pow2Tab[k - 1]) \div Pow2Tab[k]
EncE(x) == IF EncM0(x) = T24 THEN EncE0(x) + 1 ELSE EncE0(x)
EncM(x) == IF EncM0(x) = T24 THEN T24 \div 2 ELSE EncM0(x)
K5 == SymOfEdges(5, {<<1, 2>>, <<1, 3>>, <<1, 4>>, <<1, 5>>, <<2, 3>>, <<2, 4>>, <<2, 5>>, <<3, 4>>, <<3, 5>>, <<4, 5>>})
K4P == SymOfEdges(5, {<<1, 2>>, <<1, 3>>, <<1, 4>>, <<2, 3>>, <<2, 4>>, <<3, 4>>, <<4, 5>>})
BigCase(n, A, K) ==
  LET P == PowTab(n, A, K)
      tot == LET wlq == [k \in 1..K |-> Sum((1..n) \X (1..n), LAMBDA p : P[k][p[1]][p[2]])] IN <<SeqSum(wlq), wlq>>
  IN [n |-> n, A |-> A, K |-> K,
      Wm |-> [k \in 1..K |-> EMat(n, LAMBDA i, j : EncM(P[k][i][j]))],
      We |-> [k \in 1..K |-> EMat(n, LAMBDA i, j : EncE(P[k][i][j]))],
      Wr |-> [k \in 1..K |-> EMat(n, LAMBDA i, j : P[k][i][j] % BigP)],
      tw |-> <<EncM(tot[1]), EncE(tot[1]), tot[1] % BigP>>,
      wlm |-> [k \in 1..K |-> EncM(tot[2][k])], wle |-> [k \in 1..K |-> EncE(tot[2][k])],
      wlr |-> [k \in 1..K |-> tot[2][k] % BigP]]
BigWqOK(b) ==
  /\ BigEncodingOK(b.n, b.K, b.Wm, b.We, b.Wr, BigP) /\ BigFinite(b.n, b.K, b.Wm) /\ BigNonNeg(b.n, b.K, b.Wm)
  /\ BigClipOK(b.n, b.K, ClipTab(b.n, b.A, b.K, T24), T24, b.Wm, b.We, 0)
  /\ BigModOK(b.n, b.K, ModTab(b.n, b.A, b.K, BigP), b.We, b.Wr, 0)
  /\ BigRecOK(b.n, b.K, InNbTab(b.n, b.A), b.Wm, b.We, 0)
  /\ BigRegularOK(b.n, b.K, b.A, b.Wm, b.We, 0)
BigTotOK(b) == BigTotalsOK(b.n, b.K, b.Wm, b.We, b.Wr, BigP, b.tw, b.wlm, b.wle, b.wlr)
Bump(T, k, i, j, v) == [T EXCEPT ![k][i][j] = v]
BK5 == BigCase(5, K5, 14)
BK4P == BigCase(5, K4P, 17)
ASSUME BigWqOK(BK5) /\ BigTotOK(BK5) /\ RegDeg(5, K5) = 4
ASSUME BigWqOK(BK4P) /\ BigTotOK(BK4P) /\ RegDeg(5, K4P) = 0
ASSUME BK5.We[14][1][2] = 2 /\ BK5.wle[14] = 7 /\ BK4P.We[17][1][2] >= 1       \* the cases do leave 24 bits
(* rejected: a count of 2.1e8 off by 1e-4 (recurrence into and out of the slice); a wrong       *)
(* residue; a small count off by one; a slice that is not a count at all; totals off by 1e-4    *)
ASSUME LET x == BK5.Wm[13][1][2] IN
         ~BigRecOK(5, 14, InNbTab(5, K5), Bump(BK5.Wm, 13, 1, 2, x + x \div 10000), BK5.We, 0)
ASSUME ~BigRegularOK(5, 14, K5, Bump(BK5.Wm, 13, 1, 2, BK5.Wm[13][1][2] + 5000), BK5.We, 0)
ASSUME ~BigModOK(5, 14, ModTab(5, K5, 14, BigP), BK5.We, Bump(BK5.Wr, 12, 2, 1, (BK5.Wr[12][2][1] + 1) % BigP), 0)
ASSUME ~BigClipOK(5, 17, ClipTab(5, K4P, 17, T24), T24, Bump(BK4P.Wm, 3, 5, 5, BK4P.Wm[3][5][5] + 1), BK4P.We, 0)
ASSUME ~BigClipOK(5, 14, ClipTab(5, K5, 14, T24), T24, Bump(BK5.Wm, 14, 1, 2, 12345), Bump(BK5.We, 14, 1, 2, 0), 0)
ASSUME ~BigNonNeg(5, 14, Bump(BK5.Wm, 14, 1, 2, -BK5.Wm[14][1][2]))
ASSUME ~BigTotalsOK(5, 14, BK5.Wm, BK5.We, BK5.Wr, BigP, BK5.tw,
                    [BK5.wlm EXCEPT ![14] = @ + @ \div 10000], BK5.wle, BK5.wlr)
ASSUME ~BigTotalsOK(5, 14, BK5.Wm, BK5.We, BK5.Wr, BigP, <<BK5.tw[1], BK5.tw[2] + 1, BK5.tw[3]>>,
                    BK5.wlm, BK5.wle, BK5.wlr)
(* the docstring's slice convention (slice k = A^(k-1), slice 1 free) is accepted as c = 1      *)
ASSUME LET sh(T) == [k \in 1..14 |-> IF k = 1 THEN Zero(5) ELSE T[k - 1]] IN
         /\ BigClipOK(5, 14, ClipTab(5, K5, 14, T24), T24, sh(BK5.Wm), sh(BK5.We), 1)
         /\ ~BigClipOK(5, 14, ClipTab(5, K5, 14, T24), T24, sh(BK5.Wm), sh(BK5.We), 0)
         /\ BigModOK(5, 14, ModTab(5, K5, 14, BigP), sh(BK5.We), sh(BK5.Wr), 1)
         /\ BigRecOK(5, 14, InNbTab(5, K5), sh(BK5.Wm), sh(BK5.We), 1)
         /\ BigRegularOK(5, 14, K5, sh(BK5.Wm), sh(BK5.We), 1)
(* interval arithmetic: 3 * 2^23 + 5 in two ways; distinct numbers are told apart                *)
ASSUME FNorm(25165829, 0, 0) = <<12582914, 1, 2>>
ASSUME LET m == <<8388608, 8388608, 8388613>>  IN
         /\ FNear(FSum(1..3, LAMBDA l : m[l], LAMBDA l : 0, LAMBDA l : 0), <<12582914, 1, 1>>)
         /\ ~FNear(FSum(1..3, LAMBDA l : m[l], LAMBDA l : 0, LAMBDA l : 0), <<12582924, 1, 1>>)
         /\ ~FNear(<<12582914, 1, 1>>, <<12582914, 2, 1>>) /\ ~FNear(<<12582914, 40, 1>>, <<5, 0, 0>>)
ASSUME /\ FNear(FPowTab(11, 8)[8], <<13397430, 4, 0>>) /\ ~FNear(FPowTab(11, 8)[8], <<13397450, 4, 0>>)
       /\ FNear(FPowTab(2, 40)[40], <<8388608, 17, 0>>) /\ FPowTab(7, 3)[3] = <<343, 0, 0>>

SubOK(n, A, c) == SubMagOK(n, A) /\ SubRem6(n, A) <= 300 /\ SubgraphIsExpDiag(n, A, c)
ASSUME SubOK(2, K2, <<1543081, 1543081>>)
ASSUME SubOK(3, K3, <<2708272, 2708272, 2708272>>)
ASSUME SubOK(4, C4, <<2381098, 2381098, 2381098, 2381098>>)
ASSUME SubOK(3, P3, <<1589092, 2178184, 1589092>>)
ASSUME SubOK(4, S4, <<2914577, 1638192, 1638192, 1638192>>)
ASSUME SubOK(4, K4, <<5297294, 5297294, 5297294, 5297294>>)
ASSUME SubOK(2, W2, <<3762196, 3762196>>)
(* what linalg.eig's non-orthonormal basis produced on C4 and K3 is rejected          *)
ASSUME ~SubgraphIsExpDiag(4, C4, <<1881098, 2881098, 1881098, 2881098>>)
ASSUME ~SubgraphIsExpDiag(3, K3, <<2721861, 2750068, 2652886>>)
ASSUME ~SubgraphIsExpDiag(2, K2, <<1543081, 1543581>>)         \* 5e-4 off

EigOK(n, A, v) == /\ EigMagOK(n, A, v) /\ EigNonNeg(n, v) /\ EigUnit(n, v)
                  /\ EigParallel(n, A, v) /\ EigLambdaIsMax(n, A, v)
                  /\ (EigPositivityDecidable(n, A) => EigPositive(n, v))
ASSUME EigOK(2, K2, <<707107, 707107>>)
ASSUME EigOK(3, K3, <<577350, 577350, 577350>>)
ASSUME EigOK(4, C4, <<500000, 500000, 500000, 500000>>)
ASSUME EigOK(3, P3, <<500000, 707107, 500000>>)
ASSUME EigOK(4, S4, <<707107, 408248, 408248, 408248>>)
ASSUME EigOK(4, K2K2, <<707107, 707107, 0, 0>>) /\ EigOK(4, K2K2, <<500000, 500000, 500000, 500000>>)
ASSUME EigOK(5, K2K3, <<0, 0, 577350, 577350, 577350>>)
ASSUME \A G \in {K2, K3, C4, P3, S4, K4} : EigPositivityDecidable(Len(G), G)
(* |v| of the eigenvector of lambda = 0 of P3 is non-negative and unit, not parallel  *)
ASSUME LET v == <<707107, 0, 707107>> IN EigNonNeg(3, v) /\ EigUnit(3, v) /\ ~EigParallel(3, P3, v)
(* the Perron vector of the smaller component is an eigenvector, not of lambda_max    *)
ASSUME LET v == <<707107, 707107, 0, 0, 0>> IN
         EigUnit(5, v) /\ EigParallel(5, K2K3, v) /\ ~EigLambdaIsMax(5, K2K3, v)
(* not unit / slightly rotated                                                        *)
ASSUME ~EigUnit(2, <<500000, 500000>>)
ASSUME ~EigParallel(3, P3, <<501000, 706400, 500000>>)
====
