---- MODULE MC_RandomWalk ----
(* C18: input domains per tier (cfg files cannot spell tuples) and the constant-   *)
(* level lemmas: the clauses of RandomWalk.tla accept the known closed forms        *)
(*   diag expm:  K2 cosh 1; K3 (e^2 + 2/e)/3; C4 (e^2 + e^-2 + 2)/4;                *)
(*               P3 centre cosh sqrt2, ends (cosh sqrt2 + 1)/2; star S4             *)
(*   Perron vectors of K2, K3, C4, P3, S4, K2+K2                                    *)
(* (10^-6 images computed outside TLC - mathematical constants, trusted) and reject  *)
(* the outputs the defective eigendecomposition gave / vectors of other eigenvalues. *)
EXTENDS RandomWalkImpl

None == {}
(* <<n, loopnodes>> *)
QWalk == {<<2, {1, 2}>>, <<3, {1, 2, 3}>>, <<4, {}>>}
TWalk == {<<2, {1, 2}>>, <<3, {1, 2, 3}>>, <<4, {1, 2}>>}
QWalker == {<<2, {1, 2}>>, <<3, {1, 2, 3}>>}
TWalker == {<<2, {1, 2}>>, <<3, {1, 2, 3}>>, <<4, {1}>>}
(* <<n, sym, heavy>> : connected graphs / strongly connected digraphs, weights 1 (, 2)  *)
QLemma == {<<2, TRUE, TRUE>>, <<3, TRUE, TRUE>>, <<4, TRUE, TRUE>>, <<3, FALSE, TRUE>>}
TLemma == QLemma \cup {<<5, TRUE, FALSE>>, <<4, FALSE, FALSE>>}
WalkMachines == {"findwalks", "walker"}
LemmaMachines == {"lemma"}
FwOnly == {"findwalks"}

SymOfEdges(n, E) == EMat(n, LAMBDA i, j : IF <<i, j>> \in E \/ <<j, i>> \in E THEN 1 ELSE 0)
K2 == SymOfEdges(2, {<<1, 2>>})
K3 == SymOfEdges(3, {<<1, 2>>, <<1, 3>>, <<2, 3>>})
P3 == SymOfEdges(3, {<<1, 2>>, <<2, 3>>})
C4 == SymOfEdges(4, {<<1, 2>>, <<2, 3>>, <<3, 4>>, <<1, 4>>})
S4 == SymOfEdges(4, {<<1, 2>>, <<1, 3>>, <<1, 4>>})
K4 == SymOfEdges(4, {<<1, 2>>, <<1, 3>>, <<1, 4>>, <<2, 3>>, <<2, 4>>, <<3, 4>>})
K2K2 == SymOfEdges(4, {<<1, 2>>, <<3, 4>>})
K2K3 == SymOfEdges(5, {<<1, 2>>, <<3, 4>>, <<3, 5>>, <<4, 5>>})
W2 == EMat(2, LAMBDA i, j : IF i = j THEN 0 ELSE 2)

SubOK(n, A, c) == SubMagOK(n, A) /\ SubRem6(n, A) <= 300 /\ SubgraphIsExpDiag(n, A, c)
ASSUME SubOK(2, K2, <<1543081, 1543081>>)
ASSUME SubOK(3, K3, <<2708272, 2708272, 2708272>>)
ASSUME SubOK(4, C4, <<2381098, 2381098, 2381098, 2381098>>)
ASSUME SubOK(3, P3, <<1589092, 2178184, 1589092>>)
ASSUME SubOK(4, S4, <<2914577, 1638192, 1638192, 1638192>>)
ASSUME SubOK(4, K4, <<5297294, 5297294, 5297294, 5297294>>)
ASSUME SubOK(2, W2, <<3762196, 3762196>>)
(* what linalg.eig's non-orthonormal basis produced on C4 and K3 is rejected          *)
ASSUME ~SubgraphIsExpDiag(4, C4, <<1881098, 2881098, 1881098, 2881098>>)
ASSUME ~SubgraphIsExpDiag(3, K3, <<2721861, 2750068, 2652886>>)
ASSUME ~SubgraphIsExpDiag(2, K2, <<1543081, 1543581>>)         \* 5e-4 off

EigOK(n, A, v) == /\ EigMagOK(n, A, v) /\ EigNonNeg(n, v) /\ EigUnit(n, v)
                  /\ EigParallel(n, A, v) /\ EigLambdaIsMax(n, A, v)
                  /\ (EigPositivityDecidable(n, A) => EigPositive(n, v))
ASSUME EigOK(2, K2, <<707107, 707107>>)
ASSUME EigOK(3, K3, <<577350, 577350, 577350>>)
ASSUME EigOK(4, C4, <<500000, 500000, 500000, 500000>>)
ASSUME EigOK(3, P3, <<500000, 707107, 500000>>)
ASSUME EigOK(4, S4, <<707107, 408248, 408248, 408248>>)
ASSUME EigOK(4, K2K2, <<707107, 707107, 0, 0>>) /\ EigOK(4, K2K2, <<500000, 500000, 500000, 500000>>)
ASSUME EigOK(5, K2K3, <<0, 0, 577350, 577350, 577350>>)
ASSUME \A G \in {K2, K3, C4, P3, S4, K4} : EigPositivityDecidable(Len(G), G)
(* |v| of the eigenvector of lambda = 0 of P3 is non-negative and unit, not parallel  *)
ASSUME LET v == <<707107, 0, 707107>> IN EigNonNeg(3, v) /\ EigUnit(3, v) /\ ~EigParallel(3, P3, v)
(* the Perron vector of the smaller component is an eigenvector, not of lambda_max    *)
ASSUME LET v == <<707107, 707107, 0, 0, 0>> IN
         EigUnit(5, v) /\ EigParallel(5, K2K3, v) /\ ~EigLambdaIsMax(5, K2K3, v)
(* not unit / slightly rotated                                                        *)
ASSUME ~EigUnit(2, <<500000, 500000>>)
ASSUME ~EigParallel(3, P3, <<501000, 706400, 500000>>)
====
