------------------------------- MODULE Trace_Paths -------------------------------
(* X04 code -> spec: every record is one real call (harness/props/x04.py); r.kind      *)
(* selects the judge, r.fn names the routine (options in brackets).  Common fields:     *)
(* n, raised, malformed.  Integers exactly (INF = inf, -INF = -inf, NAN = nan),          *)
(* reals as q6 = round(x * 10^6).  The oracle is Paths.tla.                              *)
(*   findpaths : A (0/1 support of the argument), qmax, srcs (node ids), Pq[q][i][j],    *)
(*               tpath, plq[q], qstop, allp ("none" | "empty" | "other"), util[q][v],    *)
(*               fc[q], pc[q] = cycprob(Pq) of the returned Pq (<<>> if not called)       *)
(*   cycprob   : Pq[q][i][j] (Q = Len), fc[q], pc[q]                                      *)
(*   breadth   : A, s (node id), dist[v], braw[v] (python values of branch)               *)
(*   rd        : breadthdist / reachdist: A, R, D                                         *)
(*   si        : search_information: Lm, mode, mem, SI (q6), X3 = round(2^SI * 1000)      *)
(*   pt        : path_transitivity: Lm, mode, T (q6)                                      *)
(*   rout      : rout_efficiency: Lm, mode, ge, E, el (q6; 'log': multiplied by ln 2)      *)
(*   diff      : diffusion_efficiency: A (integer weights), ge, E (q6)                    *)
(*   res       : resource_efficiency_bin: A, lam ("ok" | "nan" | "bad"), lp/lq = lambda,   *)
(*               prob (q6), Eres (q6), X6 = round((1 - lambda)^Eres * 10^6), eresnan       *)
EXTENDS Paths, TraceBase

At(M, p) == M[p[1]][p[2]]
IsVec(x, m) == DOMAIN x = 1..m
SymLen(n, Lm) == \A i, j \in 1..n : Lm[i][j] = Lm[j][i]
HasUnreachable(n, DD) == \E p \in OffPairs(n) : At(DD, p) >= INF

(* ------------------------------------------------------------------ cycprob ------ *)
CycClauses(n, Pq, fc, pc, rest) ==
  LET Q == Len(Pq) IN
  Chk("CycprobWellFormed", IsVec(fc, Q) /\ IsVec(pc, Q),
  (* "fcyc: fraction of all paths that are cycles for each path length q"              *)
  Chk("FcycIsCycleFraction", \A q \in 1..Q : NearOrZero(fc[q], FcycFrac(n, Pq, q), 2),
  (* "pcyc[1] is not defined (set to zero)"                                             *)
  Chk("PcycFirstIsZero", Q = 0 \/ pc[1] = 0,
  (* "pcyc: probability that a non-cyclic path of length q-1 can be extended to form    *)
  (*  a cycle of length q"                                                              *)
  Chk("PcycIsExtensionProbability", \A q \in 2..Q : NearOrZero(pc[q], PcycFrac(n, Pq, q), 2),
  rest))))
PqShape(n, Pq) == \A q \in 1..Len(Pq) : IsSquare(n, Pq[q]) /\ \A i, j \in 1..n : Pq[q][i][j] >= 0
JCycprob(r) ==
  Chk("Returns", r.raised = "",
  Chk("WellFormed", r.malformed = "" /\ PqShape(r.n, r.Pq),
  CycClauses(r.n, r.Pq, r.fc, r.pc, "ok")))

(* ----------------------------------------------------------------- findpaths ----- *)
JFindpaths(r) ==
  LET n == r.n  B == r.A  S == SeqToSet(r.srcs)  Q == r.qmax
      L == IF n <= 5 THEN FindPathsL0(n, B, S, Q) ELSE FindPathsDp(n, B, S, Q)
  IN
  Skip("self_connection", ~DiagZero(n, B),
  Skip("repeated_source", Cardinality(S) # Len(r.srcs),
  Skip("no_connection_from_sources", FSeeds(n, B, S) = {},
  Chk("Returns", r.raised = "",
  Chk("WellFormed", /\ r.malformed = "" /\ Len(r.Pq) = Q /\ PqShape(n, r.Pq)
                    /\ IsVec(r.plq, Q) /\ IsVec(r.util, Q) /\ \A q \in 1..Q : IsVec(r.util[q], n),
  (* "Pq[i,j,q] = number of paths from i to j with length q"                            *)
  Chk("PqCountsSimplePaths", \A q \in 1..Q : r.Pq[q] = L.Pq[q],
  (* "plq: path length distribution as a function of q"                                 *)
  Chk("PlqIsLengthDistribution", \A q \in 1..Q : r.plq[q] = L.plq[q],
  (* "tpath: total number of paths found"                                               *)
  Chk("TpathIsTotal", r.tpath = L.tpath,
  (* "qstop: path length at which findpaths is stopped"                                 *)
  Chk("QstopIsStoppingLength", r.qstop = L.qstop,
  (* "util: node use index"                                                             *)
  Chk("UtilIsNodeUse", \A q \in 1..Q : r.util[q] = L.util[q],
  (* "allpths: None ... This functionality is currently not enabled"                    *)
  Chk("AllpthsNotCollected", r.allp \in {"none", "empty"},
  (* cycprob on the very array findpaths returned                                        *)
  IF r.fc = <<>> /\ r.pc = <<>> THEN "ok"
  ELSE CycClauses(n, r.Pq, r.fc, r.pc,
       (* a fraction of paths, a probability                                             *)
       Chk("CycleFractionsIn01", \A q \in 1..Q : r.fc[q] \in 0..Q6 /\ r.pc[q] \in 0..Q6, "ok")))))))))))))

(* ------------------------------------------------------------------ breadth ------ *)
RECURSIVE BrOne(_, _, _)
BrOne(n, A, st) == IF st.Q = <<>> THEN st ELSE BrOne(n, A, BrStep(n, A, st))
JBreadth(r) ==
  LET n == r.n  A == r.A  s == r.s IN
  Chk("Returns", r.raised = "",
  Chk("WellFormed", r.malformed = "" /\ IsVec(r.dist, n) /\ IsVec(r.braw, n),
  (* "distance: vector of distances between source and ith vertex (0 for source)"        *)
  Chk("DistanceIsHopCount", BfsDistOK(n, A, s, r.dist),
  (* "branch: vertex that precedes i in the breadth-first search (-1 for source)"        *)
  Chk("BranchIsBfsPredecessor", BfsBranchOK(n, A, s, r.braw), "ok"))))
DBreadth(r) ==
  IF r.raised # "" \/ r.malformed # "" \/ ~DiagZero(r.n, r.A) \/ r.n > 12 THEN "na"
  ELSE LET f == BrOne(r.n, r.A, BrStart(r.n, r.s, Zero(r.n)))
           raw == [v \in 1..r.n |-> IF f.branch[v] <= 0 THEN f.branch[v] ELSE f.branch[v] - 1]
       IN IF r.dist = f.dist /\ r.braw = raw THEN "same" ELSE "differs:bfs_order"

(* ------------------------------------------------- breadthdist / reachdist -------- *)
JReachDist(r) ==
  LET n == r.n  DP == DPlusOf(n, r.A) IN
  Chk("Returns", r.raised = "",
  Chk("WellFormed", r.malformed = "" /\ IsSquare(n, r.R) /\ IsSquare(n, r.D),
  (* "D: an entry (u,v) represents the length of shortest path from node u to node v"     *)
  Chk("OffDiagIsHopDistance", \A p \in OffPairs(n) : At(r.D, p) = At(DP, p),
  (* a path from a node back to itself is a cycle; INF where there is none                *)
  Chk("DiagIsShortestCycle", \A i \in 1..n : r.D[i][i] = DP[i][i],
  (* "R: an entry (u,v)=1 means that there exists a path from node u to node v;           *)
  (*  alternatively (u,v)=0"                                                              *)
  Chk("RIffPathExists", r.R = RPlusOf(n, DP), "ok")))))

(* input class of a failing record: matrix powers taken in an integer type whose range   *)
(* the walk counts leave (only the layered family gets there)                             *)
RdClass(r) ==
  IF r.dt \in {"int8", "uint8", "int16", "int32", "int64"} /\ r.n <= 2000
     /\ LET C == RW!ClipTab(r.n, Bin(r.n, r.A), r.n, 1048576) IN       \* n * 2^20 < 2^31
        \E k \in 1..r.n : \E i, j \in 1..r.n : C[k][i][j] >= 1048576
  THEN "integer_dtype_walk_counts_beyond_2^20" ELSE "any"

(* ------------------------------------------------------- search_information ------- *)
JSearchInfo(r) ==
  LET n == r.n  Lm == r.Lm
      W == WtMat(n, Lm, r.mode)
      str == StrVec(n, W)
      smax == MaxOf({str[i] : i \in 1..n})
      DD == Dist(n, Lm)
      MP == MinPathTab(n, Lm)
      mem == r.mem = 1
      reach == {p \in OffPairs(n) : At(DD, p) < INF}
      fits(p) == \A q \in At(MP, p) : SiFits(smax, Len(q) - 1)
      judged == {p \in reach : fits(p)}
      formulas(q) == IF mem THEN {ProbMemRenorm(W, str, q), ProbMemToolbox(W, str, q)}
                     ELSE {ProbPlain(W, str, q)}
  IN
  Skip("bad_mode", ~ModeOK(n, Lm, r.mode),
  Skip("self_connection", \E i \in 1..n : Lm[i][i] < INF,
  (* the transition matrix divides by the out-strength of every node                      *)
  Skip("node_without_outgoing_connection", \E i \in 1..n : str[i] = 0,
  Chk("Returns", r.raised = "",
  Chk("WellFormed", r.malformed = "" /\ IsSquare(n, r.SI) /\ IsSquare(n, r.X3),
  (* "the amount of information (measured in bits) that a random walker needs to follow    *)
  (*  the shortest path between a given pair of nodes" (any shortest path; with            *)
  (* has_memory: the renormalised walk or the toolbox's published formula)                 *)
  Chk("InformationOfAShortestPath",
        \A p \in judged : \E q \in At(MP, p) : \E f \in formulas(q) : InfoMatches(At(r.X3, p), f),
  (* bits of information: never negative                                                   *)
  Chk("InformationIsNonNegative", \A p \in reach : At(r.SI, p) # NAN /\ At(r.SI, p) >= -2,
  (* has_memory "has the effect of reducing the amount of information needed"              *)
  Chk("MemoryNeverNeedsMore",
        ~mem \/ \A p \in judged : \E q \in At(MP, p) :
                   LET f == ProbPlain(W, str, q) IN At(r.X3, p) * f[1] <= f[2] * 1000 + 2 * f[1],
  (* no path, no finite amount of information                                              *)
  Chk("UnreachableIsInfinite", \A p \in OffPairs(n) \ reach : At(r.SI, p) = INF,
  "ok")))))))))
DSearchInfo(r) ==
  IF r.raised # "" \/ r.malformed # "" \/ r.mem = 0 \/ ~ModeOK(r.n, r.Lm, r.mode) THEN "na"
  ELSE LET n == r.n  W == WtMat(n, r.Lm, r.mode)  str == StrVec(n, W)
           smax == MaxOf({str[i] : i \in 1..n})
           MP == MinPathTab(n, r.Lm)
           diff == {p \in OffPairs(n) : At(MP, p) # {} /\ At(r.X3, p) < INF
                      /\ (\A q \in At(MP, p) : SiFits(smax, Len(q) - 1))
                      /\ ~\E q \in At(MP, p) : InfoMatches(At(r.X3, p), ProbMemRenorm(W, str, q))}
       IN IF smax = 0 \/ \E i \in 1..n : str[i] = 0 THEN "na"
          ELSE IF diff = {} THEN "same" ELSE "differs:memory_divides_by_previous_step"

(* --------------------------------------------------------- path_transitivity ------ *)
JPathTrans(r) ==
  LET n == r.n  Lm == r.Lm
      W == WtMat(n, Lm, r.mode)
      DD == Dist(n, Lm)
      MP == MinPathTab(n, Lm)
      reach == {p \in OffPairs(n) : At(DD, p) < INF}
      judged == {p \in reach : \A q \in At(MP, p) : PtDefined(n, W, q)}
  IN
  Skip("bad_mode", ~ModeOK(n, Lm, r.mode),
  Skip("self_connection", \E i \in 1..n : Lm[i][i] < INF,
  (* "weighted or unweighted undirected connection weight or length matrix"               *)
  Skip("not_undirected", ~SymLen(n, Lm),
  Chk("Returns", r.raised = "",
  Chk("WellFormed", r.malformed = "" /\ IsSquare(n, r.T),
  (* "density of local detours (triangles) that are available along the shortest-paths     *)
  (*  between all pairs of nodes": of some shortest path                                   *)
  Chk("DetourDensityOfAShortestPath",
        \A p \in judged : \E q \in At(MP, p) : PtMatches(n, W, q, At(r.T, p)),
  Chk("DensityIn01", \A p \in judged : At(r.T, p) >= 0 /\ At(r.T, p) <= Q6 + 2,
  (* "T: matrix of pairwise path transitivity" of an undirected network                    *)
  Chk("TransitivityIsSymmetric", \A p \in judged : At(r.T, p) = r.T[p[2]][p[1]],
  "ok"))))))))

(* ----------------------------------------------------------- rout_efficiency ------ *)
JRout(r) ==
  LET n == r.n  Lm == r.Lm
      DD == Dist(n, Lm)
      parts == TLCEval([u \in 1..n |-> ElocParts(n, Lm, u)])
      (* sum of 1/d over the ordered pairs of distinct neighbours, against obs * den       *)
      SumOK(u, den) == MeanInvNear(r.el[u], parts[u].D, parts[u].cells, den)
      zero(u) == \E p \in parts[u].cells : At(parts[u].D, p) = 0
  IN
  Skip("fewer_than_2_nodes", n < 2,
  Skip("bad_mode", ~ModeOK(n, Lm, r.mode),
  Skip("self_connection", \E i \in 1..n : Lm[i][i] < INF,
  Chk("Returns", r.raised = "",
  Chk("WellFormed", r.malformed = "" /\ IsSquare(n, r.E) /\ IsVec(r.el, n),
  (* "Erout: pairwise routing efficiency matrix": inverse shortest path length             *)
  Chk("EroutIsInverseDistance", EroutOK(n, DD, r.E),
  Chk("EroutDiagZero", \A i \in 1..n : r.E[i][i] = 0,
  (* "GErout: mean global routing efficiency"                                              *)
  Chk("GEroutIsMean", MeanInvOK(r.ge, n, DD),
  (* "Eloc: local efficiency vector", from the distances inside the neighbourhood          *)
  (* subgraph: the sum of their inverses divided by the number of neighbours (toolbox)     *)
  (* or by the number of ordered pairs of neighbours (the mean the docstring describes)    *)
  Chk("ElocSumsNeighbourhoodInverseDistances",
        \A u \in 1..n : LET m == parts[u].m IN
           m = 0 \/ zero(u) \/ (IF m = 1 THEN r.el[u] \in {0, NAN}
                                ELSE SumOK(u, m) \/ SumOK(u, m * (m - 1))),
  (* "the routing efficiency computed on the subgraph formed by the neighborhood of        *)
  (*  node u": the AVERAGE of inverse shortest path length, over m(m-1) ordered pairs      *)
  Chk("ElocIsMeanOverNeighbourPairs",
        \A u \in 1..n : LET m == parts[u].m IN m < 2 \/ zero(u) \/ SumOK(u, m * (m - 1)),
  "ok"))))))))))

(* ------------------------------------------------------- diffusion_efficiency ----- *)
JDiff(r) ==
  LET n == r.n  A == r.A IN
  Skip("fewer_than_2_nodes", n < 2,
  Skip("not_strongly_connected", ~StronglyConnected(n, A),
  Skip("beyond_exact_range", ~(RW!NonNegInt(n, A) /\ RW!MfptExactFits(n, A)),
  Chk("Returns", r.raised = "",
  Chk("WellFormed", r.malformed = "" /\ IsSquare(n, r.E),
  (* "the inverse of the mean first passage time from i to j"                               *)
  Chk("EdiffIsInverseOfExactMfpt", EdiffExactOK(n, A, r.E),
  Chk("EdiffDiagZero", \A i \in 1..n : r.E[i][i] = 0,
  (* a first passage takes at least one step                                                *)
  Chk("EdiffIn01", \A p \in OffPairs(n) : At(r.E, p) >= 1 /\ At(r.E, p) <= Q6 + 1,
  (* "gediff: mean global diffusion efficiency"                                             *)
  Chk("GediffIsMean", RW!GediffIsMean(n, r.E, r.ge), "ok")))))))))

(* ---------------------------------------------------- resource_efficiency_bin ----- *)
JRes(r) ==
  LET n == r.n  A == r.A
      Lm == LenOfAdj(n, A)
      MP == MinPathTab(n, Lm)
      M == DegLcm(n, A)
      H == HopDistFast(n, Lm)
      fitsP(p) == RW!MaxPow(M, 0, 1, At(H, p)) = At(H, p) /\ IPow(M, At(H, p)) < 200000000
      judged == {p \in OffPairs(n) : fitsP(p)}
      F(p) == ProbSplFrac(n, A, MP, M, p[1], p[2])
  IN
  IF r.lam = "bad"
  (* "Lambda must be a nonzero probability"                                                 *)
  THEN Chk("RejectsBadLambda", r.raised = "BCTParamError", "ok")
  ELSE
  (* "adj: Unweighted, undirected adjacency matrix"                                         *)
  Skip("not_connected_undirected_binary",
         n < 2 \/ ~Is01(n, A) \/ ~IsSym(n, A) \/ ~DiagZero(n, A) \/ ~Connected(n, A),
  Chk("Returns", r.raised = "",
  Chk("WellFormed", r.malformed = "" /\ IsSquare(n, r.prob)
                      /\ (r.lam = "nan" \/ (IsSquare(n, r.Eres) /\ IsSquare(n, r.X6))),
  (* "prob_spl: probabilistic shortest path matrix"                                         *)
  Chk("ProbIsShortestPathProbability",
        \A p \in judged : NearFrac(At(r.prob, p), F(p)[1], F(p)[2], 2),
  Chk("ProbDiagZero", \A i \in 1..n : r.prob[i][i] = 0,
  IF r.lam = "nan"
  (* "If lambda was provided as NaN, then Eres will be np.nan"                              *)
  THEN Chk("EresIsNanWithoutLambda", r.eresnan = 1, "ok")
  (* "inversly proportional to the amount of resources ... required to ensure with           *)
  (*  probability lambda that at least one of them will arrive at node j in exactly SPL      *)
  (*  steps": 1 - (1 - prob)^z = lambda, Eres = 1/z, i.e. (1 - lambda)^Eres = 1 - prob;      *)
  (* one particle is enough where prob = 1                                                   *)
  ELSE Chk("EresSolvesArrivalEquation",
             \A p \in judged :
                IF F(p)[1] = F(p)[2] THEN At(r.Eres, p) = Q6
                ELSE IsFinite(At(r.X6, p)) /\ Abs(At(r.X6, p) - (Q6 - ToQ6(F(p)[1], F(p)[2]))) <= 3,
       Chk("EresDiagZero", \A i \in 1..n : r.Eres[i][i] = 0, "ok")))))))

(* ------------------------------------------------------------------ dispatch ------ *)
SymClass(n, Lm) == IF SymLen(n, Lm) THEN "symmetric" ELSE "asymmetric"
ReachClass(n, Lm) == IF HasUnreachable(n, Dist(n, Lm)) THEN "has_unreachable_pair" ELSE "all_pairs_reachable"
Judge(r) ==
  CASE r.kind = "findpaths" -> <<JFindpaths(r), "na", "any">>
    [] r.kind = "cycprob"   -> <<JCycprob(r), "na", "any">>
    [] r.kind = "breadth"   -> <<JBreadth(r), DBreadth(r), "any">>
    [] r.kind = "rd"        -> LET c == JReachDist(r) IN <<c, "na", IF c = "ok" THEN "any" ELSE RdClass(r)>>
    [] r.kind = "si"        -> <<JSearchInfo(r), DSearchInfo(r),
                                 SymClass(r.n, r.Lm) \o "_" \o ReachClass(r.n, r.Lm)>>
    [] r.kind = "pt"        -> <<JPathTrans(r), "na", ReachClass(r.n, r.Lm)>>
    [] r.kind = "rout"      -> <<JRout(r), "na", "any">>
    [] r.kind = "diff"      -> <<JDiff(r), "na", "any">>
    [] r.kind = "res"       -> <<JRes(r), "na", "any">>
    [] OTHER                -> <<"skip:unknown_kind", "na", "any">>

VARIABLES tid, verdict
TInit == tid \in 1..Len(Recs) /\ verdict = <<>>
TNext == /\ verdict = <<>>
         /\ verdict' = Judge(Recs[tid])
         /\ PrintT(VLine(tid, verdict'))
         /\ UNCHANGED tid
TSpec == TInit /\ [][TNext]_<<tid, verdict>>
=============================================================================
