---- MODULE MC_Brandes ----
EXTENDS BrandesImpl
====
