------------------------------- MODULE Backbone -------------------------------
(* X05 (extended coverage), L0 definitions + operator forms of the code's steps for      *)
(*   backbone_wu        bct/utils/visualization.py 272-356 (port of backbone_wu.m)        *)
(*   gtom               bct/algorithms/similarity.py 107-168 (Yip & Horvath 2007, gtom.m) *)
(*   dice_pairwise_und  similarity.py 300-331                                             *)
(*   corr_flat_und/dir  similarity.py 334-381                                             *)
(*   get_components_old bct/algorithms/clustering.py 515-592                              *)
(*   dummyvar           bct/utils/miscellaneous_utilities.py 66-96                        *)
(* Numbers: weights are small positive integers (<= 9 in the model, <= 99 in traces),     *)
(* n <= 40; every sum stays far below 2^31.  Correlations: m <= 30 cells with entries     *)
(* <= 5, so m * sum(x y) <= 30 * 30 * 25 < 46000 (squares below 2^31).                     *)
EXTENDS BctGraph, BctRational, SequencesExt

UPairs(n) == {p \in (1..n) \X (1..n) : p[1] < p[2]}
UEdges(n, A) == {p \in UPairs(n) : A[p[1]][p[2]] # 0}
In2(T, i, j) == <<i, j>> \in T \/ <<j, i>> \in T
EdgeMat(n, T) == Mat(n, LAMBDA i, j : IF In2(T, i, j) THEN 1 ELSE 0)
W(A, e) == A[e[1]][e[2]]
WeightOf(A, T) == Sum(T, LAMBDA e : A[e[1]][e[2]])
AscSeq(S) == SetToSortSeq(S, <)
Lex(p, q) == p[1] < q[1] \/ (p[1] = q[1] /\ p[2] < q[2])

(* ===================== 1. spanning trees of maximum weight ======================== *)
(* a spanning tree: n-1 edges that connect all n nodes (hence without a cycle)          *)
IsSpanningTreeSet(n, T) == Cardinality(T) = n - 1 /\ Connected(n, EdgeMat(n, T))
SpanningTrees(n, A) == {T \in SUBSET UEdges(n, A) : IsSpanningTreeSet(n, T)}
(* L0: the trees of maximum total weight among ALL spanning trees (enumerated)          *)
MaxTreeWeight(n, A) == MaxOf({WeightOf(A, T) : T \in SpanningTrees(n, A)})
MaxTrees(n, A) == LET ST == SpanningTrees(n, A)
                      mw == MaxOf({WeightOf(A, T) : T \in ST})
                  IN {T \in ST : WeightOf(A, T) = mw}
(* second, enumeration-free form (the cycle property), proved equivalent on every small  *)
(* input by MC_Backbone (CycleLemmaInv); used for traces with more than 5 nodes:          *)
(* no connection outside the tree is stronger than the weakest tree connection on the     *)
(* tree path between its ends                                                             *)
AtLeast(n, A, T, w) == Mat(n, LAMBDA i, j : IF In2(T, i, j) /\ A[i][j] >= w THEN 1 ELSE 0)
CycleOptimal(n, A, T) ==
  \A e \in UEdges(n, A) \ T : e[2] \in ReachSet(n, AtLeast(n, A, T, W(A, e)), e[1])

(* "nodes with zero strength are discarded": the tree is demanded of the remaining nodes      *)
Active(n, A) == {i \in 1..n : \E j \in 1..n : A[i][j] # 0}
ActiveConnected(n, A) == Active(n, A) # {} /\ \A i \in Active(n, A) : Active(n, A) \subseteq ComponentOf(n, A, i)
SpansActive(n, A, Tm) == \A i \in Active(n, A) : Active(n, A) \subseteq ReachSet(n, Tm, i)

(* L0: the backfill.  K = avgdeg * n - 2 (n - 1) matrix cells (two per connection) are    *)
(* to be added to the tree T; C is the returned matrix                                     *)
AddedOf(n, C, T) == UEdges(n, C) \ T
ClusStrongest(n, A, T, C) ==
  LET add == AddedOf(n, C, T) IN
  \A e \in add : \A g \in (UEdges(n, A) \ T) \ add : W(A, e) >= W(A, g)
(* the demanded number of cells, exactly (odd K: either rounding), or exceeded only by    *)
(* connections tied with the weakest added one ("exactly equal to (or very close to)")     *)
ClusDegree(n, A, T, C, K) ==
  LET add == AddedOf(n, C, T) IN
  IF K <= 0 THEN add = {}
  ELSE /\ 2 * Cardinality(add) + (K % 2) >= K
       /\ add # {} =>
            LET lo == MinOf({W(A, e) : e \in add}) IN
            2 * Cardinality({e \in add : W(A, e) > lo}) < K
CellsFromInput(n, A, C) == \A i, j \in 1..n : C[i][j] \in {0, A[i][j]}

(* -------- operator forms of the code's steps (L2; machine in BackboneImpl.tla) --------- *)
(* np.argmax of the block CIJ[np.ix_(rows, cols)]: the first maximum in row-major order    *)
ArgmaxBlock(A, rows, cols) ==
  LET cells == (DOMAIN rows) \X (DOMAIN cols)
      mx == MaxOf({A[rows[c[1]]][cols[c[2]]] : c \in cells})
      best == {c \in cells : A[rows[c[1]]][cols[c[2]]] = mx}
  IN CHOOSE c \in best : \A d \in best : c[1] < d[1] \/ (c[1] = d[1] /\ c[2] <= d[2])
Iota(n) == [k \in 1..n |-> k]
PutEdge(A, tre, i, j) == [tre EXCEPT ![i] = [@ EXCEPT ![j] = A[i][j]], ![j] = [@ EXCEPT ![i] = A[j][i]]]
(* "find strongest edge (if multiple edges are tied, use only first one)"                  *)
BbFirst(n, A) ==
  LET c == ArgmaxBlock(A, Iota(n), Iota(n)) IN
  [tre |-> IF c[1] = c[2] THEN [Zero(n) EXCEPT ![c[1]] = [@ EXCEPT ![c[1]] = A[c[1]][c[1]]]]
           ELSE PutEdge(A, Zero(n), c[1], c[2]),
   inn |-> <<c[1], c[2]>>, outt |-> AscSeq((1..n) \ {c[1], c[2]}), ix |-> 0]
(* body of `for ix in range(n - 2)`                                                        *)
BbStep(n, A, s) ==
  LET c == ArgmaxBlock(A, s.inn, s.outt)
      im == s.inn[c[1]]  jm == s.outt[c[2]]
      inn2 == Append(s.inn, jm)
  IN [tre |-> PutEdge(A, s.tre, im, jm), inn |-> inn2,
      outt |-> AscSeq((1..n) \ SeqToSet(inn2)), ix |-> s.ix + 1]
RECURSIVE BbLoop(_, _, _)
BbLoop(n, A, s) == IF s.ix >= n - 2 THEN s ELSE BbLoop(n, A, BbStep(n, A, s))
BbTree(n, A) == BbLoop(n, A, BbFirst(n, A)).tre
(* "now add connections back": dn = avgdeg * n; result [raised, clus]                      *)
BbBackfill(n, A, tre, dn) ==
  LET nit == Mat(n, LAMBDA i, j : IF tre[i][j] # 0 THEN 0 ELSE A[i][j])
      cells == {p \in (1..n) \X (1..n) : nit[p[1]][p[2]] # 0}
      a == SetToSortSeq(cells, LAMBDA p, q : nit[p[1]][p[2]] > nit[q[1]][q[2]]
                                             \/ (nit[p[1]][p[2]] = nit[q[1]][q[2]] /\ Lex(p, q)))
      cutoff == dn - 2 * (n - 1) - 1
  IN IF cutoff >= Len(a) THEN [raised |-> TRUE, clus |-> tre]
     ELSE IF cutoff < 0 THEN [raised |-> FALSE, clus |-> tre]
     ELSE LET thr == nit[a[cutoff + 1][1]][a[cutoff + 1][2]] IN
          [raised |-> FALSE,
           clus |-> Mat(n, LAMBDA i, j : tre[i][j] + (IF nit[i][j] >= thr THEN nit[i][j] ELSE 0))]

(* ===================== 2. generalised topological overlap ========================= *)
(* "Mth-step neighbors are nodes that are reachable by a path of at most length m"        *)
RECURSIVE Ball(_, _, _, _)
Ball(n, B, S, m) == IF m = 0 THEN S
                    ELSE Ball(n, B, S \cup {j \in 1..n : \E i \in S : B[i][j] # 0}, m - 1)
NbWithin(n, B, i, m) == Ball(n, B, {i}, m) \ {i}
Min2(a, b) == IF a < b THEN a ELSE b
(* Yip & Horvath 2007, eq. (4) (= Ravasz 2002 for m = 1; gtom.m):                          *)
(*   t_ij = (|N_m(i) /\ N_m(j)| + a_ij) / (min(|N_m(i)|, |N_m(j)|) + 1 - a_ij),  t_ii = 1   *)
GtomFrac(n, B, m, i, j) ==
  IF i = j THEN <<1, 1>>
  ELSE LET Ni == NbWithin(n, B, i, m)  Nj == NbWithin(n, B, j, m)
           a == IF B[i][j] # 0 THEN 1 ELSE 0
       IN <<Cardinality(Ni \cap Nj) + a, Min2(Cardinality(Ni), Cardinality(Nj)) + 1 - a>>
(* the toolbox's loop (gtom.m, `for steps = 2:numSteps`): neighbours of neighbours become  *)
(* neighbours, all nodes at once - both read from the EXPANDED matrix, so the radius doubles *)
(* per step (MC_Backbone!GtomLemma: 2^(m-1) steps, not the documented m, from m = 3 on)      *)
GtExpand(n, B) == Mat(n, LAMBDA i, j : IF i # j /\ (B[i][j] # 0 \/ \E k \in 1..n : B[i][k] # 0 /\ B[k][j] # 0)
                                       THEN 1 ELSE 0)
RECURSIVE GtLoop(_, _, _)
GtLoop(n, B, m) == IF m <= 1 THEN B ELSE GtLoop(n, GtExpand(n, B), m - 1)

(* the port as it stands (drift only): `for steps in range(2, nr_steps)` runs nr_steps - 2    *)
(* expansions, the denominator takes the LARGER neighbourhood                                *)
Max2(a, b) == IF a > b THEN a ELSE b
GtomPortFrac(n, B, m, i, j) ==
  LET G == GtLoop(n, B, m - 1)
      Ni == {k \in 1..n : G[i][k] # 0}  Nj == {k \in 1..n : G[j][k] # 0}
      a == IF B[i][j] # 0 THEN 1 ELSE 0
  IN <<Cardinality(Ni \cap Nj) + a + (IF i = j THEN 1 ELSE 0), Max2(Cardinality(Ni), Cardinality(Nj)) + 1 - a>>

(* ===================== 3. dice, flattened correlations ============================ *)
NbIn(n, B, i) == {j \in 1..n : j # i /\ B[j][i] # 0}
(* Dice similarity of the two neighbourhoods of node i: 2 |N1 /\ N2| / (|N1| + |N2|)       *)
DiceFrac(n, B1, B2, i) ==
  <<2 * Cardinality(NbIn(n, B1, i) \cap NbIn(n, B2, i)),
    Cardinality(NbIn(n, B1, i)) + Cardinality(NbIn(n, B2, i))>>
(* Pearson's r of two samples: c / sqrt(vx vy)                                             *)
CovSeq(s, t) == Len(s) * Sum(DOMAIN s, LAMBDA e : s[e] * t[e]) - SeqSum(s) * SeqSum(t)
Pearson(xs, ys) == [c |-> CovSeq(xs, ys), vx |-> CovSeq(xs, xs), vy |-> CovSeq(ys, ys)]
FlatCells(n, und) ==
  SetToSortSeq({p \in (1..n) \X (1..n) : IF und THEN p[1] < p[2] ELSE p[1] # p[2]}, Lex)
FlatPearson(n, A1, A2, und) ==
  LET cs == FlatCells(n, und) IN
  Pearson([k \in DOMAIN cs |-> A1[cs[k][1]][cs[k][2]]], [k \in DOMAIN cs |-> A2[cs[k][1]][cs[k][2]]])

(* ===================== 4. components vector, indicator variables ================== *)
(* "Components and their constitutent nodes are assigned the same index"; "comp_sizes      *)
(* contains the number of nodes beloning to each component"                                *)
CompsOK(n, A, comps) == \A i, j \in 1..n : (comps[i] = comps[j]) <=> (j \in ComponentOf(n, A, i))
SizesOK(n, comps, sizes) ==
  /\ \A i \in 1..n : comps[i] \in DOMAIN sizes
  /\ \A c \in DOMAIN sizes : sizes[c] = Cardinality({i \in 1..n : comps[i] = c})
(* dummyvar: one indicator column per (partition, community)                                *)
DvKeys(n, M, cis) == {<<m, cis[v][m]>> : v \in 1..n, m \in 1..M}
DvColumn(n, cis, k) == [v \in 1..n |-> IF cis[v][k[1]] = k[2] THEN 1 ELSE 0]
DvOrdered(n, M, cis) == SetToSortSeq(DvKeys(n, M, cis), Lex)     \* by partition, then label
=============================================================================
