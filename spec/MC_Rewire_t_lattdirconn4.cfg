SPECIFICATION Spec
CONSTANT N = 4
CONSTANT Dir = TRUE
CONSTANT Conn = TRUE
CONSTANT Latt = TRUE
CONSTANT Mask = FALSE
CONSTANT Iters = 1
CONSTANT KCap = 6
CONSTANT AltD = TRUE
CONSTANT BadPicks = FALSE
CONSTANT Gen = FALSE
CHECK_DEADLOCK FALSE
INVARIANT TypeOK
INVARIANT DegInv
INVARIANT BagInv
INVARIANT DiagInv
INVARIANT SymInv
INVARIANT OutStrInv
INVARIANT SyncInvM
INVARIANT ZeroEffInv
INVARIANT PickAlwaysPossible
INVARIANT ConnInv
INVARIANT MaskInv
PROPERTY LatticeStep
PROPERTY RefinesAbs
PROPERTY EffCounts
