SPECIFICATION Spec
CONSTANT NN = 5
CONSTANT Kind = "und"
CONSTANT LoopNodes = {}
CONSTANT Checks = {"prob", "match"}
INVARIANT BfsInv
INVARIANT ReachInv
INVARIANT ProbInv
INVARIANT MatchInv
CHECK_DEADLOCK FALSE
