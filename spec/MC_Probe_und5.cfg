SPECIFICATION Spec
CONSTANT N = 5
CONSTANT Dir = FALSE
INVARIANT ProbeSound
CHECK_DEADLOCK FALSE
