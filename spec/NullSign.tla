-------------------------------- MODULE NullSign --------------------------------
(* C06, null_model_und_sign / null_model_dir_sign: output contract and the exact     *)
(* (integer) form of the strength-correlation clause.                                *)
EXTENDS Rewire, BctRational

(* strength sequences: positive in/out, negative in/out (magnitudes)                  *)
PosPart(n, W) == Mat(n, LAMBDA i, j : IF W[i][j] > 0 THEN W[i][j] ELSE 0)
NegPart(n, W) == Mat(n, LAMBDA i, j : IF W[i][j] < 0 THEN -W[i][j] ELSE 0)
InSeq(n, M)  == [v \in 1..n |-> InStr(n, M, v)]
OutSeq(n, M) == [v \in 1..n |-> OutStr(n, M, v)]

(* Pearson correlation of integer sequences x, y of length n, kept exact:             *)
(*   r = C / sqrt(VX*VY),  C = n*Sxy - Sx*Sy, VX = n*Sxx - Sx^2, VY likewise          *)
CovN(n, x, y) == n * Sum(1..n, LAMBDA v : x[v] * y[v]) - Sum(1..n, LAMBDA v : x[v]) * Sum(1..n, LAMBDA v : y[v])
VarN(n, x) == CovN(n, x, x)

(* observed: r (10^-6 fixed point, NAN when undefined) and r^2 (10^-6 fixed point)     *)
CorrMatches(n, x, y, robs, r2obs) ==
  LET c == CovN(n, x, y)  vx == VarN(n, x)  vy == VarN(n, y) IN
  IF vx = 0 \/ vy = 0 THEN IsNan(robs)
  ELSE /\ IsFinite(robs)
       /\ RatOK(c * c, vx * vy)
       /\ Abs(r2obs - ToQ6(c * c, vx * vy)) <= 4
       /\ (c = 0 => Abs(robs) <= 2)
       /\ (c # 0 => Sgn(robs) = Sgn(c))
(* products must stay below 2^31, and the denominator within RatOK's bound (ToQ6's long       *)
(* division multiplies remainders by 10): beyond that the clause is skipped, not failed - with *)
(* 12..24-node inputs (seed round 7) vx * vy passes 2 * 10^8 and CorrMatches' RatOK conjunct   *)
(* used to fail on the unchanged code, a false alarm of the machinery                          *)
CorrDomainOK(n, x, y) ==
  LET c == CovN(n, x, y)  vx == VarN(n, x)  vy == VarN(n, y) IN
  Abs(c) < 46000 /\ vx < 46000 /\ vy < 46000 /\ (vx = 0 \/ vy = 0 \/ RatOK(c * c, vx * vy))
=============================================================================
