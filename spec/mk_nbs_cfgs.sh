#!/bin/sh
# writes the MC_Nbs_*.cfg / Gen_Nbs_*.cfg files (constants of NbsImpl.tla)
# usage: mk name N NX NY Vals VarSet TNs TailSet Paired K KeepDraws Gen
mk() {
  f=$1.cfg
  {
    echo "SPECIFICATION Spec"
    echo "CONSTANT N = $2"
    echo "CONSTANT NX = $3"
    echo "CONSTANT NY = $4"
    echo "CONSTANT Vals = $5"
    echo "CONSTANT VarSet = $6"
    echo "CONSTANT BG = 1"
    echo "CONSTANT TNs = $7"
    echo "CONSTANT TD = 8"
    echo "CONSTANT TailSet = $8"
    echo "CONSTANT Paired = $9"
    echo "CONSTANT K = ${10}"
    echo "CONSTANT KeepDraws = ${11}"
    echo "CONSTANT Gen = ${12}"
    if [ "${12}" = FALSE ]; then
      for i in TypeOK SupraRefinesL0 AdjMarksSupra LabelsByComponentInv SizesAreLinkCounts \
               NullIsMaxComponent NullLenK HitCounts PvalsMatchNull SwapGroupsAndTailSym \
               TailBothSym ReorderInv StatIsTextbook PairedDrawIsLabelSwap; do
        echo "INVARIANT $i"
      done
    else
      echo "INVARIANT TypeOK"
    fi
    echo "CHECK_DEADLOCK FALSE"
  } > $f
}
ALL='{"left", "right", "both"}'
# ---- quick models (exhaustive)
mk MC_Nbs_q_u22n3   3 2 2 '{0, 1, 2}' '{1, 2}'    '{8}'     '{"right"}' FALSE 1 TRUE  FALSE
mk MC_Nbs_q_u22n4k2 4 2 2 '{0, 1}'    '{1, 6}'    '{4}'     "$ALL" FALSE 2 FALSE FALSE
mk MC_Nbs_q_u23n3   3 2 3 '{0, 1}'    '{1, 3}'    '{12}'    '{"left", "both"}'  FALSE 1 TRUE  FALSE
mk MC_Nbs_q_p22n4   4 2 2 '{0, 1, 2}' '{1, 6}'    '{8}'     "$ALL" TRUE  1 TRUE  FALSE
mk MC_Nbs_q_p22n4k2 4 2 2 '{0, 1}'    '{1, 2, 6}' '{4}'     '{"left", "both"}' TRUE  2 FALSE FALSE
mk MC_Nbs_q_p33n3   3 3 3 '{0, 1}'    '{1, 2}'    '{12}'    "$ALL" TRUE  1 TRUE  FALSE
# ---- thorough models
mk MC_Nbs_t_u22n3   3 2 2 '{0, 1, 2}' '{1, 2}'    '{8, 20}' "$ALL" FALSE 1 TRUE  FALSE
mk MC_Nbs_t_u22n4   4 2 2 '{0, 1, 2}' '{1, 6}'    '{8, 20}' "$ALL" FALSE 1 TRUE  FALSE
mk MC_Nbs_t_u22n4k2 4 2 2 '{0, 1}'    '{1, 2, 6}' '{4}'     "$ALL" FALSE 2 FALSE FALSE
mk MC_Nbs_t_u22n4k2d 4 2 2 '{0, 1}'   '{1, 6}'    '{4}'     "$ALL" FALSE 2 TRUE  FALSE
mk MC_Nbs_t_u23n4   4 2 3 '{0, 1}'    '{1, 6}'    '{8, 12}' "$ALL" FALSE 1 TRUE  FALSE
mk MC_Nbs_t_u23n3   3 2 3 '{0, 1}'    '{1, 3}'    '{12}'    "$ALL" FALSE 1 TRUE  FALSE
mk MC_Nbs_t_u33n3   3 3 3 '{0, 1}'    '{1, 2}'    '{12}'    '{"both"}' FALSE 1 TRUE  FALSE
mk MC_Nbs_t_p22n4   4 2 2 '{0, 1, 2}' '{1, 6}'    '{8, 20}' "$ALL" TRUE  2 TRUE  FALSE
mk MC_Nbs_t_p33n4   4 3 3 '{0, 1}'    '{1, 6}'    '{8, 12}' "$ALL" TRUE  2 TRUE  FALSE
# ---- behaviour generators (run with -simulate)
mk Gen_Nbs_u22n4 4 2 2 '{0, 1, 2}' '{1, 2, 6}'    '{8, 12, 20}' "$ALL" FALSE 2 TRUE TRUE
mk Gen_Nbs_u23n4 4 2 3 '{0, 1, 2}' '{1, 2, 6}'    '{8, 12, 20}' "$ALL" FALSE 2 TRUE TRUE
mk Gen_Nbs_u33n3 3 3 3 '{0, 1, 2}' '{1, 2, 3}'    '{8, 12, 20}' "$ALL" FALSE 2 TRUE TRUE
mk Gen_Nbs_p33n4 4 3 3 '{0, 1, 2}' '{1, 2, 6}'    '{8, 12, 20}' "$ALL" TRUE  2 TRUE TRUE
mk Gen_Nbs_p22n4 4 2 2 '{0, 1, 2}' '{1, 2, 6}'    '{8, 12, 20}' "$ALL" TRUE  2 TRUE TRUE
