-------------------------------- MODULE Relations --------------------------------
(* C10 / C14.  RELATIONAL properties: nothing here says what a measure is, only  *)
(* which two evaluations of the real code must agree.                            *)
(*                                                                               *)
(* C10  (a) the table of pairs (C10Pairs) exactly as listed in the property:     *)
(*          <<fw, fb, "on 0/1">>, <<fd, fu, "on symmetric">>,                    *)
(*          <<f, f o binarize, "ignores weights">>;                              *)
(*      (b) PairAgrees(kind, out1, out2) on ENCODED outputs.                     *)
(* C14  SamePartition / Relabel / RelabelInvariant, the partition_distance       *)
(*      clauses, Ci2lsLs2ciInverseUpToRenaming, and the operator form of the     *)
(*      code's canonicalisation `np.unique(ci, return_inverse=True)[1] + 1`.     *)
(*                                                                               *)
(* Encoding of observed outputs (harness/props/rel_common.py): every output is   *)
(* flattened to one sequence of integers; kind "int" = E-int (exact), kind       *)
(* "real" = E-q6 (round(x * 10^6)); +inf = INF, -inf = -INF, nan = NAN.          *)
(* Input matrices are sent as integers `weight * scale` (scale = 1 for integer   *)
(* weights, 1000 for weights k/1000) - only their zero pattern, symmetry and     *)
(* 0/1-ness is ever read here.  n <= 12 (C14 scale regime: label vectors of up to   *)
(* 400 entries, only compared), |entries| <= 10^6: no product is formed.          *)
EXTENDS BctGraph, BctRational

(* ================================ C10 ======================================== *)
(* dom:  "01"    every entry 0 or 1, empty diagonal (directed or not)            *)
(*       "01und" ... and symmetric                                                *)
(*       "symw"  symmetric, positive weights, empty diagonal                     *)
(*       "wund"/"wdir"  second input = binarisation of the first (positive       *)
(*               weights, empty diagonal, symmetric for "wund")                  *)
(* kind: "int" outputs integers by definition, "real" otherwise                  *)
(* fam:  which input-class predicate is relevant for findings                    *)
P(fw, fb, dom, kind, fam) == [fw |-> fw, fb |-> fb, dom |-> dom, kind |-> kind, fam |-> fam]

(* "On a matrix whose entries are all 0 or 1 every weighted routine returns      *)
(*  what its binary counterpart returns (...)"                                   *)
PairsOn01 == {
  P("clustering_coef_wu",    "clustering_coef_bu",    "01und", "real", "tri"),
  P("clustering_coef_wd",    "clustering_coef_bd",    "01",    "real", "tri"),
  P("transitivity_wu",       "transitivity_bu",       "01und", "real", "tri"),
  P("transitivity_wd",       "transitivity_bd",       "01",    "real", "tri"),
  P("distance_wei",          "distance_bin",          "01",    "int",  "path"),
  P("betweenness_wei",       "betweenness_bin",       "01",    "real", "path"),
  P("edge_betweenness_wei",  "edge_betweenness_bin",  "01",    "real", "path"),
  P("efficiency_wei",        "efficiency_bin",        "01",    "real", "path"),
  P("efficiency_wei[local]", "efficiency_bin[local]", "01",    "real", "dirness"),
  P("strengths_und",         "degrees_und",           "01und", "int",  "any"),
  P("strengths_dir",         "degrees_dir",           "01",    "int",  "any"),
  P("assortativity_wei[0]",  "assortativity_bin[0]",  "01und", "real", "assort") }

(* "On a symmetric matrix every directed routine returns what its undirected     *)
(*  counterpart returns (...), in- and out-degree equal to degree"               *)
PairsOnSym == {
  P("clustering_coef_bd",    "clustering_coef_bu",    "01und", "real", "tri"),
  P("clustering_coef_wd",    "clustering_coef_wu",    "symw",  "real", "tri"),
  P("transitivity_bd",       "transitivity_bu",       "01und", "real", "tri"),
  P("transitivity_wd",       "transitivity_wu",       "symw",  "real", "tri"),
  P("degrees_dir[in,out]",   "degrees_und[x2]",       "symw",  "int",  "any") }

(* "routines documented to ignore weights return the same for a weighted matrix  *)
(*  and its binarisation" - the routines whose docstring says so                 *)
WeightIgnoringUnd == {"degrees_und", "density_und", "assortativity_bin[0]",
                      "edge_nei_overlap_bu"}
WeightIgnoringDir == {"degrees_dir", "jdegree", "density_dir", "edge_nei_overlap_bd",
                      "findwalks", "reachdist"}
IntValued == {"degrees_und", "degrees_dir", "jdegree", "findwalks", "reachdist"}
PairsIgnoreWeights ==
  {P(f, f \o "@binarize", "wund", IF f \in IntValued THEN "int" ELSE "real",
     IF f = "assortativity_bin[0]" THEN "assort" ELSE "any") : f \in WeightIgnoringUnd}
  \cup
  {P(f, f \o "@binarize", "wdir", IF f \in IntValued THEN "int" ELSE "real", "any")
     : f \in WeightIgnoringDir}

C10Pairs == PairsOn01 \cup PairsOnSym \cup PairsIgnoreWeights
PairNamed(fw, fb, dom) == {p \in C10Pairs : p.fw = fw /\ p.fb = fb /\ p.dom = dom}

EntriesIn(n, A, S) == \A i, j \in 1..n : A[i][j] \in S
NonNegM(n, A) == \A i, j \in 1..n : A[i][j] >= 0
InDom(dom, n, A, scale) ==
  /\ n >= 1 /\ scale >= 1 /\ IsSquare(n, A) /\ DiagZero(n, A)
  /\ CASE dom = "01"    -> EntriesIn(n, A, {0, scale})
       [] dom = "01und" -> EntriesIn(n, A, {0, scale}) /\ IsSym(n, A)
       [] dom = "symw"  -> NonNegM(n, A) /\ IsSym(n, A)
       [] dom = "wund"  -> NonNegM(n, A) /\ IsSym(n, A)
       [] dom = "wdir"  -> NonNegM(n, A)
       [] OTHER -> FALSE
(* the second member of a weight-ignoring pair was evaluated on Bin(A)           *)
SecondInputOK(dom, n, A, B) ==
  IF dom \in {"wund", "wdir"} THEN IsSquare(n, B) /\ B = Bin(n, A) ELSE B = <<>>

(* "returns what its counterpart returns": exact for integer-valued outputs,     *)
(* within +-2 at 10^-6 for real-valued ones; nan/inf patterns agree exactly      *)
ValAgrees(kind, x, y) == IF kind = "int" THEN x = y ELSE NearQ(x, y, 2)
PairAgrees(kind, out1, out2) ==
  /\ Len(out1) = Len(out2)
  /\ \A k \in 1..Len(out1) : ValAgrees(kind, out1[k], out2[k])

(* ---- wide reals (scale-regime records) ---------------------------------------- *)
(* A real whose E-q6 value v = round(x * 10^6) does not fit below INF is sent as   *)
(* two integers, v = hi * 10^9 + lo with |lo| < 10^9 and lo of the sign of v       *)
(* (hi = 0 for every value the plain encoding can hold, so a record without `hi`   *)
(* sequences is the special case hi = 0 everywhere); inf/nan travel in lo.  The    *)
(* comparison is the SAME +-tol at 10^-6, carried out without ever forming a       *)
(* number >= 2^31: l1 - l2 lies in (-2*10^9, 2*10^9), and 10^9 is only added to a  *)
(* negative difference.                                                            *)
Giga == 1000000000
NearQWide(h1, l1, h2, l2, tol) ==
  IF IsFinite(l1) /\ IsFinite(l2)
  THEN \/ (h1 = h2 /\ Abs(l1 - l2) <= tol)
       \/ (h1 = h2 + 1 /\ l1 - l2 < 0 /\ Abs((l1 - l2) + Giga) <= tol)
       \/ (h2 = h1 + 1 /\ l2 - l1 < 0 /\ Abs((l2 - l1) + Giga) <= tol)
  ELSE l1 = l2 /\ h1 = h2
WideWellFormed(h, l) == IF IsFinite(l) THEN (h = 0 \/ (h > 0 /\ l >= 0) \/ (h < 0 /\ l <= 0)) ELSE h = 0
ValAgreesWide(kind, h1, x, h2, y) ==
  IF kind = "int" THEN x = y /\ h1 = 0 /\ h2 = 0 ELSE NearQWide(h1, x, h2, y, 2)
PairAgreesWide(kind, out1, hi1, out2, hi2) ==
  /\ Len(out1) = Len(out2) /\ Len(hi1) = Len(out1) /\ Len(hi2) = Len(out2)
  /\ \A k \in 1..Len(out1) : /\ WideWellFormed(hi1[k], out1[k]) /\ WideWellFormed(hi2[k], out2[k])
                             /\ ValAgreesWide(kind, hi1[k], out1[k], hi2[k], out2[k])
ZeroHi(out) == [k \in 1..Len(out) |-> 0]

(* ---- input classes (for findings) ------------------------------------------- *)
HasUnreachablePair(n, A) == \E u \in 1..n : ReachSet(n, A, u) # 1..n
Adj(A, a, b) == A[a][b] # 0 \/ A[b][a] # 0
OnTriangle(n, A, i) == \E j, k \in 1..n : Adj(A, i, j) /\ Adj(A, j, k) /\ Adj(A, k, i)
TriangleClass(n, A) ==
  LET on == {i \in 1..n : OnTriangle(n, A, i)} IN
  IF on = {} THEN "triangle_free"
  ELSE IF on = 1..n THEN "every_node_on_triangle" ELSE "some_node_triangle_free"
TotDeg(n, A, i) == Cardinality({j \in 1..n : A[i][j] # 0 \/ A[j][i] # 0})
(* assortativity is 0/0 (variance of the degrees over edge ends is zero) exactly *)
(* when all nodes that have an edge have the same degree: value undefined        *)
DegreeVarianceZero(n, A) ==
  Cardinality({TotDeg(n, A, i) : i \in {i \in 1..n : TotDeg(n, A, i) > 0}}) <= 1
(* the same two predicates for large records (n > BigN: 100..200 nodes), where the *)
(* definitions above cost n^3 .. n^4 evaluations: neighbour sets are built once,  *)
(* reachability grows by FRONTIERS, and "some pair is unreachable" is "node 1 does *)
(* not reach every node or is not reached by every node".  MC_Relations checks     *)
(* that they coincide with the definitions above on every small 0/1 digraph and    *)
(* every small symmetric weighted matrix (invariant BigClassesCoincide).           *)
BigN == 12
NbrSets(n, A) == Force([i \in 1..n |-> {j \in 1..n : Adj(A, i, j)}])
TriangleClassBig(n, A) ==
  LET N  == NbrSets(n, A)
      on == {i \in 1..n : \E j \in N[i] : N[j] \cap N[i] # {}} IN
  IF on = {} THEN "triangle_free"
  ELSE IF on = 1..n THEN "every_node_on_triangle" ELSE "some_node_triangle_free"
RECURSIVE GrowFrontier(_, _, _, _)
GrowFrontier(n, Out, S, F) ==
  LET F2 == (UNION {Out[i] : i \in F}) \ S
  IN IF F2 = {} THEN S ELSE GrowFrontier(n, Out, S \cup F2, F2)
OutSets(n, A) == Force([i \in 1..n |-> {j \in 1..n : A[i][j] # 0}])
InSets(n, A) == Force([j \in 1..n |-> {i \in 1..n : A[i][j] # 0}])
ReachSetBig(n, A, s) == GrowFrontier(n, OutSets(n, A), {s}, {s})
HasUnreachablePairBig(n, A) ==
  \/ GrowFrontier(n, OutSets(n, A), {1}, {1}) # 1..n
  \/ GrowFrontier(n, InSets(n, A), {1}, {1}) # 1..n
PairClass(fam, n, A) ==
  CASE fam = "tri"     -> IF n > BigN THEN TriangleClassBig(n, A) ELSE TriangleClass(n, A)
    [] fam = "path"    -> IF (IF n > BigN THEN HasUnreachablePairBig(n, A)
                                          ELSE HasUnreachablePair(n, A))
                          THEN "has_unreachable_pair"
                          ELSE "all_reachable"
    [] fam = "dirness" -> IF IsSym(n, A) THEN "symmetric" ELSE "asymmetric"
    [] OTHER -> "any"

(* ================================ C14 ======================================== *)
(* a community affiliation vector is a sequence of integer labels                *)
LabelSet(c) == {c[i] : i \in DOMAIN c}
(* exact, by co-membership                                                        *)
SamePartitionPairwise(c1, c2) ==
  /\ DOMAIN c1 = DOMAIN c2
  /\ \A i, j \in DOMAIN c1 : (c1[i] = c1[j]) <=> (c2[i] = c2[j])
(* the same relation without the n^2 node pairs, for the scale-regime records     *)
(* (130..400 nodes): label1 -> label2 is a well-defined injective map iff the set *)
(* of joint labels is as large as either label set.  MC_Relations proves it equal *)
(* to the pairwise definition on every pair of label vectors of the model         *)
(* (SamePartitionCharacterised, RelabelGivesSamePartition).                        *)
SamePartitionBySets(c1, c2) ==
  /\ DOMAIN c1 = DOMAIN c2
  /\ LET k == Cardinality({<<c1[i], c2[i]>> : i \in DOMAIN c1})
     IN  k = Cardinality({c1[i] : i \in DOMAIN c1}) /\ k = Cardinality({c2[i] : i \in DOMAIN c2})
SmallVector == 12
SamePartition(c1, c2) ==
  IF Cardinality(DOMAIN c1) <= SmallVector THEN SamePartitionPairwise(c1, c2)
  ELSE SamePartitionBySets(c1, c2)
BlocksOf(c) == {{i \in DOMAIN c : c[i] = l} : l \in LabelSet(c)}
NBlocks(c) == Cardinality(LabelSet(c))

(* the Relabel relation: c2 = rho o c1 for a renaming rho injective on the labels *)
InjectiveOn(rho, S) == \A a, b \in S : rho[a] = rho[b] => a = b
Relabel(c, rho) == [i \in DOMAIN c |-> rho[c[i]]]
IsRelabelling(c1, c2) ==
  /\ DOMAIN c1 = DOMAIN c2
  /\ \E rho \in [LabelSet(c1) -> LabelSet(c2)] :
        InjectiveOn(rho, LabelSet(c1)) /\ c2 = Relabel(c1, rho)

(* canonical representative: blocks numbered 1.. by first occurrence (a restricted *)
(* growth string); two vectors are the same partition iff their Canon coincide    *)
FirstIdx(c, i) == MinOf({j \in DOMAIN c : c[j] = c[i]})
Canon(c) == [i \in DOMAIN c |->
               Cardinality({FirstIdx(c, j) : j \in DOMAIN c} \cap (1..FirstIdx(c, i)))]
IsRGS(c) == \A i \in DOMAIN c :
              /\ c[i] >= 1
              /\ c[i] <= 1 + (IF i = 1 THEN 0 ELSE MaxOf({c[j] : j \in 1..(i - 1)}))

(* operator form of the code's canonicalisation on entry                          *)
(*   _, ci = np.unique(ci, return_inverse=True); ci += 1                          *)
(* (label -> 1 + rank among the sorted distinct labels)                           *)
UniqueInverse(c) == [i \in DOMAIN c |-> Cardinality({l \in LabelSet(c) : l <= c[i]})]
(* partition_distance: _, cxy = np.unique(cx + cy*1j, ...) - the joint labelling  *)
JointBlocks(cx, cy) ==
  {{i \in DOMAIN cx : cx[i] = cx[k] /\ cy[i] = cy[k]} : k \in DOMAIN cx}

(* "gives the same result for any renaming of the labels": numeric outputs as in *)
(* PairAgrees; partition-valued outputs equal up to renaming                      *)
RelabelInvariant(kind, out1, out2, pout1, pout2) ==
  /\ PairAgrees(kind, out1, out2)
  /\ Len(pout1) = Len(pout2)
  /\ \A k \in 1..Len(pout1) : SamePartition(pout1[k], pout2[k])
(* the harness claims cs2[k] is a renaming of cs1[k]; the spec re-checks it       *)
AreRelabellings(cs1, cs2) ==
  /\ Len(cs1) = Len(cs2) /\ Len(cs1) >= 1
  /\ \A k \in 1..Len(cs1) : SamePartition(cs1[k], cs2[k])

(* ---- partition_distance(cx, cy) -> (VIn, MIn), E-q6 --------------------------- *)
Q6One == 1000000
IsZero6(x) == IsFinite(x) /\ Abs(x) <= 2
IsOne6(x) == IsFinite(x) /\ Abs(x - Q6One) <= 2
(* "is symmetric in its arguments"                                                *)
PDSymmetric(vxy, mxy, vyx, myx) == NearQ(vxy, vyx, 2) /\ NearQ(mxy, myx, 2)
(* "returns zero variation of information ... exactly when the two partitions    *)
(*  coincide up to renaming"                                                      *)
VIZeroIffSame(cx, cy, vin) == IsZero6(vin) <=> SamePartition(cx, cy)
(* "... and unit mutual information exactly when ..."                             *)
MIOneIffSame(cx, cy, min) == IsOne6(min) <=> SamePartition(cx, cy)
(* "its normalised variation of information lies in [0,1]"                        *)
VInIn01(vin) == IsFinite(vin) /\ vin >= 0 /\ vin <= Q6One
PDClass(cx, cy) ==
  IF SamePartition(cx, cy)
  THEN (IF NBlocks(cx) = 1 THEN "same_single_block" ELSE "same")
  ELSE "different"

(* ---- ci2ls / ls2ci -------------------------------------------------------------- *)
(* ls = sequence of modules, a module = sequence of node ids (1-based here)        *)
ModulesOf(ls) == {SeqToSet(ls[k]) : k \in DOMAIN ls}
IsModuleList(n, ls) ==
  /\ \A k \in DOMAIN ls : ls[k] # <<>> /\ SeqToSet(ls[k]) \subseteq 1..n
                          /\ Cardinality(SeqToSet(ls[k])) = Len(ls[k])
  /\ \A k, m \in DOMAIN ls : k # m => SeqToSet(ls[k]) \cap SeqToSet(ls[m]) = {}
  /\ UNION ModulesOf(ls) = 1..n
(* "ci2ls and ls2ci are mutually inverse up to renaming":                          *)
(*   ci -> ls -> ci gives the same partition, the list holds exactly its blocks;   *)
(*   ls -> ci -> ls gives the same set of modules, ci has exactly these blocks     *)
Ci2lsLs2ciInverseUpToRenaming(n, ci, ls, back, lsin, ciofls, lsback) ==
  /\ Len(back) = n /\ SamePartition(ci, back)
  /\ ModulesOf(ls) = BlocksOf(ci)
  /\ Len(ciofls) = n /\ BlocksOf(ciofls) = ModulesOf(lsin)
  /\ ModulesOf(lsback) = ModulesOf(lsin)

(* ---- agreement(ci) : L0 value, used for drift only ------------------------------ *)
AgreementOf(n, cols) ==
  Mat(n, LAMBDA i, j : IF i = j THEN 0
                        ELSE Cardinality({k \in DOMAIN cols : cols[k][i] = cols[k][j]}))
PartitionClass(cs) ==
  IF \A k \in DOMAIN cs : NBlocks(cs[k]) = 1 THEN "single_block"
  ELSE IF \A k \in DOMAIN cs : NBlocks(cs[k]) = Len(cs[k]) THEN "all_singletons"
  ELSE "several_blocks"
=============================================================================
