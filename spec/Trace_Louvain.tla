---------------------------- MODULE Trace_Louvain ----------------------------
(* C02 / C07 code -> spec.  One record = one real call of a community-detection      *)
(* routine with its hook events ("move" after every node move, "level" after every     *)
(* aggregation).  TLC steps through the events, one state per event, keeping the       *)
(* hierarchy (cur: original node -> current-level node, lab: labels of the level).     *)
(*   property clauses  C07: every accepted move strictly raises the exact Q;            *)
(*                     C02: every level is a consistent (partition, q) pair;            *)
(*                     final: labels 1..k, q = Q(ci), Q(out) >= Q(start), hierarchy     *)
(*                     strictly increasing, feeding the output back never lowers Q.     *)
(*   drift            the event is the L2 step (labels change only at u, claimed gain    *)
(*                     = exact delta / 2, aggregation = Canon of the labels, scripted     *)
(*                     runs return the model's result).                                   *)
EXTENDS Modularity, TraceBase

VARIABLES tid, l, cur, lab, lvl, verdict, drift
tvars == <<tid, l, cur, lab, lvl, verdict, drift>>

IsSign(r) == r.kind \in {"sign", "prob"} \/ (r.kind = "cl" /\ r.objective \in {"negative_sym", "negative_asym"})
QType(r) == IF r.kind = "cl" THEN (IF r.objective = "negative_sym" THEN "gja" ELSE "sta") ELSE r.qtype
HasQ(r) == ~(r.kind = "cl" /\ r.objective \notin {"modularity", "negative_sym", "negative_asym"})

(* integer that orders partitions of this record's network by modularity              *)
QCmp(r, ci) == IF IsSign(r) THEN SignedNum(r.n, r.W, ci, r.gn, r.gd, QType(r))
               ELSE QNum(r.n, r.W, ci, r.gn, r.gd)
QObsOK(r, q, ci) == IF IsSign(r) THEN SignedQMatches(q, r.n, r.W, ci, r.gn, r.gd, QType(r))
                    ELSE QMatches(q, r.n, r.W, ci, r.gn, r.gd)
StartOf(r) == IF Len(r.start) = 0 THEN [i \in 1..r.n |-> i] ELSE r.start
OrigPart(r, c, lb) == [i \in 1..r.n |-> lb[c[i]]]

(* claimed gain (10^-6 fixed point) against the exact change: gain = dQ_exact * scale/2 *)
GainOK(r, g, before, after) ==
  IF IsSign(r)
  THEN LET p == SignedParts(r.n, r.W, before, r.gn, r.gd, QType(r))
           q == SignedParts(r.n, r.W, after, r.gn, r.gd, QType(r))
       IN Abs(g - (ToQ6(q.A0 - p.A0, 2 * p.D0) - ToQ6(q.A1 - p.A1, 2 * p.D1))) <= 4
  ELSE \* und / dir / community_louvain('modularity'): dq = dQNum / (2*gd*s)
       Abs(g - ToQ6(QNum(r.n, r.W, after, r.gn, r.gd) - QNum(r.n, r.W, before, r.gn, r.gd),
                    2 * r.gd * Total(r.n, r.W))) <= 4

(* ------------------------------ final clauses -------------------------------- *)
FinalC02(r) ==
  LET n == r.n IN
  IF r.kind = "given"     \* modularity_und/_dir/_und_sign with a given partition
  THEN Chk("Returns",      r.raised = "",
       Chk("WellFormed",   r.malformed = "",
       Chk("LenN",         Len(r.ci_out) = n,
       Chk("GivenPartitionKept", SamePartition(n, r.ci_out, r.start),
       Chk("GivenPartitionQ",
             IF r.qtype = "" THEN QMatches(r.q_out, n, r.W, r.start, r.gn, r.gd)
             ELSE SignedQMatches(r.q_out, n, r.W, r.start, r.gn, r.gd, r.qtype),
       "ok")))))
  ELSE
  (* community_louvain normalises by the net weight sum(W): "positive total weight" *)
  Skip("nonpositive_net_weight", r.kind = "cl" /\ Total(n, r.W) <= 0,
  Chk("Returns",           r.raised = "",
  Chk("WellFormed",        r.malformed = "",
  Chk("LenN",              Len(r.ci_out) = n,
  Chk("Labels1toK",        Labels1toK(n, r.ci_out),
  Chk("QEqualsDefinition", ~HasQ(r) \/ QObsOK(r, r.q_out, r.ci_out),
  Chk("HierarchyOneQPerLevel", Len(r.hier_q) = Len(r.hier_ci),
  Chk("EveryLevelConsistent",
        \A k \in 1..Len(r.hier_ci) :
            Labels1toK(n, r.hier_ci[k]) /\ QObsOK(r, r.hier_q[k], r.hier_ci[k]),
  "ok"))))))))

FinalC07(r) ==
  LET n == r.n IN
  Skip("nonpositive_net_weight", r.kind = "cl" /\ Total(n, r.W) <= 0,
  Chk("Returns",           r.raised = "",
  Chk("WellFormed",        r.malformed = "",
  Skip("objective_is_not_a_modularity", ~HasQ(r),
  Skip("random_moves_allowed", r.kind = "prob",
  (* C07 names the finetune / louvain / community_louvain optimisers; the spectral      *)
  (* modularity_und / modularity_dir make no such promise (they start from nothing)     *)
  Skip("not_a_listed_optimiser", r.fn \in {"modularity_und", "modularity_dir"},
  Chk("QFinalGEQStart",    QCmp(r, r.ci_out) >= QCmp(r, StartOf(r)),
  (* r.noisy = 1: some connections of the real call were perturbed by about 1e-9 (guard-boundary     *)
  (* inputs); exact comparisons on the integer matrix then decide strict inequalities only up to    *)
  (* equality - a nonzero exact difference is at least 1/(gd*s^2) >> 1e-9 and keeps its sign          *)
  Chk("HierarchyIncreasing",
        \A k \in 1..(Len(r.hier_ci) - 1) :
           IF r.noisy = 1 THEN QCmp(r, r.hier_ci[k]) <= QCmp(r, r.hier_ci[k + 1])
           ELSE QCmp(r, r.hier_ci[k]) < QCmp(r, r.hier_ci[k + 1]),
  Chk("FeedbackNotLower",  Len(r.fed_ci) = 0 \/ QCmp(r, r.fed_ci) >= QCmp(r, r.ci_out),
  "ok")))))))))

Final(r) == IF r.prop = "C02" THEN FinalC02(r) ELSE FinalC07(r)

NLevels(r) == Cardinality({e \in 1..Len(r.events) : r.events[e].ev = "level"})
Klass(r) ==
  IF r.malformed # "" THEN "any"
  ELSE IF r.raised # "" /\ NLevels(r) >= 1 THEN "raised_after_level_1"
  ELSE IF NLevels(r) >= 3 THEN "levels_3plus"
  ELSE IF NLevels(r) = 2 THEN "levels_2"
  ELSE IF r.kind = "cl" /\ ~IsSym(r.n, r.W) THEN "asymmetric_input"
  ELSE IF r.gn # r.gd THEN "gamma_not_one" ELSE "any"

(* ------------------------------ behaviour -------------------------------------- *)
TInit == /\ tid \in 1..Len(Recs)
         /\ l = 0
         /\ cur = [i \in 1..Recs[tid].n |-> i]
         /\ lab = Canon(Recs[tid].n, StartOf(Recs[tid]))
         /\ lvl = 0      \* number of "level" events consumed
         /\ verdict = <<>>
         /\ drift = "same"

Finish(r, clause, dr) ==
  /\ verdict' = <<clause, dr, Klass(r)>>
  /\ PrintT(VLine(tid, verdict'))

Live(r) == IF r.raised # "" THEN FALSE ELSE IF r.malformed # "" THEN FALSE
           ELSE IF r.kind = "given" THEN FALSE ELSE l < Len(r.events)

TMove ==
  LET r == Recs[tid] IN
  /\ verdict = <<>> /\ Live(r) /\ r.events[l + 1].ev = "move"
  /\ LET ev == r.events[l + 1]
         before == OrigPart(r, cur, lab)
         after == OrigPart(r, cur, ev.labels)
         shapeOK == Len(ev.labels) = Len(lab)
         d1 == IF ~shapeOK THEN "differs:label_vector_length"
               ELSE IF lab[ev.u] # ev.ma \/ ev.labels # [lab EXCEPT ![ev.u] = ev.mb]
                    THEN "differs:labels_change_elsewhere"
               ELSE IF HasQ(r) /\ ev.forced = 0 /\ ~GainOK(r, ev.gain, before, after)
                    THEN "differs:claimed_gain_is_not_the_exact_delta"
               ELSE "same"
         dr == IF drift # "same" THEN drift ELSE d1
         \* C07: a deterministic-gain move strictly raises Q
         cl == IF r.prop = "C07" /\ HasQ(r) /\ ev.forced = 0 /\ shapeOK
                  /\ ~(IF r.noisy = 1 THEN QCmp(r, after) >= QCmp(r, before)
                       ELSE QCmp(r, after) > QCmp(r, before))
               THEN (IF lvl = 0 THEN "MoveRaisesQ" ELSE "MoveRaisesQAtLaterLevel") ELSE "ok"
     IN /\ l' = l + 1
        /\ lab' = IF shapeOK THEN ev.labels ELSE lab
        /\ drift' = dr
        /\ UNCHANGED <<cur, lvl>>
        /\ IF cl = "ok" THEN UNCHANGED verdict ELSE Finish(r, cl, dr)
  /\ UNCHANGED tid

TLevel ==
  LET r == Recs[tid] IN
  /\ verdict = <<>> /\ Live(r) /\ r.events[l + 1].ev = "level"
  /\ LET ev == r.events[l + 1]
         n == r.n
         expected == OrigPart(r, cur, Canon(Len(lab), lab))
         ok1 == Labels1toK(n, ev.ci)
         d1 == IF ~ok1 THEN "differs:level_labels"
               ELSE IF ev.ci # expected THEN "differs:aggregation_is_not_the_relabelled_partition"
               ELSE "same"
         dr == IF drift # "same" THEN drift ELSE d1
         k == IF ok1 THEN Cardinality({ev.ci[i] : i \in 1..n}) ELSE 1
         \* C02: the level is a consistent pair
         cl == IF r.prop = "C02" /\ HasQ(r) /\ r.level_q_comparable = 1
                  /\ ~(ok1 /\ QObsOK(r, ev.q, ev.ci))
               THEN (IF lvl = 0 THEN "LevelQEqualsDefinition" ELSE "LaterLevelQEqualsDefinition") ELSE "ok"
     IN /\ l' = l + 1
        /\ cur' = IF ok1 THEN ev.ci ELSE cur
        /\ lab' = [i \in 1..k |-> i]
        /\ lvl' = lvl + 1
        /\ drift' = dr
        /\ IF cl = "ok" THEN UNCHANGED verdict ELSE Finish(r, cl, dr)
  /\ UNCHANGED tid

TFinal ==
  LET r == Recs[tid] IN
  /\ verdict = <<>> /\ ~Live(r)
  /\ LET dr == IF drift # "same" THEN drift
               ELSE IF r.raised # "" \/ r.malformed # "" \/ r.kind = "given" THEN "na"
               ELSE IF r.expect_qden > 0 /\
                       (r.expect_ci # r.ci_out \/ ~NearFrac(r.q_out, r.expect_qnum, r.expect_qden, 2))
                    THEN "differs:model_predicted_other_result"
               ELSE "same"
     IN Finish(r, Final(r), dr)
  /\ UNCHANGED <<tid, l, cur, lab, lvl, drift>>

TNext == TMove \/ TLevel \/ TFinal
TSpec == TInit /\ [][TNext]_tvars
=============================================================================
