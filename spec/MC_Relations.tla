---------------------------- MODULE MC_Relations ----------------------------
(* C10 / C14 spec-level lemmas.  There is no algorithm to refine here: TLC      *)
(* ENUMERATES the quantified space of the two relational properties (one state  *)
(* at stage 9 = one point of the space, reached by choosing one quantified      *)
(* variable per step) and the invariants are the lemmas the trace specification *)
(* relies on.  `mode` says which space a state belongs to:                      *)
(*  "relabel" every partition of NP nodes (restricted growth string c) x every   *)
(*            injective renaming rho of its blocks into Pool; d = rho o c         *)
(*  "pair"    every pair (c, d) of label vectors in [1..NQ -> PoolQ]             *)
(*  "triple"  every triple (c, d, e) of label vectors in [1..NT -> PoolT]        *)
(*  "dir01"   every 0/1 digraph A on NG nodes (empty diagonal)                   *)
(*  "symw"    every symmetric matrix A on NS nodes, weights 0..WMax              *)
EXTENDS Relations
CONSTANTS NP, NQ, NT, NG, NS, WMax, Pool, PoolQ, PoolT, Modes

PoolFull == {-3, 0, 1, 2, 7, 100}   \* contiguous, zero-based, gapped, negative, large
PoolSix  == PoolFull
PoolFour == {-3, 0, 1, 100}
PoolThree == {-3, 0, 7}

VARIABLES mode, stage, c, rho, d, e, A
vars == <<mode, stage, c, rho, d, e, A>>

RGS(n) == {x \in [1..n -> 1..n] : IsRGS(x)}
InjMaps(k, S) == {f \in [1..k -> S] : InjectiveOn(f, 1..k)}
Vecs(n, S) == [1..n -> S]
DPairs(n) == {p \in (1..n) \X (1..n) : p[1] # p[2]}
UPairs(n) == {p \in (1..n) \X (1..n) : p[1] < p[2]}
DirOf(n, E) == Mat(n, LAMBDA i, j : IF <<i, j>> \in E THEN 1 ELSE 0)
SymOf(n, w) == Mat(n, LAMBDA i, j : IF i < j THEN w[<<i, j>>] ELSE IF j < i THEN w[<<j, i>>] ELSE 0)
Half(n) == (n + 1) \div 2
FirstRows(S, n) == {p \in S : p[1] <= Half(n)}

(* the space is spanned in stages (one quantified variable per step) so that the   *)
(* TLC workers share the enumeration; a point is complete at stage 9               *)
Init == /\ mode \in Modes /\ stage = 0
        /\ c = <<>> /\ rho = <<>> /\ d = <<>> /\ e = <<>> /\ A = <<>>
Choose1 ==
  /\ stage = 0
  /\ \/ /\ mode = "relabel" /\ c' \in RGS(NP) /\ A' = A
     \/ /\ mode = "pair" /\ c' \in Vecs(NQ, PoolQ) /\ A' = A
     \/ /\ mode = "triple" /\ c' \in Vecs(NT, PoolT) /\ A' = A
     \/ /\ mode = "dir01" /\ A' \in SUBSET FirstRows(DPairs(NG), NG) /\ c' = c
     \/ /\ mode = "symw" /\ A' \in [FirstRows(UPairs(NS), NS) -> 0..WMax] /\ c' = c
  /\ stage' = 1 /\ UNCHANGED <<mode, rho, d, e>>
Choose2 ==
  /\ stage = 1
  /\ \/ /\ mode = "relabel" /\ rho' \in InjMaps(NBlocks(c), Pool) /\ d' = Relabel(c, rho')
        /\ stage' = 9 /\ A' = A
     \/ /\ mode = "pair" /\ d' \in Vecs(NQ, PoolQ) /\ stage' = 9 /\ UNCHANGED <<rho, A>>
     \/ /\ mode = "triple" /\ d' \in Vecs(NT, PoolT) /\ stage' = 2 /\ UNCHANGED <<rho, A>>
     \/ /\ mode = "dir01" /\ stage' = 9 /\ UNCHANGED <<rho, d>>
        /\ \E E2 \in SUBSET (DPairs(NG) \ FirstRows(DPairs(NG), NG)) : A' = DirOf(NG, A \cup E2)
     \/ /\ mode = "symw" /\ stage' = 9 /\ UNCHANGED <<rho, d>>
        /\ \E w2 \in [UPairs(NS) \ FirstRows(UPairs(NS), NS) -> 0..WMax] : A' = SymOf(NS, A @@ w2)
  /\ UNCHANGED <<mode, c, e>>
Choose3 ==
  /\ stage = 2 /\ mode = "triple" /\ e' \in Vecs(NT, PoolT) /\ stage' = 9
  /\ UNCHANGED <<mode, c, rho, d, A>>
Next == Choose1 \/ Choose2 \/ Choose3
Spec == Init /\ [][Next]_vars
At(m) == mode = m /\ stage = 9

(* ---- C14 lemmas ----------------------------------------------------------------- *)
(* every injective renaming of every partition gives SamePartition, and is found    *)
(* again by the Relabel relation; the canonical form undoes it                      *)
RelabelGivesSamePartition ==
  At("relabel") =>
                      /\ SamePartition(c, d) /\ SamePartition(d, c)
                      /\ SamePartitionPairwise(c, d) /\ SamePartitionBySets(c, d)
                      /\ SamePartitionBySets(d, c)
                      /\ IsRelabelling(c, d) /\ IsRelabelling(d, c)
                      /\ BlocksOf(c) = BlocksOf(d)
                      /\ IsRGS(c) /\ Canon(c) = c /\ Canon(d) = c
(* the code's np.unique canonicalisation is itself a renaming, onto 1..k, monotone  *)
UniqueInverseIsRelabelling ==
  At("relabel") =>
                      LET u == UniqueInverse(d) IN
                      /\ SamePartition(d, u) /\ LabelSet(u) = 1..NBlocks(c)
                      /\ \A i, j \in 1..NP : (d[i] < d[j]) <=> (u[i] < u[j])
                      /\ SamePartition(UniqueInverse(c), u)
(* SamePartition = equal canonical forms = Relabel relation = equal block sets;     *)
(* the joint labelling of partition_distance has as many blocks as each argument    *)
(* exactly when the two are the same partition (H(X,Y) = H(X) = H(Y))               *)
SamePartitionCharacterised ==
  At("pair") =>
                   LET s == SamePartition(c, d) IN
                   /\ s <=> (Canon(c) = Canon(d))
                   (* the set form used for long vectors is the pairwise definition    *)
                   /\ s <=> SamePartitionPairwise(c, d)
                   /\ s <=> SamePartitionBySets(c, d)
                   /\ s <=> SamePartitionBySets(d, c)
                   /\ s <=> IsRelabelling(c, d)
                   /\ s <=> (BlocksOf(c) = BlocksOf(d))
                   /\ s <=> SamePartition(d, c)
                   /\ s <=> (JointBlocks(c, d) = BlocksOf(c) /\ JointBlocks(c, d) = BlocksOf(d))
                   /\ JointBlocks(c, d) = JointBlocks(d, c)
SamePartitionIsEquivalence ==
  At("triple") =>
                     /\ SamePartition(c, c)
                     /\ SamePartition(c, d) => SamePartition(d, c)
                     /\ (SamePartition(c, d) /\ SamePartition(d, e)) => SamePartition(c, e)

(* ---- C10 lemmas on the BctBase L0 operators ------------------------------------- *)
(* on 0/1 input strength = degree (in, out, total) and binarising changes nothing   *)
StrengthIsDegreeOn01 ==
  At("dir01") =>
                    /\ InDom("01", NG, A, 1) /\ Bin(NG, A) = A
                    /\ \A i \in 1..NG : /\ OutStr(NG, A, i) = OutDeg(NG, A, i)
                                        /\ InStr(NG, A, i) = InDeg(NG, A, i)
                    /\ Total(NG, A) = Cardinality(Support(NG, A))
(* on symmetric input in-degree = out-degree (= the undirected degree), the same    *)
(* for strengths, and degrees ignore weights                                        *)
DirectedIsUndirectedOnSym ==
  At("symw") =>
                   /\ InDom("symw", NS, A, 1) /\ InDom("wund", NS, A, 1)
                   /\ \A i \in 1..NS : /\ InDeg(NS, A, i) = OutDeg(NS, A, i)
                                       /\ InStr(NS, A, i) = OutStr(NS, A, i)
                                       /\ OutDeg(NS, A, i) = TotDeg(NS, A, i)
                                       /\ OutDeg(NS, Bin(NS, A), i) = OutDeg(NS, A, i)
                                       /\ InDeg(NS, Bin(NS, A), i) = InDeg(NS, A, i)
                   /\ SecondInputOK("wund", NS, A, Bin(NS, A))
                   /\ IsSym(NS, Bin(NS, A))
                   /\ DegreeVarianceZero(NS, A) = DegreeVarianceZero(NS, Bin(NS, A))
                   /\ HasUnreachablePair(NS, A) = HasUnreachablePair(NS, Bin(NS, A))
                   /\ TriangleClass(NS, A) = TriangleClass(NS, Bin(NS, A))

(* the cheaper class predicates used for large records (n > BigN) are the same     *)
(* predicates: on every 0/1 digraph and every symmetric weighted matrix            *)
BigClassesCoincide ==
  /\ At("dir01") => /\ HasUnreachablePairBig(NG, A) = HasUnreachablePair(NG, A)
                    /\ TriangleClassBig(NG, A) = TriangleClass(NG, A)
                    /\ \A u \in 1..NG : ReachSetBig(NG, A, u) = ReachSet(NG, A, u)
  /\ At("symw")  => /\ HasUnreachablePairBig(NS, A) = HasUnreachablePair(NS, A)
                    /\ TriangleClassBig(NS, A) = TriangleClass(NS, A)
                    /\ \A u \in 1..NS : ReachSetBig(NS, A, u) = ReachSet(NS, A, u)

(* wide reals: (hi, lo) with hi = 0 is the plain E-q6 comparison; the carry cases  *)
(* agree with exact arithmetic on a grid of values around the 10^9 boundaries      *)
WideGrid == {<<h, l>> \in (-2..2) \X {-999999999, -999999998, -3, -1, 0, 1, 2, 3, 999999997, 999999999} :
               WideWellFormed(h, l)}
(* value / 10^9 split so that differences can be formed within 32 bits: compare    *)
(* v = h*10^9 + l through (h, l) lexicographically against an exact small offset   *)
WideExactNear(a, b, tol) ==
  \E dd \in -tol..tol :         \* a = b + dd, spelled on (hi, lo) with one carry/borrow
     LET l == b[2] + dd IN
     \/ (a[1] = b[1] /\ a[2] = l)
     \/ (a[1] = b[1] + 1 /\ a[2] = l - Giga)
     \/ (a[1] = b[1] - 1 /\ a[2] = l + Giga)
ASSUME \A a, b \in WideGrid :
         NearQWide(a[1], a[2], b[1], b[2], 2) = WideExactNear(a, b, 2)
ASSUME \A x, y \in {-5, 0, 1, 2, 3, 999999999, -999999999, INF, -INF, NAN} :
         NearQWide(0, x, 0, y, 2) = NearQ(x, y, 2)

(* ---- constant-level facts (evaluated once) --------------------------------------- *)
(* 52 partitions of 5 nodes (Bell numbers), and partitions x injective renamings    *)
(* into the pool = every label vector over the pool: nothing is left out            *)
Bell(n) == CASE n = 1 -> 1 [] n = 2 -> 2 [] n = 3 -> 5 [] n = 4 -> 15 [] n = 5 -> 52 [] n = 6 -> 203
ASSUME Cardinality(RGS(NP)) = Bell(NP)
ASSUME {Relabel(x, r) : <<x, r>> \in UNION {{<<x, r>> : r \in InjMaps(NBlocks(x), Pool)} : x \in RGS(NP)}}
         = Vecs(NP, Pool)
(* the table of C10 pairs has no two entries with the same key                      *)
ASSUME \A p, q \in C10Pairs : (p.fw = q.fw /\ p.fb = q.fb /\ p.dom = q.dom) => p = q
ASSUME Cardinality(PairsOn01) = 12 /\ Cardinality(PairsOnSym) = 5
         /\ Cardinality(PairsIgnoreWeights) = 10
=============================================================================
