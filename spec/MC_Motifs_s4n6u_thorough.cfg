SPECIFICATION Spec
CONSTANT N = 6
CONSTANT K = 4
CONSTANT Funct = FALSE
CONSTANT AsCoded = FALSE
CONSTANT Inputs = "und"
CONSTANT Lemmas = FALSE
INVARIANT LibInv
INVARIANT VisitInv
INVARIANT ProgressInv
INVARIANT OrderInv
INVARIANT PartialInv
INVARIANT FinalInv
INVARIANT LookupInv
INVARIANT SumInv
INVARIANT CrossInv
INVARIANT PermInv
CHECK_DEADLOCK FALSE
