-------------------------------- MODULE Cliques --------------------------------
(* X02 (extended coverage) - bct.algorithms.core.clique_communities(A, cq_thr). *)
(*                                                                              *)
(* L0  maximal cliques by subset enumeration; k-clique-percolation communities  *)
(*     as the code and the MATLAB original define them: the maximal cliques of  *)
(*     size >= k are the vertices of a "clique graph", two of them adjacent     *)
(*     iff they share >= k-1 nodes; a community is the union of the cliques of  *)
(*     one connected class of that graph.  Second, independent definition       *)
(*     (Palla et al.): classes of k-node cliques sharing k-1 nodes; MC proves   *)
(*     both give the same communities on every small graph.                     *)
(* L2  operator form of the code's pivoting Bron-Kerbosch recursion (BK) and of *)
(*     the community stage (threshold, overlap matrix, get_components =         *)
(*     Components!MergeAll, one row per component label); BKImpl.tla runs the   *)
(*     same steps as a machine with an explicit stack.                          *)
(* Numbers: node sets only, n <= 12 (SUBSET 1..n is enumerated).                *)
EXTENDS Components

(* ---- the code's preparation: binarize(A, copy=True); fill_diagonal(A, 0) ---- *)
Adj(n, A) == Mat(n, LAMBDA i, j : IF i # j /\ A[i][j] # 0 THEN 1 ELSE 0)
Nbrs(n, G, u) == {v \in 1..n : G[v][u] = 1}

(* =============================== L0 ========================================= *)
IsClique(G, S) == \A u, v \in S : u # v => G[u][v] = 1
IsMaxClique(n, G, S) == /\ S # {}
                        /\ IsClique(G, S)
                        /\ \A v \in (1..n) \ S : ~IsClique(G, S \cup {v})
MaxCliques(n, G) == {S \in SUBSET (1..n) : IsMaxClique(n, G, S)}
BigCliques(n, G, k) == {S \in MaxCliques(n, G) : Cardinality(S) >= k}

(* "keep percolating cliques": ov >= cq_thr - 1                                 *)
Percolates(C, D, k) == Cardinality(C \cap D) >= k - 1
RECURSIVE GrowClass(_, _, _)
GrowClass(Q, k, S) ==
  LET S2 == S \cup {D \in Q : \E C \in S : Percolates(C, D, k)}
  IN IF S2 = S THEN S ELSE GrowClass(Q, k, S2)
PercClasses(Q, k) == {GrowClass(Q, k, {C}) : C \in Q}
(* communities = node unions of the percolation classes (a bag: the code emits *)
(* one row per class, also if two classes should cover the same nodes)          *)
CommunitySets(n, G, k) == {UNION cl : cl \in PercClasses(BigCliques(n, G, k), k)}
CommunityMult(n, G, k, S) ==
  Cardinality({cl \in PercClasses(BigCliques(n, G, k), k) : UNION cl = S})
NumCommunities(n, G, k) == Cardinality(PercClasses(BigCliques(n, G, k), k))

(* independent definition: k-node cliques, adjacent iff they share k-1 nodes    *)
KCliques(n, G, k) == {S \in SUBSET (1..n) : Cardinality(S) = k /\ IsClique(G, S)}
CPMCommunitySets(n, G, k) == {UNION cl : cl \in PercClasses(KCliques(n, G, k), k)}

(* ---- clauses on an observed affiliation matrix M (rows = communities) ------- *)
RowSet(row) == {v \in DOMAIN row : row[v] # 0}
(* "MxN": every row has n entries                                               *)
ShapeMxN(n, M) == \A r \in DOMAIN M : DOMAIN M[r] = 1..n
(* "affiliation matrix": entries 0/1                                            *)
Rows01(M) == \A r \in DOMAIN M : \A v \in DOMAIN M[r] : M[r][v] \in {0, 1}
(* "communities = unions of percolating cliques, one row each"                  *)
CommunitiesArePercolationClasses(n, G, k, M) ==
  LET classes == PercClasses(BigCliques(n, G, k), k)         \* evaluated once per call
      unions == {UNION cl : cl \in classes}                   \* = CommunitySets(n, G, k)
  IN /\ Len(M) = Cardinality(classes)
     /\ {RowSet(M[r]) : r \in DOMAIN M} = unions
     /\ \A S \in unions :
           Cardinality({r \in DOMAIN M : RowSet(M[r]) = S}) = Cardinality({cl \in classes : UNION cl = S})
(* the list of cliques found by the recursion: every maximal clique once        *)
CliquesAreMaximalCliques(n, G, mq) ==
  /\ SeqToSet(mq) = MaxCliques(n, G)
  /\ Len(mq) = Cardinality(MaxCliques(n, G))

(* =============================== L2 ========================================= *)
AscNodes(S) == SetToSortSeq(S, LAMBDA a, b : a < b)          \* np.where order
(* U_p = where(any(P|X)); ix = argmax(A[:,U_p].T @ P); u_p = U_p[ix]:           *)
(* the lowest-numbered node of P u X with the most neighbours in P               *)
PivotOf(n, G, P, X) ==
  LET U == P \cup X
      score == [u \in U |-> Cardinality(Nbrs(n, G, u) \cap P)]
      best == MaxOf({score[u] : u \in U})
  IN MinOf({u \in U : score[u] = best})
(* U = where(P & ~A[:,u_p]) in ascending order                                   *)
CandSeq(n, G, P, X) == AscNodes(P \ Nbrs(n, G, PivotOf(n, G, P, X)))
(* the recursive call made for candidate u with the current P (u removed), X    *)
Callee(n, G, R, P1, X, u) ==
  [R |-> R \cup {u}, P |-> P1 \cap Nbrs(n, G, u), X |-> X \cap Nbrs(n, G, u)]

(* operator form of bk(R,P,X): the cliques appended to MQ and the log of calls  *)
RECURSIVE BK(_, _, _, _, _)
BK(n, G, R, P, X) ==
  LET here == <<[R |-> R, P |-> P, X |-> X]>> IN
  IF P \cup X = {} THEN [mq |-> <<R>>, calls |-> here]
  ELSE LET step(st, u) ==
             LET P1 == st.P \ {u}
                 c == Callee(n, G, R, P1, st.X, u)
                 sub == BK(n, G, c.R, c.P, c.X)
             IN [P |-> P1, X |-> st.X \cup {u},
                 mq |-> st.mq \o sub.mq, calls |-> st.calls \o sub.calls]
           fin == FoldLeft(step, [P |-> P, X |-> X, mq |-> <<>>, calls |-> here],
                           CandSeq(n, G, P, X))
       IN [mq |-> fin.mq, calls |-> fin.calls]
BKAll(n, G) == BK(n, G, {}, 1..n, {})

(* the community stage on the list of cliques, as the code runs it              *)
CommStage(mq, k) ==
  LET cq == SelectSeq(mq, LAMBDA C : Cardinality(C) >= k)
      m == Len(cq)
      OvThr == [i \in 1..m |-> [j \in 1..m |->
                  IF Cardinality(cq[i] \cap cq[j]) >= k - 1 THEN 1 ELSE 0]]
      sets == MergeAll(m, OvThr)
      comp == LabelsOf(m, sets)
  IN [c \in 1..Len(sets) |-> UNION {cq[i] : i \in {i \in 1..m : comp[i] = c}}]
RowOf(n, S) == [v \in 1..n |-> IF v \in S THEN 1 ELSE 0]
PredictedM(n, G, k) ==
  LET cs == CommStage(BKAll(n, G).mq, k) IN [c \in 1..Len(cs) |-> RowOf(n, cs[c])]

(* input classes used to tell findings apart                                    *)
CliqueClass(n, G, k) ==
  IF BigCliques(n, G, k) = {} THEN "no_clique_reaches_threshold"
  ELSE IF Cardinality(MaxCliques(n, G)) = 1 THEN "single_maximal_clique"
  ELSE "several_maximal_cliques"
=============================================================================
