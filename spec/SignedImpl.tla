-------------------------------- MODULE SignedImpl --------------------------------
(* C06.  L2 machine of randmio_und_signed / randmio_dir_signed and L1 machine of    *)
(* the null_model_*_sign pipeline (rewire the sign pattern, then deal the sorted     *)
(* positive / negative weights back onto the rewired supports in any order).         *)
(*   pc = "pick" --Attempt(a,b,c,d)--> "pick" | "deal" | "done"                       *)
(*   pc = "deal" --Deal(f)-->          "done"        (NullModel only)                 *)
(* The quadruple is the random draw (pick_four_unique_nodes_quickly), the dealing     *)
(* order f is the random part of the weight assignment.                               *)
EXTENDS Rewire, Json
CONSTANTS N, Dir, Iters, MaxAtt, Vals, NullModel, Gen,
          Frame   \* directed inputs: only these cells may be nonzero ({} = all off-diagonal cells)
VARIABLES R0, R, it, att, eff, pc, hist
vars == <<R0, R, it, att, eff, pc, hist>>

UPairs == {p \in (1..N) \X (1..N) : p[1] < p[2]}
DPairs == {p \in (1..N) \X (1..N) : p[1] # p[2]}
(* all signed matrices with off-diagonal entries from Vals (0 in Vals)                *)
UndInputs == {Mat(N, LAMBDA i, j : IF i = j THEN 0 ELSE IF i < j THEN f[<<i, j>>] ELSE f[<<j, i>>])
                 : f \in [UPairs -> Vals]}
DCells == IF Frame = {} THEN DPairs ELSE Frame
DirInputs == {Mat(N, LAMBDA i, j : IF <<i, j>> \in DCells THEN f[<<i, j>>] ELSE 0) : f \in [DCells -> Vals]}
HasBothSigns(M) == (\E c \in Support(N, M) : M[c[1]][c[2]] > 0) /\ (\E c \in Support(N, M) : M[c[1]][c[2]] < 0)

Init == /\ R0 \in {M \in (IF Dir THEN DirInputs ELSE UndInputs) : HasBothSigns(M)}
        /\ R = R0 /\ it = 0 /\ att = 0 /\ eff = 0 /\ hist = <<>>
        /\ pc = IF Iters = 0 THEN (IF NullModel THEN "deal" ELSE "done") ELSE "pick"

Quads == {t \in (1..N) \X (1..N) \X (1..N) \X (1..N) : Distinct4(t[1], t[2], t[3], t[4])}
EndIteration == /\ it' = it + 1 /\ att' = 0
                /\ pc' = IF it + 1 >= Iters THEN (IF NullModel THEN "deal" ELSE "done") ELSE "pick"
Attempt(t) ==
  LET a == t[1]  b == t[2]  c == t[3]  d == t[4] IN
  /\ pc = "pick"
  /\ hist' = IF Gen THEN Append(hist, <<"q", a, b, c, d>>) ELSE hist
  /\ UNCHANGED R0
  /\ IF CanSwapSigned(R, a, b, c, d)
     THEN /\ R' = IF Dir THEN SwapSignedDir(N, R, a, b, c, d) ELSE SwapSignedUnd(N, R, a, b, c, d)
          /\ eff' = eff + 1
          /\ EndIteration
     ELSE /\ UNCHANGED <<R, eff>>
          /\ IF att + 1 > MaxAtt THEN EndIteration
             ELSE att' = att + 1 /\ pc' = "pick" /\ UNCHANGED it

(* dealing: the sorted positive (negative) weights of the INPUT are placed on the      *)
(* positive (negative) cells of the rewired pattern, by any bijection                  *)
CellsOf(M, s) == {c \in (IF Dir THEN DPairs ELSE UPairs) : Sgn(M[c[1]][c[2]]) = s}
Bij(S, T) == {f \in [S -> T] : \A x, y \in S : f[x] = f[y] => x = y}
Deal(fp, fn) ==
  /\ pc = "deal"
  /\ R' = Mat(N, LAMBDA i, j :
              LET c == IF Dir \/ i < j THEN <<i, j>> ELSE <<j, i>> IN
              IF c \in DOMAIN fp THEN R0[fp[c][1]][fp[c][2]]
              ELSE IF c \in DOMAIN fn THEN R0[fn[c][1]][fn[c][2]] ELSE 0)
  /\ pc' = "done"
  /\ UNCHANGED <<R0, it, att, eff, hist>>

Emit == /\ Gen /\ pc = "done"
        /\ PrintT("G|" \o ToJson([R0 |-> R0, script |-> hist, R |-> R, eff |-> eff, iters |-> Iters]))
        /\ pc' = "emitted"
        /\ UNCHANGED <<R0, R, it, att, eff, hist>>

Next == \/ (pc = "pick" /\ \E t \in Quads : Attempt(t))
        \* the guard comes first: TLC would otherwise enumerate the bijections in every state
        \/ (pc = "deal" /\ \E fp \in Bij(CellsOf(R, 1), CellsOf(R0, 1)) :
                             \E fn \in Bij(CellsOf(R, -1), CellsOf(R0, -1)) : Deal(fp, fn))
        \/ Emit
Spec == Init /\ [][Next]_vars

SignedDegInv == SameSignedDegrees(N, R0, R)
PosBagInv == SignBag(N, R, 1) = SignBag(N, R0, 1)
NegBagInv == SignBag(N, R, -1) = SignBag(N, R0, -1)
DiagInv == DiagZero(N, R)
SymInv == Dir \/ IsSym(N, R)
EffCounts == [][pc = "pick" => (eff' = eff <=> R' = R)]_vars
(* while rewiring, values travel with the swap: out-strength per sign of each source   *)
(* row is kept in the directed routine                                                 *)
=============================================================================
