SPECIFICATION Spec
CONSTANT NN = 4
CONSTANT Kind = "dir"
CONSTANT LoopNodes = {}
CONSTANT Checks = {"prob"}
INVARIANT BfsInv
INVARIANT ReachInv
INVARIANT ProbInv
INVARIANT MatchInv
CHECK_DEADLOCK FALSE
