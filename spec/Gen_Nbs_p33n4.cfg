SPECIFICATION Spec
CONSTANT N = 4
CONSTANT NX = 3
CONSTANT NY = 3
CONSTANT Vals = {0, 1, 2}
CONSTANT VarSet = {1, 2, 6}
CONSTANT BG = 1
CONSTANT TNs = {8, 12, 20}
CONSTANT TD = 8
CONSTANT TailSet = {"left", "right", "both"}
CONSTANT Paired = TRUE
CONSTANT K = 2
CONSTANT KeepDraws = TRUE
CONSTANT Gen = TRUE
INVARIANT TypeOK
CHECK_DEADLOCK FALSE
