-------------------------------- MODULE Trace_Session --------------------------------
(* Call-sequence probe "retain" (harness/session.py).  One record = one job of a pool     *)
(* worker during which an array RETURNED by a public bct call of the PREVIOUS job of that  *)
(* worker changed (the driver had finished with it and holds no reference; the only code    *)
(* that ran in between is the library).  What a routine returns belongs to the caller:      *)
(* every listed property speaks about "the network / vector returned", which is void if a   *)
(* later call may rewrite it.                                                               *)
(*   r.flags : sequence of [kind, of, modified, earlier_job]                                *)
EXTENDS TraceBase

(* kind "option_array_modified": a scalar option handed over as a 0-d array (probe "zerod") no      *)
(* longer holds its value after the call - "every array passed to it is identical ..." (C13), and   *)
(* the caller's next call with that object asks for something else than the caller set.             *)
Judge(r) ==
  <<Chk("EarlierResultsIntact",
        \A k \in 1..Len(r.flags) : r.flags[k].kind = "earlier_result_modified" => r.flags[k].modified = 0,
    Chk("OptionArraysIntact",
        \A k \in 1..Len(r.flags) : r.flags[k].kind = "option_array_modified" => r.flags[k].modified = 0,
    "ok")),
    "na", "result_of_" \o (IF Len(r.flags) > 0 THEN r.flags[1].of ELSE "none")>>

VARIABLES tid, verdict
TInit == tid \in 1..Len(Recs) /\ verdict = <<>>
TNext == /\ verdict = <<>>
         /\ verdict' = Judge(Recs[tid])
         /\ PrintT(VLine(tid, verdict'))
         /\ UNCHANGED tid
TSpec == TInit /\ [][TNext]_<<tid, verdict>>
=============================================================================
