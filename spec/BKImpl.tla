-------------------------------- MODULE BKImpl --------------------------------
(* X02, L2: the pivoting Bron-Kerbosch recursion `bk(R, P, X, nrec)` inside     *)
(* clique_communities as a machine with an explicit call stack, over every      *)
(* undirected graph on N nodes.  One action per call / loop body / return:      *)
(*   Leaf     a call with P = X = {} : MQ.append(R), return                     *)
(*   Expand   a call with P u X # {} : choose the pivot, U = where(P & ~A[:,u_p]) *)
(*   Recurse  loop body up to the recursive call: P[u] = 0, build Rnew/Pnew/Xnew *)
(*   Return   the loop is exhausted: pop; the caller executes X[u] = 1           *)
(* (Leaf pops in the same way).  Frames hold the code's local arrays as sets.    *)
EXTENDS Cliques
CONSTANT N
VARIABLES G, stack, mq, calls
vars == <<G, stack, mq, calls>>

UPairs == {p \in (1..N) \X (1..N) : p[1] < p[2]}
UndOf(E) == Mat(N, LAMBDA i, j : IF <<i, j>> \in E \/ <<j, i>> \in E THEN 1 ELSE 0)
SymMatrices01 == {UndOf(E) : E \in SUBSET UPairs}

Frame(R, P, X) == [R |-> R, P |-> P, X |-> X, U |-> <<>>, idx |-> 0, pc |-> "enter"]
Depth == Len(stack)
Top == stack[Depth]
Arg(f) == [R |-> f.R, P |-> f.P, X |-> f.X]

Init == /\ G \in SymMatrices01
        /\ stack = <<Frame({}, 1..N, {})>>        \* bk(R, P, X, 0)
        /\ mq = <<>>
        /\ calls = <<>>

(* pop the finished frame; the caller resumes after its recursive call: X[u] = 1 *)
Popped ==
  IF Depth = 1 THEN <<>>
  ELSE LET c == stack[Depth - 1] IN
       [SubSeq(stack, 1, Depth - 1) EXCEPT ![Depth - 1] =
           [c EXCEPT !.X = c.X \cup {c.U[c.idx]}, !.idx = c.idx + 1]]

Leaf == /\ Depth >= 1 /\ Top.pc = "enter" /\ Top.P \cup Top.X = {}
        /\ mq' = Append(mq, Top.R)
        /\ calls' = Append(calls, Arg(Top))
        /\ stack' = Popped
        /\ UNCHANGED G
Expand == /\ Depth >= 1 /\ Top.pc = "enter" /\ Top.P \cup Top.X # {}
          /\ stack' = [stack EXCEPT ![Depth] =
                         [Top EXCEPT !.U = CandSeq(N, G, Top.P, Top.X), !.idx = 1, !.pc = "loop"]]
          /\ calls' = Append(calls, Arg(Top))
          /\ UNCHANGED <<G, mq>>
Recurse == /\ Depth >= 1 /\ Top.pc = "loop" /\ Top.idx <= Len(Top.U)
           /\ LET u == Top.U[Top.idx]
                  P1 == Top.P \ {u}
                  c == Callee(N, G, Top.R, P1, Top.X, u)
              IN stack' = Append([stack EXCEPT ![Depth] = [Top EXCEPT !.P = P1]],
                                 Frame(c.R, c.P, c.X))
           /\ UNCHANGED <<G, mq, calls>>
Return == /\ Depth >= 1 /\ Top.pc = "loop" /\ Top.idx > Len(Top.U)
          /\ stack' = Popped
          /\ UNCHANGED <<G, mq, calls>>
Next == Leaf \/ Expand \/ Recurse \/ Return
Spec == Init /\ [][Next]_vars

Done == stack = <<>>
CommonNbrs(R) == {v \in 1..N : \A r \in R : v # r /\ G[v][r] = 1}
Found == SeqToSet(mq)

(* ---- invariants -------------------------------------------------------------- *)
(* every frame: R is a clique, P and X are disjoint and together are exactly the *)
(* common neighbours of R (so P = X = {} iff R is maximal); frames nest          *)
FrameInv ==
  \A d \in 1..Depth : LET f == stack[d] IN
     /\ IsClique(G, f.R)
     /\ f.P \cap f.X = {}
     /\ IF d < Depth /\ f.pc = "loop" /\ f.idx <= Len(f.U)
          \* suspended in a call for u = U[idx]: u has left P and is not yet in X
        THEN f.P \cup f.X \cup {f.U[f.idx]} = CommonNbrs(f.R)
        ELSE f.P \cup f.X = CommonNbrs(f.R)
     /\ d < Depth => stack[d + 1].R = f.R \cup {f.U[f.idx]}
     /\ Cardinality(f.R) = d - 1
(* whatever has been reported is a maximal clique, and nothing is reported twice *)
ReportedInv == /\ \A i \in DOMAIN mq : IsMaxClique(N, G, mq[i])
               /\ Len(mq) = Cardinality(Found)
(* a node enters X only after every maximal clique through R u {x} is reported  *)
ProcessedInv ==
  \A d \in 1..Depth : \A x \in stack[d].X :
     \A C \in MaxCliques(N, G) : (stack[d].R \cup {x}) \subseteq C => C \in Found
(* the still-unreported maximal cliques above a frame lie in R u P (completeness) *)
PendingInv ==
  Depth >= 1 =>
     \A C \in MaxCliques(N, G) \ Found :
        \E d \in 1..Depth : LET f == stack[d] IN
           /\ f.R \subseteq C
           /\ C \subseteq f.R \cup f.P \cup
                 (IF d < Depth /\ f.pc = "loop" /\ f.idx <= Len(f.U) THEN {f.U[f.idx]} ELSE {})
(* when the loop of a call is exhausted, every maximal clique that extends R without *)
(* touching a node that was already excluded on entry has been reported (this is     *)
(* where the pivot rule must not have skipped a needed candidate)                    *)
LoopEndInv ==
  \A d \in 1..Depth : LET f == stack[d] IN
     f.pc = "loop" /\ f.idx > Len(f.U) =>
        \A C \in MaxCliques(N, G) :
           f.R \subseteq C /\ C \cap (f.X \ SeqToSet(f.U)) = {} => C \in Found
(* candidates are visited in ascending node order (np.where)                      *)
CandOrderInv ==
  \A d \in 1..Depth : LET f == stack[d] IN
     f.pc = "loop" => \A i \in 1..Len(f.U) : i + 1 <= Len(f.U) => f.U[i] < f.U[i + 1]
(* refinement: the finished machine has found exactly the maximal cliques, in    *)
(* the order of the operator form, and the community stage run on its list gives *)
(* the percolation communities for every threshold                               *)
FinalInv ==
  Done => /\ CliquesAreMaximalCliques(N, G, mq)
          /\ mq = BKAll(N, G).mq
          /\ calls = BKAll(N, G).calls
          /\ \A k \in 1..(N + 1) :
                LET M == PredictedM(N, G, k) IN
                  /\ ShapeMxN(N, M) /\ Rows01(M)
                  /\ CommunitiesArePercolationClasses(N, G, k, M)
(* L0 cross-check: unions of percolating maximal cliques = unions of adjacent    *)
(* k-node cliques (clique percolation as published), for every k                  *)
OracleInv ==
  Depth = 1 /\ Top.pc = "enter" =>
     \A k \in 1..(N + 1) : CommunitySets(N, G, k) = CPMCommunitySets(N, G, k)
(* distinct percolation classes cover distinct node sets on these sizes           *)
DistinctInv ==
  Depth = 1 /\ Top.pc = "enter" =>
     \A k \in 1..(N + 1) : \A S \in CommunitySets(N, G, k) : CommunityMult(N, G, k, S) = 1
=============================================================================
