SPECIFICATION Spec
CONSTANT N = 5
CONSTANT Kind = "und"
CHECK_DEADLOCK FALSE
