---- MODULE MC_Nbs ----
EXTENDS NbsImpl
ASSUME Paired => NX = NY
ASSUME NX >= 2 /\ NY >= 2 /\ VarSet \subseteq 1..NEdges(N)
====
