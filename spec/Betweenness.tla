-------------------------------- MODULE Betweenness --------------------------------
(* C08.  L0: betweenness from shortest-path counts.                              *)
(* Input: a connection-LENGTH matrix A (A[i][j] > 0 = length of i->j, 0 = no     *)
(* connection, diagonal ignored); a binary graph is the case "all lengths 1".    *)
(*   Sigma(s,t)          number of minimum-length paths s ~> t                   *)
(*   SigmaVia(s,t,v)     ... of those that have v as an interior node            *)
(*   SigmaViaEdge(s,t,u,v) ... that traverse the connection u->v                 *)
(*   BC(v)    = SUM_{s#t, s#v#t, t reachable} SigmaVia(s,t,v)/Sigma(s,t)         *)
(*   EBC(u,v) = SUM_{s#t, t reachable}        SigmaViaEdge(s,t,u,v)/Sigma(s,t)   *)
(* Two independent definitions of the counts:                                    *)
(*   (E) explicit enumeration of all simple paths, keeping the minimum-length    *)
(*       ones (the definition proper; exponential, used for n <= 5);             *)
(*   (D) Floyd-Warshall distances + counting over predecessors taken in order    *)
(*       of distance, SigmaVia = sigma(s,v)*sigma(v,t) when d(s,v)+d(v,t)=d(s,t) *)
(*       (polynomial; used on recorded executions with n <= 10).                 *)
(* The MC_Brandes models prove (E) = (D) on every small input (OracleInv).                 *)
(* Integers: lengths <= 3, n <= 10: distances <= 27, sigma <= 256; every         *)
(* product below stays < 2^31 (a common denominator is only formed below CAP).   *)
EXTENDS BctRational, SequencesExt

Edge(A, i, j) == i # j /\ A[i][j] > 0
(* (BctBase!Force: TLC keeps a LET-bound function constructor lazy and would      *)
(* re-evaluate its body at every application; forced tables are looked up.)        *)
Nodes(n) == 1..n
PairsST(n) == {p \in (1..n) \X (1..n) : p[1] # p[2]}
IdSeq(n) == [k \in 1..n |-> k]
(* increasing sequence of the members of a set of nodes (= np.where order)       *)
Ascending(n, S) == SelectSeq(IdSeq(n), LAMBDA k : k \in S)

(* ---------------- (E) explicit enumeration ----------------------------------- *)
(* all simple paths that begin with the node sequence p (p itself included)        *)
RECURSIVE PathsFrom(_, _, _)
PathsFrom(n, A, p) ==
  {p} \cup UNION {PathsFrom(n, A, Append(p, k)) :
                    k \in {k \in 1..n : Edge(A, p[Len(p)], k) /\ \A i \in 1..Len(p) : p[i] # k}}
PathLen(A, p) == FoldLeft(LAMBDA acc, i : acc + A[p[i]][p[i + 1]], 0, IdSeq(Len(p) - 1))

(* table T[s][t] = the set of minimum-length paths from s to t ({} if none);      *)
(* lengths are positive, so a minimum-length path is simple                        *)
MinPathsTo(A, all, t) ==
  LET to == {p \in all : p[Len(p)] = t} IN
  IF to = {} THEN {}
  ELSE LET lens == [p \in to |-> PathLen(A, p)]
           m == MinOf({lens[p] : p \in to})
       IN {p \in to : lens[p] = m}
MinPathTable(n, A) ==
  Force([s \in 1..n |-> LET all == PathsFrom(n, A, <<s>>) IN [t \in 1..n |-> MinPathsTo(A, all, t)]])

DistE(A, T, s, t) == IF T[s][t] = {} THEN INF ELSE PathLen(A, CHOOSE p \in T[s][t] : TRUE)
SigmaE(T, s, t) == Cardinality(T[s][t])
SigmaViaE(T, s, t, v) ==
  Cardinality({p \in T[s][t] : \E i \in 2..(Len(p) - 1) : p[i] = v})
SigmaViaEdgeE(T, s, t, u, v) ==
  Cardinality({p \in T[s][t] : \E i \in 1..(Len(p) - 1) : p[i] = u /\ p[i + 1] = v})

(* ---------------- (D) distances + predecessor counting ----------------------- *)
DistM(n, A) ==
  LET D0 == Mat(n, LAMBDA i, j : IF i = j THEN 0 ELSE IF A[i][j] > 0 THEN A[i][j] ELSE INF)
      step(D, k) == Mat(n, LAMBDA i, j :
                      IF D[i][k] < INF /\ D[k][j] < INF /\ D[i][k] + D[k][j] < D[i][j]
                      THEN D[i][k] + D[k][j] ELSE D[i][j])
  IN FoldLeft(step, D0, IdSeq(n))

(* sigma(s, .) : nodes taken in order of distance from s; a node's count is the  *)
(* sum over its predecessors u (d(s,u) + len(u,t) = d(s,t)), all of them earlier *)
SigRow(n, A, D, s) ==
  LET order == SortSeq(IdSeq(n), LAMBDA a, b : D[s][a] < D[s][b])
      step(sig, t) ==
        IF t = s THEN [sig EXCEPT ![t] = 1]
        ELSE IF D[s][t] >= INF THEN sig
        ELSE [sig EXCEPT ![t] =
                Sum({u \in 1..n : Edge(A, u, t) /\ D[s][u] < INF /\ D[s][u] + A[u][t] = D[s][t]},
                    LAMBDA u : sig[u])]
  IN FoldLeft(step, [k \in 1..n |-> 0], order)

(* C = the pair of tables everything else is computed from; Sg[s][t] = 0 iff     *)
(* t is unreachable from s                                                        *)
Counts(n, A) == LET D == DistM(n, A) IN [D |-> D, Sg |-> Force([s \in 1..n |-> SigRow(n, A, D, s)])]
Reach(C, s, t) == C.D[s][t] < INF
SigmaD(C, s, t) == C.Sg[s][t]
SigmaViaD(C, s, t, v) ==
  IF v # s /\ v # t /\ Reach(C, s, v) /\ Reach(C, v, t) /\ C.D[s][v] + C.D[v][t] = C.D[s][t]
  THEN C.Sg[s][v] * C.Sg[v][t] ELSE 0
SigmaViaEdgeD(A, C, s, t, u, v) ==
  IF Edge(A, u, v) /\ Reach(C, s, u) /\ Reach(C, v, t) /\ C.D[s][u] + A[u][v] + C.D[v][t] = C.D[s][t]
  THEN C.Sg[s][u] * C.Sg[v][t] ELSE 0

(* ---------------- betweenness as exact fractions ----------------------------- *)
(* generic in the counting functions: sig(s,t) = 0 for unreachable t             *)
CAP == 1000000
LcmCap(a, b) ==
  LET hi == IF a > b THEN a ELSE b   lo == IF a > b THEN b ELSE a IN
  IF hi >= CAP \/ lo >= 2000 THEN CAP
  ELSE LET l == Lcm(a, b) IN IF l >= CAP THEN CAP ELSE l
(* common denominator = lcm of all sigma(s,t) > 1, saturating at CAP             *)
CommonDen(n, sig(_, _)) ==
  FoldSet(LcmCap, 1, {sig(p[1], p[2]) : p \in PairsST(n)} \ {0})
NodeNum(n, sig(_, _), via(_, _, _), den, v) ==
  Sum({p \in PairsST(n) : p[1] # v /\ p[2] # v /\ sig(p[1], p[2]) > 0},
      LAMBDA p : via(p[1], p[2], v) * (den \div sig(p[1], p[2])))
EdgeNum(n, sig(_, _), viaE(_, _, _, _), den, u, v) ==
  Sum({p \in PairsST(n) : sig(p[1], p[2]) > 0},
      LAMBDA p : viaE(p[1], p[2], u, v) * (den \div sig(p[1], p[2])))

(* BC(v) = node[v]/den, EBC(u,v) = edge[u][v]/den                                *)
BetwE(n, A) ==
  LET T == MinPathTable(n, A)
      sig(s, t) == SigmaE(T, s, t)
      den == CommonDen(n, sig)
  IN [den |-> den,
      node |-> Force([v \in 1..n |-> NodeNum(n, sig, LAMBDA s, t, w : SigmaViaE(T, s, t, w), den, v)]),
      edge |-> Mat(n, LAMBDA u, v : IF ~Edge(A, u, v) THEN 0 ELSE
                 EdgeNum(n, sig, LAMBDA s, t, a, b : SigmaViaEdgeE(T, s, t, a, b), den, u, v))]
BetwD(n, A) ==
  LET C == Counts(n, A)
      sig(s, t) == SigmaD(C, s, t)
      den == CommonDen(n, sig)
  IN [den |-> den,
      node |-> Force([v \in 1..n |-> NodeNum(n, sig, LAMBDA s, t, w : SigmaViaD(C, s, t, w), den, v)]),
      edge |-> Mat(n, LAMBDA u, v : IF ~Edge(A, u, v) THEN 0 ELSE
                 EdgeNum(n, sig, LAMBDA s, t, a, b : SigmaViaEdgeD(A, C, s, t, a, b), den, u, v))]

(* dependency of source s on node v / on connection (a,b): the per-source share  *)
(* that Brandes' back-propagation accumulates (exact, by enumeration)            *)
DepNodeE(n, T, den, s, v) ==
  Sum({t \in 1..n : t # s /\ t # v /\ v # s /\ T[s][t] # {}},
      LAMBDA t : SigmaViaE(T, s, t, v) * (den \div SigmaE(T, s, t)))
DepEdgeE(n, T, den, s, a, b) ==
  Sum({t \in 1..n : t # s /\ T[s][t] # {}},
      LAMBDA t : SigmaViaEdgeE(T, s, t, a, b) * (den \div SigmaE(T, s, t)))

(* (E) = (D): distances, counts, via-counts, and therefore the fractions          *)
OracleAgree(n, A) ==
  LET T == MinPathTable(n, A)   C == Counts(n, A) IN
  /\ \A s, t \in 1..n : s # t =>
       /\ DistE(A, T, s, t) = C.D[s][t]
       /\ SigmaE(T, s, t) = SigmaD(C, s, t)
       /\ \A v \in 1..n : v # s /\ v # t => SigmaViaE(T, s, t, v) = SigmaViaD(C, s, t, v)
       /\ \A u, v \in 1..n : SigmaViaEdgeE(T, s, t, u, v) = SigmaViaEdgeD(A, C, s, t, u, v)
  /\ BetwE(n, A) = BetwD(n, A)

(* sum identities on binary graphs (every length 1): each shortest path of       *)
(* length d has d-1 interior nodes and d connections                              *)
IsBinary(n, A) == \A i, j \in 1..n : A[i][j] \in {0, 1}
TotalDist(n, C) == Sum({p \in PairsST(n) : Reach(C, p[1], p[2])}, LAMBDA p : C.D[p[1]][p[2]])
TotalDistMinus1(n, C) ==
  Sum({p \in PairsST(n) : Reach(C, p[1], p[2])}, LAMBDA p : C.D[p[1]][p[2]] - 1)
SumIdentitiesL0(n, A) ==
  LET B == BetwE(n, A)   C == Counts(n, A) IN
  /\ Sum(1..n, LAMBDA v : B.node[v]) = B.den * TotalDistMinus1(n, C)
  /\ Sum(PairsST(n) \cup {<<i, i>> : i \in 1..n}, LAMBDA p : B.edge[p[1]][p[2]]) = B.den * TotalDist(n, C)

(* ---------------- observed 10^-6 fixed-point values vs exact ----------------- *)
(* below CAP the fraction num/den is compared as a whole (tolerance 2); above,   *)
(* term by term: every non-integer term loses < 1 unit in the floor of ToQ6       *)
NodeNear(n, C, den, obs, v) ==
  LET sig(s, t) == SigmaD(C, s, t)
      via(s, t, w) == SigmaViaD(C, s, t, w)
      ps == {p \in PairsST(n) : p[1] # v /\ p[2] # v /\ via(p[1], p[2], v) > 0}
  IN IF den < CAP THEN NearFrac(obs, NodeNum(n, sig, via, den, v), den, 2)
     ELSE /\ IsFinite(obs)
          /\ Abs(obs - Sum(ps, LAMBDA p : ToQ6(via(p[1], p[2], v), sig(p[1], p[2]))))
               <= Cardinality({p \in ps : via(p[1], p[2], v) < sig(p[1], p[2])}) + 1
EdgeNear(n, A, C, den, obs, u, v) ==
  LET sig(s, t) == SigmaD(C, s, t)
      viaE(s, t, a, b) == SigmaViaEdgeD(A, C, s, t, a, b)
      ps == {p \in PairsST(n) : viaE(p[1], p[2], u, v) > 0}
  IN IF ~Edge(A, u, v) THEN obs = 0
     ELSE IF den < CAP THEN NearFrac(obs, EdgeNum(n, sig, viaE, den, u, v), den, 2)
     ELSE /\ IsFinite(obs)
          /\ Abs(obs - Sum(ps, LAMBDA p : ToQ6(viaE(p[1], p[2], u, v), sig(p[1], p[2]))))
               <= Cardinality({p \in ps : viaE(p[1], p[2], u, v) < sig(p[1], p[2])}) + 1
=============================================================================
