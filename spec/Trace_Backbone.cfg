SPECIFICATION TSpec
CHECK_DEADLOCK FALSE
