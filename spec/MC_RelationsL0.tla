---------------------------- MODULE MC_RelationsL0 ----------------------------
(* C10 reduction lemmas on the L0 DEFINITIONS that the other topic modules give  *)
(* (Clustering.tla: triangle definitions by enumeration of node triples;         *)
(* Distance.tla: min-plus least fixpoint).  TLC enumerates                       *)
(*  "dir01" every 0/1 digraph A on NG nodes,                                     *)
(*  "symw"  every symmetric matrix on NS nodes with entries 0..WMax, read as     *)
(*          cube-root numerators over the denominator WMax (Clustering's         *)
(*          encoding: weight = (A[i][j]/WMax)^3),                                *)
(* and proves that the weighted definition equals the binary one on 0/1 input    *)
(* and the directed one equals the undirected one on symmetric input, as exact   *)
(* fractions (0/0 = undefined included).  Betweenness.tla defines betweenness    *)
(* for a length matrix and calls a binary graph "all lengths 1": its weighted    *)
(* and binary definitions coincide on 0/1 input by construction, no lemma.       *)
EXTENDS Relations
CONSTANTS NG, NS, WMax, Modes
Cl == INSTANCE Clustering
Di == INSTANCE Distance

VARIABLES mode, stage, A
vars == <<mode, stage, A>>
DPairs(n) == {p \in (1..n) \X (1..n) : p[1] # p[2]}
UPairs(n) == {p \in (1..n) \X (1..n) : p[1] < p[2]}
DirOf(n, E) == Mat(n, LAMBDA i, j : IF <<i, j>> \in E THEN 1 ELSE 0)
SymOf(n, w) == Mat(n, LAMBDA i, j : IF i < j THEN w[<<i, j>>] ELSE IF j < i THEN w[<<j, i>>] ELSE 0)
Half(n) == (n + 1) \div 2
FirstRows(S, n) == {p \in S : p[1] <= Half(n)}

Init == mode \in Modes /\ stage = 0 /\ A = <<>>
Choose1 ==
  /\ stage = 0 /\ stage' = 1 /\ UNCHANGED mode
  /\ \/ mode = "dir01" /\ A' \in SUBSET FirstRows(DPairs(NG), NG)
     \/ mode = "symw" /\ A' \in [FirstRows(UPairs(NS), NS) -> 0..WMax]
Choose2 ==
  /\ stage = 1 /\ stage' = 9 /\ UNCHANGED mode
  /\ \/ /\ mode = "dir01"
        /\ \E E2 \in SUBSET (DPairs(NG) \ FirstRows(DPairs(NG), NG)) : A' = DirOf(NG, A \cup E2)
     \/ /\ mode = "symw"
        /\ \E w2 \in [UPairs(NS) \ FirstRows(UPairs(NS), NS) -> 0..WMax] : A' = SymOf(NS, A @@ w2)
Next == Choose1 \/ Choose2
Spec == Init /\ [][Next]_vars
At(m) == mode = m /\ stage = 9

V(x) == <<x>>
(* "On a matrix whose entries are all 0 or 1 every weighted routine returns what  *)
(*  its binary counterpart returns": clustering_coef_wd/bd, transitivity_wd/bd    *)
WeightedIsBinaryOn01Dir ==
  At("dir01") =>
     /\ Cl!SameOut(V(Cl!ClustWD(NG, A, 1)), V(Cl!ClustBD(NG, A)))
     /\ Cl!SameFrac(Cl!TransWD(NG, A, 1), Cl!TransBD(NG, A))
(* distance_wei/distance_bin: lengths all 1 = hop counts                           *)
DistanceWeiIsBinOn01 ==
  At("dir01") =>
     LET Lm == Di!LenOfAdj(NG, A) IN
     /\ Di!Dist(NG, Lm) = Di!HopDist(NG, Lm)
     /\ HasUnreachablePair(NG, A) <=> (\E i, j \in 1..NG : Di!Dist(NG, Lm)[i][j] >= INF)
(* clustering_coef_wu/bu, transitivity_wu/bu on symmetric 0/1; bd/bu on symmetric  *)
UndirectedReductionsOn01 ==
  At("symw") =>
     LET B == Bin(NS, A) IN
     /\ Cl!SameOut(V(Cl!ClustWU(NS, B, 1)), V(Cl!ClustBU(NS, B)))
     /\ Cl!SameFrac(Cl!TransWU(NS, B, 1), Cl!TransBU(NS, B))
     /\ Cl!SameOut(V(Cl!ClustBD(NS, B)), V(Cl!ClustBU(NS, B)))
     /\ Cl!SameFrac(Cl!TransBD(NS, B), Cl!TransBU(NS, B))
(* "On a symmetric matrix every directed routine returns what its undirected      *)
(*  counterpart returns": clustering_coef_wd/wu, transitivity_wd/wu               *)
DirectedIsUndirectedOnSymW ==
  At("symw") =>
     /\ Cl!SameOut(V(Cl!ClustWD(NS, A, WMax)), V(Cl!ClustWU(NS, A, WMax)))
     /\ Cl!SameFrac(Cl!TransWD(NS, A, WMax), Cl!TransWU(NS, A, WMax))
(* the input classes used for findings agree with Clustering's own                 *)
ClassesAgree ==
  At("symw") => TriangleClass(NS, A) = Cl!InputClass(Cl!FnWU, NS, A)
=============================================================================
