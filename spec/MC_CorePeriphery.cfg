SPECIFICATION Spec
CONSTANT NN = 3
CONSTANT Wts <- W012
CONSTANT Gammas <- G3
CONSTANT MaxRounds = 2
INVARIANT TypeInv
INVARIANT StatisticInv
INVARIANT QIsCorenessInv
INVARIANT QtInv
INVARIANT MonotoneInv
INVARIANT IxesInv
INVARIANT LocalOptInv
INVARIANT RoundsInv
INVARIANT GlobalOptInv
INVARIANT OneRoundInv
INVARIANT ReorderLawInv
CHECK_DEADLOCK FALSE
