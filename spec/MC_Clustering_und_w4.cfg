SPECIFICATION Spec
CONSTANT N = 4
CONSTANT Kind = "und"
CONSTANT Vals <- V03
CONSTANT D = 3
CONSTANT Fns <- FnsUndW
INVARIANT RefinesDefinition
INVARIANT NbrEnumerationEqualsDefinition
INVARIANT PrefixInv
INVARIANT InUnitInterval
INVARIANT ZeroWhenNoTriangleOrDegLT2
INVARIANT PositiveOnTriangle
INVARIANT MaskInv
INVARIANT HalvingExact
INVARIANT DenominatorInv
INVARIANT NoNaN
INVARIANT DefectCharacterisation
CHECK_DEADLOCK FALSE
