SPECIFICATION Spec
CONSTANT N = 3
CONSTANT Objective = "negative_sym"
CONSTANT Dir = FALSE
CONSTANT GN = 1
CONSTANT GD = 1
CONSTANT Vals <- VS2
CONSTANT Gen = FALSE
CONSTANT AllStarts = TRUE
CHECK_DEADLOCK FALSE
INVARIANT BookkeepingInv
INVARIANT AggregationInv
INVARIANT ObjIsModularity
PROPERTY MoveRaisesObj
