SPECIFICATION Spec
CONSTANT N = 4
CONSTANT Reps = 2
CONSTANT AnyLabels = FALSE
INVARIANT TypeInv
INVARIANT ThresholdInv
INVARIANT DeadBranchInv
INVARIANT UniqueInv
INVARIANT ContinueInv
INVARIANT StopInv
CHECK_DEADLOCK FALSE
