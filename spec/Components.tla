-------------------------------- MODULE Components --------------------------------
(* C16.  L0: components as reachability classes (BctGraph!Components).          *)
(* L2 (MergeImpl): the edge-scan / set-merging machine of                       *)
(* bct.algorithms.clustering.get_components, one action per scanned item.       *)
EXTENDS BctGraph, SequencesExt

(* ---- the code's preparation: binarize(A), fill_diagonal(A, 1) ------------- *)
Prepared(n, A) == Mat(n, LAMBDA i, j : IF i = j \/ A[i][j] # 0 THEN 1 ELSE 0)

(* edge_map = [{u,v} for u in range(n) for v in range(n) if A[u,v]==1]          *)
(* row-major order; entry (u,u) contributes the singleton {u}                   *)
EdgeMap(n, A) ==
  LET P == Prepared(n, A)
      cell == [c \in 1..(n * n) |-> <<((c - 1) \div n) + 1, ((c - 1) % n) + 1>>]
      present == SelectSeq(cell, LAMBDA uv : P[uv[1]][uv[2]] = 1)
  IN [e \in 1..Len(present) |-> {present[e][1], present[e][2]}]

(* one iteration of `for item in edge_map`: union with every set touched,      *)
(* untouched sets carried over in order, merged item appended last             *)
MergeStep(sets, item) ==
  LET touched == {i \in DOMAIN sets : sets[i] \cap item # {}}
      merged  == item \cup UNION {sets[i] : i \in touched}
  IN SelectSeq(sets, LAMBDA s : s \cap item = {}) \o <<merged>>

MergeAll(n, A) == FoldLeft(MergeStep, <<>>, EdgeMap(n, A))

(* comps[v] = i+1 for the set i containing v ; comp_sizes[i] = |set i|          *)
LabelsOf(n, sets) == [v \in 1..n |-> CHOOSE i \in DOMAIN sets : v \in sets[i]]
SizesOf(sets) == [i \in DOMAIN sets |-> Cardinality(sets[i])]

(* ---- property-level predicates on an observed (comps, sizes) -------------- *)
(* "two nodes get the same label exactly when a path joins them"                *)
SameLabelIffReachable(n, A, comps) ==
  LET S == SymSupport(n, A)
      comp == Force([u \in 1..n |-> GrowReach(n, S, {u})])      \* one closure per node
  IN \A u, v \in 1..n : (comps[u] = comps[v]) <=> (v \in comp[u])
(* "uses labels 1..m"                                                           *)
Labels1toM(n, comps, m) == {comps[v] : v \in 1..n} = 1..m
(* "reports for each label the number of nodes carrying it"                     *)
SizesAreCounts(n, comps, sizes) ==
  \A l \in DOMAIN sizes : sizes[l] = Cardinality({v \in 1..n : comps[v] = l})

=============================================================================
