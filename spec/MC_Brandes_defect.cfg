SPECIFICATION Spec
CONSTANT N = 3
CONSTANT Kind = "dir"
CONSTANT Lens = {1, 2}
CONSTANT MaxEdges = 99
CONSTANT Routines = {"bin"}
CONSTANT Slack = 1
INVARIANT OracleInv
INVARIANT NoRaise
INVARIANT QueueInv
INVARIANT PhaseInv
INVARIANT DepInv
INVARIANT ResultInv
CHECK_DEADLOCK FALSE
