\* NOT run by the harness.  Slack = 1 models the present text of edge_betweenness_bin (`Q[:q]`):
\* TLC is EXPECTED to report NoRaise violated (empty graph, 3 nodes: ValueError) and, with NoRaise
\* removed, QueueInv violated (G = {1->2}: Q = <<1,2,1>> keeps the initial 0 instead of node 3).
SPECIFICATION Spec
CONSTANT N = 3
CONSTANT Kind = "dir"
CONSTANT Lens = {1, 2}
CONSTANT MaxEdges = 99
CONSTANT Routines = {"bin"}
CONSTANT Slack = 1
INVARIANT OracleInv
INVARIANT NoRaise
INVARIANT QueueInv
INVARIANT PhaseInv
INVARIANT DepInv
INVARIANT ResultInv
CHECK_DEADLOCK FALSE
