SPECIFICATION Spec
CONSTANT N = 4
CONSTANT Kind = "dir"
CONSTANT Vals <- V01
CONSTANT D = 1
CONSTANT Fns <- FnsDirBin
INVARIANT RefinesDefinition
INVARIANT NbrEnumerationEqualsDefinition
INVARIANT PrefixInv
INVARIANT InUnitInterval
INVARIANT ZeroWhenNoTriangleOrDegLT2
INVARIANT PositiveOnTriangle
INVARIANT MaskInv
INVARIANT HalvingExact
INVARIANT DenominatorInv
INVARIANT NoNaN
INVARIANT DefectCharacterisation
CHECK_DEADLOCK FALSE
