SPECIFICATION Spec
CONSTANT N = 4
CONSTANT Dir = TRUE
CONSTANT Finetune = TRUE
CONSTANT GN = 3
CONSTANT GD = 4
CONSTANT WMax = 1
CONSTANT Gen = TRUE
CONSTANT MaxSweeps = 50
CHECK_DEADLOCK FALSE
