SPECIFICATION Spec
CONSTANT NN = 3
CONSTANT Kind = "dir"
CONSTANT LoopNodes = {1, 2, 3}
CONSTANT Checks = {"bfs", "reach"}
INVARIANT BfsInv
INVARIANT ReachInv
INVARIANT ProbInv
INVARIANT MatchInv
CHECK_DEADLOCK FALSE
