------------------------------ MODULE BackboneImpl ------------------------------
(* X05, L2: backbone_wu (bct/utils/visualization.py 305-356) as a machine - one action  *)
(* per loop body, the code's variables (record `bst`: tre = CIJtree, inn = in_, outt =   *)
(* out, ix):                                                                             *)
(*   First     "find strongest edge", "copy into tree graph", in_ / out                   *)
(*   Grow      body of `for ix in range(n - 2)`: strongest connection between the nodes   *)
(*             in the tree and the nodes out of it (np.argmax: first of tied maxima)      *)
(*   Backfill  "now add connections back" for a demanded degree total dn = avgdeg * n     *)
(* over EVERY symmetric matrix without self-connections on n nodes with weights from a    *)
(* small set (ties!), Domains = triples <<n, weights, dns>>.  The invariants tie the      *)
(* machine to the L0 definitions of Backbone.tla: maximum over all enumerated spanning    *)
(* trees, cycle property, strongest-connections backfill.  Claims are made for connected  *)
(* inputs (the documented domain; on the others the code "adds" absent connections).      *)
EXTENDS Backbone
CONSTANTS Domains
VARIABLES inp, bst, ref        \* ref: L0 answers for inp, computed once (auxiliary)
vars == <<inp, bst, ref>>

WInputs(n, ws) == {Mat(n, LAMBDA i, j : IF i = j THEN 0 ELSE g[IF i < j THEN <<i, j>> ELSE <<j, i>>]) :
                     g \in [UPairs(n) -> ws \cup {0}]}
Init == /\ \E dom \in Domains : inp \in {[n |-> dom[1], A |-> M, dns |-> dom[3]] : M \in WInputs(dom[1], dom[2])}
        /\ bst = [pc |-> "init"]
        /\ ref = <<>>
N == inp.n
TSet == UEdges(N, bst.tre)

First ==
  /\ bst.pc = "init"
  /\ ref' = [conn |-> Connected(N, inp.A), st |-> SpanningTrees(N, inp.A), mt |-> MaxTrees(N, inp.A)]
  /\ bst' = [pc |-> "for"] @@ BbFirst(N, inp.A)
Grow ==
  /\ bst.pc = "for" /\ bst.ix < N - 2
  /\ bst' = [pc |-> "for"] @@ BbStep(N, inp.A, bst)
Backfill ==
  /\ bst.pc = "for" /\ bst.ix >= N - 2
  /\ \E dn \in inp.dns :
       bst' = LET b == BbBackfill(N, inp.A, bst.tre, dn) IN
              [pc |-> "done", tre |-> bst.tre, dn |-> dn, raised |-> b.raised, clus |-> b.clus]
Next == (First \/ ((Grow \/ Backfill) /\ UNCHANGED ref)) /\ UNCHANGED inp
Spec == Init /\ [][Next]_vars

(* ------------------------------------------------------------ invariants ---------- *)
(* the two L0 characterisations of a maximum spanning tree agree (once per input)       *)
CycleLemmaInv ==
  (bst.pc = "for" /\ bst.ix = 0 /\ ref.conn) =>
     /\ ref.mt # {}
     /\ \A T \in ref.st : CycleOptimal(N, inp.A, T) <=> T \in ref.mt
(* loop invariant (Prim): the nodes split into in_ / out; the tree so far spans exactly  *)
(* the nodes of in_, and some maximum spanning tree contains it                          *)
GrowInv ==
  (bst.pc = "for" /\ ref.conn) =>
     /\ Len(bst.inn) = bst.ix + 2 /\ Cardinality(SeqToSet(bst.inn)) = Len(bst.inn)
     /\ bst.outt = AscSeq((1..N) \ SeqToSet(bst.inn))
     /\ IsSym(N, bst.tre) /\ CellsFromInput(N, inp.A, bst.tre)
     /\ Cardinality(TSet) = Len(bst.inn) - 1
     /\ \A e \in TSet : e[1] \in SeqToSet(bst.inn) /\ e[2] \in SeqToSet(bst.inn)
     /\ \A v \in SeqToSet(bst.inn) : SeqToSet(bst.inn) \subseteq ReachSet(N, bst.tre, v)
     /\ \E T \in ref.mt : TSet \subseteq T
(* what the caller gets                                                                   *)
Links == Cardinality(UEdges(N, inp.A))
TreeInv ==
  (bst.pc = "done" /\ ref.conn) =>
     /\ IsSym(N, bst.tre) /\ CellsFromInput(N, inp.A, bst.tre)
     /\ IsSpanningTreeSet(N, TSet)
     /\ TSet \in ref.mt
     /\ CycleOptimal(N, inp.A, TSet)
ClusInv ==
  (bst.pc = "done" /\ ref.conn) =>
     /\ bst.raised <=> bst.dn > 2 * Links          \* more than the input holds
     /\ ~bst.raised =>
          /\ IsSym(N, bst.clus) /\ CellsFromInput(N, inp.A, bst.clus)
          /\ TSet \subseteq UEdges(N, bst.clus)
          /\ ClusStrongest(N, inp.A, TSet, bst.clus)
          /\ ClusDegree(N, inp.A, TSet, bst.clus, bst.dn - 2 * (N - 1))
          (* without ties at the threshold the count is exact                              *)
          /\ (bst.dn % 2 = 0 /\ bst.dn >= 2 * (N - 1) /\
              Cardinality({inp.A[e[1]][e[2]] : e \in UEdges(N, inp.A)}) = Links)
               => 2 * Cardinality(UEdges(N, bst.clus)) = bst.dn
(* "nodes with zero strength are discarded": isolated nodes next to a connected rest leave    *)
(* a maximum spanning tree of the rest (cycle criterion) and an L0 backfill                   *)
IsoInv ==
  (bst.pc = "done" /\ ~ref.conn /\ ActiveConnected(N, inp.A)) =>
     /\ IsSym(N, bst.tre) /\ CellsFromInput(N, inp.A, bst.tre)
     /\ Cardinality(TSet) = Cardinality(Active(N, inp.A)) - 1
     /\ SpansActive(N, inp.A, bst.tre)
     /\ CycleOptimal(N, inp.A, TSet)
     /\ ~bst.raised =>
          /\ IsSym(N, bst.clus) /\ CellsFromInput(N, inp.A, bst.clus)
          /\ TSet \subseteq UEdges(N, bst.clus)
          /\ ClusStrongest(N, inp.A, TSet, bst.clus)
(* the step operators run as one function give the machine's tree (used for drift)        *)
RunInv == bst.pc = "done" => bst.tre = BbTree(N, inp.A)
=============================================================================
