------------------------------ MODULE MC_Measures ------------------------------
(* X01 lemmas on the L0 definitions of Measures.tla.  TLC enumerates, by Mode,       *)
(*   "und"  every symmetric 0/1 matrix on N nodes (empty diagonal),                  *)
(*   "dir"  every 0/1 digraph on N nodes,                                            *)
(*   "wund" every symmetric matrix with weights 0..WMax,                             *)
(*   "wdir" every digraph with weights 0..WMax,                                      *)
(*   "sund" every symmetric matrix with weights -WMax..WMax,                         *)
(* each, if LMax > 0, with every labelling ci \in [1..N -> 1..LMax], and proves       *)
(*  X..  two independent formulations of every measure agree exactly,               *)
(*        and the range / identity lemmas of the docstrings,                             *)
(*  E..  Op(p.A) = p.Op(A) for every permutation p in Perms (all of S_N, or the     *)
(*        slice chosen by PSlice): node vectors permute, pair matrices permute on     *)
(*        both axes, scalars and degree-indexed tables are invariant.  This extends   *)
(*        the transfer argument of C04 (DESIGN 5, C04) to the operators of Measures.  *)
EXTENDS Measures
CONSTANTS N, Mode, WMax, LMax, Checks, PSlice
Cl == INSTANCE Clustering

VARIABLES stage, A, ci
vars == <<stage, A, ci>>

UP == UpCells(N)
DP == OffCells(N)
Half == (N + 1) \div 2
First(S) == {c \in S : c[1] <= Half}
Rest(S) == S \ First(S)
WRange == IF Mode = "sund" THEN (-WMax)..WMax ELSE 0..WMax
Pairs == IF Mode \in {"und", "wund", "sund"} THEN UP ELSE DP
IsUndMode == Mode \in {"und", "wund", "sund"}
BuildM(w) ==
  IF IsUndMode
  THEN Mat(N, LAMBDA i, j : IF i < j THEN w[<<i, j>>] ELSE IF j < i THEN w[<<j, i>>] ELSE 0)
  ELSE Mat(N, LAMBDA i, j : IF i # j THEN w[<<i, j>>] ELSE 0)
Labellings == IF LMax = 0 THEN {[i \in 1..N |-> 1]} ELSE [1..N -> 1..LMax]

Init == stage = 0 /\ A = <<>> /\ ci = <<>>
Choose1 == /\ stage = 0 /\ stage' = 1 /\ ci' = ci
           /\ A' \in [First(Pairs) -> (IF Mode \in {"und", "dir"} THEN {0, 1} ELSE WRange)]
Choose2 == /\ stage = 1 /\ stage' = 9
           /\ \E w2 \in [Rest(Pairs) -> (IF Mode \in {"und", "dir"} THEN {0, 1} ELSE WRange)] :
                 A' = BuildM(A @@ w2)
           /\ ci' \in Labellings
Next == Choose1 \/ Choose2
Spec == Init /\ [][Next]_vars
Ready == stage = 9
On(c) == Ready /\ c \in Checks
Binary == Mode \in {"und", "dir"}
NonNeg == Mode # "sund"

LeqFrac(a, b) == a[1] * b[2] <= b[1] * a[2]          \* positive denominators, small numbers
In01(f) == f[2] > 0 /\ f[1] >= 0 /\ f[1] <= f[2]
Edges == Support(N, A)
TD == Force(TotDegVec(N, A))
ID == Force(InDegVec(N, A))
Levels == 0..(2 * N)

(* ------------------------------ (X) cross-checks -------------------------------------- *)
XDensity ==
  On("x") =>
    /\ SameFrac(DensityDir(N, A), DensityDir2(N, A))
    /\ IsUndMode => SameFrac(DensityUnd(N, A), DensityUnd2(N, A))
    /\ IsUndMode => SameFrac(DensityUnd(N, A), DensityDir(N, A))
    /\ N >= 2 => In01(DensityDir(N, A)) /\ In01(DensityUnd(N, A))
XJDegree ==
  On("x") =>
    LET J == JDegree(N, A) IN
    /\ JTri(J, LAMBDA u, v : v > u) = JOd(N, A)
    /\ JTri(J, LAMBDA u, v : u > v) = JId(N, A)
    /\ JTri(J, LAMBDA u, v : u = v) = JBl(N, A)
    /\ JTri(J, LAMBDA u, v : TRUE) = N                       \* "sum of jdegree = n"
    /\ JOd(N, A) + JId(N, A) + JBl(N, A) = N
    /\ IsUndMode => JBl(N, A) = N
XMatching ==
  On("x") =>
    LET MI == MatchingIn(N, A)  MO == MatchingOut(N, A)  MA == MatchingAll(N, A)
        T == Transpose(N, A) IN
    \A c \in DP :
      LET i == c[1]  j == c[2] IN
      /\ MatchInPQ(N, A, i, j) = MatchIn2(N, A, i, j)
      /\ MatchInPQ(N, A, i, j) = MatchPQ2(InNb(N, A, i, i, j), InNb(N, A, j, i, j))
      /\ MatchOutPQ(N, A, i, j) = MatchPQ2(OutNb(N, A, i, i, j), OutNb(N, A, j, i, j))
      /\ MatchOutPQ(N, A, i, j) = MatchInPQ(N, T, i, j)
      (* "The matching index is a symmetric quantity" with values in [0, 1]              *)
      /\ MI[i][j] = MI[j][i] /\ MO[i][j] = MO[j][i] /\ MA[i][j] = MA[j][i]
      /\ In01(MI[i][j]) /\ In01(MO[i][j]) /\ In01(MA[i][j])
      (* on a symmetric matrix the three indices and the undirected one coincide          *)
      /\ IsUndMode => SameFrac(MI[i][j], MO[i][j]) /\ SameFrac(MI[i][j], MA[i][j])
      /\ MatchingUnd(N, A)[i][j] = MI[i][j]
XEdgeOverlap ==
  On("x") =>
    \A c \in Edges :
      LET f == EdgeOverlap(N, A, c[1], c[2]) IN
      /\ f = EdgeOverlap2(N, A, c[1], c[2])
      /\ f[1] >= 0 /\ f[1] <= f[2]
      /\ A[c[2]][c[1]] # 0 => f = EdgeOverlap(N, A, c[2], c[1])
      /\ f = EdgeOverlap(N, SymSupport(N, A), c[1], c[2])       \* bd = bu on the symmetrised support
XFlow ==
  (On("x") /\ Binary) =>
    \A v \in 1..N :
      /\ FlowTotal(N, A, v) = FlowTotal2(N, A, v)
      /\ In01(FlowCoef(N, A, v))
      /\ FlowMax(N, A, v) > 0 => FlowL % FlowMax(N, A, v) = 0
      (* "mathematically related to the clustering coefficient (cc) at each node as       *)
      (*  fc + cc <= 1" - for the cycle-type share of Fagiolo's coefficient: a flow path   *)
      (*  and a closing connection exclude each other                                      *)
      /\ IsUndMode => LET cc == Cl!ClustBU(N, A)[v]  fc == FlowCoef(N, A, v) IN
                      fc[1] * cc[2] + cc[1] * fc[2] <= fc[2] * cc[2]
XRichB ==
  On("x") =>
    \A k \in Levels :
      /\ RichEk(N, A, TD, k) = RichEk2(N, A, TD, k)
      /\ RichEk(N, A, ID, k) = RichEk2(N, A, ID, k)
      /\ Binary => \A d \in {TD, ID} :                       \* "phi(k) in [0,1]"
           LET f == RichB(N, A, d, k) IN f[2] > 0 => In01(f)
      /\ ClubGT(N, TD, k + 1) \subseteq ClubGT(N, TD, k)
XRichW ==
  (On("x") /\ NonNeg) =>
    /\ \A E \in 0..Cardinality(Edges) : TopSum(N, A, E) = TopSum2(N, A, E)
    /\ \A k \in Levels : \A d \in {TD, ID} :
         LET f == RichW(N, A, d, k) IN f[1] >= 0 /\ f[1] <= f[2]          \* Rw in [0,1]
    (* the whole network is its own rich club at level 0: ratio 1 (or 0/0 when empty)       *)
    /\ LET f == RichW(N, A, TD, 0) IN f[1] = f[2] /\ f[1] = Total(N, A)
XAssort ==
  (On("x") /\ NonNeg) =>
    /\ \A flag \in 0..4 :
         LET f == AssortPQ(N, A, flag)  g == AssortPQ2(N, A, flag) IN
         /\ g[2] = 0 <=> f[2] = 0
         /\ f[2] # 0 => f[1] * g[2] = g[1] * f[2]
         /\ f[2] >= 0 /\ Abs(f[1]) <= f[2]                    \* r in [-1, 1]
    (* on a symmetric matrix the five flags give one coefficient, and it is the plain       *)
    (* Pearson correlation over the connections taken in both directions                    *)
    /\ IsUndMode =>
         /\ \A flag \in 1..4 : SameFrac(AssortPQ(N, A, flag), AssortPQ(N, A, 0))
         /\ LET s == AssortPearson(N, A, 3) IN
            /\ s.vx = s.vy
            /\ SameFrac(<<s.c, s.vx>>, AssortPQ(N, A, 0))
XERange ==
  (On("x") /\ Binary) =>
    LET ER == ERange(N, A) IN
    /\ \A c \in Edges : /\ ER[c[1]][c[2]] = ERangeAt2(N, A, c[1], c[2])
                        /\ ER[c[1]][c[2]] = ERangeAtDist(N, A, c[1], c[2])
                        /\ ER[c[1]][c[2]] >= 2                \* "must be two or greater"
    /\ \A c \in Cells(N) \ Edges : ER[c[1]][c[2]] = 0
    /\ LET e == EtaPQ(N, ER)  f == FsPQ(N, A, ER) IN
       /\ e[2] > 0 => e[1] >= 2 * e[2]
       /\ f[1] <= f[2]
XEffLocal ==
  (On("x") /\ Binary) =>
    \A u \in 1..N :
      LET e == EffLocalAt(N, A, u) IN
      /\ In01(e)
      /\ IsUndMode => SameFrac(e, EffLocalUnd2(N, A, u))
      (* local efficiency is at least the clustering coefficient (distance-1 pairs)         *)
      /\ IsUndMode => LeqFrac(Cl!ClustBU(N, A)[u], e)
XStrengths ==
  On("x") =>
    /\ IsUndMode => InDegVec(N, A) = OutDegVec(N, A) /\ InStrVec(N, A) = OutStrVec(N, A)
    /\ VecTotal(N, InStrVec(N, A)) = VecTotal(N, OutStrVec(N, A))
    /\ \A i \in 1..N : PosStrVec(N, A)[i] - NegStrVec(N, A)[i] = InStr(N, A, i)   \* empty diagonal
    /\ \A i \in 1..N : PosStrVec(N, A)[i] >= 0 /\ NegStrVec(N, A)[i] >= 0
XPartition ==
  (On("p") /\ NonNeg) =>
    /\ \A mode \in {0, 2} :
         LET P1 == Participation(N, A, ci, mode)  P2 == Participation2(N, A, ci, mode) IN
         \A i \in 1..N : SameFrac(P1[i], P2[i]) /\ In01(P1[i])
    /\ \A flag \in 0..3 : \A i \in 1..N :
         LET M == ModuleOf(N, ci, i) IN
         /\ Sum(M, LAMBDA j : ZNum(N, A, ci, flag, j)) = 0                          \* mean z = 0
         /\ Sum(M, LAMBDA j : Sq(ZNum(N, A, ci, flag, j))) = Cardinality(M) * ZVar(N, A, ci, flag, i)
         /\ ZVar(N, A, ci, flag, i) >= 0
    (* labels are names: any injective renaming leaves both measures unchanged              *)
    /\ LET c2 == [i \in 1..N |-> 40 - 7 * ci[i]] IN
       /\ Participation(N, A, c2, 0) = Participation(N, A, ci, 0)
       /\ \A i \in 1..N : ZNum(N, A, c2, 3, i) = ZNum(N, A, ci, 3, i)
    /\ IsUndMode => Participation(N, A, ci, 2) = Participation(N, A, ci, 0)

(* ------------------------------ (E) equivariance -------------------------------------- *)
AllPerms == {f \in [1..N -> 1..N] : \A i, j \in 1..N : i # j => f[i] # f[j]}
Adjacent == {f \in AllPerms : \E a \in 1..(N - 1) :
               f = [i \in 1..N |-> IF i = a THEN a + 1 ELSE IF i = a + 1 THEN a ELSE i]}
Perms == IF PSlice = "all" THEN AllPerms
         ELSE IF PSlice = "generators" THEN Adjacent
         ELSE {}
PermVec(x, p) == [i \in 1..N |-> x[p[i]]]
Tab(f(_), S) == Force([x \in S |-> f(x)])
EOMat(n, M) == Mat(n, LAMBDA i, j : IF M[i][j] # 0 THEN EdgeOverlap(n, M, i, j) ELSE <<-1, 1>>)
NodeOps(M) ==
  << InDegVec(N, M), OutDegVec(N, M), TotDegVec(N, M), InStrVec(N, M), OutStrVec(N, M),
     TotStrVec(N, M), PosStrVec(N, M), NegStrVec(N, M),
     [v \in 1..N |-> <<FlowTotal(N, M, v), FlowMax(N, M, v)>>], EffLocal(N, M) >>
PairOps(M, ER) ==
  << MatchingIn(N, M), MatchingOut(N, M), MatchingAll(N, M), EOMat(N, M), ER >>
ScalarOps(M, ER) ==
  LET td == Force(TotDegVec(N, M))  id == Force(InDegVec(N, M)) IN
  (* the undirected forms read the upper triangle only: they are functions of the graph   *)
  (* on symmetric matrices only                                                            *)
  << IF IsUndMode THEN DensityUnd(N, M) ELSE 0, DensityDir(N, M), JDegree(N, M), JOd(N, M), JId(N, M), JBl(N, M),
     Tab(LAMBDA f : AssortPQ(N, M, f), IF IsUndMode THEN 0..4 ELSE 1..4),
     Tab(LAMBDA k : <<RichB(N, M, td, k), RichB(N, M, id, k), RichNk(N, td, k)>>, Levels),
     Tab(LAMBDA k : <<RichW(N, M, td, k), RichW(N, M, id, k)>>, Levels),
     FlowMean(N, M), EtaPQ(N, ER), FsPQ(N, M, ER) >>
PartOps(M, c) ==
  << Participation(N, M, c, 0), Participation(N, M, c, 2),
     [i \in 1..N |-> Tab(LAMBDA f : <<ZNum(N, M, c, f, i), ZVar(N, M, c, f, i)>>, 0..3)] >>

EGraph ==
  On("e") =>
    LET er == ERange(N, A)  no == NodeOps(A)  po == PairOps(A, er)  so == ScalarOps(A, er) IN
    \A p \in Perms :
      LET B == Permuted(N, A, p)  eb == ERange(N, B)  nb == NodeOps(B)  pb == PairOps(B, eb) IN
      /\ \A k \in 1..Len(no) : nb[k] = PermVec(no[k], p)
      /\ \A k \in 1..Len(po) : pb[k] = Permuted(N, po[k], p)
      /\ ScalarOps(B, eb) = so
EPartition ==
  (On("ep") /\ NonNeg) =>
    LET qo == PartOps(A, ci) IN
    \A p \in Perms :
      LET qb == PartOps(Permuted(N, A, p), PermVec(ci, p)) IN
      \A k \in 1..Len(qo) : qb[k] = PermVec(qo[k], p)
=============================================================================
