-------------------------------- MODULE BctBase --------------------------------
(* L0 helpers shared by every bctpy specification module.                      *)
(* Conventions: nodes are 1..n (python index + 1); a matrix is a function      *)
(* [1..n -> [1..n -> Int]] (= the sequence of sequences that JsonDeserialize   *)
(* produces for a list of lists); 0 means "no connection".                     *)
EXTENDS Integers, Sequences, FiniteSets, FiniteSetsExt, TLC

INF == 1000000000        \* stands for +infinity in Nat-valued tables (< 2^31)
NAN == 2000000001        \* encoding of an observed nan (harness/encode.py)
IsInf(x) == x = INF
IsNan(x) == x = NAN
IsFinite(x) == x > -INF /\ x < INF

(* FoldSet has a Java override in this CommunityModules build, MapThenSumSet has not *)
Sum(S, f(_)) == FoldSet(LAMBDA x, acc : f(x) + acc, 0, S)
(* identity that turns a lazily evaluated function constructor into a table once     *)
Force(f) == IF f = f THEN f ELSE f
Abs(x) == IF x < 0 THEN -x ELSE x
Sgn(x) == IF x > 0 THEN 1 ELSE IF x < 0 THEN -1 ELSE 0
MinOf(S) == CHOOSE x \in S : \A y \in S : x <= y
MaxOf(S) == CHOOSE x \in S : \A y \in S : x >= y
Count(S, P(_)) == Cardinality({x \in S : P(x)})

Mat(n, f(_,_)) == Force([i \in 1..n |-> [j \in 1..n |-> f(i, j)]])
Zero(n) == Mat(n, LAMBDA i, j : 0)
IsSquare(n, A) == /\ DOMAIN A = 1..n
                  /\ \A i \in 1..n : DOMAIN A[i] = 1..n
IsSym(n, A) == \A i, j \in 1..n : A[i][j] = A[j][i]
Is01(n, A) == \A i, j \in 1..n : A[i][j] \in {0, 1}
DiagZero(n, A) == \A i \in 1..n : A[i][i] = 0
Bin(n, A) == Mat(n, LAMBDA i, j : IF A[i][j] # 0 THEN 1 ELSE 0)
Transpose(n, A) == Mat(n, LAMBDA i, j : A[j][i])
NoDiag(n, A) == Mat(n, LAMBDA i, j : IF i = j THEN 0 ELSE A[i][j])
Support(n, A) == {<<i, j>> \in (1..n) \X (1..n) : A[i][j] # 0}
Permuted(n, A, p) == Mat(n, LAMBDA i, j : A[p[i]][p[j]])   \* A[ix_(p,p)]

OutDeg(n, A, i) == Cardinality({j \in 1..n : A[i][j] # 0})
InDeg(n, A, j)  == Cardinality({i \in 1..n : A[i][j] # 0})
OutStr(n, A, i) == Sum(1..n, LAMBDA j : A[i][j])
InStr(n, A, j)  == Sum(1..n, LAMBDA i : A[i][j])
Total(n, A) == Sum(1..n, LAMBDA i : OutStr(n, A, i))

(* bag of values of a set of cells, as a function value |-> multiplicity       *)
BagOfCells(A, cells) ==
  LET vals == {A[c[1]][c[2]] : c \in cells}
  IN [v \in vals |-> Cardinality({c \in cells : A[c[1]][c[2]] = v})]
NonzeroBag(n, A) == BagOfCells(A, Support(n, A))

SeqToSet(s) == {s[i] : i \in DOMAIN s}
SeqSum(s) == Sum(DOMAIN s, LAMBDA i : s[i])
=============================================================================
