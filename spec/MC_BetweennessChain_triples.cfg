SPECIFICATION Spec
CONSTANT Mode = "triples"
INVARIANT WellFormedInv
INVARIANT EdgeSetInv
INVARIANT AgreesDInv
INVARIANT AgreesEInv
CHECK_DEADLOCK FALSE
