SPECIFICATION Spec
CONSTANT N = 4
CONSTANT Sym = TRUE
CONSTANT WMax = 2
INVARIANT PrepareInv
INVARIANT PickInv
INVARIANT ResultLegalInv
INVARIANT FamilyInv
INVARIANT RoundInv
CHECK_DEADLOCK FALSE
