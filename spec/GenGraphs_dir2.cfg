SPECIFICATION Spec
CONSTANT N = 2
CONSTANT Kind = "dir"
CHECK_DEADLOCK FALSE
