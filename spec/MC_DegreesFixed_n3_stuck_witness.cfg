\* informational, NOT run by the check: NeverStuck is expected to be VIOLATED (the intended
\* algorithm can exhaust all k switch candidates on a graphical pair, e.g. inv=<<1,1,2>>,
\* outv=<<2,1,1>>, targets <<3,3,1,2>>) - hence the flag-0 / BCTParamError outcome is accepted.
SPECIFICATION Spec
CONSTANT N = 3
CONSTANT Gen = FALSE
CONSTANT KMin = 0
CONSTANT KMax = 99
CONSTANT InputPhase = FALSE
CHECK_DEADLOCK FALSE
INVARIANT TypeOK
INVARIANT TargetsInv
INVARIANT PlacedInv
INVARIANT SwitchInv
INVARIANT DoneContract
INVARIANT NeverStuck
