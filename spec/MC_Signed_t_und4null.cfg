SPECIFICATION Spec
CONSTANT N = 4
CONSTANT Dir = FALSE
CONSTANT Iters = 1
CONSTANT MaxAtt = 2
CONSTANT Vals <- ValsC
CONSTANT NullModel = TRUE
CONSTANT Gen = FALSE
CONSTANT Frame <- NoFrame
CHECK_DEADLOCK FALSE
INVARIANT SignedDegInv
INVARIANT PosBagInv
INVARIANT NegBagInv
INVARIANT DiagInv
INVARIANT SymInv
PROPERTY EffCounts
