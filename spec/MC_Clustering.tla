---- MODULE MC_Clustering ----
(* model instances of ClusteringImpl; value sets and function sets named here because  *)
(* a .cfg cannot hold negative numbers                                                  *)
EXTENDS ClusteringImpl
V01 == {0, 1}
V03 == {0, 1, 2, 3}
V013 == {0, 1, 3}
VS3 == {-3, -2, -1, 0, 1, 2, 3}
VS5 == {-2, -1, 0, 1, 3}
VS4 == {-2, 0, 1, 3}
VS5b == {-3, -1, 0, 2, 3}
FnsUndBin == AllFns \cup {FnTWDcoded}
FnsUndBin6 == {FnBU, FnWU, FnTBU, FnTWU, FnBD, FnTBD}
FnsDirBin == DirectedFns \cup {FnTWDcoded}
FnsUndW == {FnWU, FnWD, FnTWU, FnTWD}
FnsUndWAll == {FnWU, FnWD, FnSD, FnSZ, FnSC, FnTWU, FnTWD, FnTWDcoded}
FnsDirW == {FnWD, FnTWD, FnTWDcoded}
FnsSign == SignFns
====
