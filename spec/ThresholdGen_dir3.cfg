SPECIFICATION Spec
CONSTANT N = 3
CONSTANT Sym = FALSE
CONSTANT WMax = 3
CHECK_DEADLOCK FALSE
