SPECIFICATION Spec
CONSTANT N = 4
CONSTANT Dir = TRUE
CONSTANT Iters = 3
CONSTANT MaxAtt = 4
CONSTANT Vals <- ValsC
CONSTANT NullModel = FALSE
CONSTANT Gen = TRUE
CONSTANT Frame <- Frame8
CHECK_DEADLOCK FALSE
