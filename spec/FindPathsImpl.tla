------------------------------ MODULE FindPathsImpl ------------------------------
(* X04, L2: findpaths (bct/algorithms/distance.py 472-619, the port of findpaths.m) *)
(* as a machine - one action per loop body, the code's variables (record `st`):     *)
(*   Seed      the block "this code is for pathlength=1" (pths, util, Pq slice 0)    *)
(*   BeginQ    top of `for q in range(2, qmax + 1)`: endp = np.unique(pths[:, q-1])  *)
(*   Endpoint  body of `for i in endp` (the inner `for j in nendp` is a fold):       *)
(*             npths grows by the legal one-connection extensions, Pq counts them    *)
(*   EndQ      util, "eliminate cycles from making it to the next level", stop test  *)
(*   Finish    qstop, tpath, plq                                                     *)
(* over EVERY digraph without self-loops on n nodes x source sets x qmax (Domains),  *)
(* with the invariants that tie the machine to the three L0 definitions of           *)
(* Paths.tla (declarative enumeration of node sequences; growth; subset counting).   *)
(* pths / npths are SEQUENCES of paths in the order in which the code stores them     *)
(* (the order never reaches the caller: allpths is "currently not enabled").          *)
EXTENDS Paths
CONSTANTS Domains          \* triples <<n, allsources, qmaxes>>
VARIABLES inp, st, ref      \* ref: the L0 answer for inp, computed once (auxiliary)
vars == <<inp, st, ref>>

DPairs(n) == {p \in (1..n) \X (1..n) : p[1] # p[2]}
BinInputs(n) == {EMat(n, LAMBDA i, j : IF <<i, j>> \in E THEN 1 ELSE 0) : E \in SUBSET DPairs(n)}
SrcSeqs(n, all) == IF all THEN {Asc(1..n)} ELSE {Asc(S) : S \in (SUBSET (1..n)) \ {{}}}
ZeroVec(n) == [v \in 1..n |-> 0]

Init == /\ \E dom \in Domains :
             inp \in {[n |-> dom[1], A |-> A, srcs |-> s, qmax |-> Q] :
                        A \in BinInputs(dom[1]), s \in SrcSeqs(dom[1], dom[2]), Q \in dom[3]}
        /\ st = [pc |-> "init"]
        /\ ref = <<>>

N == inp.n
QM == inp.qmax
SrcSet == SeqToSet(inp.srcs)

Seed ==
  /\ st.pc = "init"
  /\ ref' = [tab |-> FPathsTab(N, inp.A, SrcSet, QM), L |-> FindPathsL0(N, inp.A, SrcSet, QM)]
  /\ st' = LET P == FpSeed(N, inp.A, inp.srcs) IN
           [pc |-> IF QM >= 2 THEN "for" ELSE "fin", q |-> IF QM >= 2 THEN 2 ELSE 1,
            pths |-> P, npths |-> <<>>, endp |-> <<>>,
            Pq |-> [k \in 1..QM |-> IF k = 1 THEN FpCount(N, Zero(N), P) ELSE Zero(N)],
            util |-> [k \in 1..QM |-> IF k = 1 THEN Hist(N, CellsOf(P)) ELSE ZeroVec(N)],
            qstop |-> 1]
BeginQ ==
  /\ st.pc = "for"
  /\ st' = [st EXCEPT !.pc = "endp", !.npths = <<>>,
                      !.endp = Asc({st.pths[x][st.q] : x \in 1..Len(st.pths)})]
Endpoint ==
  /\ st.pc = "endp" /\ st.endp # <<>>
  /\ st' = LET i == Head(st.endp)
               np2 == FpEndpoint(N, inp.A, st.pths, st.q, i, st.npths)
               new == SubSeq(np2, Len(st.npths) + 1, Len(np2))
           IN [st EXCEPT !.endp = Tail(st.endp), !.npths = np2,
                         !.Pq = [st.Pq EXCEPT ![st.q] = FpCount(N, st.Pq[st.q], new)]]
EndQ ==
  /\ st.pc = "endp" /\ st.endp = <<>>
  /\ st' = LET h == Hist(N, CellsOf(st.npths))
               u == [v \in 1..N |-> st.util[st.q][v] + h[v] - st.Pq[st.q][v][v]]
               keep == SelectSeq(st.npths, LAMBDA p : p[1] # p[st.q + 1])
               stop == keep = <<>> \/ st.q = QM
           IN [st EXCEPT !.util = [st.util EXCEPT ![st.q] = u], !.pths = keep,
                         !.pc = IF stop THEN "fin" ELSE "for",
                         !.q = IF stop THEN st.q ELSE st.q + 1,
                         !.qstop = IF stop THEN st.q ELSE st.qstop]
Finish ==
  /\ st.pc = "fin"
  /\ st' = LET plq == [k \in 1..QM |-> SumAll(N, st.Pq[k])] IN
           [pc |-> "done", Pq |-> st.Pq, util |-> st.util, qstop |-> st.q,
            plq |-> plq, tpath |-> SeqSum(plq)]
Next == (Seed \/ ((BeginQ \/ Endpoint \/ EndQ \/ Finish) /\ UNCHANGED ref)) /\ UNCHANGED inp
Spec == Init /\ [][Next]_vars
FairSpec == Spec /\ WF_vars(Next)

(* ------------------------------------------------------------ invariants ---------- *)
NoDup(s) == Cardinality(SeqToSet(s)) = Len(s)
Tab == ref.tab

(* the three L0 definitions agree on every input (checked once per input: every          *)
(* behaviour passes pc = "fin" exactly once; initial states are checked single-threaded)  *)
DefsAgreeInv ==
  st.pc = "fin" =>
    /\ \A q \in 1..QM : Tab[q] = FPathsDecl(N, inp.A, SrcSet, q)
    /\ FindPathsDp(N, inp.A, SrcSet, QM) = ref.L

(* facts the docstrings state about the definition itself                              *)
DocNotesInv ==
  st.pc = "fin" =>
    LET L == ref.L IN
    (* "Pq(:,:,N) can only carry entries on the diagonal"; nothing beyond N             *)
    /\ \A q \in 1..QM : q >= N => \A i, j \in 1..N : i # j => L.Pq[q][i][j] = 0
    /\ \A q \in 1..QM : q > N => L.plq[q] = 0
    (* "there cannot be cycles of length 1"                                             *)
    /\ SumDiag(N, L.Pq[1]) = 0
    (* every path of q connections uses q+1 nodes, a cycle q                            *)
    /\ \A q \in 1..QM : SeqSum(L.util[q]) = (q + 1) * L.plq[q] - SumDiag(N, L.Pq[q])
    (* "pcyc[2] is equal to the fraction of reciprocal connections" (all sources)       *)
    /\ (QM >= 2 /\ SrcSet = 1..N) =>
          PcycFrac(N, L.Pq, 2) =
            <<Cardinality({p \in DPairs(N) : inp.A[p[1]][p[2]] # 0 /\ inp.A[p[2]][p[1]] # 0}),
              Cardinality({p \in DPairs(N) : inp.A[p[1]][p[2]] # 0})>>

(* top of the loop over q: `pths` lists, without repetition, exactly the paths of       *)
(* q-1 connections that can be continued; the slices below q are final, the rest empty  *)
ForInv ==
  st.pc = "for" =>
    LET L == ref.L IN
    /\ st.q \in 2..QM
    /\ NoDup(st.pths) /\ SeqToSet(st.pths) = OpenOf(Tab[st.q - 1]) /\ (st.q > 2 => st.pths # <<>>)
    /\ \A k \in 1..(st.q - 1) : st.Pq[k] = L.Pq[k] /\ st.util[k] = L.util[k]
    /\ \A k \in st.q..QM : st.Pq[k] = Zero(N) /\ st.util[k] = ZeroVec(N)
(* inside the loop over the endpoints: npths = the paths of q connections whose node    *)
(* before the last is an endpoint already processed, Pq[q] counts exactly those          *)
EndpInv ==
  st.pc = "endp" =>
    LET todo == SeqToSet(st.endp)
        got == {p \in Tab[st.q] : p[st.q] \notin todo}
    IN /\ NoDup(st.npths) /\ SeqToSet(st.npths) = got
       /\ st.Pq[st.q] = PqOfSet(N, got)
       /\ \A x \in 1..Len(st.npths) : Len(st.npths[x]) = st.q + 1
(* what the caller gets                                                                  *)
FinalInv ==
  st.pc = "done" =>
    LET L == ref.L IN
    /\ st.Pq = L.Pq /\ st.util = L.util /\ st.plq = L.plq /\ st.tpath = L.tpath
    /\ st.qstop = L.qstop
(* the machine never gets stuck before `done` (q grows with every BeginQ .. EndQ round)  *)
ProgressInv == st.pc # "done" => ENABLED Next
Terminates == <>(st.pc = "done")
=============================================================================
