---------------------------- MODULE Trace_Clustering ----------------------------
(* C09 code -> spec: every record is one real call                                  *)
(*   Call(fn, W) -> Return(vectors) | Raise(exc)                                    *)
(* fn in Clustering!AllFns (wu_sign once per coef_type), W[i][j] = (C[i][j]/d)^3    *)
(* built by the harness from the integer matrix C (cube-root numerators) and d.     *)
(* r.out  = list of output vectors (a transitivity is a vector of length 1) as      *)
(*          10^-6 fixed point (nan -> NAN, inf -> INF);                             *)
(* r.zero = same shape, 1 where the returned float == 0.0 exactly, else 0.          *)
(* The oracle is Clustering!Def: the published definitions by triple enumeration.   *)
EXTENDS Clustering, TraceBase

TOL == 2       \* 10^-6 units: rounding of the observation + truncation in ToQ6

ShapeOK(X, Y) == /\ Len(X) = Len(Y)
                 /\ \A v \in 1..Len(Y) : Len(X[v]) = Len(Y[v])

(* Networks with more than SmallN nodes are judged against the SAME definitions         *)
(* enumerated over pairs of neighbours (Clustering Part 1b: DefN = Def, ZeroCaseN =    *)
(* ZeroCase, ... proved by TLC on every model input, ClusteringImpl!                   *)
(* NbrEnumerationEqualsDefinition, and re-checked below on mid-size instances);        *)
(* enumerating all pairs of nodes costs minutes from 60 nodes on.                      *)
SmallN == 10
DriftMaxN == 12        \* the statement-by-statement model multiplies n x n matrices: half the cost of a 40-node record
TheDef(fn, n, C, d) == IF n <= SmallN THEN Def(fn, n, C, d) ELSE DefN(fn, n, C, d)
TheHasTriple(fn, n, C) == IF n <= SmallN THEN HasTriple(fn, n, C) ELSE HasTripleN(fn, n, C)
TheInputClass(fn, n, C) == IF n <= SmallN THEN InputClass(fn, n, C) ELSE InputClassN(fn, n, C)
(* all (v, i) that are zero cases                                                      *)
ZeroCasesHold(fn, n, C, nv, Z) ==
  IF n <= SmallN
  THEN \A v \in 1..nv : \A i \in 1..n : ZeroCase(fn, v, n, C, i) => Z[v][i] = 1
  ELSE \A v \in 1..nv : LET P == PartOf(fn, v, n, C) IN
          \A i \in 1..n : ZeroCaseN(fn, n, P, i) => Z[v][i] = 1

(* mid-size instances (9 nodes: beyond the model instances, below the switch): a dense  *)
(* arithmetic pattern with cube roots -3..3, its non-negative / symmetric / 0-1 forms   *)
AsmN == 9
AsmS == Mat(AsmN, LAMBDA i, j : IF i = j THEN 0 ELSE ((i * i + j * j + 3 * i * j) % 7) - 3)   \* symmetric, signed
AsmD == Mat(AsmN, LAMBDA i, j : IF i = j THEN 0 ELSE IF (2 * i + 5 * j + i * j) % 3 = 0 THEN 0
                                 ELSE ((i + 2 * j) % 3) + 1)                                   \* directed, 0..3
AsmU == Mat(AsmN, LAMBDA i, j : Abs(AsmS[i][j]))
ASSUME NbrEnumerationOnMidSize ==
  /\ \A fn \in SignFns : NbrEnumerationAgrees(fn, AsmN, AsmS, 3)
  /\ \A fn \in {FnWU, FnTWU, FnWD, FnTWD} \cup SignFns : NbrEnumerationAgrees(fn, AsmN, AsmU, 3)
  /\ \A fn \in {FnWD, FnTWD} : NbrEnumerationAgrees(fn, AsmN, AsmD, 3)
  /\ \A fn \in BinaryFns : NbrEnumerationAgrees(fn, AsmN, Bin(AsmN, AsmU), 1)
  /\ \A fn \in {FnBD, FnTBD, FnWD, FnTWD} : NbrEnumerationAgrees(fn, AsmN, Bin(AsmN, AsmD), 1)

JudgeDomain(r) ==
  LET n == r.n  C == r.C  d == r.d  fn == r.fn
      X == TheDef(fn, n, C, d)
      O == r.out
      Z == r.zero
  IN
  (* the statement quantifies over networks on which the value is defined             *)
  Skip("no_connected_triple",   fn \in TransFns /\ ~TheHasTriple(fn, n, C),
  (* "... return the values ..."                                                      *)
  Chk("Returns",                r.raised = "",
  Chk("Shape",                  ShapeOK(O, X) /\ ShapeOK(Z, X),
  (* "... given by their published definitions evaluated by direct enumeration of     *)
  (*  node triples"                                                                   *)
  Chk("EqualsDefinition",       \A v \in 1..Len(X) : \A i \in 1..Len(X[v]) :
                                   NearFrac(O[v][i], X[v][i][1], X[v][i][2], TOL),
  (* "Nodes with fewer than two neighbours or no triangle get exactly zero"           *)
  Chk("ExactZeroCases",         fn \in PerNodeFns => ZeroCasesHold(fn, n, C, Len(X), Z),
  (* "for weights in [0,1] every value lies in [0,1]" (default/zhang work on the      *)
  (*  positive part and on the absolute negative part, both in [0,1])                 *)
  Chk("Range01",                (NonNeg(n, C) \/ fn \in {FnSD, FnSZ}) =>
                                   \A v \in 1..Len(X) : \A i \in 1..Len(X[v]) :
                                      O[v][i] >= 0 /\ O[v][i] <= Q6,
  "ok"))))))

(* drift: does the statement-by-statement model of the code predict the very output?  *)
NearPipe(obs, fr) == IF fr[2] = 0 THEN ~IsFinite(obs)          \* 0/0 -> nan, x/0 -> inf
                     ELSE NearFrac(obs, fr[1], fr[2], TOL)
SamePipe(O, P) == /\ ShapeOK(O, P)
                  /\ \A v \in 1..Len(P) : \A i \in 1..Len(P[v]) : NearPipe(O[v][i], P[v][i])
Drift(r) ==
  IF r.raised # "" \/ r.n > DriftMaxN THEN "na"
  ELSE IF SamePipe(r.out, RunPipe(r.fn, r.n, r.C, r.d)) THEN "same"
  ELSE IF r.fn = FnTWD /\ SamePipe(r.out, RunPipe(FnTWDcoded, r.n, r.C, r.d))
       THEN "differs:per_node_mask_applied_to_the_sum"
  ELSE "differs"

Judge(r) ==
  IF ~(r.fn \in AllFns /\ IsSquare(r.n, r.C) /\ InDomain(r.fn, r.n, r.C, r.d))
  THEN <<"skip:out_of_domain", "na", "any">>
  ELSE <<JudgeDomain(r), Drift(r),
         IF r.dtype = "float" THEN TheInputClass(r.fn, r.n, r.C) ELSE r.dtype \o "_dtype">>

VARIABLES tid, verdict
TInit == tid \in 1..Len(Recs) /\ verdict = <<>>
TNext == /\ verdict = <<>>
         /\ verdict' = Judge(Recs[tid])
         /\ PrintT(VLine(tid, verdict'))
         /\ UNCHANGED tid
TSpec == TInit /\ [][TNext]_<<tid, verdict>>
=============================================================================
