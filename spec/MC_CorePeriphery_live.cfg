SPECIFICATION FairSpec
CONSTANT NN = 3
CONSTANT Wts <- W01
CONSTANT Gammas <- G1
CONSTANT MaxRounds = 2
INVARIANT TypeInv
PROPERTY Terminates
CHECK_DEADLOCK FALSE
