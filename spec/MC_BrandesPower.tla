---- MODULE MC_BrandesPower ----
EXTENDS BrandesPowerImpl
====
