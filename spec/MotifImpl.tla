-------------------------------- MODULE MotifImpl --------------------------------
(* X03, L2: the counting loops of motif{3,4}{struct,funct}_bin as a machine.      *)
(*                                                                               *)
(*   for cu in range(n - K + 1):                         action NextU              *)
(*     V1 = neighbours of cu (> cu)                                                 *)
(*     for v1 in where(V1):                             action NextV1             *)
(*       V2 = neighbours of v1 (> cu) not in V1, or neighbours of cu (> v1)         *)
(*       for v2 in where(V2):                           action NextV2             *)
(*         K = 3: body                                                            *)
(*         K = 4: vz = max(v1, v2)                                                *)
(*           V3 = ((neighbours of v2 (> cu) not in V2, or neighbours of v1 (> v2)) *)
(*                 not in V1), or neighbours of cu (> vz)                          *)
(*           for v3 in where(V3): body                  action NextV3             *)
(*   body: a = the off-diagonal cells of A on (u, v1, v2[, v3]) in column-major   *)
(*         order; structural: s = decimal hash of a, ix = (s == mn), id[ix];      *)
(*         functional: ix = (m . a == n), id[ix] with multiplicities; F[id, nodes]*)
(*         and tot[id] are incremented.                                             *)
(* The library (rows m, hashes mn, edge counts n, ids) is the operator form of    *)
(* make_motif34lib (Motifs!GenId), whose refinement MotifLibImpl proves.          *)
(* The arrays f and F are kept sparsely (absent entry = 0).  Variable names are    *)
(* deliberately unusual (adjm, cu, tot, cnt, vis): TLC resolves formal parameter   *)
(* names of library operators (A, u, f, ...) against the variables when it decides *)
(* which constant definitions to pre-evaluate, and a clash silently disables the   *)
(* caching of the class tables.                                                    *)
(* Neighbourhoods are taken in the symmetrised matrix As = A | A.T.               *)
(*                                                                               *)
(* AsCoded = TRUE reproduces two faults of the Python port (the MATLAB original   *)
(* is AsCoded = FALSE): the neighbour vectors are built as                        *)
(* append(zeros(u), As[u, u+1:n+1]), one entry short, so position p stands for    *)
(* node p+1 but is used as node p; and `V2[V1] = 0` with an integer 0/1 vector V1 *)
(* clears positions 0 and 1 instead of masking.  MC_Motifs_defect.cfg shows that  *)
(* this machine does NOT refine the definition.                                   *)
EXTENDS Motifs
CONSTANTS N,          \* nodes
          K,          \* motif size 3 | 4
          Funct,      \* FALSE structural, TRUE functional
          AsCoded,    \* see above
          Inputs,     \* "dir" all digraphs | "und" all symmetric | "orient" supports x orientation schemes
          Lemmas      \* also check the L0 lemmas (permutation invariance etc.) in the initial state
VARIABLES adjm, pc, cu, L1, i1, L2, i2, L3, i3, tot, cnt, vis
vars == <<adjm, pc, cu, L1, i1, L2, i2, L3, i3, tot, cnt, vis>>

DPairs == {p \in (1..N) \X (1..N) : p[1] # p[2]}
UPairs == {p \in (1..N) \X (1..N) : p[1] < p[2]}
MatOf(E) == Mat(N, LAMBDA i, j : IF <<i, j>> \in E THEN 1 ELSE 0)
Rev(E) == {<<e[2], e[1]>> : e \in E}
Orient(E, s) ==
  CASE s = "both" -> E \cup Rev(E)
    [] s = "fwd"  -> E
    [] s = "alt"  -> {e \in E : (e[1] + e[2]) % 2 = 0} \cup Rev({e \in E : (e[1] + e[2]) % 2 = 1})
    [] s = "mix"  -> {e \in E : (e[1] * e[2]) % 3 # 1} \cup Rev({e \in E : (e[1] + e[2]) % 3 # 0})
InputSet ==
  Tab(CASE Inputs = "dir" -> {MatOf(E) : E \in SUBSET DPairs}
    [] Inputs = "und" -> {MatOf(E \cup Rev(E)) : E \in SUBSET UPairs}
    [] Inputs = "orient" -> {MatOf(Orient(E, s)) : E \in SUBSET UPairs, s \in {"both", "fwd", "alt", "mix"}})

NCls == NumClasses(K)
As == SymSupport(N, adjm)
Asc(S) == SetToSortSeq(S, <)

(* ---- neighbour vectors (as sets of the positions that are TRUE) -------------- *)
(* intended: [false(1,lo) As(x, lo+1:n)]; as coded: position q stands for node q+1 *)
Nb(x, lo) == IF AsCoded THEN {q \in lo..(N - 1) : As[x][q + 1] = 1}
             ELSE {v \in (lo + 1)..N : As[x][v] = 1}
(* V[V1] = 0: a mask; as coded an integer index vector with values 0/1 (positions  *)
(* 1 and 2 of the 1-based rendering)                                               *)
MaskV1(S, V1) == IF AsCoded
                 THEN S \ ((IF (1..(N - 1)) \ V1 # {} THEN {1} ELSE {}) \cup (IF V1 # {} THEN {2} ELSE {}))
                 ELSE S \ V1
V1Of(uu) == Nb(uu, uu)
V2Of(uu, v1) == MaskV1(Nb(v1, uu), V1Of(uu)) \cup Nb(uu, v1)
V3Of(uu, v1, v2) ==
  LET vz == IF v1 > v2 THEN v1 ELSE v2
      a == Nb(v2, uu) \ V2Of(uu, v1)             \* V3[V2] = 0 (V2 is boolean: a mask)
      b == MaskV1(a \cup Nb(v1, v2), V1Of(uu))
  IN b \cup Nb(uu, vz)

(* ---- the library and the look-up --------------------------------------------- *)
IdOfCode(c) == GenId(K)[c]
(* rows by decimal hash: mn -> the library rows with that hash                     *)
HashRows == Tab([h \in {Dec(K, c) : c \in ConnCodes(K)} |-> {c \in ConnCodes(K) : Dec(K, c) = h}])
RowsById == Tab([id \in 1..NCls |-> {c \in ConnCodes(K) : IdOfCode(c) = id}])
BagOfRows(rows) == [id \in {IdOfCode(c) : c \in rows} |-> Cardinality(rows \cap RowsById[id])]
(* structural: ix = (s == mn); none if a is not in the library                     *)
StructIdBag(a) == IF Dec(K, a) \in DOMAIN HashRows THEN BagOfRows(HashRows[Dec(K, a)]) ELSE <<>>
(* functional: every row contained in a (m . a = n), ids with multiplicity         *)
FunctIdBag(a) == BagOfRows({c \in ConnCodes(K) : BitsOf(K, c) \subseteq BitsOf(K, a)})
IdBag(a) == IF Funct THEN FunctIdBag(a) ELSE StructIdBag(a)

(* the arrays f (13|199) and F (13|199 x n) are kept sparsely: only the entries     *)
(* that have been incremented are in the domain (absent = 0)                        *)
Merge(g, h) == [z \in DOMAIN g \cup DOMAIN h |-> BagGet(g, z) + BagGet(h, z)]

Init == /\ adjm \in InputSet
        /\ pc = "u" /\ cu = 1
        /\ L1 = <<>> /\ i1 = 0 /\ L2 = <<>> /\ i2 = 0 /\ L3 = <<>> /\ i3 = 0
        /\ tot = <<>>
        /\ cnt = <<>>
        /\ vis = <<>>

Body(tup) ==
  LET a == TupCode(K, adjm, tup)
      bag == IdBag(a)
      nodes == {tup[k] : k \in 1..K}
  IN /\ tot' = Merge(tot, bag)
     /\ cnt' = Merge(cnt, [z \in (DOMAIN bag) \X nodes |-> bag[z[1]]])
     /\ vis' = Append(vis, tup)

NextU == /\ pc = "u"
         /\ IF cu > N - K + 1 THEN pc' = "done" /\ UNCHANGED <<L1, i1>>
            ELSE pc' = "v1" /\ L1' = Asc(V1Of(cu)) /\ i1' = 1
         /\ UNCHANGED <<adjm, cu, L2, i2, L3, i3, tot, cnt, vis>>
NextV1 == /\ pc = "v1"
          /\ IF i1 > Len(L1) THEN pc' = "u" /\ cu' = cu + 1 /\ UNCHANGED <<L2, i2>>
             ELSE pc' = "v2" /\ L2' = Asc(V2Of(cu, L1[i1])) /\ i2' = 1 /\ UNCHANGED cu
          /\ UNCHANGED <<adjm, L1, i1, L3, i3, tot, cnt, vis>>
NextV2 == /\ pc = "v2"
          /\ IF i2 > Len(L2)
             THEN pc' = "v1" /\ i1' = i1 + 1 /\ UNCHANGED <<i2, L3, i3, tot, cnt, vis>>
             ELSE IF K = 3
                  THEN Body(<<cu, L1[i1], L2[i2]>>) /\ i2' = i2 + 1 /\ UNCHANGED <<pc, i1, L3, i3>>
                  ELSE pc' = "v3" /\ L3' = Asc(V3Of(cu, L1[i1], L2[i2])) /\ i3' = 1
                       /\ UNCHANGED <<i1, i2, tot, cnt, vis>>
          /\ UNCHANGED <<adjm, cu, L1, L2>>
NextV3 == /\ pc = "v3"
          /\ IF i3 > Len(L3)
             THEN pc' = "v2" /\ i2' = i2 + 1 /\ UNCHANGED <<i3, tot, cnt, vis>>
             ELSE Body(<<cu, L1[i1], L2[i2], L3[i3]>>) /\ i3' = i3 + 1 /\ UNCHANGED <<pc, i2>>
          /\ UNCHANGED <<adjm, cu, L1, i1, L2, L3>>
Next == NextU \/ NextV1 \/ NextV2 \/ NextV3
Spec == Init /\ [][Next]_vars

(* ---- invariants ---------------------------------------------------------------- *)
G0 == adjm
NodeSetOf(t) == {t[k] : k \in DOMAIN t}
SeenSets == {NodeSetOf(vis[k]) : k \in DOMAIN vis}
(* the library the machine looks into: ids are a bijection between the motif      *)
(* classes and 1..13 / 1..199 (so "the class of an id" is well defined)            *)
ClsOfId == Tab([id \in 1..NCls |-> CHOOSE cl \in Classes(K) : IdOfCode(cl) = id])
LibInv == /\ DOMAIN GenId(K) = ConnCodes(K)
          /\ \A c, d \in ConnCodes(K) : (IdOfCode(c) = IdOfCode(d)) <=> (ClassTab(K)[c] = ClassTab(K)[d])
          /\ {IdOfCode(c) : c \in ConnCodes(K)} = 1..NCls
(* every visited tuple: K distinct nodes, cu the smallest, weakly connected, and no *)
(* node set is visited twice (the cu < v1 < v2 ordering trick)                      *)
VisitInv ==
  /\ \A k \in DOMAIN vis :
        /\ Cardinality(NodeSetOf(vis[k])) = K
        /\ \A m \in 2..K : vis[k][1] < vis[k][m]
        /\ NodeSetOf(vis[k]) \in ConnSubs(N, G0, K)
  /\ Cardinality(SeenSets) = Len(vis)
(* progress: every connected K-subset whose least node is below cu has been visited *)
ProgressInv ==
  \A S \in ConnSubs(N, G0, K) : Min(S) < cu => S \in SeenSets
(* candidate lists ascend (np.where order)                                          *)
OrderInv == \A L \in {L1, L2, L3} : \A k \in 1..(Len(L) - 1) : L[k] < L[k + 1]
(* the counters, read as <<class, node, count>> / <<class, count>>                  *)
CntTriples == {<<ClsOfId[z[1]], z[2], cnt[z]>> : z \in DOMAIN cnt}
TotPairs == {<<ClsOfId[id], tot[id]>> : id \in DOMAIN tot}
(* the counters always hold the counts over the node sets visited so far            *)
PartialInv ==
  LET occ == Tab([S \in SeenSets |-> ClassTab(K)[SubCode(K, G0, S)]]) IN
  /\ \A z \in DOMAIN cnt : z[1] \in 1..NCls /\ z[2] \in 1..N /\ cnt[z] > 0
  /\ IF Funct THEN CntTriples = FunctTriples(K, occ) /\ TotPairs = FunctTotals(K, occ)
     ELSE CntTriples = StructTriples(occ) /\ TotPairs = StructTotals(occ)
(* refinement: the finished machine has visited exactly the connected K-subsets and *)
(* its counters are the L0 counts                                                   *)
FinalInv ==
  pc = "done" =>
     /\ SeenSets = ConnSubs(N, G0, K)
     /\ Len(vis) = Cardinality(ConnSubs(N, G0, K))
     /\ IF Funct
        THEN LET occs == FunctOccs(N, G0, K) IN
             CntTriples = FunctTriplesDirect(K, occs) /\ TotPairs = FunctTotalsDirect(K, occs)
        ELSE LET occ == StructOcc(N, G0, K) IN
             /\ \A cl \in Classes(K) : BagGet(tot, IdOfCode(cl)) = StructTotal(occ, cl)
             /\ \A cl \in Classes(K) : \A v \in 1..N : BagGet(cnt, <<IdOfCode(cl), v>>) = StructNode(occ, cl, v)

(* the look-up on EVERY pattern (not only those met on the inputs of this model): the   *)
(* structural look-up finds exactly the class of a connected pattern and nothing for a  *)
(* disconnected one; the functional look-up finds the bag of its connected sub-patterns *)
LookupInv ==
  (pc = "u" /\ cu = 1 /\ adjm = Zero(N)) =>
     \A a \in AllCodes(K) :
        LET bag == IdBag(a)
            asCls == {<<ClsOfId[id], bag[id]>> : id \in DOMAIN bag}
        IN IF Funct
           THEN LET subs == SubPatterns(K, a) IN
                asCls = {<<cl, Cardinality({d \in subs : ClassTab(K)[d] = cl})>> : cl \in {ClassTab(K)[d] : d \in subs}}
           ELSE asCls = (IF a \in ConnCodes(K) THEN {<<ClassTab(K)[a], 1>>} ELSE {})

(* ---- L0 lemmas, checked on every input (initial states only) -------------------- *)
AtStart == pc = "u" /\ cu = 1 /\ Lemmas
(* sum of the structural counts = number of connected induced K-subgraphs; the       *)
(* per-node counts of a class add up to K x its total                                 *)
SumInv ==
  AtStart =>
     LET occ == StructOcc(N, G0, K) IN
     /\ Sum(Classes(K), LAMBDA cl : StructTotal(occ, cl)) = Cardinality(ConnSubs(N, G0, K))
     /\ \A cl \in Classes(K) : Sum(1..N, LAMBDA v : StructNode(occ, cl, v)) = K * StructTotal(occ, cl)
(* second formulations agree: "connected K-subset" by reachability in the induced     *)
(* symmetrised graph; functional counts via the fixed sub-class bag of each class;    *)
(* the sparse <<class, node, count>> form = the dense table                            *)
CrossInv ==
  AtStart =>
     LET occ == StructOcc(N, G0, K)
         occs == FunctOccs(N, G0, K)
         sym == SymSupport(N, G0)
         inside(S) == Mat(N, LAMBDA i, j : IF i \in S /\ j \in S THEN sym[i][j] ELSE 0)
     IN /\ ConnSubs(N, G0, K) = {S \in kSubset(K, 1..N) : \A s \in S : S \subseteq ReachSet(N, inside(S), s)}
        /\ FunctTriples(K, occ) = FunctTriplesDirect(K, occs)
        /\ FunctTotals(K, occ) = FunctTotalsDirect(K, occs)
        /\ \A cl \in Range(occ) : FunctTotal(K, occs, cl) >= StructTotal(occ, cl)
        /\ StructTriples(occ) = {<<cl, v, StructNode(occ, cl, v)>> : cl \in Classes(K), v \in 1..N}
                                  \ {<<cl, v, 0>> : cl \in Classes(K), v \in 1..N}
        /\ StructTotals(occ) = {<<cl, StructTotal(occ, cl)>> : cl \in Classes(K)} \ {<<cl, 0>> : cl \in Classes(K)}
(* counts are invariant under relabelling the nodes: in B = A[p][p] node v plays the   *)
(* role of node p[v] of A                                                              *)
PermInv ==
  AtStart =>
     LET tr == StructTriples(StructOcc(N, G0, K))
         ft == FunctTriples(K, StructOcc(N, G0, K)) IN
     \A p \in PermsOf(N) :
        LET occB == StructOcc(N, Permuted(N, G0, p), K)
        IN /\ {<<t[1], p[t[2]], t[3]>> : t \in StructTriples(occB)} = tr
           /\ {<<t[1], p[t[2]], t[3]>> : t \in FunctTriples(K, occB)} = ft
=============================================================================
