SPECIFICATION Spec
CONSTANT N = 3
CONSTANT Sym = FALSE
CONSTANT WMax = 2
INVARIANT PrepareInv
INVARIANT PickInv
INVARIANT ResultLegalInv
INVARIANT FamilyInv
INVARIANT RoundInv
CHECK_DEADLOCK FALSE
