SPECIFICATION Spec
CONSTANT N = 3
CONSTANT Und = FALSE
CONSTANT Gen = TRUE
CONSTANT KMax = 99
CHECK_DEADLOCK FALSE
INVARIANT TypeOK
INVARIANT PrefixInv
INVARIANT DoneContract
INVARIANT DoneIsRandResult
