SPECIFICATION Spec
CONSTANT N = 4
CONSTANT Dir = TRUE
CONSTANT Finetune = FALSE
CONSTANT GN = 1
CONSTANT GD = 1
CONSTANT WMax = 1
CONSTANT Gen = TRUE
CONSTANT MaxSweeps = 50
CHECK_DEADLOCK FALSE
