SPECIFICATION Spec
CONSTANT N = 4
CONSTANT Objective = "modularity"
CONSTANT Dir = TRUE
CONSTANT GN = 1
CONSTANT GD = 1
CONSTANT Vals <- V01
CONSTANT Gen = FALSE
CONSTANT AllStarts = TRUE
CHECK_DEADLOCK FALSE
INVARIANT BookkeepingInv
INVARIANT AggregationInv
INVARIANT ObjIsModularity
PROPERTY MoveRaisesObj
