SPECIFICATION Spec
CONSTANT N = 5
CONSTANT Kind = "bu"
CONSTANT WMax = 1
INVARIANT SubnetworkInv
INVARIANT CoreSafeInv
INVARIANT IterInv
INVARIANT ResultIsCoreInv
INVARIANT UniqueInv
INVARIANT PeelSetInv
INVARIANT OperatorInv
INVARIANT NestedInv
INVARIANT PeelOnceInv
INVARIANT CorenessInv
CHECK_DEADLOCK FALSE
