SPECIFICATION Spec
CONSTANT NN = 3
CONSTANT Kind = "dir"
CONSTANT LoopNodes = {}
CONSTANT Checks = {"prob", "match"}
INVARIANT BfsInv
INVARIANT ReachInv
INVARIANT ProbInv
INVARIANT MatchInv
CHECK_DEADLOCK FALSE
