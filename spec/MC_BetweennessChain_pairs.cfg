SPECIFICATION Spec
CONSTANT Mode = "pairs"
INVARIANT WellFormedInv
INVARIANT EdgeSetInv
INVARIANT AgreesDInv
INVARIANT AgreesEInv
CHECK_DEADLOCK FALSE
