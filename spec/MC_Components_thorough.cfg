SPECIFICATION Spec
CONSTANT N = 6
INVARIANT DisjointInv
INVARIANT PartialInv
INVARIANT FinalInv
INVARIANT OracleInv
CHECK_DEADLOCK FALSE
