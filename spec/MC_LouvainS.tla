---- MODULE MC_LouvainS ----
EXTENDS LouvainSImpl
VS == {-1, 0, 1}
VS2 == {-2, -1, 0, 1}
====
