SPECIFICATION Spec
CONSTANT N = 4
CONSTANT Sym = FALSE
CONSTANT WMax = 1
CHECK_DEADLOCK FALSE
