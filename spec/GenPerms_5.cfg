SPECIFICATION Spec
CONSTANT N = 5
CHECK_DEADLOCK FALSE
