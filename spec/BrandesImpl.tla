-------------------------------- MODULE BrandesImpl --------------------------------
(* C08, L2: the machines of bct/algorithms/centrality.py                          *)
(*   rt = "wei": betweenness_wei / edge_betweenness_wei (identical loops; the     *)
(*               edge routine additionally accumulates EBC) - Dijkstra phase      *)
(*   rt = "bin": edge_betweenness_bin - breadth-first phase with D as a flag      *)
(* One action per loop body, python variable names:                               *)
(*   Oracle    ghost step (not in the code): tabulates the L0 answer in `orc`      *)
(*   Begin / NextSource                                                            *)
(*             `for u in range(n)` header: D, NP, S, P, Q, q, G1/Gu, V = [u]      *)
(*   Visit     body of `for v in V` (Q[q]=v; q-=1; the relaxations `for w in W`   *)
(*             folded in increasing w, exactly as np.where yields them)           *)
(*   Advance   tail of the `while` body: break / unreachable nodes into the       *)
(*             leading slots of Q / next V (and the head of the next iteration:   *)
(*             S[V]=0, G1[:,V]=0)                                                  *)
(*   Back      body of `for w in Q[:n-1]` (inner `for v in where(P[w,:])` folded) *)
(* Indices: python slot i = TLA slot i+1; python q (next slot to fill) = q-1 here, *)
(* so python Q[:q+1] is slots 1..q and python Q[:n-1] is slots 1..N-1.            *)
(* Python's zero-initialised Q names node index 0 = node 1 here.                  *)
(* Slack = 0 is the intended fill `Q[:q+1] = unreachable`; Slack = 1 models the   *)
(* present text of edge_betweenness_bin (`Q[:q]`), with numpy's assignment rule:  *)
(* equal sizes copy, a one-element source broadcasts, anything else raises.       *)
(* DP, BC, EBC are exact fractions <<p, q>> (BctRational).                        *)
(* Inputs (Init): every binary graph of the Kind on N nodes for both routines;     *)
(* for "wei" also every graph with <= MaxEdges connections and lengths in Lens.    *)
EXTENDS Betweenness

CONSTANTS N, Kind, Lens, MaxEdges, Routines, Slack
VARIABLES G, rt, u, pc, D, NP, S, P, Q, q, G1, V, vi, DP, bi, BC, EBC, orc
vars == <<G, rt, u, pc, D, NP, S, P, Q, q, G1, V, vi, DP, bi, BC, EBC, orc>>

UPairs == {p \in (1..N) \X (1..N) : p[1] < p[2]}
DPairs == {p \in (1..N) \X (1..N) : p[1] # p[2]}
Slots == IF Kind = "dir" THEN DPairs ELSE UPairs
(* matrix of the graph with support E (a set of slots) and lengths f : E -> Nat   *)
MatOf(E, f) ==
  Mat(N, LAMBDA i, j :
        IF <<i, j>> \in E THEN f[<<i, j>>]
        ELSE IF Kind = "und" /\ <<j, i>> \in E THEN f[<<j, i>>] ELSE 0)
(* inputs: every binary graph, and (for the length-based routines) every graph     *)
(* with at most MaxEdges connections whose lengths are drawn from Lens             *)
InputOK(r, g) ==
  \E E \in SUBSET Slots :
    \E f \in [E -> IF r = "bin" \/ Cardinality(E) > MaxEdges THEN {1} ELSE Lens] :
      g = MatOf(E, f)

F0 == <<0, 1>>
FAdd(a, b) == FracNorm(FracAdd(a, b))
ZeroVec == [k \in 1..N |-> 0]
ZeroFVec == [k \in 1..N |-> F0]
ZeroCols(M, cols) == Mat(N, LAMBDA i, j : IF j \in cols THEN 0 ELSE M[i][j])

(* ---- `for u in range(n)` header ------------------------------------------- *)
Source(src) ==
  /\ u' = src
  /\ D' = [k \in 1..N |-> IF rt = "wei" THEN (IF k = src THEN 0 ELSE INF)
                                         ELSE (IF k = src THEN 1 ELSE 0)]
  /\ NP' = [k \in 1..N |-> IF k = src THEN 1 ELSE 0]
  /\ S' = (1..N) \ {src}                  \* S[V] = 0 of the first iteration
  /\ P' = Zero(N)
  /\ Q' = [k \in 1..N |-> 1]              \* np.zeros: every slot names node index 0
  /\ q' = N
  /\ G1' = ZeroCols(G, {src})             \* G1[:, V] = 0 of the first iteration
  /\ V' = <<src>>
  /\ vi' = 1
  /\ DP' = ZeroFVec
  /\ bi' = 1
  /\ pc' = "visit"

Init == /\ rt \in Routines
        /\ InputOK(rt, G)
        /\ pc = "init" /\ u = 0
        /\ D = ZeroVec /\ NP = ZeroVec /\ S = {} /\ P = Zero(N) /\ Q = ZeroVec /\ q = 0
        /\ G1 = G /\ V = <<>> /\ vi = 0 /\ DP = ZeroFVec /\ bi = 0
        /\ BC = ZeroFVec /\ EBC = Mat(N, LAMBDA i, j : F0)
        /\ orc = <<>>

(* ghost step: the L0 answer for this input, by explicit enumeration of the      *)
(* minimum-length paths, is tabulated once (TLC would otherwise recompute it in  *)
(* every invariant of every state); the machine never reads orc                   *)
GL == IF rt = "bin" THEN Bin(N, G) ELSE G        \* the length matrix the routine sees
Oracle == /\ pc = "init"
          /\ pc' = "start"
          /\ orc' = LET T == MinPathTable(N, GL)
                        B == BetwE(N, GL) IN
                    [d    |-> Mat(N, LAMBDA s, t : IF s = t THEN 0 ELSE DistE(GL, T, s, t)),
                     sig  |-> Mat(N, LAMBDA s, t : IF s = t THEN 1 ELSE SigmaE(T, s, t)),
                     den  |-> B.den, node |-> B.node, edge |-> B.edge,
                     depN |-> Mat(N, LAMBDA s, v : DepNodeE(N, T, B.den, s, v)),
                     depE |-> [s \in 1..N |-> Mat(N, LAMBDA a, b : DepEdgeE(N, T, B.den, s, a, b))]]
          /\ UNCHANGED <<G, rt, u, D, NP, S, P, Q, q, G1, V, vi, DP, bi, BC, EBC>>
Begin == /\ pc = "start"
         /\ Source(1)
         /\ UNCHANGED <<G, rt, BC, EBC, orc>>

(* ---- one relaxation, body of `for w in W` --------------------------------- *)
RelaxWei(st, v, w) ==
  LET Duw == st.D[v] + G1[v][w] IN
  IF Duw < st.D[w]
  THEN [D |-> [st.D EXCEPT ![w] = Duw],
        NP |-> [st.NP EXCEPT ![w] = st.NP[v]],
        P |-> [st.P EXCEPT ![w] = [k \in 1..N |-> IF k = v THEN 1 ELSE 0]]]
  ELSE IF Duw = st.D[w]
  THEN [st EXCEPT !.NP[w] = st.NP[w] + st.NP[v], !.P[w][v] = 1]
  ELSE st
RelaxBin(st, v, w) ==
  IF st.D[w] # 0
  THEN [st EXCEPT !.NP[w] = st.NP[w] + st.NP[v], !.P[w][v] = 1]
  ELSE [st EXCEPT !.D[w] = 1, !.NP[w] = st.NP[v], !.P[w][v] = 1]

(* ---- body of `for v in V` -------------------------------------------------- *)
Visit ==
  /\ pc = "visit"
  /\ LET v == V[vi]
         W == Ascending(N, {w \in 1..N : G1[v][w] # 0})
         st == FoldLeft(LAMBDA acc, w : IF rt = "wei" THEN RelaxWei(acc, v, w) ELSE RelaxBin(acc, v, w),
                        [D |-> D, NP |-> NP, P |-> P], W)
     IN /\ Q' = [Q EXCEPT ![q] = v]
        /\ q' = q - 1
        /\ D' = st.D /\ NP' = st.NP /\ P' = st.P
  /\ vi' = vi + 1
  /\ pc' = IF vi = Len(V) THEN "advance" ELSE "visit"
  /\ UNCHANGED <<G, rt, u, S, G1, V, DP, bi, BC, EBC, orc>>

(* numpy `Q[:k] = idx` *)
SliceAssign(k, idx) ==
  IF Len(idx) = k THEN [i \in 1..N |-> IF i <= k THEN idx[i] ELSE Q[i]]
  ELSE IF Len(idx) = 1 THEN [i \in 1..N |-> IF i <= k THEN idx[1] ELSE Q[i]]
  ELSE <<>>                                          \* ValueError
NextRound(newV) ==
  /\ V' = newV /\ vi' = 1 /\ pc' = "visit"
  /\ S' = S \ SeqToSet(newV)
  /\ G1' = ZeroCols(G1, SeqToSet(newV))
  /\ UNCHANGED <<Q>>
FillAndLeave(idx) ==
  LET k == IF q - Slack < 0 THEN 0 ELSE q - Slack
      Q2 == SliceAssign(k, idx) IN
  /\ Q' = IF Q2 = <<>> THEN Q ELSE Q2
  /\ pc' = IF Q2 = <<>> THEN "raised" ELSE "back"
  /\ UNCHANGED <<V, vi, S, G1>>
Leave == pc' = "back" /\ UNCHANGED <<Q, V, vi, S, G1>>

(* ---- tail of the `while` body --------------------------------------------- *)
AdvanceWei ==
  IF S = {} THEN Leave                                       \* D[S].size == 0
  ELSE LET m == MinOf({D[k] : k \in S}) IN
       IF IsInf(m) THEN FillAndLeave(Ascending(N, {k \in 1..N : IsInf(D[k])}))
       ELSE NextRound(Ascending(N, {k \in 1..N : D[k] = m}))
AdvanceBin ==
  LET nv == Ascending(N, {w \in 1..N : \E i \in 1..Len(V) : G1[V[i]][w] # 0}) IN
  IF nv # <<>> THEN NextRound(nv)                            \* while V.size
  ELSE IF \E k \in 1..N : D[k] = 0
       THEN FillAndLeave(Ascending(N, {k \in 1..N : D[k] = 0}))
       ELSE Leave
Advance ==
  /\ pc = "advance"
  /\ IF rt = "wei" THEN AdvanceWei ELSE AdvanceBin
  /\ UNCHANGED <<G, rt, u, D, NP, P, q, DP, bi, BC, EBC, orc>>

(* ---- body of `for w in Q[:n-1]` ------------------------------------------- *)
Back ==
  /\ pc = "back"
  /\ LET w == Q[bi]
         preds == Ascending(N, {v \in 1..N : P[w][v] # 0})
         (* DPvw = (1 + DP[w]) * NP[v] / NP[w]  (DP[w] is not touched inside)   *)
         DPvw(v) == FracNorm(<<(DP[w][2] + DP[w][1]) * NP[v], DP[w][2] * NP[w]>>)
         st == FoldLeft(LAMBDA acc, v :
                          [dp |-> [acc.dp EXCEPT ![v] = FAdd(acc.dp[v], DPvw(v))],
                           ebc |-> [acc.ebc EXCEPT ![v][w] = FAdd(acc.ebc[v][w], DPvw(v))]],
                        [dp |-> DP, ebc |-> EBC], preds)
     IN /\ BC' = [BC EXCEPT ![w] = FAdd(BC[w], DP[w])]
        /\ DP' = st.dp
        /\ EBC' = st.ebc
  /\ bi' = bi + 1
  /\ pc' = IF bi = N - 1 THEN "next" ELSE "back"
  /\ UNCHANGED <<G, rt, u, D, NP, S, P, Q, q, G1, V, vi, orc>>

NextSource ==
  /\ pc = "next"
  /\ IF u < N THEN Source(u + 1)
     ELSE /\ pc' = "done"
          /\ UNCHANGED <<u, D, NP, S, P, Q, q, G1, V, vi, DP, bi>>
  /\ UNCHANGED <<G, rt, BC, EBC, orc>>

Next == Oracle \/ Begin \/ Visit \/ Advance \/ Back \/ NextSource
Spec == Init /\ [][Next]_vars

(* ========================== invariants ======================================== *)
InPhase == pc \in {"visit", "advance"}
AfterPhase == pc \in {"back", "next"}
Filled == {Q[i] : i \in (q + 1)..N}
du(k) == orc.d[u][k]                 \* L0 distance from the current source

(* L0 oracle cross-check, once per input: enumeration = DP-style definition,      *)
(* and the sum identities on binary graphs                                         *)
OracleInv == pc = "start" => /\ OracleAgree(N, G)
                             /\ IsBinary(N, G) => SumIdentitiesL0(N, G)

NoRaise == pc # "raised"

(* the queue: filled from the back with the permanent nodes in order of           *)
(* non-decreasing distance (so front-to-back non-increasing), source last;        *)
(* after the phase the leading slots 1..q hold exactly the unreachable nodes      *)
(* and Q is a permutation of the nodes                                            *)
QueueInv ==
  /\ InPhase =>
       /\ q \in 0..N
       /\ Cardinality(Filled) = N - q
       /\ Filled \cap S = {}
       /\ \A i, j \in (q + 1)..N : i < j => du(Q[i]) >= du(Q[j])
       /\ q < N => Q[N] = u
  /\ AfterPhase =>
       /\ {Q[i] : i \in 1..N} = 1..N
       /\ {Q[i] : i \in 1..q} = {k \in 1..N : du(k) >= INF}
       /\ \A i, j \in 1..N : i < j => du(Q[i]) >= du(Q[j])
       /\ Q[N] = u

(* Dijkstra / BFS phase: permanent nodes carry the final distance, path count     *)
(* and predecessor row; after the phase this holds for every node                 *)
Len0(v, w) == IF v = w THEN 0 ELSE IF rt = "bin" /\ G[v][w] # 0 THEN 1 ELSE G[v][w]   \* = GL[v][w]
IsPred(v, w) == Len0(v, w) > 0 /\ du(v) < INF /\ du(v) + Len0(v, w) = du(w)
Settled(k) ==
  /\ IF rt = "wei" THEN D[k] = du(k) ELSE (D[k] # 0) <=> (du(k) < INF)
  /\ NP[k] = orc.sig[u][k]
  /\ \A v \in 1..N : (P[k][v] # 0) <=> (k # u /\ IsPred(v, k))
PhaseInv ==
  /\ InPhase => \A k \in Filled : Settled(k)
  /\ AfterPhase => \A k \in 1..N : Settled(k)

FEq(f, num, den) == f[2] > 0 /\ FracEq(f[1], f[2], num, den)
(* back-propagation: at "next" DP[v] is the dependency of u on v, and the         *)
(* running totals BC/EBC hold the shares of sources 1..u                           *)
DepInv ==
  pc = "next" =>
  /\ \A v \in 1..N : v # u => FEq(DP[v], orc.depN[u][v], orc.den)
  /\ \A v \in 1..N : FEq(BC[v], Sum(1..u, LAMBDA s : orc.depN[s][v]), orc.den)
  /\ \A a, b \in 1..N : FEq(EBC[a][b], Sum(1..u, LAMBDA s : orc.depE[s][a][b]), orc.den)

(* result = L0 definition (by enumeration)                                         *)
ResultInv ==
  pc = "done" =>
    /\ \A v \in 1..N : FEq(BC[v], orc.node[v], orc.den)
    /\ \A a, b \in 1..N : FEq(EBC[a][b], orc.edge[a][b], orc.den)
=============================================================================
