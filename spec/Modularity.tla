-------------------------------- MODULE Modularity --------------------------------
(* C02 / C07 / C14.  L0: modularity of a partition as exact integers.              *)
(*                                                                                *)
(* W integer matrix, ci a label vector (any labels), gamma = gn/gd.                *)
(*   Q(W,ci) = (1/s) * SUM_{ci[i]=ci[j]} ( W[i][j] - gamma*ko[i]*ki[j]/s )         *)
(*           = QNum / QDen,  QNum = gd*s*In - gn*KK,  QDen = gd*s*s                *)
(* (undirected is the symmetric case).  Signed:  Q = d0*Q0 - d1*Q1 with Q0, Q1     *)
(* the un-normalised within-module sums of the positive / negative parts and       *)
(* (d0,d1) given by qtype (sta, pos, smp, gja, neg).                               *)
(* Domain bounds (32-bit): unsigned n<=8, w<=3, gd<=4; signed n<=6, |w|<=2.        *)
EXTENDS BctRational

Same(ci, i, j) == ci[i] = ci[j]
InSum(n, W, ci) == Sum((1..n) \X (1..n), LAMBDA c : IF Same(ci, c[1], c[2]) THEN W[c[1]][c[2]] ELSE 0)
KKSum(n, W, ci) ==
  LET ko == [i \in 1..n |-> OutStr(n, W, i)]
      ki == [j \in 1..n |-> InStr(n, W, j)]
  IN Sum((1..n) \X (1..n), LAMBDA c : IF Same(ci, c[1], c[2]) THEN ko[c[1]] * ki[c[2]] ELSE 0)

(* A = gd*s*In - gn*KK : the numerator shared by all variants (Q_unnormalised = A/(gd*s)) *)
ANum(n, W, ci, gn, gd) == gd * Total(n, W) * InSum(n, W, ci) - gn * KKSum(n, W, ci)

(* unsigned (und / dir) *)
QNum(n, W, ci, gn, gd) == ANum(n, W, ci, gn, gd)
QDen(n, W, gd) == gd * Total(n, W) * Total(n, W)

(* signed *)
PosW(n, W) == Mat(n, LAMBDA i, j : IF W[i][j] > 0 THEN W[i][j] ELSE 0)
NegW(n, W) == Mat(n, LAMBDA i, j : IF W[i][j] < 0 THEN -W[i][j] ELSE 0)
QTypes == {"sta", "pos", "smp", "gja", "neg"}
(* Q = A0/D0 - A1/D1 with D0, D1 > 0 (a vanishing part contributes 0)               *)
SignedParts(n, W, ci, gn, gd, qtype) ==
  LET W0 == PosW(n, W)  W1 == NegW(n, W)
      s0 == Total(n, W0)  s1 == Total(n, W1)
      A0 == ANum(n, W0, ci, gn, gd)  A1 == ANum(n, W1, ci, gn, gd)
      use0 == s0 > 0 /\ qtype # "neg"
      use1 == s1 > 0 /\ qtype # "pos"
      D0 == IF qtype \in {"sta", "smp", "pos"} THEN gd * s0 * s0 ELSE gd * s0 * (s0 + s1)
      D1 == IF qtype \in {"smp", "neg"} THEN gd * s1 * s1 ELSE gd * s1 * (s0 + s1)
  IN [A0 |-> IF use0 THEN A0 ELSE 0, D0 |-> IF use0 THEN D0 ELSE 1,
      A1 |-> IF use1 THEN A1 ELSE 0, D1 |-> IF use1 THEN D1 ELSE 1]
(* one integer that orders partitions of the same (W, gamma, qtype) by Q            *)
SignedNum(n, W, ci, gn, gd, qtype) ==
  LET p == SignedParts(n, W, ci, gn, gd, qtype)
      g == Gcd(p.D0, p.D1)
  IN p.A0 * (p.D1 \div g) - p.A1 * (p.D0 \div g)

(* observed q (10^-6 fixed point) equals the definition                              *)
QMatches(qobs, n, W, ci, gn, gd) == NearFrac(qobs, QNum(n, W, ci, gn, gd), QDen(n, W, gd), 2)
SignedQMatches(qobs, n, W, ci, gn, gd, qtype) ==
  LET p == SignedParts(n, W, ci, gn, gd, qtype) IN
  IsFinite(qobs) /\ Abs(qobs - (ToQ6(p.A0, p.D0) - ToQ6(p.A1, p.D1))) <= 3

(* labels form exactly 1..k                                                           *)
Labels1toK(n, ci) == Len(ci) = n /\ \E k \in 0..n : {ci[i] : i \in 1..n} = 1..k
SamePartition(n, c1, c2) == \A i, j \in 1..n : (c1[i] = c1[j]) <=> (c2[i] = c2[j])
(* np.unique(x, return_inverse=True)[1] + 1 : rank of each label                      *)
Canon(n, ci) == [i \in 1..n |-> Cardinality({ci[j] : j \in {x \in 1..n : ci[x] < ci[i]}}) + 1]
=============================================================================
