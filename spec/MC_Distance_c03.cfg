SPECIFICATION FairSpec
CONSTANT Machines <- C03Machines
CONSTANT DjDomains <- QDj
CONSTANT FwDomains <- QFw
CONSTANT BinDomains <- QBin
CONSTANT BfsDomains <- QBfs
CONSTANT NavDomains <- None
INVARIANT OracleInv
INVARIANT FastOracleInv
INVARIANT DjRowsDoneInv
INVARIANT DjWhileInv
INVARIANT DjFinalInv
INVARIANT FwForInv
INVARIANT FwFinalInv
INVARIANT FwRetrieveInv
INVARIANT AbWhileInv
INVARIANT AbFinalInv
INVARIANT BrWhileInv
INVARIANT BrFinalInv
INVARIANT RdCallInv
INVARIANT RdFinalInv
INVARIANT NavWalkInv
INVARIANT NavCountInv
INVARIANT NavFailInv
INVARIANT NavArriveInv
INVARIANT NavBoundInv
INVARIANT NavFinalInv
PROPERTY Terminates
CHECK_DEADLOCK FALSE
