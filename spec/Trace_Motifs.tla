---------------------------- MODULE Trace_Motifs ----------------------------
(* X03 code -> spec: every record is one real call of bct/algorithms/motifs.py,      *)
(* judged against the L0 definitions of Motifs.tla.  r.kind:                         *)
(*   "count"   motif{3,4}{struct,funct}_bin(A)        -> (f, F)                      *)
(*   "wei"     motif{3,4}{struct,funct}_wei(W)        -> (I, Q, F),  W = 2^-Gx on A  *)
(*   "lib"     the arrays of a library file: the bundled motif34lib.mat              *)
(*             (fn = motif34lib) or the file written by make_motif34lib()           *)
(*   "iso"     find_motif34(m, K)      -> all isomorphs of motif m                   *)
(*   "ident"   find_motif34(matrix)    -> motif id of the matrix                     *)
(*   "bad"     find_motif34 with a class / matrix size other than 3, 4               *)
(*   "default" find_motif34(1, 3) exactly as installed (library found?)              *)
(* Arrays arrive sparsely: r.f = [[id, value]..], r.F / r.I / r.Q = [[id, node,      *)
(* value]..] (nonzero entries, 1-based; I, Q in 10^-6 fixed point), shapes apart.    *)
(* r.rep[id] = code of one library row with that id, as loaded (with scipy, like the *)
(* code does) from the library file the code reads: it fixes which class an          *)
(* output row stands for; it must be a bijection ids <-> classes.                    *)
EXTENDS Motifs, TraceBase

SeqRange(s) == {s[i] : i \in DOMAIN s}
NoSelfLoops(n, A) == \A i \in 1..n : A[i][i] = 0
Ident(K) == [k \in 1..K |-> k]
MatCode(K, M) == TupCode(K, M, Ident(K))
IsKxK(K, M) == DOMAIN M = 1..K /\ \A i \in 1..K : DOMAIN M[i] = 1..K

Cls(r) == ClsOfReps(r.k, r.rep)
(* observed sparse entries with the id replaced by the class it stands for          *)
ObsPairs(r, tr) == {<<Cls(r)[t[1]], t[2]>> : t \in SeqRange(tr)}
ObsTriples(r, tr) == {<<Cls(r)[t[1]], t[2], t[3]>> : t \in SeqRange(tr)}
IdsInRange(r, tr) == \A t \in SeqRange(tr) : t[1] \in 1..NumClasses(r.k)

SubClassName(n, G, K) ==
  LET m == Cardinality(ConnSubs(n, G, K)) IN
  IF n < K THEN "fewer_than_k_nodes"
  ELSE IF m = 0 THEN "no_connected_subgraph"
  ELSE IF m = 1 THEN "one_connected_subgraph"
  ELSE "several_connected_subgraphs"

(* ------------------------------ binary counts ---------------------------------- *)
JudgeCount(r) ==
  LET n == r.n  K == r.k
      occ == StructOcc(n, r.A, K) IN
  Skip("self_loops",                   ~NoSelfLoops(n, r.A),
  Skip("library_not_a_bijection",      ~RepsAreBijection(K, r.rep),
  \* the call returns
  Chk("Returns",                       r.raised = "",
  \* "f : 13|199 motif frequency vector, F : 13|199 x N motif frequency matrix" (whole numbers)
  Chk("ShapeClassesByNodes",           r.fshape = <<NumClasses(K)>> /\ r.Fshape = <<NumClasses(K), n>>
                                       /\ r.whole = 1 /\ IdsInRange(r, r.f) /\ IdsInRange(r, r.F),
  \* f[id] = number of motifs of class id in the graph (structural: connected induced
  \* K-subgraphs; functional: their connected sub-patterns)
  Chk("TotalsAreMotifCounts",          ObsPairs(r, r.f) =
                                         (IF r.funct = 1 THEN FunctTotals(K, occ) ELSE StructTotals(occ)),
  \* F[id, v] = number of those motifs that node v takes part in
  Chk("NodeCountsAreParticipation",    ObsTriples(r, r.F) =
                                         (IF r.funct = 1 THEN FunctTriples(K, occ) ELSE StructTriples(occ)),
  "ok"))))))

(* ------------------------------ weighted --------------------------------------- *)
Near(obs, lo, hi, tol) == IsFinite(obs) /\ lo - tol <= obs /\ obs <= hi + tol
Lookup(tr, cl, v, cls) ==
  LET hit == {t \in SeqRange(tr) : cls[t[1]] = cl /\ t[2] = v}
  IN IF hit = {} THEN 0 ELSE (CHOOSE t \in hit : TRUE)[3]
JudgeWei(r) ==
  LET n == r.n  K == r.k
      occs == IF r.funct = 1 THEN WFunctOccs(n, r.A, r.Gx, K) ELSE WStructOccs(n, r.A, r.Gx, K)
      exp == WTriples(occs)
      keys == {<<e[1], e[2]>> : e \in exp}
      cls == Cls(r)
  IN
  Skip("self_loops",                   ~NoSelfLoops(n, r.A),
  Skip("library_not_a_bijection",      ~RepsAreBijection(K, r.rep),
  Skip("too_many_occurrences",         \E e \in exp : e[3] > 2000,
  Chk("Returns",                       r.raised = "",
  \* "I, Q, F : 13|199 x N"
  Chk("ShapeClassesByNodes",           /\ r.Ishape = <<NumClasses(K), n>> /\ r.Qshape = r.Ishape /\ r.Fshape = r.Ishape
                                       /\ r.whole = 1
                                       /\ IdsInRange(r, r.I) /\ IdsInRange(r, r.Q) /\ IdsInRange(r, r.F),
  \* F as in the binary routine
  Chk("FrequencyIsParticipation",      ObsTriples(r, r.F) = {<<e[1], e[2], e[3]>> : e \in exp},
  \* I[id, v] = sum over the motifs of class id around v of the geometric mean of the weights
  Chk("IntensityIsSumOfGeometricMeans", /\ ObsPairs(r, r.I) \subseteq keys
                                        /\ \A e \in exp : Near(Lookup(r.I, e[1], e[2], cls), e[4], e[5], 2),
  \* Q[id, v] = sum of geometric mean / arithmetic mean
  Chk("CoherenceIsSumOfRatios",        /\ ObsPairs(r, r.Q) \subseteq keys
                                       /\ \A e \in exp : Near(Lookup(r.Q, e[1], e[2], cls), e[6], e[7], 2),
  "ok"))))))))

(* ------------------------------ library ---------------------------------------- *)
(* r.rows = [[code, id, n, hi, lo]..], r.bits = the 0/1 rows themselves             *)
LibOf(r) == [k \in DOMAIN r.rows |-> [code |-> r.rows[k][1], id |-> r.rows[k][2], n |-> r.rows[k][3],
                                      hi |-> r.rows[k][4], lo |-> r.rows[k][5]]]
BitsAgree(r) ==
  /\ Len(r.bits) = Len(r.rows)
  /\ \A k \in DOMAIN r.bits :
        /\ Len(r.bits[k]) = NC(r.k)
        /\ \A t \in 1..NC(r.k) : r.bits[k][t] \in {0, 1}
        /\ r.rows[k][1] = CodeOfBits(r.k, {t \in 1..NC(r.k) : r.bits[k][t] = 1})
JudgeLib(r) ==
  LET K == r.k  lib == LibOf(r) IN
  \* make_motif34lib() runs and writes the file
  Chk("Returns",                       r.raised = "",
  \* a second call leaves an existing library alone ("motif34lib already exists")
  Chk("ExistingLibraryKept",           r.kept = 1,
  \* m: rows x K(K-1) of 0/1, mn / id / n: one entry per row
  Chk("LibraryArraysWellFormed",       r.malformed = "" /\ BitsAgree(r),
  \* the rows are the weakly connected K-node patterns, each once (54 / 3834)
  Chk("RowsAreConnectedPatternsOnce",  LibRowsAreConnectedPatternsOnce(K, lib),
  \* two rows have the same id iff they are isomorphic; the ids are 1..13 / 1..199
  Chk("IdsAreIsomorphismClasses",      LibIdsAreClasses(K, lib),
  \* n = number of edges, mn = the decimal digits of the row
  Chk("EdgeCountsAndHashes",           LibEdgeCounts(K, lib) /\ LibHashes(K, lib),
  \* the numbering is the generator's: rank of the sorted degree label (K = 3: Sporns-Koetter order)
  Chk("IdsAreGeneratorRanks",          LibIdsAreGeneratorRanks(K, lib),
  "ok")))))))
LibDrift(r) ==
  IF r.raised # "" \/ r.malformed # "" THEN "na"
  ELSE IF \E k \in 1..(Len(r.rows) - 1) : r.rows[k][2] > r.rows[k + 1][2] THEN "differs:rows_not_sorted_by_id"
  ELSE "same"

(* ------------------------------ find_motif34 ----------------------------------- *)
ConverseName(K, cl) == IF ClassTab(K)[Converse(K, cl)] = cl THEN "self_converse_motif" ELSE "motif_differs_from_converse"
JudgeIso(r) ==
  LET K == r.k
      codes == [i \in DOMAIN r.mats |-> MatCode(K, r.mats[i])] IN
  Skip("library_not_a_bijection",      ~RepsAreBijection(K, r.rep),
  Chk("Returns",                       r.raised = "",
  \* "Motif_matrices": K x K x (number of isomorphs)
  Chk("ShapeKxKxIsomorphs",            /\ Len(r.shape) = 3 /\ r.shape[1] = K /\ r.shape[2] = K /\ r.shape[3] = Len(r.mats)
                                       /\ r.whole = 1 /\ \A i \in DOMAIN r.mats : IsKxK(K, r.mats[i]),
  \* "all isomorphs for the given motif": exactly the patterns whose id is m, each once
  Chk("IsomorphsAreTheClassOfId",      /\ SeqRange(codes) = ClassMembers(K, Cls(r)[r.m])
                                       /\ Len(r.mats) = Cardinality(ClassMembers(K, Cls(r)[r.m])),
  "ok"))))
JudgeIdent(r) ==
  LET K == r.k  c == MatCode(K, r.M) IN
  Skip("library_not_a_bijection",      ~RepsAreBijection(K, r.rep),
  Skip("self_loops",                   ~NoSelfLoops(K, r.M),
  Skip("not_a_connected_pattern",      c \notin ConnCodes(K),
  Chk("Returns",                       r.raised = "",
  \* "returns the motif_id for the specified motif matrix" (1..13 | 1..199, as in use 1)
  Chk("MatrixIdIsIdOfItsClass",        /\ Len(r.result) = 1 /\ r.result[1] \in 1..NumClasses(K)
                                       /\ Cls(r)[r.result[1]] = ClassTab(K)[c],
  "ok")))))
(* "Invalid motif class, must be 3, 4, or None" / "motif matrix must be 3x3 or 4x4" *)
JudgeBad(r) == Chk("RejectsOtherSizes", r.raised = "BCTParamError", "ok")
(* the routine finds the library that ships with the package                         *)
JudgeDefault(r) == Chk("LoadsBundledLibrary", r.raised = "", "ok")

Judge(r) ==
  CASE r.kind = "count" -> <<JudgeCount(r),
                             IF r.raised = "" /\ r.order = "f_then_F" THEN "differs:returns_f_F_docstring_says_F_f" ELSE "na",
                             SubClassName(r.n, r.A, r.k)>>
    [] r.kind = "wei"   -> <<JudgeWei(r), "na", SubClassName(r.n, r.A, r.k)>>
    [] r.kind = "lib"   -> <<JudgeLib(r), LibDrift(r), IF r.k = 3 THEN "size3" ELSE "size4">>
    [] r.kind = "iso"   -> <<JudgeIso(r), "na",
                             IF RepsAreBijection(r.k, r.rep) THEN ConverseName(r.k, Cls(r)[r.m]) ELSE "any">>
    [] r.kind = "ident" -> <<JudgeIdent(r), "na",
                             IF IsKxK(r.k, r.M) /\ MatCode(r.k, r.M) \in ConnCodes(r.k)
                             THEN ConverseName(r.k, ClassTab(r.k)[MatCode(r.k, r.M)]) ELSE "any">>
    [] r.kind = "bad"   -> <<JudgeBad(r), "na", r.what>>
    [] r.kind = "default" -> <<JudgeDefault(r), "na", "default_library_path">>

VARIABLES tid, verdict
TInit == tid \in 1..Len(Recs) /\ verdict = <<>>
TNext == /\ verdict = <<>>
         /\ verdict' = Judge(Recs[tid])
         /\ PrintT(VLine(tid, verdict'))
         /\ UNCHANGED tid
TSpec == TInit /\ [][TNext]_<<tid, verdict>>
=============================================================================
