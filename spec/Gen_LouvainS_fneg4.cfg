SPECIFICATION Spec
CONSTANT N = 4
CONSTANT Finetune = TRUE
CONSTANT QType = "neg"
CONSTANT GN = 1
CONSTANT GD = 1
CONSTANT Vals <- VS
CONSTANT Gen = TRUE
CHECK_DEADLOCK FALSE
