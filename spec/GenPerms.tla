-------------------------------- MODULE GenPerms --------------------------------
(* gen mode for C04: TLC enumerates every renumbering of N nodes (Equivariance!Perms: *)
(* all 24 for N = 4, all 120 for N = 5) and writes them to $GEN_FILE as JSON; the     *)
(* harness applies them to the real code.  Each item is the sequence p (1-based):     *)
(* new node i is old node p[i].  No behaviour is explored (cf. GenGraphs).            *)
EXTENDS Equivariance, Json, IOUtils
CONSTANT N
Items == Perms(N)
Factorial[k \in 0..N] == IF k = 0 THEN 1 ELSE k * Factorial[k - 1]
ASSUME Cardinality(Items) = Factorial[N]
ASSUME \A p \in Items : IsPerm(N, p) /\ IsPerm(N, Inv(N, p))
ASSUME JsonSerialize(IOEnv.GEN_FILE, SetToSeq(Items))
VARIABLE x
Init == x = Cardinality(Items)
Next == UNCHANGED x
Spec == Init /\ [][Next]_x
=============================================================================
