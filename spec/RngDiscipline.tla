---------------------------- MODULE RngDiscipline ----------------------------
(* C05.  Seeded calls are reproducible and never touch the global random        *)
(* stream.  L1 machine: a caller program over an abstract library.              *)
(*                                                                              *)
(* Part A (constant-free) - what a recorded history may look like: an event is  *)
(*   [op  |-> "seed" | "draw" | "call",                                         *)
(*    fn, a  |-> function / argument token (0 for caller ops),                  *)
(*    sk  |-> "none" | "int" | "RandomState"   (how the seed was given),        *)
(*    sv  |-> seed token (call, seed) or number of draws k (draw),              *)
(*    gb, ga |-> token of numpy's global generator state before / after,        *)
(*    pb, pa |-> token of python's random.getstate() before / after,            *)
(*    res |-> token of the returned value (0 for caller ops)].                  *)
(* Tokens are compared for equality only.  The six clauses are the sentences    *)
(* of the property; Allowed(h, e) = "event e may follow history h" is their     *)
(* conjunction and IS the step relation of the L1 machine (most general         *)
(* well-behaved library).  Trace_RngDiscipline steps real histories through     *)
(* it; Part B shows, by model checking, that an abstract well-behaved library   *)
(* refines it and that every modelled misbehaviour breaks exactly the clauses   *)
(* it should.                                                                   *)
EXTENDS Integers, Sequences, FiniteSets, TLC, Json

IsCall(e)   == e.op = "call"
Seeded(e)   == IsCall(e) /\ e.sk # "none"
Unseeded(e) == IsCall(e) /\ e.sk = "none"
SameFA(d, e) == d.fn = e.fn /\ d.a = e.a

(* "when given a seed leaves numpy's global random generator exactly as it found it" *)
GlobalUntouchedWhenSeeded(e) == Seeded(e) => e.ga = e.gb
(* the library never consumes python's `random` ([][py' = py])                   *)
PyRandomUntouched(e) == IsCall(e) => e.pa = e.pb
(* "identical results for identical arguments and seed"                          *)
SameSeedSameResult(d, e) ==
  (Seeded(d) /\ Seeded(e) /\ SameFA(d, e) /\ d.sk = e.sk /\ d.sv = e.sv) => d.res = e.res
(* "the same result for an integer seed as for a RandomState constructed from it" *)
IntSeedEqualsRandomState(d, e) ==
  (Seeded(d) /\ Seeded(e) /\ SameFA(d, e) /\ d.sk # e.sk /\ d.sv = e.sv) => d.res = e.res
(* "without a seed the result is a function of the arguments and the state of    *)
(*  numpy's global generator alone" (result and g' are functions of <<fn,a,g>>)  *)
UnseededIsFunctionOfGlobalState(d, e) ==
  (Unseeded(d) /\ Unseeded(e) /\ SameFA(d, e) /\ d.gb = e.gb) => (d.res = e.res /\ d.ga = e.ga)
(* "so np.random.seed(s) before the call makes it reproducible": the two calls   *)
(* at positions i < j directly follow np.random.seed of the same value           *)
AfterSeedOf(h, i) == IF i > 1 /\ h[i - 1].op = "seed" THEN h[i - 1].sv ELSE -1
ReseedRelated(h, i, j) ==
  /\ Unseeded(h[i]) /\ Unseeded(h[j]) /\ SameFA(h[i], h[j])
  /\ AfterSeedOf(h, i) # -1 /\ AfterSeedOf(h, i) = AfterSeedOf(h, j)
ReseedReproduces(h, i, j) == ReseedRelated(h, i, j) => h[i].res = h[j].res

ClauseNames == <<"GlobalUntouchedWhenSeeded", "PyRandomUntouched", "SameSeedSameResult",
                 "IntSeedEqualsRandomState", "UnseededIsFunctionOfGlobalState", "ReseedReproduces">>

(* does event e, appended to history h, respect clause c ?                       *)
StepHolds(c, h, e) ==
  LET he == Append(h, e) IN
  CASE c = "GlobalUntouchedWhenSeeded"       -> GlobalUntouchedWhenSeeded(e)
    [] c = "PyRandomUntouched"               -> PyRandomUntouched(e)
    [] c = "SameSeedSameResult"              -> \A i \in 1..Len(h) : SameSeedSameResult(h[i], e)
    [] c = "IntSeedEqualsRandomState"        -> \A i \in 1..Len(h) : IntSeedEqualsRandomState(h[i], e)
    [] c = "UnseededIsFunctionOfGlobalState" -> \A i \in 1..Len(h) : UnseededIsFunctionOfGlobalState(h[i], e)
    [] c = "ReseedReproduces"                -> \A i \in 1..Len(h) : ReseedReproduces(he, i, Len(he))

(* the step relation of the most general well-behaved library                    *)
Allowed(h, e) == \A k \in 1..Len(ClauseNames) : StepHolds(ClauseNames[k], h, e)
(* name of the first clause that forbids e after h ("ok" if none)                *)
FirstFailing(h, e) ==
  LET bad == {k \in 1..Len(ClauseNames) : ~StepHolds(ClauseNames[k], h, e)} IN
  IF bad = {} THEN "ok" ELSE ClauseNames[CHOOSE k \in bad : \A m \in bad : k <= m]

(* a whole history respects clause c                                             *)
Holds(c, h) == \A j \in 1..Len(h) : StepHolds(c, SubSeq(h, 1, j - 1), h[j])

(* what the caller's own actions do (environment, not judged): the recorded      *)
(* stream tokens chain, np.random.seed(s) and a foreign draw are deterministic   *)
EnvChains(G, P, e) == e.gb = G /\ e.pb = P
EnvDeterministic(h, e) ==
  \A i \in 1..Len(h) :
     /\ (h[i].op = "seed" /\ e.op = "seed" /\ h[i].sv = e.sv) => h[i].ga = e.ga
     /\ (h[i].op = "draw" /\ e.op = "draw" /\ h[i].sv = e.sv /\ h[i].gb = e.gb) => h[i].ga = e.ga

(* ============================ Part B: the machine ============================ *)
CONSTANTS FNS,        \* function tokens (1..2)
          ARGS,       \* argument tokens (1..2), per function
          SEEDS,      \* seed tokens (1..2), shared by np.random.seed and seed=
          DRAWS,      \* k of ForeignDraw(k)
          MaxLen,     \* length of the caller programs explored
          Libs,       \* abstract libraries explored ("good" and misbehaving ones)
          Canon,      \* explore one representative per renaming of fn/arg/seed tokens
          GenMode,    \* "none" | "all" (print every program ending in a call) | "full" (those of length MaxLen)
                      \* | "reseed" (those whose last call is related to an earlier one by ReseedReproduces)
          Cost(_, _)  \* number of draws of fn on argument a (abstract)

VARIABLES g,      \* numpy's global generator: <<seed it was last seeded with, draws since>>
          py,     \* python's `random` generator: number of draws consumed
          ent,    \* hidden state a misbehaving library may depend on (calls so far)
          lib,    \* which library this behaviour links against
          hist    \* completed events
vars == <<g, py, ent, lib, hist>>

Boot == <<0, 0>>                       \* generator as found at start
Fresh(s) == <<s, 0>>                   \* RandomState(s) / np.random.seed(s)
Adv(st, k) == <<st[1], st[2] + k>>
(* free (Herbrand) interpretation: results of different (fn, a, stream) differ   *)
Out(fn, a, st) == IF Cost(fn, a) = 0 THEN <<fn, a, <<-1, 0>>, <<>>>> ELSE <<fn, a, st, <<>>>>
With(r, x) == <<r[1], r[2], r[3], x>>

(* abstract libraries: [res, g, py] of one call                                   *)
LibCall(L, fn, a, sk, s, G, P, E) ==
  LET c == Cost(fn, a)
      goodS == [res |-> Out(fn, a, Fresh(s)), g |-> G, py |-> P]
      goodU == [res |-> Out(fn, a, G), g |-> Adv(G, c), py |-> P]
      good  == IF sk = "none" THEN goodU ELSE goodS
  IN
  CASE L = "good" -> good
    (* a stray np.random.* draw next to the seeded stream *)
    [] L = "stray_global"   -> IF sk = "none" THEN good ELSE [good EXCEPT !.g = Adv(G, 1)]
    (* the seed is ignored: always draws from the global stream *)
    [] L = "ignores_seed"   -> goodU
    (* seeding implemented as np.random.seed(seed) *)
    [] L = "reseeds_global" -> IF sk = "none" THEN good ELSE [good EXCEPT !.g = Adv(Fresh(s), c)]
    (* a decision is taken with python's random.random() *)
    [] L = "uses_pyrandom"  -> [good EXCEPT !.res = With(good.res, <<1, P>>), !.py = P + 1]
    (* random.random() consumed, value unused *)
    [] L = "stray_pyrandom" -> [good EXCEPT !.py = P + 1]
    (* two inner routines receive the seed instead of the rng object *)
    [] L = "reseeds_inner"  -> IF sk = "int" /\ c > 0 THEN [good EXCEPT !.res = With(good.res, <<2>>)]
                               ELSE good
    (* without a seed a private generator is seeded from OS entropy *)
    [] L = "fresh_entropy"  -> IF sk = "none" THEN [res |-> With(Out(fn, a, <<-2, E>>), <<4>>), g |-> G, py |-> P]
                               ELSE good
    (* result depends on hidden state (hash order, clock, module-level cache) *)
    [] L = "nondet"         -> [good EXCEPT !.res = With(good.res, <<3, E>>)]

Ev(op, fn, a, sk, sv, G2, P2, res) ==
  [op |-> op, fn |-> fn, a |-> a, sk |-> sk, sv |-> sv, gb |-> g, ga |-> G2, pb |-> py, pa |-> P2, res |-> res]

(* restricted-growth numbering: first used function is 1, first argument of a    *)
(* function is 1, first seed value (np.random.seed or seed=) is 1                *)
MaxOr0(S) == IF S = {} THEN 0 ELSE CHOOSE x \in S : \A y \in S : x >= y
UsedFns   == {hist[i].fn : i \in {k \in 1..Len(hist) : hist[k].op = "call"}}
UsedArgs(fn) == {hist[i].a : i \in {k \in 1..Len(hist) : hist[k].op = "call" /\ hist[k].fn = fn}}
UsedSeeds == {hist[i].sv : i \in {k \in 1..Len(hist) : hist[k].op = "seed" \/ Seeded(hist[k])}}
CanonFA(fn, a) == Canon => (fn <= MaxOr0(UsedFns) + 1 /\ a <= MaxOr0(UsedArgs(fn)) + 1)
CanonS(s) == Canon => s <= MaxOr0(UsedSeeds) + 1
(* gen only: a caller op whose effect the next op erases is not worth a program  *)
LastOp == IF hist = <<>> THEN "" ELSE hist[Len(hist)].op
Worth(op) == GenMode = "none" \/ ~(op = "seed" /\ LastOp \in {"seed", "draw"})

Program(h) == [i \in 1..Len(h) |-> <<h[i].op, h[i].fn, h[i].a, h[i].sk, h[i].sv>>]
Emit(h) == IF GenMode = "all" /\ h[Len(h)].op = "call" THEN PrintT("G|" \o ToJson(Program(h)))
           ELSE IF GenMode = "full" /\ Len(h) = MaxLen /\ h[Len(h)].op = "call" THEN PrintT("G|" \o ToJson(Program(h)))
           ELSE IF GenMode = "reseed" /\ h[Len(h)].op = "call"
                   /\ \E i \in 1..(Len(h) - 1) : ReseedRelated(h, i, Len(h)) THEN PrintT("G|" \o ToJson(Program(h)))
           ELSE TRUE

Do(e) == /\ hist' = Append(hist, e)
         /\ g' = e.ga /\ py' = e.pa
         /\ ent' = IF e.op = "call" THEN ent + 1 ELSE ent
         /\ Emit(hist')
         /\ UNCHANGED lib

SeedGlobal(s)  == Worth("seed") /\ CanonS(s) /\ Do(Ev("seed", 0, 0, "none", s, Fresh(s), py, 0))
ForeignDraw(k) == Do(Ev("draw", 0, 0, "none", k, Adv(g, k), py, 0))
CallSeeded(fn, a, s, kind) ==
  /\ CanonFA(fn, a) /\ CanonS(s)
  /\ LET r == LibCall(lib, fn, a, kind, s, g, py, ent) IN Do(Ev("call", fn, a, kind, s, r.g, r.py, r.res))
CallUnseeded(fn, a) ==
  /\ CanonFA(fn, a)
  /\ LET r == LibCall(lib, fn, a, "none", 0, g, py, ent) IN Do(Ev("call", fn, a, "none", 0, r.g, r.py, r.res))

AnyCallSeeded == \E fn \in FNS, a \in ARGS, s \in SEEDS, kind \in {"int", "RandomState"} : CallSeeded(fn, a, s, kind)
AnyCallUnseeded == \E fn \in FNS, a \in ARGS : CallUnseeded(fn, a)

Init == g = Boot /\ py = 0 /\ ent = 0 /\ lib \in Libs /\ hist = <<>>
Next == /\ Len(hist) < MaxLen
        /\ \/ \E s \in SEEDS : SeedGlobal(s)
           \/ \E k \in DRAWS : ForeignDraw(k)
           \/ AnyCallSeeded
           \/ AnyCallUnseeded
Spec == Init /\ [][Next]_vars

(* ------------------------------ properties ---------------------------------- *)
Good == lib = "good"
(* action properties (checked as PROPERTY): the well-behaved library ...          *)
SeededLeavesStreams == [][(Good /\ AnyCallSeeded) => (g' = g /\ py' = py)]_vars
PyNeverConsumed     == [][Good => py' = py]_vars
(* ... and its histories satisfy the functional clauses.  Every prefix of a       *)
(* history is itself a reachable state, so judging the last step in every state  *)
(* is Holds(c, hist) for every reachable hist.                                   *)
LastStep(c) == hist = <<>> \/ StepHolds(c, SubSeq(hist, 1, Len(hist) - 1), hist[Len(hist)])
SeededFunctional     == Good => LastStep("SameSeedSameResult")
IntEqualsRandomState == Good => LastStep("IntSeedEqualsRandomState")
UnseededFunctional   == Good => LastStep("UnseededIsFunctionOfGlobalState")
ReseedReproducible   == Good => LastStep("ReseedReproduces")
GlobalUntouchedInv   == Good => LastStep("GlobalUntouchedWhenSeeded")
PyUntouchedInv       == Good => LastStep("PyRandomUntouched")
(* refinement: every step of the well-behaved library is a step of the most       *)
(* general one                                                                    *)
GoodRefinesAllowed == Good => (hist = <<>> \/ Allowed(SubSeq(hist, 1, Len(hist) - 1), hist[Len(hist)]))
(* the recorded tokens are the machine's variables                                *)
RecordingFaithful ==
  hist = <<>> \/
  LET n == Len(hist)  e == hist[n] IN
  /\ e.ga = g /\ e.pa = py
  /\ EnvChains(IF n = 1 THEN Boot ELSE hist[n - 1].ga, IF n = 1 THEN 0 ELSE hist[n - 1].pa, e)
  /\ EnvDeterministic(SubSeq(hist, 1, n - 1), e)
TypeOK == lib \in Libs /\ Len(hist) <= MaxLen /\ py \in Nat /\ ent \in Nat
=============================================================================
