SPECIFICATION Spec
CONSTANT N = 4
CONSTANT Kind = "dir"
CHECK_DEADLOCK FALSE
