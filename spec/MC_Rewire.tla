---- MODULE MC_Rewire ----
EXTENDS RewireImpl
====
