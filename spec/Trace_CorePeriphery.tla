--------------------------- MODULE Trace_CorePeriphery ---------------------------
(* X06 code -> spec: every record is one real call (harness/props/x06.py); r.kind selects    *)
(* the judge, r.fn names the routine.  Integers exactly.  The oracle is CorePeriphery.tla.   *)
(*   cp      : core_periphery_dir: n, W (integer weights), gp/gq = gamma, hasc0 (1: the       *)
(*             argument C0 was given), cinit (the start: C0, or the recorded draw             *)
(*             rng.randint(2, size=n); <<>> if unknown), picks (<<low, value>> of every later   *)
(*             rng.randint(low), in order), C (returned vector), D (the harness's Den),        *)
(*             qs = round(q * D), qres = round(|q * D - qs| * 10^6), raised, malformed          *)
(*   reorder : reorder_mod / reorder_matrix / reorderMAT / align_matrices: n, M (the matrix    *)
(*             that is re-ordered), ord (returned order, node ids), R (returned matrix), ci     *)
(*             (module of every node; <<>> except for reorder_mod), raised, malformed           *)
(*   lc      : link_communities: n, W, M (returned rows), raised, malformed                    *)
EXTENDS CorePeriphery, TraceBase, SequencesExt

(* ------------------------------------------------------------ core_periphery_dir ------ *)
CpClass(r) == IF r.hasc0 = 1 THEN "start_given" ELSE "random_start"
JCp(r) ==
  LET n == r.n
      BB == CpBB(n, r.W, r.gp, r.gq)
  IN
  (* without a connection s = 0 and the statistic is 0/0: outside the documented domain        *)
  Skip("no_connections", CpTotal(n, r.W) <= 0,
  Skip("negative_weight", \E i, j \in 1..n : r.W[i][j] < 0,
  (* the call returns (C, q)                                                                   *)
  Chk("Returns", r.raised = "",
  (* "a partition of the network into two nonoverlapping groups of nodes, a core group and a   *)
  (*  periphery group": one 0/1 entry per node                                                 *)
  Chk("CIsZeroOneVector", r.malformed = "" /\ IsAssign(n, r.C),
  (* "The core-ness is a statistic which quantifies the goodness of the ... subdivision":       *)
  (*  q = sum(B[core, core]) - sum(B[periphery, periphery]) of the returned C, exactly          *)
  Chk("QIsCorenessOfC", r.D = CpDen(n, r.W, r.gq) /\ r.qs = QQ(n, BB, r.C) /\ r.qres <= 10,
  (* "C0: Initial core structure" of an algorithm that "optimize[s] a core-structure objective": *)
  (*  the result is never worse than the start it was given                                     *)
  Chk("NotWorseThanStart", r.hasc0 = 0 \/ ~IsAssign(n, r.cinit) \/ QQ(n, BB, r.C) >= QQ(n, BB, r.cinit),
  (* "The number of core-group edges is maximized, and the number of within periphery edges is  *)
  (*  minimized" by "a variation of the Kernighan-Lin ... algorithm": demanded is only what       *)
  (*  Kernighan-Lin delivers (and what "optimal" implies): no single node changes sides with a    *)
  (*  strictly larger core-ness                                                                   *)
  Chk("NoSingleMoveImproves", LocalOpt(n, BB, r.C),
  (* "The optimal core/periphery subdivision": no assignment at all has a larger core-ness        *)
  (* (every assignment enumerated, n <= 6; MC_CorePeriphery proves that the loop delivers it)     *)
  Chk("IsOptimalSubdivision", n > 6 \/ QQ(n, BB, r.C) = GlobalMax(n, BB), "ok"))))))))

(* drift: the L2 machine, fed with the recorded draws, ends in the very C                        *)
DCp(r) ==
  LET n == r.n
      BB == CpBB(n, r.W, r.gp, r.gq)
  IN
  IF r.raised # "" \/ r.malformed # "" \/ CpTotal(n, r.W) <= 0 \/ ~IsAssign(n, r.cinit) THEN "na"
  ELSE
    LET step(acc, pk) ==
          IF acc.bad # "" THEN acc
          ELSE LET s1 == IF acc.st.ixes = <<>> /\ acc.st.flg THEN CpRound(n, acc.st) ELSE acc.st IN
               IF s1.ixes = <<>> THEN [acc EXCEPT !.bad = "extra_draw"]
               ELSE IF NTies(n, BB, s1) # pk[1] THEN [acc EXCEPT !.bad = "tie_set"]
               ELSE [st |-> CpMove(n, BB, s1, pk[2] + 1), bad |-> ""]
        fin == FoldLeft(step, [st |-> CpStart(n, BB, r.cinit), bad |-> ""], r.picks)
    IN IF fin.bad # "" THEN "differs:" \o fin.bad
       ELSE IF ~CpDone(fin.st) THEN "differs:stops_early"
       ELSE IF ~IsAssign(n, r.C) \/ \E i \in 1..n : fin.st.cc[i] # r.C[i] THEN "differs:assignment"
       ELSE IF fin.st.qq # r.qs THEN "differs:q"
       ELSE "same"

(* ------------------------------------------------------------ re-ordering -------------- *)
HasDiag(n, M) == \E i \in 1..n : M[i][i] # 0
ReClass(r) ==
  IF r.ci # <<>> THEN (IF Cardinality({r.ci[i] : i \in 1..r.n}) = 1 THEN "one_module"
                       ELSE IF Cardinality({r.ci[i] : i \in 1..r.n}) = 2 THEN "two_modules" ELSE "three_or_more_modules")
  ELSE IF HasDiag(r.n, r.M) THEN "nonzero_diagonal" ELSE "zero_diagonal"
JReorder(r) ==
  LET n == r.n IN
  Chk("Returns", r.raised = "",
  Chk("WellFormed", r.malformed = "",
  (* "new node order" / "reordered indices": every node once                                    *)
  Chk("OrderIsPermutation", IsPerm(n, r.ord),
  (* "reordered connectivity matrix": the input re-indexed by the returned order                *)
  Chk("MatrixIsInputReindexed", IsSquare(n, r.R) /\ \A i, j \in 1..n : r.R[i][j] = r.M[r.ord[i]][r.ord[j]],
  (* reorder_mod "reorders the connectivity matrix by modular structure": the nodes of one       *)
  (* module are consecutive                                                                      *)
  Chk("ModulesContiguous", r.ci = <<>> \/ Contiguous(n, r.ord, r.ci), "ok")))))

(* ------------------------------------------------------------ link communities ---------- *)
JLc(r) ==
  LET n == r.n IN
  Skip("no_connections", \A i, j \in 1..n : i = j \/ r.W[i][j] = 0,
  Chk("Returns", r.raised = "",
  (* "M : CxN np.ndarray nodal community affiliation matrix": one row per community, one 0/1     *)
  (*  entry per node                                                                             *)
  Chk("AffiliationMatrix", r.malformed = "" /\ \A c \in 1..Len(r.M) : IsAssign(n, r.M[c]), "ok")))

Judge(r) ==
  CASE r.kind = "cp"      -> <<JCp(r), DCp(r), CpClass(r)>>
    [] r.kind = "reorder" -> <<JReorder(r), "na", ReClass(r)>>
    [] r.kind = "lc"      -> <<JLc(r), "na", "any">>
    [] OTHER              -> <<"skip:unknown_kind", "na", "any">>

VARIABLES tid, verdict
TInit == tid \in 1..Len(Recs) /\ verdict = <<>>
TNext == /\ verdict = <<>>
         /\ verdict' = Judge(Recs[tid])
         /\ PrintT(VLine(tid, verdict'))
         /\ UNCHANGED tid
TSpec == TInit /\ [][TNext]_<<tid, verdict>>
=============================================================================
