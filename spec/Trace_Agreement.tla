---------------------------- MODULE Trace_Agreement ----------------------------
(* X02 code -> spec: every record is one real call of                            *)
(*   agreement(ci, buffsz) -> D           (r.fn = "agreement", D as integers)    *)
(*   agreement_weighted(ci^T, w) -> D     (r.fn = "agreement_weighted", D E-q6)  *)
(* r.ci is node-major (n x m) in both cases; labels arbitrary integers.          *)
EXTENDS Agreement, TraceBase

JudgeAgreement(r) ==
  Skip("buffsz_below_one",     r.buffsz < 1,
  Chk("Returns",               r.raised = "",
  Chk("ShapeNxN",              ShapeNxN(r.n, r.D),
  \* "elements indicate the number of times any two vertices were assigned to the same class"
  Chk("CountsCoassignments",   CountsCoassignments(r.n, r.m, r.ci, r.D),
  \* np.fill_diagonal(D, 0) / MATLAB D.*~eye: a node is not counted as agreeing with itself
  Chk("ZeroDiagonal",          ZeroDiagonal(r.n, r.D),
  "ok")))))

JudgeWeighted(r) ==
  Skip("nonpositive_weight",   \E p \in 1..r.m : r.w[p] <= 0,
  Chk("Returns",               r.raised = "",
  Chk("ShapeNxN",              ShapeNxN(r.n, r.D),
  \* "identical to AGREEMENT, with the exception that each partition's contribution is
  \*  weighted according to the corresponding scalar value stored in WTS" (normalised by sum)
  \* the weights are normalised to sum 1, so every entry is a fraction (also keeps the
  \* cross-multiplication below inside 32 bits)
  Chk("ValuesWithinZeroOne",   \A i, j \in 1..r.n : r.D[i][j] >= -1 /\ r.D[i][j] <= 1000001,
  Chk("WeightedCoassignments", WeightedCoassignments(r.n, r.m, r.ci, r.w, r.D),
  "ok")))))

Drift(r) ==
  IF r.raised # "" \/ ~ShapeNxN(r.n, r.D) THEN "na"
  ELSE IF r.fn = "agreement"
       THEN (IF r.buffsz < 1 THEN "na"
             ELSE IF r.D = AgreementL2(r.n, r.m, r.ci, r.buffsz) THEN "same" ELSE "differs")
       \* the weighted routine (like its MATLAB original) leaves the diagonal at 1
       ELSE (IF \A i \in 1..r.n : Abs(r.D[i][i] - 1000000) <= 1 THEN "same"
             ELSE "differs:diagonal_not_one")

Class(r) == IF r.fn = "agreement"
            THEN (IF r.m <= r.buffsz THEN "single_pass" ELSE "buffered")
            ELSE "weighted"

Judge(r) == <<IF r.fn = "agreement" THEN JudgeAgreement(r) ELSE JudgeWeighted(r), Drift(r), Class(r)>>

VARIABLES tid, verdict
TInit == tid \in 1..Len(Recs) /\ verdict = <<>>
TNext == /\ verdict = <<>>
         /\ verdict' = Judge(Recs[tid])
         /\ PrintT(VLine(tid, verdict'))
         /\ UNCHANGED tid
TSpec == TInit /\ [][TNext]_<<tid, verdict>>
=============================================================================
