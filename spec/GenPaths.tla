-------------------------------- MODULE GenPaths --------------------------------
(* X04 gen: TLC computes the path-count arrays Pq of every model graph from the L0     *)
(* definition Paths!FindPathsL0 (all nodes as sources, qmax = N) and writes them to    *)
(* $GEN_FILE as JSON; the harness hands them to the real cycprob.  Kind "dir": every   *)
(* digraph on N nodes, "und": every graph.  No behaviour is explored.                  *)
EXTENDS Paths, Json, IOUtils
CONSTANTS N, Kind
UPairs == {p \in (1..N) \X (1..N) : p[1] < p[2]}
DPairs == {p \in (1..N) \X (1..N) : p[1] # p[2]}
Inputs ==
  IF Kind = "dir"
  THEN {EMat(N, LAMBDA i, j : IF <<i, j>> \in E THEN 1 ELSE 0) : E \in SUBSET DPairs}
  ELSE {EMat(N, LAMBDA i, j : IF <<i, j>> \in E \/ <<j, i>> \in E THEN 1 ELSE 0) : E \in SUBSET UPairs}
Items == {[A |-> A, Pq |-> FindPathsL0(N, A, 1..N, N).Pq] : A \in Inputs}
ASSUME JsonSerialize(IOEnv.GEN_FILE, SetToSeq(Items))
VARIABLE x
Init == x = Cardinality(Items)
Next == UNCHANGED x
Spec == Init /\ [][Next]_x
=============================================================================
