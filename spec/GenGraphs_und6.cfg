SPECIFICATION Spec
CONSTANT N = 6
CONSTANT Kind = "und"
CHECK_DEADLOCK FALSE
