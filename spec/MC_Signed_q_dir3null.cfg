SPECIFICATION Spec
CONSTANT N = 3
CONSTANT Dir = TRUE
CONSTANT Iters = 0
CONSTANT MaxAtt = 3
CONSTANT Vals <- ValsA
CONSTANT NullModel = TRUE
CONSTANT Gen = FALSE
CONSTANT Frame <- NoFrame
CHECK_DEADLOCK FALSE
INVARIANT SignedDegInv
INVARIANT PosBagInv
INVARIANT NegBagInv
INVARIANT DiagInv
INVARIANT SymInv
PROPERTY EffCounts
