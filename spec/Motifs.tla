-------------------------------- MODULE Motifs --------------------------------
(* X03 (extended coverage) - bct/algorithms/motifs.py: network motifs of size 3 *)
(* and 4 (find_motif34, motif{3,4}{struct,funct}_{bin,wei}, make_motif34lib and  *)
(* the bundled library motif34lib.mat).                                          *)
(*                                                                              *)
(* L0  A K-node pattern is a set of ordered pairs over 1..K, written as a code   *)
(*     (bit t = the t-th off-diagonal cell in column-major order, first cell =   *)
(*     most significant bit; this is the order of the code's vector `a` and of   *)
(*     the library rows).  Two patterns are the same motif iff a permutation of  *)
(*     1..K maps one onto the other; the canonical form of a pattern is the      *)
(*     least code in its orbit under S_K.  The motif classes are the canonical   *)
(*     forms of the weakly connected patterns: 13 for K = 3, 199 for K = 4       *)
(*     (computed here, not copied from the library; MC proves the numbers).      *)
(*     Structural motifs of a graph: the induced subgraphs on K-subsets of nodes *)
(*     that are weakly connected, by class; a node participates in the motifs    *)
(*     whose node set contains it.  Functional motifs: every weakly connected    *)
(*     sub-pattern (subset of the edges, all K nodes) of every such induced      *)
(*     subgraph, by class ("subsets of connection patterns embedded within       *)
(*     anatomical motifs").  Weighted: the intensity of one occurrence is the    *)
(*     geometric mean of its l edge weights, its coherence the geometric mean    *)
(*     divided by the arithmetic mean; I, Q add these over the occurrences a     *)
(*     node participates in (Onnela et al. 2005).                                *)
(* L2  operator form of make_motif34lib: connected patterns in generation order, *)
(*     canonical label = lexicographically sorted degree rows, ID = rank of the  *)
(*     label (+ the Sporns-Koetter renumbering for K = 3).                       *)
(* Numbers: K in {3, 4}, n <= 12, counts < 2^31.  Weights are 2^-g with integer  *)
(*     exponents g in 0..12 (exact in binary floating point): a geometric mean   *)
(*     is 2^-(E/l); it is bracketed by 2^-ceil(E/l) and 2^-floor(E/l), exact     *)
(*     whenever l divides the exponent sum E.  Sums are compared in 10^-6 fixed  *)
(*     point; at most 2000 occurrences per (class, node) in weighted records.    *)
EXTENDS BctGraph, BctRational, SequencesExt, Functions

(* ======================= patterns, codes, canonical form ===================== *)
(* TLC keeps {x \in S : P(x)} and [x \in S |-> e] as unevaluated closures even when they *)
(* are cached constants; TLCEval turns them into enumerated tables once                   *)
Tab(x) == TLCEval(x)
NC(K) == K * (K - 1)
CellsOf(K) == SelectSeq([t \in 1..(K * K) |-> <<((t - 1) % K) + 1, ((t - 1) \div K) + 1>>],
                        LAMBDA c : c[1] # c[2])
Cells3 == Tab(CellsOf(3))     \* (2,1),(3,1),(1,2),(3,2),(1,3),(2,3)
Cells4 == Tab(CellsOf(4))
Cells(K) == IF K = 3 THEN Cells3 ELSE Cells4
CellIndex(K, i, j) == (j - 1) * (K - 1) + (IF i < j THEN i ELSE i - 1)   \* inverse of Cells(K)
Wt(K, t) == 2 ^ (NC(K) - t)
NCodes(K) == 2 ^ NC(K)
AllCodes(K) == 0..(NCodes(K) - 1)

BitsOfRaw(K, c) == {t \in 1..NC(K) : (c \div Wt(K, t)) % 2 = 1}
BT3 == Tab([c \in AllCodes(3) |-> BitsOfRaw(3, c)])
BT4 == Tab([c \in AllCodes(4) |-> BitsOfRaw(4, c)])
BitsOf(K, c) == IF K = 3 THEN BT3[c] ELSE BT4[c]
CodeOfBits(K, B) == Sum(B, LAMBDA t : Wt(K, t))
EdgesOf(K, c) == {Cells(K)[t] : t \in BitsOf(K, c)}
CodeOfEdges(K, E) == Sum(E, LAMBDA e : Wt(K, CellIndex(K, e[1], e[2])))
NEdges(K, c) == Cardinality(BitsOf(K, c))

(* weak connectivity of a pattern given as a set of ordered pairs over 1..K      *)
RECURSIVE GrowE(_, _)
GrowE(E, S) ==
  LET S2 == S \cup {e[2] : e \in {x \in E : x[1] \in S}} \cup {e[1] : e \in {x \in E : x[2] \in S}}
  IN IF S2 = S THEN S ELSE GrowE(E, S2)
WeaklyConnected(K, E) == GrowE(E, {1}) = 1..K

PermsOf(K) == {p \in [1..K -> 1..K] : \A i, j \in 1..K : i # j => p[i] # p[j]}
Perms3 == Tab(PermsOf(3))
Perms4 == Tab(PermsOf(4))
Perms(K) == IF K = 3 THEN Perms3 ELSE Perms4
Relabel(E, p) == {<<p[e[1]], p[e[2]]>> : e \in E}
(* the orbit of a pattern: relabelling the nodes by p moves cell (i,j) to cell    *)
(* (p[i],p[j]); CellWts(K) holds, per permutation, the weight of the moved cell   *)
CellWtsOf(K) == {Tab([t \in 1..NC(K) |-> Wt(K, CellIndex(K, p[Cells(K)[t][1]], p[Cells(K)[t][2]]))])
                   : p \in Perms(K)}
CW3 == Tab(CellWtsOf(3))
CW4 == Tab(CellWtsOf(4))
CellWts(K) == IF K = 3 THEN CW3 ELSE CW4
Orbit(K, c) == {Sum(BitsOf(K, c), LAMBDA t : w[t]) : w \in CellWts(K)}
OrbitByRelabel(K, c) == {CodeOfEdges(K, Relabel(EdgesOf(K, c), p)) : p \in Perms(K)}   \* MC: = Orbit
MinSet(S) == FoldSet(LAMBDA a, b : IF a < b THEN a ELSE b, INF, S)
Canon(K, c) == MinSet(Orbit(K, c))
Converse(K, c) == CodeOfEdges(K, {<<e[2], e[1]>> : e \in EdgesOf(K, c)})

(* tables, evaluated once                                                        *)
CT3 == Tab([c \in AllCodes(3) |-> Canon(3, c)])
CT4 == Tab([c \in AllCodes(4) |-> Canon(4, c)])
ClassTab(K) == IF K = 3 THEN CT3 ELSE CT4
Conn3 == Tab({c \in AllCodes(3) : WeaklyConnected(3, EdgesOf(3, c))})
Conn4 == Tab({c \in AllCodes(4) : WeaklyConnected(4, EdgesOf(4, c))})
ConnCodes(K) == IF K = 3 THEN Conn3 ELSE Conn4
Classes3 == Tab({CT3[c] : c \in Conn3})
Classes4 == Tab({CT4[c] : c \in Conn4})
Classes(K) == IF K = 3 THEN Classes3 ELSE Classes4
NumClasses(K) == IF K = 3 THEN 13 ELSE 199          \* MC: = Cardinality(Classes(K))
ClassMembers(K, cl) == {c \in ConnCodes(K) : ClassTab(K)[c] = cl}

(* ======================= motifs of a graph =================================== *)
(* the code reads only off-diagonal cells; nonzero = connection                  *)
TupCode(K, G, tup) ==
  Sum({t \in 1..NC(K) : G[tup[Cells(K)[t][1]]][tup[Cells(K)[t][2]]] # 0}, LAMBDA t : Wt(K, t))
AscTuple(S) == SetToSortSeq(S, <)
SubCode(K, G, S) == TupCode(K, G, AscTuple(S))
ConnSubs(n, G, K) == IF n < K THEN {} ELSE {S \in kSubset(K, 1..n) : SubCode(K, G, S) \in ConnCodes(K)}
(* structural occurrences: connected K-subset |-> its class                      *)
StructOcc(n, G, K) == Tab([S \in ConnSubs(n, G, K) |-> ClassTab(K)[SubCode(K, G, S)]])
StructTotal(occ, cl) == Cardinality({S \in DOMAIN occ : occ[S] = cl})
StructNode(occ, cl, v) == Cardinality({S \in DOMAIN occ : occ[S] = cl /\ v \in S})

(* functional: the weakly connected sub-patterns of a pattern                    *)
SubPatterns(K, c) == {CodeOfBits(K, B) : B \in SUBSET BitsOf(K, c)} \cap ConnCodes(K)
FunctOccs(n, G, K) ==
  UNION {{<<S, d>> : d \in SubPatterns(K, SubCode(K, G, S))} : S \in ConnSubs(n, G, K)}
FunctTotal(K, occs, cl) == Cardinality({o \in occs : ClassTab(K)[o[2]] = cl})
FunctNode(K, occs, cl, v) == Cardinality({o \in occs : ClassTab(K)[o[2]] = cl /\ v \in o[1]})

(* expected nonzero entries, straight from the occurrences                       *)
FunctTriplesDirect(K, occs) ==
  LET pairs == UNION {{<<ClassTab(K)[o[2]], v>> : v \in o[1]} : o \in occs}
  IN {<<p[1], p[2], FunctNode(K, occs, p[1], p[2])>> : p \in pairs}
FunctTotalsDirect(K, occs) ==
  {<<cl, FunctTotal(K, occs, cl)>> : cl \in {ClassTab(K)[o[2]] : o \in occs}}

(* second formulation: a class contains a fixed bag of sub-classes               *)
BagGet(b, x) == IF x \in DOMAIN b THEN b[x] ELSE 0
SubClassBag(K, c) ==
  LET subs == SubPatterns(K, c)
  IN Tab([cl \in {ClassTab(K)[d] : d \in subs} |->
               Cardinality({d \in subs : ClassTab(K)[d] = cl})])
SB3 == Tab([cl \in Classes3 |-> SubClassBag(3, cl)])
SB4 == Tab([cl \in Classes4 |-> SubClassBag(4, cl)])
SubBagTab(K) == IF K = 3 THEN SB3 ELSE SB4
FunctTotalVia(K, occ, cl) == Sum(DOMAIN occ, LAMBDA S : BagGet(SubBagTab(K)[occ[S]], cl))
FunctNodeVia(K, occ, cl, v) ==
  Sum({S \in DOMAIN occ : v \in S}, LAMBDA S : BagGet(SubBagTab(K)[occ[S]], cl))

(* expected nonzero entries <<class, node, count>> of the frequency matrix       *)
StructTriples(occ) ==
  LET pairs == UNION {{<<occ[S], v>> : v \in S} : S \in DOMAIN occ}
  IN {<<p[1], p[2], StructNode(occ, p[1], p[2])>> : p \in pairs}
StructTotals(occ) == {<<cl, StructTotal(occ, cl)>> : cl \in Range(occ)}
FunctTriples(K, occ) ==
  LET sb == SubBagTab(K)
      pairs == UNION {{<<cl, v>> : cl \in DOMAIN sb[occ[S]], v \in S} : S \in DOMAIN occ}
  IN {<<p[1], p[2], FunctNodeVia(K, occ, p[1], p[2])>> : p \in pairs}
FunctTotals(K, occ) ==
  LET sb == SubBagTab(K)
      cls == UNION {DOMAIN sb[occ[S]] : S \in DOMAIN occ}
  IN {<<cl, FunctTotalVia(K, occ, cl)>> : cl \in cls}

(* ======================= weighted motifs ===================================== *)
(* W = 2^-g on the support: Gx[i][j] = exponent g of the connection i -> j       *)
GMAX == 12
CeilDiv(a, b) == (a + b - 1) \div b
(* one occurrence on the node tuple tup with edge cells B: l, exponent sum, and  *)
(* the sum of the weights in units of 2^-12                                      *)
OccL(B) == Cardinality(B)
OccE(K, Gx, tup, B) == Sum(B, LAMBDA t : Gx[tup[Cells(K)[t][1]]][tup[Cells(K)[t][2]]])
OccS(K, Gx, tup, B) == Sum(B, LAMBDA t : 2 ^ (GMAX - Gx[tup[Cells(K)[t][1]]][tup[Cells(K)[t][2]]]))
(* intensity (2^-12 units) between ILo and IHi, equal iff l divides E            *)
ILo(l, E) == 2 ^ (GMAX - CeilDiv(E, l))
IHi(l, E) == 2 ^ (GMAX - (E \div l))
(* coherence = intensity / (S / (4096 l)) = units * l / S, as 10^-6 fixed point  *)
QLo(l, E, S) == ToQ6(ILo(l, E) * l, S)
QHi(l, E, S) == ToQ6(IHi(l, E) * l, S) + 1
(* 2^-12 units -> 10^-6 fixed point (10^6 / 4096 = 15625 / 64), rounded down     *)
UnitsToQ6(x) == (x \div 64) * 15625 + ((x % 64) * 15625) \div 64

(* weighted occurrences as records [cl, S, l, E, s]                              *)
WStructOccs(n, G, Gx, K) ==
  {LET tup == AscTuple(S)  c == TupCode(K, G, tup)  B == BitsOf(K, c)
   IN [cl |-> ClassTab(K)[c], S |-> S, d |-> c, l |-> OccL(B),
       E |-> OccE(K, Gx, tup, B), s |-> OccS(K, Gx, tup, B)] : S \in ConnSubs(n, G, K)}
WFunctOccs(n, G, Gx, K) ==
  UNION {LET tup == AscTuple(S)  c == TupCode(K, G, tup)
         IN {LET B == BitsOf(K, d)
             IN [cl |-> ClassTab(K)[d], S |-> S, d |-> d, l |-> OccL(B),
                 E |-> OccE(K, Gx, tup, B), s |-> OccS(K, Gx, tup, B)] : d \in SubPatterns(K, c)}
         : S \in ConnSubs(n, G, K)}
(* expected entries <<class, node, count, Ilo, Ihi, Qlo, Qhi>> (fixed point)      *)
WTriples(occs) ==
  LET pairs == UNION {{<<o.cl, v>> : v \in o.S} : o \in occs}
  IN {LET mine == {o \in occs : o.cl = p[1] /\ p[2] \in o.S}
      IN <<p[1], p[2], Cardinality(mine),
           UnitsToQ6(Sum(mine, LAMBDA o : ILo(o.l, o.E))),
           UnitsToQ6(Sum(mine, LAMBDA o : IHi(o.l, o.E))) + 1,
           Sum(mine, LAMBDA o : QLo(o.l, o.E, o.s)),
           Sum(mine, LAMBDA o : QHi(o.l, o.E, o.s))>> : p \in pairs}

(* ======================= L2: make_motif34lib ================================= *)
PatMat(K, c) == LET E == EdgesOf(K, c) IN [i \in 1..K |-> [j \in 1..K |-> IF <<i, j>> \in E THEN 1 ELSE 0]]
(* the generator's own connectivity tests                                        *)
GenConnected(K, c) ==
  LET G == PatMat(K, c) IN
  IF K = 3 THEN \A i \in 1..3 : OutDeg(3, G, i) + InDeg(3, G, i) > 0       \* np.all(ko + ki)
  ELSE LET nb(S) == {j \in 1..4 : \E i \in S : G[i][j] = 1 \/ G[j][i] = 1}
           v0 == nb({1})                    \* v = Gs[0, :]
           v1 == v0 \cup nb(v0)             \* two rounds of v = any(Gs[v != 0, :]) + v
           v2 == v1 \cup nb(v1)
       IN v2 = 1..4
LexLess(a, b) == \E k \in 1..Len(a) : a[k] < b[k] /\ \A m \in 1..(k - 1) : a[m] = b[m]
(* canonical label: the degree rows sorted lexicographically, flattened          *)
DegRows(K, c) ==
  LET G == PatMat(K, c)
      G2 == [i \in 1..K |-> [j \in 1..K |-> IF \E m \in 1..K : G[i][m] = 1 /\ G[m][j] = 1 THEN 1 ELSE 0]]
  IN IF K = 3 THEN [i \in 1..3 |-> <<OutDeg(3, G, i), InDeg(3, G, i)>>]
     ELSE [i \in 1..4 |-> <<InDeg(4, G, i), OutDeg(4, G, i), InDeg(4, G2, i), OutDeg(4, G2, i)>>]
RECURSIVE Flatten(_)
Flatten(ss) == IF ss = <<>> THEN <<>> ELSE Head(ss) \o Flatten(Tail(ss))
CanonLabel(K, c) ==
  LET rows == DegRows(K, c)
      order == SetToSortSeq(1..K, LAMBDA a, b : LexLess(rows[a], rows[b]) \/ (rows[a] = rows[b] /\ a < b))
  IN Flatten([k \in 1..K |-> rows[order[k]]])
GenCodes(K) == Tab({c \in AllCodes(K) : GenConnected(K, c)})
LabelTab(K) == Tab([c \in GenCodes(K) |-> CanonLabel(K, c)])
Mika(id) == CASE id = 1 -> 3 [] id = 3 -> 6 [] id = 4 -> 1 [] id = 6 -> 11
              [] id = 7 -> 4 [] id = 8 -> 7 [] id = 11 -> 8 [] OTHER -> id
GenIdTab(K) ==
  LET lt == LabelTab(K)
      labels == Tab(Range(lt))
      rank == Tab([l \in labels |-> 1 + Cardinality({m \in labels : LexLess(m, l)})])
  IN Tab([c \in DOMAIN lt |-> IF K = 3 THEN Mika(rank[lt[c]]) ELSE rank[lt[c]]])
GenId3 == GenIdTab(3)
GenId4 == GenIdTab(4)
GenId(K) == IF K = 3 THEN GenId3 ELSE GenId4
(* decimal "hash" of a pattern, as two 6-digit halves (10^11 does not fit)        *)
DecLoRaw(K, c) == Sum({t \in BitsOf(K, c) : NC(K) - t < 6}, LAMBDA t : 10 ^ (NC(K) - t))
DecHiRaw(K, c) == Sum({t \in BitsOf(K, c) : NC(K) - t >= 6}, LAMBDA t : 10 ^ (NC(K) - t - 6))
Dec3 == Tab([c \in AllCodes(3) |-> <<DecHiRaw(3, c), DecLoRaw(3, c)>>])
Dec4 == Tab([c \in AllCodes(4) |-> <<DecHiRaw(4, c), DecLoRaw(4, c)>>])
Dec(K, c) == IF K = 3 THEN Dec3[c] ELSE Dec4[c]
DecHi(K, c) == Dec(K, c)[1]
DecLo(K, c) == Dec(K, c)[2]

(* ======================= clauses on a library ================================ *)
(* lib = sequence of [code, id, n, hi, lo]                                        *)
LibRowsAreConnectedPatternsOnce(K, lib) ==
  /\ {lib[r].code : r \in DOMAIN lib} = ConnCodes(K)
  /\ Len(lib) = Cardinality(ConnCodes(K))
LibIdsAreClasses(K, lib) ==
  /\ \A r, s \in DOMAIN lib : (lib[r].id = lib[s].id) <=> (ClassTab(K)[lib[r].code] = ClassTab(K)[lib[s].code])
  /\ {lib[r].id : r \in DOMAIN lib} = 1..NumClasses(K)
LibEdgeCounts(K, lib) == \A r \in DOMAIN lib : lib[r].n = NEdges(K, lib[r].code)
LibHashes(K, lib) == \A r \in DOMAIN lib : lib[r].hi = DecHi(K, lib[r].code) /\ lib[r].lo = DecLo(K, lib[r].code)
LibIdsAreGeneratorRanks(K, lib) ==
  \A r \in DOMAIN lib : lib[r].code \in DOMAIN GenId(K) /\ lib[r].id = GenId(K)[lib[r].code]

(* id |-> class from one representative code per id                              *)
ClsOfReps(K, rep) == [i \in DOMAIN rep |-> ClassTab(K)[rep[i]]]
RepsAreBijection(K, rep) ==
  /\ Len(rep) = NumClasses(K)
  /\ \A i \in DOMAIN rep : rep[i] \in ConnCodes(K)
  /\ {ClassTab(K)[rep[i]] : i \in DOMAIN rep} = Classes(K)
=============================================================================
