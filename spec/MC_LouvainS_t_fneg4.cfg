SPECIFICATION Spec
CONSTANT N = 4
CONSTANT Finetune = TRUE
CONSTANT QType = "neg"
CONSTANT GN = 1
CONSTANT GD = 1
CONSTANT Vals <- VS
CONSTANT Gen = FALSE
CHECK_DEADLOCK FALSE
INVARIANT BookkeepingInv
INVARIANT AggregationInv
INVARIANT FinalInv
PROPERTY GainIsTrueDelta
PROPERTY MoveRaisesQ
