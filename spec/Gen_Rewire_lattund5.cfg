SPECIFICATION Spec
CONSTANT N = 5
CONSTANT Dir = FALSE
CONSTANT Conn = FALSE
CONSTANT Latt = TRUE
CONSTANT Mask = FALSE
CONSTANT Iters = 1
CONSTANT KCap = 5
CONSTANT AltD = FALSE
CONSTANT BadPicks = TRUE
CONSTANT Gen = TRUE
CHECK_DEADLOCK FALSE
