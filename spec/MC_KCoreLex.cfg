SPECIFICATION Spec
CONSTANT N = 3
CONSTANT AMax = 2
CONSTANT TinyOnly = TRUE
CONSTANT EMax = 1
INVARIANT RadixOk
INVARIANT LexIsFlatInv
INVARIANT LexPeelInv
CHECK_DEADLOCK FALSE
