SPECIFICATION Spec
CONSTANT N = 4
CONSTANT AMax = 1
CONSTANT EMax = 1
INVARIANT RadixOk
INVARIANT LexIsFlatInv
INVARIANT LexPeelInv
CHECK_DEADLOCK FALSE
