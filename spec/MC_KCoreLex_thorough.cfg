SPECIFICATION Spec
CONSTANT N = 4
CONSTANT AMax = 1
CONSTANT TinyOnly = FALSE
CONSTANT EMax = 1
INVARIANT RadixOk
INVARIANT LexIsFlatInv
INVARIANT LexPeelInv
CHECK_DEADLOCK FALSE
