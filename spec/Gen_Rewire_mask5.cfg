SPECIFICATION Spec
CONSTANT N = 5
CONSTANT Dir = FALSE
CONSTANT Conn = FALSE
CONSTANT Latt = FALSE
CONSTANT Mask = TRUE
CONSTANT Iters = 2
CONSTANT KCap = 4
CONSTANT AltD = FALSE
CONSTANT BadPicks = TRUE
CONSTANT Gen = TRUE
CHECK_DEADLOCK FALSE
