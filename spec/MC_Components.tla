---- MODULE MC_Components ----
EXTENDS MergeImpl
====
