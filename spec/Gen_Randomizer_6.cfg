SPECIFICATION Spec
CONSTANT N = 6
CONSTANT Gen = TRUE
CHECK_DEADLOCK FALSE
