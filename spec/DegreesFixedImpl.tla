----------------------------- MODULE DegreesFixedImpl -----------------------------
(* L2 machine of makerandCIJdegreesfixed (reference.py), INTENDED algorithm        *)
(* (MATLAB BCT makerandCIJdegreesfixed.m): out-stubs in node order are matched to   *)
(* a random permutation of the in-stubs; edges are placed one by one; an edge that  *)
(* would be a self connection or a double edge swaps its target with the target of *)
(* a randomly drawn other edge `switch` for which both new cells are free.          *)
(*                                                                                 *)
(*   edges = (out_inv, in_inv[rng.permutation(k)])              PermStep (k times)  *)
(*   for i in range(k):                                                            *)
(*     if CIJ[edges[0,i], edges[1,i]]:  tried = set()           Loop -> "switch"    *)
(*        while True:                                                              *)
(*          if len(tried) == k: raise BCTParamError             Stuck               *)
(*          switch = randint(k) until not in tried              Switch(sw)          *)
(*          if not (CIJ[e0[i], e1[switch]] or CIJ[e0[switch], e1[i]]): ...; break    *)
(*          tried.add(switch)                                                      *)
(*     else: CIJ[edges[0,i], edges[1,i]] = 1                    Loop (place)        *)
(*   CIJ -= eye(n)                                              Return              *)
(*                                                                                 *)
(* The permutation is revealed one target per PermStep (every arrangement of the   *)
(* in-stub multiset is reached; arrangements that differ only by exchanging stubs  *)
(* of one node are the same `edges`).  Inputs: the (in, out) degree-sequence pairs  *)
(* of ALL digraphs on N nodes (= all graphical pairs), k <= KMax.                   *)
EXTENDS Generators, Json

CONSTANTS N, Gen, KMin, KMax,
          InputPhase    \* TRUE: the witness digraph of the degree pair is chosen row by row
                        \* by InputRow steps (simulation of N = 5: SUBSET of 20 pairs is too
                        \* large to enumerate in Init); FALSE: Init enumerates all pairs
VARIABLES inv, outv, st, pc0, hist
(* st = [C, tg, i, tried, pc] of Generators!DF*;                                      *)
(* pc0 in input | perm | run | returned | raised | emitted                            *)
vars == <<inv, outv, st, pc0, hist>>

DPairs == OffDiag(N)
InSeqOf(E)  == [v \in 1..N |-> Cardinality({e \in E : e[2] = v})]
OutSeqOf(E) == [v \in 1..N |-> Cardinality({e \in E : e[1] = v})]
GraphicalPairs(n) == {<<InSeqOf(E), OutSeqOf(E)>> : E \in SUBSET OffDiag(n)}   \* (parameter: not pre-evaluated)

k   == SeqSum(inv)
src == StubSeq(N, outv)
CountIn(t, v) == Cardinality({x \in DOMAIN t : t[x] = v})

Init == /\ IF InputPhase
           THEN inv = [v \in 1..N |-> 0] /\ outv = [v \in 1..N |-> 0] /\ pc0 = "input"
           ELSE /\ \E p \in {q \in GraphicalPairs(N) : SeqSum(q[1]) >= KMin /\ SeqSum(q[1]) <= KMax} :
                     inv = p[1] /\ outv = p[2]
                /\ pc0 = "perm"
        /\ st = DFInit(N, <<>>)
        /\ hist = <<>>

(* InputPhase: row st.i of the witness digraph gets the out-neighbours S              *)
InputRow(S) ==
  /\ pc0 = "input" /\ st.i <= N /\ st.i \notin S
  /\ outv' = [outv EXCEPT ![st.i] = Cardinality(S)]
  /\ inv' = [v \in 1..N |-> IF v \in S THEN inv[v] + 1 ELSE inv[v]]
  /\ st' = [st EXCEPT !.i = st.i + 1]
  /\ UNCHANGED <<pc0, hist>>
InputDone ==
  /\ pc0 = "input" /\ st.i = N + 1 /\ k >= KMin /\ k <= KMax
  /\ st' = DFInit(N, <<>>)
  /\ pc0' = "perm"
  /\ UNCHANGED <<inv, outv, hist>>

(* reveal the next target of in_inv[perm]                                           *)
PermStep(v) ==
  /\ pc0 = "perm" /\ Len(st.tg) < k /\ CountIn(st.tg, v) < inv[v]
  /\ st' = [st EXCEPT !.tg = Append(st.tg, v)]
  /\ UNCHANGED <<inv, outv, pc0, hist>>
PermDone ==
  /\ pc0 = "perm" /\ Len(st.tg) = k
  /\ st' = DFInit(N, st.tg)
  /\ pc0' = "run"
  /\ UNCHANGED <<inv, outv, hist>>

Loop ==
  /\ pc0 = "run" /\ st.pc = "loop"
  /\ st' = DFLoop(src, st)
  /\ UNCHANGED <<inv, outv, pc0, hist>>
Switch(sw) ==
  /\ pc0 = "run" /\ st.pc = "switch" /\ sw \notin st.tried
  /\ st' = DFSwitch(src, st, sw)
  /\ hist' = IF Gen THEN Append(hist, sw) ELSE hist
  /\ UNCHANGED <<inv, outv, pc0>>
Stuck ==
  /\ pc0 = "run" /\ DFExhausted(st)
  /\ st' = DFStuck(st)
  /\ pc0' = "raised"
  /\ UNCHANGED <<inv, outv, hist>>
Return ==
  /\ pc0 = "run" /\ st.pc = "done"
  /\ st' = [st EXCEPT !.C = MinusEye(N, st.C)]
  /\ pc0' = "returned"
  /\ UNCHANGED <<inv, outv, hist>>

(* a permutation of stub positions that yields the target sequence tg                *)
PermOf(tg) ==
  LET first(v) == Sum(1..(v - 1), LAMBDA u : inv[u])
  IN [t \in 1..Len(tg) |-> first(tg[t]) + Cardinality({x \in 1..t : tg[x] = tg[t]})]
Emit ==
  /\ Gen /\ pc0 \in {"returned", "raised"}
  /\ PrintT("G|" \o ToJson([fn |-> "makerandCIJdegreesfixed", n |-> N, k |-> k,
                            inv |-> inv, outv |-> outv,
                            perm |-> PermOf(hist[1]), draws |-> Tail(hist),
                            stuck |-> IF pc0 = "raised" THEN 1 ELSE 0,
                            expect |-> IF pc0 = "raised" THEN <<>> ELSE st.C]))
  /\ pc0' = "emitted"
  /\ UNCHANGED <<inv, outv, st, hist>>
(* Gen: remember the initial target sequence as hist[1]                              *)
PermDoneG ==
  /\ pc0 = "perm" /\ Len(st.tg) = k
  /\ st' = DFInit(N, st.tg)
  /\ pc0' = "run"
  /\ hist' = <<st.tg>>
  /\ UNCHANGED <<inv, outv>>

Next == \/ \E S \in SUBSET (1..N) : InputRow(S)
        \/ InputDone
        \/ \E v \in 1..N : PermStep(v)
        \/ (IF Gen THEN PermDoneG ELSE PermDone)
        \/ Loop
        \/ \E sw \in 1..k : Switch(sw)
        \/ Stuck \/ Return \/ Emit
Spec == Init /\ [][Next]_vars

(* ------------------------------ invariants ---------------------------------- *)
TypeOK == /\ pc0 \in {"input", "perm", "run", "returned", "raised", "emitted"}
          /\ st.pc \in {"loop", "switch", "done", "stuck"}
          /\ pc0 # "input" => Len(src) = k
(* the targets stay an arrangement of the in-stub multiset                          *)
TargetsInv == pc0 \notin {"input", "perm"} => \A v \in 1..N : CountIn(st.tg, v) = inv[v]
(* edges 1..i-1 are placed on distinct off-diagonal cells, and C is exactly          *)
(* identity + those cells                                                           *)
Placed == {<<src[e], st.tg[e]>> : e \in 1..(st.i - 1)}
PlacedInv == pc0 = "run" =>
  /\ Cardinality(Placed) = st.i - 1
  /\ \A c \in Placed : c[1] # c[2]
  /\ st.C = Mat(N, LAMBDA a, b : IF a = b \/ <<a, b>> \in Placed THEN 1 ELSE 0)
(* a switch is only asked for a colliding edge                                      *)
SwitchInv == (pc0 = "run" /\ st.pc = "switch") => st.C[src[st.i]][st.tg[st.i]] = 1
(* L2 => L1 contract at return                                                      *)
DoneContract == pc0 = "returned" => /\ Shape(N, st.C)
                                    /\ DegreesContract(N, st.C, inv, outv)
(* not an invariant (used to find out whether a graphical pair can get stuck)        *)
NeverStuck == pc0 # "raised"
=============================================================================
