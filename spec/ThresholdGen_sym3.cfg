SPECIFICATION Spec
CONSTANT N = 3
CONSTANT Sym = TRUE
CONSTANT WMax = 3
CHECK_DEADLOCK FALSE
