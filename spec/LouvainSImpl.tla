-------------------------------- MODULE LouvainSImpl --------------------------------
(* C02 / C07.  L2 machine of modularity_louvain_und_sign and                           *)
(* modularity_finetune_und_sign (bct/algorithms/modularity.py): signed undirected        *)
(* networks, positive part W0 and negative part W1 kept separately with their own        *)
(* incremental node-to-module sums knm0/knm1, km0/km1; gain                              *)
(*      dQ = d0*dQ0 - d1*dQ1,   (d0,d1) by qtype,                                        *)
(* here as the integer  G = M0*X0 - M1*X1  with  X0 = gd*s0*dQ0,  X1 = gd*s1*dQ1 and      *)
(* (M0,M1) the qtype multipliers over the common denominator (exactly the ordering of    *)
(* the float gains, ties included).                                                      *)
(*   louvain:  q = [-1, 0]; while q[h]-q[h-1] > 1e-10: sweeps; aggregate; q.append(...)   *)
(*             returns the LAST level (ci[-1], q[-1])                                     *)
(*   finetune: one level from a given partition; q recomputed from the definition         *)
EXTENDS Modularity, SequencesExt, Json

CONSTANTS N, Finetune, QType, GN, GD, Vals, Gen
VARIABLES W, start,
          kc,              \* per-input constants [s0, s1, m0, m1, den] computed once
          A0, A1, nl,      \* current-level positive / negative matrices and their size
          cur,             \* original node -> current-level node
          m, knm0, knm1, km0, km1,
          order, pos, flag,
          h, qs,           \* qs: sequence of level values as integers over the common denominator
          res, pc, hist
vars == <<W, start, kc, A0, A1, nl, cur, m, knm0, knm1, km0, km1, order, pos, flag, h, qs, res, pc, hist>>

UPairs == {p \in (1..N) \X (1..N) : p[1] < p[2]}
Inputs == {Mat(N, LAMBDA i, j : IF i = j THEN 0 ELSE IF i < j THEN f[<<i, j>>] ELSE f[<<j, i>>])
             : f \in [UPairs -> Vals]}
Starts == IF Finetune
          THEN {c \in [1..N -> 1..N] : c[1] = 1 /\ \A i \in 2..N : \E j \in 1..(i-1) : c[i] <= c[j] + 1}
          ELSE {[i \in 1..N |-> i]}
Perms(k) == {p \in [1..k -> 1..k] : {p[i] : i \in 1..k} = 1..k}

(* qtype multipliers: Q = X0part/(gd*s0*den0) - X1part/(gd*s1*den1);                     *)
(* den0 = s0 (sta, smp, pos) | s0+s1 (gja);  den1 = s1 (smp, neg) | s0+s1 (sta, gja)      *)
ConstsOf(X) ==
  LET s0 == Total(N, PosW(N, X))  s1 == Total(N, NegW(N, X))
      use0 == s0 > 0 /\ QType # "neg"
      use1 == s1 > 0 /\ QType # "pos"
      den0 == IF ~use0 THEN 1 ELSE GD * s0 * (IF QType = "gja" THEN s0 + s1 ELSE s0)
      den1 == IF ~use1 THEN 1 ELSE GD * s1 * (IF QType \in {"smp", "neg"} THEN s1 ELSE s0 + s1)
      cg == Gcd(den0, den1)
  IN [s0 |-> s0, s1 |-> s1, m0 |-> IF use0 THEN den1 \div cg ELSE 0,
      m1 |-> IF use1 THEN den0 \div cg ELSE 0, den |-> (den0 \div cg) * den1]
S0 == kc.s0
S1 == kc.s1
M0 == kc.m0
M1 == kc.m1
ComDen == kc.den

Knm(n, A, lab) == [i \in 1..n |-> [mm \in 1..n |-> Sum({j \in 1..n : lab[j] = mm}, LAMBDA j : A[i][j])]]
Km(n, A, lab) == [mm \in 1..n |-> Sum({j \in 1..n : lab[j] = mm}, LAMBDA j : InStr(n, A, j))]

Init ==
  /\ W \in {X \in Inputs : Total(N, PosW(N, X)) > 0 /\ Total(N, NegW(N, X)) > 0}
  /\ start \in Starts
  /\ kc = ConstsOf(W)
  /\ A0 = PosW(N, W) /\ A1 = NegW(N, W) /\ nl = N /\ cur = [i \in 1..N |-> i] /\ m = start
  /\ knm0 = Knm(N, PosW(N, W), start) /\ knm1 = Knm(N, NegW(N, W), start)
  /\ km0 = Km(N, PosW(N, W), start) /\ km1 = Km(N, NegW(N, W), start)
  /\ order = <<>> /\ pos = 0 /\ flag = FALSE
  /\ h = 1 /\ qs = <<>> /\ res = <<>> /\ pc = "sweep" /\ hist = <<>>

BeginSweep(p) ==
  /\ pc = "sweep"
  /\ order' = p /\ pos' = 1 /\ flag' = FALSE /\ pc' = "visit"
  /\ hist' = IF Gen THEN Append(hist, <<"perm", p>>) ELSE hist
  /\ UNCHANGED <<W, start, kc, A0, A1, nl, cur, m, knm0, knm1, km0, km1, h, qs, res>>

(* s0, s1 are replaced by 1 in the code when absent; the corresponding multiplier is 0     *)
X(A, knm, km, s, u, mm) ==
  LET ma == m[u]  k == InStr(nl, A, u) IN
  GD * s * (knm[u][mm] + A[u][u] - knm[u][ma]) - GN * k * (km[mm] + k - km[ma])
Gain(u, mm) ==
  IF mm = m[u] THEN 0
  ELSE M0 * X(A0, knm0, km0, IF S0 > 0 THEN S0 ELSE 1, u, mm)
       - M1 * X(A1, knm1, km1, IF S1 > 0 THEN S1 ELSE 1, u, mm)

VisitTo(mb) ==
  /\ pc = "visit"
  /\ LET u == order[pos]
         ma == m[u]
         best == MaxOf({Gain(u, mm) : mm \in 1..nl})
         cands == {mm \in 1..nl : Gain(u, mm) = best}
     IN IF best > 0
        THEN /\ mb \in cands
             /\ m' = [m EXCEPT ![u] = mb]
             /\ knm0' = [i \in 1..nl |-> [knm0[i] EXCEPT ![mb] = @ + A0[i][u], ![ma] = @ - A0[i][u]]]
             /\ knm1' = [i \in 1..nl |-> [knm1[i] EXCEPT ![mb] = @ + A1[i][u], ![ma] = @ - A1[i][u]]]
             /\ km0' = [km0 EXCEPT ![mb] = @ + InStr(nl, A0, u), ![ma] = @ - InStr(nl, A0, u)]
             /\ km1' = [km1 EXCEPT ![mb] = @ + InStr(nl, A1, u), ![ma] = @ - InStr(nl, A1, u)]
             /\ flag' = TRUE
             /\ hist' = IF Gen /\ Cardinality(cands) > 1 THEN Append(hist, <<"tie", <<u, mb>>>>) ELSE hist
        ELSE /\ mb = 1 /\ UNCHANGED <<m, knm0, knm1, km0, km1, flag, hist>>
  /\ pos' = pos + 1
  /\ pc' = IF pos = nl THEN "endsweep" ELSE "visit"
  /\ UNCHANGED <<W, start, kc, A0, A1, nl, cur, order, h, qs, res>>

EndSweep ==
  /\ pc = "endsweep"
  /\ pc' = IF flag THEN "sweep" ELSE "aggregate"
  /\ UNCHANGED <<W, start, kc, A0, A1, nl, cur, m, knm0, knm1, km0, km1, order, pos, flag, h, qs, res, hist>>

Pooled(n, A, lab, k) ==
  Mat(k, LAMBDA a, b : Sum({c \in (1..n) \X (1..n) : lab[c[1]] = a /\ lab[c[2]] = b}, LAMBDA c : A[c[1]][c[2]]))
(* modularity of the ORIGINAL network for a partition, over ComDen                        *)
QInt(lab) == M0 * ANum(N, PosW(N, W), lab, GN, GD) - M1 * ANum(N, NegW(N, W), lab, GN, GD)

Aggregate ==
  /\ pc = "aggregate"
  /\ LET mc == Canon(nl, m)
         k == Cardinality({mc[i] : i \in 1..nl})
         ncur == [i \in 1..N |-> mc[cur[i]]]
         qh == QInt(ncur)               \* q[h] = d0*q0 - d1*q1 on the pooled matrices (AggregationInv)
         prev == IF h = 1 THEN 0 ELSE qs[h - 1]     \* q = [-1, 0]: q[1] = 0
     IN /\ h' = h + 1
        /\ qs' = Append(qs, qh)
        /\ res' = ncur
        /\ IF Finetune \/ ~(qh - prev > 0)
           THEN pc' = "done" /\ UNCHANGED <<A0, A1, nl, cur, m, knm0, knm1, km0, km1, order, pos, flag>>
           ELSE /\ pc' = "sweep" /\ cur' = ncur
                /\ A0' = Pooled(nl, A0, mc, k) /\ A1' = Pooled(nl, A1, mc, k) /\ nl' = k
                /\ m' = [i \in 1..k |-> i]
                /\ knm0' = Pooled(nl, A0, mc, k) /\ knm1' = Pooled(nl, A1, mc, k)
                /\ km0' = [a \in 1..k |-> InStr(k, Pooled(nl, A0, mc, k), a)]
                /\ km1' = [a \in 1..k |-> InStr(k, Pooled(nl, A1, mc, k), a)]
                /\ order' = <<>> /\ pos' = 0 /\ flag' = FALSE
  /\ UNCHANGED <<W, start, kc, hist>>

Emit ==
  /\ Gen /\ pc = "done"
  /\ PrintT("G|" \o ToJson([W |-> W, start |-> start, script |-> hist, ci |-> res,
                            qnum |-> qs[Len(qs)], qden |-> ComDen, gn |-> GN, gd |-> GD,
                            qtype |-> QType, levels |-> Len(qs)]))
  /\ pc' = "emitted"
  /\ UNCHANGED <<W, start, kc, A0, A1, nl, cur, m, knm0, knm1, km0, km1, order, pos, flag, h, qs, res, hist>>

Next == \/ (pc = "sweep" /\ \E p \in Perms(nl) : BeginSweep(p))   \* guard first: Perms is costly
        \/ \E mb \in 1..nl : VisitTo(mb)
        \/ EndSweep \/ Aggregate \/ Emit
Spec == Init /\ [][Next]_vars

(* ------------------------------- invariants ------------------------------------ *)
Orig == [i \in 1..N |-> m[cur[i]]]
BookkeepingInv ==
  pc \in {"visit", "endsweep", "sweep", "aggregate"} =>
    /\ knm0 = Knm(nl, A0, m) /\ knm1 = Knm(nl, A1, m)
    /\ km0 = Km(nl, A0, m) /\ km1 = Km(nl, A1, m)
(* the pooled matrices carry the modularity of the original network *)
LevelQ == M0 * ANum(nl, A0, m, GN, GD) - M1 * ANum(nl, A1, m, GN, GD)
AggregationInv == pc # "emitted" => LevelQ = QInt(Orig) /\ Total(nl, A0) = S0 /\ Total(nl, A1) = S1
GainIsTrueDelta ==
  [][pc = "visit" /\ m' # m =>
       QInt([i \in 1..N |-> m'[cur[i]]]) - QInt(Orig) = 2 * Gain(order[pos], m'[order[pos]])]_vars
MoveRaisesQ ==
  [][pc = "visit" /\ m' # m => QInt([i \in 1..N |-> m'[cur[i]]]) > QInt(Orig)]_vars
FinalInv ==
  pc = "done" =>
    /\ Labels1toK(N, res)
    /\ qs[Len(qs)] = QInt(res)
    /\ QInt(res) >= QInt(start)
    /\ \A x \in 1..(Len(qs) - 2) : qs[x] < qs[x + 1]
=============================================================================
