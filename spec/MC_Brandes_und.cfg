SPECIFICATION Spec
CONSTANT N = 4
CONSTANT Kind = "und"
CONSTANT Lens = {1, 2}
CONSTANT MaxEdges = 99
CONSTANT Routines = {"wei", "bin"}
CONSTANT Slack = 0
INVARIANT OracleInv
INVARIANT NoRaise
INVARIANT QueueInv
INVARIANT PhaseInv
INVARIANT DepInv
INVARIANT ResultInv
CHECK_DEADLOCK FALSE
