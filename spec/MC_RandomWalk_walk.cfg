SPECIFICATION Spec
CONSTANT Machines <- WalkMachines
CONSTANT WalkDomains <- QWalk
CONSTANT WalkerDomains <- QWalker
CONSTANT LemmaDomains <- None
CONSTANT Q = 4
INVARIANT FwLoopInv
INVARIANT FwProgressInv
INVARIANT FwFinalInv
INVARIANT FwCountsBehavioursInv
INVARIANT FwBigLemmaInv
INVARIANT WalkerCountedInv
INVARIANT WalkerCountInv
INVARIANT WalkerEnabledInv
CHECK_DEADLOCK FALSE
