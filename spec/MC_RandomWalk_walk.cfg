SPECIFICATION FairSpec
CONSTANT Machines <- WalkMachines
CONSTANT WalkDomains <- QWalk
CONSTANT WalkerDomains <- QWalker
CONSTANT LemmaDomains <- None
CONSTANT Q = 4
INVARIANT FwLoopInv
INVARIANT FwFinalInv
INVARIANT FwCountsBehavioursInv
INVARIANT WalkerCountedInv
INVARIANT WalkerCountInv
INVARIANT WalkerEnabledInv
PROPERTY Terminates
CHECK_DEADLOCK FALSE
