SPECIFICATION Spec
CONSTANT N = 4
CONSTANT NX = 2
CONSTANT NY = 2
CONSTANT Vals = {0, 1}
CONSTANT VarSet = {1, 6}
CONSTANT BG = 1
CONSTANT TNs = {4}
CONSTANT TD = 8
CONSTANT TailSet = {"left", "right", "both"}
CONSTANT Paired = FALSE
CONSTANT K = 2
CONSTANT KeepDraws = FALSE
CONSTANT Gen = FALSE
INVARIANT TypeOK
INVARIANT SupraRefinesL0
INVARIANT AdjMarksSupra
INVARIANT LabelsByComponentInv
INVARIANT SizesAreLinkCounts
INVARIANT NullIsMaxComponent
INVARIANT NullLenK
INVARIANT HitCounts
INVARIANT PvalsMatchNull
INVARIANT SwapGroupsAndTailSym
INVARIANT TailBothSym
INVARIANT ReorderInv
INVARIANT StatIsTextbook
INVARIANT PairedDrawIsLabelSwap
CHECK_DEADLOCK FALSE
