-------------------------------- MODULE RandomWalk --------------------------------
(* C18.  L0 definitions for the random-walk and spectral measures                 *)
(*   findwalks, mean_first_passage_time, diffusion_efficiency, pagerank_centrality,*)
(*   eigenvector_centrality_und, subgraph_centrality                              *)
(* and the operator form of findwalks' loop (RandomWalkImpl.tla turns it into a    *)
(* machine, Trace_RandomWalk.tla uses it to predict the very output).              *)
(*                                                                                *)
(* TLC has 32-bit integers and no reals.  What is EXACT here:                      *)
(*   * walk counts = integer matrix powers (Walks), cross-checked in mc against    *)
(*     the number of behaviours of a walker machine (NPaths);                      *)
(*   * the solutions of the LINEAR defining equations of MFPT and PageRank as      *)
(*     fractions of integer determinants (Cramer), for small n;                    *)
(*   * partial sums of the exponential series as floors of exact fractions.        *)
(* What is only a RESIDUAL / BOUND check on the 10^-6 fixed-point image            *)
(* obs = round(x * 10^6) of the code's float output:                               *)
(*   * the defining equation with integer coefficients, |residual| <= budget,      *)
(*     budget = sum of |coefficient| of every observed value (each observed value  *)
(*     is allowed to be off by one whole unit; true rounding is <= 0.55 unit, the  *)
(*     slack absorbs the float error of the code);                                 *)
(*   * eigenvector: parallelism by cross products at 10^-4, Collatz-Wielandt       *)
(*     bounds on the eigenvalue;                                                   *)
(*   * exponential: partial sum + rigorous remainder bound.                        *)
(* Every operator states its magnitude precondition (...MagOK); the trace module   *)
(* skips a record that does not meet it instead of overflowing.                    *)
EXTENDS BctGraph, BctRational

MAXI == 2147483647
(* eagerly evaluated tables (TLC keeps function constructors lazy and would        *)
(* re-evaluate iterated products exponentially often)                             *)
EMat(n, f(_, _)) == TLCEval([i \in 1..n |-> TLCEval([j \in 1..n |-> f(i, j)])])
EVec(n, f(_)) == TLCEval([i \in 1..n |-> f(i)])
OffPairs(n) == {p \in (1..n) \X (1..n) : p[1] # p[2]}
(* round a non-negative fixed-point value to a coarser scale: x / k, half up       *)
RoundDiv(x, k) == IF x >= 0 THEN (x + k \div 2) \div k ELSE -((-x + k \div 2) \div k)
MaxStr(n, A) == IF n = 0 THEN 0 ELSE MaxOf({OutStr(n, A, i) : i \in 1..n})
NonNegInt(n, A) == \A i, j \in 1..n : A[i][j] >= 0

(* ------------------------------------------------------------- walk counts ---- *)
Ident(n) == EMat(n, LAMBDA i, j : IF i = j THEN 1 ELSE 0)
MatMul(n, X, Y) == EMat(n, LAMBDA i, j : Sum(1..n, LAMBDA k : X[i][k] * Y[k][j]))
MatVec(n, X, v) == EVec(n, LAMBDA i : Sum(1..n, LAMBDA k : X[i][k] * v[k]))
(* A^0 .. A^K as a table indexed 0..K, each power by right-multiplication of the       *)
(* previous one (built once: TLC does not memoise recursive function definitions).     *)
(* Needs MaxStr(A)^K <= MAXI: every entry and partial sum of A^k is <= the largest      *)
(* row sum of A^k <= MaxStr^k                                                          *)
RECURSIVE PowSeq(_, _, _, _)
PowSeq(n, A, K, acc) ==
  IF Len(acc) >= K + 1 THEN acc
  ELSE PowSeq(n, A, K, Append(acc, MatMul(n, acc[Len(acc)], A)))
PowTab(n, A, K) ==
  LET sq == PowSeq(n, A, K, <<Ident(n)>>) IN TLCEval([k \in 0..K |-> sq[k + 1]])
(* Walks(n, A, q)[i][j] = number of walks of q steps from i to j in the 0/1 graph  *)
(* A (for integer weights: the weighted count, i.e. the entry of A^q)              *)
Walks(n, A, q) == PowTab(n, A, q)[q]

(* the independent count: behaviours of the walker machine of RandomWalkImpl.tla.  *)
(* StepTo is the machine's transition relation (pos' \in StepTo(n, A, pos));       *)
(* NPaths[len, from, to] = number of behaviours pos_0 = from, ..., pos_len = to,   *)
(* by decomposition on the FIRST step (PowTab decomposes on the last one)          *)
StepTo(n, A, p) == {p2 \in 1..n : A[p][p2] # 0}
NPaths(n, A, K) ==
  LET c[len \in 0..K, from \in 1..n, to \in 1..n] ==
        IF len = 0 THEN (IF from = to THEN 1 ELSE 0)
        ELSE Sum(StepTo(n, A, from), LAMBDA mid : c[len - 1, mid, to])
  IN c

(* largest k <= cap with s^k <= MAXI                                               *)
RECURSIVE MaxPow(_, _, _, _)
MaxPow(s, k, pw, cap) == IF k >= cap \/ (s > 1 /\ pw > MAXI \div s) THEN k
                         ELSE MaxPow(s, k + 1, pw * s, cap)
RECURSIVE IPow(_, _)
IPow(s, k) == IF k = 0 THEN 1 ELSE s * IPow(s, k - 1)

(* ---- findwalks: operator form of the loop of bct/algorithms/distance.py ------- *)
(* state: q (python loop variable), pwr (CIJpwr), Wq[k] = python slice Wq[:,:,k-1]. *)
(* The INTENDED loop (BCT's findwalks.m): slice k-1 holds the walks of k steps.    *)
FwInit(n, B) == [q |-> 1, pwr |-> B,
                 Wq |-> [k \in 1..n |-> IF k = 1 THEN B ELSE Zero(n)]]
FwDone(n, s) == s.q >= n
FwStep(n, B, s) ==                      \* body of `for q in range(1, n)`
  LET p2 == MatMul(n, s.pwr, B) IN
  [q |-> s.q + 1, pwr |-> p2, Wq |-> [s.Wq EXCEPT ![s.q + 1] = p2]]
RECURSIVE FwRun(_, _, _)
FwRun(n, B, s) == IF FwDone(n, s) THEN s ELSE FwRun(n, B, FwStep(n, B, s))
FwAll(n, B) == FwRun(n, B, FwInit(n, B)).Wq
FwTotals(n, Wq) ==                      \* wlq, twalk as the code computes them
  LET wlq == [k \in 1..n |-> Sum((1..n) \X (1..n), LAMBDA p : Wq[k][p[1]][p[2]])]
  IN <<SeqSum(wlq), wlq>>

(* "for each length, the number of walks of that length ..., i.e. the entries of   *)
(*  the corresponding power": the statement does not fix which slice holds which   *)
(* length.  Two readings are accepted: the toolbox's (slice k-1 <-> k steps,       *)
(* k = 1..n) and the docstring's (slice q <-> q steps, q = 1..n-1; what slice 0    *)
(* holds for "0 steps" is neither required nor rejected).                          *)
WqShifted(n, B, Wq) == LET P == PowTab(n, B, n) IN \A k \in 1..n : Wq[k] = P[k]
WqDocstring(n, B, Wq) == LET P == PowTab(n, B, n) IN \A k \in 2..n : Wq[k] = P[k - 1]
WqIsPower(n, B, Wq) == WqShifted(n, B, Wq) \/ WqDocstring(n, B, Wq)
TotalsAreSums(n, Wq, twalk, wlq) == <<twalk, wlq>> = FwTotals(n, Wq)

(* ------------------------------------- walk counts beyond 32 bits (scale) ------ *)
(* On 9 <= n <= 127 nodes the counts leave TLC's integers (K17: beyond 2^63, K30:     *)
(* beyond 3.4e38) and, above 2^53, the floats of the code are not exact either.  What  *)
(* the statement still implies is judged on an encoding of every returned float x      *)
(* (harness/props/c18.py:big_enc) as three integers                                    *)
(*     m, e :  x = m * 2^e exactly if |x| < 2^24 (then e = 0), else |m| in              *)
(*             [2^23, 2^24) and |x - m 2^e| <= 2^e / 2        (24-bit mantissa)         *)
(*     r    :  x mod p as an exact integer (p = BigP)                                   *)
(* by four groups of clauses, none of which lets a number beyond 2^31 reach TLC:        *)
(*   (a) counts are finite and non-negative;                                            *)
(*   (b) EXACT where the count is small: the table of powers with every entry clipped   *)
(*       at cap (ClipTab; min(cap, sum of clipped terms) = min(cap, sum) for            *)
(*       non-negative terms) - an entry below cap is returned exactly, an entry >= cap  *)
(*       is returned >= cap;                                                            *)
(*   (c) EXACT below 2^53 (e <= 29), where a float that claims to be a count IS the      *)
(*       count: its residue mod p equals the entry of the power computed mod p           *)
(*       (ModTab); a wrong value survives with probability 1/p per entry;                *)
(*   (d) the recurrence  Wq[k+1] = Wq[k] . A  between the RETURNED slices, up to the      *)
(*       24-bit rounding of the encoding, in interval arithmetic on <<M, E, B>> =         *)
(*       "a number within B units of M * 2^E" (FSum, FNear); relative tolerance about     *)
(*       3 (indeg + 1) 2^-23; with slice 1 = A (by (b)) this pins every count;            *)
(*   (e) closed form on regular graphs (complete, cycles, K(a,a), circulants): every      *)
(*       row and column of the k-th power sums to degree^k (FPowSeq), all rows alike;     *)
(*   (f) wlq / twalk: sums of the returned counts - exact mod p below 2^53, else FNear.   *)
(* MC_RandomWalk.tla cross-checks ClipTab / ModTab against PowTab on every model input    *)
(* (FwBigLemmaInv) and the whole clause set on K12 (exact up to 11^8) in ASSUMEs.         *)
T24 == 16777216                  \* 2^24: cap of (b); n * T24 <= MAXI for n <= 127
BigP == 999983                   \* prime; n * BigP <= MAXI
Pow2Tab == TLCEval([d \in 0..30 |-> 2^d])
Shr(x, d) == IF d > 30 THEN 0 ELSE x \div Pow2Tab[d]        \* x >= 0
InNbTab(n, A) == TLCEval([j \in 1..n |-> {l \in 1..n : A[l][j] # 0}])
(* tables 0..K of A^k with every entry clipped at cap / reduced mod p (A is 0/1)          *)
RECURSIVE ClipSeq(_, _, _, _, _)
ClipSeq(n, nb, K, cap, acc) ==
  IF Len(acc) >= K + 1 THEN acc
  ELSE LET P == acc[Len(acc)] IN
       ClipSeq(n, nb, K, cap, Append(acc, EMat(n, LAMBDA i, j :
         LET s == Sum(nb[j], LAMBDA l : P[i][l]) IN IF s > cap THEN cap ELSE s)))
ClipTab(n, A, K, cap) ==
  LET sq == ClipSeq(n, InNbTab(n, A), K, cap, <<Ident(n)>>) IN TLCEval([k \in 0..K |-> sq[k + 1]])
RECURSIVE ModSeq(_, _, _, _, _)
ModSeq(n, nb, K, p, acc) ==
  IF Len(acc) >= K + 1 THEN acc
  ELSE LET P == acc[Len(acc)] IN
       ModSeq(n, nb, K, p, Append(acc, EMat(n, LAMBDA i, j : Sum(nb[j], LAMBDA l : P[i][l]) % p)))
ModTab(n, A, K, p) ==
  LET sq == ModSeq(n, InNbTab(n, A), K, p, <<Ident(n)>>) IN TLCEval([k \in 0..K |-> sq[k + 1]])

(* interval arithmetic on <<M, E, B>>, 0 <= M < 2^24 after FNorm                           *)
FNorm(M, E, B) ==
  IF M < T24 THEN <<M, E, B>>
  ELSE LET k == CHOOSE k \in 1..8 : Shr(M, k) < T24 /\ Shr(M, k - 1) >= T24
       IN <<Shr(M, k), E + k, Shr(B, k) + 2>>
(* sum over an index set L (at most 127 terms, each M < 2^24): align to the largest         *)
(* exponent; a shifted term loses < 1 by the floor and its bound is rounded up               *)
FSum(L, m(_), e(_), b(_)) ==
  IF L = {} THEN <<0, 0, 0>> ELSE
  LET E == MaxOf({e(l) : l \in L})
      M == Sum(L, LAMBDA l : Shr(m(l), E - e(l)))
      B == Sum(L, LAMBDA l : IF e(l) = E THEN b(l)
                             ELSE IF m(l) = 0 /\ b(l) = 0 THEN 0 ELSE Shr(b(l), E - e(l)) + 2)
  IN FNorm(M, E, B)
(* can x and y enclose the same number?                                                      *)
FNear(x, y) ==
  LET E == IF x[2] >= y[2] THEN x[2] ELSE y[2] IN
  Abs(Shr(x[1], E - x[2]) - Shr(y[1], E - y[2])) <= Shr(x[3], E - x[2]) + Shr(y[3], E - y[2]) + 4
ObsB(e) == IF e = 0 THEN 0 ELSE 1
Obs(m, e) == <<m, e, ObsB(e)>>
(* d^0 .. d^K, 1 <= d <= 127                                                                 *)
RECURSIVE FPowSeq(_, _, _)
FPowSeq(d, K, acc) ==
  IF Len(acc) >= K + 1 THEN acc
  ELSE LET x == acc[Len(acc)] IN FPowSeq(d, K, Append(acc, FNorm(x[1] * d, x[2], x[3] * d)))
FPowTab(d, K) == LET sq == FPowSeq(d, K, <<(<<1, 0, 0>>)>>) IN TLCEval([k \in 0..K |-> sq[k + 1]])

(* the encoded result: Wm, We, Wr [k][i][j] for slices k = 1..K.  c = 0 the toolbox's        *)
(* reading (slice k <-> A^k), c = 1 the docstring's (slice k <-> A^(k-1), k >= 2)            *)
BigEncodingOK(n, K, Wm, We, Wr, p) ==
  /\ DOMAIN Wm = 1..K /\ DOMAIN We = 1..K /\ DOMAIN Wr = 1..K
  /\ \A k \in 1..K : /\ IsSquare(n, Wm[k]) /\ IsSquare(n, We[k]) /\ IsSquare(n, Wr[k])
                     /\ \A i, j \in 1..n :
                          /\ We[k][i][j] >= 0 /\ We[k][i][j] <= 2000
                          /\ IsFinite(Wm[k][i][j]) => (Abs(Wm[k][i][j]) < T24 /\ Wr[k][i][j] \in 0..(p - 1))
BigFinite(n, K, Wm) == \A k \in 1..K : \A i, j \in 1..n : IsFinite(Wm[k][i][j])
BigNonNeg(n, K, Wm) == \A k \in 1..K : \A i, j \in 1..n : Wm[k][i][j] >= 0
BigClipOK(n, K, C, cap, Wm, We, c) ==
  \A k \in (1 + c)..K : \A i, j \in 1..n :
     LET t == C[k - c][i][j] IN
     IF t < cap THEN We[k][i][j] = 0 /\ Wm[k][i][j] = t
     ELSE We[k][i][j] > 0 \/ Wm[k][i][j] >= cap
BigModOK(n, K, R, We, Wr, c) ==
  \A k \in (1 + c)..K : \A i, j \in 1..n : We[k][i][j] <= 29 => Wr[k][i][j] = R[k - c][i][j]
BigRecOK(n, K, nb, Wm, We, c) ==
  \A k \in (1 + c)..(K - 1) : \A i \in 1..n :
     LET rm == Wm[k][i]  re == We[k][i]  sm == Wm[k + 1][i]  se == We[k + 1][i] IN
     \A j \in 1..n :
        FNear(FSum(nb[j], LAMBDA l : rm[l], LAMBDA l : re[l], LAMBDA l : ObsB(re[l])), Obs(sm[j], se[j]))
(* the common in- and out-degree of a regular 0/1 digraph, else 0                            *)
RegDeg(n, A) == LET d == OutStr(n, A, 1) IN
  IF \A i \in 1..n : OutStr(n, A, i) = d /\ InStr(n, A, i) = d THEN d ELSE 0
BigRowSum(n, Wm, We, k, i) ==
  LET rm == Wm[k][i]  re == We[k][i] IN
  FSum(1..n, LAMBDA j : rm[j], LAMBDA j : re[j], LAMBDA j : ObsB(re[j]))
BigColSum(n, Wm, We, k, j) ==
  FSum(1..n, LAMBDA i : Wm[k][i][j], LAMBDA i : We[k][i][j], LAMBDA i : ObsB(We[k][i][j]))
BigRegularOK(n, K, A, Wm, We, c) ==
  LET d == RegDeg(n, A) IN
  (d >= 1 /\ d <= 127) =>
     LET F == FPowTab(d, K) IN
     \A k \in (1 + c)..K : \A i \in 1..n :
        FNear(BigRowSum(n, Wm, We, k, i), F[k - c]) /\ FNear(BigColSum(n, Wm, We, k, i), F[k - c])
(* totals: tw = <<m, e, r>>, wlm / wle / wlr [k]                                             *)
BigTotalsOK(n, K, Wm, We, Wr, p, tw, wlm, wle, wlr) ==
  /\ \A k \in 1..K :
        LET rows == TLCEval([i \in 1..n |-> BigRowSum(n, Wm, We, k, i)]) IN
        /\ FNear(FSum(1..n, LAMBDA i : rows[i][1], LAMBDA i : rows[i][2], LAMBDA i : rows[i][3]),
                 Obs(wlm[k], wle[k]))
        /\ wle[k] <= 29 => wlr[k] = Sum(1..n, LAMBDA i : Sum(1..n, LAMBDA j : Wr[k][i][j]) % p) % p
  /\ FNear(FSum(1..K, LAMBDA k : wlm[k], LAMBDA k : wle[k], LAMBDA k : ObsB(wle[k])), Obs(tw[1], tw[2]))
  /\ tw[2] <= 29 => tw[3] = Sum(1..K, LAMBDA k : wlr[k]) % p

(* -------------------------------------------------- exact linear algebra ------- *)
(* determinant of a small integer matrix (sequence of rows) by Laplace expansion   *)
Minor(Mx, c) ==
  LET m == Len(Mx) IN
  [i \in 1..(m - 1) |-> [j \in 1..(m - 1) |-> Mx[i + 1][IF j < c THEN j ELSE j + 1]]]
RECURSIVE Det(_)
Det(Mx) ==
  LET m == Len(Mx) IN
  IF m = 0 THEN 1 ELSE IF m = 1 THEN Mx[1][1]
  ELSE Sum(1..m, LAMBDA c : IF Mx[1][c] = 0 THEN 0
                            ELSE (IF c % 2 = 1 THEN 1 ELSE -1) * Mx[1][c] * Det(Minor(Mx, c)))
ReplaceCol(Mx, c, b) == [i \in 1..Len(Mx) |-> [j \in 1..Len(Mx) |-> IF j = c THEN b[i] ELSE Mx[i][j]]]
(* Cramer: numerators and the common denominator of the solution of Mx x = b       *)
Cramer(Mx, b) == LET m == Len(Mx) IN
  [num |-> TLCEval([c \in 1..m |-> Det(ReplaceCol(Mx, c, b))]), den |-> Det(Mx)]
(* Hadamard-style bound that keeps every determinant above below MAXI:             *)
(* (m+1)! * maxabs^m <= MAXI, maxabs >= every |entry| of Mx and b (callers check    *)
(* it before calling Cramer; the factor m+1 covers sums of the numerators)           *)
RECURSIVE Fact(_)
Fact(k) == IF k <= 1 THEN 1 ELSE k * Fact(k - 1)
DetFits(m, maxabs) == m <= 6 /\ maxabs >= 0
                      /\ MaxPow(maxabs, 0, 1, m) = m           \* maxabs^m <= MAXI
                      /\ IPow(maxabs, m) <= MAXI \div (Fact(m) * (m + 1))

(* floor(P/Q * 10^7) for 0 <= P/Q < 200, and the half-up rounding to 10^-6          *)
ToQ7(P, Q) == (P \div Q) * 10000000 + Digits(P % Q, Q, 7, 0)
Round6(P, Q) == (ToQ7(P, Q) + 5) \div 10

(* ------------------------------------------------- mean first passage time ---- *)
(* "M[i,j] = 1 + sum over k # j of P[i,k] M[k,j], P the row-normalised matrix":    *)
(* multiplied by deg_i = sum_k A[i][k] and by 10^6:                                *)
(*     deg_i * m[i][j] = deg_i * 10^6 + sum_{k # j} A[i][k] * m[k][j]              *)
(* holds for the exact solution; every observed m is off by <= 1 unit, so          *)
(*     |residual| <= deg_i + sum_{k # j} A[i][k]           (the budget).           *)
(* Only i # j is demanded (first passage between distinct nodes); the diagonal of   *)
(* M never enters.  Magnitude: deg * m < 10^9 for every term.                      *)
Others(n, j) == (1..n) \ {j}
MfptResidual(n, A, M, i, j) ==
  OutStr(n, A, i) * M[i][j] - OutStr(n, A, i) * Q6
    - Sum(Others(n, j), LAMBDA k : A[i][k] * M[k][j])
MfptBudget(n, A, i, j) == OutStr(n, A, i) + Sum(Others(n, j), LAMBDA k : A[i][k])
MfptMagOK(n, A, M) ==
  /\ MaxStr(n, A) >= 1 /\ MaxStr(n, A) <= 1000
  /\ \A p \in OffPairs(n) : Abs(M[p[1]][p[2]]) <= 1000000000 \div MaxStr(n, A)
MfptEquation(n, A, M) ==
  \A p \in OffPairs(n) : Abs(MfptResidual(n, A, M, p[1], p[2])) <= MfptBudget(n, A, p[1], p[2])

(* the exact solution for target j: unknowns x_i, i # j, of                        *)
(*     deg_i x_i - sum_{k # j} A[i][k] x_k = deg_i                                 *)
(* as fractions <<num_i, den>> (den > 0 on strongly connected input)               *)
IdxWithout(n, j) == [t \in 1..(n - 1) |-> IF t < j THEN t ELSE t + 1]
MfptSystem(n, A, j) ==
  LET ix == IdxWithout(n, j) IN
  [Mx |-> [a \in 1..(n - 1) |-> [b \in 1..(n - 1) |->
              (IF a = b THEN OutStr(n, A, ix[a]) ELSE 0) - A[ix[a]][ix[b]]]],
   b  |-> [a \in 1..(n - 1) |-> OutStr(n, A, ix[a])]]
(* MfptExact(n, A)[i][j] = <<num, den>>, den > 0, for i # j; <<0, 1>> on the diagonal *)
MfptExact(n, A) ==
  LET sol == TLCEval([j \in 1..n |-> LET S == MfptSystem(n, A, j) IN Cramer(S.Mx, S.b)])
      pos(j, i) == IF i < j THEN i ELSE i - 1
  IN EMat(n, LAMBDA i, j :
       IF i = j THEN <<0, 1>>
       ELSE LET d == sol[j].den  u == sol[j].num[pos(j, i)]
            IN IF d < 0 THEN <<-u, -d>> ELSE <<u, d>>)
MfptExactFits(n, A) == n >= 2 /\ DetFits(n - 1, MaxStr(n, A))
(* observed M equals the (unique) solution, to 2 units of 10^-6 (half a unit of       *)
(* rounding on either side, one unit for the float error of the code); pairs whose    *)
(* exact value cannot be rendered by Round6 are not judged                            *)
FracFits(f) == f[2] > 0 /\ f[1] >= 0 /\ f[1] \div f[2] < 200 /\ f[2] < 200000000
MfptNearExact(n, A, M) ==
  LET X == MfptExact(n, A) IN
  \A p \in OffPairs(n) :
     LET f == X[p[1]][p[2]] IN
     FracFits(f) => Abs(M[p[1]][p[2]] - Round6(f[1], f[2])) <= 2

(* ---------------------------------------------------- diffusion efficiency ---- *)
(* "its elementwise inverse": e = 1/M for i # j.  With m = M*10^6 + e1 (|e1|<=.55) *)
(* and M >= 1 (a first passage takes at least one step),                           *)
(*   10^12/m = 10^6/M - e1/M^2 (+ O(10^-6)), floor loses < 1, observed e rounds     *)
(* by <= .55: |e_obs - ToQ6(10^6, m)| <= 0.55 + 0.55 + 1 < 3.                       *)
EdiffMagOK(n, M) == \A p \in OffPairs(n) : M[p[1]][p[2]] >= Q6 - 1 /\ M[p[1]][p[2]] < 200000000
EdiffIsInverse(n, M, E) ==
  \A p \in OffPairs(n) : NearFrac(E[p[1]][p[2]], Q6, M[p[1]][p[2]], 3)
(* "and the mean of that": n(n-1) g = sum of the off-diagonal; g and every e are    *)
(* off by <= 1 unit                                                                *)
GediffIsMean(n, E, g) ==
  /\ \A p \in OffPairs(n) : Abs(E[p[1]][p[2]]) <= 2 * Q6
  /\ Abs(n * (n - 1) * g - Sum(OffPairs(n), LAMBDA p : E[p[1]][p[2]])) <= 2 * n * (n - 1)

(* ------------------------------------------------------------------ PageRank --- *)
(* r = d A D^-1 r + (1-d) f, D = diag of the COLUMN sums deg_j = sum_i A[i][j]      *)
(* (the only D that makes A D^-1 a stochastic matrix; it is what the code divides   *)
(* by), f = falff / sum(falff) (uniform if None), d = p/q.  With L = lcm_j deg_j,   *)
(* F = sum(falff) and r observed at scale S (R = r * S):                            *)
(*   F q L R_i = F p sum_j A[i][j] (L/deg_j) R_j + (q-p) L falff_i S                *)
(* budget_i = F q L + F p sum_j A[i][j] (L/deg_j)    (one unit per observed value).  *)
(* Magnitude: each of the three terms is <= F q L (S + n) once R > 0, sum R ~ S.    *)
ColStr(n, A, j) == InStr(n, A, j)
RECURSIVE LcmSeq(_, _)
LcmSeq(s, k) == IF k = 0 THEN 1 ELSE Lcm(LcmSeq(s, k - 1), s[k])
PrL(n, A) == LcmSeq([j \in 1..n |-> ColStr(n, A, j)], n)
PrMag(n, A, q, f) == SeqSum(f) * q * PrL(n, A)             \* callers keep this < 2*10^6
PrLFits(n, A) == \A j \in 1..n : ColStr(n, A, j) >= 1 /\ ColStr(n, A, j) <= 1000
(* PrMag <= 900000, decided without overflowing (the lcm is built up under a cap)   *)
PrMagFits(n, A, q, f) ==
  /\ PrLFits(n, A) /\ q >= 1 /\ q <= 1000 /\ SeqSum(f) >= 1 /\ SeqSum(f) <= 900
  /\ \A i \in 1..n : f[i] >= 0
  /\ LET bound[k \in 0..n] == IF k = 0 THEN 1
                              ELSE LET prev == bound[k - 1] IN
                                   IF prev > 1000000 THEN prev ELSE Lcm(prev, ColStr(n, A, k))
     IN bound[n] <= 900000 \div (SeqSum(f) * q)
(* largest scale S in 10^6..10^3 with PrMag * S <= 9*10^8                           *)
PrScale(n, A, q, f) == LET m == PrMag(n, A, q, f) IN
  IF m <= 900 THEN 1000000 ELSE IF m <= 9000 THEN 100000
  ELSE IF m <= 90000 THEN 10000 ELSE 1000
PrWeights(n, A, i) == LET L == PrL(n, A) IN
  Sum(1..n, LAMBDA j : A[i][j] * (L \div ColStr(n, A, j)))
PrResidual(n, A, p, q, f, R, S, i) == LET L == PrL(n, A)  F == SeqSum(f) IN
  F * q * L * R[i]
    - F * p * Sum(1..n, LAMBDA j : A[i][j] * (L \div ColStr(n, A, j)) * R[j])
    - (q - p) * L * f[i] * S
PrBudget(n, A, p, q, f, i) == LET L == PrL(n, A)  F == SeqSum(f) IN
  F * q * L + F * p * PrWeights(n, A, i)
PrEquation(n, A, p, q, f, R, S) ==
  \A i \in 1..n : Abs(PrResidual(n, A, p, q, f, R, S, i)) <= PrBudget(n, A, p, q, f, i)
PrPositive(n, R) == \A i \in 1..n : R[i] > 0
PrSumsToOne(n, R, S) == Abs(SeqSum(R) - S) <= n

(* the exact solution by Cramer: (q L I - p A L/deg) x = (q-p) L falff, r = x/sum x *)
PrSystem(n, A, p, q, f) == LET L == PrL(n, A) IN
  [Mx |-> [i \in 1..n |-> [j \in 1..n |->
              (IF i = j THEN q * L ELSE 0) - p * A[i][j] * (L \div ColStr(n, A, j))]],
   b  |-> [i \in 1..n |-> f[i]]]
PrExactFits(n, A, q, f) == PrMagFits(n, A, q, f) /\ DetFits(n, q * PrL(n, A) + SeqSum(f))
PrExact(n, A, p, q, f) ==
  LET S == PrSystem(n, A, p, q, f)  c == Cramer(S.Mx, S.b)  t == SeqSum(c.num)
  IN [i \in 1..n |-> IF t < 0 THEN <<-c.num[i], -t>> ELSE <<c.num[i], t>>]

(* observed r equals the (unique) solution, to 2 units of 10^-6                        *)
PrNearExact(n, A, p, q, f, r6) ==
  LET X == PrExact(n, A, p, q, f) IN
  \A i \in 1..n : FracFits(X[i]) => Abs(r6[i] - Round6(X[i][1], X[i][2])) <= 2

(* ------------------------------------------------ eigenvector centrality ------- *)
(* observed v at 10^-6 is rounded to V = v * 10^4 (double rounding <= 0.55 unit).   *)
(* "non-negative": V >= 0.  "unit": sum V^2 = 10^8 +- (2 sum V + n).                *)
(* "A v = lambda v": (AV)_i V_j = (AV)_j V_i; with every V off by <= 1 unit,        *)
(*   |cross| <= s_i V_j + s_j V_i + (AV)_i + (AV)_j + s_i + s_j   (s = row sum).    *)
(* Magnitude: MaxStr * 10^8 * (1 + small) <= 2*10^9, i.e. MaxStr <= 19.              *)
V4(n, v6) == EVec(n, LAMBDA i : RoundDiv(v6[i], 100))
EigMagOK(n, A, v6) == /\ MaxStr(n, A) <= 19 /\ NonNegInt(n, A)
                      /\ \A i \in 1..n : v6[i] >= 0 /\ v6[i] <= 1010000
EigNonNeg(n, v6) == \A i \in 1..n : v6[i] >= 0
EigUnit(n, v6) == LET V == V4(n, v6) IN
  Abs(Sum(1..n, LAMBDA i : V[i] * V[i]) - 100000000) <= 2 * SeqSum(V) + n
EigParallel(n, A, v6) ==
  LET V == V4(n, v6)  AV == MatVec(n, A, V)  s == [i \in 1..n |-> OutStr(n, A, i)] IN
  \A i, j \in 1..n : i < j =>
     Abs(AV[i] * V[j] - AV[j] * V[i]) <= s[i] * V[j] + s[j] * V[i] + AV[i] + AV[j] + s[i] + s[j]
(* lambda as observed at the largest component m of V: (AV)_m / V_m, 10^-6 floor;   *)
(* V_m >= 10^4/sqrt(n) - 1 for a unit vector.  Error of the quotient:               *)
(* (s_m + lambda) / V_m <= 2 MaxStr / V_m, in 10^-6 units: EigLamTol.               *)
EigArgmax(n, V) == CHOOSE m \in 1..n : \A k \in 1..n : V[m] >= V[k]
EigLam6(n, A, v6) == LET V == V4(n, v6)  m == EigArgmax(n, V) IN ToQ6(MatVec(n, A, V)[m], V[m])
EigLamTol(n, A, v6) == LET V == V4(n, v6)  m == EigArgmax(n, V) IN
  (2 * MaxStr(n, A) * Q6) \div V[m] + 2
(* Collatz-Wielandt on B = A + I (primitive on every component, so the bounds close   *)
(* in also on bipartite graphs): for x = B^K 1 > 0 and every component C              *)
(*   min_{i in C} (Bx)_i/x_i <= lambda_max(B|C) = lambda_max(A|C) + 1 <= max_{i in C}. *)
(* lambda_max(A) = max_C lambda_max(A|C).  K = CwK is the largest k <= 14 with          *)
(* (s+1)^k <= min(2*10^8 - 1, MAXI/(s+1)), s = MaxStr: every entry of x is a legal      *)
(* ToQ6 denominator and every entry of Bx fits.                                        *)
RECURSIVE MaxPowL(_, _, _, _, _)
MaxPowL(s, k, pw, cap, lim) == IF k >= cap \/ pw > lim \div s THEN k
                               ELSE MaxPowL(s, k + 1, pw * s, cap, lim)
CwK(n, A) == LET b == MaxStr(n, A) + 1
                 lim == IF MAXI \div b < 199999999 THEN MAXI \div b ELSE 199999999
             IN MaxPowL(b, 0, 1, 14, lim)
CwX(n, A) == LET B == EMat(n, LAMBDA i, j : A[i][j] + (IF i = j THEN 1 ELSE 0))
                 K == CwK(n, A)
                 it[k \in 0..(K + 1)] == IF k = 0 THEN [i \in 1..n |-> 1] ELSE MatVec(n, B, it[k - 1])
             IN <<it[K], it[K + 1]>>
CwLower6(n, A) ==          \* floor(10^6 * max_C min_{i in C} y_i/x_i) - 10^6
  LET xy == CwX(n, A)
      lowOf(C) == MinOf({ToQ6(xy[2][i], xy[1][i]) : i \in C})
  IN IF n = 0 THEN 0 ELSE MaxOf({lowOf(C) : C \in Components(n, A)}) - Q6
CwUpper6(n, A) ==          \* ceil(10^6 * max_i y_i/x_i) - 10^6
  LET xy == CwX(n, A)
  IN IF n = 0 THEN 0 ELSE MaxOf({ToQ6(xy[2][i], xy[1][i]) + 1 : i \in 1..n}) - Q6
EigLambdaIsMax(n, A, v6) ==
  LET lam == EigLam6(n, A, v6)  tol == EigLamTol(n, A, v6) IN
  lam + tol >= CwLower6(n, A) /\ lam - tol <= CwUpper6(n, A)
(* on a connected graph the eigenvector of lambda_max is positive (Perron), and     *)
(*   v_i >= v_max (wmin/lambda)^(n-1) >= 1 / (n MaxStr^(n-1))   (integer weights).  *)
(* demanded only where this bound is >= 4*10^-6, i.e. n MaxStr^(n-1) <= 250000.      *)
EigPositivityDecidable(n, A) ==
  LET s == MaxStr(n, A) IN
  n >= 1 /\ Connected(n, A) /\ s >= 1 /\ MaxPow(s, 0, 1, n - 1) = n - 1
  /\ IPow(s, n - 1) <= 250000 \div n
EigPositive(n, v6) == \A i \in 1..n : v6[i] >= 1

(* ---------------------------------------------------- subgraph centrality ------ *)
(* diag(expm(A))_i = sum_k (A^k)[i][i]/k!.  With s = MaxStr(A) >= rho(A) and        *)
(* K = SubK(s) the largest k <= 19 with s^k <= MAXI, every (A^k), k <= K, is exact. *)
(* Each term is floored at 10^-6 (k <= 11: ToQ6(w, k!); k > 11: the floor for 11!   *)
(* divided successively by 12..k, which is the floor of the whole quotient), so      *)
(*   10^6 * truth in [S6, S6 + (K+1) + Rem6],                                       *)
(* Rem6 >= 10^6 sum_{k>K} s^k/k!:  sum_{k>K} s^k/k! <= (s^K/K!) * s/(K+1-s) for      *)
(* s < K+1 (ratio of successive terms <= s/(K+1)).                                  *)
SubK(s) == IF s <= 1 THEN 19 ELSE MaxPow(s, 0, 1, 19)
RECURSIVE DivChain(_, _, _)
DivChain(x, a, b) == IF a > b THEN x ELSE DivChain(x \div a, a + 1, b)
TermQ6(w, k) == IF k <= 11 THEN ToQ6(w, Fact(k)) ELSE DivChain(ToQ6(w, Fact(11)), 12, k)
SubMagOK(n, A) == NonNegInt(n, A) /\ MaxStr(n, A) <= 8 /\ MaxStr(n, A) < SubK(MaxStr(n, A)) + 1
SubRem6(n, A) ==
  LET s == MaxStr(n, A)  K == SubK(s)  U == TermQ6(IPow(s, K), K) + 1 IN
  IF U > 10000000 \div (s + 1) THEN 1000000000 ELSE (U * s) \div (K + 1 - s) + 1
SubSeries6(n, A) ==
  LET K == SubK(MaxStr(n, A))  P == PowTab(n, A, K) IN
  [i \in 1..n |-> Sum(0..K, LAMBDA k : TermQ6(P[k][i][i], k))]
SubgraphIsExpDiag(n, A, c6) ==
  LET S == SubSeries6(n, A)  K == SubK(MaxStr(n, A))  rem == SubRem6(n, A) IN
  \A i \in 1..n : IsFinite(c6[i]) /\ c6[i] >= S[i] - 1 /\ c6[i] <= S[i] + K + 2 + rem
=============================================================================
