-------------------------------- MODULE ClusteringImpl --------------------------------
(* C09, L2: the statement-by-statement pipelines of bct/algorithms/clustering.py      *)
(* (Clustering!Prog / ExecStep: one action per statement, one per loop-body iteration *)
(* of `for u` in clustering_coef_bu and `for i` in the zhang/costantini branches,     *)
(* registers named after the code's variables) run over EVERY input of a kind:        *)
(*   Kind = "und" | "dir", entries from Vals (0 in Vals), weights (c/D)^3.            *)
(* Invariants: the pipelines' results equal the triple-enumeration definitions (L0);  *)
(* values in [0,1]; exact zero for nodes with < 2 neighbours or no triangle; the mask *)
(* K = inf hits exactly those nodes; halving of diag(S^3) is exact; no 0 denominator  *)
(* under a nonzero numerator.  DefectCharacterisation: the pipeline of transitivity_wd*)
(* WITH the copied per-node masking line (as coded) returns 0 instead of the          *)
(* definition exactly when some node lies on no triangle.                              *)
EXTENDS Clustering
CONSTANTS N, Kind, Vals, D, Fns
ASSUME 0 \in Vals /\ \A v \in Vals : Abs(v) <= D
ASSUME Fns \subseteq AllFns \cup {FnTWDcoded}

VARIABLES W, fn, prog, pc, reg, def
vars == <<W, fn, prog, pc, reg, def>>

UPairs == {p \in (1..N) \X (1..N) : p[1] < p[2]}
DPairs == {p \in (1..N) \X (1..N) : p[1] # p[2]}
UndOf(f) == Mat(N, LAMBDA i, j : IF i < j THEN f[<<i, j>>] ELSE IF j < i THEN f[<<j, i>>] ELSE 0)
DirOf(f) == Mat(N, LAMBDA i, j : IF i # j THEN f[<<i, j>>] ELSE 0)
Inputs == IF Kind = "und" THEN {UndOf(f) : f \in [UPairs -> Vals]}
                          ELSE {DirOf(f) : f \in [DPairs -> Vals]}
TheFn == IF fn = FnTWDcoded THEN FnTWD ELSE fn       \* whose definition applies

Init == /\ W \in Inputs
        /\ fn \in Fns
        /\ InDomain(TheFn, N, W, D)
        /\ prog = Prog(fn, N)                 \* the function body being executed
        /\ pc = 1
        /\ reg = InitReg(W, D)
        /\ def = <<>>
Step == /\ pc <= Len(prog)
        /\ reg' = ExecStep(fn, N, prog[pc], reg)
        /\ pc' = pc + 1
        (* the oracle's answer (L0, triple enumeration) is looked up once, when the       *)
        (* pipeline executes its last statement                                           *)
        /\ def' = IF pc = Len(prog) THEN Def(TheFn, N, W, D) ELSE def
        /\ UNCHANGED <<W, fn, prog>>
Next == Step
Spec == Init /\ [][Next]_vars

Done == pc > Len(prog)
After(name) == \E q \in 1..(pc - 1) : prog[q][1] = name
(* the state right after statement `name` (registers are single-assignment except K,     *)
(* so checking there is checking everywhere)                                             *)
Just(name) == pc > 1 /\ prog[pc - 1][1] = name
Has(name) == name \in DOMAIN reg

(* ---- refinement: pipeline result = definition by triple enumeration ---------------- *)
RefinesDefinition ==
  (Done /\ fn # FnTWDcoded) => SameOut(reg.out, def)
(* clustering_coef_bu fills C[u] one node per iteration: prefix already final           *)
PrefixInv ==
  (fn = FnBU /\ Just("u")) =>
     \A u \in 1..(pc - 2) : SameFrac(reg.out[1][u], ClustBU(N, W)[u])

(* ---- the neighbour-pair enumeration (Clustering Part 1b, used by Trace_Clustering for   *)
(* large networks) is the same function as the node-triple enumeration                     *)
NbrEnumerationEqualsDefinition ==
  (Done /\ fn # FnTWDcoded) => (DefN(fn, N, W, D) = def /\ NbrEnumerationAgrees(fn, N, W, D))

(* ---- the two model-level theorems of the property statement ------------------------ *)
InUnit(fr, signed) == fr[2] > 0 /\ fr[1] <= fr[2] /\ (IF signed THEN -fr[2] <= fr[1] ELSE fr[1] >= 0)
InUnitInterval ==
  (Done /\ fn # FnTWDcoded) =>
    LET X == def IN
    \A v \in 1..Len(X) : \A i \in DOMAIN X[v] :
      (fn \in TransFns /\ ~HasTriple(fn, N, W)) \/ InUnit(X[v][i], fn = FnSC /\ ~NonNeg(N, W))
ExactZero(fr) == fr[1] = 0 /\ fr[2] > 0
ZeroWhenNoTriangleOrDegLT2 ==
  (Done /\ fn \in PerNodeFns) =>
    LET X == def IN
    \A v \in 1..Len(X) : \A i \in 1..N :
      ZeroCase(fn, v, N, W, i) =>
        /\ ExactZero(X[v][i])
        /\ ExactZero(reg.out[v][i])
(* conversely a node on a triangle of a non-negative network has a positive value       *)
PositiveOnTriangle ==
  (Done /\ fn \in PerNodeFns /\ fn # FnSC) =>
    LET X == def IN
    \A v \in 1..Len(X) : \A i \in 1..N : ~ZeroCase(fn, v, N, W, i) => X[v][i][1] > 0

(* ---- intermediate invariants of the pipelines --------------------------------------- *)
(* the mask K = inf (cyc2 = inf) hits exactly the nodes without a triangle               *)
MaskInv ==
  /\ (fn \in {FnBD, FnWD, FnWU} /\ Just("mask")) =>
       \A i \in 1..N : IsInf(reg.K[i]) <=> ZeroCase(fn, 1, N, W, i)
  /\ (fn = FnSD /\ Just("mask_pos")) =>
       \A i \in 1..N : IsInf(reg.K_pos[i]) <=> ZeroCase(fn, 1, N, W, i)
  /\ (fn = FnSD /\ Just("mask_neg")) =>
       \A i \in 1..N : IsInf(reg.K_neg[i]) <=> ZeroCase(fn, 2, N, W, i)
  /\ (fn = FnSZ /\ Just("mask_pos")) =>
       \A i \in 1..N : IsInf(reg.cyc2_pos[i]) <=> ZeroCase(fn, 1, N, W, i)
  /\ (fn = FnSZ /\ Just("mask_neg")) =>
       \A i \in 1..N : IsInf(reg.cyc2_neg[i]) <=> ZeroCase(fn, 2, N, W, i)
  /\ (fn = FnSC /\ Just("mask")) =>          \* signed triangles may cancel: one direction
       \A i \in 1..N : ZeroCase(fn, 1, N, W, i) => IsInf(reg.cyc2[i])
(* `/ 2` in cyc3 = diag(S^3)/2 is exact                                                  *)
HalvingExact ==
  (fn \in {FnBD, FnWD, FnTBD, FnTWD, FnTWDcoded} /\ Just("cyc3")) =>
     \A i \in 1..N : 2 * reg.cyc3[i] = Diag3(N, reg.S)[i]
(* a nonzero number of 3-cycles never meets a zero (or negative) number of possible ones *)
DenominatorInv ==
  /\ Just("CYC3") =>
       \A i \in 1..N : /\ reg.CYC3[i] >= 0
                       /\ reg.cyc3[i] > 0 => reg.CYC3[i] > 0
                       /\ ~IsInf(reg.CYC3[i]) => reg.cyc3[i] <= D3(D) * reg.CYC3[i]
  /\ (fn = FnBD /\ Just("CYC3")) =>
       \A i \in 1..N : ~IsInf(reg.CYC3[i]) => reg.CYC3[i] = Cardinality(TriplesD(N, W, i))
  /\ (fn \in {FnTBD, FnTWD} /\ Just("CYC3")) =>
       \A i \in 1..N : reg.CYC3[i] = Cardinality(TriplesD(N, W, i))
(* every result is a well-formed number except transitivity without any triple (0/0)     *)
NoNaN ==
  (Done /\ fn # FnTWDcoded) =>
     \A v \in 1..Len(reg.out) : \A i \in DOMAIN reg.out[v] :
        reg.out[v][i][2] > 0 \/ (fn \in TransFns /\ ~HasTriple(fn, N, W) /\ reg.out[v][i] = <<0, 0>>)

(* ---- the defect of transitivity_wd (clustering.py:693), characterised --------------- *)
DefectCharacterisation ==
  (Done /\ fn = FnTWDcoded /\ HasTriple(FnTWD, N, W)) =>
     LET coded == reg.out[1][1]
         dfn == TransWD(N, W, D)
         someFree == \E i \in 1..N : TrianglesD(N, W, i) = {}
     IN /\ someFree => coded = <<0, 1>>
        /\ ~someFree => SameFrac(coded, dfn)
        /\ (SameFrac(coded, dfn) <=> (~someFree \/ dfn[1] = 0))
(* NOT an invariant (not in any .cfg used by the harness): claims that the pipeline as    *)
(* coded refines the definition; TLC refutes it with a minimal witness                    *)
(* (MC_Clustering_witness.cfg; the witness is quoted in harness/props/c09.py)          *)
CodedRefinesDefinition ==
  (Done /\ fn = FnTWDcoded /\ HasTriple(FnTWD, N, W)) => SameOut(reg.out, def)
=============================================================================
