-------------------------------- MODULE GenGraphs --------------------------------
(* gen mode: TLC enumerates model inputs and writes them to $GEN_FILE as JSON.  *)
(* Kind "und": all undirected simple graphs on N nodes (edge sets);             *)
(* Kind "dir": all directed simple graphs on N nodes.                           *)
(* Each item is the list of edges <<i,j>> (1-based).  No behaviour is explored: *)
(* the enumeration is the constant-level ASSUME.                                *)
EXTENDS BctBase, SequencesExt, Json, IOUtils
CONSTANTS N, Kind
UPairs == {p \in (1..N) \X (1..N) : p[1] < p[2]}
DPairs == {p \in (1..N) \X (1..N) : p[1] # p[2]}
Items == IF Kind = "und" THEN SUBSET UPairs ELSE SUBSET DPairs
ASSUME JsonSerialize(IOEnv.GEN_FILE, SetToSeq({SetToSeq(E) : E \in Items}))
VARIABLE x
Init == x = Cardinality(Items)
Next == UNCHANGED x
Spec == Init /\ [][Next]_x
=============================================================================
