SPECIFICATION Spec
CONSTANT N = 4
CONSTANT Objective = "negative_asym"
CONSTANT Dir = FALSE
CONSTANT GN = 5
CONSTANT GD = 4
CONSTANT Vals <- VS
CONSTANT Gen = TRUE
CONSTANT AllStarts = TRUE
CHECK_DEADLOCK FALSE
