----------------------------- MODULE BetweennessChain -----------------------------
(* C08, scale regime.  L0: exact betweenness of a CHAIN OF GADGETS by composition. *)
(*                                                                                  *)
(* A gadget is any small graph [m |-> size, A |-> m x m connection lengths 0..3]    *)
(* with two terminals: in = local node 1, out = local node m.  A chain glues        *)
(* gadgets 1..K in a row: out of gadget k IS in of gadget k+1 (junction J_k; J_0 =  *)
(* in of gadget 1, J_K = out of gadget K).  ch = [lib |-> <<gadget, ...>>,          *)
(* seq |-> << <<t, e>>, ... >>]: gadget k is lib[t] with every length multiplied by *)
(* 2^e (e any integer: lengths 3*2^-13 ... 3*2^13 along one chain).  Global node    *)
(* of local node l of gadget k: Off[k] + l.                                          *)
(*                                                                                  *)
(* Why composition is exact: lengths are positive, so shortest paths are simple;    *)
(* every junction separates what is left of it from what is right of it, so         *)
(*  - a shortest path between two nodes of one gadget stays inside that gadget,     *)
(*  - a shortest path from gadget a to gadget b > a is a shortest local path to     *)
(*    out_a, then shortest in->out paths of the gadgets between, then a shortest    *)
(*    local path from in_b; the FRACTION of them through a node / connection of     *)
(*    gadget k is the local fraction inside gadget k (the other factors cancel).    *)
(* The number of shortest paths itself (2^70, 3^81, ...) is never formed: only      *)
(* local counts (<= 6 or a bundle width) and the numbers of nodes left / right of   *)
(* a junction that reach it / are reached from it.  Every product stays < 2^31 for  *)
(* den <= 1000 and n <= 1200.                                                       *)
(* MC_BetweennessChain proves ChainBetw = definition (E) (explicit path             *)
(* enumeration) on every 2-chain of digraphs with <= 3 nodes and = definition (D)   *)
(* on 3-chains of a library with ties, lengths, one-way and unreachable gadgets.    *)
EXTENDS Betweenness

CK(ch) == Len(ch.seq)
Gad(ch, k) == ch.lib[ch.seq[k][1]]
GExp(ch, k) == ch.seq[k][2]

(* Off[k] + l = global node; Off has K+1 entries, the chain has Off[K+1] + 1 nodes  *)
Offsets(ch) == FoldLeft(LAMBDA acc, k : Append(acc, acc[k] + Gad(ch, k).m - 1), <<0>>, IdSeq(CK(ch)))
ChainN(ch) == Offsets(ch)[CK(ch) + 1] + 1

(* a length b * 2^e as <<odd mantissa, exponent>> (b in 1..3)                        *)
NormLen(b, e) == IF b = 2 THEN <<1, e + 1>> ELSE <<b, e>>
LocalEdges(G) == {p \in (1..G.m) \X (1..G.m) : Edge(G.A, p[1], p[2])}
(* the connections of the whole chain: <<from, to, mantissa, exponent>>              *)
ChainEdges(ch) ==
  LET off == Offsets(ch) IN
  UNION {{LET nl == NormLen(Gad(ch, k).A[p[1]][p[2]], GExp(ch, k)) IN
          <<off[k] + p[1], off[k] + p[2], nl[1], nl[2]>> : p \in LocalEdges(Gad(ch, k))}
         : k \in 1..CK(ch)}
(* the length matrix (small chains with exponents >= 0 only: the cross-check models) *)
ChainMat(ch) ==
  LET E == ChainEdges(ch) IN
  Mat(ChainN(ch), LAMBDA i, j :
        IF \E x \in E : x[1] = i /\ x[2] = j
        THEN LET x == CHOOSE x \in E : x[1] = i /\ x[2] = j IN x[3] * 2 ^ x[4] ELSE 0)

GadgetOK(G) == /\ G.m \in 2..260
               /\ IsSquare(G.m, G.A)
               /\ \A i, j \in 1..G.m : G.A[i][j] \in 0..3
               /\ \A i \in 1..G.m : G.A[i][i] = 0
ChainOK(ch) == /\ Len(ch.lib) >= 1 /\ CK(ch) >= 1
               /\ \A t \in 1..Len(ch.lib) : GadgetOK(ch.lib[t])
               /\ \A k \in 1..CK(ch) : ch.seq[k][1] \in 1..Len(ch.lib) /\ ch.seq[k][2] \in -40..40

(* common denominator of every local fraction (saturates at CAP)                     *)
GadgetDen(G) == LET C == Counts(G.m, G.A) IN CommonDen(G.m, LAMBDA s, t : SigmaD(C, s, t))
ChainDen(ch) == FoldLeft(LAMBDA acc, t : LcmCap(acc, GadgetDen(ch.lib[t])), 1, IdSeq(Len(ch.lib)))
DenMax == 1000

(* local table of one gadget: numerators over den of the sums of local fractions    *)
(*   loc   pairs inside the gadget                                                    *)
(*   sOut  s inside, path continues through out      outT  path enters through out   *)
(*   inT   path enters through in                    sIn   s inside, continues via in *)
(*   io    in -> out                                 oi    out -> in                  *)
(* and how many local nodes the terminals reach / are reached from                   *)
GadgetTab(G, den) ==
  LET m == G.m   A == G.A   C == Counts(m, A)   L == 1..m
      share(s, t, x) == IF s # t /\ SigmaD(C, s, t) > 0 THEN x * (den \div SigmaD(C, s, t)) ELSE 0
      fr(s, t, v) == share(s, t, SigmaViaD(C, s, t, v))
      frE(s, t, u, w) == share(s, t, SigmaViaEdgeD(A, C, s, t, u, w))
  IN [m |-> m,
      io |-> Reach(C, 1, m),   oi |-> Reach(C, m, 1),
      fromIn  |-> Cardinality({l \in L \ {1} : Reach(C, 1, l)}),
      toIn    |-> Cardinality({l \in L \ {1} : Reach(C, l, 1)}),
      toOut   |-> Cardinality({l \in L \ {m} : Reach(C, l, m)}),
      fromOut |-> Cardinality({l \in L \ {m} : Reach(C, m, l)}),
      node |-> Force([v \in L |->
                [loc  |-> Sum(PairsST(m), LAMBDA p : fr(p[1], p[2], v)),
                 sOut |-> Sum(L, LAMBDA s : fr(s, m, v)),
                 outT |-> Sum(L, LAMBDA t : fr(m, t, v)),
                 inT  |-> Sum(L, LAMBDA t : fr(1, t, v)),
                 sIn  |-> Sum(L, LAMBDA s : fr(s, 1, v)),
                 io   |-> fr(1, m, v),
                 oi   |-> fr(m, 1, v)]]),
      edge |-> Mat(m, LAMBDA u, w :
                IF ~Edge(A, u, w) THEN [loc |-> 0, sOut |-> 0, outT |-> 0, inT |-> 0, sIn |-> 0, io |-> 0, oi |-> 0]
                ELSE
                [loc  |-> Sum(PairsST(m), LAMBDA p : frE(p[1], p[2], u, w)),
                 sOut |-> Sum(L, LAMBDA s : frE(s, m, u, w)),
                 outT |-> Sum(L, LAMBDA t : frE(m, t, u, w)),
                 inT  |-> Sum(L, LAMBDA t : frE(1, t, u, w)),
                 sIn  |-> Sum(L, LAMBDA s : frE(s, 1, u, w)),
                 io   |-> frE(1, m, u, w),
                 oi   |-> frE(m, 1, u, w)])]

(* everything the per-node / per-connection formulas need, computed once.  The four *)
(* counting sequences are indexed by junction + 1 (junction j = 0..K):               *)
(*   RF nodes strictly right of J_j reachable from J_j     RT ... that reach J_j     *)
(*   LF nodes strictly left of J_j reachable from J_j      LT ... that reach J_j     *)
ChainCtx(ch) ==
  LET K == CK(ch)
      den == ChainDen(ch)
      tab == Force([t \in 1..Len(ch.lib) |-> GadgetTab(ch.lib[t], den)])
      T(k) == tab[ch.seq[k][1]]
      down == [i \in 1..K |-> K + 1 - i]
      RF == FoldLeft(LAMBDA acc, k : <<T(k).fromIn + (IF T(k).io THEN acc[1] ELSE 0)>> \o acc, <<0>>, down)
      RT == FoldLeft(LAMBDA acc, k : <<T(k).toIn + (IF T(k).oi THEN acc[1] ELSE 0)>> \o acc, <<0>>, down)
      LT == FoldLeft(LAMBDA acc, k : Append(acc, T(k).toOut + (IF T(k).io THEN acc[k] ELSE 0)), <<0>>, IdSeq(K))
      LF == FoldLeft(LAMBDA acc, k : Append(acc, T(k).fromOut + (IF T(k).oi THEN acc[k] ELSE 0)), <<0>>, IdSeq(K))
      (* home[g] = the first gadget that contains global node g                       *)
      home == FoldLeft(LAMBDA acc, k : acc \o [l \in 1..(Gad(ch, k).m - 1) |-> k], <<1>>, IdSeq(K))
  IN [K |-> K, n |-> ChainN(ch), den |-> den, tab |-> tab, tix |-> [k \in 1..K |-> ch.seq[k][1]],
      off |-> Offsets(ch), home |-> home, RF |-> RF, RT |-> RT, LT |-> LT, LF |-> LF]

(* share of gadget k (left junction k-1, right junction k) in the value of its local *)
(* node / connection whose table row is x                                             *)
PartOf(X, k, x) ==
  x.loc + x.sOut * X.RF[k + 1] + x.outT * X.RT[k + 1] + x.inT * X.LT[k] + x.sIn * X.LF[k]
  + x.io * X.LT[k] * X.RF[k + 1] + x.oi * X.RT[k + 1] * X.LF[k]

(* BC(g) * den.  A junction shared by gadgets k and k+1 collects both gadgets'        *)
(* shares and every pair (left of it, right of it) that is connected through it       *)
ChainNodeNum(X, g) ==
  LET k == X.home[g]
      l == g - X.off[k]
      T == X.tab[X.tix[k]] IN
  PartOf(X, k, T.node[l])
  + (IF l = T.m /\ k < X.K
     THEN PartOf(X, k + 1, X.tab[X.tix[k + 1]].node[1])
          + X.den * (X.LT[k + 1] * X.RF[k + 1] + X.RT[k + 1] * X.LF[k + 1])
     ELSE 0)

(* EBC(i, j) * den for a connection i -> j of the chain (both ends in one gadget:     *)
(* the later of their home gadgets)                                                    *)
ChainEdgeNum(X, i, j) ==
  LET k == IF X.home[i] > X.home[j] THEN X.home[i] ELSE X.home[j]
      T == X.tab[X.tix[k]] IN
  PartOf(X, k, T.edge[i - X.off[k]][j - X.off[k]])

(* the whole result (small chains: the cross-check models)                            *)
ChainBetw(ch) ==
  LET X == ChainCtx(ch)
      E == {<<x[1], x[2]>> : x \in ChainEdges(ch)} IN
  [den |-> X.den,
   node |-> Force([g \in 1..X.n |-> ChainNodeNum(X, g)]),
   edge |-> Mat(X.n, LAMBDA i, j : IF <<i, j>> \in E THEN ChainEdgeNum(X, i, j) ELSE 0)]

(* composition = definition (D) / (E), as equal fractions                             *)
SameBetw(n, a, b) ==
  /\ a.den < CAP /\ b.den < CAP
  /\ \A v \in 1..n : a.node[v] * b.den = b.node[v] * a.den
  /\ \A i, j \in 1..n : a.edge[i][j] * b.den = b.edge[i][j] * a.den
ChainAgreesD(ch) == LET n == ChainN(ch) IN SameBetw(n, ChainBetw(ch), BetwD(n, ChainMat(ch)))
ChainAgreesE(ch) == LET n == ChainN(ch) IN SameBetw(n, ChainBetw(ch), BetwE(n, ChainMat(ch)))

(* ---------------- observed values of any size: <<whole part, 10^-6 part>> --------- *)
(* obs = w + f / 10^6 with w = floor(value) (clipped to +-INF / NAN by the harness), *)
(* f in 0..10^6; exact = num / den, den <= DenMax                                     *)
WFNearFrac(w, f, num, den) ==
  LET q == num \div den   rem == num % den IN
  /\ IsFinite(w) /\ f \in 0..Q6
  /\ w - q \in {-1, 0, 1}
  /\ Abs(((w - q) * Q6 + f) * den - rem * Q6) <= 2 * den
WFNear(w1, f1, w2, f2) ==
  /\ IsFinite(w1) /\ IsFinite(w2) /\ f1 \in 0..Q6 /\ f2 \in 0..Q6
  /\ w1 - w2 \in {-1, 0, 1}
  /\ Abs((w1 - w2) * Q6 + f1 - f2) <= 2
=============================================================================
