---- MODULE MC_RingLattice ----
EXTENDS RingLatticeImpl
====
