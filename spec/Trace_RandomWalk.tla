---------------------------- MODULE Trace_RandomWalk ----------------------------
(* C18, code -> spec.  Every record is one real call (harness/props/c18.py);       *)
(* r.kind selects the judge.  Common fields: fn, kind, n, A (integer matrix, 0 =   *)
(* no connection), raised, malformed.  Observed reals are q6 = round(x * 10^6)     *)
(* (INF / NAN as in BctBase).                                                      *)
(*   findwalks : Wq[k] = python slice Wq[:,:,k-1] (integers), twalk, wlq           *)
(*   mfpt      : M = mean_first_passage_time(A) (q6)                                *)
(*   ediff     : M as above (its own call), E = ediff (q6), g = gediff (q6)         *)
(*   pagerank  : dp, dq (d = dp/dq), f (integer falff; all ones renders None), r    *)
(*   eigvec    : v (q6)        subgraph : c (q6)                                    *)
(*   fwbig     : findwalks on 9..127 nodes: Wm, We, Wr, tw, wlm, wle, wlr (encoded)  *)
(* EXACT clauses: WqIsPower, TotalsAreSums, MfptIsTheSolution (n <= 7) and           *)
(* PagerankIsTheSolution (n <= 5), both only where the determinants fit 32 bits.    *)
(* RESIDUAL / BOUND clauses (see RandomWalk.tla for the budgets): MfptEquation,      *)
(* EdiffIsInverse, GediffIsMean, Pagerank{Positive,SumsToOne,Equation}, Eig*,         *)
(* SubgraphIsExpDiag.                                                                *)
EXTENDS RandomWalk, TraceBase

Shape(n, M) == IsSquare(n, M)
AllFinite(n, M) == \A p \in OffPairs(n) : IsFinite(M[p[1]][p[2]])
VecOK(n, v) == DOMAIN v = 1..n /\ \A i \in 1..n : IsFinite(v[i])

(* "findwalks returns, for each length, the number of walks of that length between *)
(*  every pair of nodes, i.e. the entries of the corresponding power"               *)
JudgeFindwalks(r) ==
  LET n == r.n IN
  Skip("fewer_than_2_nodes", n < 2,
  Skip("not_binary", ~Is01(n, r.A),
  Skip("magnitude", n > 8,
  Chk("Returns",       r.raised = "",
  Chk("WellFormed",    r.malformed = "" /\ DOMAIN r.Wq = 1..n /\ DOMAIN r.wlq = 1..n
                         /\ \A k \in 1..n : Shape(n, r.Wq[k]),
  Chk("WqIsPower",     WqIsPower(n, r.A, r.Wq),
  (* twalk "total number of walks found", wlq "walk length distribution": the sums   *)
  (* of the returned counts                                                          *)
  Chk("TotalsAreSums", TotalsAreSums(n, r.Wq, r.twalk, r.wlq),
  "ok")))))))

(* the same statement in the regimes of scale beyond TLC's (and, above 2^53, the floats') *)
(* exact integers: 9 <= n <= 127, every returned float encoded as mantissa / exponent /  *)
(* residue (RandomWalk.tla, "walk counts beyond 32 bits").  Fields: Wm, We, Wr [k][i][j],   *)
(* tw = <<m, e, r>> (twalk), wlm, wle, wlr [k] (wlq).                                       *)
JudgeFwBig(r) ==
  LET n == r.n IN
  Skip("fewer_than_2_nodes", n < 2,
  Skip("not_binary", ~Is01(n, r.A),
  Skip("magnitude", n > 127,
  Chk("Returns",       r.raised = "",
  Chk("WellFormed",    r.malformed = "" /\ BigEncodingOK(n, n, r.Wm, r.We, r.Wr, BigP)
                         /\ DOMAIN r.wlm = 1..n /\ DOMAIN r.wle = 1..n /\ DOMAIN r.wlr = 1..n
                         /\ DOMAIN r.tw = 1..3,
  (* "the number of walks": a count is a finite, non-negative number                    *)
  Chk("WqFinite",      BigFinite(n, n, r.Wm) /\ IsFinite(r.tw[1]) /\ \A k \in 1..n : IsFinite(r.wlm[k]),
  Chk("WqNonNegative", BigNonNeg(n, n, r.Wm) /\ r.tw[1] >= 0 /\ \A k \in 1..n : r.wlm[k] >= 0,
  LET nb == InNbTab(n, r.A)
      C == ClipTab(n, r.A, n, T24)
      R == ModTab(n, r.A, n, BigP)
      clip(c) == BigClipOK(n, n, C, T24, r.Wm, r.We, c)
      mod(c) == BigModOK(n, n, R, r.We, r.Wr, c)
      rec(c) == BigRecOK(n, n, nb, r.Wm, r.We, c)
      reg(c) == BigRegularOK(n, n, r.A, r.Wm, r.We, c)
      c0 == clip(0)     c1 == clip(1)           \* evaluated at most once each
      m0 == c0 /\ mod(0)   m1 == c1 /\ mod(1)
      r0 == m0 /\ rec(0)   r1 == m1 /\ rec(1)
      g0 == r0 /\ reg(0)   g1 == r1 /\ reg(1)
  IN
  (* "i.e. the entries of the corresponding power": exactly where the count is below 2^24 *)
  Chk("WqIsPowerSmallCounts",  c0 \/ c1,
  (* ... exactly (mod p) where the returned float is below 2^53                           *)
  Chk("WqIsPowerBelow2p53",    m0 \/ m1,
  (* ... and every slice is the previous one times A (relative 24-bit tolerance)          *)
  Chk("WqRecurrence",          r0 \/ r1,
  (* ... rows and columns of the power of a d-regular graph sum to d^k                    *)
  Chk("WqRegularRowSums",      g0 \/ g1,
  Chk("TotalsAreSums", BigTotalsOK(n, n, r.Wm, r.We, r.Wr, BigP, r.tw, r.wlm, r.wle, r.wlr),
  "ok"))))))))))))

(* "mean_first_passage_time returns M satisfying M[i,j] = 1 + sum over k != j of    *)
(*  P[i,k] M[k,j] for the row-normalised transition matrix P of any connected       *)
(*  network"                                                                        *)
JudgeMfpt(r) ==
  LET n == r.n  A == r.A IN
  Skip("fewer_than_2_nodes", n < 2,
  Skip("negative_weight", ~NonNegInt(n, A),
  Skip("not_strongly_connected", ~StronglyConnected(n, A),
  Chk("Returns",      r.raised = "",
  Chk("WellFormed",   r.malformed = "" /\ Shape(n, r.M),
  Chk("MfptFinite",   AllFinite(n, r.M),
  Skip("magnitude", ~MfptMagOK(n, A, r.M),
  Chk("MfptEquation", MfptEquation(n, A, r.M),
  (* the equation has exactly one solution on a connected network                     *)
  IF n <= 7 /\ MfptExactFits(n, A)
  THEN Chk("MfptIsTheSolution", MfptNearExact(n, A, r.M), "ok")
  ELSE "ok"))))))))

(* "diffusion_efficiency returns its elementwise inverse and the mean of that"       *)
JudgeEdiff(r) ==
  LET n == r.n  A == r.A IN
  Skip("fewer_than_2_nodes", n < 2,
  Skip("negative_weight", ~NonNegInt(n, A),
  Skip("not_strongly_connected", ~StronglyConnected(n, A),
  Chk("Returns",        r.raised = "",
  Chk("WellFormed",     r.malformed = "" /\ Shape(n, r.M) /\ Shape(n, r.E) /\ IsFinite(r.g),
  Skip("mfpt_out_of_range", ~(AllFinite(n, r.M) /\ EdiffMagOK(n, r.M)),
  Chk("EdiffIsInverse", EdiffIsInverse(n, r.M, r.E),
  Chk("GediffIsMean",   GediffIsMean(n, r.E, r.g),
  "ok"))))))))

(* "pagerank_centrality returns the positive solution, summing to one, of            *)
(*  r = d A D^-1 r + (1-d) f"                                                        *)
JudgePagerank(r) ==
  LET n == r.n  A == r.A IN
  Skip("fewer_than_2_nodes", n < 2,
  Skip("negative_weight", ~NonNegInt(n, A),
  Skip("not_strongly_connected", ~StronglyConnected(n, A),
  Skip("damping_outside_0_1", ~(0 < r.dp /\ r.dp < r.dq),
  Skip("falff_not_positive", ~(DOMAIN r.f = 1..n /\ \A i \in 1..n : r.f[i] >= 1),
  Chk("Returns",           r.raised = "",
  Chk("WellFormed",        r.malformed = "" /\ VecOK(n, r.r),
  Skip("magnitude", ~PrMagFits(n, A, r.dq, r.f),
  Chk("PagerankPositive",  PrPositive(n, r.r),
  Chk("PagerankSumsToOne", PrSumsToOne(n, r.r, Q6),
  LET S == PrScale(n, A, r.dq, r.f)
      R == [i \in 1..n |-> RoundDiv(r.r[i], Q6 \div S)] IN
  Chk("PagerankEquation",  PrEquation(n, A, r.dp, r.dq, r.f, R, S),
  (* the equation has exactly one solution for d < 1                                  *)
  IF n <= 5 /\ PrExactFits(n, A, r.dq, r.f)
  THEN Chk("PagerankIsTheSolution", PrNearExact(n, A, r.dp, r.dq, r.f, r.r), "ok")
  ELSE "ok")))))))))))

(* "eigenvector_centrality_und returns a non-negative unit vector v with             *)
(*  A v = lambda_max v"                                                              *)
JudgeEigvec(r) ==
  LET n == r.n  A == r.A IN
  Skip("empty", n < 1,
  Skip("asymmetric", ~IsSym(n, A),
  Skip("magnitude", ~(NonNegInt(n, A) /\ MaxStr(n, A) <= 19 /\ n <= 20),
  Chk("Returns",        r.raised = "",
  Chk("WellFormed",     r.malformed = "" /\ VecOK(n, r.v),
  Chk("EigNonNegative", EigNonNeg(n, r.v),
  Chk("EigUnit",        (\A i \in 1..n : r.v[i] <= 1010000) /\ EigUnit(n, r.v),
  Chk("EigParallel",    EigParallel(n, A, r.v),
  Chk("EigLambdaIsMax", EigLambdaIsMax(n, A, r.v),
  Chk("EigPositiveOnConnected", EigPositivityDecidable(n, A) => EigPositive(n, r.v),
  "ok"))))))))))

(* "subgraph_centrality returns the diagonal of the matrix exponential of the         *)
(*  adjacency matrix"                                                                *)
JudgeSubgraph(r) ==
  LET n == r.n  A == r.A IN
  Skip("empty", n < 1,
  Skip("asymmetric", ~IsSym(n, A),
  Skip("magnitude", ~SubMagOK(n, A),
  Skip("series_bound_too_coarse", SubRem6(n, A) > 20000,
  Chk("Returns",           r.raised = "",
  Chk("WellFormed",        r.malformed = "" /\ DOMAIN r.c = 1..n,
  Chk("SubgraphIsExpDiag", SubgraphIsExpDiag(n, A, r.c),
  "ok")))))))

(* drift: does the model predict the very output?  findwalks: the implementation-      *)
(* shaped loop (FwAll).  mfpt / pagerank: "same" when the record was ALSO compared with  *)
(* the exact Cramer solution (clause c = "ok" then includes *IsTheSolution), "na" when    *)
(* only the residual clauses could be evaluated.                                        *)
Drift(r, c) ==
  CASE r.kind = "findwalks" ->
         IF r.raised = "" /\ r.malformed = "" /\ r.n >= 2 /\ r.n <= 8 /\ Is01(r.n, r.A)
         THEN (IF r.Wq = FwAll(r.n, r.A) THEN "same" ELSE "differs:Wq") ELSE "na"
    [] r.kind = "fwbig" -> "na"
    [] r.kind = "mfpt" ->
         IF c = "ok" /\ r.n <= 7 /\ MfptExactFits(r.n, r.A) THEN "same" ELSE "na"
    [] r.kind = "pagerank" ->
         IF c = "ok" /\ r.n <= 5 /\ PrExactFits(r.n, r.A, r.dq, r.f) THEN "same" ELSE "na"
    [] OTHER -> "na"

ClassOf(r) ==
  CASE r.kind \in {"findwalks", "fwbig"} -> IF r.A = Zero(r.n) THEN "no_edges" ELSE "has_edges"
    [] r.kind \in {"mfpt", "ediff", "pagerank"} -> IF IsSym(r.n, r.A) THEN "undirected" ELSE "directed"
    [] r.kind \in {"eigvec", "subgraph"} ->
         IF ~IsSym(r.n, r.A) THEN "asymmetric"
         ELSE IF Connected(r.n, r.A) THEN "connected" ELSE "disconnected"
    [] OTHER -> "any"

Clause(r) ==
  CASE r.kind = "findwalks" -> JudgeFindwalks(r)
    [] r.kind = "fwbig"     -> JudgeFwBig(r)
    [] r.kind = "mfpt"      -> JudgeMfpt(r)
    [] r.kind = "ediff"     -> JudgeEdiff(r)
    [] r.kind = "pagerank"  -> JudgePagerank(r)
    [] r.kind = "eigvec"    -> JudgeEigvec(r)
    [] r.kind = "subgraph"  -> JudgeSubgraph(r)
    [] OTHER -> "UnknownKind"
Judge(r) == LET c == Clause(r) IN <<c, Drift(r, c), ClassOf(r)>>

VARIABLES tid, verdict
TInit == tid \in 1..Len(Recs) /\ verdict = <<>>
TNext == /\ verdict = <<>>
         /\ verdict' = Judge(Recs[tid])
         /\ PrintT(VLine(tid, verdict'))
         /\ UNCHANGED tid
TSpec == TInit /\ [][TNext]_<<tid, verdict>>
=============================================================================
