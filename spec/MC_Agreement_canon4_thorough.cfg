SPECIFICATION Spec
CONSTANT N = 4
CONSTANT MaxM = 4
CONSTANT Canonical = TRUE
CONSTANT LabelPool <- PoolGapped
CONSTANT Buffs = {1, 2, 3, 4, 1000}
CONSTANT Wts = {3}
CONSTANT AsCoded = FALSE
INVARIANT DummyInv
INVARIANT ChunkInv
INVARIANT PartialInv
INVARIANT FinalInv
INVARIANT WPartialInv
INVARIANT WFinalInv
INVARIANT UnitWeightsInv
CHECK_DEADLOCK FALSE
