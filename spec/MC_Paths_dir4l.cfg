SPECIFICATION Spec
CONSTANT NN = 4
CONSTANT Kind = "dir"
CONSTANT LoopNodes = {2}
CONSTANT Checks = {"bfs", "reach"}
INVARIANT BfsInv
INVARIANT ReachInv
INVARIANT ProbInv
INVARIANT MatchInv
CHECK_DEADLOCK FALSE
