SPECIFICATION Spec
CONSTANT N = 4
CONSTANT Dir = TRUE
CONSTANT Conn = TRUE
CONSTANT Latt = TRUE
CONSTANT Mask = FALSE
CONSTANT Iters = 1
CONSTANT KCap = 6
CONSTANT AltD = FALSE
CONSTANT BadPicks = TRUE
CONSTANT Gen = TRUE
CHECK_DEADLOCK FALSE
