---- MODULE MC_LouvainB ----
EXTENDS LouvainBImpl
V01 == {0, 1}
V012 == {0, 1, 2}
VS == {-1, 0, 1}
VS2 == {-2, -1, 0, 1}
====
