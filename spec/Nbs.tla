-------------------------------- MODULE Nbs --------------------------------
(* C19.  Network-based statistic (bct/nbs.py: nbs_bct).                          *)
(*                                                                              *)
(* Data: an edge-major table of INTEGER subject values, xs[e][s] for the first   *)
(* group and ys[e][s] for the second, e = 1..n(n-1)/2 in the order of            *)
(* np.where(np.triu(ones, 1)) (row-major upper triangle).                        *)
(*                                                                              *)
(* Numbers.  No t value is ever computed.  For an edge the statistic is the      *)
(* integer triple [num, a, w] with   t = sign(num) * sqrt(num^2 * a / w):        *)
(*   two-sample pooled variance (n1, n2 subjects, sums Sx Sy, squares Qx Qy)     *)
(*       num = n2*Sx - n1*Sy            (= n1*n2*(mean x - mean y))              *)
(*       a   = n1 + n2 - 2                                                      *)
(*       w   = (n2*(n1*Qx - Sx^2) + n1*(n2*Qy - Sy^2)) * (n1 + n2)               *)
(*   paired (d = x - y, n pairs, Sd, Qd)                                         *)
(*       num = Sd,  a = n - 1,  w = n*Qd - Sd^2                                  *)
(* and   t > tn/td   (tn >= 0, td > 0)   <=>   eff > 0 /\ eff^2*a*td^2 > tn^2*w   *)
(* where eff = num | -num | |num| for tail right | left | both.                  *)
(* Bounds (32-bit TLC integers): values 0..3, group sizes <= 6, td <= 8,         *)
(* tn <= 40:  eff^2*a*td^2 <= 108^2*10*64 < 7.5e6,  tn^2*w <= 1600*3888*12 <     *)
(* 7.5e7.  StatIsTextbook (NbsImpl) ties the triples to the deviations-from-the- *)
(* mean definition of the variances.                                            *)
(*                                                                              *)
(* Undefined statistics.  w = 0 (no variance at all):                            *)
(*   num = 0  -> 0/0: the edge is NOT supra-threshold ("nan")                    *)
(*   num # 0  -> +-infinity: in the requested tail ("inf") the property statement *)
(*              does not say; L0 accepts either outcome.  The code (L2): the      *)
(*              two-sample routine returns 0 when its denominator is 0 (not      *)
(*              supra for thr >= 0); the paired routine divides by 0 and gets     *)
(*              +-inf (supra in the matching tail).                              *)
(* Exact equality t = thr ("tie") is decided by float rounding: either outcome   *)
(* is legal (L0); the L2 prediction is withheld.  Domain: thr >= 0, groups >= 2. *)
EXTENDS Components

(* ---------------------------------------------------------------- edges ------ *)
(* (a constant table: TLC evaluates it once)                                     *)
EdgePairsTab ==
  [n \in 2..9 |->
     SelectSeq([c \in 1..(n * n) |-> <<((c - 1) \div n) + 1, ((c - 1) % n) + 1>>],
               LAMBDA p : p[1] < p[2])]
EdgePairs(n) == EdgePairsTab[n]
NEdges(n) == (n * (n - 1)) \div 2
(* 0/1 adjacency of a set S of edge indices                                      *)
AdjOf(n, S) ==
  LET E == EdgePairs(n)
      P == {E[e] : e \in S}
  IN Mat(n, LAMBDA i, j : IF <<i, j>> \in P \/ <<j, i>> \in P THEN 1 ELSE 0)

(* ------------------------------------------------------------ statistics ----- *)
SumSq(s) == Sum(DOMAIN s, LAMBDA i : s[i] * s[i])

StatU(xe, ye) ==
  LET n1 == Len(xe)  n2 == Len(ye)
      Sx == SeqSum(xe)  Sy == SeqSum(ye)
      Qx == SumSq(xe)   Qy == SumSq(ye)
  IN [num |-> n2 * Sx - n1 * Sy,
      a   |-> n1 + n2 - 2,
      w   |-> (n2 * (n1 * Qx - Sx * Sx) + n1 * (n2 * Qy - Sy * Sy)) * (n1 + n2)]
StatP(xe, ye) ==
  LET n == Len(xe)
      d == [s \in 1..n |-> xe[s] - ye[s]]
      Sd == SeqSum(d)  Qd == SumSq(d)
  IN [num |-> Sd, a |-> n - 1, w |-> n * Qd - Sd * Sd]
Stat(paired, xe, ye) == IF paired THEN StatP(xe, ye) ELSE StatU(xe, ye)

Tails == {"left", "right", "both"}
SwapTail(tail) == IF tail = "left" THEN "right" ELSE IF tail = "right" THEN "left" ELSE "both"
Eff(num, tail) == IF tail = "both" THEN Abs(num) ELSE IF tail = "left" THEN -num ELSE num

(* "yes" | "no" | "tie" | "inf" | "nan"   for   t > tn/td   in the tail           *)
Verdict(st, tn, td, tail) ==
  LET e == Eff(st.num, tail) IN
  IF st.w = 0 THEN (IF st.num = 0 THEN "nan" ELSE IF e > 0 THEN "inf" ELSE "no")
  ELSE IF e <= 0 THEN "no"
  ELSE LET lhs == e * e * st.a * td * td
           rhs == tn * tn * st.w
       IN IF lhs > rhs THEN "yes" ELSE IF lhs = rhs THEN "tie" ELSE "no"

Verdicts(paired, xs, ys, tn, td, tail) ==
  Force([e \in DOMAIN xs |-> Verdict(Stat(paired, xs[e], ys[e]), tn, td, tail)])

(* L0: edges that must / may be supra-threshold                                  *)
DefSupra(v) == {e \in DOMAIN v : v[e] = "yes"}
AmbSupra(v) == {e \in DOMAIN v : v[e] \in {"tie", "inf"}}
HasTie(v) == \E e \in DOMAIN v : v[e] = "tie"
HasInf(v) == \E e \in DOMAIN v : v[e] = "inf"
(* L2: what `t_stat > thresh` evaluates to in the code (ties: prediction withheld, *)
(* the machine takes False)                                                      *)
CodeSupra(paired, v) == {e \in DOMAIN v : v[e] = "yes" \/ (paired /\ v[e] = "inf")}

(* ------------------------------------------------ L0: components and sizes ---- *)
(* a component = a reachability class (BctGraph) that holds at least one          *)
(* supra-threshold connection; its size = number of connections inside it         *)
LinkComps(n, S) == {C \in Components(n, AdjOf(n, S)) : Cardinality(C) > 1}
LinksIn(n, S, C) == LET E == EdgePairs(n) IN Cardinality({e \in S : E[e][1] \in C})
MaxLinks(n, S) == IF S = {} THEN 0 ELSE MaxOf({LinksIn(n, S, C) : C \in LinkComps(n, S)})
(* every value the largest component size may take given the undecided edges      *)
LegalMax(n, def, amb) ==
  IF Cardinality(amb) <= 6 THEN {MaxLinks(n, def \cup T) : T \in SUBSET amb}
  ELSE MaxLinks(n, def)..MaxLinks(n, def \cup amb)      \* monotone in the edge set

(* ------------------------------------------------ L0: relabelling subjects ---- *)
IsPermOf(p, k) == DOMAIN p = 1..k /\ {p[i] : i \in 1..k} = 1..k
(* unpaired: position s of the relabelled pool holds subject p[s]; the first nx   *)
(* positions form group 1, the remaining ny group 2                               *)
RelabelX(xs, ys, p) ==
  LET nx == Len(xs[1]) IN
  [e \in DOMAIN xs |-> LET z == xs[e] \o ys[e] IN [s \in 1..nx |-> z[p[s]]]]
RelabelY(xs, ys, p) ==
  LET nx == Len(xs[1])  ny == Len(ys[1]) IN
  [e \in DOMAIN xs |-> LET z == xs[e] \o ys[e] IN [s \in 1..ny |-> z[p[nx + s]]]]
(* paired: sg[s] = -1 exchanges the two measurements of pair s                    *)
FlipX(xs, ys, sg) == [e \in DOMAIN xs |-> [s \in DOMAIN sg |-> IF sg[s] = -1 THEN ys[e][s] ELSE xs[e][s]]]
FlipY(xs, ys, sg) == [e \in DOMAIN xs |-> [s \in DOMAIN sg |-> IF sg[s] = -1 THEN xs[e][s] ELSE ys[e][s]]]
IsSigns(sg, k) == DOMAIN sg = 1..k /\ \A s \in 1..k : sg[s] \in {-1, 1}

(* legal values of one null entry under the relabelling `draw`                    *)
NullLegalUnder(n, paired, xs, ys, tn, td, tail, draw) ==
  LET X2 == IF paired THEN FlipX(xs, ys, draw) ELSE RelabelX(xs, ys, draw)
      Y2 == IF paired THEN FlipY(xs, ys, draw) ELSE RelabelY(xs, ys, draw)
      v  == Verdicts(paired, X2, Y2, tn, td, tail)
  IN LegalMax(n, DefSupra(v), AmbSupra(v))
(* ... under SOME relabelling (unpaired: only the split into groups matters)      *)
SplitPerm(S, k) ==     \* the ascending enumeration of S followed by that of its complement
  LET a == SetToSortSeq(S, <)  b == SetToSortSeq((1..k) \ S, <) IN a \o b
NullLegalUnderSome(n, paired, xs, ys, tn, td, tail, val) ==
  LET nx == Len(xs[1])  ny == Len(ys[1]) IN
  IF paired
  THEN \E sg \in [1..nx -> {-1, 1}] : val \in NullLegalUnder(n, paired, xs, ys, tn, td, tail, sg)
  ELSE \E S \in kSubset(nx, 1..(nx + ny)) :
          val \in NullLegalUnder(n, paired, xs, ys, tn, td, tail, SplitPerm(S, nx + ny))

(* ------------------------------------------- L2: the code's own computation --- *)
(* get_components(adj) -> a, sz ; ind_sz = labels of sets with more than one node *)
(* sz_links[i] = sum(adj[ix_(nodes, nodes)]) / 2 ; adj[ix_] *= (i+2) ; adj -= 1   *)
CodeObserved(n, S) ==
  LET A == AdjOf(n, S)
      sets == MergeAll(n, A)
      ind == SelectSeq([i \in 1..Len(sets) |-> i], LAMBDA i : Cardinality(sets[i]) > 1)
      nodes == [i \in 1..Len(ind) |-> sets[ind[i]]]
      szl == [i \in 1..Len(ind) |->
                Sum(nodes[i], LAMBDA u : Sum(nodes[i], LAMBDA v : A[u][v])) \div 2]
      lab == Mat(n, LAMBDA u, v :
                IF A[u][v] = 0 THEN 0
                ELSE LET I == {i \in 1..Len(ind) : u \in nodes[i] /\ v \in nodes[i]} IN
                     IF I = {} THEN 0 ELSE (A[u][v] * ((CHOOSE i \in I : TRUE) + 1)) - 1)
  IN [adj |-> lab, szl |-> szl,
      maxsz |-> IF Len(szl) = 0 THEN 0 ELSE MaxOf({szl[i] : i \in 1..Len(szl)})]
(* the permutation-loop body: d = hstack(xmat, ymat)[:, perm] resp. * signs        *)
CodePermX(paired, xs, ys, draw) ==
  IF paired THEN [e \in DOMAIN xs |-> [s \in DOMAIN draw |-> draw[s] * xs[e][s]]]
  ELSE RelabelX(xs, ys, draw)
CodePermY(paired, xs, ys, draw) ==
  IF paired THEN [e \in DOMAIN xs |-> [s \in DOMAIN draw |-> draw[s] * ys[e][s]]]
  ELSE RelabelY(xs, ys, draw)
CodeNullEntry(n, paired, xs, ys, tn, td, tail, draw) ==
  LET v == Verdicts(paired, CodePermX(paired, xs, ys, draw), CodePermY(paired, xs, ys, draw),
                    tn, td, tail)
  IN [val |-> CodeObserved(n, CodeSupra(paired, v)).maxsz, tie |-> HasTie(v)]
CountGE(null, s) == Cardinality({u \in DOMAIN null : null[u] >= s})

(* ------------------------------- property-level predicates on an observed adj -- *)
(* a connection {i,j} is marked when either of its two cells is nonzero            *)
MarkedEdges(n, adj) ==
  LET E == EdgePairs(n) IN
  {e \in 1..Len(E) : adj[E[e][1]][E[e][2]] # 0 \/ adj[E[e][2]][E[e][1]] # 0}
NoDiagMarks(n, adj) == \A i \in 1..n : adj[i][i] = 0
(* the label(s) written on a marked connection                                    *)
LabelsOn(n, adj, e) ==
  LET p == EdgePairs(n)[e] IN {adj[p[1]][p[2]], adj[p[2]][p[1]]} \ {0}
OneLabelPerEdge(n, adj) == \A e \in MarkedEdges(n, adj) : Cardinality(LabelsOn(n, adj, e)) = 1
LabelOf(n, adj, e) == CHOOSE l \in LabelsOn(n, adj, e) : TRUE
(* "labelled by component": same label <=> same component, labels are 1..C        *)
LabelsByComponent(n, adj) ==
  LET M == MarkedEdges(n, adj)  E == EdgePairs(n)  A == AdjOf(n, M)
      lab == Force([e \in M |-> LabelOf(n, adj, e)])
      comp == Force([v \in 1..n |-> ComponentOf(n, A, v)])
  IN
  /\ OneLabelPerEdge(n, adj)
  /\ \A e, f \in M : (lab[e] = lab[f]) <=> (E[f][1] \in comp[E[e][1]])
  /\ {lab[e] : e \in M} = 1..Cardinality(LinkComps(n, M))
(* number of connections carrying label l                                         *)
LinksWithLabel(n, adj, l) == Cardinality({e \in MarkedEdges(n, adj) : l \in LabelsOn(n, adj, e)})
(* the partition of the marked connections into label classes (label-free)        *)
LabelClasses(n, adj) ==
  LET M == MarkedEdges(n, adj) IN
  {{f \in M : LabelsOn(n, adj, f) = LabelsOn(n, adj, e)} : e \in M}
=============================================================================
