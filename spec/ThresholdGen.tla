------------------------------ MODULE ThresholdGen ------------------------------
(* C17 gen mode: TLC enumerates every N x N matrix with entries 0..WMax off the *)
(* diagonal (every symmetric one if Sym) and writes them to $GEN_FILE as JSON   *)
(* (list of matrices = list of rows).  No behaviour is explored: the            *)
(* enumeration is the constant-level ASSUME.                                    *)
EXTENDS BctBase, SequencesExt, Json, IOUtils
CONSTANTS N, Sym, WMax
UPairs == {p \in (1..N) \X (1..N) : p[1] < p[2]}
DPairs == {p \in (1..N) \X (1..N) : p[1] # p[2]}
Row(f, i) == FoldLeft(LAMBDA acc, j : Append(acc, IF i = j THEN 0
                                                   ELSE IF Sym /\ j < i THEN f[<<j, i>>]
                                                   ELSE f[<<i, j>>]), <<>>, [j \in 1..N |-> j])
MatOf(f) == FoldLeft(LAMBDA acc, i : Append(acc, Row(f, i)), <<>>, [i \in 1..N |-> i])
Items == {MatOf(f) : f \in [IF Sym THEN UPairs ELSE DPairs -> 0..WMax]}
ASSUME JsonSerialize(IOEnv.GEN_FILE, SetToSeq(Items))
VARIABLE x
Init == x = Cardinality(Items)
Next == UNCHANGED x
Spec == Init /\ [][Next]_x
=============================================================================
