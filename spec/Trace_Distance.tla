---------------------------- MODULE Trace_Distance ----------------------------
(* C03 and C12, code -> spec.  Every record is one real call (harness/props/     *)
(* c03.py, c12.py); r.kind selects the judge, r.fn names the routine.            *)
(*                                                                               *)
(* Common fields: n; Lm = the LENGTH matrix the call was about, in exact integer *)
(* units, INF = no connection (transform None: the input itself; 'inv': 1/w for  *)
(* dyadic w; 'log': k for w = 2^-k, i.e. units of ln 2 - observed lengths are    *)
(* divided by ln 2 before quantising, so exact ties stay ties and ANY exactly    *)
(* minimal choice of the code is accepted); raised; malformed (an output that    *)
(* had to be an integer was not).                                                *)
(* Observed: D/B/R/P matrices of ints (INF = inf, NAN = nan), q6 = round(x*10^6).*)
(* Only ordered pairs of DISTINCT nodes are judged, as in the statements.        *)
EXTENDS Distance, TraceBase

Pairs(n) == OffPairs(n)
At(M, p) == M[p[1]][p[2]]
Shape(n, M) == IsSquare(n, M)
(* scale-regime records (50..400 nodes): the L0 definitions (RelaxFix n^3 x diameter,  *)
(* WalkTab n^4, the loop replicas of Drift) are unaffordable there; they are judged *)
(* with the cheap equivalents of Distance.tla (mc: DistanceImpl!FastOracleInv).     *)
Big(r) == r.n > 20
DistOf(r) == IF Big(r) /\ IsHopLen(r.n, r.Lm) THEN HopDistFast(r.n, r.Lm) ELSE Dist(r.n, r.Lm)

(* ------------------------------------------------------------------- C03 ----- *)
(* kind "dist": a distance routine.  r.D always; r.R (breadthdist, reachdist),   *)
(* r.B (distance_wei: B, distance_wei_floyd: hops) or <<>>; r.diag0 = 1 for the  *)
(* distance_* routines.                                                          *)
JudgeDist(r, DD) ==
  LET n == r.n  D == r.D IN
  Chk("Returns",            r.raised = "",
  Chk("WellFormed",         r.malformed = "" /\ Shape(n, D)
                              /\ (r.R = <<>> \/ Shape(n, r.R)) /\ (r.B = <<>> \/ Shape(n, r.B)),
  (* "infinity exactly when no path exists"                                       *)
  Chk("InfIffUnreachable",  \A p \in Pairs(n) : (At(D, p) = INF) <=> (At(DD, p) = INF),
  (* "for every ordered pair of distinct nodes, the minimum total length over all *)
  (*  paths between them (hop count for binary input)"                            *)
  Chk("OffDiagEqualsDist",  \A p \in Pairs(n) : At(D, p) = At(DD, p),
  (* "distance_* put 0 on the diagonal"                                           *)
  Chk("DiagZero",           r.diag0 = 0 \/ DiagZero(n, D),
  (* "a reachability flag that is true exactly when that distance is finite"      *)
  Chk("RIffFinite",         r.R = <<>> \/ \A p \in Pairs(n) : (At(r.R, p) = 1) <=> (At(DD, p) < INF),
  (* "the edge-count outputs give the number of edges of some minimum-length path" *)
  (* (with zero-length edges: of some exactly minimal walk, see Distance!MinHops)  *)
  Chk("HopsIsSomeMinPath",  r.B = <<>> \/
                              LET zero == \E p \in Pairs(n) : At(r.Lm, p) = 0
                                  WT == WalkTabH(n, r.Lm, IF zero THEN 3 * n ELSE n - 1) IN
                              (* unit lengths: a walk of h edges has length h, so  *)
                              (* MinHops = {distance} (mc: FastOracleInv)          *)
                              IF Big(r) /\ IsHopLen(n, r.Lm)
                              THEN \A p \in Pairs(n) : At(DD, p) < INF => At(r.B, p) = At(DD, p)
                              ELSE
                              \A p \in Pairs(n) : At(DD, p) < INF =>
                                 At(r.B, p) \in MinHops(n, DD, WT, p[1], p[2]),
  "ok")))))))

(* kind "agree": the five routines on one binary matrix, r.Ds = their D outputs   *)
(* "The five routines agree wherever their domains overlap."                      *)
JudgeAgree(r, DD) ==
  Chk("Returns",       r.raised = "",
  Chk("WellFormed",    r.malformed = "" /\ \A a \in DOMAIN r.Ds : Shape(r.n, r.Ds[a]),
  Chk("RoutinesAgree", \A a, b \in DOMAIN r.Ds : \A p \in Pairs(r.n) : At(r.Ds[a], p) = At(r.Ds[b], p),
  "ok")))

(* kind "mean": charpath (r.lam, r.eff on the matrix r.Din it was given, default  *)
(* options include_diagonal=False, include_infinite=True = "over ordered pairs of *)
(* distinct nodes"; judged on the matrix it was handed, which is the output of    *)
(* distance_bin / distance_wei judged by its own record) or an efficiency routine (r.eff, r.Din = <<>>, r.lam = -1).   *)
(* "report exactly the mean and the mean inverse of these distances over ordered  *)
(*  pairs of distinct nodes"                                                      *)
JudgeMean(r, DD) ==
  LET n == r.n IN
  Skip("fewer_than_2_nodes", n < 2,
  Chk("Returns",    r.raised = "",
  Chk("WellFormed", r.malformed = "" /\ (r.Din = <<>> \/ Shape(n, r.Din)),
  (* beyond 20 nodes the same mean inverse, evaluated to 10^-9 without leaving    *)
  (* 32 bits (Distance!MeanInvBigOK; distances must stay below 2*10^8 / n(n-1))   *)
  LET InvOK(obs, D) == IF Big(r) THEN MeanInvBigOK(obs, n, D) ELSE MeanInvOK(obs, n, D) IN
  IF r.Din # <<>>
  THEN Skip("distance_beyond_exact_range", Big(r) /\ ~MeanInvBigInRange(n, r.Din),
       Chk("CharpathIsMean",           MeanDistOK(r.lam, n, r.Din),
       Chk("CharpathEffIsMeanInverse", InvOK(r.eff, r.Din), "ok")))
  (* a pair at distance 0 ('log' of weight 1) has no inverse: outside the domain  *)
  ELSE Skip("zero_distance_pair", \E p \in Pairs(n) : At(DD, p) = 0,
       Skip("distance_beyond_exact_range", Big(r) /\ ~MeanInvBigInRange(n, DD),
       Chk("EfficiencyIsMeanInverse",  InvOK(r.eff, DD), "ok"))))))

(* ------------------------------------------------------------------- C12 ----- *)
(* kind "retrieve": distance_wei_floyd -> retrieve_shortest_path for all (s, t):  *)
(* r.D = SPL, r.B = hops, r.P = Pmat + 1, r.paths[s][t] = node ids, <<>> if empty *)
JudgeRetrieve(r, DD) ==
  LET n == r.n  Lm == r.Lm  P == r.paths
      NE == {p \in Pairs(n) : At(P, p) # <<>>} IN
  Chk("Returns",             r.raised = "",
  Chk("WellFormed",          r.malformed = "" /\ Shape(n, r.D) /\ Shape(n, r.B) /\ Shape(n, P),
  (* "is empty exactly when the target is unreachable"                            *)
  Chk("EmptyIffUnreachable", \A p \in Pairs(n) : (At(P, p) = <<>>) <=> (At(DD, p) = INF),
  (* "starts at the source, ends at the target"                                   *)
  Chk("StartsAtS",           \A p \in NE : At(P, p)[1] = p[1],
  Chk("EndsAtT",             \A p \in NE : At(P, p)[Len(At(P, p))] = p[2],
  (* "moves only along existing connections"                                      *)
  Chk("EdgesExist",          \A p \in NE : IsWalk(n, Lm, At(P, p)),
  (* "has exactly the reported number of hops"                                    *)
  Chk("LenIsHopsPlus1",      \A p \in NE : Len(At(P, p)) = At(r.B, p) + 1,
  (* "and the reported total length"                                              *)
  Chk("TotalIsSPL",          \A p \in NE : PathLen(Lm, At(P, p)) = At(r.D, p),
  "ok"))))))))

(* kind "retrieve_big" (scale regime, 130..400 nodes): the same call chain, judged  *)
(* for the sources r.srcs (node ids drawn by the harness RNG) x ALL targets:        *)
(* r.paths[x][t] = the path returned for (r.srcs[x], t).  r.Lm, r.D, r.B are the    *)
(* full matrices.  The clauses are those of JudgeRetrieve; "unreachable" is decided *)
(* by breadth-first search over the connections of r.Lm (Distance!ReachFrom).       *)
JudgeRetrieveBig(r) ==
  LET n == r.n  Lm == r.Lm  X == 1..Len(r.srcs)
      Out == DOutNb(n, Lm)
      reach == TLCEval([x \in X |-> ReachFrom(Out, r.srcs[x])])
      Q == {q \in X \X (1..n) : q[2] # r.srcs[q[1]]}           \* <<x, t>>, t # source
      Path(q) == r.paths[q[1]][q[2]]
      ST(q) == <<r.srcs[q[1]], q[2]>>
      NE == {q \in Q : Path(q) # <<>>} IN
  Chk("Returns",             r.raised = "",
  Chk("WellFormed",          r.malformed = "" /\ Shape(n, r.D) /\ Shape(n, r.B) /\ Shape(n, Lm)
                               /\ Len(r.paths) = Len(r.srcs)
                               /\ \A x \in X : r.srcs[x] \in 1..n /\ DOMAIN r.paths[x] = 1..n,
  Chk("EmptyIffUnreachable", \A q \in Q : (Path(q) = <<>>) <=> (q[2] \notin reach[q[1]]),
  Chk("StartsAtS",           \A q \in NE : Path(q)[1] = ST(q)[1],
  Chk("EndsAtT",             \A q \in NE : Path(q)[Len(Path(q))] = ST(q)[2],
  Chk("EdgesExist",          \A q \in NE : IsWalk(n, Lm, Path(q)),
  Chk("LenIsHopsPlus1",      \A q \in NE : Len(Path(q)) = At(r.B, ST(q)) + 1,
  Chk("TotalIsSPL",          \A q \in NE : PathLen(Lm, Path(q)) = At(r.D, ST(q)),
  "ok"))))))))

(* kind "distbig" (C03, scale regime): distance_wei / distance_wei_floyd on 130..400 *)
(* nodes with lengths >= 1.  Same clauses as JudgeDist, decided relationally: the   *)
(* reported row of every source must solve the one-pass equation that only the true *)
(* distance row solves (Distance!IsDistRow); hop counts are judged for the sources  *)
(* r.rows (drawn by the harness RNG) against Distance!MinHopsRow.                   *)
JudgeDistBig(r) ==
  LET n == r.n  D == r.D  Lm == r.Lm
      Out == DOutNb(n, Lm)  In == DInNb(n, Lm)
      Row(s) == [D[s] EXCEPT ![s] = 0] IN
  Skip("zero_length_connection", ~PosLen(n, Lm),
  Chk("Returns",            r.raised = "",
  Chk("WellFormed",         r.malformed = "" /\ Shape(n, D) /\ Shape(n, Lm)
                              /\ (r.B = <<>> \/ Shape(n, r.B)) /\ \A x \in DOMAIN r.rows : r.rows[x] \in 1..n,
  Chk("InfIffUnreachable",  \A s \in 1..n : LET R == ReachFrom(Out, s) IN
                               \A t \in (1..n) \ {s} : (D[s][t] = INF) <=> (t \notin R),
  Chk("OffDiagEqualsDist",  \A s \in 1..n : IsDistRow(n, Lm, In, s, Row(s)),
  Chk("DiagZero",           r.diag0 = 0 \/ DiagZero(n, D),
  Chk("HopsIsSomeMinPath",  r.B = <<>> \/
                              \A x \in DOMAIN r.rows :
                                 LET s == r.rows[x]  H == MinHopsRow(n, Lm, In, s, Row(s)) IN
                                 \A t \in (1..n) \ {s} : D[s][t] < INF => r.B[s][t] \in H[t],
  "ok")))))))
BigClass(r) ==
  IF \E i \in 1..r.n : r.Lm[i][i] < INF THEN "selfloop"
  ELSE IF ~PosLen(r.n, r.Lm) THEN "zero_length_edge" ELSE "large_network"

(* kind "nav": navigation_wu(L, Dm, max_hops) -> sr, PLb, PLw, PLd, paths.        *)
(* r.L (0 = no connection, integer lengths), r.Dm, r.maxh (-1 = None)             *)
JudgeNav(r) ==
  LET n == r.n  Lm == LenOfAdj(n, r.L)  P == r.paths
      ok == {p \in Pairs(n) : At(r.PLb, p) # INF} IN
  Skip("fewer_than_2_nodes", n < 2,
  Chk("Returns",                r.raised = "",
  Chk("WellFormed",             r.malformed = "" /\ Shape(n, r.PLb) /\ Shape(n, r.PLw)
                                  /\ Shape(n, r.PLd) /\ Shape(n, P),
  (* "Every path in navigation_wu's output is a walk along existing connections"  *)
  Chk("EveryPathIsWalk",        \A p \in Pairs(n) : IsWalk(n, Lm, At(P, p)) /\ At(P, p)[1] = p[1],
  (* "whose hop count, summed connection length and summed inter-node distance    *)
  (*  are the reported path lengths" (a navigation that succeeded reached j)      *)
  Chk("SuccessfulLengthsMatch", \A p \in ok : LET w == At(P, p) IN
                                   /\ w[Len(w)] = p[2]
                                   /\ At(r.PLb, p) = Len(w) - 1
                                   /\ At(r.PLw, p) = PathLen(r.L, w)
                                   /\ At(r.PLd, p) = (IF \E x \in 1..(Len(w) - 1) : r.Dm[w[x]][w[x + 1]] >= INF
                                                        THEN INF ELSE PathLen(r.Dm, w)),   \* inf nodal distances add up to inf
  (* "failed navigations are reported as infinite in all three"                   *)
  (* (with finite nodal distances also the converse: an infinite entry anywhere means failure; a      *)
  (*  caller-supplied D may hold inf, and then a SUCCESSFUL navigation has an infinite summed distance) *)
  Chk("FailedAreInfInAllThree", \A p \in Pairs(n) :
                                   (At(r.PLb, p) = INF \/ At(r.PLw, p) = INF
                                      \/ (At(r.PLd, p) = INF /\ \A i, j \in 1..n : r.Dm[i][j] < INF))
                                   => (At(r.PLb, p) = INF /\ At(r.PLw, p) = INF /\ At(r.PLd, p) = INF),
  (* "the success ratio is the fraction of ordered pairs that succeeded"          *)
  Chk("SuccessRatioIsFraction", NearFrac(r.sr, Cardinality(ok), n * (n - 1), 2),
  "ok")))))))

(* ------------------------------------------------------------------ drift ---- *)
(* does the implementation-shaped model (operator forms in Distance.tla) predict  *)
(* the very output, ties and diagonals included?                                  *)
LenAdj(n, Lm) == EMat(n, LAMBDA i, j : IF Lm[i][j] < INF THEN Lm[i][j] ELSE 0)
Same(b) == IF b THEN "same" ELSE "differs"
Drift(r) ==
  IF r.raised # "" \/ r.malformed # "" \/ Big(r) THEN "na"
  ELSE LET n == r.n IN
  CASE r.kind = "dist" /\ r.algo = "algebraic" -> Same(r.D = AlgebraicAll(n, AdjOfLen(n, r.Lm)))
    [] r.kind = "dist" /\ r.algo = "bfs" ->
         LET D == BreadthAll(n, AdjOfLen(n, r.Lm)) IN Same(r.D = D /\ r.R = ROfD(n, D))
    [] r.kind = "dist" /\ r.algo = "reach" -> Same(<<r.R, r.D>> = ReachdistAll(n, AdjOfLen(n, r.Lm)))
    [] r.kind = "dist" /\ r.algo = "dijkstra" -> Same(<<r.D, r.B>> = DijkstraAll(n, LenAdj(n, r.Lm)))
    [] r.kind = "dist" /\ r.algo = "floyd" -> Same(<<r.D, r.B, r.P>> = FloydAll(n, r.Lm))
    [] r.kind = "retrieve" ->
         LET f == FloydAll(n, r.Lm) IN
         Same(\A p \in Pairs(n) : At(r.paths, p) = Retrieve(f[2], f[3], p[1], p[2]))
    [] r.kind = "nav" ->
         LET m == NavAll(n, r.L, r.Dm, r.maxh) IN
         IF \E p \in Pairs(n) : At(m, p).status = "diverges" THEN "na"
         ELSE Same(\A p \in Pairs(n) : /\ At(r.paths, p) = At(m, p).path
                                        /\ At(r.PLb, p) = At(m, p).plb
                                        /\ At(r.PLw, p) = At(m, p).plw
                                        /\ At(r.PLd, p) = At(m, p).pld)
    [] OTHER -> "na"

(* ------------------------------------------------------------ input class ---- *)
ClassOf(n, Lm, DD) ==
  IF \E i \in 1..n : Lm[i][i] < INF THEN "selfloop"
  ELSE IF \E p \in Pairs(n) : At(Lm, p) = 0 THEN "zero_length_edge"
  ELSE IF \E p \in Pairs(n) : At(DD, p) = INF THEN "has_unreachable_pair"
  ELSE "strongly_connected"

(* retrieve records: is there a pair with two minimum-length paths of different   *)
(* edge counts?  (there, float rounding of 'log' lengths can let hops and Pmat     *)
(* follow different paths - the precondition of a finding, not a clause)           *)
RetrieveClass(n, Lm, DD) ==
  LET c == ClassOf(n, Lm, DD) IN
  IF c \in {"selfloop", "zero_length_edge"} THEN c
  ELSE LET WT == WalkTab(n, Lm) IN
       IF \E p \in Pairs(n) : Cardinality(MinHops(n, DD, WT, p[1], p[2])) >= 2
       THEN "tied_min_paths_differ_in_hops" ELSE c

Judge(r) ==
  IF r.kind = "nav"
  THEN <<JudgeNav(r), Drift(r),
         IF \E i \in 1..r.n : r.L[i][i] # 0 THEN "selfloop"
         ELSE IF r.maxh < 0 THEN "max_hops_none" ELSE "max_hops_finite">>
  ELSE IF r.kind = "retrieve_big" THEN <<JudgeRetrieveBig(r), "na", BigClass(r)>>
  ELSE IF r.kind = "distbig" THEN <<JudgeDistBig(r), "na", BigClass(r)>>
  ELSE LET DD == DistOf(r) IN
       <<CASE r.kind = "dist" -> JudgeDist(r, DD)
           [] r.kind = "agree" -> JudgeAgree(r, DD)
           [] r.kind = "mean" -> JudgeMean(r, DD)
           [] r.kind = "retrieve" -> JudgeRetrieve(r, DD)
           [] OTHER -> "UnknownKind",
         Drift(r),
         IF r.kind = "retrieve" THEN RetrieveClass(r.n, r.Lm, DD) ELSE ClassOf(r.n, r.Lm, DD)>>

VARIABLES tid, verdict
TInit == tid \in 1..Len(Recs) /\ verdict = <<>>
TNext == /\ verdict = <<>>
         /\ verdict' = Judge(Recs[tid])
         /\ PrintT(VLine(tid, verdict'))
         /\ UNCHANGED tid
TSpec == TInit /\ [][TNext]_<<tid, verdict>>
=============================================================================
