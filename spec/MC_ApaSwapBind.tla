------------------------- MODULE MC_ApaSwapBind -----------------------------
(* Binds the Apalache-typed copies in ApaSwapOps to the operators of Rewire.tla  *)
(* that every rewiring / null-model check uses: equal results and equal enabling *)
(* conditions on 120 signed 5 x 5 matrices x all 5^4 index quadruples (the       *)
(* operators are cell-wise IF cascades over a, b, c, d, so a transcription slip  *)
(* shows on any matrix with distinct neighbouring entries).  Also: the cell maps *)
(* PiDir / PiUnd are involutions.                                                *)
EXTENDS Rewire, TLC
Ops == INSTANCE ApaSwapOps

NN == Ops!N
CellsOf == (1..NN) \X (1..NN)
(* 60 general + 60 symmetric 5 x 5 matrices with entries in -2..2 (about one    *)
(* fifth zeros) from a fixed arithmetic pattern; every one of the 5^4 index      *)
(* quadruples on each.                                                           *)
Pat(k, i, j) == ((k * 7 + i * 3 + j * 5 + i * j * k + (k \div 5) * (i + 2 * j)) % 5) - 2
MatK(k) == [i \in 1..NN |-> [j \in 1..NN |-> Pat(k, i, j)]]
SymK(k) == [i \in 1..NN |-> [j \in 1..NN |-> IF i <= j THEN Pat(k, i, j) ELSE Pat(k, j, i)]]

VARIABLES sup, done
Init == sup \in 1..60 /\ done = FALSE
CheckOne(M) ==
  \A a, b, c, d \in 1..NN :
    /\ Ops!ACanDir(M, a, b, c, d) = CanSwapDir(M, a, b, c, d)
    /\ Ops!ACanUnd(M, a, b, c, d) = CanSwapUnd(M, a, b, c, d)
    /\ Ops!ACanSigned(M, a, b, c, d) = CanSwapSigned(M, a, b, c, d)
    /\ (Distinct4(a, b, c, d) =>
          /\ Ops!ASwapDir(M, a, b, c, d) = SwapDir(NN, M, a, b, c, d)
          /\ Ops!ASwapUnd(M, a, b, c, d) = SwapUnd(NN, M, a, b, c, d)
          /\ Ops!ASwapSignedDir(M, a, b, c, d) = SwapSignedDir(NN, M, a, b, c, d)
          /\ Ops!ASwapSignedUnd(M, a, b, c, d) = SwapSignedUnd(NN, M, a, b, c, d)
          /\ \A p \in CellsOf :
               /\ Ops!PiDir(Ops!PiDir(p, a, b, c, d), a, b, c, d) = p
               /\ Ops!PiUnd(Ops!PiUnd(p, a, b, c, d), a, b, c, d) = p)
BindInv == CheckOne(MatK(sup)) /\ CheckOne(SymK(sup))
Next == done = FALSE /\ done' = TRUE /\ UNCHANGED sup
Spec == Init /\ [][Next]_<<sup, done>>
=============================================================================
