------------------------------ MODULE RingLatticeImpl ------------------------------
(* L2 machine of makeringlatticeCIJ (reference.py), INTENDED algorithm (docstring, *)
(* MATLAB BCT): bands at circular offset 1, 2, ... are added to a directed        *)
(* lattice until at least K connections are present; the excess is removed from   *)
(* the last band by a random permutation of its cells.                            *)
(*                                                                                *)
(*   while kk < k:  count += 1; dCIJ = band(count); CIJ += dCIJ; kk = sum(CIJ)     *)
(*   overby = kk - k                                                              *)
(*   if overby: i, j = where(dCIJ); rp = permutation(len(i))                      *)
(*              for ii in range(overby): CIJ[i[rp[ii]], j[rp[ii]]] = 0             *)
(*                                                                                *)
(* One action per loop body: Fill (while body), Remove(x) (for body, x = rp[ii],  *)
(* the permutation revealed one entry per iteration: any index not used before).  *)
(* Intended reading of a band: the SET of cells at circular offset `count`        *)
(* (0/1 indicator) - for even n the antipodal band n/2 has n cells.               *)
EXTENDS Generators, Json

CONSTANTS N, Gen, KMin, KMax
VARIABLES K, C, kk, count, band, ii, used, pc, hist
vars == <<K, C, kk, count, band, ii, used, pc, hist>>

Init == /\ K \in {k \in 0..(N * (N - 1)) : k >= KMin /\ k <= KMax}
        /\ C = Zero(N) /\ kk = 0 /\ count = 0 /\ band = <<>> /\ ii = 0 /\ used = {}
        /\ hist = <<>>
        /\ pc = "fill"

(* while kk < k *)
Fill ==
  /\ pc = "fill" /\ kk < K
  /\ count' = count + 1
  /\ band' = BandSeq(N, count + 1)
  /\ C' = Mat(N, LAMBDA i, j : IF <<i, j>> \in SeqToSet(BandSeq(N, count + 1)) THEN 1 ELSE C[i][j])
  /\ kk' = Total(N, C')
  /\ UNCHANGED <<K, ii, used, pc, hist>>

(* loop exit: overby = kk - k *)
EndFill ==
  /\ pc = "fill" /\ kk >= K
  /\ pc' = IF kk - K > 0 THEN "remove" ELSE "done"
  /\ UNCHANGED <<K, C, kk, count, band, ii, used, hist>>

(* for ii in range(overby) *)
Remove(x) ==
  /\ pc = "remove" /\ ii < kk - K /\ x \notin used
  /\ C' = SetCell(C, band[x][1], band[x][2], 0)
  /\ used' = used \cup {x} /\ ii' = ii + 1
  /\ hist' = IF Gen THEN Append(hist, x) ELSE hist
  /\ UNCHANGED <<K, kk, count, band, pc>>

EndRemove ==
  /\ pc = "remove" /\ ii = kk - K
  /\ pc' = "done"
  /\ UNCHANGED <<K, C, kk, count, band, ii, used, hist>>

Emit ==
  /\ Gen /\ pc = "done"
  /\ PrintT("G|" \o ToJson([fn |-> "makeringlatticeCIJ", n |-> N, k |-> K,
                            perm |-> IF kk > K THEN CompletePerm(hist, Len(band)) ELSE <<>>,
                            expect |-> C]))
  /\ pc' = "emitted"
  /\ UNCHANGED <<K, C, kk, count, band, ii, used, hist>>

Next == Fill \/ EndFill \/ (\E x \in 1..Len(band) : Remove(x)) \/ EndRemove \/ Emit
Spec == Init /\ [][Next]_vars

(* ------------------------------ invariants ---------------------------------- *)
TypeOK == /\ pc \in {"fill", "remove", "done", "emitted"}
          /\ count \in 0..MaxBand(N)          \* seq[count-1] never runs off the end
          /\ ii = Cardinality(used)
(* while filling: exactly the bands 1..count are present, kk is their size, and    *)
(* the previous total was still short of K (no band is added needlessly)           *)
FillInv == pc = "fill" =>
  /\ C = BandsUpTo(N, count)
  /\ kk = Cardinality(UpTo(N, count))
  /\ count > 0 => Cardinality(UpTo(N, count - 1)) < K
  /\ SeqToSet(band) = (IF count = 0 THEN {} ELSE Band(N, count))
(* while removing: only cells of the last band have been cleared, one per step     *)
RemoveInv == pc = "remove" =>
  /\ count = OuterBand(N, K)
  /\ \A c \in UpTo(N, count - 1) : C[c[1]][c[2]] = 1
  /\ Support(N, C) = UpTo(N, count) \ {band[x] : x \in used}
  /\ NNZ(N, C) = kk - ii
  /\ Len(band) >= kk - K                     \* rp[ii] never runs off the end
(* L2 => L1 contracts at return                                                     *)
DoneContract == pc \in {"done", "emitted"} =>
  /\ Shape(N, C) /\ Is01(N, C) /\ EmptyDiag(N, C)
  /\ CountIs(N, C, K)
  /\ BandsNearestFirst(N, C, K)
DoneIsRingResult == (Gen /\ pc \in {"done", "emitted"} /\ kk > K) =>
  C = RingResult(N, K, CompletePerm(hist, Len(band)))
=============================================================================
