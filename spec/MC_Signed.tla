---- MODULE MC_Signed ----
EXTENDS SignedImpl
ValsA == {-1, 0, 1, 2}
ValsB == {-2, -1, 0, 1}
ValsC == {-1, 0, 1}
NoFrame == {}
Frame8 == {<<1,2>>, <<1,4>>, <<3,2>>, <<3,4>>, <<2,1>>, <<2,3>>, <<4,1>>, <<4,3>>}
====
