---------------------------- MODULE Trace_Nbs ----------------------------
(* C19 code -> spec.  One record = one real call                                  *)
(*   nbs_bct(x, y, tn/td, k, tail, paired, seed=<logging or scripted stream>)      *)
(*     -> (pvals, adj, null) | raise                                              *)
(* plus the adjacency outputs of two transformed calls (groups and tail swapped;   *)
(* subjects reordered within the groups) and the list of draws the random stream   *)
(* served (one permutation of 1..nx+ny, or one vector of signs, per request).      *)
(* Fields: n nx ny x[s][i][j] y[s][i][j] tn td tail paired k raised malformed      *)
(*         adj[i][j] pvals[l] (10^-6 fixed point) null[u] draws[u][..]             *)
(*         swap.raised swap.adj reord.raised reord.adj                            *)
(*         has_expect exp_raised exp_adj exp_null exp_cnt exp_tie script_status    *)
(* Reading of "component": a reachability class of the supra-threshold graph that  *)
(* holds at least one supra-threshold connection (a single such connection is a    *)
(* component of size 1 - docstring: "a set of interconnected edges").               *)
EXTENDS Nbs, TraceBase

XS(r) == LET E == EdgePairs(r.n) IN
         Force([e \in 1..Len(E) |-> [s \in 1..r.nx |-> r.x[s][E[e][1]][E[e][2]]]])
YS(r) == LET E == EdgePairs(r.n) IN
         Force([e \in 1..Len(E) |-> [s \in 1..r.ny |-> r.y[s][E[e][1]][E[e][2]]]])
SymStacks(r) == /\ \A s \in 1..r.nx : IsSquare(r.n, r.x[s]) /\ IsSym(r.n, r.x[s])
                /\ \A s \in 1..r.ny : IsSquare(r.n, r.y[s]) /\ IsSym(r.n, r.y[s])
IsPaired(r) == r.paired = 1

(* the draw logged for permutation u is usable as a relabelling                     *)
DrawUsable(r, u) ==
  /\ Len(r.draws) = r.k
  /\ IF IsPaired(r) THEN IsSigns(r.draws[u], r.nx) ELSE IsPermOf(r.draws[u], r.nx + r.ny)
AllDrawsUsable(r) == Len(r.draws) = r.k /\ Len(r.null) = r.k /\ \A u \in 1..r.k : DrawUsable(r, u)
(* the other natural reading of a served draw: the inverse permutation (position p[s]  *)
(* receives subject s) resp. the opposite signs (sign(rand - 0.5))                    *)
AltDraw(r, u) ==
  LET d == r.draws[u] IN
  IF IsPaired(r) THEN [s \in DOMAIN d |-> -d[s]]
  ELSE [i \in DOMAIN d |-> CHOOSE j \in DOMAIN d : d[j] = i]

(* same observed components: same marked connections, same grouping into labels     *)
SameComponents(n, a, b) ==
  /\ IsSquare(n, b)
  /\ MarkedEdges(n, a) = MarkedEdges(n, b)
  /\ LabelClasses(n, a) = LabelClasses(n, b)

JudgeDomain(r) ==
  LET n == r.n  xs == XS(r)  ys == YS(r)  pd == IsPaired(r)
      v == Verdicts(pd, xs, ys, r.tn, r.td, r.tail)
      def == DefSupra(v)  amb == AmbSupra(v)
      adj == r.adj
      M == MarkedEdges(n, adj)
  IN
  IF def = {} /\ r.raised # "" THEN "skip:no_suprathreshold_edge"
  ELSE
  Chk("Returns",        r.raised = "",
  Chk("WellFormed",     r.malformed = "",
  Chk("AdjShape",       IsSquare(n, adj),
  (* "marks in its adjacency output exactly the connections whose t statistic exceeds *)
  (*  the threshold in the requested tail and that form a component"                 *)
  Chk("AdjMarksExactlySupraEdgesInComponents",
        def \subseteq M /\ M \subseteq (def \cup amb) /\ NoDiagMarks(n, adj),
  (* "labelled by component"                                                        *)
  Chk("LabelsByComponent", LabelsByComponent(n, adj),
  (* "it returns one p-value per component"                                          *)
  Chk("OnePvalPerComponent", Len(r.pvals) = Cardinality(LinkComps(n, M)),
  (* "and k null values"                                                            *)
  Chk("NullLenK",       Len(r.null) = r.k,
  (* "equal to the fraction of the returned null values that are at least that        *)
  (*  component's number of connections"                                             *)
  Chk("PvalIsFractionOfReturnedNull",
        \A l \in 1..Len(r.pvals) :
           /\ IsFinite(r.pvals[l])
           /\ Abs(r.pvals[l] * r.k - CountGE(r.null, LinksWithLabel(n, adj, l)) * 1000000) <= r.k,
  (* "each being the largest component size under one random relabelling of subjects": *)
  (*  when the stream served exactly one draw per null value, under the relabelling that *)
  (*  draw denotes (either reading); when the routine draws differently, under some      *)
  (*  relabelling                                                                       *)
  Chk("NullEntryIsMaxComponent",
        IF AllDrawsUsable(r)
        THEN \A u \in 1..r.k :
               \/ r.null[u] \in NullLegalUnder(n, pd, xs, ys, r.tn, r.td, r.tail, r.draws[u])
               \/ r.null[u] \in NullLegalUnder(n, pd, xs, ys, r.tn, r.td, r.tail, AltDraw(r, u))
        ELSE \A u \in 1..Len(r.null) :
               NullLegalUnderSome(n, pd, xs, ys, r.tn, r.td, r.tail, r.null[u]),
  (* "Swapping the two groups together with the tail (or under tail='both') ... leave   *)
  (*  the observed components unchanged"  (undecided edges: either outcome is legal in  *)
  (*  each call separately, nothing to compare)                                        *)
  Chk(IF r.tail = "both" THEN "TailBoth" ELSE "SwapGroupsAndTail",
        amb # {} \/ (r.swap.raised = "" /\ SameComponents(n, adj, r.swap.adj)),
  (* "and reordering subjects within a group leave the observed components unchanged"   *)
  Chk("ReorderWithinGroup",
        amb # {} \/ (r.reord.raised = "" /\ SameComponents(n, adj, r.reord.adj)),
  "ok")))))))))))

JudgeClause(r) ==
  Skip("negative_threshold",   r.tn < 0 \/ r.td <= 0,
  Skip("group_too_small",      r.nx < 2 \/ r.ny < 2,
  Skip("paired_unequal_groups", IsPaired(r) /\ r.nx # r.ny,
  Skip("k_not_positive",       r.k < 1,
  Skip("asymmetric_input",     ~SymStacks(r),
  JudgeDomain(r))))))

InDomain(r) == r.tn >= 0 /\ r.td > 0 /\ r.nx >= 2 /\ r.ny >= 2 /\ (IsPaired(r) => r.nx = r.ny)
               /\ r.k >= 1 /\ SymStacks(r)

(* drift: the implementation-shaped model (the Code.. operators of Nbs) predicts the very output *)
Drift(r) ==
  IF ~InDomain(r) \/ r.malformed # "" THEN "na"
  ELSE
  LET n == r.n  xs == XS(r)  ys == YS(r)  pd == IsPaired(r)
      v == Verdicts(pd, xs, ys, r.tn, r.td, r.tail)
      S == CodeSupra(pd, v)
  IN
  IF HasTie(v) THEN "na"
  ELSE IF S = {} THEN (IF r.raised = "BCTParamError" THEN "same" ELSE "differs:raise_on_empty")
  ELSE IF r.raised # "" THEN "differs:raised"
  ELSE
  LET o == CodeObserved(n, S) IN
  IF ~IsSquare(n, r.adj) \/ r.adj # o.adj THEN "differs:adj_labels"
  ELSE IF Len(r.draws) # r.k \/ Len(r.null) # r.k THEN "differs:draw_count"
  ELSE IF \E u \in 1..r.k : ~DrawUsable(r, u) THEN "differs:draw_shape"
  ELSE
  LET pred == [u \in 1..r.k |-> CodeNullEntry(n, pd, xs, ys, r.tn, r.td, r.tail, r.draws[u])] IN
  IF \E u \in 1..r.k : pred[u].tie THEN "na"
  ELSE IF \E u \in 1..r.k : pred[u].val # r.null[u] THEN "differs:null"
  ELSE IF Len(r.pvals) # Len(o.szl) THEN "differs:pvals"
  ELSE IF r.has_expect = 1 /\ r.script_status = "followed" /\ r.exp_tie = 0
          /\ (r.exp_raised = 1 \/ r.exp_adj # r.adj \/ r.exp_null # r.null
              \/ Len(r.exp_cnt) # Len(r.pvals)
              \/ \E l \in 1..Len(r.pvals) : Abs(r.pvals[l] * r.k - r.exp_cnt[l] * 1000000) > r.k)
       THEN "differs:model_behaviour"
  ELSE IF r.has_expect = 1 /\ r.script_status # "followed" THEN "differs:off_script"
  ELSE "same"

Class(r) ==
  IF ~InDomain(r) THEN "any"
  ELSE LET v == Verdicts(IsPaired(r), XS(r), YS(r), r.tn, r.td, r.tail) IN
       (IF IsPaired(r) THEN "paired" ELSE "unpaired")
         \o (IF HasInf(v) THEN "_zero_variance_effect" ELSE "")

Judge(r) == <<JudgeClause(r), Drift(r), Class(r)>>

VARIABLES tid, verdict
TInit == tid \in 1..Len(Recs) /\ verdict = <<>>
TNext == /\ verdict = <<>>
         /\ verdict' = Judge(Recs[tid])
         /\ PrintT(VLine(tid, verdict'))
         /\ UNCHANGED tid
TSpec == TInit /\ [][TNext]_<<tid, verdict>>
=============================================================================
