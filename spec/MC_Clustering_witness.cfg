SPECIFICATION Spec
CONSTANT N = 4
CONSTANT Kind = "dir"
CONSTANT Vals <- V01
CONSTANT D = 1
CONSTANT Fns <- FnsDirBin
INVARIANT CodedRefinesDefinition
CHECK_DEADLOCK FALSE
