------------------------------ MODULE MC_KCoreLex ------------------------------
(* C15: the two-level ("lexicographic") definitions of KCore.tla - CoreSetX,    *)
(* PeelCoreSetX, used to judge near-threshold inputs of score_wu exactly - are  *)
(* equivalent to the plain L0 definition CoreSet on the materialised weights.   *)
(* Every symmetric weighting of N nodes with pairs (a, e) from Cells, every     *)
(* bound pair (b2, e2): with the small radix R (2*sum|e| + |e2| < R, as         *)
(* TwoLevelOk demands for the real radix)                                       *)
(*     CoreSetX(A, E, b2, e2) = CoreSet(A*R + E, b2*R + e2, "wu")               *)
(*     PeelCoreSetX(A, E, b2, e2) = CoreSetX(A, E, b2, e2).                      *)
EXTENDS KCore
CONSTANTS N, AMax, EMax, TinyOnly     \* TinyOnly: also connections that are a perturbation only
VARIABLES f, b2, e2, ph
UPairs == {p \in (1..N) \X (1..N) : p[1] < p[2]}
(* non-negative two-level weights: 0, a tiny one, a base weight 1..AMax +- tiny  *)
Cells == {<<0, 0>>} \cup (IF TinyOnly THEN {<<0, e>> : e \in 1..EMax} ELSE {})
            \cup {<<a, e>> : a \in 1..AMax, e \in (-EMax)..EMax}
R == 2 * (2 * EMax * (N - 1)) + 2 * EMax + 1 + 1
AOf(g) == Mat(N, LAMBDA i, j : IF i < j THEN g[<<i, j>>][1] ELSE IF j < i THEN g[<<j, i>>][1] ELSE 0)
EOf(g) == Mat(N, LAMBDA i, j : IF i < j THEN g[<<i, j>>][2] ELSE IF j < i THEN g[<<j, i>>][2] ELSE 0)
Flat(g) == Mat(N, LAMBDA i, j : AOf(g)[i][j] * R + EOf(g)[i][j])
(* (the weightings are chosen by a step, not in Init: TLC evaluates the          *)
(* invariants of successor states on all workers, those of initial states on    *)
(* one)                                                                         *)
None == [p \in UPairs |-> <<0, 0>>]
Init == /\ f = None /\ ph = 0
        /\ b2 \in 0..(2 * AMax * (N - 1) + 1)
        /\ e2 \in (-(2 * EMax + 1))..(2 * EMax + 1)
Next == /\ ph = 0 /\ ph' = 1
        /\ f' \in [UPairs -> Cells]
        /\ UNCHANGED <<b2, e2>>
Spec == Init /\ [][Next]_<<f, b2, e2, ph>>
RadixOk == \A i \in 1..N : 2 * Sum(1..N, LAMBDA j : Abs(EOf(f)[j][i])) + Abs(e2) < R
LexIsFlatInv ==
  b2 * R + e2 >= 0 => CoreSetX(N, AOf(f), EOf(f), b2, e2) = CoreSet(N, Flat(f), b2 * R + e2, "wu")
LexPeelInv == PeelCoreSetX(N, AOf(f), EOf(f), b2, e2) = CoreSetX(N, AOf(f), EOf(f), b2, e2)
=============================================================================
