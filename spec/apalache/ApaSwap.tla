----------------------------- MODULE ApaSwap --------------------------------
(* Unbounded induction for C01 / C06 (Apalache).                               *)
(* TLC explores RewireImpl / SignedImpl exhaustively for N <= 4, three weights  *)
(* and a bounded number of attempts.  Here the same L1 swap operators are put   *)
(* under an INDUCTIVE invariant: for N = 5, ARBITRARY integer weights           *)
(* (unbounded) and an ARBITRARY reachable-or-not state satisfying IndInv, every *)
(* enabled swap re-establishes IndInv - hence every finite history of swaps,    *)
(* of any length, keeps what C01 / C06 state:                                   *)
(*   degrees in and out, the diagonal (no new self-connection), out-strength    *)
(*   (directed), symmetry (undirected), signed degrees (signed kinds) and the   *)
(*   weight multiset - the last one as "the current matrix is the initial one   *)
(*   with its cells permuted" (history variable perm, a bijection of cells).    *)
(* Run: apalache-mc check --init=IndInit --inv=IndInv --length=1 ApaSwap.tla    *)
(*      apalache-mc check --init=IndInit --inv=Conclusions --length=0 ...       *)
(* (harness/props/apaswap.py, used by C01 and C06 thorough tiers).              *)
EXTENDS ApaSwapOps, Apalache   \* (kept outside spec/*.tla: the Apalache module is not on the TLC / SANY classpath; harness/apaswap.sh copies ApaSwapOps next to it)

VARIABLES
  \* @type: Str;
  kind,
  \* @type: Int -> (Int -> Int);
  mat,
  \* @type: Int -> (Int -> Int);
  mat0,
  \* @type: <<Int, Int>> -> <<Int, Int>>;
  perm

Kinds == {"dir", "und", "sdir", "sund"}
UndKinds == {"und", "sund"}

\* @type: (Int -> (Int -> Int)) => Bool;
IsMatrix(M) == DOMAIN M = Nodes /\ \A i \in Nodes : DOMAIN M[i] = Nodes
\* @type: (Int -> (Int -> Int)) => Bool;
Symmetric(M) == \A i \in Nodes : \A j \in Nodes : M[i][j] = M[j][i]
\* indicator sums instead of Cardinality({...}): the same numbers, far cheaper for the SMT encoding
\* @type: (Int) => Int;
NZ(v) == IF v # 0 THEN 1 ELSE 0
\* @type: (Int, Int) => Int;
HasSgn(v, s) == IF ASgn(v) = s THEN 1 ELSE 0
\* @type: (Int -> (Int -> Int), Int) => Int;
OutDegA(M, i) == NZ(M[i][1]) + NZ(M[i][2]) + NZ(M[i][3]) + NZ(M[i][4]) + NZ(M[i][5])
\* @type: (Int -> (Int -> Int), Int) => Int;
InDegA(M, j) == NZ(M[1][j]) + NZ(M[2][j]) + NZ(M[3][j]) + NZ(M[4][j]) + NZ(M[5][j])
\* @type: (Int -> (Int -> Int), Int, Int) => Int;
OutSDegA(M, i, s) == HasSgn(M[i][1], s) + HasSgn(M[i][2], s) + HasSgn(M[i][3], s) + HasSgn(M[i][4], s) + HasSgn(M[i][5], s)
\* @type: (Int -> (Int -> Int), Int, Int) => Int;
InSDegA(M, j, s) == HasSgn(M[1][j], s) + HasSgn(M[2][j], s) + HasSgn(M[3][j], s) + HasSgn(M[4][j], s) + HasSgn(M[5][j], s)
\* @type: (Int -> (Int -> Int), Int) => Int;
OutStrA(M, i) == M[i][1] + M[i][2] + M[i][3] + M[i][4] + M[i][5]

DegreesKept  == \A w \in Nodes : OutDegA(mat, w) = OutDegA(mat0, w) /\ InDegA(mat, w) = InDegA(mat0, w)
SignedDegreesKept ==
  \A w \in Nodes : \A s \in {-1, 1} :
     OutSDegA(mat, w, s) = OutSDegA(mat0, w, s) /\ InSDegA(mat, w, s) = InSDegA(mat0, w, s)
DiagonalKept == \A w \in Nodes : mat[w][w] = mat0[w][w]
OutStrengthKept == \A w \in Nodes : OutStrA(mat, w) = OutStrA(mat0, w)
SymmetryKept == Symmetric(mat)
PermIsBijection == \A p \in Cells : \A q \in Cells : perm[p] = perm[q] => p = q
WeightsArePermuted == \A p \in Cells : mat[perm[p][1]][perm[p][2]] = mat0[p[1]][p[2]]

IndInv ==
  /\ kind \in Kinds
  /\ DegreesKept
  /\ DiagonalKept
  /\ PermIsBijection /\ WeightsArePermuted
  /\ (kind \in {"dir", "sdir"} => OutStrengthKept)
  /\ (kind \in UndKinds => Symmetric(mat0) /\ SymmetryKept)
  /\ (kind \in {"sdir", "sund"} => SignedDegreesKept)

IndInit ==
  /\ kind \in Kinds
  /\ mat = Gen(5) /\ IsMatrix(mat)
  /\ mat0 = Gen(5) /\ IsMatrix(mat0)
  /\ perm = Gen(25) /\ DOMAIN perm = Cells /\ (\A p \in Cells : perm[p] \in Cells)
  /\ IndInv

(* the ordinary initial condition: IndInv holds initially (length-0 check)       *)
Init ==
  /\ kind \in Kinds
  /\ mat0 = Gen(5) /\ IsMatrix(mat0)
  /\ (kind \in UndKinds => Symmetric(mat0))
  /\ mat = mat0
  /\ perm = [p \in Cells |-> p]

Step(a, b, c, d) ==
  \/ /\ kind = "dir" /\ ACanDir(mat, a, b, c, d)
     /\ mat' = ASwapDir(mat, a, b, c, d)
     /\ perm' = [p \in Cells |-> PiDir(perm[p], a, b, c, d)]
  \/ /\ kind = "und" /\ ACanUnd(mat, a, b, c, d)
     /\ mat' = ASwapUnd(mat, a, b, c, d)
     /\ perm' = [p \in Cells |-> PiUnd(perm[p], a, b, c, d)]
  \/ /\ kind = "sdir" /\ ACanSigned(mat, a, b, c, d)
     /\ mat' = ASwapSignedDir(mat, a, b, c, d)
     /\ perm' = [p \in Cells |-> PiDir(perm[p], a, b, c, d)]
  \/ /\ kind = "sund" /\ ACanSigned(mat, a, b, c, d)
     /\ mat' = ASwapSignedUnd(mat, a, b, c, d)
     /\ perm' = [p \in Cells |-> PiUnd(perm[p], a, b, c, d)]

Next ==
  \E a \in Nodes : \E b \in Nodes : \E c \in Nodes : \E d \in Nodes :
     Step(a, b, c, d) /\ UNCHANGED <<kind, mat0>>
=============================================================================
