SPECIFICATION Spec
CONSTANT N = 6
CONSTANT Gen = FALSE
INVARIANT DegInv
INVARIANT SymInv
INVARIANT AheadInv
INVARIANT FinalInv
PROPERTY RefinesSwap
CHECK_DEADLOCK FALSE
