---- MODULE MC_DegreesFixed ----
EXTENDS DegreesFixedImpl
====
