SPECIFICATION Spec
CONSTANT MaxLen = 3
CONSTANT Classes = {"pure", "util", "alias"}
INVARIANT ArgsUnchangedInv
INVARIANT UnchangedOnRaiseInv
INVARIANT DtypeShapeUnchangedInv
INVARIANT CopyFalseOperatesInPlaceInv
INVARIANT OnlyCopyFalseWrites
INVARIANT CallerSeesOnlyExplicitWrites
INVARIANT FreshResultsPrivate
INVARIANT FingerprintsDistinct
INVARIANT Emit
CHECK_DEADLOCK FALSE
