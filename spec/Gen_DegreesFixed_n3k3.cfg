SPECIFICATION Spec
CONSTANT N = 3
CONSTANT Gen = TRUE
CONSTANT KMin = 0
CONSTANT KMax = 3
CONSTANT InputPhase = FALSE
CHECK_DEADLOCK FALSE
INVARIANT TypeOK
INVARIANT TargetsInv
INVARIANT PlacedInv
INVARIANT SwitchInv
INVARIANT DoneContract
