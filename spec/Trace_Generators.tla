---------------------------- MODULE Trace_Generators ----------------------------
(* C20 code -> spec.  One record = one real call of a synthetic generator          *)
(*   Call(fn, n, k | mx_lvl, E, sz_cl | inv, outv, seed or draw script)            *)
(*     -> Return(A [, reported k]) | Raise(exc)                                     *)
(* with the random draws the call consumed (perm = the permutation it was served,   *)
(* draws = the randint values, both 1-based), either scripted from a behaviour of   *)
(* the L2 machines (RandImpl / RingLatticeImpl / DegreesFixedImpl) or recorded      *)
(* from a real seeded stream.                                                      *)
(* Property clauses demand only what C20 states; "drift" compares the returned      *)
(* matrix with what the L2 machine yields for the same draws.                       *)
EXTENDS Generators, TraceBase

Returned(r) == r.raised = "" /\ r.malformed = ""

(* ---- scale regime.  Records with several hundred nodes (K up to n(n-1) > 10^5) are judged  *)
(* by the very same property clauses; only (i) the outer band of a ring lattice comes from   *)
(* the closed form OuterBandF (the set-based OuterBand needs minutes at n = 400) and (ii)    *)
(* the drift replay is left out ("na") where the recorded permutation was not kept (10^5     *)
(* entries) or the replay recursion would be thousands of levels deep.                       *)
Big(r) == r.n > 64
IdSeq(m) == [t \in 1..m |-> t]
ASSUME \A n \in 1..9 :
         /\ \A rr \in 1..MaxBand(n) : CumCap(n, rr) = Cardinality(UpTo(n, rr))
         /\ \A K \in 0..(n * (n - 1)) :
              /\ OuterBandF(n, K) = OuterBand(n, K)
              /\ \A A \in {BandsUpTo(n, OuterBand(n, K)), BandsUpTo(n, MaxBand(n)), Zero(n)} :
                   /\ NearerBandsFullAt(n, A, OuterBand(n, K)) = NearerBandsFull(n, A, K)
                   /\ NothingBeyondAt(n, A, OuterBand(n, K)) = NothingBeyondOuterBand(n, A, K)
ASSUME \A n \in 2..7 : \A K \in 0..(n * (n - 1)) :
         LET p == IdSeq(Cardinality(Band(n, OuterBand(n, K)))) IN RingResultF(n, K, p) = RingResult(n, K, p)
HavePerm(r, m) == IsPermOf(r.perm, m)
DriftOf(r, predicted) ==
  IF ~Returned(r) THEN "na"
  ELSE IF r.script_status \notin {"none", "followed"} THEN "differs:off_script"
  ELSE IF Len(r.expect) > 0 /\ r.A # r.expect THEN "differs:machine_predicted_other_matrix"
  ELSE IF r.A # predicted THEN "differs:operator_form_predicts_other_matrix"
  ELSE "same"

(* ---- makerandCIJ_dir: "N x N 0/1 matrix with exactly K connections and an empty diagonal" *)
JudgeRandDir(r) ==
  LET n == r.n  A == r.A IN
  Skip("infeasible_K", r.k < 0 \/ r.k > n * (n - 1),
  Chk("Returns",    r.raised = "",
  Chk("WellFormed", r.malformed = "",
  Chk("Shape",      Shape(n, A),
  Chk("Is01",       Is01(n, A),
  Chk("EmptyDiag",  EmptyDiag(n, A),
  Chk("CountK",     CountIs(n, A, r.k),
  "ok")))))))
DriftRand(r, und) ==
  LET m == IF und THEN (r.n * (r.n - 1)) \div 2 ELSE r.n * (r.n - 1) IN
  IF Big(r) THEN "na"      \* the permutation of 10^4..10^5 cells is not recorded
  ELSE IF ~HavePerm(r, m) \/ r.k > m THEN (IF Returned(r) THEN "differs:no_permutation_of_the_admissible_cells_drawn" ELSE "na")
  ELSE DriftOf(r, RandResult(r.n, und, r.perm, r.k))

(* ---- makerandCIJ_und: the same, "symmetric in the undirected case"; K = number of   *)
(* (undirected) edges, i.e. 2K non-zero cells                                          *)
JudgeRandUnd(r) ==
  LET n == r.n  A == r.A IN
  Skip("infeasible_K", r.k < 0 \/ 2 * r.k > n * (n - 1),
  Chk("Returns",    r.raised = "",
  Chk("WellFormed", r.malformed = "",
  Chk("Shape",      Shape(n, A),
  Chk("Is01",       Is01(n, A),
  Chk("EmptyDiag",  EmptyDiag(n, A),
  Chk("Symmetric",  Symmetric(n, A),
  Chk("CountKEdges", CountIs(n, A, 2 * r.k),
  "ok"))))))))

(* ---- makeringlatticeCIJ: "exactly K connections occupying the off-diagonals nearest  *)
(* the main diagonal with wrap-around, every nearer band full before a farther one is   *)
(* used and excess removed only from the outermost band"                                *)
JudgeRing(r) ==
  LET n == r.n  A == r.A IN
  Skip("infeasible_K", ~RingFeasible(n, r.k),
  Chk("Returns",    r.raised = "",
  Chk("WellFormed", r.malformed = "",
  Chk("Shape",      Shape(n, A),
  Chk("EmptyDiag",  EmptyDiag(n, A),
  Chk("CountK",     CountIs(n, A, r.k),
  Chk("NearerBandsFull",        IF Big(r) THEN NearerBandsFullAt(n, A, OuterBandF(n, r.k))
                                ELSE NearerBandsFull(n, A, r.k),
  Chk("NothingBeyondOuterBand", IF Big(r) THEN NothingBeyondAt(n, A, OuterBandF(n, r.k))
                                ELSE NothingBeyondOuterBand(n, A, r.k),
  "ok"))))))))
DriftRing(r) ==
  LET n == r.n  rr == IF Big(r) THEN OuterBandF(n, r.k) ELSE OuterBand(n, r.k)
      ob == IF Big(r) THEN CumCap(n, rr) - r.k ELSE Cardinality(UpTo(n, rr)) - r.k
      m  == IF Big(r) THEN CumCap(n, rr) - CumCap(n, rr - 1) ELSE Cardinality(Band(n, rr)) IN
  IF ~RingFeasible(n, r.k) THEN "na"
  ELSE IF ob > 0 /\ ~HavePerm(r, m) THEN (IF Returned(r) THEN "differs:no_permutation_of_the_outer_band_drawn" ELSE "na")
  ELSE IF Returned(r) /\ ~Is01(n, r.A) THEN "differs:values_not_01"
  ELSE DriftOf(r, IF Big(r) THEN RingResultF(n, r.k, r.perm) ELSE RingResult(n, r.k, r.perm))
ClassRing(r) == IF NeedsAntipodalBand(r.n, r.k) THEN "antipodal_band" ELSE "any"

(* ---- maketoeplitzCIJ: "exactly K connections", empty diagonal.  Its documented       *)
(* BCTParamError (no matrix with K connections found in 10000 draws) is outside.         *)
JudgeToeplitz(r) ==
  LET n == r.n  A == r.A IN
  Skip("unresolved_parameters", r.raised = "BCTParamError",
  Chk("Returns",    r.raised = "",
  Chk("WellFormed", r.malformed = "",
  Chk("Shape",      Shape(n, A),
  Chk("EmptyDiag",  EmptyDiag(n, A),
  Chk("CountK",     CountIs(n, A, r.k),
  "ok"))))))

(* ---- makeevenCIJ: "exactly K connections", empty diagonal; n a power of two, K at     *)
(* least the cluster connections (else the routine documents "clusters only")            *)
CSize(r) == Pow2(r.sz_cl)
JudgeEven(r) ==
  LET n == r.n  A == r.A IN
  Skip("n_not_power_of_two", ~IsPow2(n) \/ n < 4,
  Skip("cluster_larger_than_n", CSize(r) > n,
  Skip("infeasible_K", r.k < n * (CSize(r) - 1) \/ r.k > n * (n - 1),
  Chk("Returns",    r.raised = "",
  Chk("WellFormed", r.malformed = "",
  Chk("Shape",      Shape(n, A),
  Chk("EmptyDiag",  EmptyDiag(n, A),
  Chk("CountK",     CountIs(n, A, r.k),
  "ok"))))))))
DriftClusters(r) ==
  IF ~Returned(r) \/ ~Shape(r.n, r.A) THEN "na"
  ELSE IF ~Is01(r.n, r.A) THEN "differs:values_not_01"
  ELSE IF CSize(r) <= r.n /\ ~ClustersFull(r.n, r.A, CSize(r)) THEN "differs:cluster_not_fully_connected"
  ELSE "same"

(* ---- makefractalCIJ: "returns the connection count it reports", empty diagonal          *)
JudgeFractal(r) ==
  LET n == r.n  A == r.A IN
  Skip("fewer_than_two_levels", r.mx_lvl < 2,
  Chk("Returns",    r.raised = "",
  Chk("WellFormed", r.malformed = "",
  Chk("Shape",      n = Pow2(r.mx_lvl) /\ Shape(n, A),
  Chk("EmptyDiag",  EmptyDiag(n, A),
  Chk("ReportedKIsCount", r.rep_k = NNZ(n, A),
  "ok"))))))

(* ---- makerandCIJdegreesfixed: "a 0/1 matrix whose column and row sums are the          *)
(* requested in- and out-degree sequences", empty diagonal.  The routine documents that   *)
(* it may fail to resolve a valid pair (MATLAB: flag = 0; here BCTParamError): that       *)
(* outcome is accepted exactly when the intended loop, fed the same draws, has tried all  *)
(* k switch candidates for a colliding edge (DFRun ends "stuck").                          *)
KOf(r) == SeqSum(r.inv)
DFModel(r) ==
  IF HavePerm(r, KOf(r)) /\ \A t \in 1..Len(r.draws) : r.draws[t] \in 1..KOf(r)
  THEN DFRun(r.n, r.inv, r.outv, r.perm, r.draws)
  ELSE [pc |-> "norun"]
(* scale regime: the replay recursion (one level per draw, one per placed edge) is cut off  *)
TooDeep(r) == Big(r) /\ (Len(r.draws) > 2500 \/ Len(r.perm) > 12000)
JudgeDegrees(r) ==
  LET n == r.n  A == r.A IN
  Skip("sums_differ", SeqSum(r.inv) # SeqSum(r.outv),
  Skip("unresolved_and_replay_too_deep", r.raised = "BCTParamError" /\ TooDeep(r),
  Skip("no_switch_candidate_left_flag0", r.raised = "BCTParamError" /\ DFModel(r).pc = "stuck",
  Chk("Returns",    r.raised = "",
  Chk("WellFormed", r.malformed = "",
  Chk("Shape",      Shape(n, A),
  Chk("Is01",       Is01(n, A),
  Chk("EmptyDiag",  EmptyDiag(n, A),
  Chk("RowSumsAreOutDegrees", RowSums(n, A) = SeqFn(n, r.outv),
  Chk("ColSumsAreInDegrees",  ColSums(n, A) = SeqFn(n, r.inv),
  "ok"))))))))))
DriftDegrees(r) ==
  LET m == DFModel(r) IN
  IF TooDeep(r) THEN "na"
  ELSE IF r.raised # "" THEN (IF r.raised = "BCTParamError" /\ m.pc = "stuck" THEN "same" ELSE "na")
  ELSE IF r.malformed # "" THEN "na"
  ELSE IF m.pc = "norun" THEN "differs:draws_not_recorded"
  ELSE IF m.pc # "done" THEN "differs:machine_ends_" \o m.pc
  ELSE DriftOf(r, MinusEye(r.n, m.C))

Judge(r) ==
  IF r.fn = "makerandCIJ_dir" THEN <<JudgeRandDir(r), DriftRand(r, FALSE), "any">>
  ELSE IF r.fn = "makerandCIJ_und" THEN <<JudgeRandUnd(r), DriftRand(r, TRUE), "any">>
  ELSE IF r.fn = "makeringlatticeCIJ" THEN <<JudgeRing(r), DriftRing(r), ClassRing(r)>>
  ELSE IF r.fn = "maketoeplitzCIJ" THEN <<JudgeToeplitz(r), "na", "any">>
  ELSE IF r.fn = "makeevenCIJ" THEN <<JudgeEven(r), DriftClusters(r), "any">>
  ELSE IF r.fn = "makefractalCIJ" THEN <<JudgeFractal(r), DriftClusters(r), "any">>
  ELSE IF r.fn = "makerandCIJdegreesfixed" THEN <<JudgeDegrees(r), DriftDegrees(r), "any">>
  ELSE <<"skip:unknown_function", "na", "any">>

VARIABLES tid, verdict
TInit == tid \in 1..Len(Recs) /\ verdict = <<>>
TNext == /\ verdict = <<>>
         /\ verdict' = Judge(Recs[tid])
         /\ PrintT(VLine(tid, verdict'))
         /\ UNCHANGED tid
TSpec == TInit /\ [][TNext]_<<tid, verdict>>
=============================================================================
