SPECIFICATION FairSpec
CONSTANT Machines <- FwOnly
CONSTANT WalkDomains <- QWalker
CONSTANT WalkerDomains <- None
CONSTANT LemmaDomains <- None
CONSTANT Q = 0
INVARIANT FwLoopInv
PROPERTY Terminates
CHECK_DEADLOCK FALSE
