SPECIFICATION Spec
CONSTANT N = 3
CONSTANT Dir = TRUE
CONSTANT Finetune = FALSE
CONSTANT GN = 1
CONSTANT GD = 1
CONSTANT WMax = 1
CONSTANT Gen = FALSE
CONSTANT MaxSweeps = 50
CHECK_DEADLOCK FALSE
INVARIANT BookkeepingInv
INVARIANT AggregationInv
INVARIANT FinalInv
PROPERTY GainIsTrueDelta
PROPERTY MoveRaisesQ
PROPERTY AggregateKeepsQ
CONSTANT DiagVals <- DiagVals01
