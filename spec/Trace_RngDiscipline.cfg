SPECIFICATION TSpec
CONSTANT FNS = {1, 2}
CONSTANT ARGS = {1, 2}
CONSTANT SEEDS = {1, 2}
CONSTANT DRAWS = {1, 2}
CONSTANT MaxLen = 8
CONSTANT Libs = {"observed"}
CONSTANT Canon = FALSE
CONSTANT GenMode = "none"
CONSTANT Cost <- CostAny
CHECK_DEADLOCK FALSE
