---------------------------- MODULE Trace_Components ----------------------------
(* C16 code -> spec: every record is one real call                              *)
(*   Call(get_components, A) -> Return(comps, sizes) | Raise(exc)               *)
(* together with what number_of_components / distance_bin / breadthdist /       *)
(* reachdist returned for the same matrix.  The step relation is                *)
(* "out \in Allowed(in)" spelled as an ordered list of named clauses.           *)
EXTENDS Components, TraceBase

INFTY(x) == IsInf(x)

(* the property's clauses; each name is the sentence of C16 it renders          *)
JudgeSym(r) ==
  LET n == r.n  A == r.A  c == r.comps  sz == r.sizes IN
  Chk("Returns",               r.raised = "",
  Chk("WellFormed",            r.malformed = "",
  Chk("LenN",                  Len(c) = n,
  Chk("Labels1toM",            Labels1toM(n, c, Len(sz)),
  Chk("SameLabelIffReachable", SameLabelIffReachable(n, A, c),
  Chk("SizesAreCounts",        SizesAreCounts(n, c, sz),
  Chk("NumberIsM",             r.ncomp = Cardinality(Components(n, A)),
  Chk("AgreesWithDistanceBin", \A u, v \in 1..n : u # v =>
                                  ((c[u] = c[v]) <=> ~INFTY(r.dbin[u][v])),
  Chk("AgreesWithBreadthdist", \A u, v \in 1..n : u # v =>
                                  ((c[u] = c[v]) <=> ~INFTY(r.dbreadth[u][v])),
  Chk("AgreesWithReachdist",   \A u, v \in 1..n : u # v =>
                                  ((c[u] = c[v]) <=> ~INFTY(r.dreach[u][v])),
  "ok"))))))))))

(* "rejects asymmetric input"                                                   *)
JudgeAsym(r) ==
  Chk("RejectsAsymmetric", r.raised = "BCTParamError", "ok")

(* drift: the implementation-shaped model predicts the very numbering           *)
Drift(r) ==
  IF r.raised # "" \/ r.malformed # "" \/ ~IsSym(r.n, r.A) THEN "na"
  ELSE LET sets == MergeAll(r.n, r.A) IN
       IF r.comps = LabelsOf(r.n, sets) /\ r.sizes = SizesOf(sets) THEN "same" ELSE "differs"

Judge(r) == <<IF IsSym(r.n, r.A) THEN JudgeSym(r) ELSE JudgeAsym(r),
              Drift(r),
              IF IsSym(r.n, r.A) THEN "symmetric" ELSE "asymmetric">>

VARIABLES tid, verdict
TInit == tid \in 1..Len(Recs) /\ verdict = <<>>
TNext == /\ verdict = <<>>
         /\ verdict' = Judge(Recs[tid])
         /\ PrintT(VLine(tid, verdict'))
         /\ UNCHANGED tid
TSpec == TInit /\ [][TNext]_<<tid, verdict>>
=============================================================================
