SPECIFICATION Spec
CONSTANT NN = 4
CONSTANT Kind = "und"
CONSTANT LoopNodes = {}
CONSTANT Checks = {"prob", "match", "bfs", "reach"}
INVARIANT BfsInv
INVARIANT ReachInv
INVARIANT ProbInv
INVARIANT MatchInv
CHECK_DEADLOCK FALSE
