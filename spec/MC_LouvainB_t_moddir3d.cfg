SPECIFICATION Spec
CONSTANT N = 3
CONSTANT Objective = "modularity"
CONSTANT Dir = TRUE
CONSTANT GN = 3
CONSTANT GD = 4
CONSTANT Vals <- V01
CONSTANT Gen = FALSE
CONSTANT AllStarts = TRUE
CHECK_DEADLOCK FALSE
INVARIANT BookkeepingInv
INVARIANT AggregationInv
INVARIANT ObjIsModularity
PROPERTY MoveRaisesObj
CONSTANT DiagVals <- DiagVals01
