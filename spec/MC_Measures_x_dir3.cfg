SPECIFICATION Spec
CONSTANT N = 3
CONSTANT Mode = "dir"
CONSTANT WMax = 1
CONSTANT LMax = 0
CONSTANT Checks = {"x"}
CONSTANT PSlice = "none"
INVARIANT XDensity
INVARIANT XJDegree
INVARIANT XMatching
INVARIANT XEdgeOverlap
INVARIANT XFlow
INVARIANT XRichB
INVARIANT XRichW
INVARIANT XAssort
INVARIANT XERange
INVARIANT XEffLocal
INVARIANT XStrengths
INVARIANT XPartition
INVARIANT EGraph
INVARIANT EPartition
CHECK_DEADLOCK FALSE
