-------------------------------- MODULE LouvainImpl --------------------------------
(* C02 / C07.  L2 machine of modularity_louvain_und/_dir and                          *)
(* modularity_finetune_und/_dir (bct/algorithms/modularity.py), one action per step:   *)
(*                                                                                    *)
(*   "sweep"  --BeginSweep(perm)-->  "visit"     for u in rng.permutation(n)           *)
(*   "visit"  --Visit-->             "visit" | "endsweep"                              *)
(*              gains dq over all modules from the INCREMENTAL sums knm_o/knm_i/km_o/   *)
(*              km_i exactly as coded (integers scaled by gd*s), dq[ma]=0, move to the  *)
(*              lowest-index maximal module if the maximum is positive, update sums     *)
(*   "endsweep" --EndSweep-->        "sweep" (flag) | "aggregate"                      *)
(*   "aggregate" --Aggregate-->      "sweep" | "done"                                  *)
(*              relabel (np.unique), map original nodes, pool weights into W1, q[h],    *)
(*              stop when q[h] - q[h-1] is not positive (Louvain); finetune stops after  *)
(*              the first level.                                                        *)
(* The sweep permutation is the random draw = nondeterministic action parameter.        *)
EXTENDS Modularity, SequencesExt, Json

CONSTANTS N, Dir, Finetune, GN, GD, WMax, Gen, MaxSweeps
VARIABLES W0,      \* input matrix
          start,   \* starting partition (finetune) - singletons for Louvain
          Wl, nl,  \* current-level matrix and its size
          cur,     \* original node -> current-level node  (ci[h-1] of the code)
          m,       \* labels of the current-level nodes
          knmo, knmi, kmo, kmi,   \* incremental sums (undirected: o and i coincide)
          order, pos, flag, sweeps,
          h, qs,   \* hierarchy index, sequence of level numerators QNum (same denominator)
          res,     \* returned partition of the original nodes
          pc, hist
vars == <<W0, start, Wl, nl, cur, m, knmo, knmi, kmo, kmi, order, pos, flag, sweeps, h, qs, res, pc, hist>>

S == Total(N, W0)
UPairs == {p \in (1..N) \X (1..N) : p[1] < p[2]}
DPairs == {p \in (1..N) \X (1..N) : p[1] # p[2]}
(* self-connections: hollow inputs by default; a cfg may put  DiagVals <- DiagVals01  to    *)
(* enumerate diagonals too (the first level then has the W[u][u] terms that otherwise only   *)
(* aggregated levels have)                                                                   *)
DiagVals == {0}
DiagVals01 == {0, 1}
UndInputs == {Mat(N, LAMBDA i, j : IF i = j THEN d[i] ELSE IF i < j THEN f[<<i, j>>] ELSE f[<<j, i>>])
                 : f \in [UPairs -> 0..WMax], d \in [1..N -> DiagVals]}
DirInputs == {Mat(N, LAMBDA i, j : IF i = j THEN d[i] ELSE f[<<i, j>>])
                 : f \in [DPairs -> 0..WMax], d \in [1..N -> DiagVals]}
(* starting partitions in canonical (restricted-growth) form                          *)
Starts == IF Finetune
          THEN {c \in [1..N -> 1..N] : c[1] = 1 /\ \A i \in 2..N : \E j \in 1..(i-1) : c[i] <= c[j] + 1}
          ELSE {[i \in 1..N |-> i]}
Perms(k) == {p \in [1..k -> 1..k] : {p[i] : i \in 1..k} = 1..k}

RowS(n, W, i) == OutStr(n, W, i)
ColS(n, W, j) == InStr(n, W, j)
(* node-to-module sums recomputed from scratch (what the incremental sums must equal)   *)
KnmO(n, W, lab) == [i \in 1..n |-> [mm \in 1..n |-> Sum({j \in 1..n : lab[j] = mm}, LAMBDA j : W[i][j])]]
KnmI(n, W, lab) == [j \in 1..n |-> [mm \in 1..n |-> Sum({i \in 1..n : lab[i] = mm}, LAMBDA i : W[i][j])]]
KmO(n, W, lab) == [mm \in 1..n |-> Sum({i \in 1..n : lab[i] = mm}, LAMBDA i : RowS(n, W, i))]
KmI(n, W, lab) == [mm \in 1..n |-> Sum({j \in 1..n : lab[j] = mm}, LAMBDA j : ColS(n, W, j))]

LevelInit(n, W, lab) ==
  /\ Wl' = W /\ nl' = n /\ m' = lab
  /\ knmo' = KnmO(n, W, lab) /\ knmi' = KnmI(n, W, lab)
  /\ kmo' = KmO(n, W, lab) /\ kmi' = KmI(n, W, lab)
  /\ sweeps' = 0 /\ flag' = FALSE /\ pos' = 0 /\ order' = <<>>

Init ==
  /\ W0 \in {M \in (IF Dir THEN DirInputs ELSE UndInputs) : Total(N, M) > 0}
  /\ start \in Starts
  /\ Wl = W0 /\ nl = N /\ m = start /\ cur = [i \in 1..N |-> i]
  /\ knmo = KnmO(N, W0, start) /\ knmi = KnmI(N, W0, start)
  /\ kmo = KmO(N, W0, start) /\ kmi = KmI(N, W0, start)
  /\ order = <<>> /\ pos = 0 /\ flag = FALSE /\ sweeps = 0
  /\ h = 0 /\ qs = <<>> /\ res = <<>> /\ pc = "sweep" /\ hist = <<>>

BeginSweep(p) ==
  /\ pc = "sweep"
  /\ order' = p /\ pos' = 1 /\ flag' = FALSE /\ sweeps' = sweeps + 1 /\ pc' = "visit"
  /\ hist' = IF Gen THEN Append(hist, <<"perm", p>>) ELSE hist
  /\ UNCHANGED <<W0, start, Wl, nl, cur, m, knmo, knmi, kmo, kmi, h, qs, res>>

(* gains scaled by gd*s (and by 2 for the directed average), as integers               *)
Gain(u, mm) ==
  LET ma == m[u]
      ko == RowS(nl, Wl, u)  ki == ColS(nl, Wl, u)
      go == GD * S * (knmo[u][mm] - knmo[u][ma] + Wl[u][u]) - GN * ko * (kmi[mm] - kmi[ma] + ki)
      gi == GD * S * (knmi[u][mm] - knmi[u][ma] + Wl[u][u]) - GN * ki * (kmo[mm] - kmo[ma] + ko)
  IN IF mm = ma THEN 0 ELSE IF Dir THEN go + gi ELSE go
(* np.argmax takes the first maximum of the FLOAT gains; modules whose gains tie exactly  *)
(* in Q can differ by an ulp as floats, so any exactly-maximal module is a legal step     *)
(* (DESIGN 3.3).  A tie is marked in the script so that replays know the outcome is not   *)
(* unique.                                                                                *)
VisitTo(mb) ==
  /\ pc = "visit"
  /\ LET u == order[pos]
         ma == m[u]
         best == MaxOf({Gain(u, mm) : mm \in 1..nl})
         cands == {mm \in 1..nl : Gain(u, mm) = best}
     IN IF best > 0
        THEN /\ mb \in cands
             /\ m' = [m EXCEPT ![u] = mb]
             \* knm_o[:, mb] += W[:, u] ; knm_i[:, mb] += W[u, :]  (intended update)
             /\ knmo' = [i \in 1..nl |-> [knmo[i] EXCEPT ![mb] = @ + Wl[i][u], ![ma] = @ - Wl[i][u]]]
             /\ knmi' = [j \in 1..nl |-> [knmi[j] EXCEPT ![mb] = @ + Wl[u][j], ![ma] = @ - Wl[u][j]]]
             /\ kmo' = [kmo EXCEPT ![mb] = @ + RowS(nl, Wl, u), ![ma] = @ - RowS(nl, Wl, u)]
             /\ kmi' = [kmi EXCEPT ![mb] = @ + ColS(nl, Wl, u), ![ma] = @ - ColS(nl, Wl, u)]
             /\ flag' = TRUE
             /\ hist' = IF Gen /\ Cardinality(cands) > 1 THEN Append(hist, <<"tie", <<u, mb>>>>) ELSE hist
        ELSE /\ mb = 1
             /\ UNCHANGED <<m, knmo, knmi, kmo, kmi, flag>>
             \* guard boundary: no move, yet joining another module would change Q by exactly 0.
             \* Marked in generated behaviours: the harness perturbs one connection between the two
             \* node sets by +-1e-9 so that the real code sits just above / below its move threshold.
             /\ hist' = IF Gen /\ best = 0 /\ cands # {ma}
                        THEN LET mm == CHOOSE x \in cands \ {ma} : \A y \in cands \ {ma} : x <= y
                             IN Append(hist, <<"zero", <<SetToSortSeq({i \in 1..N : cur[i] = u}, <),
                                                         SetToSortSeq({i \in 1..N : m[cur[i]] = mm}, <), <<h>> >> >>)
                        ELSE hist
  /\ pos' = pos + 1
  /\ pc' = IF pos = nl THEN "endsweep" ELSE "visit"
  /\ UNCHANGED <<W0, start, Wl, nl, cur, order, sweeps, h, qs, res>>
Visit == \E mb \in 1..nl : VisitTo(mb)

EndSweep ==
  /\ pc = "endsweep"
  /\ pc' = IF flag THEN "sweep" ELSE "aggregate"
  /\ UNCHANGED <<W0, start, Wl, nl, cur, m, knmo, knmi, kmo, kmi, order, pos, flag, sweeps, h, qs, res, hist>>

Pooled(n, W, lab, k) ==
  Mat(k, LAMBDA a, b : Sum({c \in (1..n) \X (1..n) : lab[c[1]] = a /\ lab[c[2]] = b},
                            LAMBDA c : W[c[1]][c[2]]))
Aggregate ==
  /\ pc = "aggregate"
  /\ LET mc == Canon(nl, m)
         k == Cardinality({mc[i] : i \in 1..nl})
         ncur == [i \in 1..N |-> mc[cur[i]]]
         W1 == Pooled(nl, Wl, mc, k)
         \* q[h] = trace(W1)/s - gamma*sum((W1/s)^2), scaled by gd*s*s
         qh == QNum(k, W1, [i \in 1..k |-> i], GN, GD)
         prev == IF h = 0 THEN -GD * S * S ELSE qs[h]      \* q[0] = -1
     IN /\ h' = h + 1
        /\ qs' = Append(qs, qh)
        /\ IF Finetune
           THEN /\ res' = ncur /\ pc' = "done"
                /\ UNCHANGED <<Wl, nl, cur, m, knmo, knmi, kmo, kmi, order, pos, flag, sweeps>>
           ELSE IF qh - prev <= 0
                THEN /\ res' = cur /\ pc' = "done"     \* returns ci[h-1], q[h-1]
                     /\ UNCHANGED <<Wl, nl, cur, m, knmo, knmi, kmo, kmi, order, pos, flag, sweeps>>
                ELSE /\ cur' = ncur /\ res' = res /\ pc' = "sweep"
                     /\ LevelInit(k, W1, [i \in 1..k |-> i])
  /\ UNCHANGED <<W0, start, hist>>

Emit ==
  /\ Gen /\ pc = "done"
  /\ PrintT("G|" \o ToJson([W |-> W0, start |-> start, script |-> hist, ci |-> res,
                            qnum |-> (IF Finetune THEN qs[h] ELSE IF h >= 2 THEN qs[h - 1] ELSE -GD * S * S),
                            qden |-> GD * S * S, levels |-> h, gn |-> GN, gd |-> GD]))
  /\ pc' = "emitted"
  /\ UNCHANGED <<W0, start, Wl, nl, cur, m, knmo, knmi, kmo, kmi, order, pos, flag, sweeps, h, qs, res, hist>>

Next == \/ (pc = "sweep" /\ \E p \in Perms(nl) : BeginSweep(p))   \* guard first: Perms is costly
        \/ Visit \/ EndSweep \/ Aggregate \/ Emit
Spec == Init /\ [][Next]_vars

(* ------------------------------- invariants ------------------------------------ *)
OrigPartition == [i \in 1..N |-> m[cur[i]]]
QNow == QNum(N, W0, OrigPartition, GN, GD)
(* every incremental sum equals the sum recomputed from the labels *)
BookkeepingInv ==
  pc \in {"visit", "endsweep", "sweep", "aggregate"} =>
    /\ knmo = KnmO(nl, Wl, m) /\ knmi = KnmI(nl, Wl, m)
    /\ kmo = KmO(nl, Wl, m) /\ kmi = KmI(nl, Wl, m)
(* the level matrix carries the same modularity as the original network *)
AggregationInv == QNum(nl, Wl, m, GN, GD) = QNow /\ Total(nl, Wl) = S
(* the computed gain is the true change of Q; a move strictly raises Q *)
GainIsTrueDelta ==
  [][pc = "visit" /\ m' # m =>
       LET u == order[pos] IN
       QNum(N, W0, [i \in 1..N |-> m'[cur[i]]], GN, GD) - QNow
          = (IF Dir THEN 1 ELSE 2) * Gain(u, m'[u])]_vars
MoveRaisesQ == [][m' # m /\ nl' = nl /\ pc = "visit" => QNum(N, W0, [i \in 1..N |-> m'[cur[i]]], GN, GD) > QNow]_vars
AggregateKeepsQ == [][pc = "aggregate" /\ pc' = "sweep" => QNum(N, W0, [i \in 1..N |-> m'[cur'[i]]], GN, GD) = QNow]_vars
(* returned pair: labels 1..k, reported q is the modularity of the returned partition,
   never below the start, strictly increasing hierarchy *)
ReportedQ == IF Finetune THEN qs[h] ELSE IF h >= 2 THEN qs[h - 1] ELSE -GD * S * S
FinalInv ==
  pc = "done" =>
    /\ Labels1toK(N, res)
    /\ (Finetune \/ h >= 2) => ReportedQ = QNum(N, W0, res, GN, GD)
    /\ (Finetune \/ h >= 2) => QNum(N, W0, res, GN, GD) >= QNum(N, W0, start, GN, GD)
    /\ \A x \in 1..(h - 2) : qs[x] < qs[x + 1]
SweepBound == sweeps <= MaxSweeps
=============================================================================
