SPECIFICATION Spec
CONSTANT Domains <- TDom
INVARIANT DefsAgreeInv
INVARIANT DocNotesInv
INVARIANT ForInv
INVARIANT EndpInv
INVARIANT FinalInv
INVARIANT ProgressInv
CHECK_DEADLOCK FALSE
