SPECIFICATION FairSpec
CONSTANT Domains <- TDom
INVARIANT DefsAgreeInv
INVARIANT DocNotesInv
INVARIANT ForInv
INVARIANT EndpInv
INVARIANT FinalInv
INVARIANT ProgressInv
PROPERTY Terminates
CHECK_DEADLOCK FALSE
