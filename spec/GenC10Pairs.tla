-------------------------------- MODULE GenC10Pairs --------------------------------
(* gen mode for C10: the table of pairs is DATA of the specification                *)
(* (Relations!C10Pairs); TLC writes it to $GEN_FILE and the harness evaluates       *)
(* exactly these pairs - a pair without a runner in harness/props/c10.py is a       *)
(* machinery error, never silently dropped.                                         *)
EXTENDS Relations, SequencesExt, Json, IOUtils
ASSUME JsonSerialize(IOEnv.GEN_FILE, SetToSeq(C10Pairs))
VARIABLE x
Init == x = Cardinality(C10Pairs)
Next == UNCHANGED x
Spec == Init /\ [][Next]_x
=============================================================================
