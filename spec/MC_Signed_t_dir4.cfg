SPECIFICATION Spec
CONSTANT N = 4
CONSTANT Dir = TRUE
CONSTANT Iters = 2
CONSTANT MaxAtt = 4
CONSTANT Vals <- ValsC
CONSTANT NullModel = FALSE
CONSTANT Gen = FALSE
CONSTANT Frame <- Frame8
CHECK_DEADLOCK FALSE
INVARIANT SignedDegInv
INVARIANT PosBagInv
INVARIANT NegBagInv
INVARIANT DiagInv
INVARIANT SymInv
PROPERTY EffCounts
