SPECIFICATION Spec
CONSTANT N = 4
CONSTANT Dir = TRUE
CONSTANT Conn = FALSE
CONSTANT Latt = TRUE
CONSTANT Mask = FALSE
CONSTANT Iters = 1
CONSTANT KCap = 5
CONSTANT AltD = TRUE
CONSTANT BadPicks = TRUE
CONSTANT Gen = TRUE
CHECK_DEADLOCK FALSE
