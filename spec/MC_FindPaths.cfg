SPECIFICATION Spec
CONSTANT Domains <- QDom
INVARIANT DefsAgreeInv
INVARIANT DocNotesInv
INVARIANT ForInv
INVARIANT EndpInv
INVARIANT FinalInv
INVARIANT ProgressInv
CHECK_DEADLOCK FALSE
