------------------------- MODULE Trace_RngDiscipline -------------------------
(* C05 code -> spec.  One record = one caller program executed against the real  *)
(* library: np.random.seed(s) / a foreign draw / a call of a bctpy routine with   *)
(* seed=int | RandomState(int) | None, with the fingerprints (interned as small   *)
(* ints by the harness) of numpy's global generator state and of python's        *)
(* random state before and after every step and of every returned value.         *)
(* TLC steps through the events, one state per event, with the machine's own      *)
(* variables g, py, hist: the recorded history must be a behaviour of             *)
(* RngDiscipline, i.e. every event must satisfy the step relation Allowed of the  *)
(* most general well-behaved library.  The first clause that forbids an event is  *)
(* the verdict.  r.focus = "all" judges every clause; r.focus = <clause> judges   *)
(* that clause only (used to list every clause a routine breaks).                 *)
(* Fingerprints are observations; every judgement is in RngDiscipline.            *)
EXTENDS RngDiscipline, TraceBase

VARIABLES tid, l, verdict
tvars == <<tid, l, verdict, g, py, ent, lib, hist>>

CostAny(fn, a) == 1        \* the abstract library is not used here

InAlphabet(e) ==
  /\ e.op \in {"seed", "draw", "call"}
  /\ e.sk \in {"none", "int", "RandomState"}
  /\ IF e.op = "call" THEN e.fn \in FNS /\ e.a \in ARGS /\ (e.sk = "none" \/ e.sv \in SEEDS)
     ELSE IF e.op = "seed" THEN e.sv \in SEEDS
     ELSE e.sv \in DRAWS

(* the harness's own book-keeping: not a property of the library under test       *)
EnvProblem(e) ==
  IF ~InAlphabet(e) THEN "not_a_program_of_the_model"
  ELSE IF ~EnvChains(g, py, e) THEN "stream_tokens_do_not_chain"
  ELSE IF ~EnvDeterministic(hist, e) THEN "numpy_seed_or_draw_not_deterministic"
  ELSE IF ~IsCall(e) /\ e.pa # e.pb THEN "caller_op_touched_python_random"
  ELSE ""

StepVerdict(focus, e) ==
  IF focus = "all" THEN FirstFailing(hist, e)
  ELSE IF StepHolds(focus, hist, e) THEN "ok" ELSE focus

TInit == /\ tid \in 1..Len(Recs)
         /\ l = 0
         /\ g = Recs[tid].g0 /\ py = Recs[tid].p0
         /\ ent = 0 /\ lib = "observed" /\ hist = <<>>
         /\ verdict = <<>>

(* class: whose call broke the clause - "fn1" (the routine under test), "fn2" (its   *)
(* partner), "any" otherwise; the harness books the violation to that routine        *)
Finish(clause, who) ==
  /\ verdict' = <<clause, "na", who>>
  /\ PrintT(VLine(tid, verdict'))

TEvent ==
  LET r == Recs[tid] IN
  /\ verdict = <<>> /\ l < Len(r.events)
  /\ LET e == r.events[l + 1]
         env == EnvProblem(e)
         cl == IF env # "" THEN "skip:env_" \o env ELSE StepVerdict(r.focus, e)
     IN /\ l' = l + 1
        /\ hist' = Append(hist, e)
        /\ g' = e.ga /\ py' = e.pa
        /\ IF cl = "ok" THEN UNCHANGED verdict
           ELSE Finish(cl, IF env = "" /\ IsCall(e) THEN "fn" \o ToString(e.fn) ELSE "any")
  /\ UNCHANGED <<tid, ent, lib>>

TFinal ==
  /\ verdict = <<>> /\ l = Len(Recs[tid].events)
  /\ Finish("ok", "any")
  /\ UNCHANGED <<tid, l, g, py, ent, lib, hist>>

TNext == TEvent \/ TFinal
TSpec == TInit /\ [][TNext]_tvars
=============================================================================
