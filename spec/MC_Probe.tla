------------------------------- MODULE MC_Probe -------------------------------
(* C11 (i): soundness of the two connectivity probes of the *_connected routines.   *)
(* For EVERY connected (strongly connected) graph on N nodes and EVERY candidate    *)
(* swap (a,b),(c,d) -> (a,d),(c,b) that passes the rewiring condition: if the        *)
(* frontier-expansion probe (Rewire!ProbeUnd / ProbeDir, a transcription of the      *)
(* P/PN loops) accepts, the swapped graph is still connected / strongly connected.   *)
EXTENDS Rewire
CONSTANTS N, Dir
VARIABLES R, q
UPairs == {p \in (1..N) \X (1..N) : p[1] < p[2]}
DPairs == {p \in (1..N) \X (1..N) : p[1] # p[2]}
UndOf(E) == Mat(N, LAMBDA i, j : IF <<i, j>> \in E \/ <<j, i>> \in E THEN 1 ELSE 0)
DirOf(E) == Mat(N, LAMBDA i, j : IF <<i, j>> \in E THEN 1 ELSE 0)
Graphs == IF Dir THEN {G \in {DirOf(E) : E \in SUBSET DPairs} : StronglyConnected(N, G)}
          ELSE {G \in {UndOf(E) : E \in SUBSET UPairs} : Connected(N, G)}
Quads == {t \in (1..N) \X (1..N) \X (1..N) \X (1..N) : Distinct4(t[1], t[2], t[3], t[4])}
Init == /\ R \in Graphs
        /\ q \in {t \in Quads : IF Dir THEN CanSwapDir(R, t[1], t[2], t[3], t[4])
                                     ELSE CanSwapUnd(R, t[1], t[2], t[3], t[4])}
Next == UNCHANGED <<R, q>>
Spec == Init /\ [][Next]_<<R, q>>
ProbeSound ==
  LET a == q[1]  b == q[2]  c == q[3]  d == q[4] IN
  IF Dir THEN ProbeDir(N, R, a, b, c, d) => StronglyConnected(N, SwapDir(N, R, a, b, c, d))
  ELSE ProbeUnd(N, R, a, b, c, d) => Connected(N, SwapUnd(N, R, a, b, c, d))
=============================================================================
