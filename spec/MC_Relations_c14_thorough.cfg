SPECIFICATION Spec
CONSTANT NP = 5
CONSTANT NQ = 5
CONSTANT NT = 4
CONSTANT NG = 4
CONSTANT NS = 4
CONSTANT WMax = 3
CONSTANT Modes = {"relabel", "pair", "triple"}
CONSTANT Pool <- PoolSix
CONSTANT PoolQ <- PoolFour
CONSTANT PoolT <- PoolThree
INVARIANT RelabelGivesSamePartition
INVARIANT UniqueInverseIsRelabelling
INVARIANT SamePartitionCharacterised
INVARIANT SamePartitionIsEquivalence
CHECK_DEADLOCK FALSE
