---- MODULE MC_Rand ----
EXTENDS RandImpl
====
