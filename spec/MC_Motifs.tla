---- MODULE MC_Motifs ----
EXTENDS MotifImpl
====
