SPECIFICATION Spec
CONSTANT N = 4
CHECK_DEADLOCK FALSE
