#!/bin/sh
mk() { # file N Finetune QType GN GD Vals Gen
cat > $1 <<EOF
SPECIFICATION Spec
CONSTANT N = $2
CONSTANT Finetune = $3
CONSTANT QType = "$4"
CONSTANT GN = $5
CONSTANT GD = $6
CONSTANT Vals <- $7
CONSTANT Gen = $8
CHECK_DEADLOCK FALSE
EOF
if [ "$8" = FALSE ]; then cat >> $1 <<EOF
INVARIANT BookkeepingInv
INVARIANT AggregationInv
INVARIANT FinalInv
PROPERTY GainIsTrueDelta
PROPERTY MoveRaisesQ
EOF
fi
}
rm -f MC_LouvainS_*.cfg Gen_LouvainS_*.cfg
mk MC_LouvainS_q_sta4.cfg   4 FALSE sta 1 1 VS  FALSE
mk MC_LouvainS_q_fgja3.cfg  3 TRUE  gja 5 4 VS2 FALSE
mk MC_LouvainS_t_smp4.cfg   4 FALSE smp 3 4 VS  FALSE
mk MC_LouvainS_t_fneg4.cfg  4 TRUE  neg 1 1 VS  FALSE
mk MC_LouvainS_t_pos4.cfg   4 FALSE pos 5 4 VS  FALSE
mk MC_LouvainS_t_fsta4.cfg  4 TRUE  sta 3 4 VS  FALSE
mk Gen_LouvainS_sta4.cfg    4 FALSE sta 1 1 VS  TRUE
mk Gen_LouvainS_gja4.cfg    4 FALSE gja 5 4 VS2 TRUE
mk Gen_LouvainS_fsmp4.cfg   4 TRUE  smp 3 4 VS2 TRUE
mk Gen_LouvainS_fneg4.cfg   4 TRUE  neg 1 1 VS  TRUE
mk Gen_LouvainS_pos4.cfg    4 FALSE pos 1 1 VS2 TRUE
