SPECIFICATION Spec
CONSTANT N = 4
CONSTANT Kind = "bd"
CONSTANT WMax = 1
INVARIANT SubnetworkInv
INVARIANT CoreSafeInv
INVARIANT IterInv
INVARIANT ResultIsCoreInv
INVARIANT UniqueInv
INVARIANT PeelSetInv
INVARIANT OperatorInv
INVARIANT NestedInv
INVARIANT PeelOnceInv
INVARIANT CorenessInv
CHECK_DEADLOCK FALSE
