SPECIFICATION Spec
CONSTANT N = 6
CONSTANT Und = TRUE
CONSTANT Gen = TRUE
CONSTANT KMax = 99
CHECK_DEADLOCK FALSE
INVARIANT TypeOK
INVARIANT PrefixInv
INVARIANT DoneContract
INVARIANT DoneIsRandResult
