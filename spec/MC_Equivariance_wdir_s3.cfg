SPECIFICATION Spec
CONSTANT NU = 4
CONSTANT ND = 3
CONSTANT NWU = 3
CONSTANT NWD = 3
CONSTANT NS = 3
CONSTANT WMax = 2
CONSTANT Modes = {"wdir"}
CONSTANT PFirst = {3}
INVARIANT GroupLaws
INVARIANT DegreesEquivariant
INVARIANT ReachEquivariant
INVARIANT ComponentLabelsEquivariant
INVARIANT DistEquivariant
INVARIANT BetwEquivariant
INVARIANT BetwEnumEquivariant
INVARIANT ClustEquivariant
INVARIANT CoreEquivariant
INVARIANT ClassInvariant
CHECK_DEADLOCK FALSE
