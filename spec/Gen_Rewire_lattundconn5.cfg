SPECIFICATION Spec
CONSTANT N = 5
CONSTANT Dir = FALSE
CONSTANT Conn = TRUE
CONSTANT Latt = TRUE
CONSTANT Mask = FALSE
CONSTANT Iters = 1
CONSTANT KCap = 5
CONSTANT AltD = TRUE
CONSTANT BadPicks = TRUE
CONSTANT Gen = TRUE
CHECK_DEADLOCK FALSE
