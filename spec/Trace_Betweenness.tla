---------------------------- MODULE Trace_Betweenness ----------------------------
(* C08 code -> spec.  Every record is one real call                               *)
(*   Call(fn, A) -> Return(bc [, ebc]) | Raise(exc)                               *)
(* fn in {betweenness_bin, betweenness_wei, edge_betweenness_bin,                 *)
(* edge_betweenness_wei}; A an integer connection-length matrix (0/1 for the _bin *)
(* routines); bc / ebc are 10^-6 fixed-point (E-q6); for the edge routines ref_bc *)
(* is what the corresponding node routine returned for the same matrix.           *)
(* The expected values come from Betweenness!Counts (definition (D), proved equal *)
(* to the explicit enumeration (E) by the MC_Brandes and MC_BrandesPower models). *)
(* Domain: n <= 10, lengths in 0..3, empty diagonal (32-bit safety: see module    *)
(* Betweenness).                                                                  *)
EXTENDS Betweenness, TraceBase

IsEdgeFn(r) == r.fn \in {"edge_betweenness_bin", "edge_betweenness_wei"}
IsBinFn(r)  == r.fn \in {"betweenness_bin", "edge_betweenness_bin"}

InDomain(r) ==
  /\ r.n \in 1..10
  /\ IsSquare(r.n, r.A)
  /\ \A i, j \in 1..r.n : r.A[i][j] \in 0..3
  /\ DiagZero(r.n, r.A)
  /\ IsBinFn(r) => IsBinary(r.n, r.A)

Bounded(x) == x > -200000000 /\ x < 200000000
Shape(r) ==
  /\ r.malformed = ""
  /\ DOMAIN r.bc = 1..r.n
  /\ IsEdgeFn(r) => IsSquare(r.n, r.ebc)

JudgeIn(r) ==
  LET n == r.n   A == r.A
      C == Counts(n, A)
      den == CommonDen(n, LAMBDA s, t : SigmaD(C, s, t))
      cells == (1..n) \X (1..n) IN
  (* "return ..." : no exception on an in-domain input, disconnected or not        *)
  Chk("Returns", r.raised = "",
  Chk("WellFormed", Shape(r),
  (* "for every node the sum over ordered source-target pairs of the fraction of   *)
  (* all shortest paths between them that pass through it"                          *)
  Chk("NodeBCEqualsDefinition", \A v \in 1..n : NodeNear(n, C, den, r.bc[v], v),
  (* "... for every connection ..." (and exactly 0 where there is no connection)    *)
  Chk("EdgeBCEqualsDefinition",
      IsEdgeFn(r) => \A c \in cells : EdgeNear(n, A, C, den, r.ebc[c[1]][c[2]], c[1], c[2]),
  (* "the node vector returned by the edge routines equals the node routines'       *)
  (* result" (judged when the node routine returned)                                *)
  Chk("EdgeRoutineNodeVectorEqualsNodeRoutine",
      (IsEdgeFn(r) /\ r.ref_raised = "") =>
         /\ DOMAIN r.ref_bc = 1..n
         /\ \A v \in 1..n : NearQ(r.bc[v], r.ref_bc[v], 2),
  (* "on binary graphs node values sum to the total of (distance - 1) and           *)
  (* connection values to the total of distances over reachable ordered pairs"      *)
  Chk("SumIdentities",
      IsBinary(n, A) =>
         /\ Abs(Sum(1..n, LAMBDA v : r.bc[v]) - Q6 * TotalDistMinus1(n, C)) <= n + 1
         /\ IsEdgeFn(r) =>
              Abs(Sum(cells, LAMBDA c : r.ebc[c[1]][c[2]]) - Q6 * TotalDist(n, C)) <= n * n + 1,
  "ok"))))))

(* input class: how many targets the worst source cannot reach                      *)
Class(r) ==
  IF ~InDomain(r) THEN "any"
  ELSE LET C == Counts(r.n, r.A)
           miss(s) == Cardinality({t \in 1..r.n : ~Reach(C, s, t)})
           m == MaxOf({miss(s) : s \in 1..r.n}) IN
       IF m = 0 THEN "strongly_connected"
       ELSE IF m = 1 THEN "some_source_misses_1" ELSE "some_source_misses_2plus"

(* the output is uniquely defined by the property: nothing can drift                *)
Judge(r) == <<IF InDomain(r) THEN JudgeIn(r) ELSE "skip:out_of_domain", "na", Class(r)>>

VARIABLES tid, verdict
TInit == tid \in 1..Len(Recs) /\ verdict = <<>>
TNext == /\ verdict = <<>>
         /\ verdict' = Judge(Recs[tid])
         /\ PrintT(VLine(tid, verdict'))
         /\ UNCHANGED tid
TSpec == TInit /\ [][TNext]_<<tid, verdict>>
=============================================================================
