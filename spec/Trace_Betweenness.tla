---------------------------- MODULE Trace_Betweenness ----------------------------
(* C08 code -> spec.  Every record is one real call                               *)
(*   Call(fn, A) -> Return(bc [, ebc]) | Raise(exc)                               *)
(* fn in {betweenness_bin, betweenness_wei, edge_betweenness_bin,                 *)
(* edge_betweenness_wei}; A an integer connection-length matrix (0/1 for the _bin *)
(* routines); bc / ebc are 10^-6 fixed-point (E-q6); for the edge routines ref_bc *)
(* is what the corresponding node routine returned for the same matrix.           *)
(* The expected values come from Betweenness!Counts (definition (D), proved equal *)
(* to the explicit enumeration (E) by the MC_Brandes and MC_BrandesPower models). *)
(* Domain: n <= 10, lengths in 0..3, empty diagonal (32-bit safety: see module    *)
(* Betweenness).                                                                  *)
(* Scale regime (r.kind = "chain"): the input is a chain of gadgets (module        *)
(* BetweennessChain) with up to 1200 nodes, 2^70 / 3^81 ... tied shortest paths,   *)
(* lengths b * 2^e; the record carries the chain, the connections of the matrix    *)
(* the routine was actually handed (r.edges, <<from, to, odd mantissa, exponent>>) *)
(* and the returned values as <<whole part, 10^-6 part>> (bc_w/bc_f per node,      *)
(* ebc_w/ebc_f per connection in the order of r.edges, ebc_off = number of non-zero *)
(* cells where there is no connection, ref_w/ref_f = the node routine's vector).    *)
(* Expected values: BetweennessChain!ChainNodeNum / ChainEdgeNum (composition,      *)
(* proved equal to the definitions by MC_BetweennessChain on small chains).         *)
EXTENDS BetweennessChain, TraceBase

IsEdgeFn(r) == r.fn \in {"edge_betweenness_bin", "edge_betweenness_wei"}
IsBinFn(r)  == r.fn \in {"betweenness_bin", "edge_betweenness_bin"}

InDomain(r) ==
  /\ r.n \in 1..10
  /\ IsSquare(r.n, r.A)
  (* lengths 1..3, and 2^24 for the mixed-magnitude family (seed round 7): path lengths stay below  *)
  (* 10 * 2^24 < 2^31                                                                               *)
  /\ \A i, j \in 1..r.n : r.A[i][j] \in 0..3 \/ r.A[i][j] = 16777216
  /\ DiagZero(r.n, r.A)
  /\ IsBinFn(r) => IsBinary(r.n, r.A)

Bounded(x) == x > -200000000 /\ x < 200000000
Shape(r) ==
  /\ r.malformed = ""
  /\ DOMAIN r.bc = 1..r.n
  /\ IsEdgeFn(r) => IsSquare(r.n, r.ebc)

JudgeIn(r) ==
  LET n == r.n   A == r.A
      C == Counts(n, A)
      den == CommonDen(n, LAMBDA s, t : SigmaD(C, s, t))
      cells == (1..n) \X (1..n) IN
  (* "return ..." : no exception on an in-domain input, disconnected or not        *)
  Chk("Returns", r.raised = "",
  Chk("WellFormed", Shape(r),
  (* "for every node the sum over ordered source-target pairs of the fraction of   *)
  (* all shortest paths between them that pass through it"                          *)
  Chk("NodeBCEqualsDefinition", \A v \in 1..n : NodeNear(n, C, den, r.bc[v], v),
  (* "... for every connection ..." (and exactly 0 where there is no connection)    *)
  Chk("EdgeBCEqualsDefinition",
      IsEdgeFn(r) => \A c \in cells : EdgeNear(n, A, C, den, r.ebc[c[1]][c[2]], c[1], c[2]),
  (* "the node vector returned by the edge routines equals the node routines'       *)
  (* result" (judged when the node routine returned)                                *)
  Chk("EdgeRoutineNodeVectorEqualsNodeRoutine",
      (IsEdgeFn(r) /\ r.ref_raised = "") =>
         /\ DOMAIN r.ref_bc = 1..n
         /\ \A v \in 1..n : NearQ(r.bc[v], r.ref_bc[v], 2),
  (* "on binary graphs node values sum to the total of (distance - 1) and           *)
  (* connection values to the total of distances over reachable ordered pairs"      *)
  Chk("SumIdentities",
      IsBinary(n, A) =>
         /\ Abs(Sum(1..n, LAMBDA v : r.bc[v]) - Q6 * TotalDistMinus1(n, C)) <= n + 1
         /\ IsEdgeFn(r) =>
              Abs(Sum(cells, LAMBDA c : r.ebc[c[1]][c[2]]) - Q6 * TotalDist(n, C)) <= n * n + 1,
  "ok"))))))

(* input class: how many targets the worst source cannot reach                      *)
Class(r) ==
  IF ~InDomain(r) THEN "any"
  ELSE LET C == Counts(r.n, r.A)
           miss(s) == Cardinality({t \in 1..r.n : ~Reach(C, s, t)})
           m == MaxOf({miss(s) : s \in 1..r.n}) IN
       IF m = 0 THEN "strongly_connected"
       ELSE IF m = 1 THEN "some_source_misses_1" ELSE "some_source_misses_2plus"

(* ---------------- scale regime: chains of gadgets ------------------------------ *)
Chain(r) == [lib |-> r.lib, seq |-> r.seq]
InDomainChain(r) ==
  LET ch == Chain(r) IN
  /\ ChainOK(ch)
  /\ r.n = ChainN(ch) /\ r.n <= 1200
  /\ ChainDen(ch) <= DenMax
  (* the matrix the routine was handed IS the chain                                  *)
  /\ Len(r.edges) = Cardinality(ChainEdges(ch))
  /\ {r.edges[x] : x \in DOMAIN r.edges} = ChainEdges(ch)
  /\ IsBinFn(r) => \A x \in DOMAIN r.edges : r.edges[x][3] = 1 /\ r.edges[x][4] = 0

ShapeChain(r) ==
  /\ r.malformed = ""
  /\ DOMAIN r.bc_w = 1..r.n /\ DOMAIN r.bc_f = 1..r.n
  /\ IsEdgeFn(r) => DOMAIN r.ebc_w = DOMAIN r.edges /\ DOMAIN r.ebc_f = DOMAIN r.edges

JudgeChain(r, X) ==
  LET n == r.n IN
  Chk("Returns", r.raised = "",
  Chk("WellFormed", ShapeChain(r),
  (* "for every node the sum over ordered source-target pairs of the fraction of   *)
  (* all shortest paths between them that pass through it"                          *)
  Chk("NodeBCEqualsDefinition",
      \A v \in 1..n : WFNearFrac(r.bc_w[v], r.bc_f[v], ChainNodeNum(X, v), X.den),
  (* "... for every connection ..." (and exactly 0 where there is no connection)    *)
  Chk("EdgeBCEqualsDefinition",
      IsEdgeFn(r) =>
         /\ r.ebc_off = 0
         /\ \A x \in DOMAIN r.edges :
              WFNearFrac(r.ebc_w[x], r.ebc_f[x], ChainEdgeNum(X, r.edges[x][1], r.edges[x][2]), X.den),
  (* "the node vector returned by the edge routines equals the node routines'       *)
  (* result" (judged when the node routine was run and returned)                    *)
  Chk("EdgeRoutineNodeVectorEqualsNodeRoutine",
      (IsEdgeFn(r) /\ r.ref_raised = "") =>
         /\ DOMAIN r.ref_w = 1..n /\ DOMAIN r.ref_f = 1..n
         /\ \A v \in 1..n : WFNear(r.bc_w[v], r.bc_f[v], r.ref_w[v], r.ref_f[v]),
  "ok")))))

(* input class: can the first junction reach, and be reached from, every node        *)
ClassChain(r, X) ==
  IF X.RF[1] = r.n - 1 /\ X.RT[1] = r.n - 1 THEN "chain_strongly_connected" ELSE "chain_some_unreachable"
(* (the tables X are built once per record: LET definitions are evaluated on demand) *)
JudgeChainRec(r) ==
  LET X == ChainCtx(Chain(r)) IN
  IF InDomainChain(r) THEN <<JudgeChain(r, X), "na", ClassChain(r, X)>>
  ELSE <<"skip:out_of_domain", "na", "any">>

(* the output is uniquely defined by the property: nothing can drift                *)
Judge(r) ==
  IF r.kind = "chain" THEN JudgeChainRec(r)
  ELSE <<IF InDomain(r) THEN JudgeIn(r) ELSE "skip:out_of_domain", "na", Class(r)>>

VARIABLES tid, verdict
TInit == tid \in 1..Len(Recs) /\ verdict = <<>>
TNext == /\ verdict = <<>>
         /\ verdict' = Judge(Recs[tid])
         /\ PrintT(VLine(tid, verdict'))
         /\ UNCHANGED tid
TSpec == TInit /\ [][TNext]_<<tid, verdict>>
=============================================================================
