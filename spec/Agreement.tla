-------------------------------- MODULE Agreement --------------------------------
(* X02 (extended coverage) - bct.algorithms.clustering.agreement(ci, buffsz),   *)
(* agreement_weighted(ci, wts), and the partition helpers used by consensus_und. *)
(*                                                                              *)
(* Everywhere here a stack of partitions is NODE-major: ci[i][p] = label of     *)
(* node i in partition p (the layout agreement() documents, N x M).             *)
(* agreement_weighted documents the transposed layout (M x N); the harness      *)
(* transposes for the call and sends the node-major form to the spec.           *)
(*                                                                              *)
(* L0  D[i][j] = number of partitions in which i and j carry the same label,    *)
(*     D[i][i] = 0 (agreement: `np.fill_diagonal(D, 0)`, MATLAB `D.*~eye`).     *)
(*     Weighted: D[i][j] = sum of wts[p] over those partitions / sum(wts);      *)
(*     the diagonal is left at 1 by the code and by the MATLAB original - the   *)
(*     property clause speaks about i # j only, the diagonal is drift.          *)
(* L2  dummyvar as an operator (indicator columns, per partition, in ascending  *)
(*     label order), the Gram matrix ind.ind^T, the chunk bounds a/b of the     *)
(*     buffered loop; AgreementImpl.tla is the machine.                         *)
(* Numbers: labels are arbitrary integers; weights positive integers; observed  *)
(* weighted values are E-q6; n <= 12, m <= 12, sum(wts) <= 100:                 *)
(* |obs * W| <= 10^8, num * 10^6 <= 10^8 (< 2^31).                              *)
EXTENDS BctBase, SequencesExt

(* =============================== L0 ========================================= *)
Together(m, ci, i, j) == {p \in 1..m : ci[i][p] = ci[j][p]}
AgreementL0(n, m, ci) ==
  Mat(n, LAMBDA i, j : IF i = j THEN 0 ELSE Cardinality(Together(m, ci, i, j)))
(* weighted numerator; the value is WNum / WSum                                  *)
WSum(m, w) == Sum(1..m, LAMBDA p : w[p])
WNum(m, ci, w, i, j) == Sum(Together(m, ci, i, j), LAMBDA p : w[p])

(* ---- partitions (label vectors c[1..n]) -------------------------------------- *)
Labels(c) == {c[i] : i \in DOMAIN c}
SamePart(c1, c2) ==
  /\ DOMAIN c1 = DOMAIN c2
  /\ \A i, j \in DOMAIN c1 : (c1[i] = c1[j]) <=> (c2[i] = c2[j])
Blocks(c) == {{i \in DOMAIN c : c[i] = l} : l \in Labels(c)}
(* "a valid partition with labels 1..k"                                          *)
IsPartition1toK(n, c) == /\ DOMAIN c = 1..n
                         /\ Labels(c) = 1..Cardinality(Labels(c))
(* blocks numbered by first occurrence (restricted growth string)                *)
FirstOcc(c, i) == MinOf({j \in DOMAIN c : c[j] = c[i]})
CanonOf(c) == [i \in DOMAIN c |->
                 Cardinality({FirstOcc(c, j) : j \in DOMAIN c} \cap (1..FirstOcc(c, i)))]
IsRGString(c) == \A i \in DOMAIN c :
                   /\ c[i] >= 1
                   /\ c[i] <= 1 + (IF i = 1 THEN 0 ELSE MaxOf({c[j] : j \in 1..(i - 1)}))
Column(n, ci, p) == [i \in 1..n |-> ci[i][p]]

(* ---- clauses on observed outputs --------------------------------------------- *)
ShapeNxN(n, D) == IsSquare(n, D)
(* "elements indicate the number of times any two vertices were assigned to the *)
(*  same class"                                                                  *)
CountsCoassignments(n, m, ci, D) ==
  \A i, j \in 1..n : i # j => D[i][j] = Cardinality(Together(m, ci, i, j))
ZeroDiagonal(n, D) == DiagZero(n, D)
(* "each partition's contribution is weighted according to wts" (normalised)     *)
NearRatio(obs, num, den, tol) == Abs(obs * den - num * 1000000) <= tol * den
WeightedCoassignments(n, m, ci, w, Dq) ==
  LET W == WSum(m, w) IN
  \A i, j \in 1..n : i # j => NearRatio(Dq[i][j], WNum(m, ci, w, i, j), W, 1)

(* =============================== L2 ========================================= *)
AscInts(S) == SetToSortSeq(S, LAMBDA a, b : a < b)
(* dummyvar(ci[:, cols]): for each column in order, for each distinct label in  *)
(* ascending order, the indicator (as a node set) of that label                  *)
DummyCols(n, ci, cols) ==
  LET one(p) == LET ls == AscInts({ci[i][p] : i \in 1..n})
                IN [t \in 1..Len(ls) |-> {i \in 1..n : ci[i][p] = ls[t]}]
  IN FoldLeft(LAMBDA acc, p : acc \o one(p), <<>>, cols)
(* np.dot(ind, ind.T)                                                            *)
Gram(n, ind) == Mat(n, LAMBDA i, j : Cardinality({t \in DOMAIN ind : i \in ind[t] /\ j \in ind[t]}))
MatAdd(n, A, B) == Mat(n, LAMBDA i, j : A[i][j] + B[i][j])
MatScale(n, A, s) == Mat(n, LAMBDA i, j : A[i][j] * s)
(* np.arange(lo, hi, step), step >= 1                                            *)
Arange(lo, hi, step) ==
  IF hi <= lo THEN <<>>
  ELSE [t \in 1..(((hi - lo) + step - 1) \div step) |-> lo + (t - 1) * step]
IntSeq(lo, hi) == [t \in 1..(hi - lo + 1) |-> lo + t - 1]          \* lo..hi as a sequence
(* a = arange(0,M,b); b = arange(b,M,b); if len(a) != len(b): b.append(M)       *)
ChunkA(m, buffsz) == Arange(0, m, buffsz)
ChunkB(m, buffsz) ==
  LET b0 == Arange(buffsz, m, buffsz)
  IN IF Len(ChunkA(m, buffsz)) # Len(b0) THEN Append(b0, m) ELSE b0
(* ci[:, i:j] (0-based half-open) = columns i+1..j                               *)
ChunkCols(lo, hi) == IntSeq(lo + 1, hi)

(* the whole routine as one expression (used by the trace spec for drift)        *)
AgreementL2(n, m, ci, buffsz) ==
  IF m <= buffsz THEN NoDiag(n, Gram(n, DummyCols(n, ci, IntSeq(1, m))))
  ELSE LET a == ChunkA(m, buffsz)  b == ChunkB(m, buffsz)
           nz == IF Len(a) < Len(b) THEN Len(a) ELSE Len(b)
       IN NoDiag(n, FoldLeft(LAMBDA D, k : MatAdd(n, D, Gram(n, DummyCols(n, ci, ChunkCols(a[k], b[k])))),
                             Zero(n), IntSeq(1, nz)))
=============================================================================
