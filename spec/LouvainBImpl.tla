-------------------------------- MODULE LouvainBImpl --------------------------------
(* C02 / C07.  L2 machine of community_louvain (bct/algorithms/modularity.py): the       *)
(* "generalised Louvain" on an objective matrix B, for every built-in objective.           *)
(*                                                                                        *)
(*   B is kept as the integer matrix FB = F*B (F > 0 chosen per objective so that every    *)
(*   entry is an integer):                                                                 *)
(*     modularity     B = sym(W - gamma*ko*ki'/s)            F = 2*gd*s                    *)
(*     potts          B = sym(W - gamma*not(W))              F = 2*gd                      *)
(*     negative_sym   B = (B0 - B1)/(s0+s1)                  F = 2*gd*s0*s1*(s0+s1)        *)
(*     negative_asym  B = B0/s0 - B1/(s0+s1)                 F = 2*gd*s0*s0*s1*(s0+s1)     *)
(*   (B0, B1 the modularity matrices of the positive / negative parts).                    *)
(*                                                                                        *)
(*   "sweep" --BeginSweep(perm)--> "visit" --VisitTo(mb)--> ... "endsweep" --EndSweep-->   *)
(*   "sweep" | "aggregate" --Aggregate--> "sweep" | "done"                                 *)
(*   Hnm is the incremental node-to-module sum exactly as coded; the stop rule mixes a     *)
(*   normalised first q with un-normalised traces exactly as the code does.                *)
EXTENDS Modularity, SequencesExt, Json

CONSTANTS N, Objective, Dir, GN, GD, Vals, Gen,
          AllStarts   \* TRUE: every starting partition; FALSE: singletons and the one-block partition
VARIABLES W0, start, FB0, F0,   \* input, start partition, initial scaled objective matrix, its scale
          FB, nl,        \* current-level objective matrix (scaled) and its size
          ci,            \* original node -> module of the current level (the code's ci)
          first,         \* first_iteration
          m,             \* Mb: labels of the current-level nodes
          hnm,           \* Hnm
          order, pos, flag,
          q0, q,         \* as <<num, den>> with den > 0 ; q0 = <<-1, 0>> stands for -inf
          pc, hist
vars == <<W0, start, FB0, F0, FB, nl, ci, first, m, hnm, order, pos, flag, q0, q, pc, hist>>

Signed == Objective \in {"negative_sym", "negative_asym"}
UPairs == {p \in (1..N) \X (1..N) : p[1] < p[2]}
DPairs == {p \in (1..N) \X (1..N) : p[1] # p[2]}
(* self-connections: hollow by default; cfg override  DiagVals <- DiagVals01  enumerates them *)
DiagVals == {0}
DiagVals01 == {0, 1}
Inputs == IF Dir THEN {Mat(N, LAMBDA i, j : IF i = j THEN d[i] ELSE f[<<i, j>>])
                         : f \in [DPairs -> Vals], d \in [1..N -> DiagVals]}
          ELSE {Mat(N, LAMBDA i, j : IF i = j THEN d[i] ELSE IF i < j THEN f[<<i, j>>] ELSE f[<<j, i>>])
                  : f \in [UPairs -> Vals], d \in [1..N -> DiagVals]}
Admissible(W) ==
  /\ Total(N, W) > 0
  /\ Signed => Total(N, PosW(N, W)) > 0 /\ Total(N, NegW(N, W)) > 0
  /\ ~Signed => \A i, j \in 1..N : W[i][j] >= 0
Starts == IF AllStarts
          THEN {c \in [1..N -> 1..N] : c[1] = 1 /\ \A i \in 2..N : \E j \in 1..(i-1) : c[i] <= c[j] + 1}
          ELSE {[i \in 1..N |-> i], [i \in 1..N |-> 1]}
Perms(k) == {p \in [1..k -> 1..k] : {p[i] : i \in 1..k} = 1..k}

(* ---- the scaled objective matrix ------------------------------------------------ *)
ModB(W, mult) ==    \* mult * 2*gd*s * sym(W - gamma ko ki'/s)
  LET s == Total(N, W)
      ko == [i \in 1..N |-> OutStr(N, W, i)]  ki == [j \in 1..N |-> InStr(N, W, j)]
  IN Mat(N, LAMBDA i, j : mult * (GD * s * (W[i][j] + W[j][i]) - GN * (ko[i] * ki[j] + ko[j] * ki[i])))
Not01(x) == IF x = 0 THEN 1 ELSE 0
InitFB(W) ==
  LET W0p == PosW(N, W)  W1p == NegW(N, W)
      s0 == Total(N, W0p)  s1 == Total(N, W1p)
  IN CASE Objective = "modularity" -> ModB(W, 1)
       [] Objective = "potts" ->
            Mat(N, LAMBDA i, j : GD * (W[i][j] + W[j][i]) - GN * (Not01(W[i][j]) + Not01(W[j][i])))
       [] Objective = "negative_sym" ->
            LET b0 == ModB(W0p, s1)  b1 == ModB(W1p, s0) IN Mat(N, LAMBDA i, j : b0[i][j] - b1[i][j])
       [] Objective = "negative_asym" ->
            LET b0 == ModB(W0p, s1 * (s0 + s1))  b1 == ModB(W1p, s0 * s0)
            IN Mat(N, LAMBDA i, j : b0[i][j] - b1[i][j])
F(W) ==
  LET s == Total(N, W)  s0 == Total(N, PosW(N, W))  s1 == Total(N, NegW(N, W)) IN
  CASE Objective = "modularity" -> 2 * GD * s
    [] Objective = "potts" -> 2 * GD
    [] Objective = "negative_sym" -> 2 * GD * s0 * s1 * (s0 + s1)
    [] Objective = "negative_asym" -> 2 * GD * s0 * s0 * s1 * (s0 + s1)

HnmOf(n, B, lab) == [i \in 1..n |-> [mm \in 1..n |-> Sum({j \in 1..n : lab[j] = mm}, LAMBDA j : B[i][j])]]
SameSum(n, B, lab) == Sum((1..n) \X (1..n), LAMBDA c : IF lab[c[1]] = lab[c[2]] THEN B[c[1]][c[2]] ELSE 0)
Trace(n, B) == Sum(1..n, LAMBDA i : B[i][i])

Init ==
  /\ W0 \in {W \in Inputs : Admissible(W)}
  /\ start \in Starts
  /\ FB0 = InitFB(W0) /\ F0 = F(W0)
  /\ FB = FB0 /\ nl = N /\ ci = start /\ first = TRUE /\ m = start
  /\ hnm = HnmOf(N, FB0, start)
  /\ order = <<>> /\ pos = 0 /\ flag = FALSE
  /\ q0 = <<-1, 0>>
  (* q = sum(B[same]) / s *)
  /\ q = <<SameSum(N, FB0, start), F0 * Total(N, W0)>>
  /\ pc = "sweep" /\ hist = <<>>

BeginSweep(p) ==
  /\ pc = "sweep"
  /\ order' = p /\ pos' = 1 /\ flag' = FALSE /\ pc' = "visit"
  /\ hist' = IF Gen THEN Append(hist, <<"perm", p>>) ELSE hist
  /\ UNCHANGED <<W0, start, FB0, F0, FB, nl, ci, first, m, hnm, q0, q>>

Gain(u, mm) == IF mm = m[u] THEN 0 ELSE hnm[u][mm] - hnm[u][m[u]] + FB[u][u]
VisitTo(mb) ==
  /\ pc = "visit"
  /\ LET u == order[pos]
         ma == m[u]
         best == MaxOf({Gain(u, mm) : mm \in 1..nl})
         cands == {mm \in 1..nl : Gain(u, mm) = best}
     IN IF best > 0
        THEN /\ mb \in cands
             /\ m' = [m EXCEPT ![u] = mb]
             /\ hnm' = [i \in 1..nl |-> [hnm[i] EXCEPT ![mb] = @ + FB[i][u], ![ma] = @ - FB[i][u]]]
             /\ flag' = TRUE
             /\ hist' = IF Gen /\ Cardinality(cands) > 1 THEN Append(hist, <<"tie", <<u, mb>>>>) ELSE hist
        ELSE /\ mb = 1 /\ UNCHANGED <<m, hnm, flag, hist>>
  /\ pos' = pos + 1
  /\ pc' = IF pos = nl THEN "endsweep" ELSE "visit"
  /\ UNCHANGED <<W0, start, FB0, F0, FB, nl, ci, first, order, q0, q>>

EndSweep ==
  /\ pc = "endsweep"
  /\ pc' = IF flag THEN "sweep" ELSE "aggregate"
  /\ UNCHANGED <<W0, start, FB0, F0, FB, nl, ci, first, m, hnm, order, pos, flag, q0, q, hist>>

(* q - q0 > 1e-10 on fractions (q0 = -inf first)                                       *)
Improves(a, b) == IF b[2] = 0 THEN TRUE ELSE a[1] * b[2] > b[1] * a[2]

Aggregate ==
  /\ pc = "aggregate"
  /\ LET mc == Canon(nl, m)
         k == Cardinality({mc[i] : i \in 1..nl})
         nci == IF first THEN mc ELSE [i \in 1..N |-> mc[ci[i]]]
         b1 == Mat(k, LAMBDA a, b : Sum({c \in (1..nl) \X (1..nl) : mc[c[1]] = a /\ mc[c[2]] = b},
                                        LAMBDA c : FB[c[1]][c[2]]))
         nq == <<Trace(k, b1), F0>>          \* q = trace(B), un-normalised as in the code
     IN /\ ci' = nci /\ first' = FALSE
        /\ FB' = b1 /\ nl' = k /\ m' = [i \in 1..k |-> i] /\ hnm' = b1
        /\ q0' = q /\ q' = nq
        /\ pc' = IF Improves(nq, q) THEN "sweep" ELSE "done"
        /\ order' = <<>> /\ pos' = 0 /\ flag' = FALSE
  /\ UNCHANGED <<W0, start, FB0, F0, hist>>

(* returned quality: q/s for modularity and potts, q itself for the negative_* objectives *)
RetDen == IF Signed THEN F0 ELSE F0 * Total(N, W0)
Emit ==
  /\ Gen /\ pc = "done"
  /\ PrintT("G|" \o ToJson([W |-> W0, start |-> start, script |-> hist, ci |-> ci,
                            qnum |-> q[1], qden |-> RetDen, gn |-> GN, gd |-> GD,
                            objective |-> Objective]))
  /\ pc' = "emitted"
  /\ UNCHANGED <<W0, start, FB0, F0, FB, nl, ci, first, m, hnm, order, pos, flag, q0, q, hist>>

Next == \/ (pc = "sweep" /\ \E p \in Perms(nl) : BeginSweep(p))   \* guard first: Perms is costly
        \/ \E mb \in 1..nl : VisitTo(mb)
        \/ EndSweep \/ Aggregate \/ Emit
Spec == Init /\ [][Next]_vars

(* ------------------------------- invariants ------------------------------------ *)
(* partition of the original nodes represented by the current state *)
Orig == IF first THEN m ELSE [i \in 1..N |-> m[ci[i]]]
(* objective value of a partition of the original nodes, scaled by F *)
Obj(lab) == SameSum(N, FB0, lab)
BookkeepingInv == pc \in {"visit", "endsweep", "sweep", "aggregate"} => hnm = HnmOf(nl, FB, m)
AggregationInv == pc # "emitted" => SameSum(nl, FB, m) = Obj(Orig)
MoveRaisesObj == [][pc = "visit" /\ m' # m =>
                      /\ Obj(IF first THEN m' ELSE [i \in 1..N |-> m'[ci[i]]]) > Obj(Orig)
                      /\ Obj(IF first THEN m' ELSE [i \in 1..N |-> m'[ci[i]]]) - Obj(Orig)
                           = 2 * Gain(order[pos], m'[order[pos]])]_vars
(* the objective of the modularity options IS the L0 modularity (up to the scale)       *)
ObjIsModularity ==
  pc = "done" =>
    /\ Labels1toK(N, ci)
    /\ q[1] = Obj(ci)
    /\ Obj(ci) >= Obj(start)
    /\ Objective = "modularity" => q[1] * QDen(N, W0, GD) = QNum(N, W0, ci, GN, GD) * RetDen
    /\ Objective = "negative_sym" =>
         LET g == SignedNum(N, W0, ci, GN, GD, "gja")  h == SignedNum(N, W0, start, GN, GD, "gja")
         IN (g >= h) <=> (Obj(ci) >= Obj(start))
=============================================================================
