SPECIFICATION Spec
CONSTANT N = 4
CONSTANT Finetune = FALSE
CONSTANT QType = "pos"
CONSTANT GN = 1
CONSTANT GD = 1
CONSTANT Vals <- VS2
CONSTANT Gen = TRUE
CHECK_DEADLOCK FALSE
