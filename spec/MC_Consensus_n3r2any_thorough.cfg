SPECIFICATION Spec
CONSTANT N = 3
CONSTANT Reps = 2
CONSTANT AnyLabels = TRUE
INVARIANT TypeInv
INVARIANT ThresholdInv
INVARIANT DeadBranchInv
INVARIANT UniqueInv
INVARIANT ContinueInv
INVARIANT StopInv
CHECK_DEADLOCK FALSE
