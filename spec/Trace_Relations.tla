---------------------------- MODULE Trace_Relations ----------------------------
(* C10 / C14 code -> spec.  Every record holds BOTH evaluations of one pair by the *)
(* real code:                                                                     *)
(*  prop "C10":  Call(fw, A) -> out1 | raised1 ;  Call(fb, A or Bin(A)) -> out2    *)
(*  prop "C14", rel "relabel": Call(f, W, cs1) -> out1, pout1 ; Call(f, W, cs2)    *)
(*              where every cs2[k] is claimed to be a renaming of cs1[k]           *)
(*  prop "C14", rel "pdist":   partition_distance(cx, cy) and (cy, cx)             *)
(*  prop "C14", rel "ci2ls":   ci2ls / ls2ci round trips                           *)
(* The step relation is "the two outcomes are related as the property says",      *)
(* spelled as an ordered list of named clauses; inputs are re-checked by the spec  *)
(* (domain of the pair, second input = binarisation, cs2 = renaming of cs1).       *)
EXTENDS Relations, TraceBase

(* ================================ C10 ======================================== *)
Judge10(r) ==
  LET ps == PairNamed(r.fw, r.fb, r.dom)
      p  == CHOOSE q \in ps : TRUE
  IN
  Skip("unknown_pair",            ps = {},
  Skip("kind_mismatch",           r.kind # p.kind,
  Skip("outside_domain",          ~InDom(r.dom, r.n, r.A, r.scale),
  Skip("second_input_not_binarisation", ~SecondInputOK(r.dom, r.n, r.A, r.B),
  (* assortativity is 0/0 when the degrees at all edge ends are equal: no value   *)
  Skip("degree_variance_zero",    p.fam = "assort" /\ DegreeVarianceZero(r.n, r.A),
  (* neither member returns anything: nothing to compare (not this property)      *)
  Skip("both_raise",              r.raised1 # "" /\ r.raised1 = r.raised2,
  (* "every weighted routine returns what its binary counterpart returns" (and    *)
  (* the two other sentences): both return ...                                    *)
  Chk("Returns",                  r.raised1 = "" /\ r.raised2 = "",
  (* ... the same: E-int exact, E-q6 +-2, nan/inf patterns equal                  *)
  (* (records of the scale-regime family carry the high parts of wide reals in    *)
  (* hi1 / hi2; without them this is PairAgrees(p.kind, r.out1, r.out2))           *)
  Chk("PairAgrees",               r.shape1 = r.shape2 /\
                                  (IF "hi1" \in DOMAIN r
                                   THEN PairAgreesWide(p.kind, r.out1, r.hi1, r.out2, r.hi2)
                                   ELSE PairAgrees(p.kind, r.out1, r.out2)),
  "ok"))))))))
Class10(r) ==
  LET ps == PairNamed(r.fw, r.fb, r.dom) IN
  IF ps = {} \/ ~InDom(r.dom, r.n, r.A, r.scale) THEN "any"
  ELSE PairClass((CHOOSE q \in ps : TRUE).fam, r.n, r.A)

(* ================================ C14 ======================================== *)
IntFns == {"agreement", "agreement[buffsz=2]"}
RealFns == {"participation_coef", "participation_coef[in]", "participation_coef[out]",
            "participation_coef_sign", "diversity_coef_sign",
            "module_degree_zscore[0]", "module_degree_zscore[1]",
            "module_degree_zscore[2]", "module_degree_zscore[3]",
            "gateway_coef_sign[degree]", "gateway_coef_sign[betweenness]",
            "modularity_und[kci]", "modularity_dir[kci]",
            "modularity_und_sign[sta]", "modularity_und_sign[pos]", "modularity_und_sign[smp]",
            "modularity_und_sign[gja]", "modularity_und_sign[neg]",
            "partition_distance"}
KindOf(fn) == IF fn \in IntFns THEN "int" ELSE "real"

(* "Every function that takes a community affiliation vector (...) gives the same *)
(*  result for any renaming of the labels"                                        *)
JudgeRelabel(r) ==
  Skip("unknown_function",  r.fn \notin (IntFns \cup RealFns),
  Skip("not_a_relabelling", ~AreRelabellings(r.cs1, r.cs2),
  Skip("both_raise",        r.raised1 # "" /\ r.raised1 = r.raised2,
  Chk("RelabelInvariant",   /\ r.raised1 = "" /\ r.raised2 = ""
                            /\ RelabelInvariant(KindOf(r.fn), r.out1, r.out2, r.pout1, r.pout2),
  "ok"))))
Flat(n, M) == [k \in 1..(n * n) |-> M[((k - 1) \div n) + 1][((k - 1) % n) + 1]]
DriftRelabel(r) ==
  IF r.fn \in IntFns /\ r.raised1 = "" /\ AreRelabellings(r.cs1, r.cs2)
  THEN (IF r.out1 = Flat(r.n, AgreementOf(r.n, r.cs1)) THEN "same" ELSE "differs:agreement_count")
  ELSE "na"

(* partition_distance(cx, cy) = (vxy, mxy) and partition_distance(cy, cx)          *)
JudgePD(r) ==
  Skip("fewer_than_two_nodes", r.n < 2 \/ Len(r.cx) # r.n \/ Len(r.cy) # r.n,
  Chk("Returns",       r.raised = "",
  Chk("PDSymmetric",   PDSymmetric(r.vxy, r.mxy, r.vyx, r.myx),
  Chk("VInIn01",       VInIn01(r.vxy) /\ VInIn01(r.vyx),
  Chk("VIZeroIffSame", VIZeroIffSame(r.cx, r.cy, r.vxy),
  Chk("MIOneIffSame",  MIOneIffSame(r.cx, r.cy, r.mxy),
  "ok"))))))

(* ci -> ci2ls -> ls2ci ; ls -> ls2ci -> ci2ls ; ci2ls of a renamed ci             *)
JudgeLs(r) ==
  Skip("not_a_module_list", ~IsModuleList(r.n, r.lsin) \/ Len(r.ci) # r.n,
  Skip("not_a_relabelling", ~SamePartition(r.ci, r.ci2),
  Chk("Returns",            r.raised = "",
  Chk("Ci2lsLs2ciInverseUpToRenaming",
        /\ Ci2lsLs2ciInverseUpToRenaming(r.n, r.ci, r.ls, r.back, r.lsin, r.ciofls, r.lsback)
        /\ Ci2lsLs2ciInverseUpToRenaming(r.n, r.ci, r.ls, r.back0, r.lsin, r.ciofls0, r.lsback),
  Chk("RelabelInvariant",   ModulesOf(r.ls2) = ModulesOf(r.ls),
  "ok")))))

Judge14(r) ==
  CASE r.rel = "relabel" -> <<JudgeRelabel(r), DriftRelabel(r),
                              IF AreRelabellings(r.cs1, r.cs2) THEN PartitionClass(r.cs1) ELSE "any">>
    [] r.rel = "pdist"   -> <<JudgePD(r), "na",
                              IF Len(r.cx) = Len(r.cy) THEN PDClass(r.cx, r.cy) ELSE "any">>
    [] r.rel = "ci2ls"   -> <<JudgeLs(r), "na", PartitionClass(<<r.ci>>)>>
    [] OTHER -> <<"skip:unknown_relation", "na", "any">>

Judge(r) ==
  IF "timeout" \in DOMAIN r THEN <<"skip:timeout", "na", "any">>
  ELSE IF r.prop = "C10" THEN <<Judge10(r), "na", Class10(r)>>
  ELSE IF r.prop = "C14" THEN Judge14(r)
  ELSE <<"skip:unknown_property", "na", "any">>

VARIABLES tid, verdict
TInit == tid \in 1..Len(Recs) /\ verdict = <<>>
TNext == /\ verdict = <<>>
         /\ verdict' = Judge(Recs[tid])
         /\ PrintT(VLine(tid, verdict'))
         /\ UNCHANGED tid
TSpec == TInit /\ [][TNext]_<<tid, verdict>>
=============================================================================
