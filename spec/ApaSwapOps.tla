--------------------------- MODULE ApaSwapOps -------------------------------
(* The four swap operators of Rewire.tla (L1) written without higher-order     *)
(* helpers so that Apalache can type them.  MC_ApaSwapBind (TLC) proves them   *)
(* equal to Rewire!SwapDir / SwapUnd / SwapSignedDir / SwapSignedUnd and the   *)
(* enabling conditions equal to CanSwap* on all small inputs, so what Apalache *)
(* proves about these operators is a statement about the operators every       *)
(* Trace_Rewire / RewireImpl / SignedImpl check uses.                           *)
EXTENDS Integers, FiniteSets

N == 5
Nodes == 1..N
Cells == Nodes \X Nodes

\* @type: Int => Int;
ASgn(x) == IF x > 0 THEN 1 ELSE IF x < 0 THEN -1 ELSE 0

\* @type: (Int, Int, Int, Int) => Bool;
ADistinct4(a, b, c, d) == a # c /\ a # d /\ b # c /\ b # d /\ a # b /\ c # d

\* @type: (Int -> (Int -> Int), Int, Int, Int, Int) => Bool;
ACanDir(M, a, b, c, d) ==
  ADistinct4(a, b, c, d) /\ M[a][b] # 0 /\ M[c][d] # 0 /\ M[a][d] = 0 /\ M[c][b] = 0
\* @type: (Int -> (Int -> Int), Int, Int, Int, Int) => (Int -> (Int -> Int));
ASwapDir(M, a, b, c, d) ==
  [i \in Nodes |-> [j \in Nodes |->
      IF i = a /\ j = d THEN M[a][b]
      ELSE IF i = c /\ j = b THEN M[c][d]
      ELSE IF (i = a /\ j = b) \/ (i = c /\ j = d) THEN 0
      ELSE M[i][j]]]
\* @type: (Int -> (Int -> Int), Int, Int, Int, Int) => Bool;
ACanUnd(M, a, b, c, d) ==
  ACanDir(M, a, b, c, d) /\ M[b][a] # 0 /\ M[d][c] # 0 /\ M[d][a] = 0 /\ M[b][c] = 0
\* @type: (Int -> (Int -> Int), Int, Int, Int, Int) => (Int -> (Int -> Int));
ASwapUnd(M, a, b, c, d) ==
  [i \in Nodes |-> [j \in Nodes |->
      IF i = a /\ j = d THEN M[a][b]
      ELSE IF i = d /\ j = a THEN M[b][a]
      ELSE IF i = c /\ j = b THEN M[c][d]
      ELSE IF i = b /\ j = c THEN M[d][c]
      ELSE IF (i = a /\ j = b) \/ (i = b /\ j = a) \/ (i = c /\ j = d) \/ (i = d /\ j = c) THEN 0
      ELSE M[i][j]]]
\* @type: (Int -> (Int -> Int), Int, Int, Int, Int) => Bool;
ACanSigned(M, a, b, c, d) ==
  /\ ADistinct4(a, b, c, d)
  /\ ASgn(M[a][b]) = ASgn(M[c][d]) /\ ASgn(M[a][d]) = ASgn(M[c][b])
  /\ ASgn(M[a][b]) # ASgn(M[a][d])
\* @type: (Int -> (Int -> Int), Int, Int, Int, Int) => (Int -> (Int -> Int));
ASwapSignedDir(M, a, b, c, d) ==
  [i \in Nodes |-> [j \in Nodes |->
      IF i = a /\ j = d THEN M[a][b]
      ELSE IF i = a /\ j = b THEN M[a][d]
      ELSE IF i = c /\ j = b THEN M[c][d]
      ELSE IF i = c /\ j = d THEN M[c][b]
      ELSE M[i][j]]]
\* @type: (Int -> (Int -> Int), Int, Int, Int, Int) => (Int -> (Int -> Int));
ASwapSignedUnd(M, a, b, c, d) ==
  [i \in Nodes |-> [j \in Nodes |->
      IF (i = a /\ j = d) \/ (i = d /\ j = a) THEN M[a][b]
      ELSE IF (i = a /\ j = b) \/ (i = b /\ j = a) THEN M[a][d]
      ELSE IF (i = c /\ j = b) \/ (i = b /\ j = c) THEN M[c][d]
      ELSE IF (i = c /\ j = d) \/ (i = d /\ j = c) THEN M[c][b]
      ELSE M[i][j]]]

(* where the content of cell x goes: the cell permutation a swap performs      *)
\* @type: (<<Int, Int>>, Int, Int, Int, Int) => <<Int, Int>>;
PiDir(x, a, b, c, d) ==
  IF x = <<a, b>> THEN <<a, d>> ELSE IF x = <<a, d>> THEN <<a, b>>
  ELSE IF x = <<c, d>> THEN <<c, b>> ELSE IF x = <<c, b>> THEN <<c, d>> ELSE x
\* @type: (<<Int, Int>>, Int, Int, Int, Int) => <<Int, Int>>;
PiUnd(x, a, b, c, d) ==
  IF x = <<a, b>> THEN <<a, d>> ELSE IF x = <<a, d>> THEN <<a, b>>
  ELSE IF x = <<b, a>> THEN <<d, a>> ELSE IF x = <<d, a>> THEN <<b, a>>
  ELSE IF x = <<c, d>> THEN <<c, b>> ELSE IF x = <<c, b>> THEN <<c, d>>
  ELSE IF x = <<d, c>> THEN <<b, c>> ELSE IF x = <<b, c>> THEN <<d, c>> ELSE x
=============================================================================
