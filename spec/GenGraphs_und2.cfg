SPECIFICATION Spec
CONSTANT N = 2
CONSTANT Kind = "und"
CHECK_DEADLOCK FALSE
