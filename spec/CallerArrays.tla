-------------------------------- MODULE CallerArrays --------------------------------
(* C13.  "After any public function returns or raises, every array passed to it is  *)
(* element-for-element identical to what it was before the call, including diagonal *)
(* entries, dtype and shape.  The only exception is the explicit copy=False option   *)
(* of the thresholding and weight-conversion utilities, which then operate on the    *)
(* caller's array."                                                                  *)
(*                                                                                   *)
(* L1: an abstract heap of the caller's arrays.                                      *)
(*   buffers   b |-> [fp, dtype, shape]   fp = fingerprint of the bytes (the harness *)
(*             observes SHA-1 of the bytes; the model uses a version counter)        *)
(*   objects   o |-> the buffer it views   (two objects on one buffer = aliases)     *)
(* and calls  Call(class, copy, arg) -> Return(result) | Raise  of three abstract     *)
(* function classes                                                                  *)
(*   "pure"    every measure, generator, rewiring routine ...: reads its arguments,   *)
(*             returns freshly allocated results                                      *)
(*   "util"    the thresholding / weight-conversion utilities with their copy flag:   *)
(*             copy=TRUE works on a private copy and returns it; copy=FALSE writes    *)
(*             into the argument's buffer and returns THE ARGUMENT                    *)
(*   "alias"   a step that hands back a second name for the same buffer without      *)
(*             writing (a view taken by the caller, a routine returning its input)   *)
(* The property statements are predicates over ONE call (the `last` record), used    *)
(* both as invariants of the model (MC_CallerArrays) and, through the same operator   *)
(* definitions, as the clauses that judge recorded real calls (Trace_CallerArrays).   *)

EXTENDS Integers, Sequences, FiniteSets, TLC

(* the utilities that have the documented copy option (bct/utils/other.py)            *)
InPlaceUtils == {"threshold_absolute", "threshold_proportional", "weight_conversion",
                 "binarize", "normalize", "invert", "logtransform", "autofix"}

(* ---- what one observed / modelled call looks like ---------------------------------- *)
(* c.base    function name (or abstract class in the model)                             *)
(* c.util    TRUE iff the function is one of InPlaceUtils                               *)
(* c.copy    "true" | "false" | "na" (no copy argument given: the default, copy=True)   *)
(* c.raised  TRUE iff the call raised                                                   *)
(* c.args    sequence of [fp0, dt0, sh0, fp1, dt1, sh1] : every array passed, before    *)
(*           and after; args[1] is the first positional argument                        *)
(* c.resis   index of the argument that the result IS (same object), 0 if none          *)
Exempt(c, k) == c.util /\ c.copy = "false" /\ k = 1
(* "every array passed to it is element-for-element identical ... after it returns"     *)
ArgsUnchanged(c) ==
  ~c.raised => \A k \in 1..Len(c.args) : Exempt(c, k) \/ c.args[k].fp1 = c.args[k].fp0
(* "... or raises"                                                                      *)
UnchangedOnRaise(c) ==
  c.raised => \A k \in 1..Len(c.args) : Exempt(c, k) \/ c.args[k].fp1 = c.args[k].fp0
(* "including ... dtype and shape" (an in-place write cannot change them either)        *)
DtypeShapeUnchanged(c) ==
  \A k \in 1..Len(c.args) : c.args[k].dt1 = c.args[k].dt0 /\ c.args[k].sh1 = c.args[k].sh0
(* "the explicit copy=False option ..., which then operate on the caller's array":      *)
(* the returned matrix IS the argument                                                  *)
CopyFalseOperatesInPlace(c) ==
  (c.util /\ c.copy = "false" /\ ~c.raised) => c.resis = 1
=============================================================================
