-------------------------------- MODULE Rewire --------------------------------
(* C01 / C11 / C06.  Degree-preserving rewiring.                                *)
(*                                                                              *)
(* L1 (abstract): what a legal swap is  (AbsSwapDir / AbsSwapUnd / signed).     *)
(* L2 (implementation-shaped, operator form): the state the Python loops of     *)
(* bct/algorithms/reference.py keep - matrix R, edge list (ei, ej), counter eff *)
(* - and one operator per loop-body step: edge-list construction in np.where    *)
(* order, 50% flip, rewiring / lattice / mask conditions, the two connectivity  *)
(* probes (frontier expansion P/PN), matrix cell writes and edge-list rewrites. *)
(* RewireImpl.tla turns these operators into a machine; Trace_Rewire.tla        *)
(* replays hook events of real executions through the same operators.           *)
(*                                                                              *)
(* Variants v = [dir, conn, latt, mask : BOOLEAN]:                              *)
(*   randmio_und  [F,F,F,F]   randmio_und_connected [F,T,F,F]                   *)
(*   randmio_dir  [T,F,F,F]   randmio_dir_connected [T,T,F,F]                   *)
(*   latmio_*     latt = T    randomize_graph_partial_und  mask = T             *)
EXTENDS BctGraph, SequencesExt

Distinct4(a, b, c, d) == a # c /\ a # d /\ b # c /\ b # d /\ a # b /\ c # d

(* ------------------------------- L1 ----------------------------------------- *)
(* (a,b),(c,d) -> (a,d),(c,b): weights travel with their source node            *)
CanSwapDir(R, a, b, c, d) ==
  /\ Distinct4(a, b, c, d) /\ R[a][b] # 0 /\ R[c][d] # 0 /\ R[a][d] = 0 /\ R[c][b] = 0
SwapDir(n, R, a, b, c, d) ==
  Mat(n, LAMBDA i, j :
        IF i = a /\ j = d THEN R[a][b]
        ELSE IF i = c /\ j = b THEN R[c][d]
        ELSE IF (i = a /\ j = b) \/ (i = c /\ j = d) THEN 0
        ELSE R[i][j])
CanSwapUnd(R, a, b, c, d) ==
  /\ CanSwapDir(R, a, b, c, d) /\ R[b][a] # 0 /\ R[d][c] # 0 /\ R[d][a] = 0 /\ R[b][c] = 0
SwapUnd(n, R, a, b, c, d) ==
  Mat(n, LAMBDA i, j :
        IF i = a /\ j = d THEN R[a][b]
        ELSE IF i = d /\ j = a THEN R[b][a]
        ELSE IF i = c /\ j = b THEN R[c][d]
        ELSE IF i = b /\ j = c THEN R[d][c]
        ELSE IF {i, j} = {a, b} \/ {i, j} = {c, d} THEN 0
        ELSE R[i][j])

(* signed swap: the four cells exchange values (C06)                             *)
CanSwapSigned(R, a, b, c, d) ==
  /\ Distinct4(a, b, c, d)
  /\ Sgn(R[a][b]) = Sgn(R[c][d]) /\ Sgn(R[a][d]) = Sgn(R[c][b])
  /\ Sgn(R[a][b]) # Sgn(R[a][d])
SwapSignedDir(n, R, a, b, c, d) ==
  Mat(n, LAMBDA i, j :
        IF i = a /\ j = d THEN R[a][b]
        ELSE IF i = a /\ j = b THEN R[a][d]
        ELSE IF i = c /\ j = b THEN R[c][d]
        ELSE IF i = c /\ j = d THEN R[c][b]
        ELSE R[i][j])
SwapSignedUnd(n, R, a, b, c, d) ==
  Mat(n, LAMBDA i, j :
        IF {i, j} = {a, d} THEN R[a][b]
        ELSE IF {i, j} = {a, b} THEN R[a][d]
        ELSE IF {i, j} = {c, b} THEN R[c][d]
        ELSE IF {i, j} = {c, d} THEN R[c][b]
        ELSE R[i][j])

(* ---- what the property talks about ---------------------------------------- *)
InDegs(n, R)  == [v \in 1..n |-> InDeg(n, R, v)]
OutDegs(n, R) == [v \in 1..n |-> OutDeg(n, R, v)]
OutStrs(n, R) == [v \in 1..n |-> OutStr(n, R, v)]
SameDegrees(n, R1, R2) == InDegs(n, R1) = InDegs(n, R2) /\ OutDegs(n, R1) = OutDegs(n, R2)
SameBag(n, R1, R2) == NonzeroBag(n, R1) = NonzeroBag(n, R2)
NoNewDiag(n, R1, R2) == \A v \in 1..n : R1[v][v] = 0 => R2[v][v] = 0
SignedDeg(n, R, s, v, out) ==
  IF out THEN Cardinality({j \in 1..n : Sgn(R[v][j]) = s})
  ELSE Cardinality({i \in 1..n : Sgn(R[i][v]) = s})
SameSignedDegrees(n, R1, R2) ==
  \A v \in 1..n : \A s \in {-1, 1} : \A o \in BOOLEAN :
     SignedDeg(n, R1, s, v, o) = SignedDeg(n, R2, s, v, o)
SignBag(n, R, s) == BagOfCells(R, {c \in Support(n, R) : Sgn(R[c[1]][c[2]]) = s})
LatticeCost(n, D, R) == Sum((1..n) \X (1..n), LAMBDA c : D[c[1]][c[2]] * R[c[1]][c[2]])

(* ------------------------------- L2 ----------------------------------------- *)
(* edge list in np.where order (row-major):                                     *)
(*   directed: np.where(R)            undirected: np.where(np.tril(R))          *)
(*   partial:  np.where(np.triu(A,1))                                           *)
CellSeq(n) == [c \in 1..(n * n) |-> <<((c - 1) \div n) + 1, ((c - 1) % n) + 1>>]
EdgeList(n, R, v) ==
  SelectSeq(CellSeq(n), LAMBDA c :
     /\ R[c[1]][c[2]] # 0
     /\ IF v.dir THEN TRUE ELSE IF v.mask THEN c[1] < c[2] ELSE c[1] >= c[2])
InitState(n, R, v) ==
  LET el == EdgeList(n, R, v) IN
  [R |-> R, ei |-> [e \in 1..Len(el) |-> el[e][1]], ej |-> [e \in 1..Len(el) |-> el[e][2]],
   eff |-> 0]

(* np.round(x) for x = p/q >= 0 : round half to even                             *)
RoundHalfEven(p, q) ==
  LET f == p \div q  r2 == 2 * (p % q) IN
  IF r2 < q THEN f ELSE IF r2 > q THEN f + 1 ELSE IF f % 2 = 0 THEN f ELSE f + 1
(* max_attempts = np.round(n*k/(n*(n-1)))  ; latmio_und*: np.round(n*k/(n*(n-1)/2)) *)
MaxAttempts(n, k, v) ==
  IF v.latt /\ ~v.dir THEN RoundHalfEven(2 * k, n - 1) ELSE RoundHalfEven(k, n - 1)

(* default distance-to-diagonal matrix of the latticisers                        *)
DefaultD(n) == Mat(n, LAMBDA i, j : LET x == Abs(i - j) IN IF x < n - x THEN x ELSE n - x)

(* ---- connectivity probes (frontier expansion with early exits) -------------- *)
NbrsOf(n, R, S) == {j \in 1..n : \E i \in S : R[i][j] # 0}

RECURSIVE ProbeUndLoop(_, _, _, _, _, _, _, _)
ProbeUndLoop(n, R, b, c, F0, F1, V0, V1) ==
  LET G0 == NbrsOf(n, R, F0) \ V0
      G1 == NbrsOf(n, R, F1) \ V1
  IN IF G0 = {} \/ G1 = {} THEN FALSE
     ELSE IF b \in G0 \cup G1 \/ c \in G0 \cup G1 THEN TRUE
     ELSE ProbeUndLoop(n, R, b, c, G0, G1, V0 \cup G0, V1 \cup G1)
ProbeUnd(n, R, a, b, c, d) ==
  IF R[a][c] # 0 \/ R[b][d] # 0 THEN TRUE
  ELSE LET F0 == {j \in 1..n : R[a][j] # 0} \ {b}
           F1 == {j \in 1..n : R[d][j] # 0} \ {c}
       IN ProbeUndLoop(n, R, b, c, F0, F1, F0 \cup {a, d}, F1 \cup {a, d})

RECURSIVE ProbeDirLoop(_, _, _, _, _, _, _, _, _, _)
ProbeDirLoop(n, R, a, b, c, d, F0, F1, V0, V1) ==
  LET G0 == NbrsOf(n, R, F0) \ V0
      G1 == NbrsOf(n, R, F1) \ V1
      W0 == V0 \cup G0
      W1 == V1 \cup G1
  IN IF G0 = {} \/ G1 = {} THEN FALSE
     ELSE IF (b \in W0 \/ c \in W0) /\ (d \in W1 \/ a \in W1) THEN TRUE
     ELSE ProbeDirLoop(n, R, a, b, c, d, G0, G1, W0, W1)
ProbeDir(n, R, a, b, c, d) ==
  IF (R[a][c] # 0 \/ R[d][b] # 0 \/ R[d][c] # 0) /\ (R[c][a] # 0 \/ R[b][d] # 0 \/ R[b][a] # 0)
  THEN TRUE
  ELSE LET F0 == ({j \in 1..n : R[a][j] # 0} \ {b}) \cup {d}
           F1 == ({j \in 1..n : R[c][j] # 0} \ {d}) \cup {b}
       IN ProbeDirLoop(n, R, a, b, c, d, F0, F1, F0 \cup {a}, F1 \cup {c})

(* ---- one attempt (after a valid pick e1, e2) -------------------------------- *)
(* 50% flip of edge c-d in the edge list (undirected routines)                   *)
Flip(st, e2) == [st EXCEPT !.ei[e2] = st.ej[e2], !.ej[e2] = st.ei[e2]]

Endpoints(st, e1, e2) == <<st.ei[e1], st.ej[e1], st.ei[e2], st.ej[e2]>>
ValidPick(st, e1, e2) ==
  LET q == Endpoints(st, e1, e2) IN e1 # e2 /\ q[1] # q[3] /\ q[1] # q[4] /\ q[2] # q[3] /\ q[2] # q[4]

RewireCond(R, a, b, c, d)   == R[a][d] = 0 /\ R[c][b] = 0
MaskCond(B, a, b, c, d)     == B[a][d] = 0 /\ B[c][b] = 0
LatticeCond(D, R, a, b, c, d) ==
  D[a][b] * R[a][b] + D[c][d] * R[c][d] >= D[a][d] * R[a][b] + D[c][b] * R[c][d]
ConnCond(n, R, v, a, b, c, d) ==
  IF v.dir THEN ProbeDir(n, R, a, b, c, d) ELSE ProbeUnd(n, R, a, b, c, d)

Accepts(n, st, v, D, B, e1, e2) ==
  LET q == Endpoints(st, e1, e2)  a == q[1]  b == q[2]  c == q[3]  d == q[4] IN
  /\ RewireCond(st.R, a, b, c, d)
  /\ v.mask => MaskCond(B, a, b, c, d)
  /\ v.latt => LatticeCond(D, st.R, a, b, c, d)
  /\ v.conn => ConnCond(n, st.R, v, a, b, c, d)

(* matrix cell writes + edge-list rewrite j[e1] = d ; j[e2] = b                  *)
ApplySwap(n, st, v, e1, e2) ==
  LET q == Endpoints(st, e1, e2)  a == q[1]  b == q[2]  c == q[3]  d == q[4] IN
  [R   |-> IF v.dir THEN SwapDir(n, st.R, a, b, c, d) ELSE SwapUnd(n, st.R, a, b, c, d),
   ei  |-> st.ei,
   ej  |-> [st.ej EXCEPT ![e1] = d, ![e2] = b],
   eff |-> st.eff + 1]

(* ---- invariants of the L2 state --------------------------------------------- *)
(* directed: (ei[e], ej[e]) enumerates the support exactly.                       *)
(* undirected: the K entries name K distinct present edges as unordered pairs     *)
(* (orientation legitimately changes with flips) and every edge is named.         *)
SyncInv(n, st, v) ==
  LET K == Len(st.ei) IN
  IF v.dir
  THEN /\ {<<st.ei[e], st.ej[e]>> : e \in 1..K} = Support(n, st.R)
       /\ Cardinality(Support(n, st.R)) = K
  ELSE /\ \A e \in 1..K : st.R[st.ei[e]][st.ej[e]] # 0 /\ st.ei[e] # st.ej[e]
       /\ \A e, f \in 1..K : e # f => {st.ei[e], st.ej[e]} # {st.ei[f], st.ej[f]}
       /\ 2 * K = Cardinality({c \in Support(n, st.R) : c[1] # c[2]})

(* ---- latticisers: permute, rewire, un-permute -------------------------------- *)
(* R[np.ix_(p, p)]                                                               *)
Reindex(n, R, p) == Mat(n, LAMBDA i, j : R[p[i]][p[j]])
InvPerm(n, p) == [x \in 1..n |-> CHOOSE y \in 1..n : p[y] = x]
IsPerm(n, p) == DOMAIN p = 1..n /\ {p[x] : x \in 1..n} = 1..n
=============================================================================
