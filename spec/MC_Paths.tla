------------------------------- MODULE MC_Paths -------------------------------
(* X04 mc, part 2: the L0 definitions of Paths.tla for BFS trees, reachability /      *)
(* distance with cycle lengths on the diagonal, shortest-path probabilities, search    *)
(* information and matching indices, cross-checked on EVERY small graph against an     *)
(* independent formulation or against the loop replicas of Distance.tla:               *)
(*   bfs    breadth's loop (Distance!BrStep) from every source ends with a distance    *)
(*          vector and a branch vector that satisfy BfsDistOK / BfsBranchOK; hop rows   *)
(*          = the least-fixpoint distances                                              *)
(*   reach  DPlusOf / RPlusOf (diagonal = shortest cycle) = what the loops of            *)
(*          breadthdist AND reachdist produce, whole matrices                           *)
(*   prob   shortest-path probability: sum over enumerated shortest paths = entry of    *)
(*          the d-th power of the transition matrix = sum of the plain search-           *)
(*          information path probabilities; probabilities within (0, 1]; the            *)
(*          renormalised memory walk is never less likely than the plain one            *)
(*   match  matching index symmetric, within [0, 1]                                      *)
(* Inputs: Kind "dir" (every digraph) or "und" (every graph) on NN nodes, self-loops     *)
(* allowed on LoopNodes (bfs / reach only).                                              *)
EXTENDS Paths
CONSTANTS NN, Kind, LoopNodes, Checks
VARIABLES g, pc

DPairs == {p \in (1..NN) \X (1..NN) : p[1] # p[2]}
UPairs == {p \in (1..NN) \X (1..NN) : p[1] < p[2]}
Loops == {<<v, v>> : v \in LoopNodes}
Inputs ==
  IF Kind = "dir"
  THEN {EMat(NN, LAMBDA i, j : IF <<i, j>> \in E THEN 1 ELSE 0) : E \in SUBSET (DPairs \cup Loops)}
  ELSE {EMat(NN, LAMBDA i, j : IF <<i, j>> \in E \/ <<j, i>> \in E THEN 1 ELSE 0) : E \in SUBSET (UPairs \cup Loops)}
Init == g \in Inputs /\ pc = "init"
Next == pc = "init" /\ pc' = "chk" /\ UNCHANGED g
Spec == Init /\ [][Next]_<<g, pc>>

On(c) == pc = "chk" /\ c \in Checks

(* breadth(CIJ, s): the loop of Distance!BrStep until the queue of source s is empty     *)
RECURSIVE BrOne(_, _, _)
BrOne(n, A, st) == IF st.Q = <<>> THEN st ELSE BrOne(n, A, BrStep(n, A, st))
RawBranch(n, b) == [v \in 1..n |-> IF b[v] <= 0 THEN b[v] ELSE b[v] - 1]   \* python values
(* (Distance!BrSeeNeighbour re-reads distance[u] after the source's own slot was written - the *)
(* code before its self-loop repair; the replica is used on inputs without self-loops only)     *)
BfsInv ==
  (On("bfs") /\ DiagZero(NN, g)) =>
    LET H == Dist(NN, LenOfAdj(NN, Bin(NN, g))) IN
    \A s \in 1..NN :
       LET f == BrOne(NN, g, BrStart(NN, s, Zero(NN))) IN
       /\ HopRowOf(NN, g, s) = H[s]
       /\ BfsDistOK(NN, g, s, f.dist)
       /\ BfsBranchOK(NN, g, s, RawBranch(NN, f.branch))
       (* the toolbox does put the cycle length into the source's own slot               *)
       /\ f.dist[s] = (IF CycThrough(NN, g, s) < INF THEN CycThrough(NN, g, s) ELSE 0)
       (* and the shortest cycle is what Distance!Cyc says                               *)
       /\ CycThrough(NN, g, s) = Cyc(NN, LenOfAdj(NN, Bin(NN, g)), H, s)
ReachInv ==
  On("reach") =>
    LET DP == DPlusOf(NN, g)  rd == ReachdistAll(NN, g) IN
    /\ DiagZero(NN, g) => BreadthAll(NN, g) = DP
    /\ rd[2] = DP /\ rd[1] = RPlusOf(NN, DP)
    /\ \A i \in 1..NN : DP[i][i] = CycThrough(NN, g, i)
ProbInv ==
  On("prob") =>
    LET Lm == LenOfAdj(NN, g)
        MP == MinPathTab(NN, Lm)
        M == DegLcm(NN, g)
        H == HopDistFast(NN, Lm)
        str == StrVec(NN, g)
    IN \A p \in OffPairs(NN) :
         LET s == p[1]  t == p[2]  f == ProbSplFrac(NN, g, MP, M, s, t) IN
         /\ f = ProbSplByPower(NN, g, M, H, s, t)
         /\ (H[s][t] < INF) <=> (f[1] > 0)
         /\ f[1] <= f[2]
         (* = sum over the shortest paths of the plain path probability (the fractions    *)
         (* of search_information), brought to the denominator M^d                        *)
         /\ H[s][t] < INF =>
              f[1] = Sum(MP[s][t], LAMBDA q : LET x == ProbPlain(g, str, q) IN (x[1] * f[2]) \div x[2])
         /\ \A q \in MP[s][t] :
              LET x == ProbPlain(g, str, q)  y == ProbMemRenorm(g, str, q) IN
              /\ x[1] >= 1 /\ x[1] <= x[2] /\ f[2] % x[2] = 0
              /\ y[2] >= 1 /\ y[1] <= y[2]                   \* still a probability
              /\ x[1] * y[2] <= y[1] * x[2]                  \* plain <= renormalised
MatchInv ==
  On("match") =>
    \A p \in OffPairs(NN) :
       LET a == MatchFrac(NN, g, p[1], p[2])  b == MatchFrac(NN, g, p[2], p[1]) IN
       a = b /\ a[1] >= 0 /\ a[1] <= a[2]
=============================================================================
