-------------------------------- MODULE RewireImpl --------------------------------
(* L2 machine for the ten rewiring / latticising loops of reference.py           *)
(* (randmio_und/_dir(_connected), latmio_und/_dir(_connected),                    *)
(* randomize_graph_partial_und): one action per step of the loop body.  Every    *)
(* random draw of the code is a nondeterministic action parameter, so TLC walks  *)
(* every sequence of edge-pair picks and flips.                                  *)
(*                                                                              *)
(*   pc = "pick"   --Pick(e1,e2)-->  "repick" | "flip" | "decide" | "pick"        *)
(*   pc = "repick" --Repick(e2)-->   (same targets)   [while e1 == e2]            *)
(*   pc = "flip"   --FlipAct(f)-->   "decide"         [undirected only]           *)
(*   pc = "decide" --Decide-->       "pick" | "done"  [conditions, writes, att]   *)
(*                                                                              *)
(* Latticisers: the node permutation applied before and undone after the loop    *)
(* is checked separately (PermLemma) - rewiring a permuted graph is rewiring an  *)
(* isomorphic graph, and all graphs are enumerated here.                         *)
EXTENDS Rewire, Json

CONSTANTS N,          \* number of nodes
          Dir, Conn, Latt, Mask,   \* variant flags
          Iters,      \* loop iterations (= int(itr*k) of the code; maxswap for Mask);
                      \* latticisers take an integer itr: Iters is that itr, iterations = itr*k
          KCap,       \* only inputs with at most KCap edge-list entries
          AltD,       \* latticisers: FALSE = default distance matrix, TRUE = another D
          BadPicks,   \* also explore the re-pick loops (e1 = e2, shared endpoints)
          Gen         \* gen mode: carry the draw script and print every behaviour

V == [dir |-> Dir, conn |-> Conn, latt |-> Latt, mask |-> Mask]

VARIABLES R0,    \* input matrix (never changes)
          B,     \* mask (Mask variant), else all zero
          st,    \* [R, ei, ej, eff]
          it, att, pc, pk, hist
vars == <<R0, B, st, it, att, pc, pk, hist>>

UPairs == {p \in (1..N) \X (1..N) : p[1] < p[2]}
DPairs == {p \in (1..N) \X (1..N) : p[1] # p[2]}
(* weights by a fixed pattern with two values so that the bag is informative      *)
Wt(i, j) == 1 + ((i + 2 * j) % 2)
UndOf(E) == Mat(N, LAMBDA i, j : IF <<i, j>> \in E THEN Wt(i, j)
                                ELSE IF <<j, i>> \in E THEN Wt(j, i) ELSE 0)
DirOf(E) == Mat(N, LAMBDA i, j : IF <<i, j>> \in E THEN Wt(i, j) ELSE 0)
Inputs == IF Dir THEN {DirOf(E) : E \in SUBSET DPairs} ELSE {UndOf(E) : E \in SUBSET UPairs}
Masks  == IF Mask THEN {Mat(N, LAMBDA i, j : IF <<i, j>> \in E \/ <<j, i>> \in E THEN 1 ELSE 0)
                          : E \in SUBSET UPairs}
          ELSE {Zero(N)}

D == IF ~AltD THEN DefaultD(N)
     ELSE IF Dir THEN Mat(N, LAMBDA i, j : (i * i + 2 * j) % 4)
     ELSE Mat(N, LAMBDA i, j : (i * j + i + j) % 4)

K == Len(st.ei)
TotalIters == IF Latt THEN Iters * K ELSE Iters
MaxAtt == MaxAttempts(N, K, V)
HasPick(s) == \E e1, e2 \in 1..Len(s.ei) : ValidPick(s, e1, e2)
Admissible(R) ==
  /\ HasPick(InitState(N, R, V))
  /\ Len(InitState(N, R, V).ei) <= KCap
  /\ Conn => IF Dir THEN StronglyConnected(N, R) ELSE Connected(N, R)

Init == /\ R0 \in {R \in Inputs : Admissible(R)}
        /\ B \in Masks
        /\ st = InitState(N, R0, V)
        /\ it = 0 /\ att = 0 /\ pk = <<0, 0>> /\ hist = <<>>
        /\ pc = IF TotalIters = 0 THEN "done" ELSE "pick"

Log(x) == hist' = IF Gen THEN Append(hist, x) ELSE hist

AfterPick(e1, e2) ==
  IF e1 = e2 THEN pc' = "repick" /\ pk' = <<e1, e2>>
  ELSE IF ValidPick(st, e1, e2) THEN pk' = <<e1, e2>> /\ pc' = IF Dir THEN "decide" ELSE "flip"
  ELSE pc' = "pick" /\ pk' = <<0, 0>>

Pick(e1, e2) ==
  /\ pc = "pick"
  /\ BadPicks \/ ValidPick(st, e1, e2)
  /\ AfterPick(e1, e2)
  /\ Log(<<"p", e1, e2>>)
  /\ UNCHANGED <<R0, B, st, it, att>>

Repick(e2) ==
  /\ pc = "repick"
  /\ AfterPick(pk[1], e2)
  /\ Log(<<"r", e2>>)
  /\ UNCHANGED <<R0, B, st, it, att>>

FlipAct(f) ==
  /\ pc = "flip"
  /\ st' = IF f = 1 THEN Flip(st, pk[2]) ELSE st
  /\ pc' = "decide"
  /\ Log(<<"f", f>>)
  /\ UNCHANGED <<R0, B, it, att, pk>>

EndIteration == /\ it' = it + 1 /\ att' = 0
                /\ pc' = IF it + 1 >= TotalIters THEN "done" ELSE "pick"

Decide ==
  /\ pc = "decide"
  /\ pk' = <<0, 0>> /\ UNCHANGED <<R0, B, hist>>
  /\ IF Accepts(N, st, V, D, B, pk[1], pk[2])
     THEN /\ st' = ApplySwap(N, st, V, pk[1], pk[2])
          /\ EndIteration      \* Mask variant: `it` counts nswap
     ELSE /\ st' = st
          /\ IF Mask THEN pc' = "pick" /\ UNCHANGED <<it, att>>
             ELSE IF att + 1 > MaxAtt THEN EndIteration
             ELSE att' = att + 1 /\ pc' = "pick" /\ UNCHANGED it

Emit ==
  /\ Gen /\ pc = "done"
  /\ PrintT("G|" \o ToJson([R0 |-> R0, B |-> B, D |-> D, iters |-> Iters, script |-> hist, R |-> st.R, eff |-> st.eff,
                            ei |-> st.ei, ej |-> st.ej]))
  /\ pc' = "emitted"
  /\ UNCHANGED <<R0, B, st, it, att, pk, hist>>

Next == \/ \E e1, e2 \in 1..K : Pick(e1, e2)
        \/ \E e2 \in 1..K : Repick(e2)
        \/ \E f \in {0, 1} : FlipAct(f)
        \/ Decide
        \/ Emit
Spec == Init /\ [][Next]_vars

(* ------------------------------ invariants ---------------------------------- *)
TypeOK == pc \in {"pick", "repick", "flip", "decide", "done", "emitted"}
(* C01 *)
DegInv    == SameDegrees(N, R0, st.R)
BagInv    == SameBag(N, R0, st.R)
DiagInv   == NoNewDiag(N, R0, st.R)
SymInv    == ~Dir => IsSym(N, st.R)
OutStrInv == Dir => OutStrs(N, st.R) = OutStrs(N, R0)
SyncInvM  == SyncInv(N, st, V)
ZeroEffInv == st.eff = 0 => st.R = R0
PickAlwaysPossible == pc = "pick" => HasPick(st)
(* C11 *)
ConnInv == Conn => IF Dir THEN StronglyConnected(N, st.R) ELSE Connected(N, st.R)
MaskInv == Mask => \A i, j \in 1..N : (st.R[i][j] # 0 /\ R0[i][j] = 0) => B[i][j] = 0
(* action properties *)
LatticeStep == [][Latt => LatticeCost(N, D, st'.R) <= LatticeCost(N, D, st.R)]_vars
(* refinement L2 => L1: every change of the matrix is one abstract swap            *)
RefinesAbs ==
  [][st'.R # st.R =>
       \E a, b, c, d \in 1..N :
          IF Dir THEN CanSwapDir(st.R, a, b, c, d) /\ st'.R = SwapDir(N, st.R, a, b, c, d)
          ELSE CanSwapUnd(st.R, a, b, c, d) /\ st'.R = SwapUnd(N, st.R, a, b, c, d)]_vars
EffCounts == [][st'.eff = st.eff <=> st'.R = st.R]_vars

(* depth bound for gen runs *)
ItBound == it <= TotalIters
=============================================================================
