-------------------------------- MODULE GenPartitions --------------------------------
(* gen mode for C14: TLC enumerates every partition of N nodes (as its restricted    *)
(* growth string c) x every injective renaming rho of its blocks into the label pool *)
(* {-3, 0, 1, 2, 7, 100} (contiguous, zero-based, gapped, negative, large labels)    *)
(* and writes the items <<c, rho o c>> to $GEN_FILE as JSON.  No behaviour is        *)
(* explored: the enumeration is the constant-level ASSUME (cf. GenGraphs).           *)
(* N = 5: 52 partitions, 7776 items (= every label vector over the pool, see         *)
(* MC_Relations).                                                                    *)
EXTENDS Relations, SequencesExt, Json, IOUtils
CONSTANT N
Pool == {-3, 0, 1, 2, 7, 100}
RGS(n) == {x \in [1..n -> 1..n] : IsRGS(x)}
InjMaps(k, S) == {f \in [1..k -> S] : InjectiveOn(f, 1..k)}
Items == UNION {{<<c, Relabel(c, rho)>> : rho \in InjMaps(NBlocks(c), Pool)} : c \in RGS(N)}
ASSUME \A it \in Items : SamePartition(it[1], it[2])
ASSUME JsonSerialize(IOEnv.GEN_FILE, SetToSeq(Items))
VARIABLE x
Init == x = Cardinality(Items)
Next == UNCHANGED x
Spec == Init /\ [][Next]_x
=============================================================================
