-------------------------------- MODULE Consensus --------------------------------
(* X02 - operator forms of the steps of consensus_und (clustering.py), shared by *)
(* the machine (ConsensusImpl) and the trace specification (Trace_Consensus).    *)
(* Thresholded works on numerators over Reps with tau = t2 / (2 Reps).           *)
EXTENDS Agreement

(* ---- operator forms ------------------------------------------------------------ *)
Thresholded(n, DD, t2) ==
  Mat(n, LAMBDA i, j : IF i # j /\ 2 * DD[i][j] >= t2 THEN DD[i][j] ELSE 0)
(* `np.size(np.where(dt == 0)) == 0` - literally "dt has no zero entry"           *)
NoZeroCell(n, M) == \A i, j \in 1..n : M[i][j] # 0
(* MATLAB original: `if nnz(dt) == 0` - "dt has no nonzero entry"                  *)
AllZero(n, M) == \A i, j \in 1..n : M[i][j] = 0
(* unique_partitions: columns relabelled 0.. by first occurrence, then             *)
(*   c = arange(r); while (c != 0).sum() > 0: ciu.append(cis[:,0]); drop the      *)
(*   columns equal to it (and their entries of c)                                  *)
ZeroBased(c) == [i \in DOMAIN c |-> CanonOf(c)[i] - 1]
RECURSIVE Squash(_, _, _)
Squash(cols, c, acc) ==
  IF \A t \in DOMAIN c : c[t] = 0 THEN acc
  ELSE LET first == cols[1]
           keep == {t \in DOMAIN cols : cols[t] # first}
           ks == SetToSortSeq(keep, LAMBDA x, y : x < y)
       IN Squash([t \in 1..Len(ks) |-> cols[ks[t]]], [t \in 1..Len(ks) |-> c[ks[t]]],
                 Append(acc, first))
UniquePartitions(cols) ==
  Squash([t \in DOMAIN cols |-> ZeroBased(cols[t])], [t \in DOMAIN cols |-> t - 1], <<>>)
(* node-major stack of a sequence of label vectors                                 *)
StackOf(n, cols) == [i \in 1..n |-> [p \in DOMAIN cols |-> cols[p][i]]]
PlusOne(c) == [i \in DOMAIN c |-> c[i] + 1]
=============================================================================
