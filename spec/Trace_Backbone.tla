------------------------------ MODULE Trace_Backbone ------------------------------
(* X05 code -> spec: every record is one real call (harness/props/x05.py); r.kind selects  *)
(* the judge.  Common fields: fn, n, raised, malformed.  Integers exactly, reals as q6 =    *)
(* round(x * 10^6) (NAN = nan).  The oracle is Backbone.tla.                                *)
(*   backbone : A (integer weights), dn = avgdeg * n (an integer; avgdeg = dn / n is exact   *)
(*              in floating point), tree, clus (integer matrices)                            *)
(*   gtom     : A (0/1), m = nr_steps, gt (q6 matrix)                                        *)
(*   dice     : A, A2, d (q6 vector)                                                         *)
(*   corr     : A, A2, und (1: corr_flat_und, 0: corr_flat_dir), rq = q6(r), r2q = q6(r*r)   *)
(*   comps    : get_components_old: A, comps, sizes                                          *)
(*   dummy    : dummyvar: M, cis[v][m], cols = the COLUMNS of the returned matrix            *)
EXTENDS Backbone, TraceBase

IsVec(x, m) == DOMAIN x = 1..m
HasTies(n, A) == Cardinality({W(A, e) : e \in UEdges(n, A)}) < Cardinality(UEdges(n, A))

(* ------------------------------------------------------------------ backbone_wu ---- *)
JBackbone(r) ==
  LET n == r.n  A == r.A  K == r.dn - 2 * (n - 1)  T == UEdges(n, r.tree) IN
  Skip("fewer_than_two_nodes", n < 2,
  (* "weighted undirected connection matrix"                                             *)
  Skip("asymmetric", ~IsSym(n, A),
  Skip("self_connection", ~DiagZero(n, A),
  Skip("negative_weight", \E i, j \in 1..n : A[i][j] < 0,
  (* "NOTE: nodes with zero strength are discarded"; the rest must be connected (otherwise   *)
  (* no spanning tree exists)                                                               *)
  Skip("disconnected", ~ActiveConnected(n, A),
  Skip("degree_above_input", r.dn > 2 * Cardinality(UEdges(n, A)),
  Chk("Returns", r.raised = "",
  Chk("WellFormed", r.malformed = "" /\ IsSquare(n, r.tree) /\ IsSquare(n, r.clus),
  (* "CIJtree: connection matrix of the [maximum] spanning tree of CIJ": an undirected     *)
  (* network ...                                                                           *)
  Chk("TreeSymmetric", IsSym(n, r.tree),
  (* ... of connections of CIJ with their weights ...                                      *)
  Chk("TreeWeightsFromInput", CellsFromInput(n, A, r.tree),
  (* ... that is a tree (n - 1 connections, no cycle) ...                                  *)
  Chk("TreeHasNMinus1Connections", Cardinality(T) = Cardinality(Active(n, A)) - 1,
  (* ... spanning all nodes ...                                                            *)
  Chk("TreeSpansAllNodes", SpansActive(n, A, r.tree),
  (* ... "the dominant connections": of maximum total weight among all spanning trees      *)
  Chk("TreeHasMaximumWeight",
        IF n <= 5 /\ Connected(n, A) THEN WeightOf(A, T) = MaxTreeWeight(n, A) ELSE CycleOptimal(n, A, T),
  (* "CIJclus: connection matrix of the spanning tree plus strongest connections up to     *)
  (* some average degree 'avgdeg'"                                                         *)
  Chk("ClusSymmetric", IsSym(n, r.clus),
  Chk("ClusWeightsFromInput", CellsFromInput(n, A, r.clus),
  Chk("ClusContainsTree", \A i, j \in 1..n : r.tree[i][j] # 0 => r.clus[i][j] = r.tree[i][j],
  (* "Identical to CIJtree if the degree requirement is already met"                       *)
  (* (with discarded nodes the node count of the degree formula is not documented)           *)
  Chk("ClusIsTreeWhenDegreeMet", (K <= 0 /\ Connected(n, A)) => r.clus = r.tree,
  (* "plus strongest connections"                                                          *)
  Chk("ClusAddsStrongestConnections", ClusStrongest(n, A, T, r.clus),
  (* "CIJclus will have a total average degree exactly equal to (or very close to) avgdeg" *)
  Chk("ClusReachesAverageDegree", Connected(n, A) => ClusDegree(n, A, T, r.clus, K),
  "ok")))))))))))))))))))
DBackbone(r, c) ==
  IF c # "ok" THEN "na"
  ELSE IF r.tree # BbTree(r.n, r.A) THEN "differs:tree_tie_choice"
  ELSE IF r.clus # BbBackfill(r.n, r.A, r.tree, r.dn).clus THEN "differs:backfill_tie_choice"
  ELSE "same"

(* ------------------------------------------------------------------------ gtom ------ *)
GtNear(n, G, B, m) ==
  \A i, j \in 1..n : LET f == GtomFrac(n, B, m, i, j) IN NearFrac(G[i][j], f[1], f[2], 2)
JGtom(r) ==
  LET n == r.n  B == r.A  m == r.m IN
  Skip("not_binary_undirected", ~Is01(n, B) \/ ~IsSym(n, B) \/ ~DiagZero(n, B),
  Skip("negative_steps", m < 0,
  Chk("Returns", r.raised = "",
  Chk("WellFormed", r.malformed = "" /\ IsSquare(n, r.gt),
  IF m = 0
  (* numSteps = 0: the adjacency matrix itself (gtom.m "GTOM0")                            *)
  THEN Chk("GtomZeroStepsIsAdjacency", \A i, j \in 1..n : r.gt[i][j] = B[i][j] * Q6, "ok")
  (* "Elements of 'gt' are bounded between 0 and 1"                                        *)
  ELSE Chk("GtomBounded", \A i, j \in 1..n : r.gt[i][j] >= 0 /\ r.gt[i][j] <= Q6 + 2,
  IF m = 1
  (* "When numSteps is equal to 1, GTOM is identical to the topological overlap measure    *)
  (* (TOM) from reference [2]"                                                             *)
  THEN Chk("GtomOneStepIsTopologicalOverlap", GtNear(n, r.gt, B, 1), "ok")
  (* "the extent to which a pair of nodes have similar m-th step neighbors ... nodes that   *)
  (* are reachable by a path of at most length m" (Yip & Horvath 2007 eq. 4)               *)
  ELSE Chk("GtomIsMStepNeighbourhoodOverlap", GtNear(n, r.gt, B, m), "ok"))))))

DGtom(r) ==
  IF r.raised # "" \/ r.malformed # "" \/ r.m < 1 \/ ~IsSquare(r.n, r.gt) \/ ~Is01(r.n, r.A) THEN "na"
  ELSE IF \A i, j \in 1..r.n : LET f == GtomPortFrac(r.n, r.A, r.m, i, j) IN NearFrac(r.gt[i][j], f[1], f[2], 2)
       THEN "same" ELSE "differs:not_the_ported_loop"
Regular(n, B) == \A i, j \in 1..n : OutDeg(n, B, i) = OutDeg(n, B, j)

(* ------------------------------------------------------------- dice, correlations ---- *)
JDice(r) ==
  LET n == r.n IN
  Skip("asymmetric", ~IsSym(n, r.A) \/ ~IsSym(n, r.A2),
  Chk("Returns", r.raised = "",
  Chk("WellFormed", r.malformed = "" /\ IsVec(r.d, n),
  (* "pairwise dice similarity for each vertex between two matrices. Treats the matrices   *)
  (* as binary and undirected" (nodes without any neighbour: not judged)                   *)
  Chk("DiceIsNeighbourhoodOverlap",
        \A i \in 1..n : LET f == DiceFrac(n, r.A, r.A2, i) IN f[2] = 0 \/ NearFrac(r.d[i], f[1], f[2], 2),
  "ok"))))
JCorr(r) ==
  LET s == FlatPearson(r.n, r.A, r.A2, r.und = 1) IN
  Skip("asymmetric", r.und = 1 /\ (~IsSym(r.n, r.A) \/ ~IsSym(r.n, r.A2)),
  Skip("constant_sample", s.vx = 0 \/ s.vy = 0 \/ r.n < 3,
  Skip("beyond_exact_range", Abs(s.c) >= 46000 \/ s.vx >= 46000 \/ s.vy >= 46000 \/ ~RatOK(s.c * s.c, s.vx * s.vy),
  Chk("Returns", r.raised = "",
  (* "the correlation coefficient between two flattened adjacency matrices" ("only the      *)
  (* upper triangular part" / every off-diagonal cell): r^2 = c^2 / (vx vy), sign r = sign c *)
  Chk("CorrIsPearsonOfFlattenedCells",
        /\ IsFinite(r.rq) /\ Abs(r.r2q - ToQ6(s.c * s.c, s.vx * s.vy)) <= 4
        /\ (s.c = 0 => Abs(r.rq) <= 2) /\ (s.c # 0 => Sgn(r.rq) = Sgn(s.c)),
  "ok")))))

(* ------------------------------------------------------- components, dummyvar -------- *)
JComps(r) ==
  LET n == r.n IN
  Skip("not_binary_undirected", ~Is01(n, r.A) \/ ~IsSym(n, r.A),
  Chk("Returns", r.raised = "",
  Chk("WellFormed", r.malformed = "" /\ IsVec(r.comps, n),
  (* "Components and their constitutent nodes are assigned the same index"                  *)
  Chk("SameIndexIffSameComponent", CompsOK(n, r.A, r.comps),
  (* "comp_sizes contains the number of nodes beloning to each component"                   *)
  Chk("SizesCountTheNodes", SizesOK(n, r.comps, r.sizes),
  "ok")))))
JDummy(r) ==
  LET n == r.n  keys == DvKeys(n, r.M, r.cis)  R == Len(r.cols) IN
  Skip("empty", n < 1 \/ r.M < 1,
  Chk("Returns", r.raised = "",
  Chk("WellFormed", r.malformed = "" /\ \A c \in 1..R : IsVec(r.cols[c], n),
  (* "R is the total number of communities summed across each of the M partitions"          *)
  Chk("DummyvarColumnCount", R = Cardinality(keys),
  (* "R column variables (indicator variables) with N entries" (in any order)               *)
  Chk("DummyvarColumnsAreIndicators",
        \A k \in keys : Cardinality({c \in 1..R : r.cols[c] = DvColumn(n, r.cis, k)})
                        = Cardinality({k2 \in keys : DvColumn(n, r.cis, k2) = DvColumn(n, r.cis, k)}),
  "ok")))))
DDummy(r, c) ==
  IF c # "ok" THEN "na"
  ELSE LET o == DvOrdered(r.n, r.M, r.cis) IN
       IF \A x \in 1..Len(o) : r.cols[x] = DvColumn(r.n, r.cis, o[x]) THEN "same"
       ELSE "differs:column_order"

(* ------------------------------------------------------------------ dispatch ------ *)
Judge(r) ==
  CASE r.kind = "backbone" -> LET c == JBackbone(r) IN
                              <<c, DBackbone(r, c),
                                IF ~IsSquare(r.n, r.A) THEN "any"
                                ELSE (IF HasTies(r.n, r.A) THEN "tied_weights" ELSE "distinct_weights")
                                     \o (IF Active(r.n, r.A) # 1..r.n THEN "_isolated_nodes" ELSE "")>>
    [] r.kind = "gtom"     -> <<JGtom(r), DGtom(r), (IF IsSquare(r.n, r.A) /\ Regular(r.n, r.A) THEN "regular" ELSE "irregular")
                                \o (IF r.m >= 3 THEN "_steps_3plus" ELSE "")>>
    [] r.kind = "dice"     -> <<JDice(r), "na", "any">>
    [] r.kind = "corr"     -> <<JCorr(r), "na", "any">>
    [] r.kind = "comps"    -> <<JComps(r), "na", "any">>
    [] r.kind = "dummy"    -> LET c == JDummy(r) IN <<c, DDummy(r, c), "any">>
    [] OTHER               -> <<"skip:unknown_kind", "na", "any">>

VARIABLES tid, verdict
TInit == tid \in 1..Len(Recs) /\ verdict = <<>>
TNext == /\ verdict = <<>>
         /\ verdict' = Judge(Recs[tid])
         /\ PrintT(VLine(tid, verdict'))
         /\ UNCHANGED tid
TSpec == TInit /\ [][TNext]_<<tid, verdict>>
=============================================================================
