SPECIFICATION Spec
CONSTANT N = 4
CONSTANT Sym = TRUE
CONSTANT WMax = 3
CHECK_DEADLOCK FALSE
