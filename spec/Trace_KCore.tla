------------------------------ MODULE Trace_KCore ------------------------------
(* C15 code -> spec.  Two kinds of records (harness/props/c15.py):              *)
(*  fn in {kcore_bu, kcore_bd, score_wu}: one input A and an ascending list of  *)
(*     doubled bounds b2s (consecutive k; a grid of s) with, per bound, what    *)
(*     Call(fn, A, k) returned (cores, sizes) and what Call(fn, A, k, peel=True)*)
(*     returned (pcores, psizes, orders, levels - flattened, nodes 1-based);    *)
(*  fn in {kcoreness_centrality_bu, _bd}: Return(coreness, kn).                 *)
(* A third kind: near-threshold inputs of score_wu (kind "wux": two-level      *)
(* weights and bounds, see JudgeCoreX below).                                   *)
(* Oracle: subset enumeration (KCore!CoreSet) for n <= 5; beyond that the       *)
(* set-based peeling operator, proved equal to CoreSet by MC_KCore.             *)
EXTENDS KCore, TraceBase

EnumMax == 5
Oracle(n, A, b2, kind) == IF n <= EnumMax THEN CoreSet(n, A, b2, kind)
                          ELSE PeelCoreSet(n, A, b2, kind)

(* the property's domain: binary (un)directed graphs, non-negative symmetric    *)
(* weights; no self-connections                                                 *)
InDomain(r) ==
  LET n == r.n  A == r.A IN
  /\ IsSquare(n, A) /\ DiagZero(n, A)
  /\ \A i, j \in 1..n : A[i][j] >= 0
  /\ (r.kind = "bu" => Is01(n, A) /\ IsSym(n, A))
  /\ (r.kind = "bd" => Is01(n, A))
  /\ (r.kind = "wu" => IsSym(n, A))

IsCoreFn(r) == r.fn \in {"kcore_bu", "kcore_bd", "score_wu"}

(* the clauses that need the L0 core of bound number t, as a chain per bound    *)
(* (the core is evaluated once per bound)                                       *)
ClauseAt(r, t) ==
  LET n == r.n  A == r.A
      core == Oracle(n, A, r.b2s[t], r.kind)
      size == Cardinality(core)
      hasPeel == Len(r.orders) > 0
  IN
  (* "return the input restricted to the largest node set in which every node   *)
  (* keeps degree / in+out degree / strength at least k (s) inside the set,     *)
  (* with all other rows and columns zeroed"                                    *)
  Chk("MatrixIsInputRestrictedToCore",
        /\ MatrixIsInputRestrictedTo(n, A, r.cores[t], core)
        /\ hasPeel => MatrixIsInputRestrictedTo(n, A, r.pcores[t], core),
  (* "together with that set's size" - judged for bounds > 0; for a bound of 0  *)
  (* the documented size counts the non-isolated nodes and is not judged        *)
  Chk("SizeIsCoreSize",
        r.b2s[t] > 0 => /\ r.sizes[t] = size
                        /\ hasPeel => r.psizes[t] = size,
  (* "the optional peel order and level list each removed node exactly once"    *)
  Chk("PeelEachOnce",
        hasPeel => PeelListsEachOnce(n, A, core, r.orders[t], r.levels[t]),
  "ok")))

JudgeCore(r) ==
  LET n == r.n  T == Len(r.b2s)
      hasPeel == Len(r.orders) > 0
      at == {ClauseAt(r, t) : t \in 1..T}
  IN
  Chk("Returns",    r.raised = "",
  Chk("WellFormed", /\ r.malformed = ""
                    /\ Len(r.cores) = T /\ Len(r.sizes) = T
                    /\ \A t \in 1..T : IsSquare(n, r.cores[t])
                    /\ hasPeel => (/\ Len(r.pcores) = T /\ Len(r.psizes) = T
                                   /\ Len(r.orders) = T /\ Len(r.levels) = T
                                   /\ \A t \in 1..T : IsSquare(n, r.pcores[t])),
  Chk("MatrixIsInputRestrictedToCore", "MatrixIsInputRestrictedToCore" \notin at,
  Chk("SizeIsCoreSize", "SizeIsCoreSize" \notin at,
  (* "cores are nested as k grows" (consecutive bounds sent by the harness)     *)
  Chk("Nested",     \A t \in 1..(T - 1) : NestedObs(n, r.cores[t], r.cores[t + 1]),
  Chk("PeelEachOnce", "PeelEachOnce" \notin at,
  "ok"))))))

(* drift: the round-by-round mirror of the code predicts the very output,       *)
(* including the peel order and the levels                                      *)
DriftAt(r, t) ==
  LET run == PeelRun(r.n, r.A, r.b2s[t], r.kind) IN
  /\ r.cores[t] = run.M /\ r.sizes[t] = run.kn
  /\ Len(r.orders) > 0 => /\ r.orders[t] = OrderOf(run.rounds)
                          /\ r.levels[t] = LevelOf(run.rounds)
DriftCore(r) ==
  IF r.raised # "" \/ r.malformed # "" THEN "na"
  ELSE IF \A t \in 1..Len(r.b2s) : DriftAt(r, t) THEN "same" ELSE "differs:peel"

(* tuple of L0 cores for k = 0..KTop (the largest attainable degree), entry k+1 *)
CoreTable(r) == Tabulate(LAMBDA i : Oracle(r.n, r.A, 2 * (i - 1), r.kind), KTop(r.n, r.kind) + 1)

JudgeCoreness(r) ==
  LET n == r.n  A == r.A  kind == r.kind
      cores == CoreTable(r)
  IN
  Chk("Returns",    r.raised = "",
  Chk("WellFormed", r.malformed = "" /\ Len(r.coreness) = n /\ Len(r.kn) >= n,
  (* "give each node the largest k whose core contains it"                      *)
  Chk("CorenessIsMaxK", \A v \in 1..n : r.coreness[v] = CorenessFrom(cores, v),
  (* "and report the core sizes": entry k (0-based) is the size of the k-core;  *)
  (* judged for k >= 1 as above                                                 *)
  Chk("KnIsSizes",  \A k \in 1..(Len(r.kn) - 1) :
                       r.kn[k + 1] = Cardinality(IF k < Len(cores) THEN cores[k + 1]
                                                 ELSE Oracle(n, A, 2 * k, kind)),
  "ok"))))

(* input classes of the coreness records (spec-computed, for KNOWN_FINDINGS):   *)
(*  coreness_ge_n           - some node's coreness reaches n (needs in+out)     *)
(*  inlink_free_core_member - some node has no incoming connection inside the   *)
(*                            core that defines its coreness                    *)
ClassCoreness(r) ==
  LET n == r.n  A == r.A  cores == CoreTable(r)
      cn == Tabulate(LAMBDA v : CorenessFrom(cores, v), n)
  IN IF r.kind # "bd" THEN "any"
     ELSE IF \E v \in 1..n : cn[v] >= n THEN "coreness_ge_n"
     ELSE IF \E v \in 1..n : cn[v] >= 1 /\ \A j \in cores[cn[v] + 1] : A[j][v] = 0
          THEN "inlink_free_core_member"
     ELSE "any"

(* drift: the entry for k = 0, which the property does not fix, is what the     *)
(* loop produces (the number of non-isolated nodes)                            *)
DriftCoreness(r) ==
  IF r.raised # "" \/ r.malformed # "" \/ Len(r.kn) = 0 THEN "na"
  ELSE IF r.kn[1] = Cardinality(Alive(r.n, r.A, r.kind)) THEN "same" ELSE "differs:kn0"

(* ---- near-threshold records of score_wu (kind "wux", KCore: two-level weights): *)
(* the input is the pair of integer matrices (A, E), weight = A*2^gap + E in    *)
(* units of 2^(scale-gap), the bounds are the pairs (b2s[t], e2s[t]), bound =   *)
(* (b2*2^gap + e2)/2 in the same unit, ascending; every weight, every bound and *)
(* every sum of weights is exact in binary64 (the harness checks it), so the    *)
(* code's comparisons "strength < s" see the exact values.  The returned        *)
(* matrices come back split the same way (cores, coresE).                       *)
InDomainX(r) ==
  LET n == r.n  A == r.A  E == r.E IN
  /\ IsSquare(n, A) /\ IsSquare(n, E) /\ DiagZero(n, A) /\ DiagZero(n, E)
  /\ IsSym(n, A) /\ IsSym(n, E)
  /\ \A i, j \in 1..n : PosX(A[i][j], E[i][j]) \/ ZeroX(A[i][j], E[i][j])
  /\ r.gap >= 21
  /\ Len(r.e2s) = Len(r.b2s)
  /\ \A t \in 1..Len(r.b2s) : TwoLevelOk(n, E, r.e2s[t]) /\ r.b2s[t] >= 0
  /\ \A t \in 1..(Len(r.b2s) - 1) :
        r.b2s[t] < r.b2s[t + 1] \/ (r.b2s[t] = r.b2s[t + 1] /\ r.e2s[t] < r.e2s[t + 1])

OracleX(n, A, E, b2, e2) == IF n <= EnumMax THEN CoreSetX(n, A, E, b2, e2)
                            ELSE PeelCoreSetX(n, A, E, b2, e2)
SupportX(n, M, ME) == {<<i, j>> \in (1..n) \X (1..n) : ~ZeroX(M[i][j], ME[i][j])}

ClauseAtX(r, t) ==
  LET n == r.n
      core == OracleX(n, r.A, r.E, r.b2s[t], r.e2s[t])
  IN
  (* "return the input restricted to the largest node set in which every node   *)
  (* keeps ... strength at least s inside the set, all other rows and columns   *)
  (* zeroed" - decided exactly, however close a strength is to s                *)
  Chk("MatrixIsInputRestrictedToCore",
        /\ MatrixIsInputRestrictedTo(n, r.A, r.cores[t], core)
        /\ MatrixIsInputRestrictedTo(n, r.E, r.coresE[t], core),
  (* "together with that set's size" (bounds > 0, as above)                     *)
  Chk("SizeIsCoreSize",
        PosX(r.b2s[t], r.e2s[t]) => r.sizes[t] = Cardinality(core),
  "ok"))

JudgeCoreX(r) ==
  LET n == r.n  T == Len(r.b2s)
      at == {ClauseAtX(r, t) : t \in 1..T}
  IN
  Chk("Returns",    r.raised = "",
  Chk("WellFormed", /\ r.malformed = ""
                    /\ Len(r.cores) = T /\ Len(r.coresE) = T /\ Len(r.sizes) = T
                    /\ \A t \in 1..T : IsSquare(n, r.cores[t]) /\ IsSquare(n, r.coresE[t]),
  Chk("MatrixIsInputRestrictedToCore", "MatrixIsInputRestrictedToCore" \notin at,
  Chk("SizeIsCoreSize", "SizeIsCoreSize" \notin at,
  (* "cores are nested as k grows" (bounds ascending: InDomainX)                *)
  Chk("Nested",     \A t \in 1..(T - 1) :
                       SupportX(n, r.cores[t + 1], r.coresE[t + 1])
                          \subseteq SupportX(n, r.cores[t], r.coresE[t]),
  "ok")))))

Judge(r) ==
  IF r.kind = "wux"
  THEN IF ~InDomainX(r) THEN <<"skip:outside_domain", "na", "any">>
       ELSE <<JudgeCoreX(r), "na", "wu">>
  ELSE
  IF ~InDomain(r) THEN <<"skip:outside_domain", "na", "any">>
  ELSE IF IsCoreFn(r) THEN <<JudgeCore(r), DriftCore(r), r.kind>>
  ELSE <<JudgeCoreness(r), DriftCoreness(r), ClassCoreness(r)>>

VARIABLES tid, verdict
TInit == tid \in 1..Len(Recs) /\ verdict = <<>>
TNext == /\ verdict = <<>>
         /\ verdict' = Judge(Recs[tid])
         /\ PrintT(VLine(tid, verdict'))
         /\ UNCHANGED tid
TSpec == TInit /\ [][TNext]_<<tid, verdict>>
=============================================================================
