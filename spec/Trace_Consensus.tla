---------------------------- MODULE Trace_Consensus ----------------------------
(* X02 code -> spec: every record is one real call                               *)
(*   consensus_und(D, tau, reps, seed) -> ciu | Raise(exc)                       *)
(* plus what the harness observed from outside (the module-level name            *)
(* `modularity_louvain_und_sign` in bct.algorithms.clustering wrapped by a       *)
(* recorder, no hook in the library): for every inner clustering call, in order, *)
(* the matrix it was given (E-q6) and the label vector it returned.              *)
(* r.seen = 1 iff the recorder saw at least one call.  r.again = result of a     *)
(* second call with the same integer seed.                                       *)
(* Numbers: D and tau are sent as round(x * 10^6); the harness uses two-decimal  *)
(* inputs, so float comparisons D >= tau agree with the comparisons made here.   *)
EXTENDS Consensus, TraceBase

NPasses(r) == Len(r.calls) \div r.reps
PassCalls(r, t) == [s \in 1..r.reps |-> r.calls[(t - 1) * r.reps + s]]
PassCis(r, t) == [s \in 1..r.reps |-> PassCalls(r, t)[s].ci]
Dt(r, t) == PassCalls(r, t)[1].dt
AllSame(cs) == \A s, u \in DOMAIN cs : SamePart(cs[s], cs[u])

(* dt = D * (D >= tau) with the diagonal cleared, on E-q6 values                  *)
ThresholdsInput(r) ==
  \A i, j \in 1..r.n : Dt(r, 1)[i][j] = (IF i # j /\ r.D[i][j] >= r.tau THEN r.D[i][j] ELSE 0)
(* D = agreement(cis) / reps, thresholded again                                    *)
ThresholdsAgreement(r, t) ==
  LET cis == PassCis(r, t - 1)
      cnt(i, j) == Cardinality({s \in 1..r.reps : cis[s][i] = cis[s][j]})
  IN \A i, j \in 1..r.n :
       IF i # j /\ cnt(i, j) * 1000000 >= r.tau * r.reps
       THEN NearRatio(Dt(r, t)[i][j], cnt(i, j), r.reps, 1)
       ELSE Dt(r, t)[i][j] = 0

JudgeCall(r) ==
  LET n == r.n  np == NPasses(r) IN
  Skip("reps_below_one",       r.reps < 1,
  Chk("Returns",               r.raised = "",
  \* "ciu : consensus partition": a label for every node, labels 1..k
  Chk("ValidPartition",        Len(r.result) = n /\ IsPartition1toK(n, r.result),
  \* same integer seed, same answer
  Chk("SameSeedSameResult",    r.again = r.result,
  IF r.seen = 0 THEN "ok" ELSE
  \* "partitioned REPS number of times": calls come in passes of reps, one matrix per pass
  Chk("RepsClusteringsPerPass", /\ Len(r.calls) = np * r.reps /\ np >= 1
                                /\ \A t \in 1..np : \A s \in 1..r.reps : PassCalls(r, t)[s].dt = Dt(r, t),
  \* "The agreement matrix D is thresholded at a level TAU"
  \* every matrix handed to the clustering routine holds probabilities (keeps the
  \* cross-multiplications below inside 32 bits)
  Chk("ClusteredMatricesAreProbabilities",
        \A t \in 1..np : \A i, j \in 1..n : Dt(r, t)[i][j] >= 0 /\ Dt(r, t)[i][j] <= 1000001,
  Chk("ThresholdsInputAtTau",  ThresholdsInput(r),
  \* "a new agreement is built ... the process repeats, starting with the newly built matrix"
  Chk("NextPassUsesAgreementOfPartitions", \A t \in 2..np : ThresholdsAgreement(r, t),
  \* "If the partitions have not converged to a single representative partition, the process repeats"
  Chk("ContinuesWhilePartitionsDiffer", \A t \in 1..(np - 1) : ~AllSame(PassCis(r, t)),
  Chk("StopsWhenAllPartitionsAgree",    AllSame(PassCis(r, np)),
  \* the value returned is that single representative partition
  Chk("ConsensusIsTheCommonPartition",  SamePart(r.result, PassCis(r, np)[1]),
  "ok")))))))))))

Drift(r) ==
  IF r.raised # "" \/ r.reps < 1 \/ r.seen = 0 \/ NPasses(r) < 1 THEN "na"
  ELSE IF Len(r.calls) # NPasses(r) * r.reps THEN "differs:calls"
  \* the model of unique_partitions follows the code's loop test, which yields nothing for one column
  ELSE LET cols == PassCis(r, NPasses(r))
           pred == IF r.reps = 1 THEN ZeroBased(cols[1]) ELSE UniquePartitions(cols)[1]
       IN IF r.result = PlusOne(pred) THEN "same" ELSE "differs:numbering"

Class(r) == IF r.reps = 1 THEN "single_rep"
            ELSE IF \A i, j \in 1..r.n : i = j \/ r.D[i][j] < r.tau THEN "nothing_reaches_tau"
            ELSE "general"

Judge(r) == <<JudgeCall(r), Drift(r), Class(r)>>

VARIABLES tid, verdict
TInit == tid \in 1..Len(Recs) /\ verdict = <<>>
TNext == /\ verdict = <<>>
         /\ verdict' = Judge(Recs[tid])
         /\ PrintT(VLine(tid, verdict'))
         /\ UNCHANGED tid
TSpec == TInit /\ [][TNext]_<<tid, verdict>>
=============================================================================
