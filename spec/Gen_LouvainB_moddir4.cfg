SPECIFICATION Spec
CONSTANT N = 4
CONSTANT Objective = "modularity"
CONSTANT Dir = TRUE
CONSTANT GN = 5
CONSTANT GD = 4
CONSTANT Vals <- V01
CONSTANT Gen = TRUE
CONSTANT AllStarts = TRUE
CHECK_DEADLOCK FALSE
