SPECIFICATION Spec
CONSTANT NP = 5
CONSTANT NQ = 4
CONSTANT NT = 3
CONSTANT NG = 4
CONSTANT NS = 5
CONSTANT WMax = 3
CONSTANT Modes = {"dir01", "symw"}
CONSTANT Pool <- PoolSix
CONSTANT PoolQ <- PoolFour
CONSTANT PoolT <- PoolFour
INVARIANT StrengthIsDegreeOn01
INVARIANT DirectedIsUndirectedOnSym
INVARIANT BigClassesCoincide
CHECK_DEADLOCK FALSE
