---------------------------- MODULE Trace_NullSign ----------------------------
(* C06 code -> spec for null_model_und_sign / null_model_dir_sign: one record per     *)
(* real call: Call(W, bin_swaps, wei_freq, seed) -> Return(W0, (r_pi, r_po, r_ni, r_no)) *)
EXTENDS NullSign, TraceBase

(* W as seen by the routine: diagonal cleared *)
InW(r) == NoDiag(r.n, r.W)

Judge1(r) ==
  LET n == r.n  W == InW(r)  W0 == r.W0 IN
  Skip("input_without_both_signs", ~(\E c \in Support(n, W) : W[c[1]][c[2]] > 0)
                                     \/ ~(\E c \in Support(n, W) : W[c[1]][c[2]] < 0),
  Chk("Returns",        r.raised = "",
  Chk("WellFormed",     r.malformed = "",
  (* every node keeps its number of positive / negative connections, in and out *)
  Chk("SignedDegrees",  SameSignedDegrees(n, W, W0),
  (* no weight changes sign or value *)
  Chk("PosBag",         SignBag(n, W0, 1) = SignBag(n, W, 1),
  Chk("NegBag",         SignBag(n, W0, -1) = SignBag(n, W, -1),
  Chk("DiagEmpty",      DiagZero(n, W0),
  Chk("Symmetric",      r.dir = 1 \/ IsSym(n, W0),
  (* the returned coefficients are the correlations of the strength sequences *)
  (* weights scaled to 2^-560: products of strengths underflow in any float implementation of   *)
  (* Pearson's r, so the returned coefficients carry no information there                      *)
  Skip("correlation_underflows_at_this_magnitude", r.skip_corr = 1,
  Skip("corr_out_of_int32_domain",
       ~(/\ CorrDomainOK(n, InSeq(n, PosPart(n, W)), InSeq(n, PosPart(n, W0)))
         /\ CorrDomainOK(n, OutSeq(n, PosPart(n, W)), OutSeq(n, PosPart(n, W0)))
         /\ CorrDomainOK(n, InSeq(n, NegPart(n, W)), InSeq(n, NegPart(n, W0)))
         /\ CorrDomainOK(n, OutSeq(n, NegPart(n, W)), OutSeq(n, NegPart(n, W0)))),
  Chk("CorrPosIn",  CorrMatches(n, InSeq(n, PosPart(n, W)),  InSeq(n, PosPart(n, W0)),  r.corr[1], r.corr2[1]),
  Chk("CorrPosOut", CorrMatches(n, OutSeq(n, PosPart(n, W)), OutSeq(n, PosPart(n, W0)), r.corr[2], r.corr2[2]),
  Chk("CorrNegIn",  CorrMatches(n, InSeq(n, NegPart(n, W)),  InSeq(n, NegPart(n, W0)),  r.corr[3], r.corr2[3]),
  Chk("CorrNegOut", CorrMatches(n, OutSeq(n, NegPart(n, W)), OutSeq(n, NegPart(n, W0)), r.corr[4], r.corr2[4]),
  "ok"))))))))))))))

(* drift: W0's sign pattern is the pattern left by the internal sign-preserving rewiring *)
Drift(r) ==
  IF r.raised # "" \/ r.malformed # "" \/ Len(r.pattern) = 0 THEN "na"
  ELSE IF \A i, j \in 1..r.n : Sgn(r.W0[i][j]) = Sgn(r.pattern[i][j]) THEN "same"
  ELSE "differs:dealt_onto_other_support"

Judge(r) == <<Judge1(r), Drift(r), IF r.dir = 1 THEN "directed" ELSE "undirected">>

VARIABLES tid, verdict
TInit == tid \in 1..Len(Recs) /\ verdict = <<>>
TNext == /\ verdict = <<>>
         /\ verdict' = Judge(Recs[tid])
         /\ PrintT(VLine(tid, verdict'))
         /\ UNCHANGED tid
TSpec == TInit /\ [][TNext]_<<tid, verdict>>
=============================================================================
