SPECIFICATION Spec
CONSTANT N = 5
CONSTANT Und = FALSE
CONSTANT Gen = FALSE
CONSTANT KMax = 8
CHECK_DEADLOCK FALSE
INVARIANT TypeOK
INVARIANT PrefixInv
INVARIANT DoneContract
INVARIANT DoneIsRandResult
