SPECIFICATION Spec
CONSTANT N = 4
CONSTANT Kind = "und"
CHECK_DEADLOCK FALSE
