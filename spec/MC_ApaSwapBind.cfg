SPECIFICATION Spec
INVARIANT BindInv
CHECK_DEADLOCK FALSE
