#!/bin/sh
mk() { # file N Dir Finetune GN GD WMax Gen
cat > $1 <<EOF
SPECIFICATION Spec
CONSTANT N = $2
CONSTANT Dir = $3
CONSTANT Finetune = $4
CONSTANT GN = $5
CONSTANT GD = $6
CONSTANT WMax = $7
CONSTANT Gen = $8
CONSTANT MaxSweeps = 50
CHECK_DEADLOCK FALSE
EOF
if [ "$8" = FALSE ]; then cat >> $1 <<EOF
INVARIANT BookkeepingInv
INVARIANT AggregationInv
INVARIANT FinalInv
PROPERTY GainIsTrueDelta
PROPERTY MoveRaisesQ
PROPERTY AggregateKeepsQ
EOF
fi
}
rm -f MC_Louvain_*.cfg Gen_Louvain_*.cfg
mk MC_Louvain_q_und4.cfg      4 FALSE FALSE 1 1 1 FALSE
mk MC_Louvain_q_und4g.cfg     4 FALSE FALSE 3 4 1 FALSE
mk MC_Louvain_q_fund4.cfg     4 FALSE TRUE  5 4 1 FALSE
mk MC_Louvain_q_dir3.cfg      3 TRUE  FALSE 1 1 2 FALSE
mk MC_Louvain_q_fdir3.cfg     3 TRUE  TRUE  1 1 2 FALSE
mk MC_Louvain_t_und4w.cfg     4 FALSE FALSE 1 1 2 FALSE
mk MC_Louvain_t_fund4w.cfg    4 FALSE TRUE  3 4 2 FALSE
mk MC_Louvain_t_dir4.cfg      4 TRUE  FALSE 1 1 1 FALSE
mk MC_Louvain_t_fdir4.cfg     4 TRUE  TRUE  5 4 1 FALSE
mk MC_Louvain_q_und3d.cfg     3 FALSE FALSE 1 1 2 FALSE; echo "CONSTANT DiagVals <- DiagVals01" >> MC_Louvain_q_und3d.cfg
mk MC_Louvain_t_fund3d.cfg    3 FALSE TRUE  3 4 2 FALSE; echo "CONSTANT DiagVals <- DiagVals01" >> MC_Louvain_t_fund3d.cfg
mk MC_Louvain_t_dir3d.cfg     3 TRUE  FALSE 1 1 1 FALSE; echo "CONSTANT DiagVals <- DiagVals01" >> MC_Louvain_t_dir3d.cfg
mk MC_Louvain_t_und4d.cfg     4 FALSE FALSE 1 1 1 FALSE; echo "CONSTANT DiagVals <- DiagVals01" >> MC_Louvain_t_und4d.cfg
mk Gen_Louvain_und4.cfg       4 FALSE FALSE 1 1 2 TRUE
mk Gen_Louvain_und5.cfg       5 FALSE FALSE 3 4 1 TRUE
mk Gen_Louvain_fund4.cfg      4 FALSE TRUE  5 4 2 TRUE
mk Gen_Louvain_dir4.cfg       4 TRUE  FALSE 1 1 1 TRUE
mk Gen_Louvain_fdir4.cfg      4 TRUE  TRUE  3 4 1 TRUE
