-------------------------------- MODULE Generators --------------------------------
(* C20 - synthetic generators of bct/algorithms/reference.py.                     *)
(*                                                                                *)
(* L1  output contracts (constant-free, operators of (n, A, ...)):                *)
(*       Shape, Is01 (BctBase), EmptyDiag, CountIs, Symmetric, RowSums / ColSums, *)
(*       ring lattice: Off (circular offset), OuterBand, NearerBandsFull,         *)
(*       NothingBeyondOuterBand, BandsNearestFirst.                               *)
(* Operator forms of the construction steps (shared by the L2 machines            *)
(* RandImpl / RingLatticeImpl / DegreesFixedImpl and by Trace_Generators):        *)
(*       cell orders of the code (row-major np.where), RandResult, ring bands,    *)
(*       the stub-matching loop DF*.                                              *)
(*                                                                                *)
(* Conventions: "connection" = non-zero cell.  makeringlatticeCIJ is a DIRECTED   *)
(* lattice (docstring): K counts cells, a band at circular offset r has 2n cells  *)
(* (n cells for the antipodal band r = n/2 of an even n).  makerandCIJ_und takes  *)
(* K = number of undirected edges (docstring "number of edges", MATLAB BCT        *)
(* symmetrises after choosing K upper-triangular cells): 2K non-zero cells.       *)
(* makerandCIJdegreesfixed(inv, outv): CIJ[source][target], so ROW sums are the   *)
(* OUT-degrees `outv` and COLUMN sums the IN-degrees `inv`.                        *)
(* Domains: n <= 16 (set-based definitions), n <= 1024 for the scale-regime records *)
(* judged by the cheap clauses (counts <= n*n < 2^31); all values 0/1/2.          *)
EXTENDS BctBase

(* ------------------------------- L1 contracts --------------------------------- *)
Shape(n, A)      == IsSquare(n, A)
EmptyDiag(n, A)  == DiagZero(n, A)
NNZ(n, A)        == Cardinality(Support(n, A))
CountIs(n, A, K) == NNZ(n, A) = K
Symmetric(n, A)  == IsSym(n, A)
RowSums(n, A)    == [i \in 1..n |-> OutStr(n, A, i)]
ColSums(n, A)    == [j \in 1..n |-> InStr(n, A, j)]
SeqFn(n, s)      == [i \in 1..n |-> s[i]]

Cells(n)    == (1..n) \X (1..n)
OffDiag(n)  == {c \in Cells(n) : c[1] # c[2]}

(* circular offset of a cell from the main diagonal (wrap-around)                 *)
Off(n, i, j) == LET d == Abs(i - j) IN IF d <= n - d THEN d ELSE n - d
Band(n, r)   == {c \in OffDiag(n) : Off(n, c[1], c[2]) = r}
UpTo(n, r)   == {c \in OffDiag(n) : Off(n, c[1], c[2]) <= r}
MaxBand(n)   == n \div 2
(* the outermost band a lattice with K connections may touch: the first r whose   *)
(* cumulative capacity reaches K                                                  *)
OuterBand(n, K) ==
  IF K = 0 THEN 0
  ELSE MinOf({r \in 1..MaxBand(n) : Cardinality(UpTo(n, r)) >= K})
RingFeasible(n, K) == K >= 0 /\ K <= n * (n - 1)
NearerBandsFull(n, A, K) ==
  LET r == OuterBand(n, K) IN
  \A c \in OffDiag(n) : Off(n, c[1], c[2]) < r => A[c[1]][c[2]] # 0
NothingBeyondOuterBand(n, A, K) ==
  LET r == OuterBand(n, K) IN
  \A c \in OffDiag(n) : Off(n, c[1], c[2]) > r => A[c[1]][c[2]] = 0
BandsNearestFirst(n, A, K) == NearerBandsFull(n, A, K) /\ NothingBeyondOuterBand(n, A, K)
(* even n and K beyond n(n-2): the antipodal band (n cells, not 2n) is needed     *)
NeedsAntipodalBand(n, K) == n % 2 = 0 /\ K > n * (n - 2)

(* ---- scale regime (n of several hundred): closed forms of the band capacities.      *)
(* Cardinality(UpTo(n, r)) enumerates n^2 cells for every r (minutes at n = 400); a     *)
(* band at offset r < n/2 has 2n cells, the antipodal band of an even n has n, so the   *)
(* cumulative capacity is 2nr, resp. n(n-1) once r reaches n/2.  Equivalence with the   *)
(* set-based definitions is ASSUMEd on all n <= 9 in Trace_Generators.                  *)
(* Domain: n <= 1024 (n * n < 2^31).                                                    *)
CumCap(n, r) == IF 2 * r >= n - 1 THEN n * (n - 1) ELSE 2 * n * r
OuterBandF(n, K) ==
  IF K = 0 THEN 0
  ELSE MinOf({r \in 1..MaxBand(n) : CumCap(n, r) >= K})
(* the two band clauses with the outer band handed in                                   *)
NearerBandsFullAt(n, A, r) ==
  \A i, j \in 1..n : (i # j /\ Off(n, i, j) < r) => A[i][j] # 0
NothingBeyondAt(n, A, r) ==
  \A i, j \in 1..n : (i # j /\ Off(n, i, j) > r) => A[i][j] = 0

DegreesContract(n, A, inv, outv) ==
  /\ Is01(n, A) /\ EmptyDiag(n, A)
  /\ RowSums(n, A) = SeqFn(n, outv)
  /\ ColSums(n, A) = SeqFn(n, inv)

(* hierarchical cluster of a node: makeevenCIJ / makefractalCIJ, clusters of size csz *)
Cluster(i, csz) == (i - 1) \div csz
ClustersFull(n, A, csz) ==
  \A c \in OffDiag(n) : Cluster(c[1], csz) = Cluster(c[2], csz) => A[c[1]][c[2]] # 0
Pow2(e) == LET f[x \in 0..e] == IF x = 0 THEN 1 ELSE 2 * f[x - 1] IN f[e]
IsPow2(n) == \E e \in 0..10 : Pow2(e) = n      \* n <= 1024 (scale-regime records: 256, 512)

(* --------------------------- code orders of cells ----------------------------- *)
(* np.where(...) and .flat enumerate cells row-major                              *)
AllCells(n)  == [t \in 1..(n * n) |-> <<((t - 1) \div n) + 1, ((t - 1) % n) + 1>>]
CellSeq(n, P(_)) == SelectSeq(AllCells(n), P)
DirCells(n)  == CellSeq(n, LAMBDA c : c[1] # c[2])
UndCells(n)  == CellSeq(n, LAMBDA c : c[1] < c[2])
BandSeq(n, r) == CellSeq(n, LAMBDA c : c[1] # c[2] /\ Off(n, c[1], c[2]) = r)

IsPermOf(p, m) == Len(p) = m /\ {p[t] : t \in 1..m} = 1..m
SetCell(A, i, j, v) == [A EXCEPT ![i][j] = v]
Eye(n) == Mat(n, LAMBDA i, j : IF i = j THEN 1 ELSE 0)
MinusEye(n, A) == Mat(n, LAMBDA i, j : IF i = j THEN A[i][j] - 1 ELSE A[i][j])
(* complete a prefix of distinct indices to a permutation of 1..m (rest ascending) *)
CompletePerm(pre, m) ==
  pre \o SelectSeq([t \in 1..m |-> t], LAMBDA x : x \notin SeqToSet(pre))

(* makerandCIJ_dir / _und: the first K entries of a permutation of the admissible *)
(* cells are set; the undirected variant mirrors them                             *)
RandResult(n, und, p, K) ==
  LET cs == IF und THEN UndCells(n) ELSE DirCells(n)
      S  == {cs[p[t]] : t \in 1..K}
  IN Mat(n, LAMBDA i, j : IF <<i, j>> \in S \/ (und /\ <<j, i>> \in S) THEN 1 ELSE 0)

(* makeringlatticeCIJ: bands 1..r, then cells band[p[1..overby]] of band r removed *)
BandsUpTo(n, r) == Mat(n, LAMBDA i, j : IF i # j /\ Off(n, i, j) <= r THEN 1 ELSE 0)
RingResult(n, K, p) ==
  LET r  == OuterBand(n, K)
      bs == BandSeq(n, r)
      ob == Cardinality(UpTo(n, r)) - K
      gone == {bs[p[t]] : t \in 1..ob}
  IN Mat(n, LAMBDA i, j : IF i # j /\ Off(n, i, j) <= r /\ <<i, j>> \notin gone THEN 1 ELSE 0)

(* the same with the closed-form outer band (scale regime)                          *)
RingResultF(n, K, p) ==
  LET r  == OuterBandF(n, K)
      bs == BandSeq(n, r)
      ob == CumCap(n, r) - K
      gone == {bs[p[t]] : t \in 1..ob}
  IN Mat(n, LAMBDA i, j : IF i # j /\ Off(n, i, j) <= r /\ <<i, j>> \notin gone THEN 1 ELSE 0)

(* -------------------- makerandCIJdegreesfixed, intended loop ------------------ *)
(* (MATLAB BCT makerandCIJdegreesfixed.m; flag = 0 there is BCTParamError here)   *)
(* stubs: node v repeated d[v] times, nodes ascending                             *)
StubSeq(n, d) ==
  LET f[v \in 0..n] == IF v = 0 THEN <<>> ELSE f[v - 1] \o [x \in 1..d[v] |-> v] IN f[n]
(* state: C (matrix incl. the blocking identity), tg (targets = in_inv[perm]),    *)
(* i (loop index, 1-based), tried, pc in loop | switch | done | stuck             *)
DFInit(n, tg) ==
  [C |-> Eye(n), tg |-> tg, i |-> 1, tried |-> {},
   pc |-> IF Len(tg) = 0 THEN "done" ELSE "loop"]
DFAdvance(s) ==
  [s EXCEPT !.i = s.i + 1, !.tried = {},
            !.pc = IF s.i + 1 > Len(s.tg) THEN "done" ELSE "loop"]
(* loop body, `if CIJ[edges[0,i], edges[1,i]]` ... `else: place`                  *)
DFLoop(src, s) ==
  LET a == src[s.i]  b == s.tg[s.i] IN
  IF s.C[a][b] # 0 THEN [s EXCEPT !.pc = "switch", !.tried = {}]
  ELSE DFAdvance([s EXCEPT !.C = SetCell(s.C, a, b, 1)])
DFValid(src, s, sw) ==
  /\ s.C[src[s.i]][s.tg[sw]] = 0
  /\ s.C[src[sw]][s.tg[s.i]] = 0
(* one pass of the `while True` body with the drawn (untried) index sw            *)
DFSwitch(src, s, sw) ==
  IF DFValid(src, s, sw)
  THEN LET i  == s.i
           C1 == SetCell(s.C, src[i], s.tg[sw], 1)
           C2 == IF sw < i
                 THEN SetCell(SetCell(C1, src[sw], s.tg[sw], 0), src[sw], s.tg[i], 1)
                 ELSE C1
           t2 == [s.tg EXCEPT ![i] = s.tg[sw], ![sw] = s.tg[i]]
       IN DFAdvance([s EXCEPT !.C = C2, !.tg = t2])
  ELSE [s EXCEPT !.tried = s.tried \cup {sw}]
DFExhausted(s) == s.pc = "switch" /\ s.tried = 1..Len(s.tg)
DFStuck(s) == [s EXCEPT !.pc = "stuck"]
(* run the deterministic part: loop bodies until a draw is needed or the end      *)
RECURSIVE DFSettle(_, _)
DFSettle(src, s) ==
  IF s.pc = "loop" THEN DFSettle(src, DFLoop(src, s))
  ELSE IF DFExhausted(s) THEN DFStuck(s) ELSE s
(* whole run on recorded draws (1-based); a draw already in `tried` is redrawn by *)
(* the code's inner while loop and changes nothing                                *)
DFRun(n, inv, outv, perm, draws) ==
  LET src == StubSeq(n, outv)
      ins == StubSeq(n, inv)
      tg0 == [t \in 1..Len(ins) |-> ins[perm[t]]]
      f[t \in 0..Len(draws)] ==
        IF t = 0 THEN DFSettle(src, DFInit(n, tg0))
        ELSE LET s == f[t - 1]  d == draws[t] IN
             IF s.pc # "switch" THEN [s EXCEPT !.pc = "surplus_draws"]
             ELSE IF d \in s.tried THEN s
             ELSE DFSettle(src, DFSwitch(src, s, d))
  IN f[Len(draws)]
=============================================================================
