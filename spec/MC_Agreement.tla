---- MODULE MC_Agreement ----
EXTENDS AgreementImpl
PoolGapped == {-3, 0, 7}
====
