---------------------------- MODULE Trace_CallerArrays ----------------------------
(* C13 code -> spec.  Every record is ONE real call made inside a program             *)
(*     Call(fn, args, opts) -> Return(result) | Raise(exc)                            *)
(* with what the harness OBSERVED: for every array passed (positional, keyword, and    *)
(* arrays inside lists) the fingerprint (SHA-1 of the bytes), dtype and shape before   *)
(* and after the call; whether it raised; the copy option as given; and which          *)
(* argument the returned object IS (python identity), 0 if none.  The step relation    *)
(* "the caller's arrays are as CallerArrays allows" is the ordered list of its four    *)
(* statements.  Whether the function is one of the in-place utilities is decided HERE  *)
(* (CallerArrays!InPlaceUtils), not by the harness.  The first matrix argument is      *)
(* also sent as integers (value * 1000) so that the input class is computed by the     *)
(* spec: the defects this property is after are diagonal-clearing writes.              *)
EXTENDS CallerArrays, TraceBase

AsCall(r) == [base |-> r.base, util |-> r.base \in InPlaceUtils, copy |-> r.copy,
              raised |-> r.raised = 1, args |-> r.args, resis |-> r.resis]

WellFormed(r) ==
  /\ r.copy \in {"true", "false", "na"} /\ r.raised \in {0, 1}
  /\ r.resis \in 0..Len(r.args)
  /\ \A k \in 1..Len(r.args) : DOMAIN r.args[k] = {"name", "fp0", "dt0", "sh0", "fp1", "dt1", "sh1"}

JudgeClause(r) ==
  LET c == AsCall(r) IN
  Skip("malformed_record", ~WellFormed(r),
  Skip("no_array_argument", Len(r.args) = 0,
  Chk("DtypeShapeUnchanged",      DtypeShapeUnchanged(c),
  Chk("UnchangedOnRaise",         UnchangedOnRaise(c),
  Chk("ArgsUnchanged",            ArgsUnchanged(c),
  Chk("CopyFalseOperatesInPlace", CopyFalseOperatesInPlace(c),
  "ok"))))))

(* input class: does the first matrix argument (square or not) carry a non-zero main    *)
(* diagonal?  Only the clauses about the CONTENT of the arguments depend on it.          *)
IsMatrix(A) == A # <<>> /\ \A i \in DOMAIN A : DOMAIN A[i] = DOMAIN A[1]
DiagClass(A) ==
  IF ~IsMatrix(A) THEN "any"
  ELSE IF \E i \in DOMAIN A : i \in DOMAIN A[i] /\ A[i][i] # 0 THEN "nonzero_diagonal"
  ELSE "zero_diagonal"
Class(r, clause) ==
  IF clause = "CopyFalseOperatesInPlace" THEN "any" ELSE DiagClass(r.A)

(* drift: which arguments the result shares memory with although it is not the         *)
(* argument itself (a returned view) - allowed by the statement, reported               *)
Drift(r) == IF r.raised = 0 /\ r.shares # <<>> /\ r.resis = 0 THEN "differs:result_is_a_view_of_an_argument"
            ELSE "same"

Judge(r) ==
  IF "timeout" \in DOMAIN r THEN <<"skip:timeout", "na", "any">>
  ELSE LET c == JudgeClause(r) IN <<c, Drift(r), Class(r, c)>>

VARIABLES tid, verdict
TInit == tid \in 1..Len(Recs) /\ verdict = <<>>
TNext == /\ verdict = <<>>
         /\ verdict' = Judge(Recs[tid])
         /\ PrintT(VLine(tid, verdict'))
         /\ UNCHANGED tid
TSpec == TInit /\ [][TNext]_<<tid, verdict>>
=============================================================================
