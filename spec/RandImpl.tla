-------------------------------- MODULE RandImpl --------------------------------
(* L2 machine of makerandCIJ_dir / makerandCIJ_und (reference.py):                *)
(*     ix = admissible cells (row-major; upper triangle for und)                  *)
(*     rp = rng.permutation(len(ix));  CIJ.flat[ix[rp][:k]] = 1                   *)
(*     [und, intended: CIJ = CIJ + CIJ.T]                                         *)
(* The vectorised assignment is the loop "for t < k: CIJ[ix[rp[t]]] = 1"; the     *)
(* permutation is revealed one entry per iteration (Place(x), x not yet used), so *)
(* TLC walks every K-prefix of every permutation.  Without Gen the state keeps    *)
(* only the set of used indices (the result does not depend on their order).      *)
EXTENDS Generators, Json

CONSTANTS N, Und, Gen, KMax      \* KMax: only K <= KMax (99 = all)
VARIABLES K, used, cnt, C, pc, hist
vars == <<K, used, cnt, C, pc, hist>>

CellsOf == IF Und THEN UndCells(N) ELSE DirCells(N)
M == Len(CellsOf)

Init == /\ K \in {k \in 0..M : k <= KMax}
        /\ used = {} /\ cnt = 0 /\ C = Zero(N) /\ hist = <<>>
        /\ pc = "place"

Place(x) ==
  /\ pc = "place" /\ cnt < K /\ x \notin used
  /\ used' = used \cup {x} /\ cnt' = cnt + 1
  /\ C' = SetCell(C, CellsOf[x][1], CellsOf[x][2], 1)
  /\ hist' = IF Gen THEN Append(hist, x) ELSE hist
  /\ UNCHANGED <<K, pc>>

(* after the prefix: symmetrise (und), return                                      *)
Finish ==
  /\ pc = "place" /\ cnt = K
  /\ C' = IF Und THEN Mat(N, LAMBDA i, j : IF C[i][j] + C[j][i] > 0 THEN 1 ELSE 0) ELSE C
  /\ pc' = "done"
  /\ UNCHANGED <<K, used, cnt, hist>>

Emit ==
  /\ Gen /\ pc = "done"
  /\ PrintT("G|" \o ToJson([fn |-> IF Und THEN "makerandCIJ_und" ELSE "makerandCIJ_dir",
                            n |-> N, k |-> K, perm |-> CompletePerm(hist, M), expect |-> C]))
  /\ pc' = "emitted"
  /\ UNCHANGED <<K, used, cnt, C, hist>>

Next == (\E x \in 1..M : Place(x)) \/ Finish \/ Emit
Spec == Init /\ [][Next]_vars

(* ------------------------------ invariants ---------------------------------- *)
TypeOK == pc \in {"place", "done", "emitted"} /\ cnt = Cardinality(used) /\ cnt <= K
(* intermediate: exactly the used cells are set                                    *)
PrefixInv == pc = "place" =>
  Support(N, C) = {CellsOf[x] : x \in used}
(* L2 => L1 contracts at return                                                    *)
DoneContract == pc \in {"done", "emitted"} =>
  /\ Shape(N, C) /\ Is01(N, C) /\ EmptyDiag(N, C)
  /\ CountIs(N, C, IF Und THEN 2 * K ELSE K)
  /\ Und => Symmetric(N, C)
(* machine = operator form used by the trace specification                          *)
DoneIsRandResult == (Gen /\ pc \in {"done", "emitted"}) =>
  C = RandResult(N, Und, CompletePerm(hist, M), K)
=============================================================================
