SPECIFICATION Spec
CONSTANT N = 3
CONSTANT Objective = "negative_asym"
CONSTANT Dir = FALSE
CONSTANT GN = 3
CONSTANT GD = 4
CONSTANT Vals <- VS2
CONSTANT Gen = FALSE
CONSTANT AllStarts = TRUE
CHECK_DEADLOCK FALSE
INVARIANT BookkeepingInv
INVARIANT AggregationInv
INVARIANT ObjIsModularity
PROPERTY MoveRaisesObj
