SPECIFICATION Spec
CONSTANT N = 5
INVARIANT DisjointInv
INVARIANT PartialInv
INVARIANT FinalInv
INVARIANT OracleInv
CHECK_DEADLOCK FALSE
