SPECIFICATION Spec
CONSTANT Machines <- WalkMachines
CONSTANT WalkDomains <- TWalk
CONSTANT WalkerDomains <- TWalker
CONSTANT LemmaDomains <- None
CONSTANT Q = 5
INVARIANT FwLoopInv
INVARIANT FwProgressInv
INVARIANT FwFinalInv
INVARIANT FwCountsBehavioursInv
INVARIANT FwBigLemmaInv
INVARIANT WalkerCountedInv
INVARIANT WalkerCountInv
INVARIANT WalkerEnabledInv
CHECK_DEADLOCK FALSE
