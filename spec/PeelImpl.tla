-------------------------------- MODULE PeelImpl --------------------------------
(* C15, L2: the peeling loops of bct/algorithms/core.py (kcore_bu, kcore_bd,   *)
(* score_wu) and the coreness loop of bct/algorithms/centrality.py             *)
(* (kcoreness_centrality_bu/_bd), one action per loop body, same variables:    *)
(*                                                                             *)
(*   CIJkcore = CIJ.copy(); iter = 0                       Call                *)
(*   while True:                                           Round               *)
(*       deg = degrees(CIJkcore)                                               *)
(*       ff, = where(deg < k and deg > 0)                                      *)
(*       if ff.size == 0: break                            -> pc = "ret"       *)
(*       iter += 1; CIJkcore[ff,:] = 0; CIJkcore[:,ff] = 0                     *)
(*       peelorder.append(ff); peellevel.append(iter*ones(len(ff)))            *)
(*   kn = sum(deg > 0)                                                         *)
(*                                                                             *)
(*   for k in range(...):                                  Assign              *)
(*       CIJkcore, kn[k] = kcore(CIJ, k)                   (the inner rounds)  *)
(*       ss = <nodes with a connection left in CIJkcore>; coreness[ss] = k     *)
(*                                                                             *)
(* Kind = "bu" | "bd" | "wu".  The bound is carried doubled (b2 = 2k / 2s).    *)
(* The coreness loop runs k = 0..KTop, the largest attainable degree (n-1 for   *)
(* bu = range(N); 2(n-1) for bd = range(2N-1)), and ss are the nodes that still *)
(* have a connection in CIJkcore (bu: column sums > 0; bd: column + row sums    *)
(* > 0).  knv records the size for every k of the loop; the code keeps its      *)
(* first N entries.                                                            *)
EXTENDS KCore
CONSTANTS N, Kind, WMax
VARIABLES A, mode, b2, M, iter, order, level, kn, pc, kc, coreness, knv, core
vars == <<A, mode, b2, M, iter, order, level, kn, pc, kc, coreness, knv, core>>

UPairs == {p \in (1..N) \X (1..N) : p[1] < p[2]}
DPairs == {p \in (1..N) \X (1..N) : p[1] # p[2]}
UndOf(E) == Mat(N, LAMBDA i, j : IF <<i, j>> \in E \/ <<j, i>> \in E THEN 1 ELSE 0)
DirOf(E) == Mat(N, LAMBDA i, j : IF <<i, j>> \in E THEN 1 ELSE 0)
WeiOf(f) == Mat(N, LAMBDA i, j : IF i < j THEN f[<<i, j>>] ELSE IF j < i THEN f[<<j, i>>] ELSE 0)
Inputs == IF Kind = "bu" THEN {UndOf(E) : E \in SUBSET UPairs}
          ELSE IF Kind = "bd" THEN {DirOf(E) : E \in SUBSET DPairs}
          ELSE {WeiOf(f) : f \in [UPairs -> 0..WMax]}
(* all k from 0 to one past the largest attainable degree; for wu every        *)
(* half-integer s from 0 to one half past the largest attainable strength      *)
Bounds == IF Kind = "wu" THEN 0..(2 * WMax * (N - 1) + 1)
          ELSE {2 * k : k \in 0..(KTop(N, Kind) + 1)}
KLast == KTop(N, Kind)

Init == /\ A \in Inputs
        /\ mode \in (IF Kind = "wu" THEN {"kcore"} ELSE {"kcore", "coreness"})
        /\ b2 \in (IF mode = "kcore" THEN Bounds ELSE {0})
        /\ M = A
        /\ iter = 0
        /\ order = <<>>
        /\ level = <<>>
        /\ kn = 0
        /\ pc = "call"
        /\ kc = 0
        /\ coreness = [v \in 1..N |-> 0]
        /\ knv = [k \in 0..KLast |-> 0]
        /\ core = {}

(* function entry: CIJkcore = CIJ.copy(); iter = 0.  The auxiliary variable     *)
(* `core` records the L0 answer for this call (computed here, not in Init, so   *)
(* that TLC's workers share the subset enumerations).                           *)
Call == /\ pc = "call"
        /\ M' = A
        /\ iter' = 0
        /\ order' = <<>>
        /\ level' = <<>>
        /\ core' = CoreSet(N, A, b2, Kind)
        /\ pc' = "loop"
        /\ UNCHANGED <<A, mode, b2, kn, kc, coreness, knv>>

(* one pass through the body of `while True`                                    *)
Round == /\ pc = "loop"
         /\ LET ff == Small(N, M, b2, Kind) IN
            IF ff = {}
            THEN /\ kn' = Cardinality(Alive(N, M, Kind))
                 /\ pc' = "ret"
                 /\ UNCHANGED <<M, iter, order, level>>
            ELSE /\ iter' = iter + 1
                 /\ M' = ZeroOut(N, M, ff)
                 /\ order' = Append(order, Ascending(ff))
                 /\ level' = Append(level, [x \in 1..Cardinality(ff) |-> iter + 1])
                 /\ UNCHANGED <<kn, pc>>
         /\ UNCHANGED <<A, mode, b2, kc, coreness, knv, core>>

(* the rest of one pass through `for k in range(...)` after kcore returned      *)
Assign == /\ mode = "coreness" /\ pc = "ret"
          /\ knv' = [knv EXCEPT ![kc] = kn]
          /\ coreness' = [v \in 1..N |-> IF v \in Alive(N, M, Kind) THEN kc ELSE coreness[v]]
          /\ kc' = kc + 1
          /\ IF kc + 1 <= KLast
             THEN /\ b2' = 2 * (kc + 1)
                  /\ pc' = "call"
             ELSE /\ pc' = "done"
                  /\ UNCHANGED b2
          /\ UNCHANGED <<M, iter, order, level, core>>
          /\ UNCHANGED <<A, mode, kn>>

Next == Call \/ Round \/ Assign
Spec == Init /\ [][Next]_vars

FlatOrder == FlattenSeq(order)
FlatLevel == FlattenSeq(level)
Removed == SeqToSet(FlatOrder)
Returned == pc = "ret"

(* ---- intermediate invariants of the loop ----------------------------------- *)
(* the current subnetwork is the input with exactly the peeled rows/columns     *)
(* zeroed, and no member of the core is ever peeled                             *)
SubnetworkInv == pc \in {"loop", "ret"} => M = RestrictTo(N, A, (1..N) \ Removed)
CoreSafeInv == pc \in {"loop", "ret"} => Removed \cap core = {}
IterInv == iter = Len(order) /\ iter <= N /\ Len(level) = Len(order)
(* ---- refinement: what the loop returns is the L0 core ---------------------- *)
ResultIsCoreInv == Returned =>
  /\ MatrixIsInputRestrictedTo(N, A, M, core)
  /\ (b2 > 0 => kn = Cardinality(core) /\ Alive(N, M, Kind) = core)
UniqueInv == Returned => CoreUnique(N, A, b2, Kind)
PeelSetInv == Returned => PeelCoreSet(N, A, b2, Kind) = core
OperatorInv == Returned =>
  LET r == PeelRun(N, A, b2, Kind)
  IN r.M = M /\ r.kn = kn /\ OrderOf(r.rounds) = FlatOrder /\ LevelOf(r.rounds) = FlatLevel
(* Nested: raising the bound by the smallest step can only shrink the core      *)
NestedInv == Returned => CoreSet(N, A, b2 + 1, Kind) \subseteq core
(* PeelOnce: each removed node appears exactly once in order and in level, and  *)
(* the level of a node is the round in which it was removed                     *)
PeelOnceInv == Returned =>
  /\ PeelListsEachOnce(N, A, core, FlatOrder, FlatLevel)
  /\ \A x \in DOMAIN FlatOrder : FlatOrder[x] \in SeqToSet(order[FlatLevel[x]])
  /\ \A x, y \in DOMAIN FlatLevel : x <= y => FlatLevel[x] <= FlatLevel[y]
(* coreness loop: every node gets the largest k whose core contains it and      *)
(* knv[k] is the size of the k-core (k >= 1)                                    *)
CorenessInv == pc = "done" =>
  LET cores == Tabulate(LAMBDA i : CoreSet(N, A, 2 * (i - 1), Kind), KLast + 1)
  IN /\ \A v \in 1..N : coreness[v] = CorenessFrom(cores, v)
     /\ \A k \in 1..KLast : knv[k] = Cardinality(cores[k + 1])
     /\ CoreSet(N, A, 2 * (KLast + 1), Kind) = {}
=============================================================================
