SPECIFICATION Spec
CONSTANT N = 5
CONSTANT Objective = "potts"
CONSTANT Dir = FALSE
CONSTANT GN = 3
CONSTANT GD = 4
CONSTANT Vals <- V01
CONSTANT Gen = TRUE
CONSTANT AllStarts = TRUE
CHECK_DEADLOCK FALSE
