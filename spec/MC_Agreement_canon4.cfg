SPECIFICATION Spec
CONSTANT N = 4
CONSTANT MaxM = 3
CONSTANT Canonical = TRUE
CONSTANT LabelPool <- PoolGapped
CONSTANT Buffs = {1, 2, 3, 1000}
CONSTANT Wts = {1, 3}
CONSTANT AsCoded = FALSE
INVARIANT DummyInv
INVARIANT ChunkInv
INVARIANT PartialInv
INVARIANT FinalInv
INVARIANT WPartialInv
INVARIANT WFinalInv
INVARIANT UnitWeightsInv
CHECK_DEADLOCK FALSE
