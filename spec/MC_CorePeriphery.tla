--------------------------- MODULE MC_CorePeriphery ---------------------------
(* X06 mc: CorePeripheryImpl on every small input.                                        *)
(*   MC_CorePeriphery.cfg        3 nodes, weights 0..2, gamma in {1/2, 1, 3/2}             *)
(*   MC_CorePeriphery_n4.cfg     4 nodes, weights 0/1, gamma = 1                            *)
(*   MC_CorePeriphery_live.cfg   3 nodes, termination under weak fairness                   *)
EXTENDS CorePeripheryImpl
G3 == {<<1, 2>>, <<1, 1>>, <<3, 2>>}
G1 == {<<1, 1>>}
G4 == {<<1, 2>>, <<1, 1>>, <<2, 1>>}
W01 == {0, 1}
W012 == {0, 1, 2}
=============================================================================
