-------------------------------- MODULE Clustering --------------------------------
(* C09 (and C10).  Clustering coefficients and transitivity.                      *)
(*                                                                                *)
(* Numbers.  A network is given by an integer matrix C and a denominator d >= 1:  *)
(* the weight of the connection i->j is  w[i][j] = (C[i][j]/d)^3  (sign kept), so *)
(* C[i][j]/d is its (rational) cube root.  Binary networks are d = 1, C in {0,1}; *)
(* weighted ones d = 3, C in 0..3 (weights 0, 1/27, 8/27, 1); signed ones C in    *)
(* -3..3.  Empty diagonal.  Every value below is an exact fraction <<P, Q>>, Q>0  *)
(* (Q = 0 only for a transitivity without any connected triple: undefined).       *)
(* 32-bit: |C| <= 3, n <= 10: the largest intermediate is the Zhang numerator     *)
(* 9*8 * 27^3 = 1 417 176 and denominator 27 * 9*8 * 27^2 = 1 417 176.            *)
(*                                                                                *)
(* Part 1 (L0): the published definitions by enumeration of ordered node triples  *)
(*   (i; j, h), i, j, h distinct.                                                  *)
(* Part 2: the matrix-algebra pipelines of bct/algorithms/clustering.py, one       *)
(*   operator step per statement (registers named after the code's variables);    *)
(*   ClusteringImpl.tla runs them as a machine and TLC proves Part 2 = Part 1.     *)
EXTENDS BctRational, SequencesExt

D3(d) == d * d * d
Cube(x) == x * x * x
Others(n, i) == (1..n) \ {i}
(* ordered pairs (j, h) completing the ordered triple (i; j, h)                   *)
OPairs(n, i) == {p \in Others(n, i) \X Others(n, i) : p[1] # p[2]}
UPairsAt(n, i) == {p \in OPairs(n, i) : p[1] < p[2]}
(* "fewer than two neighbours (no triple) -> 0"                                    *)
Frac0(P, Q) == IF Q = 0 THEN <<0, 1>> ELSE <<P, Q>>

(* ======================= Part 1: L0 definitions ============================== *)
(* ---- undirected (Watts & Strogatz 1998; Onnela et al. 2005) ------------------ *)
(* connected triples centred at i = ordered pairs of distinct neighbours          *)
TriplesU(n, C, i) == {p \in OPairs(n, i) : C[i][p[1]] # 0 /\ C[i][p[2]] # 0}
(* ... of which closed: the two neighbours are themselves connected               *)
TrianglesU(n, C, i) == {p \in TriplesU(n, C, i) : C[p[1]][p[2]] # 0}
(* d * geometric mean of the three weights = product of the three cube roots      *)
IntensityU(C, i, p) == C[i][p[1]] * C[p[1]][p[2]] * C[p[2]][i]
DegU(n, C, i) == Cardinality({j \in Others(n, i) : C[i][j] # 0})

ClustBU(n, C) ==
  [i \in 1..n |-> Frac0(Cardinality(TrianglesU(n, C, i)), Cardinality(TriplesU(n, C, i)))]
ClustWU(n, C, d) ==
  [i \in 1..n |-> Frac0(Sum(TrianglesU(n, C, i), LAMBDA p : IntensityU(C, i, p)),
                        D3(d) * Cardinality(TriplesU(n, C, i)))]
TransBU(n, C) ==
  <<Sum(1..n, LAMBDA i : Cardinality(TrianglesU(n, C, i))),
    Sum(1..n, LAMBDA i : Cardinality(TriplesU(n, C, i)))>>
TransWU(n, C, d) ==
  <<Sum(1..n, LAMBDA i : Sum(TrianglesU(n, C, i), LAMBDA p : IntensityU(C, i, p))),
    D3(d) * Sum(1..n, LAMBDA i : Cardinality(TriplesU(n, C, i)))>>

(* ---- directed (Fagiolo 2007) --------------------------------------------------- *)
(* arcs are pairs <<from, to>>                                                     *)
ArcsBetween(C, a, b) == {e \in {<<a, b>>, <<b, a>>} : C[e[1]][e[2]] # 0}
IncArcs(n, C, i) == UNION {ArcsBetween(C, i, j) : j \in Others(n, i)}
Far(i, e) == IF e[1] = i THEN e[2] ELSE e[1]
NbrsD(n, C, i) == {j \in Others(n, i) : ArcsBetween(C, i, j) # {}}
(* ordered pairs of arcs at i leading to two different neighbours: each may carry  *)
(* a triangle.  = K(K-1) - 2 #reciprocal, K = in-degree + out-degree               *)
TriplesD(n, C, i) ==
  {p \in IncArcs(n, C, i) \X IncArcs(n, C, i) : Far(i, p[1]) # Far(i, p[2])}
(* directed triangles through i: unordered neighbour pair {j,h}, one arc on each   *)
(* of the three sides, any direction (up to 8 per node triple)                     *)
TrianglesD(n, C, i) ==
  UNION {{<<e, f, g>> : e \in ArcsBetween(C, i, p[1]), f \in ArcsBetween(C, p[1], p[2]),
                         g \in ArcsBetween(C, p[2], i)} : p \in UPairsAt(n, i)}
Wt(C, e) == C[e[1]][e[2]]
IntensityD(C, t) == Wt(C, t[1]) * Wt(C, t[2]) * Wt(C, t[3])

ClustBD(n, C) ==
  [i \in 1..n |-> Frac0(Cardinality(TrianglesD(n, C, i)), Cardinality(TriplesD(n, C, i)))]
ClustWD(n, C, d) ==
  [i \in 1..n |-> Frac0(Sum(TrianglesD(n, C, i), LAMBDA t : IntensityD(C, t)),
                        D3(d) * Cardinality(TriplesD(n, C, i)))]
TransBD(n, C) ==
  <<Sum(1..n, LAMBDA i : Cardinality(TrianglesD(n, C, i))),
    Sum(1..n, LAMBDA i : Cardinality(TriplesD(n, C, i)))>>
TransWD(n, C, d) ==
  <<Sum(1..n, LAMBDA i : Sum(TrianglesD(n, C, i), LAMBDA t : IntensityD(C, t))),
    D3(d) * Sum(1..n, LAMBDA i : Cardinality(TriplesD(n, C, i)))>>

(* ---- signed undirected ----------------------------------------------------------- *)
PosPart(n, C) == Mat(n, LAMBDA i, j : IF C[i][j] > 0 THEN C[i][j] ELSE 0)
NegPart(n, C) == Mat(n, LAMBDA i, j : IF C[i][j] < 0 THEN -C[i][j] ELSE 0)
(* Zhang & Horvath 2005 on a non-negative matrix P (weights Cube(P)/d^3):           *)
(*   sum_{j#q} w_ij w_jq w_qi / ((sum_j w_ij)^2 - sum_j w_ij^2)                      *)
(*   and the denominator equals sum_{j#q} w_ij w_iq                                  *)
ZhNum(n, P, i) ==
  Sum(OPairs(n, i), LAMBDA p : Cube(P[i][p[1]]) * Cube(P[p[1]][p[2]]) * Cube(P[p[2]][i]))
ZhDen(n, P, i) ==
  LET s1 == Sum(Others(n, i), LAMBDA j : Cube(P[i][j]))
      s2 == Sum(Others(n, i), LAMBDA j : Cube(P[i][j]) * Cube(P[i][j]))
  IN s1 * s1 - s2
ClustZhang(n, P, d) == [i \in 1..n |-> Frac0(ZhNum(n, P, i), D3(d) * ZhDen(n, P, i))]
(* Costantini & Perugini 2014 on the signed matrix:                                  *)
(*   sum_{j#q} w_ij w_jq w_qi / sum_{j#q} |w_ij w_iq|                                 *)
CoDen(n, C, i) == Sum(OPairs(n, i), LAMBDA p : Abs(Cube(C[i][p[1]]) * Cube(C[i][p[2]])))
ClustCostantini(n, C, d) == [i \in 1..n |-> Frac0(ZhNum(n, C, i), D3(d) * CoDen(n, C, i))]

(* ---- one table: function name -> sequence of output vectors of fractions ---------- *)
(* (a transitivity is a vector of length 1)                                           *)
FnBU  == "clustering_coef_bu"
FnBD  == "clustering_coef_bd"
FnWU  == "clustering_coef_wu"
FnWD  == "clustering_coef_wd"
FnSD  == "clustering_coef_wu_sign[default]"
FnSZ  == "clustering_coef_wu_sign[zhang]"
FnSC  == "clustering_coef_wu_sign[costantini]"
FnTBU == "transitivity_bu"
FnTBD == "transitivity_bd"
FnTWU == "transitivity_wu"
FnTWD == "transitivity_wd"
FnTWDcoded == "transitivity_wd#as_coded"     \* model of the defect at clustering.py:693; spec-internal
PerNodeFns == {FnBU, FnBD, FnWU, FnWD, FnSD, FnSZ, FnSC}
TransFns == {FnTBU, FnTBD, FnTWU, FnTWD}
DirectedFns == {FnBD, FnWD, FnTBD, FnTWD}
BinaryFns == {FnBU, FnBD, FnTBU, FnTBD}
SignFns == {FnSD, FnSZ, FnSC}
AllFns == PerNodeFns \cup TransFns

Def(fn, n, C, d) ==
  CASE fn = FnBU  -> <<ClustBU(n, C)>>
    [] fn = FnBD  -> <<ClustBD(n, C)>>
    [] fn = FnWU  -> <<ClustWU(n, C, d)>>
    [] fn = FnWD  -> <<ClustWD(n, C, d)>>
    [] fn = FnSD  -> <<ClustWU(n, PosPart(n, C), d), ClustWU(n, NegPart(n, C), d)>>
    [] fn = FnSZ  -> <<ClustZhang(n, PosPart(n, C), d), ClustZhang(n, NegPart(n, C), d)>>
    [] fn = FnSC  -> <<ClustCostantini(n, C, d)>>
    [] fn = FnTBU -> << <<TransBU(n, C)>> >>
    [] fn = FnTBD -> << <<TransBD(n, C)>> >>
    [] fn = FnTWU -> << <<TransWU(n, C, d)>> >>
    [] fn = FnTWD -> << <<TransWD(n, C, d)>> >>

(* the matrix whose triangles decide output vector v of fn                          *)
PartOf(fn, v, n, C) ==
  IF fn \in {FnSD, FnSZ} THEN (IF v = 1 THEN PosPart(n, C) ELSE NegPart(n, C)) ELSE C
(* "nodes with fewer than two neighbours or no triangle"                             *)
ZeroCase(fn, v, n, C, i) ==
  LET P == PartOf(fn, v, n, C) IN
  IF fn \in DirectedFns
  THEN Cardinality(NbrsD(n, P, i)) < 2 \/ TrianglesD(n, P, i) = {}
  ELSE DegU(n, P, i) < 2 \/ TrianglesU(n, P, i) = {}
OnTriangle(fn, n, C, i) ==
  IF fn \in DirectedFns THEN TrianglesD(n, C, i) # {} ELSE TrianglesU(n, C, i) # {}
(* a transitivity is defined only if the network has a connected triple              *)
HasTriple(fn, n, C) ==
  IF fn \in DirectedFns THEN \E i \in 1..n : TriplesD(n, C, i) # {}
  ELSE \E i \in 1..n : TriplesU(n, C, i) # {}

(* input class (for findings): relation of the nodes to triangles of the support     *)
InputClass(fn, n, C) ==
  LET on == {i \in 1..n : OnTriangle(fn, n, C, i)} IN
  IF on = {} THEN "triangle_free"
  ELSE IF on = 1..n THEN "every_node_on_triangle" ELSE "some_node_triangle_free"

NonNeg(n, C) == \A i, j \in 1..n : C[i][j] >= 0
WeightsInUnit(n, C, d) == \A i, j \in 1..n : Abs(C[i][j]) <= d
InDomain(fn, n, C, d) ==
  /\ d >= 1 /\ DiagZero(n, C) /\ WeightsInUnit(n, C, d)
  /\ fn \in SignFns \/ NonNeg(n, C)
  /\ fn \in DirectedFns \/ IsSym(n, C)
  /\ fn \in BinaryFns => (d = 1 /\ Is01(n, C))

(* exact equality of fractions, 0/0 = "undefined" included, without cross products   *)
SameFrac(a, b) == FracNorm(a) = FracNorm(b)
SameOut(X, Y) == /\ Len(X) = Len(Y)
                 /\ \A v \in 1..Len(X) :
                      /\ DOMAIN X[v] = DOMAIN Y[v]
                      /\ \A i \in DOMAIN X[v] : SameFrac(X[v][i], Y[v][i])

(* ====== Part 1b: the same definitions, enumerated over pairs of NEIGHBOURS ========= *)
(* For networks with many nodes (Trace_Clustering, n > SmallN).  A triple (i; j, h)     *)
(* contributes to no numerator and no denominator unless j and h are neighbours of i,   *)
(* so the enumeration may run over the pairs of neighbours of i instead of all pairs of *)
(* nodes.  On a node triple of a directed network the up-to-8 triangles (up-to-4 pairs  *)
(* of arcs at i) are the combinations of one arc per side: their number is the product  *)
(* of the per-side arc counts, the sum of their intensities the product of the per-side *)
(* sums of cube roots (distributivity).  Nothing here is a formula of the code          *)
(* (no matrix power, no K(K-1) - 2 diag(A^2)).                                          *)
(* ClusteringImpl!NbrEnumerationEqualsDefinition: DefN = Def, ZeroCaseN = ZeroCase,     *)
(* HasTripleN = HasTriple, InputClassN = InputClass on EVERY model input (all MC cfgs). *)
(* 32-bit: |C| <= 3, d <= 3, n <= 60 dense (or any n with at most ~4*10^6/27 connected  *)
(* triples in all): largest numerator/denominator 27 * 60 * 118 * 117 = 22 366 800.     *)
NbU(n, C, i) == {j \in Others(n, i) : C[i][j] # 0}
NbD(n, C, i) == {j \in Others(n, i) : C[i][j] # 0 \/ C[j][i] # 0}
DPairsOf(S) == {p \in S \X S : p[1] # p[2]}          \* ordered pairs of distinct members
UPairsOf(S) == {p \in S \X S : p[1] < p[2]}          \* unordered pairs
NArcs(C, a, b) == (IF C[a][b] # 0 THEN 1 ELSE 0) + (IF C[b][a] # 0 THEN 1 ELSE 0)
SArcs(C, a, b) == C[a][b] + C[b][a]                  \* sum of the cube roots of the arcs a-b

NTriplesU(n, C, i) == Cardinality(DPairsOf(NbU(n, C, i)))
NClosedU(n, C, i) == {p \in DPairsOf(NbU(n, C, i)) : C[p[1]][p[2]] # 0}
NTriplesD(n, C, i) == Sum(DPairsOf(NbD(n, C, i)), LAMBDA p : NArcs(C, i, p[1]) * NArcs(C, i, p[2]))
NTriCountD(n, C, i) == Sum(UPairsOf(NbD(n, C, i)),
                           LAMBDA p : NArcs(C, i, p[1]) * NArcs(C, p[1], p[2]) * NArcs(C, p[2], i))
NTriSumD(n, C, i) == Sum(UPairsOf(NbD(n, C, i)),
                         LAMBDA p : SArcs(C, i, p[1]) * SArcs(C, p[1], p[2]) * SArcs(C, p[2], i))

NClustBU(n, C) == [i \in 1..n |-> Frac0(Cardinality(NClosedU(n, C, i)), NTriplesU(n, C, i))]
NClustWU(n, C, d) ==
  [i \in 1..n |-> Frac0(Sum(NClosedU(n, C, i), LAMBDA p : IntensityU(C, i, p)),
                        D3(d) * NTriplesU(n, C, i))]
NTransBU(n, C) == <<Sum(1..n, LAMBDA i : Cardinality(NClosedU(n, C, i))),
                    Sum(1..n, LAMBDA i : NTriplesU(n, C, i))>>
NTransWU(n, C, d) ==
  <<Sum(1..n, LAMBDA i : Sum(NClosedU(n, C, i), LAMBDA p : IntensityU(C, i, p))),
    D3(d) * Sum(1..n, LAMBDA i : NTriplesU(n, C, i))>>
NClustBD(n, C) == [i \in 1..n |-> Frac0(NTriCountD(n, C, i), NTriplesD(n, C, i))]
NClustWD(n, C, d) == [i \in 1..n |-> Frac0(NTriSumD(n, C, i), D3(d) * NTriplesD(n, C, i))]
NTransBD(n, C) == <<Sum(1..n, LAMBDA i : NTriCountD(n, C, i)), Sum(1..n, LAMBDA i : NTriplesD(n, C, i))>>
NTransWD(n, C, d) == <<Sum(1..n, LAMBDA i : NTriSumD(n, C, i)),
                       D3(d) * Sum(1..n, LAMBDA i : NTriplesD(n, C, i))>>
NZhNum(n, P, i) ==
  Sum(DPairsOf(NbU(n, P, i)), LAMBDA p : Cube(P[i][p[1]]) * Cube(P[p[1]][p[2]]) * Cube(P[p[2]][i]))
NZhDen(n, P, i) ==
  LET s1 == Sum(NbU(n, P, i), LAMBDA j : Cube(P[i][j]))
      s2 == Sum(NbU(n, P, i), LAMBDA j : Cube(P[i][j]) * Cube(P[i][j]))
  IN s1 * s1 - s2
NClustZhang(n, P, d) == [i \in 1..n |-> Frac0(NZhNum(n, P, i), D3(d) * NZhDen(n, P, i))]
NCoDen(n, C, i) == Sum(DPairsOf(NbU(n, C, i)), LAMBDA p : Abs(Cube(C[i][p[1]]) * Cube(C[i][p[2]])))
NClustCostantini(n, C, d) == [i \in 1..n |-> Frac0(NZhNum(n, C, i), D3(d) * NCoDen(n, C, i))]

DefN(fn, n, C, d) ==
  LET Pos == PosPart(n, C)  Neg == NegPart(n, C) IN
  CASE fn = FnBU  -> <<NClustBU(n, C)>>
    [] fn = FnBD  -> <<NClustBD(n, C)>>
    [] fn = FnWU  -> <<NClustWU(n, C, d)>>
    [] fn = FnWD  -> <<NClustWD(n, C, d)>>
    [] fn = FnSD  -> <<NClustWU(n, Pos, d), NClustWU(n, Neg, d)>>
    [] fn = FnSZ  -> <<NClustZhang(n, Pos, d), NClustZhang(n, Neg, d)>>
    [] fn = FnSC  -> <<NClustCostantini(n, C, d)>>
    [] fn = FnTBU -> << <<NTransBU(n, C)>> >>
    [] fn = FnTBD -> << <<NTransBD(n, C)>> >>
    [] fn = FnTWU -> << <<NTransWU(n, C, d)>> >>
    [] fn = FnTWD -> << <<NTransWD(n, C, d)>> >>

(* ZeroCase / OnTriangle / HasTriple / InputClass likewise; P = PartOf(fn, v, n, C)      *)
OnTriangleN(fn, n, P, i) ==
  IF fn \in DirectedFns
  THEN \E p \in UPairsOf(NbD(n, P, i)) : P[p[1]][p[2]] # 0 \/ P[p[2]][p[1]] # 0
  ELSE \E p \in DPairsOf(NbU(n, P, i)) : P[p[1]][p[2]] # 0
ZeroCaseN(fn, n, P, i) ==
  \/ Cardinality(IF fn \in DirectedFns THEN NbD(n, P, i) ELSE NbU(n, P, i)) < 2
  \/ ~OnTriangleN(fn, n, P, i)
HasTripleN(fn, n, C) ==
  \E i \in 1..n : Cardinality(IF fn \in DirectedFns THEN NbD(n, C, i) ELSE NbU(n, C, i)) >= 2
InputClassN(fn, n, C) ==
  LET on == {i \in 1..n : OnTriangleN(fn, n, C, i)} IN
  IF on = {} THEN "triangle_free"
  ELSE IF on = 1..n THEN "every_node_on_triangle" ELSE "some_node_triangle_free"
(* one statement of the equivalence (an invariant of ClusteringImpl, an ASSUME of        *)
(* Trace_Clustering on mid-size instances)                                               *)
NbrEnumerationAgrees(fn, n, C, d) ==
  /\ DefN(fn, n, C, d) = Def(fn, n, C, d)
  /\ \A v \in 1..Len(Def(fn, n, C, d)) : \A i \in 1..n :
        fn \in PerNodeFns => (ZeroCaseN(fn, n, PartOf(fn, v, n, C), i) <=> ZeroCase(fn, v, n, C, i))
  /\ HasTripleN(fn, n, C) <=> HasTriple(fn, n, C)
  /\ InputClassN(fn, n, C) = InputClass(fn, n, C)

(* ============ Part 2: the code's pipelines (bct/algorithms/clustering.py) ========== *)
MatMul(n, X, Y) == Mat(n, LAMBDA i, j : Sum(1..n, LAMBDA k : X[i][k] * Y[k][j]))
MatAdd(n, X, Y) == Mat(n, LAMBDA i, j : X[i][j] + Y[i][j])
DiagOf(n, X) == [i \in 1..n |-> X[i][i]]
TraceOf(n, X) == Sum(1..n, LAMBDA i : X[i][i])
RowSum(n, X) == [i \in 1..n |-> Sum(1..n, LAMBDA j : X[i][j])]
SumAll(n, X) == Sum(1..n, LAMBDA i : Sum(1..n, LAMBDA j : X[i][j]))
VecSum(n, x) == Sum(1..n, LAMBDA i : x[i])
Diag3(n, X) == DiagOf(n, MatMul(n, X, MatMul(n, X, X)))      \* np.diag(np.dot(X, np.dot(X, X)))
(* K[np.where(cyc3 == 0)] = np.inf                                                    *)
MaskWhereZero(n, K, cyc3) == [i \in 1..n |-> IF cyc3[i] = 0 THEN INF ELSE K[i]]
(* K*(K-1) in IEEE arithmetic with K possibly inf                                      *)
KKm1(k) == IF IsInf(k) THEN INF ELSE k * (k - 1)
SubInf(x, y) == IF IsInf(x) THEN INF ELSE x - y
AnyInf(n, x) == \E i \in 1..n : IsInf(x[i])
(* num/den with den possibly inf (-> 0.0) or 0 (-> nan/inf, kept as Q = 0); `scale`   *)
(* is the power of d that the integer registers leave out                             *)
Ratio(num, den, scale) == IF IsInf(den) THEN <<0, 1>> ELSE <<num, den * scale>>
Put(r, name, v) == (name :> v) @@ r

(* the programs: sequences of <<statement, loop index>>                               *)
Stmts(names) == [k \in 1..Len(names) |-> <<names[k], 0>>]
Loop(name, n) == [k \in 1..n |-> <<name, k>>]
Prog(fn, n) ==
  CASE fn = FnBU  -> Stmts(<<"C0">>) \o Loop("u", n)
    [] fn = FnBD  -> Stmts(<<"S", "K", "cyc3", "mask", "CYC3", "C">>)
    [] fn = FnWD  -> Stmts(<<"A", "S", "K", "cyc3", "mask", "CYC3", "C">>)
    [] fn = FnWU  -> Stmts(<<"K", "ws", "cyc3", "mask", "C">>)
    [] fn = FnTBU -> Stmts(<<"tri3", "tri2", "T">>)
    [] fn = FnTBD -> Stmts(<<"S", "K", "cyc3", "CYC3", "T">>)
    [] fn = FnTWD -> Stmts(<<"A", "S", "K", "cyc3", "CYC3", "T">>)      \* intended
    [] fn = FnTWDcoded -> Stmts(<<"A", "S", "K", "cyc3", "mask", "CYC3", "T">>)
    [] fn = FnTWU -> Stmts(<<"K", "ws", "cyc3", "T">>)
    [] fn = FnSD  -> Stmts(<<"W_pos", "K_pos", "ws_pos", "cyc3_pos", "mask_pos", "C_pos",
                             "W_neg", "K_neg", "ws_neg", "cyc3_neg", "mask_neg", "C_neg">>)
    [] fn = FnSZ  -> Stmts(<<"W_pos", "W_neg", "zeros">>) \o Loop("i", n)
                     \o Stmts(<<"mask_pos", "C_pos", "mask_neg", "C_neg">>)
    [] fn = FnSC  -> Stmts(<<"zeros">>) \o Loop("i", n) \o Stmts(<<"mask", "C">>)

(* registers hold integers: cube-root numerators (scale d) in S/ws, true weights'      *)
(* numerators Cube(c) (scale d^3) in the Zhang/Costantini loops                        *)
InitReg(C, d) == [W |-> C, d |-> d]
ZeroVec(n) == [i \in 1..n |-> 0]
AllPairs(n) == (1..n) \X (1..n)

(* ---- binary / weighted, directed: clustering_coef_bd/_wd, transitivity_bd/_wd ------ *)
StepDir(fn, n, st, k, r) ==
  LET d == r.d
      A == IF fn \in {FnBD, FnTBD} THEN r.W ELSE r.A        \* bd: the parameter itself
      scale == IF fn \in {FnBD, FnTBD} THEN 1 ELSE D3(d)
  IN
  CASE st = "A"    -> Put(r, "A", Bin(n, r.W))               \* np.logical_not(W == 0)
    [] st = "S"    -> Put(r, "S", MatAdd(n, r.W, Transpose(n, r.W)))
                                                           \* A + A.T | cuberoot(W)+cuberoot(W.T)
    [] st = "K"    -> Put(r, "K", RowSum(n, MatAdd(n, A, Transpose(n, A))))
    [] st = "cyc3" -> LET s3 == Force(Diag3(n, r.S)) IN          \* evaluated once, not once per i
                      Put(r, "cyc3", Force([i \in 1..n |-> s3[i] \div 2]))
    [] st = "mask" -> Put(r, "K", MaskWhereZero(n, r.K, r.cyc3))
    [] st = "CYC3" -> LET a2 == DiagOf(n, MatMul(n, A, A)) IN
                      Put(r, "CYC3", [i \in 1..n |-> SubInf(KKm1(r.K[i]), 2 * a2[i])])
    [] st = "C"    -> Put(r, "out", << [i \in 1..n |-> Ratio(r.cyc3[i], r.CYC3[i], scale)] >>)
    [] st = "T"    -> Put(r, "out",
                        << << IF AnyInf(n, r.CYC3) THEN <<0, 1>>      \* finite / inf = 0.0
                              ELSE <<VecSum(n, r.cyc3), VecSum(n, r.CYC3) * scale>> >> >>)

(* ---- weighted undirected on a matrix P of cube-root numerators --------------------- *)
WU_K(n, P) == RowSum(n, Bin(n, P))
WU_cyc3(n, ws) == Diag3(n, ws)
WU_C(n, K, cyc3, d) == [i \in 1..n |-> Ratio(cyc3[i], KKm1(K[i]), D3(d))]

StepWU(fn, n, st, k, r) ==
  CASE st = "K"    -> Put(r, "K", WU_K(n, r.W))
    [] st = "ws"   -> Put(r, "ws", r.W)                      \* cuberoot(W): the numerators
    [] st = "cyc3" -> Put(r, "cyc3", WU_cyc3(n, r.ws))
    [] st = "mask" -> Put(r, "K", MaskWhereZero(n, r.K, r.cyc3))
    [] st = "C"    -> Put(r, "out", << WU_C(n, r.K, r.cyc3, r.d) >>)
    [] st = "T"    -> Put(r, "out",
                        << << <<VecSum(n, r.cyc3),
                                Sum(1..n, LAMBDA i : KKm1(r.K[i])) * D3(r.d)>> >> >>)

(* ---- clustering_coef_bu: for u in range(n) ------------------------------------------ *)
StepBU(n, st, u, r) ==
  CASE st = "C0" -> Put(r, "C", [i \in 1..n |-> <<0, 1>>])   \* np.zeros((n,))
    [] st = "u"  ->
         LET G == r.W
             V == SelectSeq([v \in 1..n |-> v], LAMBDA v : G[u][v] # 0)     \* np.where(G[u, :])
             kk == Len(V)
             S == Sum((1..kk) \X (1..kk), LAMBDA p : G[V[p[1]]][V[p[2]]])   \* G[np.ix_(V, V)]
             C1 == IF kk >= 2 THEN [r.C EXCEPT ![u] = <<S, kk * kk - kk>>] ELSE r.C
         IN Put(Put(r, "C", C1), "out", <<C1>>)

(* ---- transitivity_bu ----------------------------------------------------------------- *)
StepTBU(n, st, k, r) ==
  LET A == r.W  A2 == MatMul(n, A, A) IN
  CASE st = "tri3" -> Put(r, "tri3", TraceOf(n, MatMul(n, A, A2)))
    [] st = "tri2" -> Put(r, "tri2", SumAll(n, A2) - TraceOf(n, A2))
    [] st = "T"    -> Put(r, "out", << << <<r.tri3, r.tri2>> >> >>)

(* ---- clustering_coef_wu_sign --------------------------------------------------------- *)
StepSD(n, st, k, r) ==
  CASE st = "W_pos"    -> Put(r, "W_pos", PosPart(n, r.W))
    [] st = "K_pos"    -> Put(r, "K_pos", WU_K(n, r.W_pos))
    [] st = "ws_pos"   -> Put(r, "ws_pos", r.W_pos)
    [] st = "cyc3_pos" -> Put(r, "cyc3_pos", WU_cyc3(n, r.ws_pos))
    [] st = "mask_pos" -> Put(r, "K_pos", MaskWhereZero(n, r.K_pos, r.cyc3_pos))
    [] st = "C_pos"    -> Put(r, "C_pos", WU_C(n, r.K_pos, r.cyc3_pos, r.d))
    [] st = "W_neg"    -> Put(r, "W_neg", NegPart(n, r.W))
    [] st = "K_neg"    -> Put(r, "K_neg", WU_K(n, r.W_neg))
    [] st = "ws_neg"   -> Put(r, "ws_neg", r.W_neg)
    [] st = "cyc3_neg" -> Put(r, "cyc3_neg", WU_cyc3(n, r.ws_neg))
    [] st = "mask_neg" -> Put(r, "K_neg", MaskWhereZero(n, r.K_neg, r.cyc3_neg))
    [] st = "C_neg"    -> LET c == WU_C(n, r.K_neg, r.cyc3_neg, r.d) IN
                          Put(Put(r, "C_neg", c), "out", <<r.C_pos, c>>)

(* innermost double loop of zhang/costantini for one i, over ALL (j, q) as in the code *)
(* (the diagonal of W is zero, which is what removes j = i, q = i and, in cyc3, j = q)  *)
Loop3(n, X, i) == Sum(AllPairs(n), LAMBDA p : Cube(X[p[1]][i]) * Cube(X[i][p[2]]) * Cube(X[p[1]][p[2]]))
Loop2(n, X, i) == Sum({p \in AllPairs(n) : p[1] # p[2]}, LAMBDA p : Cube(X[p[1]][i]) * Cube(X[i][p[2]]))
Loop2Abs(n, X, i) == Sum({p \in AllPairs(n) : p[1] # p[2]},
                         LAMBDA p : Abs(Cube(X[p[1]][i]) * Cube(X[i][p[2]])))
StepSZ(n, st, i, r) ==
  CASE st = "W_pos" -> Put(r, "W_pos", PosPart(n, r.W))
    [] st = "W_neg" -> Put(r, "W_neg", NegPart(n, r.W))
    [] st = "zeros" -> Put(Put(Put(Put(r, "cyc3_pos", ZeroVec(n)), "cyc2_pos", ZeroVec(n)),
                           "cyc3_neg", ZeroVec(n)), "cyc2_neg", ZeroVec(n))
    [] st = "i" -> Put(Put(Put(Put(r,
                     "cyc3_pos", [r.cyc3_pos EXCEPT ![i] = Loop3(n, r.W_pos, i)]),
                     "cyc3_neg", [r.cyc3_neg EXCEPT ![i] = Loop3(n, r.W_neg, i)]),
                     "cyc2_pos", [r.cyc2_pos EXCEPT ![i] = Loop2(n, r.W_pos, i)]),
                     "cyc2_neg", [r.cyc2_neg EXCEPT ![i] = Loop2(n, r.W_neg, i)])
    [] st = "mask_pos" -> Put(r, "cyc2_pos", MaskWhereZero(n, r.cyc2_pos, r.cyc3_pos))
    [] st = "C_pos" -> Put(r, "C_pos", [i2 \in 1..n |-> Ratio(r.cyc3_pos[i2], r.cyc2_pos[i2], D3(r.d))])
    [] st = "mask_neg" -> Put(r, "cyc2_neg", MaskWhereZero(n, r.cyc2_neg, r.cyc3_neg))
    [] st = "C_neg" -> LET c == [i2 \in 1..n |-> Ratio(r.cyc3_neg[i2], r.cyc2_neg[i2], D3(r.d))] IN
                       Put(Put(r, "C_neg", c), "out", <<r.C_pos, c>>)
StepSC(n, st, i, r) ==
  CASE st = "zeros" -> Put(Put(r, "cyc3", ZeroVec(n)), "cyc2", ZeroVec(n))
    [] st = "i" -> Put(Put(r, "cyc3", [r.cyc3 EXCEPT ![i] = Loop3(n, r.W, i)]),
                       "cyc2", [r.cyc2 EXCEPT ![i] = Loop2Abs(n, r.W, i)])
    [] st = "mask" -> Put(r, "cyc2", MaskWhereZero(n, r.cyc2, r.cyc3))
    [] st = "C" -> Put(r, "out", << [i2 \in 1..n |-> Ratio(r.cyc3[i2], r.cyc2[i2], D3(r.d))] >>)

ExecStep(fn, n, stmt, r) ==
  LET st == stmt[1]  k == stmt[2] IN
  CASE fn \in {FnBD, FnWD, FnTBD, FnTWD, FnTWDcoded} -> StepDir(fn, n, st, k, r)
    [] fn \in {FnWU, FnTWU} -> StepWU(fn, n, st, k, r)
    [] fn = FnBU  -> StepBU(n, st, k, r)
    [] fn = FnTBU -> StepTBU(n, st, k, r)
    [] fn = FnSD  -> StepSD(n, st, k, r)
    [] fn = FnSZ  -> StepSZ(n, st, k, r)
    [] fn = FnSC  -> StepSC(n, st, k, r)

(* the whole pipeline as one operator (used by Trace_Clustering for drift)              *)
RunPipe(fn, n, C, d) ==
  FoldLeft(LAMBDA r, stmt : ExecStep(fn, n, stmt, r), InitReg(C, d), Prog(fn, n)).out
=============================================================================
