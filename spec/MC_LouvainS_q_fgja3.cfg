SPECIFICATION Spec
CONSTANT N = 3
CONSTANT Finetune = TRUE
CONSTANT QType = "gja"
CONSTANT GN = 5
CONSTANT GD = 4
CONSTANT Vals <- VS2
CONSTANT Gen = FALSE
CHECK_DEADLOCK FALSE
INVARIANT BookkeepingInv
INVARIANT AggregationInv
INVARIANT FinalInv
PROPERTY GainIsTrueDelta
PROPERTY MoveRaisesQ
