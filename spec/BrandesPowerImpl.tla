----------------------------- MODULE BrandesPowerImpl -----------------------------
(* C08, L2: the matrix-power machine of bct.algorithms.centrality.betweenness_bin *)
(* (Kintali's formulation), python variable names, one action per loop body:      *)
(*   Setup    d=1; NPd=NSPd=NSP=L=G; NSP[diag]=1; L[diag]=1                        *)
(*   Pow      body of `while np.any(NSPd)`: d+=1; NPd=NPd.G; NSPd=NPd*(L==0);      *)
(*            NSP+=NSPd; L+=d*(NSPd!=0)                                            *)
(*   Finish   L[L==0]=inf; L[diag]=0; NSP[NSP==0]=1; DP=0; diam=d-1                *)
(*   BackStep body of `for d in range(diam,1,-1)`:                                 *)
(*            DP += (((L==d)*(1+DP)/NSP) . G^T) * ((L==d-1)*NSP)                   *)
(*   Return   BC = sum(DP, axis=0)                                                 *)
(* Inputs: every binary graph on N nodes (empty diagonal).  DP is a matrix of      *)
(* exact fractions.  Walk counts stay <= (N-1)^N.                                  *)
EXTENDS Betweenness

CONSTANTS N, Kind
VARIABLES G, pc, d, NPd, NSPd, NSP, L, DP, BC, orc
vars == <<G, pc, d, NPd, NSPd, NSP, L, DP, BC, orc>>

UPairs == {p \in (1..N) \X (1..N) : p[1] < p[2]}
DPairs == {p \in (1..N) \X (1..N) : p[1] # p[2]}
Slots == IF Kind = "dir" THEN DPairs ELSE UPairs
MatOf(E) == Mat(N, LAMBDA i, j : IF <<i, j>> \in E \/ (Kind = "und" /\ <<j, i>> \in E) THEN 1 ELSE 0)

F0 == <<0, 1>>
FAdd(a, b) == FracNorm(FracAdd(a, b))
ZeroF == Mat(N, LAMBDA i, j : F0)
MatMul(X, Y) == Mat(N, LAMBDA i, j : Sum(1..N, LAMBDA k : X[i][k] * Y[k][j]))

Init == /\ \E E \in SUBSET Slots : G = MatOf(E)
        /\ pc = "init" /\ d = 0
        /\ NPd = Zero(N) /\ NSPd = Zero(N) /\ NSP = Zero(N) /\ L = Zero(N)
        /\ DP = ZeroF /\ BC = [k \in 1..N |-> F0] /\ orc = <<>>

(* ghost step: tabulate the L0 answer (explicit enumeration) once per input       *)
Oracle == /\ pc = "init"
          /\ pc' = "start"
          /\ orc' = LET T == MinPathTable(N, G)
                        B == BetwE(N, G) IN
                    [d    |-> Mat(N, LAMBDA s, t : IF s = t THEN 0 ELSE DistE(G, T, s, t)),
                     sig  |-> Mat(N, LAMBDA s, t : IF s = t THEN 1 ELSE SigmaE(T, s, t)),
                     den  |-> B.den, node |-> B.node,
                     depN |-> Mat(N, LAMBDA s, v : DepNodeE(N, T, B.den, s, v))]
          /\ UNCHANGED <<G, d, NPd, NSPd, NSP, L, DP, BC>>

Setup == /\ pc = "start"
         /\ d' = 1
         /\ NPd' = G /\ NSPd' = G
         /\ NSP' = Mat(N, LAMBDA i, j : IF i = j THEN 1 ELSE G[i][j])
         /\ L' = Mat(N, LAMBDA i, j : IF i = j THEN 1 ELSE G[i][j])
         /\ pc' = "pow"
         /\ UNCHANGED <<G, DP, BC, orc>>

AnyNonzero(X) == ~(\A i, j \in 1..N : X[i][j] = 0)   \* (not \E: TLC would branch per witness)

Pow == /\ pc = "pow" /\ AnyNonzero(NSPd)
       /\ d' = d + 1
       /\ NPd' = MatMul(NPd, G)
       /\ NSPd' = Mat(N, LAMBDA i, j : IF L[i][j] = 0 THEN NPd'[i][j] ELSE 0)
       /\ NSP' = Mat(N, LAMBDA i, j : NSP[i][j] + NSPd'[i][j])
       /\ L' = Mat(N, LAMBDA i, j : L[i][j] + (IF NSPd'[i][j] # 0 THEN d' ELSE 0))
       /\ UNCHANGED <<G, pc, DP, BC, orc>>

Finish == /\ pc = "pow" /\ ~AnyNonzero(NSPd)
          /\ L' = Mat(N, LAMBDA i, j : IF i = j THEN 0 ELSE IF L[i][j] = 0 THEN INF ELSE L[i][j])
          /\ NSP' = Mat(N, LAMBDA i, j : IF NSP[i][j] = 0 THEN 1 ELSE NSP[i][j])
          /\ DP' = ZeroF
          /\ d' = d - 1                          \* diam; first value of the for-loop variable
          /\ pc' = "back"
          /\ UNCHANGED <<G, NPd, NSPd, BC, orc>>

(* entry (i,k) of (((L==d)*(1+DP)/NSP) . G^T) * ((L==d-1)*NSP)                      *)
DPd1(i, k) ==
  IF L[i][k] # d - 1 THEN F0
  ELSE LET js == Ascending(N, {j \in 1..N : L[i][j] = d /\ G[k][j] # 0})
           s == FoldLeft(LAMBDA acc, j :
                           FAdd(acc, FracNorm(<<(DP[i][j][2] + DP[i][j][1]) * G[k][j],
                                                DP[i][j][2] * NSP[i][j]>>)),
                         F0, js)
       IN FracNorm(<<s[1] * NSP[i][k], s[2]>>)
BackStep == /\ pc = "back" /\ d > 1
            /\ DP' = Mat(N, LAMBDA i, k : FAdd(DP[i][k], DPd1(i, k)))
            /\ d' = d - 1
            /\ UNCHANGED <<G, pc, NPd, NSPd, NSP, L, BC, orc>>
Return == /\ pc = "back" /\ d <= 1
          /\ BC' = [j \in 1..N |-> FoldLeft(LAMBDA acc, i : FAdd(acc, DP[i][j]), F0, IdSeq(N))]
          /\ pc' = "done"
          /\ UNCHANGED <<G, d, NPd, NSPd, NSP, L, DP, orc>>

Next == Oracle \/ Setup \/ Pow \/ Finish \/ BackStep \/ Return
Spec == Init /\ [][Next]_vars

(* ========================== invariants ======================================== *)
FEq(f, num, den) == f[2] > 0 /\ FracEq(f[1], f[2], num, den)

OracleInv == pc = "start" => OracleAgree(N, G) /\ SumIdentitiesL0(N, G)

(* after the step for length d: L and NSP are complete for every pair at            *)
(* distance <= d (0 elsewhere), NSPd holds the counts of the pairs at distance d    *)
PowInv ==
  pc = "pow" =>
    \A i, j \in 1..N : i # j =>
      /\ L[i][j] = (IF orc.d[i][j] <= d THEN orc.d[i][j] ELSE 0)
      /\ NSP[i][j] = (IF orc.d[i][j] <= d THEN orc.sig[i][j] ELSE 0)
      /\ NSPd[i][j] = (IF orc.d[i][j] = d THEN orc.sig[i][j] ELSE 0)
(* after the loop: L = distance (inf if unreachable), NSP = sigma (1 if unreachable),*)
(* the loop variable starts at the largest finite distance                           *)
TablesInv ==
  pc = "back" =>
    /\ \A i, j \in 1..N : L[i][j] = orc.d[i][j]
    /\ \A i, j \in 1..N : NSP[i][j] = (IF orc.d[i][j] >= INF THEN 1 ELSE orc.sig[i][j])
(* back-propagation by levels: when level d is about to be processed, DP[i][k] is    *)
(* the complete dependency of source i on k for every k at distance >= d from i,     *)
(* and still 0 for the nearer ones                                                   *)
BackInv ==
  pc = "back" =>
    \A i, k \in 1..N :
      IF orc.d[i][k] >= d /\ orc.d[i][k] < INF
      THEN FEq(DP[i][k], orc.depN[i][k], orc.den)
      ELSE DP[i][k][1] = 0
MaxFinite == MaxOf(({0} \cup {orc.d[i][j] : i, j \in 1..N}) \ {INF})
DiamInv == pc = "back" => d <= MaxFinite
ResultInv == pc = "done" => \A v \in 1..N : FEq(BC[v], orc.node[v], orc.den)
=============================================================================
