---------------------------- MODULE Trace_Threshold ----------------------------
(* C17 code -> spec.  One record = one input matrix W (integers over the        *)
(* denominator den), one function, one copy flag and                            *)
(*   threshold_proportional : Call(W, pks[x]/pd, copy) for every x -> outs[x]   *)
(*   threshold_absolute     : Call(W, thr/den, copy)            -> outs[1]      *)
(*   binarize / normalize   : Call(W, copy)                     -> outs[1]      *)
(*   invert                 : Call(W, copy) -> outs[1]; invert(outs[1]) -> out2 *)
(*   weight_conversion      : Call(W, wcm, copy) -> outs[1]; the direct call of *)
(*                            binarize/normalize/invert -> out2                 *)
(*   teachers_round         : Call(pks[x]*K/pd) -> rounds[x]                    *)
(* Every call gets a fresh array holding W.  Observations about the argument:   *)
(*   arg_unchanged[x] = 1 iff the argument array is bit-identical after the     *)
(*   call; result_is_arg[x] = 1 iff the returned object `is` the argument;      *)
(*   arg_after[x] = the argument after the call (copy=1: in input units,        *)
(*   copy=0: encoded like outs[x]).                                             *)
(* Encodings: threshold_* and binarize outputs in input units (integers);       *)
(* normalize / invert outputs as round(x*10^6).                                 *)
EXTENDS Threshold, TraceBase

Calls(r) == 1..Len(r.outs)
MagOK(n, W) == \A i, j \in 1..n : Abs(W[i][j]) <= 100

(* ---- copy flag: "With copy=True the argument is untouched and with           *)
(* copy=False the argument itself holds the result" --------------------------- *)
CopyTrueLeavesArg(r, x) ==
  r.copy = 1 => r.arg_unchanged[x] = 1 /\ r.arg_after[x] = r.W
CopyFalseReturnsArg(r, x) ==
  r.copy = 0 => r.result_is_arg[x] = 1 /\ r.arg_after[x] = r.outs[x]
CopyChain(r, rest) ==
  Chk("CopyTrueLeavesArg",   \A x \in Calls(r) : CopyTrueLeavesArg(r, x),
  Chk("CopyFalseReturnsArg", \A x \in Calls(r) : CopyFalseReturnsArg(r, x),
  rest))

WellFormed(r, ncalls) ==
  /\ r.malformed = ""
  /\ Len(r.outs) = ncalls /\ Len(r.arg_after) = ncalls
  /\ Len(r.arg_unchanged) = ncalls /\ Len(r.result_is_arg) = ncalls
  /\ \A x \in 1..ncalls : IsSquare(r.n, r.outs[x]) /\ IsSquare(r.n, r.arg_after[x])

(* ---- threshold_proportional ------------------------------------------------ *)
PropAt(r, x) ==
  LET n == r.n  W == r.W  Out == r.outs[x]  pn == r.pks[x]  pd == r.pd IN
  (* "the diagonal is cleared"                                                  *)
  Chk("DiagCleared",             DiagCleared(n, Out),
  (* "symmetric input gives symmetric output"                                   *)
  Chk("SymmetricStaysSymmetric", SymmetricStaysSymmetric(n, W, Out),
  (* "keeps ... connections": a kept connection keeps its weight, none appears  *)
  Chk("KeptAreInputEntries",     KeptAreInputEntries(n, W, Out),
  (* "keeps exactly round(p x number of possible connections) connections (all  *)
  (* of them if fewer exist)"                                                   *)
  Chk("CountExact",              CountExact(n, W, pn, pd, Out),
  (* "these are the strongest ones"                                             *)
  Chk("KeptAreStrongest",        KeptAreStrongest(n, W, Out),
  "ok")))))
JudgeProportional(r) ==
  LET at == {PropAt(r, x) : x \in 1..Len(r.pks)} IN
  Skip("negative_weight", \E i, j \in 1..r.n : r.W[i][j] < 0,
  Skip("p_outside_0_1",   \E x \in 1..Len(r.pks) : r.pks[x] < 0 \/ r.pks[x] > r.pd,
  Chk("Returns",                 r.raised = "",
  Chk("WellFormed",              WellFormed(r, Len(r.pks)),
  Chk("DiagCleared",             "DiagCleared" \notin at,
  Chk("SymmetricStaysSymmetric", "SymmetricStaysSymmetric" \notin at,
  Chk("KeptAreInputEntries",     "KeptAreInputEntries" \notin at,
  Chk("CountExact",              "CountExact" \notin at,
  Chk("KeptAreStrongest",        "KeptAreStrongest" \notin at,
  CopyChain(r, "ok"))))))))))
DriftProportional(r) ==
  IF r.raised # "" \/ ~WellFormed(r, Len(r.pks)) \/ \E i, j \in 1..r.n : r.W[i][j] < 0 THEN "na"
  ELSE IF \A x \in 1..Len(r.pks) : r.outs[x] = ImplOut(r.n, r.W, r.pks[x], r.pd)
       THEN "same" ELSE "differs:ties"

(* ---- the elementwise utilities --------------------------------------------- *)
JudgeAbsolute(r) ==
  Chk("Returns",    r.raised = "",
  Chk("WellFormed", WellFormed(r, 1),
  (* "keeps exactly the off-diagonal entries not below the threshold"           *)
  Chk("AbsoluteKeepsExactly", r.outs[1] = AbsOut(r.n, r.W, r.thr),
  CopyChain(r, "ok"))))
JudgeBinarize(r) ==
  Chk("Returns",    r.raised = "",
  Chk("WellFormed", WellFormed(r, 1),
  (* "binarize maps every nonzero to 1"                                         *)
  Chk("BinarizeMaps", r.outs[1] = Bin(r.n, r.W),
  CopyChain(r, "ok"))))
JudgeNormalize(r) ==
  Skip("all_zero",        \A i, j \in 1..r.n : r.W[i][j] = 0,
  Skip("magnitude_bound", ~MagOK(r.n, r.W),
  Chk("Returns",    r.raised = "",
  Chk("WellFormed", WellFormed(r, 1),
  (* "normalize scales the largest magnitude to 1"                              *)
  Chk("NormalizeMaxIsOne", NormalizeOK(r.n, r.W, r.outs[1]),
  CopyChain(r, "ok"))))))
JudgeInvert(r) ==
  Skip("magnitude_bound", ~MagOK(r.n, r.W) \/ r.den > 4,
  Chk("Returns",    r.raised = "",
  Chk("WellFormed", WellFormed(r, 1) /\ IsSquare(r.n, r.out2),
  (* "invert maps every nonzero w to 1/w"                                       *)
  Chk("InvertMaps",       InvertOK(r.n, r.W, r.den, r.outs[1]),
  (* "and undoes itself"                                                        *)
  Chk("InvertInvolution", InvolutionOK(r.n, r.W, r.den, r.out2),
  CopyChain(r, "ok"))))))
JudgeConversion(r) ==
  Skip("unknown_command", Dispatch(r.wcm) = "none",
  Skip("all_zero",        r.wcm = "normalize" /\ \A i, j \in 1..r.n : r.W[i][j] = 0,
  Chk("Returns",    r.raised = "",
  Chk("WellFormed", WellFormed(r, 1) /\ IsSquare(r.n, r.out2),
  (* "weight_conversion dispatches to these": same result as the direct call    *)
  Chk("DispatchMatches", SameMatrix(r.n, r.outs[1], r.out2, 1),
  CopyChain(r, "ok"))))))
(* the rounding used for the count: ".5 rounds up" on the dyadic grid           *)
JudgeRound(r) ==
  Chk("Returns",    r.raised = "",
  Chk("WellFormed", r.malformed = "" /\ Len(r.rounds) = Len(r.pks),
  Chk("RoundsHalfUp", \A x \in 1..Len(r.pks) : r.rounds[x] = TRound(r.pks[x] * r.K, r.pd),
  "ok")))

Judge(r) ==
  IF r.fn = "threshold_proportional"
    THEN <<JudgeProportional(r), DriftProportional(r),
           IF SymOffDiag(r.n, r.W) THEN "symmetric" ELSE "asymmetric">>
  ELSE IF r.fn = "threshold_absolute" THEN <<JudgeAbsolute(r), "na", "any">>
  ELSE IF r.fn = "binarize" THEN <<JudgeBinarize(r), "na", "any">>
  ELSE IF r.fn = "normalize" THEN <<JudgeNormalize(r), "na", "any">>
  ELSE IF r.fn = "invert" THEN <<JudgeInvert(r), "na", "any">>
  ELSE IF r.fn = "weight_conversion" THEN <<JudgeConversion(r), "na", r.wcm>>
  ELSE IF r.fn = "teachers_round" THEN <<JudgeRound(r), "na", "any">>
  ELSE <<"skip:unknown_function", "na", "any">>

VARIABLES tid, verdict
TInit == tid \in 1..Len(Recs) /\ verdict = <<>>
TNext == /\ verdict = <<>>
         /\ verdict' = Judge(Recs[tid])
         /\ PrintT(VLine(tid, verdict'))
         /\ UNCHANGED tid
TSpec == TInit /\ [][TNext]_<<tid, verdict>>
=============================================================================
