#!/bin/sh
# writes MC_Equivariance_<mode>[_thorough].cfg (one TLC run per mode; the harness runs them concurrently)
gen() {  # name modes NU ND NWU NWD NS WMax [PFirst]
cat > "MC_Equivariance_$1.cfg" <<EOT
SPECIFICATION Spec
CONSTANT NU = $3
CONSTANT ND = $4
CONSTANT NWU = $5
CONSTANT NWD = $6
CONSTANT NS = $7
CONSTANT WMax = $8
CONSTANT Modes = {$2}
CONSTANT PFirst = ${9:-{1, 2, 3, 4, 5\}}
INVARIANT GroupLaws
INVARIANT DegreesEquivariant
INVARIANT ReachEquivariant
INVARIANT ComponentLabelsEquivariant
INVARIANT DistEquivariant
INVARIANT BetwEquivariant
INVARIANT BetwEnumEquivariant
INVARIANT ClustEquivariant
INVARIANT CoreEquivariant
INVARIANT ClassInvariant
CHECK_DEADLOCK FALSE
EOT
}
for m in dir wund sign; do
  gen "$m" "\"$m\"" 4 3 3 3 3 2
done
gen und_s1 '"und"' 4 3 3 3 3 2 "{1, 2}"
gen und_s2 '"und"' 4 3 3 3 3 2 "{3, 4}"
for k in 1 2 3; do
  gen "wdir_s$k" '"wdir"' 4 3 3 3 3 2 "{$k}"
done
gen und_thorough  '"und"'  4 4 4 3 3 2
for k in 1 2 3 4; do
  gen "dir_thorough_s$k"  '"dir"'  4 4 4 3 3 2 "{$k}"
  gen "wund_thorough_s$k" '"wund"' 4 4 4 3 3 2 "{$k}"
done
gen wdir_thorough '"wdir"' 5 4 4 3 3 3
gen sign_thorough '"sign"' 5 4 4 3 3 3
