SPECIFICATION Spec
CONSTANT N = 5
CONSTANT Objective = "modularity"
CONSTANT Dir = FALSE
CONSTANT GN = 1
CONSTANT GD = 1
CONSTANT Vals <- V01
CONSTANT Gen = TRUE
CONSTANT AllStarts = TRUE
CHECK_DEADLOCK FALSE
