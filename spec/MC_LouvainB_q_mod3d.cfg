SPECIFICATION Spec
CONSTANT N = 3
CONSTANT Objective = "modularity"
CONSTANT Dir = FALSE
CONSTANT GN = 1
CONSTANT GD = 1
CONSTANT Vals <- V012
CONSTANT Gen = FALSE
CONSTANT AllStarts = TRUE
CHECK_DEADLOCK FALSE
INVARIANT BookkeepingInv
INVARIANT AggregationInv
INVARIANT ObjIsModularity
PROPERTY MoveRaisesObj
CONSTANT DiagVals <- DiagVals01
