-------------------------------- MODULE MotifLibImpl --------------------------------
(* X03, L2: make_motif34lib (motif3generate / motif4generate) as a machine.           *)
(*                                                                                   *)
(*   for i in range(2**NC):                       action GenStep                      *)
(*     G = the pattern whose cells, in column-major order, are the bits of i          *)
(*     if the subgraph is weakly connected (K = 3: all(ko + ki); K = 4: two rounds    *)
(*         of neighbourhood growth from node 0 in G + G.T):                           *)
(*       CL[n] = degree rows sorted lexicographically;  M[n] = cells of G;  n += 1    *)
(*   ID = rank of CL among the distinct labels (np.unique), K = 3: Sporns-Koetter     *)
(*        renumbering; rows sorted by ID; N = edges per row; Mn = decimal hash        *)
(*                                                                                   *)
(* Proved here: the generator's connectivity tests are weak connectivity; exactly     *)
(* 54 / 3834 rows are produced (the preallocated arrays are neither overrun nor left  *)
(* partly empty); the sorted degree label is a complete isomorphism invariant of the  *)
(* connected patterns of size 3 and 4, hence ID is a bijection between the 13 / 199   *)
(* motif classes (canonical forms under S_K, Motifs.tla) and 1..13 / 1..199.          *)
EXTENDS Motifs
CONSTANT K
VARIABLES gi, grows, gpc
gvars == <<gi, grows, gpc>>

RowCap == IF K = 3 THEN 54 ELSE 3834          \* np.zeros((54, 6)) / np.zeros((3834, 12))

Init == gi = 0 /\ grows = <<>> /\ gpc = "loop"
GenStep == /\ gpc = "loop" /\ gi < NCodes(K)
           /\ grows' = IF GenConnected(K, gi) THEN Append(grows, gi) ELSE grows
           /\ gi' = gi + 1
           /\ UNCHANGED gpc
Finish == /\ gpc = "loop" /\ gi = NCodes(K)
          /\ gpc' = "done"
          /\ UNCHANGED <<gi, grows>>
Next == GenStep \/ Finish
Spec == Init /\ [][Next]_gvars

(* the generator's test is weak connectivity (L0), pattern by pattern               *)
ConnTestInv == (gpc = "loop" /\ gi < NCodes(K)) => (GenConnected(K, gi) <=> gi \in ConnCodes(K))
(* M[n, :] = ... never writes past the preallocated rows                              *)
CapacityInv == Len(grows) <= RowCap
RowsInv == /\ \A k \in 1..(Len(grows) - 1) : grows[k] < grows[k + 1]
           /\ \A k \in DOMAIN grows : grows[k] \in ConnCodes(K)
(* at the end: every connected pattern once, the arrays exactly full                  *)
FinalRowsInv ==
  gpc = "done" => /\ Len(grows) = RowCap
                  /\ {grows[k] : k \in DOMAIN grows} = ConnCodes(K)
                  /\ GenCodes(K) = ConnCodes(K)
(* the numbers of the L0 classification                                               *)
ClassCountInv ==
  gpc = "done" => /\ Cardinality(Classes(K)) = NumClasses(K)
                  /\ Cardinality(ConnCodes(K)) = RowCap
                  /\ \A c \in ConnCodes(K) : Orbit(K, c) = OrbitByRelabel(K, c)
                  /\ \A c \in ConnCodes(K) : ClassTab(K)[c] \in Orbit(K, c) /\ ClassTab(K)[ClassTab(K)[c]] = ClassTab(K)[c]
                  \* every orbit has K!/|Aut| members and the classes partition the patterns
                  /\ \A cl \in Classes(K) : ClassMembers(K, cl) = Orbit(K, cl)
(* the canonical label separates the classes and is constant on them                  *)
LabelInv ==
  gpc = "done" =>
     LET lt == LabelTab(K)
         pairs == {<<ClassTab(K)[c], lt[c]>> : c \in ConnCodes(K)}
     IN /\ Cardinality(pairs) = NumClasses(K)
        /\ Cardinality({p[2] : p \in pairs}) = NumClasses(K)
(* hence the IDs are a bijection classes <-> 1..13 / 1..199                           *)
IdInv ==
  gpc = "done" =>
     LET ids == GenId(K) IN
     /\ DOMAIN ids = ConnCodes(K)
     /\ {ids[c] : c \in ConnCodes(K)} = 1..NumClasses(K)
     /\ Cardinality({<<ClassTab(K)[c], ids[c]>> : c \in ConnCodes(K)}) = NumClasses(K)
(* the functional sub-class bag depends on the class only                             *)
SubBagInv ==
  gpc = "done" => \A c \in ConnCodes(K) : SubClassBag(K, c) = SubBagTab(K)[ClassTab(K)[c]]
(* hashes: the decimal hash is injective on patterns, N = number of edges            *)
HashInv ==
  gpc = "done" => Cardinality({Dec(K, c) : c \in AllCodes(K)}) = NCodes(K)
=============================================================================
