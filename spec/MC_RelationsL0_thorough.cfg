SPECIFICATION Spec
CONSTANT NG = 4
CONSTANT NS = 5
CONSTANT WMax = 2
CONSTANT Modes = {"dir01", "symw"}
INVARIANT WeightedIsBinaryOn01Dir
INVARIANT DistanceWeiIsBinOn01
INVARIANT UndirectedReductionsOn01
INVARIANT DirectedIsUndirectedOnSymW
INVARIANT ClassesAgree
CHECK_DEADLOCK FALSE
