SPECIFICATION Spec
CONSTANT Domains <- QDom
INVARIANT CycleLemmaInv
INVARIANT GrowInv
INVARIANT TreeInv
INVARIANT ClusInv
INVARIANT IsoInv
INVARIANT RunInv
CHECK_DEADLOCK FALSE
