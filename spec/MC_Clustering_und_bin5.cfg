SPECIFICATION Spec
CONSTANT N = 5
CONSTANT Kind = "und"
CONSTANT Vals <- V01
CONSTANT D = 1
CONSTANT Fns <- FnsUndBin
INVARIANT RefinesDefinition
INVARIANT NbrEnumerationEqualsDefinition
INVARIANT PrefixInv
INVARIANT InUnitInterval
INVARIANT ZeroWhenNoTriangleOrDegLT2
INVARIANT PositiveOnTriangle
INVARIANT MaskInv
INVARIANT HalvingExact
INVARIANT DenominatorInv
INVARIANT NoNaN
INVARIANT DefectCharacterisation
CHECK_DEADLOCK FALSE
