SPECIFICATION FairSpec
CONSTANT Domains <- QDom
INVARIANT FinalInv
PROPERTY Terminates
CHECK_DEADLOCK FALSE
