SPECIFICATION Spec
CONSTANT K = 4
INVARIANT ConnTestInv
INVARIANT CapacityInv
INVARIANT RowsInv
INVARIANT FinalRowsInv
INVARIANT ClassCountInv
INVARIANT LabelInv
INVARIANT IdInv
INVARIANT SubBagInv
INVARIANT HashInv
CHECK_DEADLOCK FALSE
