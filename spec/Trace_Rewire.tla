---------------------------- MODULE Trace_Rewire ----------------------------
(* C01 / C11 / C06 code -> spec.  One record = one real call of a rewiring       *)
(* routine with its hook events (one per attempt, emitted after the state         *)
(* change).  TLC steps through the events: one state per event.                   *)
(*   - property clauses are evaluated on the LOGGED state of the real code        *)
(*     (matrix R, edge list i/j) after every accepted swap and on the returned    *)
(*     values at the end;                                                         *)
(*   - the L2 model state `ms` (Rewire!ApplySwap / Flip / Accepts) is advanced     *)
(*     with the logged parameters and compared with the logged state: a           *)
(*     difference is "drift" (refinement mismatch), reported but never a          *)
(*     violation; the model is then re-synchronised so that the rest of the       *)
(*     trace is still checked.                                                    *)
(* r.prop selects which property's clauses are judged.                            *)
EXTENDS Rewire, TraceBase

VARIABLES tid, l, ms, lastR, verdict, drift
tvars == <<tid, l, ms, lastR, verdict, drift>>

Var(r) == [dir |-> r.dir = 1, conn |-> r.conn = 1, latt |-> r.latt = 1, mask |-> r.mask = 1]
IsSigned(r) == r.signed = 1
(* the matrix the loop starts from: latticisers first re-index by ind_rp           *)
LoopInput(r) == IF r.latt = 1 /\ r.raised = "" THEN Reindex(r.n, r.R0, r.ind_rp) ELSE r.R0
LoopOutput(r) == IF r.latt = 1 THEN r.Rrp ELSE r.out
DistM(r) == IF Len(r.D) = 0 THEN DefaultD(r.n) ELSE r.D

(* ---------------- per-step property clauses (after an accepted swap) --------- *)
StepClausesC01(r, ev, R) ==
  LET n == r.n  Rp == LoopInput(r)  v == Var(r) IN
  Chk("StepDegrees",    SameDegrees(n, Rp, R),
  Chk("StepBag",        SameBag(n, Rp, R),
  Chk("StepNoNewDiag",  NoNewDiag(n, Rp, R),
  Chk("StepSymmetric",  v.dir \/ IsSym(n, R),
  Chk("StepEdgeListSync",
        SyncInv(n, [R |-> R, ei |-> ev.i, ej |-> ev.j, eff |-> ev.eff], v),
  "ok")))))
StepClausesC11(r, ev, R) ==
  LET n == r.n  v == Var(r) IN
  Chk("StepConnected",  ~v.conn \/ (IF v.dir THEN StronglyConnected(n, R) ELSE Connected(n, R)),
  Chk("StepLatticeCost", ~v.latt \/ LatticeCost(n, DistM(r), R) <= LatticeCost(n, DistM(r), lastR),
  Chk("StepMask",       ~v.mask \/ \A i, j \in 1..n : (R[i][j] # 0 /\ r.R0[i][j] = 0) => r.B[i][j] = 0,
  "ok")))
StepClausesC06(r, ev, R) ==
  LET n == r.n IN
  Chk("StepSignedDegrees", SameSignedDegrees(n, r.R0, R),
  Chk("StepPosBag",        SignBag(n, R, 1) = SignBag(n, r.R0, 1),
  Chk("StepNegBag",        SignBag(n, R, -1) = SignBag(n, r.R0, -1),
  Chk("StepDiagEmpty",     DiagZero(n, R),
  Chk("StepSymmetric",     r.dir = 1 \/ IsSym(n, R),
  "ok")))))
StepClauses(r, ev, R) ==
  IF r.prop = "C01" THEN StepClausesC01(r, ev, R)
  ELSE IF r.prop = "C11" THEN StepClausesC11(r, ev, R)
  ELSE StepClausesC06(r, ev, R)

(* ---------------- per-call property clauses ---------------------------------- *)
FinalC01(r) ==
  LET n == r.n  v == Var(r)  out == r.out IN
  (* randomizer_bin_und documents BCTParamError("No possible randomization") *)
  Skip("rejected_as_not_randomizable", r.fn = "randomizer_bin_und" /\ r.raised = "BCTParamError",
  Chk("Returns",        r.raised = "",
  Chk("WellFormed",     r.malformed = "",
  Chk("DegIn",          InDegs(n, out) = InDegs(n, r.R0),
  Chk("DegOut",         OutDegs(n, out) = OutDegs(n, r.R0),
  Chk("Bag",            SameBag(n, r.R0, out),
  Chk("NoNewDiag",      NoNewDiag(n, r.R0, out),
  Chk("Symmetric",      v.dir \/ IsSym(n, out),
  Chk("OutStrength",    ~v.dir \/ OutStrs(n, out) = OutStrs(n, r.R0),
  Chk("ZeroEffIsIdentity", (r.eff_out = 0 \/ r.zero_requested = 1) => out = r.R0,
  Chk("RrpIsRlattReindexed", ~v.latt \/ r.Rrp = Reindex(n, out, r.ind_rp),
  Chk("IndRpIsPermutation",  ~v.latt \/ IsPerm(n, r.ind_rp),
  "ok"))))))))))))

FinalC11(r) ==
  LET n == r.n  v == Var(r)  out == r.out
      inputOK == (v.dir \/ IsSym(n, r.R0))
                 /\ (IF v.dir THEN StronglyConnected(n, r.R0) ELSE Connected(n, r.R0))
  IN
  IF v.conn /\ ~v.dir /\ ~inputOK
  THEN Chk("RejectedWithBCTParamError", r.raised = "BCTParamError", "ok")
  ELSE IF v.conn /\ v.dir /\ ~inputOK THEN "skip:input_not_strongly_connected"
  ELSE
  Chk("Returns",        r.raised = "",
  Chk("WellFormed",     r.malformed = "",
  Chk("OutputConnected", ~v.conn \/ (IF v.dir THEN StronglyConnected(n, out) ELSE Connected(n, out)),
  Chk("LatticeCostNotIncreased",
        ~v.latt \/ LatticeCost(n, DistM(r), r.Rrp) <= LatticeCost(n, DistM(r), LoopInput(r)),
  Chk("NoNewCellUnderMask",
        ~v.mask \/ \A i, j \in 1..n : (out[i][j] # 0 /\ r.R0[i][j] = 0) => r.B[i][j] = 0,
  "ok")))))

FinalC06(r) ==
  LET n == r.n  out == r.out IN
  Chk("Returns",        r.raised = "",
  Chk("WellFormed",     r.malformed = "",
  Chk("SignedDegrees",  SameSignedDegrees(n, r.R0, out),
  Chk("PosBag",         SignBag(n, out, 1) = SignBag(n, r.R0, 1),
  Chk("NegBag",         SignBag(n, out, -1) = SignBag(n, r.R0, -1),
  Chk("DiagEmpty",      DiagZero(n, out),
  Chk("Symmetric",      r.dir = 1 \/ IsSym(n, out),
  "ok")))))))

Final(r) == IF r.prop = "C01" THEN FinalC01(r)
            ELSE IF r.prop = "C11" THEN FinalC11(r) ELSE FinalC06(r)

(* ---------------- the L2 model along the trace ------------------------------- *)
HasEdgeList(r) == r.signed = 0
ModelInit(r) ==
  IF r.raised # "" THEN [R |-> r.R0, ei |-> <<>>, ej |-> <<>>, eff |-> 0]
  ELSE IF HasEdgeList(r) THEN InitState(r.n, LoopInput(r), Var(r))
  ELSE [R |-> r.R0, ei |-> <<>>, ej |-> <<>>, eff |-> 0]

(* model step for an event of an edge-list routine; returns <<ms', driftTag>>      *)
ModelStepEdge(r, m, ev) ==
  LET v == Var(r)  n == r.n  e1 == ev.e1  e2 == ev.e2 IN
  IF ~(e1 \in 1..Len(m.ei) /\ e2 \in 1..Len(m.ei) /\ ValidPick(m, e1, e2))
  THEN <<m, "differs:pick_not_valid_in_model">>
  ELSE
  LET noflip == m.ei[e2] = ev.c /\ m.ej[e2] = ev.d
      flip   == ~v.dir /\ m.ei[e2] = ev.d /\ m.ej[e2] = ev.c
      m1 == IF flip /\ ~noflip THEN Flip(m, e2) ELSE m
  IN
  IF ~(m.ei[e1] = ev.a /\ m.ej[e1] = ev.b /\ (noflip \/ flip))
  THEN <<m, "differs:endpoints_not_in_model_edge_list">>
  ELSE
  LET acc == Accepts(n, m1, v, DistM(r), r.B, e1, e2)
      m2 == IF acc THEN ApplySwap(n, m1, v, e1, e2) ELSE m1
  IN
  IF acc # (ev.acc = 1) THEN <<m2, "differs:accept_decision">>
  ELSE IF m2.ei # ev.i \/ m2.ej # ev.j THEN <<m2, "differs:edge_list">>
  ELSE IF ev.acc = 1 /\ m2.R # ev.R THEN <<m2, "differs:matrix">>
  ELSE IF m2.eff # ev.eff THEN <<m2, "differs:eff">>
  ELSE <<m2, "same">>

ModelStepSigned(r, m, ev) ==
  LET n == r.n  a == ev.a  b == ev.b  c == ev.c  d == ev.d IN
  IF ~Distinct4(a, b, c, d) THEN <<m, "differs:nodes_not_distinct">>
  ELSE
  LET acc == CanSwapSigned(m.R, a, b, c, d)
      R2 == IF ~acc THEN m.R
            ELSE IF r.dir = 1 THEN SwapSignedDir(n, m.R, a, b, c, d)
            ELSE SwapSignedUnd(n, m.R, a, b, c, d)
      m2 == [m EXCEPT !.R = R2, !.eff = IF acc THEN m.eff + 1 ELSE m.eff]
  IN
  IF acc # (ev.acc = 1) THEN <<m2, "differs:accept_decision">>
  ELSE IF ev.acc = 1 /\ m2.R # ev.R THEN <<m2, "differs:matrix">>
  ELSE IF m2.eff # ev.eff THEN <<m2, "differs:eff">>
  ELSE <<m2, "same">>

(* after drift, continue from the logged state                                     *)
Resync(r, m, ev) ==
  [R |-> IF ev.acc = 1 THEN ev.R ELSE m.R,
   ei |-> IF HasEdgeList(r) THEN ev.i ELSE <<>>,
   ej |-> IF HasEdgeList(r) THEN ev.j ELSE <<>>,
   eff |-> ev.eff]

Klass(r) == IF r.latt = 1 THEN "latticiser" ELSE "any"

(* ---------------- behaviour ---------------------------------------------------- *)
TInit == /\ tid \in 1..Len(Recs)
         /\ l = 0
         /\ ms = ModelInit(Recs[tid])
         /\ lastR = LoopInput(Recs[tid])
         /\ verdict = <<>>
         /\ drift = "same"

Finish(r, clause, dr) ==
  /\ verdict' = <<clause, dr, Klass(r)>>
  /\ PrintT(VLine(tid, verdict'))

(* consume event l+1 *)
TEvent ==
  LET r == Recs[tid] IN
  /\ verdict = <<>> /\ r.raised = "" /\ r.malformed = "" /\ l < Len(r.events)
  /\ LET ev == r.events[l + 1]
         R == IF ev.acc = 1 THEN ev.R ELSE lastR
         cl == IF ev.acc = 1 THEN StepClauses(r, ev, R) ELSE "ok"
         step == IF HasEdgeList(r) THEN ModelStepEdge(r, ms, ev) ELSE ModelStepSigned(r, ms, ev)
         dr == IF drift # "same" THEN drift ELSE step[2]
     IN /\ l' = l + 1
        /\ lastR' = R
        /\ ms' = IF step[2] = "same" THEN step[1] ELSE Resync(r, ms, ev)
        /\ drift' = dr
        /\ IF cl = "ok" THEN UNCHANGED verdict
           ELSE Finish(r, cl, dr)
  /\ UNCHANGED tid

(* all events consumed (or the call raised): judge the returned values *)
(* (an IF, not a disjunction: TLC would evaluate the action once per true disjunct) *)
Ended(r) == IF r.raised # "" THEN TRUE ELSE IF r.malformed # "" THEN TRUE ELSE l = Len(r.events)
TFinal ==
  LET r == Recs[tid] IN
  /\ verdict = <<>>
  /\ Ended(r)
  /\ LET dr == IF drift # "same" THEN drift
               ELSE IF r.raised # "" \/ r.malformed # "" THEN "na"
               ELSE IF lastR # LoopOutput(r) THEN "differs:last_logged_state_is_not_the_output"
               ELSE IF r.expect_eff >= 0 /\ ((r.eff_out >= 0 /\ r.expect_eff # r.eff_out) \/ r.expect_R # LoopOutput(r))
                    THEN "differs:model_predicted_other_result"
               ELSE "same"
     IN Finish(r, Final(r), dr)
  /\ UNCHANGED <<tid, l, ms, lastR, drift>>

TNext == TEvent \/ TFinal
TSpec == TInit /\ [][TNext]_tvars
=============================================================================
