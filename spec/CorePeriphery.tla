---------------------------- MODULE CorePeriphery ----------------------------
(* X06 (extended coverage).  Core / periphery subdivision (bct/algorithms/core.py           *)
(* core_periphery_dir) and the node re-ordering utilities of bct/utils/visualization.py.    *)
(*                                                                                          *)
(* L0, from the docstring of core_periphery_dir: "a partition of the network into two       *)
(* nonoverlapping groups of nodes, a core group and a periphery group.  The number of       *)
(* core-group edges is maximized, and the number of within periphery edges is minimized.    *)
(* The core-ness is a statistic which quantifies the goodness of the optimal core/periphery *)
(* subdivision".  The statistic (Rubinov, Ypma et al. 2015; BCT core_periphery_dir.m):       *)
(*     q(C) = sum_{i,j in core} B[i][j]  -  sum_{i,j in periphery} B[i][j],                  *)
(*     B = (b + b^T) / (2 s),  b = W - gamma * mean(W),  s = sum(W),  diagonal of W cleared. *)
(* All numbers are exact: with gamma = gp / gq the matrix  BB = Den * B  is integer,        *)
(*     Den = 2 s n^2 gq,   BB[i][j] = (W[i][j] + W[j][i]) n^2 gq - 2 gp s,                   *)
(* and QQ(C) = Den * q(C).  Domain: integer weights, n <= 12, weights <= 9, gq <= 4 (every  *)
(* intermediate value < 2^31).                                                              *)
(*                                                                                          *)
(* L2, operator form: the state the Python loops keep (C, q, Ct, ixes, flag) and one         *)
(* operator per loop body (CpRound = head of the outer `while flag`, CpMove = body of the    *)
(* inner `while len(ixes) > 0`).  CorePeripheryImpl.tla turns them into a machine,           *)
(* Trace_CorePeriphery.tla replays the recorded random draws of real calls through them.     *)
EXTENDS BctBase

(* ------------------------------------------------------------------ L0 ---------------- *)
CpTotal(n, W) == Total(n, NoDiag(n, W))                       \* s
CpDen(n, W, gq) == 2 * CpTotal(n, W) * n * n * gq
CpBB(n, W, gp, gq) ==
  LET Z == NoDiag(n, W)
      s == Total(n, Z)
  IN Mat(n, LAMBDA i, j : (Z[i][j] + Z[j][i]) * n * n * gq - 2 * gp * s)
CoreOf(n, cv) == {i \in 1..n : cv[i] # 0}
PeriOf(n, cv) == {i \in 1..n : cv[i] = 0}
BlockSum(BB, K) == Sum(K, LAMBDA i : Sum(K, LAMBDA j : BB[i][j]))
(* Den * core-ness of the assignment cv                                                     *)
QQ(n, BB, cv) == BlockSum(BB, CoreOf(n, cv)) - BlockSum(BB, PeriOf(n, cv))

(* the same statistic counted in connections, independent of BB: (weight inside the core    *)
(* - weight inside the periphery) against the uniform null model gamma * mean               *)
Inside(n, W, K) == Sum(K, LAMBDA i : Sum(K \ {i}, LAMBDA j : W[i][j]))
QQEdges(n, W, gp, gq, cv) ==
  LET K == CoreOf(n, cv)
      P == PeriOf(n, cv)
      k == Cardinality(K)
      p == Cardinality(P)
  IN 2 * n * n * gq * (Inside(n, W, K) - Inside(n, W, P)) - 2 * gp * CpTotal(n, W) * (k * k - p * p)

IsAssign(n, cv) == DOMAIN cv = 1..n /\ \A i \in 1..n : cv[i] \in {0, 1}
Flip(n, cv, w) == [i \in 1..n |-> IF i = w THEN 1 - cv[i] ELSE cv[i]]
(* no single node changes sides with a strictly better statistic                            *)
LocalOpt(n, BB, cv) == \A w \in 1..n : QQ(n, BB, Flip(n, cv, w)) <= QQ(n, BB, cv)
GlobalMax(n, BB) == MaxOf({QQ(n, BB, [i \in 1..n |-> IF i \in K THEN 1 ELSE 0]) : K \in SUBSET (1..n)})

(* ------------------------------------------------------------------ L2 ---------------- *)
(* Qt of the code: Qt[ctix] = q0 - 2 sum(B[ctix, :]),  Qt[nctix] = q0 + 2 sum(B[nctix, :])  *)
RowSum(n, BB, i) == Sum(1..n, LAMBDA j : BB[i][j])
QtOf(n, BB, ct) ==
  LET q0 == QQ(n, BB, ct)
  IN [i \in 1..n |-> IF ct[i] # 0 THEN q0 - 2 * RowSum(n, BB, i) ELSE q0 + 2 * RowSum(n, BB, i)]
MaxQt(Qt, ixes) == MaxOf({Qt[ixes[k]] : k \in 1..Len(ixes)})
(* positions (1-based) within ixes whose Qt is maximal, ascending: np.where(|Qt[ixes]-max| < 1e-10) *)
TiePos(Qt, ixes) == LET m == MaxQt(Qt, ixes) IN SelectSeq([k \in 1..Len(ixes) |-> k], LAMBDA k : Qt[ixes[k]] = m)
DropAt(s, k) == [t \in 1..(Len(s) - 1) |-> IF t < k THEN s[t] ELSE s[t + 1]]       \* np.delete(ixes, u)

(* state: [cc, qq, ct, ixes, flg, itn]                                                      *)
CpStart(n, BB, c0) == [cc |-> c0, qq |-> QQ(n, BB, c0), ct |-> c0, ixes |-> <<>>, flg |-> TRUE, itn |-> 0]
(* head of `while flag`                                                                     *)
CpRound(n, st) == [st EXCEPT !.flg = FALSE, !.itn = @ + 1, !.ixes = [k \in 1..n |-> k], !.ct = st.cc]
(* one pass of the inner loop; pick = index (1-based) into the tie list                     *)
CpMove(n, BB, st, pick) ==
  LET Qt == QtOf(n, BB, st.ct)
      m == MaxQt(Qt, st.ixes)
      u == TiePos(Qt, st.ixes)[pick]
      ct2 == Flip(n, st.ct, st.ixes[u])
      better == m > st.qq                      \* max_Qt - q > 1e-10 (exact: differences are integers)
  IN [st EXCEPT !.ct = ct2, !.ixes = DropAt(st.ixes, u),
                !.flg = IF better THEN TRUE ELSE @,
                !.cc = IF better THEN ct2 ELSE @,
                !.qq = IF better THEN QQ(n, BB, ct2) ELSE @]
CpDone(st) == st.ixes = <<>> /\ ~st.flg
NTies(n, BB, st) == Len(TiePos(QtOf(n, BB, st.ct), st.ixes))

(* ------------------------------------------------------------------ reordering -------- *)
(* R[np.ix_(p, p)]  (the same law as Rewire!Reindex)                                       *)
Reindex(n, R, p) == Mat(n, LAMBDA i, j : R[p[i]][p[j]])
IsPerm(n, p) == DOMAIN p = 1..n /\ {p[x] : x \in 1..n} = 1..n
SwapAt(p, a, b) == [p EXCEPT ![a] = p[b], ![b] = p[a]]
(* nodes of one module occupy consecutive places of the order                               *)
Contiguous(n, ord, ci) ==
  \A a, b, c \in 1..n : (a < b /\ b < c /\ ci[ord[a]] = ci[ord[c]]) => ci[ord[b]] = ci[ord[a]]
=============================================================================
