SPECIFICATION Spec
CONSTANT N = 5
CONSTANT Kind = "und"
CONSTANT Lens = {1, 2}
CONSTANT MaxEdges = 10
CONSTANT Routines = {"wei", "bin"}
CONSTANT Slack = 0
INVARIANT OracleInv
INVARIANT NoRaise
INVARIANT QueueInv
INVARIANT PhaseInv
INVARIANT DepInv
INVARIANT ResultInv
CHECK_DEADLOCK FALSE
