SPECIFICATION Spec
CONSTANT FNS = {1, 2}
CONSTANT ARGS = {1, 2}
CONSTANT SEEDS = {1, 2}
CONSTANT DRAWS = {1, 2}
CONSTANT MaxLen = 5
CONSTANT Libs = {"good"}
CONSTANT Canon = TRUE
CONSTANT GenMode = "reseed"
CONSTANT Cost <- CostOne
CHECK_DEADLOCK FALSE
