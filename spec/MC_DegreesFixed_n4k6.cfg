SPECIFICATION Spec
CONSTANT N = 4
CONSTANT Gen = FALSE
CONSTANT KMin = 0
CONSTANT KMax = 6
CONSTANT InputPhase = FALSE
CHECK_DEADLOCK FALSE
INVARIANT TypeOK
INVARIANT TargetsInv
INVARIANT PlacedInv
INVARIANT SwitchInv
INVARIANT DoneContract
