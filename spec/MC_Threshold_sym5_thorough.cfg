SPECIFICATION Spec
CONSTANT N = 5
CONSTANT Sym = TRUE
CONSTANT WMax = 1
INVARIANT PrepareInv
INVARIANT PickInv
INVARIANT ResultLegalInv
INVARIANT FamilyInv
INVARIANT RoundInv
CHECK_DEADLOCK FALSE
