import json, shutil, sys, os
sid, checks, outcome = sys.argv[1], sys.argv[2], sys.argv[3]
rnd = int(sys.argv[4]) if len(sys.argv) > 4 else 3
src = "/tmp/wt%d_%s/seed" % (rnd, sid)
dst = "/verif/seeded/%s_r%d" % (sid, rnd)
os.makedirs(dst, exist_ok=True)
for f in ("patch.diff", "demo.py"):
    shutil.copy(os.path.join(src, f), dst)
mp = os.path.join(src, "meta.json")
meta = json.load(open(mp)) if os.path.exists(mp) else {"property": sid}
meta["round"] = rnd
meta["confirmed"] = {
  "demo": "run by harness/seedtest.sh: exits 1 against a scratch copy of /repo with the patch applied, exits 0 against /repo",
  "tests": meta.get("tests", meta.get("tests_with_change", "")),
  "checks_run": checks, "outcome": outcome, "how": "harness/seedtest.sh <seed dir> <name> <checks>"}
json.dump(meta, open(os.path.join(dst, "meta.json"), "w"), indent=1)
print("stored", dst)
