#!/bin/sh
# usage: harness/seedtest.sh <seed-dir with patch.diff demo.py meta.json> <name> <property ids...>
# Applies the seeded change to a scratch copy of /repo (never to /repo itself), confirms the
# demonstration (fails with the change, passes without) and runs the given checks against the
# scratch copy.  Prints one line per check.
src=$1; name=$2; shift 2
scr=/tmp/mut_$name
rm -rf $scr; mkdir -p $scr && cp -r /repo/bct $scr/ && mkdir -p $scr/seed && cp $src/demo.py $scr/seed/
( cd $scr && git apply --unsafe-paths -p1 $src/patch.diff ) || { echo "PATCH DOES NOT APPLY"; exit 2; }
( cd $scr && PYTHONWARNINGS=ignore PYTHONPATH=$scr /venv/bin/python seed/demo.py >/tmp/mut_$name.demo_with 2>&1 ); with=$?
( cd /repo && PYTHONWARNINGS=ignore PYTHONPATH=/repo /venv/bin/python $scr/seed/demo.py >/tmp/mut_$name.demo_without 2>&1 ); without=$?
echo "demo: with change exit=$with, without exit=$without"
for p in "$@"; do
  ( cd /verif && VERIF_WORK_TAG=mut_$name VERIF_DEBUG_SKIP_MC=1 BCTPY_REPO=$scr timeout 1500 ./harness/check $p > /tmp/mut_${name}_$p.log 2>&1 ); rc=$?
  echo "check $p: exit=$rc  $(grep -c '^VIOLATION' /tmp/mut_${name}_$p.log) violation lines; $(grep -A1 '^VIOLATION' /tmp/mut_${name}_$p.log | grep -v '^VIOLATION' | grep -v '^--' | head -3 | tr '\n' ';')"
done
rm -rf $scr /verif/.work/tag_mut_$name/*/tlc_* 2>/dev/null
