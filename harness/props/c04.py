"""C04 - every deterministic measure is equivariant under renumbering of nodes.

mc:       spec/MC_Equivariance.tla: the group-action laws, sharpness of the Equivariant relation,
          and Op(p.A) = p.Op(A) for every L0 operator of the other topic modules (degrees,
          strengths, reachability, components, Dist and hop-count tie sets, betweenness counts,
          triangle definitions of clustering/transitivity, CoreSet) on ALL small networks x ALL
          permutations; the input class is invariant and equals the brute-force definition.
gen:      spec/GenPerms.tla enumerates the renumberings (all 24 / 120 for n = 4 / 5), spec/GenGraphs.tla
          the networks; harness/registry.py says how to call each measure.
run:      f(args) and f(p.args) for every deterministic measure of the eight anchored files.
validate: spec/Trace_Equivariance.tla re-checks p and the renumbered input, then judges
          RaisesAlike, NodeVectorPermutes, PairMatrixPermutesBothAxes, ScalarUnchanged,
          DistributionUnchanged, PartitionPermutesUpToRenaming; the input class
          (has_repeated_structure / no_repeated_structure) is computed by the spec.
"""
import json
import math
import os
import random

import numpy as np

from .. import core, encode, inputs, pool
from .. import registry as R
from . import rel_common as rc

TRACE = ("Trace_Equivariance.tla", "Trace_Equivariance.cfg")
CLAUSES = ("RaisesAlike", "NodeVectorPermutes", "PairMatrixPermutesBothAxes", "ScalarUnchanged",
           "DistributionUnchanged", "PartitionPermutesUpToRenaming")
BAD = ("skip:not_a_permutation", "skip:input_not_renumbered", "UnknownKind")


# ----------------------------------------------------------------- TLC-enumerated renumberings
def model_perms(ctx, n):
    cache = os.path.join(core.VERIF, ".cache")
    os.makedirs(cache, exist_ok=True)
    path = os.path.join(cache, "perms_%d.json" % n)
    if not os.path.exists(path):
        tmp = path + ".%d.tmp" % os.getpid()
        r = ctx._tlc("GenPerms.tla", "GenPerms_%d.cfg" % n, "gen_perm%d" % n,
                     env={"GEN_FILE": tmp}, workers=1, timeout=600)
        if "No error has been found" not in r["out"] or not os.path.exists(tmp):
            raise core.MachineryError("GenPerms %d failed: %s" % (n, r["out"][-1500:]))
        os.replace(tmp, path)
        ctx.mc_runs.append(dict(model="GenPerms.tla", cfg="GenPerms_%d.cfg" % n, purpose="gen",
                                wall_s=round(r["wall"], 2)))
    with open(path) as f:
        return [[x - 1 for x in p] for p in json.load(f)]


# ----------------------------------------------------------------------------- encoding
def _jsonable(v):
    if isinstance(v, np.ndarray):
        return v.tolist()
    if isinstance(v, (np.integer,)):
        return int(v)
    if isinstance(v, (np.floating,)):
        return float(v)
    return v


def _rebuild(row, i, v):
    a = row["args"][i]
    k = a["k"]
    if k == "mat":
        return np.array(v, dtype=a.get("dtype") or float)
    if k in ("ci", "cis"):
        return np.array(v, dtype=int)
    if k in ("vec", "wts", "derived", "xyz"):
        return np.array(v, dtype=float)
    return v


def _enc_in(v, scale):
    a = np.asarray(v, dtype=float)
    if a.ndim == 3:
        a = a.transpose(2, 0, 1)
    return _enc_arr(a * scale if scale != 1 else a, "int")


def _enc_arr(a, num, scale=encode.Q6):
    f = encode.e_int if num == "int" else (lambda x: encode.e_q(x, scale))
    a = np.asarray(a, dtype=float)
    if a.ndim == 0:
        return f(a)
    return [_enc_arr(x, num, scale) for x in a]


def _is_intlike(a):
    a = np.asarray(a, dtype=float)
    fin = a[np.isfinite(a)]
    return bool(np.all(fin == np.round(fin)) and np.all(np.abs(fin) < encode.INF))


def _shape_out(kind, x, n):
    """bring one output component into the layout the spec expects for its kind"""
    if kind in ("nodevec", "partition"):
        return np.asarray(x, dtype=float).reshape(-1)
    if kind in ("pairmat", "pairmat_tie", "noderows"):
        a = np.asarray(x, dtype=float)
        return a if a.ndim == 2 else a.reshape(len(a), -1)
    if kind == "pairstack":
        return np.asarray(x, dtype=float).transpose(2, 0, 1)
    if kind in ("scalar", "bag"):
        return np.asarray(x, dtype=float).reshape(-1)
    if kind == "bagcols":
        return np.asarray(x, dtype=float).T
    raise ValueError(kind)


def _enc_pair(kind, num, x1, x2, n):
    """-> dict(kind, num, q, a, b) for one output component of the two evaluations"""
    if kind == "nodesets":
        return dict(kind=kind, num="int", q=1,
                    a=[[int(i) + 1 for i in np.where(np.asarray(r_) != 0)[0]] for r_ in np.atleast_2d(x1)],
                    b=[[int(i) + 1 for i in np.where(np.asarray(r_) != 0)[0]] for r_ in np.atleast_2d(x2)])
    if kind == "nodesetseq":
        return dict(kind=kind, num="int", q=1,
                    a=[[int(i) + 1 for i in np.asarray(s).ravel()] for s in x1],
                    b=[[int(i) + 1 for i in np.asarray(s).ravel()] for s in x2])
    a, b = _shape_out(kind, x1, n), _shape_out(kind, x2, n)
    if num == "int" and not (_is_intlike(a) and _is_intlike(b)):
        num = "real"                      # judged with the real-number tolerance instead
    scale = 1
    if num == "real":
        fin = np.concatenate([np.abs(a[np.isfinite(a)]).ravel(), np.abs(b[np.isfinite(b)]).ravel(), [0.0]])
        m = float(fin.max())
        scale = encode.Q6 if m < 900 else (1000 if m < 9e5 else 1)
        if m >= 9e8:                      # astronomically large finite values (masked-array fill 1e20)
            a = np.where(np.isfinite(a), np.clip(a, -999999999, 999999999), a)
            b = np.where(np.isfinite(b), np.clip(b, -999999999, 999999999), b)
    return dict(kind=kind, num=num, q=scale, a=_enc_arr(a, num, scale), b=_enc_arr(b, num, scale))


SPECTRAL = ("subgraph_centrality", "eigenvector_centrality_und")


def _mat_dtypes(row, vkey, args, draw):
    """{argument index: dtype} - what each NETWORK argument is handed for the job's draw
    (rel_common.admissible): bool only where the registry declares a binary network (w='bin') and
    not for the two spectral measures (scipy's eigh computes a boolean matrix in single precision:
    bool is float32 in disguise there, 1e-6 noise on a real-valued output is legitimate), float32
    only when every judged output of the variant is integer by definition, uint8 only for
    betweenness_bin (copies to float first); weights k/1000 and arguments for which the
    registry fixes a dtype stay as they are.  Lossless by construction (as_variant checks)."""
    if draw == "float64":
        return {}
    kinds = [k for k in R.out_kinds(row, vkey) if k[0] != "opaque"]
    structural = bool(kinds) and all(num == "int" for _, num in kinds)
    w_override = row["variants"].get(vkey, {}).get("_w")
    out = {}
    for i, (a, v) in enumerate(zip(row["args"], args)):
        if a["k"] != "mat" or a.get("dtype") is not None or not isinstance(v, np.ndarray) or v.ndim != 2:
            continue
        w = w_override if (w_override and a["role"] == "adj") else a["w"]
        if w == "unit" or not bool(np.all(v == np.round(v))):
            continue
        dt = rc.admissible(draw, binary=(w == "bin" and row["name"] not in SPECTRAL), structural=structural,
                           floats_first=row["name"] == "betweenness_bin")
        if dt == "bool" and not bool(np.all((v == 0) | (v == 1))):
            dt = "int32"
        if dt == "uint8" and v.min() < 0:
            dt = "int32"
        out[i] = dt
    return out


def _call(row, args, kw, dts=None, layout="C"):
    """every call gets fresh arrays; a network argument as the drawn dtype / memory layout"""
    dts = dts or {}

    def fresh(i, a):
        if not isinstance(a, np.ndarray):
            return a
        if a.ndim == 2 and row["args"][i]["k"] == "mat" and (i in dts or layout != "C"):
            return rc.as_variant(a, dts.get(i, str(a.dtype)), layout)
        return a.copy()
    try:
        with np.errstate(all="ignore"):
            res = R.call(row, [fresh(i, a) for i, a in enumerate(args)],
                         {k: (v.copy() if isinstance(v, np.ndarray) else v) for k, v in kw.items()})
    except core.MachineryError:
        raise
    except Exception as e:                       # noqa: BLE001 - the outcome IS the datum
        return None, encode.exc_name(e)
    return (res if isinstance(res, tuple) else (res,)), ""


def exec_job(job):
    row = R.BY_NAME[job["base"]]
    n = job["n"]
    p = np.array(job["p"], dtype=int)
    args1 = [_rebuild(row, i, v) for i, v in enumerate(job["args"])]
    args2 = R.permute_args(row, args1, p)
    kw1, kw2 = {}, {}
    for k, v in job["kw"].items():
        act = job["kwact"].get(k, "fixed")
        if act in ("vec", "ci"):
            v = np.array(v, dtype=int if act == "ci" else float)
            kw1[k], kw2[k] = v, v[p]
        else:
            kw1[k] = kw2[k] = v
    # ---- inputs as the spec re-checks them
    acts = [R.arg_action(row, i) for i in range(len(args1))]
    allin = [np.asarray(a, dtype=float) for a, t in zip(args1, acts) if t not in ("fixed", "node")]
    allin += [np.asarray(v, dtype=float) for k, v in kw1.items() if job["kwact"].get(k) in ("vec", "ci")]
    scale = 1 if all(_is_intlike(a) for a in allin) else 1000
    ins = []
    for a1, a2, t, spec in zip(args1, args2, acts, row["args"]):
        if t == "fixed":
            continue
        if t == "node":
            ins.append(dict(act="node", a=int(a1) + 1, b=int(a2) + 1))
        elif t == "cis":
            ins.append(dict(act="cols" if spec["transposed"] else "rows",
                            a=_enc_in(a1, 1), b=_enc_in(a2, 1)))
        else:
            ins.append(dict(act=t, a=_enc_in(a1, scale), b=_enc_in(a2, scale)))
    for k in sorted(kw1):
        if job["kwact"].get(k) in ("vec", "ci"):
            ins.append(dict(act="vec", a=_enc_in(kw1[k], scale), b=_enc_in(kw2[k], scale)))
    rec = dict(prop="C04", fn=job["fn"], base=job["base"], n=n, p=[int(x) + 1 for x in p],
               scale=scale, ins=ins, raised1="", raised2="", outs=[])
    # both evaluations get the SAME argument dtype / memory layout (the job's draw); `ins` above
    # is encoded from the float originals
    dts = _mat_dtypes(row, job["vkey"], args1, job.get("draw", "float64"))
    r1, rec["raised1"] = _call(row, args1, kw1, dts, job.get("layout", "C"))
    r2, rec["raised2"] = _call(row, args2, kw2, dts, job.get("layout", "C"))
    if rec["raised1"] or rec["raised2"]:
        return rec
    kinds = R.out_kinds(row, job["vkey"])
    if len(r1) != len(kinds) or len(r2) != len(kinds):
        raise core.MachineryError("registry row %s declares %d outputs, the call returned %d"
                                  % (job["fn"], len(kinds), len(r1)))
    try:
        for (kind, num), x1, x2 in zip(kinds, r1, r2):
            if kind == "opaque":
                continue
            rec["outs"].append(_enc_pair(kind, num, x1, x2, n))
    except (OverflowError, ValueError, TypeError) as e:
        rec["outs"] = []
        rec["unencodable"] = str(e)[:80]
    return rec


# ------------------------------------------------------------------------------- inputs
def _ring(n):
    return [(i, (i + 1) % n) for i in range(n)]


def symmetric_graphs():
    """highly symmetric undirected supports (degenerate spectra, many exact ties)"""
    g = {}
    for n in (4, 5, 6):
        g["C%d" % n] = (n, _ring(n))
    g["K4"] = (4, [(i, j) for i in range(4) for j in range(i + 1, 4)])
    g["K5"] = (5, [(i, j) for i in range(5) for j in range(i + 1, 5)])
    g["K23"] = (5, [(i, j) for i in range(2) for j in range(2, 5)])
    g["K33"] = (6, [(i, j) for i in range(3) for j in range(3, 6)])
    g["K14"] = (5, [(0, j) for j in range(1, 5)])
    g["P4"] = (4, [(0, 1), (1, 2), (2, 3)])
    g["2K3"] = (6, [(0, 1), (1, 2), (0, 2), (3, 4), (4, 5), (3, 5)])
    g["2P3"] = (6, [(0, 1), (1, 2), (3, 4), (4, 5)])
    g["2C4"] = (8, _ring(4) + [(a + 4, b + 4) for a, b in _ring(4)])
    g["K3+K1"] = (4, [(0, 1), (1, 2), (0, 2)])
    g["prism"] = (6, [(0, 1), (1, 2), (0, 2), (3, 4), (4, 5), (3, 5), (0, 3), (1, 4), (2, 5)])
    g["cube"] = (8, [(a, b) for a in range(8) for b in range(a + 1, 8) if bin(a ^ b).count("1") == 1])
    g["petersen"] = (10, _ring(5) + [(i, i + 5) for i in range(5)] +
                     [(5 + i, 5 + (i + 2) % 5) for i in range(5)])
    g["K44-pm"] = (8, [(i, j) for i in range(4) for j in range(4, 8) if j - 4 != i])
    return g


def _support(n, edges, und):
    A = np.zeros((n, n), dtype=int)
    for i, j in edges:
        A[i, j] = 1
        if und:
            A[j, i] = 1
    return A


def directed_symmetric():
    g = {}
    for n in (4, 5, 6):
        g["dC%d" % n] = (n, _ring(n))                                   # directed cycle
    g["dK23"] = (5, [(i, j) for i in range(2) for j in range(2, 5)])    # all arcs one way
    g["d2C3"] = (6, [(0, 1), (1, 2), (2, 0), (3, 4), (4, 5), (5, 3)])
    g["tournament5"] = (5, [(i, (i + k) % 5) for i in range(5) for k in (1, 2)])
    return g


def _first_spec(row):
    for a in row["args"]:
        if a["k"] == "mat" and a["role"] == "adj":
            return a
    return None


def _mkjob(row, label, vkey, rng, n, p, src, support=None, uniform=False, und=None, p_plain=0.6):
    args = R.build_args(row, rng, n, und=und, vkey=vkey, support=support, uniform=uniform)
    if args is None:
        return None
    # the argument dtype / memory layout of the network arguments (same for f(A) and f(p.A)):
    # one draw per job over the widest universe, mapped per argument by _mat_dtypes
    dt, lay = rc.draw_variant(rng, rc.DT_BIN, p_plain)
    kw = R.resolve_kwargs(row, vkey, args, rng, n)
    kwact = {}
    for k, v in row["variants"][vkey].items():
        if v == "VEC":
            kwact[k] = "vec"
        elif v == "CI":
            kwact[k] = "ci"
    eff = sorted(set(_mat_dtypes(row, vkey, args, dt).values()))
    return dict(fn=label, base=row["name"], vkey=vkey, n=n, src=src,
                args=[_jsonable(a) for a in args], kw={k: _jsonable(v) for k, v in kw.items()},
                kwact=kwact, p=list(p), draw=dt, dtype=eff[0] if len(eff) == 1 else "float64", layout=lay)


def _rand_perm(rng, n):
    while True:
        p = list(range(n))
        rng.shuffle(p)
        if p != list(range(n)) or n < 2:
            return p


def build_jobs(ctx):
    rng = random.Random(ctx.seed)
    q = ctx.quick
    jobs = []
    perms = {n: model_perms(ctx, n) for n in (4, 5)}
    und4 = [_support(4, e, True) for e in inputs.model_graphs(ctx, "und", 4)]
    dir4 = [_support(4, e, False) for e in inputs.model_graphs(ctx, "dir", 4)]
    und5 = [_support(5, e, True) for e in inputs.model_graphs(ctx, "und", 5)]
    sym_u = {k: _support(n, e, True) for k, (n, e) in symmetric_graphs().items()}
    sym_d = {k: _support(n, e, False) for k, (n, e) in directed_symmetric().items()}

    def structured(und):
        """a structured support (rel_common: paths, cycles, stars, complete, bipartite, caterpillars,
        rings of cliques, equal/unequal components, isolated nodes), oriented when directed"""
        name, n, edges = rc.structured_support(rng, 5, 10)
        return name, _support(n, edges if und else rc.orient(rng, edges), und)
    for row in R.c04_rows():
        spec = _first_spec(row)
        for label, vkey in R.cases(row):
            def add(n, p, src, support=None, uniform=False, und=None):
                if n > row["maxn"]:
                    return
                j = _mkjob(row, label, vkey, rng, n, p, src, support, uniform, und)
                if j is not None:
                    jobs.append(j)
            if spec is None:
                # no network argument (partition stacks, derived distance / walk tables)
                for _ in range(4 if q else 8):
                    for p in (rng.sample(perms[4], 6) if q else perms[4]):
                        add(4, p, "model-perms")
                for _ in range(12 if q else 150):
                    n = rng.randint(5, 10)
                    add(n, _rand_perm(rng, n), "random")
                continue
            dirs = {"und": (True,), "dir": (False,), "any": (True, False)}[R.direction(row, vkey)]
            for und in dirs:
                share = 1.0 / len(dirs)
                # --- n = 4: TLC-enumerated supports x TLC-enumerated renumberings
                pool4 = und4 if und else inputs.sample(rng, dir4, int((48 if q else 64) * share))
                if und and len(dirs) == 2 and q:
                    pool4 = inputs.sample(rng, und4, 32)
                for S in pool4:
                    for p in (rng.sample(perms[4], 3) if q else perms[4]):
                        add(4, p, "model-n4", S, uniform=rng.random() < 0.5, und=und)
                # --- n = 5
                if und:
                    for S in inputs.sample(rng, und5, int((16 if q else 40) * share)):
                        for p in rng.sample(perms[5], 3 if q else 8):
                            add(5, p, "model-n5", S, uniform=rng.random() < 0.5, und=und)
                else:
                    for _ in range(int((16 if q else 40) * share)):
                        for p in rng.sample(perms[5], 3 if q else 8):
                            add(5, p, "random-n5", und=False)
                # --- highly symmetric graphs: common weight, then random weights on the same support
                fam = dict(sym_u) if und else dict(sym_u, **sym_d)
                for name, S in sorted(fam.items()):
                    for t in range(2 if q else 4):
                        add(len(S), _rand_perm(rng, len(S)), "symmetric:" + name, S,
                            uniform=(rng.random() < 0.5) or spec["w"] == "bin", und=und)
                # --- structured supports that small enumerations and G(n,p) hardly produce
                for _ in range(int((6 if q else 30) * share)):
                    name, S = structured(und)
                    add(len(S), _rand_perm(rng, len(S)), "struct:" + name, S,
                        uniform=rng.random() < 0.5, und=und)
                # --- the two extremes at the largest size the measure takes: a hub of degree n-1
                #     (star) and a diameter of n-1 (path), every time
                m = min(10, row["maxn"])
                for name, edges in (("star%d" % m, rc.s_star(m)), ("path%d" % m, rc.s_path(m))):
                    S = _support(m, edges if und else rc.orient(rng, edges), und)
                    add(m, _rand_perm(rng, m), "struct:" + name, S, uniform=rng.random() < 0.5, und=und)
                # --- random n in 6..10
                for _ in range(int((12 if q else 40) * share)):
                    n = rng.randint(6, 10)
                    for _ in range(2 if q else 4):
                        add(n, _rand_perm(rng, n), "random", und=und)
                # --- sparse networks on 20..50 nodes, randomly renumbered: long chains, random forests,
                #     G(n, 2/n), rings - structures whose processing order matters (deep search trees,
                #     pieces grown separately and joined late) and that 10 nodes cannot hold
                if row["maxn"] >= 10:
                    for _ in range(max(1, int((2 if q else 8) * share))):
                        n = rng.randint(20, 50)
                        kind = rng.choice(["chain", "forest", "sparse", "ring"])
                        if kind == "chain":
                            edges = rc.s_path(n)
                        elif kind == "ring":
                            edges = rc.s_cycle(n)
                        elif kind == "forest":
                            edges = [(rng.randrange(v), v) for v in range(1, n) if rng.random() < 0.9]
                        else:
                            edges = [(i, j) for i in range(n) for j in range(i + 1, n) if rng.random() < 2.0 / n]
                        lab = list(range(n))
                        rng.shuffle(lab)                      # the first member of the pair is itself shuffled
                        edges = [(min(lab[a], lab[b]), max(lab[a], lab[b])) for a, b in edges]
                        S = _support(n, edges if und else rc.orient(rng, edges), und)
                        j = _mkjob(row, label, vkey, rng, n, _rand_perm(rng, n), "sparse-big:" + kind, S,
                                   rng.random() < 0.5, und)
                        if j is not None:
                            jobs.append(j)
    return jobs


def describe(job, rec, clause):
    outs = rec.get("outs", [])
    bad = ""
    for o in outs:
        bad += " %s/%s a=%s b=%s" % (o["kind"], o["num"], str(o["a"])[:110], str(o["b"])[:110])
    return "%s n=%d p=%s (0-based) dtype=%s layout=%s raised=(%r,%r) first-arg=%s%s" % (
        rec["fn"], rec["n"], job["p"], job.get("dtype", "float64"), job.get("layout", "C"),
        rec["raised1"], rec["raised2"], str(job["args"][0])[:160] if job["args"] else "", bad[:500])


def _evidence(ctx, jobs, recs, verdicts):
    tot, per, judged, seen_fn = {}, {}, set(), set()
    nontrivial = set()
    cls = {}
    for j, r, v in zip(jobs, recs, verdicts):
        tot[v[0]] = tot.get(v[0], 0) + 1
        seen_fn.add(j["fn"])
        if v[0] != "ok":
            d = per.setdefault(j["fn"], {})
            k = "%s/%s" % (v[0], v[2])
            d[k] = d.get(k, 0) + 1
        if not v[0].startswith("skip:"):
            judged.add(j["fn"])
            cls[v[2]] = cls.get(v[2], 0) + 1
            if j["p"] != sorted(j["p"]):
                nontrivial.add((j["fn"], str(j["args"]), str(j["p"])))
    ctx.extra["verdict_counts"] = dict(total=tot, not_ok=per, judged_by_input_class=cls)
    never = sorted(seen_fn - judged)
    why = {}
    for j, r, v in zip(jobs, recs, verdicts):
        if j["fn"] in never:
            k = "%s (%s)" % (v[0], r.get("raised1", ""))
            why.setdefault(j["fn"], {}).setdefault(k, 0)
            why[j["fn"]][k] += 1
    for fn in never:
        core.log("NOTE property=C04: %s was never judged (every record skipped: %s)" % (fn, why[fn]))
    ctx.extra["never_judged"] = why
    ctx.extra["uncovered"] = (
        [dict(function=r_["name"], why=r_["c04"] or r_["exclude"])
         for r_ in R.rows(lambda x: x["anchored"] and (x["c04"] or x["exclude"] or not x["det"]))]
        + [dict(function=fn, why="raises for both numberings on every input tried: %s" % why[fn])
           for fn in never])
    ctx.extra["functions_judged"] = sorted(judged)
    ctx.nontrivial = len(nontrivial)


def validate_parallel(ctx, recs, width=4, chunk=3000, also=()):
    """the batch is cut into slices judged by concurrent TLC runs (each record is independent);
    `also`: further independent TLC thunks (the mc runs) that share the machine"""
    parts = [recs[lo:lo + chunk] for lo in range(0, len(recs), chunk)]
    outs = ctx.parallel(list(also) +
                        [(lambda part=part, k=k: ctx.validate(*TRACE, part, tag="c04_%02d" % k, chunk=chunk))
                         for k, part in enumerate(parts)], width=width + len(also))
    return [v for part in outs[len(also):] for v in part]


def run(ctx):
    missing, stale = R.check_complete()
    # a public function the registry does not know is reported as uncovered; a row whose function
    # has disappeared is dropped - neither says anything about the property, so neither stops the check
    if missing or stale:
        core.log("NOTE registry differs from the live namespace: new public names %s (uncovered), "
                 "vanished %s (skipped)" % (missing, stale))
        ctx.extra["registry_new_uncovered"] = missing
        ctx.extra["registry_vanished_skipped"] = stale
        for name in stale:
            row = R.BY_NAME.pop(name, None)
            if row in R.ROWS:
                R.ROWS.remove(row)
    if ctx.quick:
        cfgs = ["MC_Equivariance_%s.cfg" % m for m in ("und_s1", "und_s2", "dir", "wund", "wdir_s1",
                                                        "wdir_s2", "wdir_s3", "sign")]
    else:
        cfgs = (["MC_Equivariance_%s_thorough.cfg" % m for m in ("und", "wdir", "sign")] +
                ["MC_Equivariance_%s_thorough_s%d.cfg" % (m, k) for m in ("dir", "wund") for k in (1, 2, 3, 4)])
    ctx.parallel([(lambda c=c: ctx.mc("MC_Equivariance.tla", c, timeout=3000, workers=3)) for c in cfgs],
                 width=8)
    jobs = build_jobs(ctx)
    recs = pool.run_jobs(__name__, jobs, reuse=True)
    verdicts = validate_parallel(ctx, recs)
    bad = [(j["fn"], v[0]) for j, v in zip(jobs, verdicts) if v[0] in BAD]
    if bad:
        raise core.MachineryError("harness produced records the spec cannot read: %s" % bad[:5])
    ctx.judge(jobs, rc.tag_failures(ctx, jobs, recs, verdicts), verdicts, what=describe)
    ctx.extra["argument_variants"] = rc.variant_counts(jobs)
    _evidence(ctx, jobs, recs, verdicts)
    ctx.exhaustive = not ctx.quick
    nfn = len({j["fn"] for j in jobs})
    ctx.rule = ("registry-driven: %d measure variants of the 8 anchored files x {TLC-enumerated supports on 4 nodes "
                "(all 64 undirected, %s directed) x %s of the 24 TLC-enumerated renumberings; supports on 5 nodes x "
                "%d of 120; 19+6 highly symmetric graphs (cycles, complete, complete bipartite, disjoint copies, "
                "prism, cube, Petersen, directed cycles) with common and random weights; structured supports (paths, "
                "cycles, stars, complete, bipartite, caterpillars, rings of cliques, equal/unequal components, also "
                "oriented); seeded random n in 6..10 x random renumberings}; 40%% of the jobs hand the network over "
                "as another dtype (bool/int32/int64/uint8/float32 where the registry's argument kind and output kinds "
                "allow) and memory layout (Fortran, transposed, window, strided), the same for both numberings; weights 1..3 / k/1000 in (0,1] / signed; non-trivial = distinct judged "
                "(measure, input, non-identity renumbering)"
                % (nfn, "48 of the 4096" if ctx.quick else "64 of the 4096",
                   "3" if ctx.quick else "all", 3 if ctx.quick else 8))
    k = next((i for i, j in enumerate(jobs) if j["src"].startswith("symmetric")), 0)
    ctx.add_sample("model-input", dict(job=jobs[0], verdict=verdicts[0]))
    ctx.add_sample("symmetric-input", dict(job=jobs[k], verdict=verdicts[k]))
    ctx.assumptions += [
        "TLC evaluates the definitions of spec/Equivariance.tla correctly",
        "outputs are compared after encoding: integers exactly, reals as round(x*10^6) within +-2 "
        "(coarser scale 10^-3 / 1 for magnitudes >= 900 / 9e5)",
        "a measure that raises the same exception for both numberings is skipped (no result to compare)",
        "hop counts of distance_wei / distance_wei_floyd are not compared in cells where two minimum-length "
        "paths have different edge counts (exact tie: the value is not determined by the network)",
        "eigenvector_centrality_und is judged on connected networks, mean_first_passage_time and "
        "diffusion_efficiency on strongly connected ones",
    ]
    return ctx.finish()


def replay(ctx, rp):
    job = rp["job"]
    recs = pool.run_jobs(__name__, [job])
    verdicts = ctx.validate(*TRACE, recs, tag="c04")
    core.log("replay verdict:", verdicts[0])
    core.log("  " + describe(job, recs[0], verdicts[0][0]))
    ctx.judge([job], recs, verdicts, what=describe)
    return ctx.finish()
