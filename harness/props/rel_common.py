"""Shared by c10.py and c14.py (relational properties, spec/Relations.tla).

Python here only calls bctpy on BOTH members of a pair and encodes the two outcomes;
which pairs exist, what their domain is and whether the outcomes agree is decided by
TLC (spec/Relations.tla, spec/Trace_Relations.tla).
"""
import json
import os

import numpy as np

from .. import core, encode

TRACE = ("Trace_Relations.tla", "Trace_Relations.cfg")


# ------------------------------------------------------------------ encoding
def _components(x):
    return list(x) if isinstance(x, tuple) else [x]


def enc_out(x, kind):
    """flatten an output (array, scalar or tuple of those) -> (list of ints, list of shapes)"""
    vals, shapes = [], []
    for comp in _components(x):
        a = np.asarray(comp, dtype=float)
        shapes.append(list(a.shape))
        if kind == "int":
            vals += [encode.e_int(v) for v in a.ravel()]
        else:
            vals += [encode.e_q(v) for v in a.ravel()]
    return vals, shapes


def call2(thunk, kind):
    """-> (out, shape, raised)"""
    try:
        with np.errstate(all="ignore"):
            res = thunk()
    except Exception as e:                      # noqa: BLE001 - the outcome IS the datum
        return [], [], encode.exc_name(e)
    try:
        out, shape = enc_out(res, kind)
    except (ValueError, TypeError) as e:
        return [], [], "Unencodable:" + str(e)[:60]
    return out, shape, ""


def enc_matrix(A):
    """-> (scale, integer matrix A*scale); weights must be integers or k/1000"""
    A = np.asarray(A, dtype=float)
    if np.all(A == np.round(A)):
        return 1, encode.mat_int(A)
    S = A * 1000.0
    R = np.round(S)
    if not np.all(np.abs(S - R) < 1e-9) or not np.all(R / 1000.0 == A):
        raise core.MachineryError("input weights are neither integers nor k/1000")
    return 1000, encode.mat_int(R)


# ------------------------------------------------------- TLC-enumerated partitions
def model_partitions(ctx, n):
    """All (partition as restricted growth string, injective renaming into the pool
    {-3,0,1,2,7,100}) pairs for n nodes, enumerated by TLC (spec/GenPartitions.tla)."""
    cache = os.path.join(core.VERIF, ".cache")
    os.makedirs(cache, exist_ok=True)
    path = os.path.join(cache, "partitions_%d.json" % n)
    if not os.path.exists(path):
        tmp = path + ".%d.tmp" % os.getpid()
        r = ctx._tlc("GenPartitions.tla", "GenPartitions_%d.cfg" % n, "gen_part%d" % n,
                     env={"GEN_FILE": tmp}, workers=4, timeout=900)
        if "No error has been found" not in r["out"] or not os.path.exists(tmp):
            raise core.MachineryError("GenPartitions %d failed: %s" % (n, r["out"][-2000:]))
        os.replace(tmp, path)
        ctx.mc_runs.append(dict(model="GenPartitions.tla", cfg="GenPartitions_%d.cfg" % n,
                                purpose="gen", wall_s=round(r["wall"], 2)))
    with open(path) as f:
        items = json.load(f)
    return sorted((tuple(c), tuple(rc)) for c, rc in items)


def describe(job, rec, clause):
    if rec.get("prop") == "C10":
        return "pair %s / %s on %s: raised=(%r,%r) out1=%s out2=%s A=%s" % (
            rec["fw"], rec["fb"], rec["dom"], rec["raised1"], rec["raised2"],
            rec["out1"][:12], rec["out2"][:12], job.get("A"))
    if rec.get("rel") == "relabel":
        return "%s: cs1=%s cs2=%s raised=(%r,%r) out1=%s out2=%s" % (
            rec["fn"], rec["cs1"], rec["cs2"], rec["raised1"], rec["raised2"],
            rec["out1"][:12], rec["out2"][:12])
    if rec.get("rel") == "pdist":
        return "partition_distance cx=%s cy=%s -> (VIn,MIn)=(%s,%s) swapped (%s,%s) raised=%r" % (
            rec["cx"], rec["cy"], rec["vxy"], rec["mxy"], rec["vyx"], rec["myx"], rec["raised"])
    return str({k: v for k, v in rec.items() if k not in ("W",)})[:400]


def count_verdicts(recs, verdicts):
    """{clause: n} plus {fn: {clause: n}} for everything that is not 'ok' (evidence only)"""
    tot, per = {}, {}
    for r, v in zip(recs, verdicts):
        tot[v[0]] = tot.get(v[0], 0) + 1
        if v[0] != "ok":
            d = per.setdefault(r.get("fn", "?"), {})
            k = "%s/%s" % (v[0], v[2])
            d[k] = d.get(k, 0) + 1
    return dict(total=tot, not_ok=per)


def note_never_judged(ctx, recs, verdicts):
    """functions/pairs for which EVERY record was skipped: the clause is vacuous for them in
    this run (e.g. a routine that raises on every call) - said aloud and kept in the evidence"""
    judged, allfn = set(), set()
    for r, v in zip(recs, verdicts):
        allfn.add(r.get("fn", "?"))
        if not v[0].startswith("skip:"):
            judged.add(r.get("fn", "?"))
    never = sorted(allfn - judged)
    why = {}
    for r, v in zip(recs, verdicts):
        if r.get("fn") in never:
            k = "%s (%s)" % (v[0], r.get("raised1", r.get("raised", "")))
            why.setdefault(r["fn"], {}).setdefault(k, 0)
            why[r["fn"]][k] += 1
    for fn in never:
        core.log("NOTE property=%s: %s was never judged (every record skipped: %s)" % (ctx.pid, fn, why[fn]))
    ctx.extra["never_judged"] = why
    return never
