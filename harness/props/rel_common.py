"""Shared by c10.py and c14.py (relational properties, spec/Relations.tla); the section on
argument dtype / layout families and structured supports is shared by all audited drivers.

Python here only calls bctpy on BOTH members of a pair and encodes the two outcomes;
which pairs exist, what their domain is and whether the outcomes agree is decided by
TLC (spec/Relations.tla, spec/Trace_Relations.tla).
"""
import json
import os

import numpy as np

from .. import core, encode

TRACE = ("Trace_Relations.tla", "Trace_Relations.cfg")


# ------------------------------------------------------------------ encoding
def _components(x):
    return list(x) if isinstance(x, tuple) else [x]


def enc_out(x, kind):
    """flatten an output (array, scalar or tuple of those) -> (list of ints, list of shapes)"""
    vals, shapes = [], []
    for comp in _components(x):
        a = np.asarray(comp, dtype=float)
        shapes.append(list(a.shape))
        if kind == "int":
            vals += [encode.e_int(v) for v in a.ravel()]
        else:
            vals += [encode.e_q(v) for v in a.ravel()]
    return vals, shapes


def call2(thunk, kind):
    """-> (out, shape, raised)"""
    try:
        with np.errstate(all="ignore"):
            res = thunk()
    except Exception as e:                      # noqa: BLE001 - the outcome IS the datum
        return [], [], encode.exc_name(e)
    try:
        out, shape = enc_out(res, kind)
    except (ValueError, TypeError) as e:
        return [], [], "Unencodable:" + str(e)[:60]
    return out, shape, ""


def enc_matrix(A):
    """-> (scale, integer matrix A*scale); weights must be integers or k/1000"""
    A = np.asarray(A, dtype=float)
    if np.all(A == np.round(A)):
        return 1, encode.mat_int(A)
    S = A * 1000.0
    R = np.round(S)
    if not np.all(np.abs(S - R) < 1e-9) or not np.all(R / 1000.0 == A):
        raise core.MachineryError("input weights are neither integers nor k/1000")
    return 1000, encode.mat_int(R)


# --------------------------------------------- argument dtype / memory-layout families
# Shared by the drivers c03 c04 c08 c09 c10 c12 c14 c15 c17 c18 c20.  A caller's matrix is not
# always a C-contiguous float64 array: the SAME mathematical matrix is handed to bctpy as another
# dtype / memory layout, while the record for TLC is always encoded from the float64 original.
# A (dtype, layout) pair is drawn per input from the seeded RNG over one of the universes below;
# `admissible` then maps the draw to what a given ROUTINE may be handed.  Three restrictions, each
# a statement about the routine's documented domain, not about its code:
#  (bool)    a boolean array is a binary network, not a weight matrix: numpy refuses `-`/sign on
#            it and the weighted routines answer with a TypeError - a refusal, not a wrong value.
#            Only routines documented for BINARY networks get bool; the others get int32.
#  (uint8)   unsigned integers wrap around modulo 2^k as soon as entries of a W-typed array are
#            subtracted or multiplied up (`Knm[i,:] - Knm[i,ma]`, `abs(W - W.T)`, matrix powers):
#            a numpy pitfall on the caller's side.  Unsigned types go only to routines that
#            convert/copy their argument to float first (floats_first=True); others get int32.
#  (float32) where the code has absolute decision thresholds (floyd's 1e-10 tie tolerance,
#            modularity gains) float32 rounding noise (1e-7) legitimately changes decisions, and
#            exact-fraction clauses with tolerance 2e-6 can fail on accumulated float32 error.
#            float32 goes only to routines whose outputs are integer-valued / structural (degrees,
#            components, cores, binary distances, thresholding supports); others get float64.
DT_BIN = ("float64", "float32", "int64", "int32", "uint8", "bool")       # 0/1 matrices
DT_COUNT = ("float64", "float32", "int64", "int32", "uint8")             # small non-negative integers
DT_SIGNED = ("float64", "float32", "int64", "int32")                     # small signed integers
DT_FLOAT = ("float64",)                                                  # anything else: layouts only
LAYOUTS = ("C", "F", "T", "slice", "stride", "negzero")
PLAIN = ("float64", "C")


def admissible(dtype, binary=False, structural=False, floats_first=False):
    """the dtype a routine is actually handed for a drawn `dtype` (restrictions above)"""
    if dtype == "bool" and not binary:
        dtype = "int32"
    if dtype == "uint8" and not floats_first:
        dtype = "int32"
    if dtype == "float32" and not structural:
        dtype = "float64"
    return dtype


def draw_variant(rng, family, p_plain=0.0):
    """-> (dtype, layout) from the seeded RNG; (float64, C) with probability p_plain, otherwise
    uniform over family x LAYOUTS minus the plain pair (every combination can co-occur)."""
    if rng.random() < p_plain:
        return PLAIN
    while True:
        v = (rng.choice(family), rng.choice(LAYOUTS))
        if v != PLAIN:
            return v


def as_variant(A, dtype="float64", layout="C"):
    """the array actually handed to bctpy: same values, other dtype / strides.  The cast must be
    lossless (MachineryError otherwise: the harness, not the code, would be at fault)."""
    A = np.asarray(A)
    B = A.astype(dtype)
    if A.shape != B.shape or not np.array_equal(B.astype(float), A.astype(float), equal_nan=True):
        raise core.MachineryError("lossy cast of an input to %s" % dtype)
    if layout == "negzero":                 # absent connections stored as -0.0 (what `sign(R) * (R > thr)`
        B = np.ascontiguousarray(B)         # or np.round of small negative values leave behind): same values
        if B.dtype.kind == "f":
            B = B.copy()
            B[B == 0] = -0.0
        return B
    if B.ndim != 2 or layout == "C":
        return np.ascontiguousarray(B)
    if layout == "F":
        return np.asfortranarray(B)
    if layout == "T":                       # transposed view of a C-contiguous buffer
        return B.T.copy().T
    r, c = B.shape
    if layout == "slice":                   # window of a larger array (junk around it)
        big = np.full((r + 2, c + 3), 1).astype(dtype)
        big[1:r + 1, 2:c + 2] = B
        return big[1:r + 1, 2:c + 2]
    if layout == "stride":                  # every second row/column of a larger array
        big = np.full((2 * r, 2 * c), 1).astype(dtype)
        big[::2, ::2] = B
        return big[::2, ::2]
    raise core.MachineryError("unknown layout %r" % layout)


_FAMILY_TAG = {"float64": "", "float32": "f32", "int64": "int", "int32": "int", "uint8": "u8", "bool": "bool"}


def tag_failures(ctx, jobs, recs, verdicts):
    """records for core.Ctx.judge: a FAILING record whose input was not a float64 array gets its
    function name suffixed with the dtype family ('invert@int'), so that a dtype-specific failure
    and a failure on float64 input are distinct (function, clause, class) keys - unless the plain
    key is a registered known finding.  The records TLC judged are untouched."""
    out = []
    for j, r, v in zip(jobs, recs, verdicts):
        tag = _FAMILY_TAG.get(j.get("dtype", "float64"), "")
        if tag and v[0] != "ok" and not v[0].startswith("skip:") and not r.get("timeout") \
                and core.match_finding(ctx.findings, r.get("fn", "?"), v[0], v[2]) is None:
            r = dict(r, fn="%s@%s" % (r.get("fn", "?"), tag))
        out.append(r)
    return out


def variant_counts(jobs):
    """{dtype/layout: n} for the evidence file"""
    d = {}
    for j in jobs:
        k = "%s/%s" % (j.get("dtype", "float64"), j.get("layout", "C"))
        d[k] = d.get(k, 0) + 1
    return d


# ------------------------------------------------------------- structured supports (edge lists)
def s_path(n):
    return [(i, i + 1) for i in range(n - 1)]


def s_cycle(n):
    return [(i, (i + 1) % n) for i in range(n)] if n > 2 else s_path(n)


def s_star(n):
    return [(0, j) for j in range(1, n)]


def s_complete(n):
    return [(i, j) for i in range(n) for j in range(i + 1, n)]


def s_bipartite(a, b):
    return [(i, a + j) for i in range(a) for j in range(b)]


def s_clique_ring(k, m):
    """k cliques of m nodes, consecutive cliques joined by one edge (a ring when k > 2)"""
    E = []
    for c in range(k):
        E += [(c * m + i, c * m + j) for i in range(m) for j in range(i + 1, m)]
    for c in range(k if k > 2 else k - 1):
        E.append((c * m + m - 1, ((c + 1) % k) * m))
    return E


def s_caterpillar(rng, n):
    """tree with a long chain (spine of ~2n/3 nodes) and leaves hung on random spine nodes"""
    s = max(2, (2 * n) // 3)
    E = s_path(s)
    for v in range(s, n):
        E.append((rng.randrange(s), v))
    return E


def s_components(parts):
    """disjoint union of (n, edges) parts -> (n_total, edges)"""
    off, E = 0, []
    for n, edges in parts:
        E += [(i + off, j + off) for i, j in edges]
        off += n
    return off, E


def structured_support(rng, nmin=5, nmax=10):
    """-> (name, n, undirected edge list i<j after a random renumbering): the families that small
    enumerations and G(n,p) hardly ever produce - long paths/cycles, stars, complete and complete
    bipartite graphs, caterpillars, rings of cliques, several components of equal / different
    sizes, isolated nodes."""
    kind = rng.choice(["path", "cycle", "star", "complete", "bipartite", "caterpillar", "cliquering",
                       "equal-components", "unequal-components", "isolated+"])
    n = rng.randint(nmin, nmax)
    if kind == "path":
        E = s_path(n)
    elif kind == "cycle":
        E = s_cycle(n)
    elif kind == "star":
        E = s_star(n)
    elif kind == "complete":
        n = min(n, 7)
        E = s_complete(n)
    elif kind == "bipartite":
        a = rng.randint(1, n - 1)
        E = s_bipartite(a, n - a)
    elif kind == "caterpillar":
        E = s_caterpillar(rng, n)
    elif kind == "cliquering":
        m = rng.choice([2, 3, 4])
        k = max(2, n // m)
        n, E = k * m, s_clique_ring(k, m)
    elif kind == "equal-components":
        m = rng.choice([2, 3, 4])
        part = rng.choice([s_path, s_cycle, s_complete, s_star])(m)
        n, E = s_components([(m, part)] * max(2, n // m))
    elif kind == "unequal-components":
        a = rng.randint(2, n - 2)
        f, g = rng.choice([s_path, s_cycle, s_complete, s_star]), rng.choice([s_path, s_cycle, s_star])
        n, E = s_components([(a, f(a)), (n - a, g(n - a))])
    else:
        m = rng.randint(2, n - 2)
        n, E = s_components([(m, rng.choice([s_path, s_cycle, s_complete, s_star])(m))] + [(1, [])] * (n - m))
    perm = list(range(n))
    rng.shuffle(perm)
    E = sorted(set(tuple(sorted((perm[i], perm[j]))) for i, j in E if i != j))
    return kind, n, E


def orient(rng, edges):
    """each undirected edge one way, the other way, or both (RNG-drawn) -> arc list"""
    arcs = []
    for (i, j) in edges:
        o = rng.randrange(3)
        if o in (0, 2):
            arcs.append((i, j))
        if o in (1, 2):
            arcs.append((j, i))
    return arcs


# ------------------------------------------------------- TLC-enumerated partitions
def model_partitions(ctx, n):
    """All (partition as restricted growth string, injective renaming into the pool
    {-3,0,1,2,7,100}) pairs for n nodes, enumerated by TLC (spec/GenPartitions.tla)."""
    cache = os.path.join(core.VERIF, ".cache")
    os.makedirs(cache, exist_ok=True)
    path = os.path.join(cache, "partitions_%d.json" % n)
    if not os.path.exists(path):
        tmp = path + ".%d.tmp" % os.getpid()
        r = ctx._tlc("GenPartitions.tla", "GenPartitions_%d.cfg" % n, "gen_part%d" % n,
                     env={"GEN_FILE": tmp}, workers=4, timeout=900)
        if "No error has been found" not in r["out"] or not os.path.exists(tmp):
            raise core.MachineryError("GenPartitions %d failed: %s" % (n, r["out"][-2000:]))
        os.replace(tmp, path)
        ctx.mc_runs.append(dict(model="GenPartitions.tla", cfg="GenPartitions_%d.cfg" % n,
                                purpose="gen", wall_s=round(r["wall"], 2)))
    with open(path) as f:
        items = json.load(f)
    return sorted((tuple(c), tuple(rc)) for c, rc in items)


def describe(job, rec, clause):
    if rec.get("prop") == "C10":
        return "pair %s / %s on %s: raised=(%r,%r) out1=%s out2=%s dtype=%s layout=%s A=%s" % (
            rec["fw"], rec["fb"], rec["dom"], rec["raised1"], rec["raised2"],
            rec["out1"][:12], rec["out2"][:12], job.get("dtype", "float64"), job.get("layout", "C"), job.get("A"))
    if rec.get("rel") == "relabel":
        return "%s: cs1=%s cs2=%s raised=(%r,%r) out1=%s out2=%s" % (
            rec["fn"], rec["cs1"], rec["cs2"], rec["raised1"], rec["raised2"],
            rec["out1"][:12], rec["out2"][:12])
    if rec.get("rel") == "pdist":
        return "partition_distance cx=%s cy=%s -> (VIn,MIn)=(%s,%s) swapped (%s,%s) raised=%r" % (
            rec["cx"], rec["cy"], rec["vxy"], rec["mxy"], rec["vyx"], rec["myx"], rec["raised"])
    return str({k: v for k, v in rec.items() if k not in ("W",)})[:400]


def count_verdicts(recs, verdicts):
    """{clause: n} plus {fn: {clause: n}} for everything that is not 'ok' (evidence only)"""
    tot, per = {}, {}
    for r, v in zip(recs, verdicts):
        tot[v[0]] = tot.get(v[0], 0) + 1
        if v[0] != "ok":
            d = per.setdefault(r.get("fn", "?"), {})
            k = "%s/%s" % (v[0], v[2])
            d[k] = d.get(k, 0) + 1
    return dict(total=tot, not_ok=per)


def note_never_judged(ctx, recs, verdicts):
    """functions/pairs for which EVERY record was skipped: the clause is vacuous for them in
    this run (e.g. a routine that raises on every call) - said aloud and kept in the evidence"""
    judged, allfn = set(), set()
    for r, v in zip(recs, verdicts):
        allfn.add(r.get("fn", "?"))
        if not v[0].startswith("skip:"):
            judged.add(r.get("fn", "?"))
    never = sorted(allfn - judged)
    why = {}
    for r, v in zip(recs, verdicts):
        if r.get("fn") in never:
            k = "%s (%s)" % (v[0], r.get("raised1", r.get("raised", "")))
            why.setdefault(r["fn"], {}).setdefault(k, 0)
            why[r["fn"]][k] += 1
    for fn in never:
        core.log("NOTE property=%s: %s was never judged (every record skipped: %s)" % (ctx.pid, fn, why[fn]))
    ctx.extra["never_judged"] = why
    return never
