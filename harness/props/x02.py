"""X02 - extended coverage (DESIGN section 8, item 2; not in MANIFEST):
clique_communities, agreement, agreement_weighted, consensus_und.

mc:       spec/BKImpl.tla      (Bron-Kerbosch with an explicit stack) refines Cliques (maximal
                               cliques by subset enumeration, percolation communities; the
                               published k-clique definition as an oracle) on every graph;
          spec/AgreementImpl.tla (buffered accumulation / weighted loop) refines Agreement on
                               every stack of <= 3 partitions of 4 nodes and on gapped labels;
          spec/ConsensusImpl.tla (threshold / cluster / unique_partitions loop with an
                               arbitrary clustering routine): contract invariants.
gen/run:  the real routines on every model graph (TLC-enumerated) x every threshold, random
          graphs n <= 10 (planted overlapping cliques), random partition stacks with arbitrary
          labels x buffsz in {1, 2, large}, small agreement matrices x tau x reps x seed.
          Inner behaviour is observed from OUTSIDE the library (sys.setprofile for the nested
          `bk` / `maximal_cliques`, a recorder around clustering.modularity_louvain_und_sign);
          /repo is not touched and needs no hook.
validate: spec/Trace_Cliques.tla, Trace_Agreement.tla, Trace_Consensus.tla judge every record.
"""
import contextlib
import io
import random
import sys

import numpy as np

from .. import core, encode, inputs, pool

FN_CQ = "clique_communities"
FN_AG = "agreement"
FN_AW = "agreement_weighted"
FN_CO = "consensus_und"


# --------------------------------------------------------------------------- real calls
def _nodes(v):
    return [int(i) + 1 for i in np.flatnonzero(np.asarray(v).ravel())]


def exec_cq(job):
    import bct
    A = np.array(job["A"], dtype=float)
    n = len(A)
    rec = dict(fn=FN_CQ, n=n, A=encode.mat_int(A), k=int(job["k"]), raised="", M=[],
               seen=0, mq=[], calls=[], printed=0)
    obs = dict(calls=[], mq=None)

    def prof(frame, event, arg):
        name = frame.f_code.co_name
        if event == "call" and name == "bk":
            loc = frame.f_locals
            if all(x in loc for x in ("R", "P", "X")):
                obs["calls"].append(dict(R=_nodes(loc["R"]), P=_nodes(loc["P"]), X=_nodes(loc["X"])))
        elif event == "return" and name == "maximal_cliques":
            mq = frame.f_locals.get("MQ")
            if isinstance(mq, list):
                obs["mq"] = [_nodes(c) for c in mq]

    out = io.StringIO()
    sys.setprofile(prof)
    try:
        with contextlib.redirect_stdout(out):
            M = bct.clique_communities(A, job["k"])
    except Exception as e:
        rec["raised"] = encode.exc_name(e)
        M = None
    finally:
        sys.setprofile(None)
    rec["printed"] = len(out.getvalue())
    if obs["mq"] is not None and obs["calls"]:
        rec.update(seen=1, mq=obs["mq"], calls=obs["calls"])
    if M is not None:
        M = np.asarray(M)
        if M.ndim != 2:
            rec["raised"] = "not2d:%s" % (M.shape,)
        else:
            try:
                rec["M"] = encode.mat_int(M)
            except ValueError:          # an entry that is no integer
                rec["raised"] = "unencodable_output"
    return rec


def exec_ag(job):
    import bct
    ci = np.array(job["ci"])               # node-major n x m
    n, m = ci.shape
    rec = dict(fn=job["fn"], n=n, m=m, ci=ci.tolist(), raised="", D=[],
               buffsz=int(job.get("buffsz", 0)), w=[int(x) for x in job.get("w", [])])
    try:
        if job["fn"] == FN_AG:
            D = bct.agreement(ci.copy(), buffsz=job["buffsz"])
            rec["D"] = encode.mat_int(D)
        else:
            D = bct.agreement_weighted(ci.T.copy(), np.array(job["w"], dtype=float))
            rec["D"] = encode.mat_q(D)
    except Exception as e:
        rec["raised"] = encode.exc_name(e)
    return rec


def exec_co(job):
    import warnings
    import bct
    import bct.algorithms.clustering as cl
    D = np.array(job["D"], dtype=float)
    n = len(D)
    rec = dict(fn=FN_CO, n=n, reps=int(job["reps"]), tau=encode.e_q(job["tau"]), D=encode.mat_q(D),
               raised="", result=[], again=[], seen=0, calls=[])
    calls = []
    orig = cl.modularity_louvain_und_sign

    def recorder(W, *a, **k):
        dt = encode.mat_q(np.array(W, dtype=float))
        out = orig(W, *a, **k)
        calls.append(dict(dt=dt, ci=encode.vec_int(out[0])))
        return out

    with warnings.catch_warnings():
        warnings.simplefilter("ignore")
        cl.modularity_louvain_und_sign = recorder
        try:
            res = bct.consensus_und(D.copy(), job["tau"], reps=job["reps"], seed=job["seed"])
            rec["result"] = encode.vec_int(np.atleast_1d(res))
        except Exception as e:
            rec["raised"] = encode.exc_name(e)
        finally:
            cl.modularity_louvain_und_sign = orig
        if calls:
            rec.update(seen=1, calls=calls)
        if rec["raised"] == "":
            try:
                res2 = bct.consensus_und(D.copy(), job["tau"], reps=job["reps"], seed=job["seed"])
                rec["again"] = encode.vec_int(np.atleast_1d(res2))
            except Exception as e:
                rec["again"] = [-1]
    return rec


def exec_job(job):
    fn = job["fn"]
    if fn == FN_CQ:
        return exec_cq(job)
    if fn in (FN_AG, FN_AW):
        return exec_ag(job)
    return exec_co(job)


# --------------------------------------------------------------------------- inputs
def decorate(rng, n, edges, mode):
    """support from the model; the routine documents 'binary undirected' and itself binarises
    and clears the diagonal, so weights / diagonal are decoration."""
    A = inputs.mat_from_edges(n, edges, und=True)
    if mode == 1:
        for (i, j) in edges:
            A[i, j] = A[j, i] = rng.choice([1, 2, 5, -3])
        for i in range(n):
            A[i, i] = rng.choice([0, 1, 4])
    return A


def planted(rng, n):
    """overlapping planted cliques + noise edges (several maximal cliques, chains that percolate
    at some thresholds and break at others)"""
    A = np.zeros((n, n))
    for _ in range(rng.randint(2, 4)):
        size = rng.randint(2, min(5, n))
        S = rng.sample(range(n), size)
        for a in S:
            for b in S:
                if a != b:
                    A[a, b] = 1
    for _ in range(rng.randint(0, n)):
        a, b = rng.sample(range(n), 2)
        A[a, b] = A[b, a] = 1
    return A


def cq_jobs(ctx, rng):
    jobs = []
    sizes = [2, 3, 4, 5] if ctx.quick else [2, 3, 4, 5, 6]
    for n in sizes:
        if n == 2:
            graphs = [[], [(0, 1)]]
        else:
            graphs = inputs.model_graphs(ctx, "und", n)
        if n == 6:
            graphs = inputs.sample(rng, graphs, 6000)
        for edges in graphs:
            ks = range(1, n + 2) if n <= 5 else rng.sample(range(1, n + 2), 3)
            for k in ks:
                mode = 0 if n >= 5 else rng.choice([0, 0, 1])
                jobs.append(dict(fn=FN_CQ, src="model", k=k, A=decorate(rng, n, edges, mode).tolist()))
    for edges in inputs.sample(rng, inputs.model_graphs(ctx, "dir", 3), 20):
        jobs.append(dict(fn=FN_CQ, src="model-dir", k=2,
                         A=inputs.mat_from_edges(3, edges, und=False).tolist()))
    for t in range(250 if ctx.quick else 3000):
        n = rng.randint(6, 10)
        A = planted(rng, n) if t % 3 else inputs.rand_graph(rng, n, rng.choice([0.3, 0.5, 0.7]), und=True)
        for k in rng.sample(range(1, 7), 2):
            jobs.append(dict(fn=FN_CQ, src="random", k=k, A=A.tolist()))
    return jobs


LABEL_POOLS = [[1, 2, 3, 4], [0, 1, 2], [-3, 0, 7, 100], [5, 9], [2]]


def ag_jobs(ctx, rng):
    jobs = []
    for t in range(500 if ctx.quick else 5000):
        n = rng.randint(2, 9)
        m = rng.randint(1, 7)
        pool_ = rng.choice(LABEL_POOLS)
        ci = [[rng.choice(pool_) for _ in range(m)] for _ in range(n)]
        if t % 2 == 0:
            for b in (1, 2, rng.choice([3, m, 1000])):
                jobs.append(dict(fn=FN_AG, ci=ci, buffsz=b))
        else:
            w = [rng.randint(1, 9) for _ in range(m)]
            if t % 10 == 1:
                w = [1] * m
            jobs.append(dict(fn=FN_AW, ci=ci, w=w))
    return jobs


def co_jobs(ctx, rng):
    jobs = []
    for t in range(160 if ctx.quick else 1500):
        n = rng.randint(3, 8)
        kind = t % 6
        D = np.zeros((n, n))
        if kind >= 4:        # rings / paths with uniform weights: the clustering depends on the
            n = rng.randint(6, 10)    # visiting order, so several passes are needed
            D = np.zeros((n, n))
            shape = rng.choice(["ring", "ring2", "path"])
            for i in range(n):
                j = (i + 1) % n
                if shape == "path" and j == 0:
                    continue
                D[i, j] = D[j, i] = 0.5
                if shape == "ring2":
                    j = (i + 2) % n
                    D[i, j] = D[j, i] = 0.25
        elif kind == 0:       # agreement of a few random partitions / m  (two decimals)
            vals = [0, 0.25, 0.5, 0.75, 1]
            lab = [[rng.randint(1, 3) for _ in range(n)] for _ in range(4)]
            for i in range(n):
                for j in range(i + 1, n):
                    D[i, j] = D[j, i] = vals[sum(1 for p in lab if p[i] == p[j])]
        elif kind == 1:      # two planted groups, noisy
            g = [rng.randint(0, 1) for _ in range(n)]
            for i in range(n):
                for j in range(i + 1, n):
                    D[i, j] = D[j, i] = rng.choice([0.8, 0.9, 1]) if g[i] == g[j] else rng.choice([0, 0.1, 0.2])
        else:                # arbitrary two-decimal probabilities
            for i in range(n):
                for j in range(i + 1, n):
                    D[i, j] = D[j, i] = rng.choice([0, 0.2, 0.25, 0.4, 0.5, 0.6, 0.75, 1])
        if t % 3 == 0:       # a node always shares a module with itself: unit diagonal is legitimate input
            np.fill_diagonal(D, 1)
        tau = rng.choice([0, 0.1, 0.2, 0.25, 0.3, 0.5, 0.6, 0.75, 1, 1.5])
        if kind >= 4:
            tau = rng.choice([0, 0.1, 0.2, 0.25, 0.3])
        reps = rng.choice([2, 2, 3, 4, 5]) if t % 16 else 1
        jobs.append(dict(fn=FN_CO, D=D.tolist(), tau=tau, reps=reps, seed=rng.randint(0, 10 ** 6)))
    return jobs


# --------------------------------------------------------------------------- driver
SPEC = {FN_CQ: "Trace_Cliques", FN_AG: "Trace_Agreement", FN_AW: "Trace_Agreement", FN_CO: "Trace_Consensus"}


def validate_all(ctx, jobs, recs):
    groups = {}
    for k, j in enumerate(jobs):
        groups.setdefault(SPEC[j["fn"]], []).append(k)
    verdicts = [None] * len(jobs)

    def one(spec, idx):
        def thunk():
            return ctx.validate(spec + ".tla", spec + ".cfg", [recs[k] for k in idx], chunk=3000)
        return thunk
    names = sorted(groups)
    outs = ctx.parallel([one(s, groups[s]) for s in names], width=3)
    for s, vs in zip(names, outs):
        for k, v in zip(groups[s], vs):
            verdicts[k] = v
    return verdicts


def what(job, rec, clause):
    if rec["fn"] == FN_CQ:
        return "n=%d k=%d raised=%s rows=%d" % (rec["n"], rec["k"], rec["raised"], len(rec["M"]))
    if rec["fn"] in (FN_AG, FN_AW):
        return "n=%d m=%d buffsz=%s w=%s raised=%s" % (rec["n"], rec["m"], rec["buffsz"], rec["w"], rec["raised"])
    return "n=%d reps=%d tau=%s raised=%s passes=%d" % (rec["n"], rec["reps"], job["tau"], rec["raised"],
                                                      len(rec["calls"]) // max(1, rec["reps"]))


def run(ctx):
    q = ctx.quick
    mcs = [("MC_Cliques.tla", "MC_Cliques_n5.cfg" if q else "MC_Cliques_n6.cfg"),
           ("MC_Agreement.tla", "MC_Agreement_canon4.cfg" if q else "MC_Agreement_canon4_thorough.cfg"),
           ("MC_Agreement.tla", "MC_Agreement_labels3.cfg" if q else "MC_Agreement_labels3_thorough.cfg"),
           ("MC_Consensus.tla", "MC_Consensus_n3r2.cfg")]
    if not q:
        mcs += [("MC_Cliques.tla", "MC_Cliques_n5.cfg"),
                ("MC_Consensus.tla", "MC_Consensus_n3r2any_thorough.cfg"),
                ("MC_Consensus.tla", "MC_Consensus_n3r3_thorough.cfg"),
                ("MC_Consensus.tla", "MC_Consensus_n4r2_thorough.cfg")]
    ctx.parallel([(lambda t=t, c=c: ctx.mc(t, c, workers=4 if q else 8)) for t, c in mcs], width=4)
    rng = random.Random(ctx.seed)
    jobs = cq_jobs(ctx, rng) + ag_jobs(ctx, rng) + co_jobs(ctx, rng)
    recs = pool.run_jobs(__name__, jobs, probes=False)     # (its recorder would also see the probes' sacrificial calls)
    verdicts = validate_all(ctx, jobs, recs)
    ctx.judge(jobs, recs, verdicts, what=what)
    seen = set()
    for j, r, v in zip(jobs, recs, verdicts):
        if r.get("timeout"):
            continue
        if r["fn"] == FN_CQ and v[2] == "several_maximal_cliques" and len(r["M"]) >= 1:
            seen.add(("cq", str(r["A"]), r["k"]))
        elif r["fn"] in (FN_AG, FN_AW) and r["m"] >= 2 and r["raised"] == "":
            seen.add((r["fn"], str(r["ci"]), r["buffsz"], str(r["w"])))
        elif r["fn"] == FN_CO and r["seen"] and len(r["calls"]) > r["reps"]:
            seen.add(("co", str(r["D"]), r["tau"], r["reps"]))
    ctx.nontrivial = len(seen)
    ctx.exhaustive = True
    ctx.rule = ("clique_communities: every undirected graph on 2..%d nodes (TLC-enumerated) x every "
                "threshold 1..n+1, random graphs with planted overlapping cliques n in 6..10; "
                "agreement(_weighted): random stacks of 1..7 partitions of 2..9 nodes with arbitrary "
                "labels x buffsz in {1, 2, large}; consensus_und: two-decimal agreement matrices on 3..10 "
                "nodes (random, planted groups, uniform rings/paths) x tau x reps in 1..5 x seed.  non-trivial = clique input with several maximal "
                "cliques and >= 1 community / >= 2 partitions / a consensus run that needed > 1 pass"
                % (5 if q else 6))
    for fn in (FN_CQ, FN_AG, FN_AW, FN_CO):
        for j, r in zip(jobs, recs):
            if r["fn"] == fn and not r.get("timeout") and r.get("raised") == "":
                ctx.add_sample(fn, dict(job=j, record=r))
                break
    ctx.assumptions += [
        "TLC evaluates the L0 definitions correctly",
        "inner behaviour (bk calls, MQ, inner clustering calls) is observed with sys.setprofile / a "
        "recorder around a module-level name; if a change makes them unobservable the clauses that "
        "need them are not judged (seen = 0), the clauses on the returned value still are",
        "consensus_und: the clustering routine is not modelled (any partition); termination is not a property",
        "integer labels and weights; two-decimal probabilities (float comparisons agree with E-q6 ones)"]
    return ctx.finish()


def replay(ctx, rp):
    job = rp["job"]
    recs = pool.run_jobs(__name__, [job])
    spec = SPEC[job["fn"]]
    verdicts = ctx.validate(spec + ".tla", spec + ".cfg", recs)
    core.log("replay verdict:", verdicts[0])
    ctx.judge([job], recs, verdicts, what=what)
    return ctx.finish()
