"""C13 - library calls never modify the caller's arrays unless copy=False is requested.

mc/gen:   spec/MC_CallerArrays.tla: abstract heap (buffers with fingerprint/dtype/shape, objects that
          alias buffers); TLC enumerates every program of <= 3 calls over the abstract classes
          {pure, util(copy flag), alias} x Return|Raise in which later calls receive the caller's
          array or an earlier result, proves the four property statements + the frame theorem
          (only an explicit copy=False writes, whatever alias the caller looks through) on all of
          them, and prints the program shapes.  MC_CallerArrays_defect.cfg (a diagonal-clearing
          class added) must VIOLATE ArgsUnchangedInv - the statement is not vacuous.
run:      (a) every callable public function of harness/registry.py, every option variant, with
          float and int arrays that have a NON-ZERO DIAGONAL, signed entries where accepted,
          arbitrary community labels; the same with arguments that make it raise (registry `bad`
          overrides, non-square matrix, too short label vector, asymmetric matrix);
          (b) the TLC program shapes instantiated with real functions
          (e.g. r = threshold_absolute(W, copy=False); degrees_und(r); ... ; r is W).
          The harness only OBSERVES: SHA-1 of the bytes + dtype + shape of every array passed,
          before and after, also on the exception path; identity of the result.
validate: spec/Trace_CallerArrays.tla: DtypeShapeUnchanged, UnchangedOnRaise, ArgsUnchanged,
          CopyFalseOperatesInPlace per call; input class (nonzero_diagonal / zero_diagonal / any)
          computed by the spec from the first matrix argument.
"""
import hashlib
import random

import numpy as np

from .. import core, encode, pool
from .. import registry as R

TRACE = ("Trace_CallerArrays.tla", "Trace_CallerArrays.cfg")
BAD = ("skip:malformed_record",)
UTILS = ("threshold_absolute", "threshold_proportional", "weight_conversion", "binarize",
         "normalize", "invert", "logtransform", "autofix")
VIEWS = ("T", "slice", "view", "asarray")


# ------------------------------------------------------------------------ observation
def _fp(a):
    if hasattr(a, "indptr"):                       # scipy.sparse
        h = hashlib.sha1()
        for part in (a.data, a.indices, a.indptr):
            h.update(np.ascontiguousarray(part).tobytes())
        return h.hexdigest(), str(a.dtype), "sparse" + str(tuple(a.shape))
    return (hashlib.sha1(np.ascontiguousarray(a).tobytes()).hexdigest(), str(a.dtype),
            str(tuple(a.shape)))


def _is_arr(v):
    return isinstance(v, np.ndarray) or hasattr(v, "indptr")


def _tracked(args, kwargs):
    """[(name, array)]: every array passed - positional, keyword, inside lists/tuples"""
    out = []
    for i, a in enumerate(args):
        if _is_arr(a):
            out.append(("arg%d" % i, a))
        elif isinstance(a, (list, tuple)):
            for k, x in enumerate(a):
                if _is_arr(x):
                    out.append(("arg%d[%d]" % (i, k), x))
    for k in sorted(kwargs):
        if _is_arr(kwargs[k]):
            out.append(("kw:" + k, kwargs[k]))
    return out


def _enc_A(a):
    if isinstance(a, np.ndarray) and a.ndim == 2 and 0 < a.shape[0] <= 13 and 0 < a.shape[1] <= 13:
        try:
            return [[encode.e_q(v, 1000) for v in row] for row in np.asarray(a, dtype=float)]
        except (ValueError, TypeError):
            return []
    return []


def observe(label, base, fn, args, kwargs, copy):
    """make ONE real call and return the observation record"""
    tr = _tracked(args, kwargs)
    before = [_fp(a) for _, a in tr]
    rec = dict(prop="C13", fn=label, base=base, copy=copy, raised=0, exc="", resis=0, shares=[],
               A=_enc_A(args[0]) if args else [])
    res = None
    try:
        with np.errstate(all="ignore"):
            res = fn(*args, **kwargs)
    except Exception as e:                       # noqa: BLE001 - the outcome IS the datum
        rec["raised"], rec["exc"] = 1, encode.exc_name(e)
    after = [_fp(a) for _, a in tr]
    rec["args"] = [dict(name=nm, fp0=b[0], dt0=b[1], sh0=b[2], fp1=a[0], dt1=a[1], sh1=a[2])
                   for (nm, _), b, a in zip(tr, before, after)]
    comps = res if isinstance(res, tuple) else (res,)
    for k, (_, a) in enumerate(tr):
        if res is a:
            rec["resis"] = k + 1
        for c in comps:
            try:
                if isinstance(c, np.ndarray) and isinstance(a, np.ndarray) and np.shares_memory(c, a):
                    rec["shares"].append(k + 1)
                    break
            except Exception:                    # noqa: BLE001
                pass
    return rec, res


# ------------------------------------------------------------------------ (a) single calls
def _corrupt(row, args, how, rng):
    """argument lists that make the routine raise (after it may already have started work)"""
    args = list(args)
    mats = [i for i, a in enumerate(args) if isinstance(a, np.ndarray) and a.ndim == 2
            and a.shape[0] == a.shape[1]]
    if how == "nonsquare" and mats:
        a = args[mats[0]]
        args[mats[0]] = np.hstack([a, a[:, :1]])
    elif how == "short_ci":
        ks = [i for i, s in enumerate(row["args"]) if s["k"] == "ci"]
        if not ks:
            return None
        args[ks[0]] = args[ks[0]][:-2]
    elif how in ("ci_row", "ci_col"):
        # (seed round 7) the first label vector as a 1 x n row or n x 1 column (what scipy.io.loadmat
        # returns for a MATLAB vector), further label vectors stay flat: mixed shapes.  Whether the
        # routine accepts the form or raises, the caller's array keeps bytes, dtype AND shape
        ks = [i for i, s in enumerate(row["args"]) if s["k"] == "ci" and isinstance(args[i], np.ndarray)
              and args[i].ndim == 1]
        if not ks:
            return None
        args[ks[0]] = args[ks[0]].reshape((1, -1) if how == "ci_row" else (-1, 1)).copy()
    elif how == "asym" and mats:
        a = args[mats[0]].copy()
        a[0, 1] = a[0, 1] + 1
        a[1, 0] = 0
        args[mats[0]] = a
    elif how == "plain" and mats:                 # weights outside (0,1]
        args[mats[0]] = args[mats[0]] * 3
    elif how == "smaller" and len(mats) > 1:
        args[mats[1]] = args[mats[1]][:-1, :-1].copy()
    else:
        return None
    return args


def single_call_jobs(ctx):
    jobs = []
    k = 0
    for row in R.callable_rows():
        for label, vkey in R.cases(row):
            for dtype in ("float", "int", "bool", "uint8"):
                variants = [("", None)]
                for b in row["bad"]:
                    variants.append(("bad%d" % len(variants), b))
                variants += [("nonsquare", "nonsquare"), ("short_ci", "short_ci"), ("asym", "asym")]
                if dtype in ("float", "int"):
                    variants += [("ci_row", "ci_row"), ("ci_col", "ci_col")]
                # option combinations: a branch may only be reached when two options are set together
                # (one variant = one option in the registry), so every pair of variants with disjoint
                # plain keyword sets is also exercised
                if vkey == "":
                    plain = {v: {k: x for k, x in kws.items() if not k.startswith("_") and k != "args"}
                             for v, kws in row["variants"].items() if v}
                    plain = {v: kws for v, kws in plain.items()
                             if kws and all(isinstance(x, (bool, int, float, str)) and x not in
                                            ("CI", "VEC", "DIST", "ETA") for x in kws.values())}
                    names = sorted(plain)
                    for i1 in range(len(names)):
                        for i2 in range(i1 + 1, len(names)):
                            if not set(plain[names[i1]]) & set(plain[names[i2]]):
                                merged = dict(plain[names[i1]])
                                merged.update(plain[names[i2]])
                                variants.append(("combo_%s+%s" % (names[i1], names[i2]), dict(kw=merged)))
                reps = 1 if ctx.quick else 3
                for rep in range(reps):
                    for tag, bad in variants:
                        k += 1
                        jobs.append(dict(kind="single", fn=label, base=row["name"], vkey=vkey, dtype=dtype,
                                         bad=bad, tag=tag, seed=ctx.seed * 1000003 + k,
                                         zero_diag=(rep == 2)))
                # the smallest networks the routine takes (2 / 3 nodes): several routines leave their
                # normal path there (nothing to swap, no triple, recursion that never ends) and raise
                if dtype == "float":
                    for tiny in (2, 3):
                        k += 1
                        jobs.append(dict(kind="single", fn=label, base=row["name"], vkey=vkey, dtype=dtype,
                                         bad=None, tag="tiny%d" % tiny, seed=ctx.seed * 1000003 + k, tiny=tiny))
                # the copy=False utilities once more on "almost symmetric" float matrices, as they come
                # out of floating-point pipelines: W[j,i] = W[i,j] +- 1e-9, with half of the values next
                # to a boundary of the 5-decimal rounding these utilities document (k.5e-5 +- 1e-9) -
                # inputs that reach the clean-up branches of autofix and friends
                if row.get("inplace") and dtype == "float":
                    for rep in range(3 if ctx.quick else 12):
                        k += 1
                        jobs.append(dict(kind="single", fn=label, base=row["name"], vkey=vkey, dtype=dtype,
                                         bad=None, tag="nearsym", seed=ctx.seed * 1000003 + k, nearsym=1))
    return jobs


def _exec_single(job):
    import bct
    row = R.BY_NAME[job["base"]]
    rng = random.Random(job["seed"])
    n = max(6, row["minn"]) if not job.get("tiny") else max(job["tiny"], row["minn"])
    dtype = float if job["dtype"] == "float" else int          # (bool / uint8: built as int, converted below)
    args = R.build_special(row, rng, n, diag=not job.get("zero_diag"), dtype=dtype,
                           arbitrary_labels=True, vkey=job["vkey"])
    if job["dtype"] == "float" and job["seed"] % 5 == 0:
        # matrices that come out of floating-point pipelines carry round-off noise: a few entries
        # that "should" be zero are +-1e-12 (inside every routine's own tolerance for negativity)
        for i, a in enumerate(args):
            if isinstance(a, np.ndarray) and a.ndim == 2 and a.shape[0] == a.shape[1] and a.dtype.kind == "f":
                a = a.copy()
                zi, zj = np.where(a == 0)
                for t in rng.sample(range(len(zi)), min(3, len(zi))):
                    if zi[t] != zj[t]:
                        a[zi[t], zj[t]] = rng.choice([-1e-12, 1e-13, -3e-11])
                        if (args[i] == args[i].T).all():
                            a[zj[t], zi[t]] = a[zi[t], zj[t]]
                args[i] = a
    if job.get("nearsym"):
        for i, a in enumerate(args):
            if isinstance(a, np.ndarray) and a.ndim == 2 and a.shape[0] == a.shape[1] and a.dtype.kind == "f":
                a = (a + a.T) / 2
                m = len(a)
                for x in range(m):
                    for y in range(x + 1, m):
                        if a[x, y] != 0:
                            if rng.random() < 0.5:
                                a[x, y] = np.sign(a[x, y]) * (rng.randint(1000, 99999) * 1e-5 + 0.5e-5)
                            e = rng.choice([1e-9, 3e-10, 1e-12])
                            a[y, x] = a[x, y] + e
                            a[x, y] -= e
                args[i] = a
    if job["dtype"] == "uint8":
        # unsigned 8-bit matrices (image-like data, counts): |values| of every integer matrix argument.
        # Arithmetic on them wraps or raises inside many routines - whatever the routine then does, the
        # caller's array must come back untouched
        conv = False
        for i, a in enumerate(args):
            if isinstance(a, np.ndarray) and a.ndim == 2 and a.shape[0] == a.shape[1] \
                    and a.dtype.kind in "iu" and np.abs(a).max(initial=0) < 256:
                args[i] = np.abs(a).astype(np.uint8)
                conv = True
        if not conv:
            return []
    if job["dtype"] == "bool":
        # boolean adjacency matrices (e.g. W > thr) are a natural caller-side type: every integer
        # matrix argument whose entries are all 0/1 is passed as bool; rows without one are skipped
        conv = False
        for i, a in enumerate(args):
            if isinstance(a, np.ndarray) and a.ndim == 2 and a.shape[0] == a.shape[1] \
                    and a.dtype.kind in "iu" and np.isin(a, (0, 1)).all():
                args[i] = a.astype(bool)
                conv = True
        if not conv:
            return []
    kw = R.resolve_kwargs(row, job["vkey"], args, rng, n, dtype=dtype, arbitrary_labels=True)
    # distance-matrix arguments: every other call gets unreachable pairs (inf entries)
    for i, a in enumerate(row["args"]):
        if a["k"] == "derived" and a.get("how") == "distance_bin" and job["seed"] % 2 and \
                isinstance(args[i], np.ndarray) and args[i].ndim == 2 and args[i].dtype.kind == "f":
            args[i] = args[i].copy()
            args[i][0, 1:] = np.inf
            args[i][1:, 0] = np.inf
    if row["seeded"]:
        kw["seed"] = job["seed"] % 1000
    bad = job["bad"]
    if isinstance(bad, dict):
        kw.update(bad.get("kw", {}))
        for idx, v in bad.get("args", {}).items():
            args[int(idx)] = v
        for key in ("arg0", "arg1"):
            if key in bad:
                args2 = _corrupt(row, args, bad[key], rng)
                if args2 is None:
                    return []
                args = args2
    elif isinstance(bad, str):
        args = _corrupt(row, args, bad, rng)
        if args is None:
            return []
    copy = "na"
    if "copy" in kw and row["inplace"]:
        copy = "true" if kw["copy"] else "false"
    f = getattr(bct, row["name"])
    import inspect
    names = list(inspect.signature(f).parameters)
    pos = [a for i, a in enumerate(args) if not (i < len(names) and names[i] in kw)]
    rec, _ = observe(job["fn"], job["base"], f, pos, kw, copy)
    rec.update(step=1, tag=job["tag"], dtype=job["dtype"])
    return [rec]


# ------------------------------------------------------------------- (b) TLC program shapes
def model_programs(ctx):
    items = ctx.gen("MC_CallerArrays.tla", "MC_CallerArrays.cfg", tag="gen_programs", workers=4)
    seen, out = set(), []
    for p in items:
        key = str(p)
        if key not in seen:
            seen.add(key)
            out.append(p)
    return out


def _pure_pool():
    """public functions that take one network matrix (+ scalars/partition) - any of them can stand
    for the abstract class "pure"; `mm`: those whose (first) result is again an n x n matrix, so
    that a later call can receive it"""
    allp, mm = [], []
    for row in R.callable_rows():
        if row["inplace"] or row["always_raises"]:
            continue
        ks = [a["k"] for a in row["args"]]
        if not ks or ks[0] != "mat" or any(k in ("derived", "stack", "xyz", "sparse") for k in ks):
            continue
        if sum(1 for k in ks if k == "mat") != 1:
            continue
        for label, vkey in R.cases(row)[:2]:
            allp.append((row["name"], vkey, label))
            o = R.out_kinds(row, vkey)
            if o and o[0][0] == "pairmat" and row["det"]:
                mm.append((row["name"], vkey, label))
    return allp, mm


def program_jobs(ctx, programs):
    rng = random.Random(ctx.seed + 13)
    progs = [p for p in programs if len(p) >= 2]
    if ctx.quick:
        progs = rng.sample(progs, min(len(progs), 900))
    return [dict(kind="program", fn="program", prog=p, seed=ctx.seed * 7919 + k) for k, p in enumerate(progs)]


def _util_call(name, copy, W, raises, rng):
    """-> (label, fn, args, kwargs, copyflag)"""
    import bct
    kw = {}
    if copy != "na":
        kw["copy"] = (copy == "true")
    args = [W]
    if name == "threshold_absolute":
        args.append(0.3)
    elif name == "threshold_proportional":
        args.append(1.5 if raises else 0.4)
    elif name == "weight_conversion":
        args.append("sqrt" if raises else rng.choice(["binarize", "normalize", "lengths"]))
    elif name == "logtransform" and raises:
        args[0] = W                                 # raises by itself once W left (0,1]
    label = "%s[%s]" % (name, {"true": "copy", "false": "nocopy", "na": "default"}[copy])
    return label, getattr(bct, name), args, kw, copy


def _exec_program(job):
    import bct
    rng = random.Random(job["seed"])
    n = 6
    allp, mm = _pure_pool()
    W = R.build_matrix(rng, n, dict(w="unit", d="dir", full=True), dtype=float)
    objs = {1: W}
    used_later = set()
    for st in job["prog"]:
        used_later.add(st["arg"])
    recs = []
    for k, st in enumerate(job["prog"]):
        x = objs.get(st["arg"])
        if x is None or not isinstance(x, np.ndarray):
            break                                    # an earlier call raised / returned no matrix
        res_needed = (len(objs) + 1) in {s["arg"] for s in job["prog"][k + 1:]}
        if st["cls"] == "alias":
            how = VIEWS[rng.randrange(len(VIEWS))]
            r = {"T": x.T, "slice": x[:], "view": x.view(), "asarray": np.asarray(x)}[how]
            objs[len(objs) + 1] = r
            continue
        if st["cls"] == "util":
            name = UTILS[rng.randrange(len(UTILS))]
            label, f, args, kw, copy = _util_call(name, st["copy"], x, st["raises"], rng)
            base = name
        else:
            name, vkey, label = (mm if res_needed else allp)[rng.randrange(len(mm if res_needed else allp))]
            row = R.BY_NAME[name]
            args = R.build_args(row, rng, n, vkey=vkey, arbitrary_labels=True)
            args[0] = x
            kw = R.resolve_kwargs(row, vkey, args, rng, n, arbitrary_labels=True)
            if row["seeded"]:
                kw["seed"] = job["seed"] % 1000
            if st["raises"]:                      # realise the model's Raise with the caller's x still passed
                cis = [i for i, a_ in enumerate(row["args"]) if a_["k"] == "ci"]
                if row["bad"] and "kw" in row["bad"][0]:
                    kw.update(row["bad"][0]["kw"])
                elif cis:
                    args[cis[0]] = args[cis[0]][:-2]
                else:
                    kw["no_such_option"] = 1
            f = getattr(bct, name)
            import inspect
            names = list(inspect.signature(f).parameters)
            args = [a for i, a in enumerate(args) if not (i < len(names) and names[i] in kw)]
            copy, base = "na", name
        rec, res = observe(label, base, f, args, kw, copy)
        rec.update(step=k + 1, tag="program", dtype="float",
                   shape=" ; ".join("%s%s(%d)%s" % (s["cls"], "" if s["copy"] == "na" else "[copy=%s]" % s["copy"],
                                                      s["arg"], "!" if s["raises"] else "") for s in job["prog"]))
        recs.append(rec)
        if rec["raised"]:
            continue                                 # no result object (the model's Raise)
        if rec["resis"] == 1 and st["cls"] == "util" and st["copy"] == "false":
            continue                                 # result IS the argument: no new object
        first = res[0] if isinstance(res, tuple) else res
        objs[len(objs) + 1] = first if isinstance(first, np.ndarray) and first.ndim == 2 else None
    return recs


def exec_job(job):
    recs = _exec_single(job) if job["kind"] == "single" else _exec_program(job)
    return dict(fn=job["fn"], calls=recs)


# --------------------------------------------------------------------------------- run
def describe(job, rec, clause):
    ch = [a["name"] for a in rec.get("args", []) if a["fp0"] != a["fp1"] or a["dt0"] != a["dt1"]
          or a["sh0"] != a["sh1"]]
    return "%s step %s of [%s] copy=%s raised=%s(%s) resis=%s changed=%s dtype=%s" % (
        rec.get("fn"), rec.get("step"), rec.get("shape", rec.get("tag")), rec.get("copy"),
        rec.get("raised"), rec.get("exc"), rec.get("resis"), ch, rec.get("dtype"))


def _flatten(jobs, outs):
    fj, fr = [], []
    for j, o in zip(jobs, outs):
        if o.get("timeout"):
            fj.append(j)
            fr.append(dict(fn=j["fn"], timeout=1))
            continue
        for c in o["calls"]:
            fj.append(dict(j, step=c["step"]))
            fr.append(c)
    return fj, fr


def check_defect_model(ctx):
    """the model with a diagonal-clearing class must violate ArgsUnchangedInv"""
    r = ctx._tlc("MC_CallerArrays.tla", "MC_CallerArrays_defect.cfg", "mc_defect", workers=2, timeout=600)
    if "Invariant ArgsUnchangedInv is violated" not in r["out"]:
        raise core.MachineryError("the defect model does not violate ArgsUnchangedInv: the statement "
                                  "would be vacuous (%s)" % r["outfile"])
    core.log("  mc MC_CallerArrays_defect       violates ArgsUnchangedInv as it must (%.1fs)" % r["wall"])
    ctx.mc_runs.append(dict(model="MC_CallerArrays.tla", cfg="MC_CallerArrays_defect.cfg",
                            purpose="must-fail", wall_s=round(r["wall"], 2)))


def run(ctx):
    missing, stale = R.check_complete()
    # a public function the registry does not know is reported as uncovered; a row whose function
    # has disappeared is dropped - neither says anything about the property, so neither stops the check
    if missing or stale:
        core.log("NOTE registry differs from the live namespace: new public names %s (uncovered), "
                 "vanished %s (skipped)" % (missing, stale))
        ctx.extra["registry_new_uncovered"] = missing
        ctx.extra["registry_vanished_skipped"] = stale
        for name in stale:
            row = R.BY_NAME.pop(name, None)
            if row in R.ROWS:
                R.ROWS.remove(row)
    ctx.mc("MC_CallerArrays.tla", "MC_CallerArrays.cfg", workers=4)
    check_defect_model(ctx)
    programs = model_programs(ctx)
    jobs = single_call_jobs(ctx) + program_jobs(ctx, programs)
    outs = pool.run_jobs(__name__, jobs)
    fjobs, recs = _flatten(jobs, outs)
    verdicts = ctx.validate(*TRACE, recs, tag="c13", chunk=8000)
    bad = [(r.get("fn"), v[0]) for r, v in zip(recs, verdicts) if v[0] in BAD]
    if bad:
        raise core.MachineryError("harness produced records the spec cannot read: %s" % bad[:5])
    ctx.judge(fjobs, recs, verdicts, what=describe)
    # ---- evidence
    tot, per, fns, raised_fns, nz = {}, {}, set(), set(), set()
    views = {}
    for r, v in zip(recs, verdicts):
        tot[v[0]] = tot.get(v[0], 0) + 1
        if r.get("timeout"):
            continue
        fns.add(r["base"])
        if r["raised"]:
            raised_fns.add(r["base"])
        if v[0] not in ("ok",) and not v[0].startswith("skip:"):
            d = per.setdefault(r["fn"], {})
            key = "%s/%s" % (v[0], v[2])
            d[key] = d.get(key, 0) + 1
        if v[2] == "nonzero_diagonal" and not v[0].startswith("skip:"):
            nz.add((r["fn"], r.get("tag"), r.get("dtype"), r["raised"], str(r["A"])))
        if v[1].startswith("differs"):
            views[r["fn"]] = views.get(r["fn"], 0) + 1
    ctx.extra["verdict_counts"] = dict(total=tot, not_ok=per)
    ctx.extra["functions_called"] = len(fns)
    ctx.extra["functions_seen_raising"] = len(raised_fns)
    ctx.extra["results_that_are_views_of_an_argument"] = views
    timed = sorted({j["fn"] for j, o in zip(jobs, outs) if o.get("timeout")})
    ctx.extra["uncovered"] = (
        [dict(function=r_["name"], why=r_["exclude"]) for r_ in R.rows(lambda x: x["exclude"])]
        + [dict(function=f, why="call exceeded the time limit in this run") for f in timed]
        + [dict(function="generative_model(copy=False)", why="documented in-place option of a function that is "
                "not a thresholding / weight-conversion utility; only the default copy=True is exercised")])
    ctx.nontrivial = len(nz)
    ctx.exhaustive = True
    ctx.rule = ("every callable public function of the bct namespace (%d of %d registry rows; the rest listed as "
                "uncovered) x every option variant x float/int arrays with non-zero diagonal, signed entries, "
                "arbitrary labels x {valid arguments, registry `bad` overrides, non-square matrix, short label "
                "vector, asymmetric matrix}; plus %s of the %d program shapes of <= 3 calls enumerated by TLC "
                "(MC_CallerArrays) instantiated with real functions; non-trivial = distinct judged call whose "
                "first matrix has a non-zero diagonal"
                % (len(fns), len(R.ROWS), "900" if ctx.quick else "all", len(programs)))
    i1 = next((i for i, r in enumerate(recs) if r.get("tag") == "program"), 0)
    ctx.add_sample("single-call", dict(record={k: v for k, v in recs[0].items() if k != "A"}, verdict=verdicts[0]))
    ctx.add_sample("program-step", dict(record={k: v for k, v in recs[i1].items() if k != "A"}, verdict=verdicts[i1]))
    ctx.assumptions += [
        "TLC evaluates the definitions of spec/CallerArrays.tla correctly",
        "SHA-1 of the bytes + dtype + shape identifies the content of an array (collisions ignored)",
        "arrays passed = positional and keyword numpy arrays, arrays inside list arguments, scipy.sparse parts",
        "the abstract class 'alias' is instantiated by views the caller takes (x.T, x[:], x.view(), np.asarray(x))",
    ]
    return ctx.finish()


def replay(ctx, rp):
    job = {k: v for k, v in rp["job"].items() if k != "step"}
    outs = pool.run_jobs(__name__, [job])
    fjobs, recs = _flatten([job], outs)
    verdicts = ctx.validate(*TRACE, recs, tag="c13")
    for r, v in zip(recs, verdicts):
        core.log("replay verdict:", v, describe(job, r, v[0]))
    ctx.judge(fjobs, recs, verdicts, what=describe)
    return ctx.finish()
