"""C06 - signed null models keep signed degrees and all weights.

mc:        spec/SignedImpl.tla: L2 machine of randmio_und_signed / randmio_dir_signed (every
           sequence of four-node picks) and L1 machine of the null-model pipeline (rewire the
           sign pattern, then deal the weights by any bijection): signed in/out degrees, positive
           and negative weight bags, diagonal, symmetry.
spec->code: TLC -simulate behaviours replayed through ScriptedRNG (pick_four_unique_nodes_quickly
           is served node quadruples).
code->spec: hook traces of the two randmio_*_signed routines validated by Trace_Rewire.tla (signed
           clause list after every accepted swap); null_model_*_sign calls validated by
           Trace_NullSign.tla incl. the exact integer form of the strength correlations.
"""
import random

import numpy as np

from .. import core, encode, inputs, pool, rewire_common as rc, rng as rngmod

PROP = "C06"
GEN = {"und4": "randmio_und_signed", "dir4": "randmio_dir_signed"}


def exec_job(job):
    if job["fn"].startswith("randmio"):
        return rc.exec_job(job)
    return exec_null(job)


def exec_null(job):
    import bct
    from bct.utils import miscellaneous_utilities as mu
    fn = job["fn"]
    W = np.array(job["W"], dtype=float)
    p2 = job.get("pow2")                     # exact power-of-two scaling of all weights (rewire_common)
    scale = 2.0 ** p2 if p2 else 1.0
    W = W * scale
    if job.get("dtype"):                     # signed integer types / Fortran order; values unchanged
        W = W.astype({"int": int}.get(job["dtype"], job["dtype"]))
    if job.get("layout") == "F":
        W = np.asfortranarray(W)
    n = len(W)
    rec = dict(fn=fn, n=n, dir=int(fn == "null_model_dir_sign"),
               W=encode.mat_int(np.array(job["W"], dtype=float)), raised="",
               malformed="", W0=[], corr=[], corr2=[], pattern=[], skip_corr=int(bool(p2) and p2 < 0))
    last = {}

    def sink(ev, f):
        if ev == "attempt" and f["acc"]:
            last["R"] = np.array(f["R"], dtype=float) / scale
            last["fn"] = f["fn"]

    mu._verif_sinks.append(sink)
    try:
        W0, R = getattr(bct, fn)(W.copy(), bin_swaps=job["bin_swaps"], wei_freq=job["wei_freq"],
                                 seed=rngmod.RecordingRNG(job["seed"]))
    except Exception as e:
        rec["raised"] = encode.exc_name(e)
        return rec
    finally:
        mu._verif_sinks.remove(sink)
    try:
        rec["W0"] = encode.mat_int(np.array(W0, dtype=float) / scale)
        rec["corr"] = [encode.e_q(x) for x in R]
        rec["corr2"] = [encode.e_q(float(x) ** 2) if np.isfinite(x) else encode.NAN for x in R]
        if "R" in last:
            rec["pattern"] = encode.mat_int(last["R"])
            rec["rewired_by"] = last["fn"]
    except ValueError as e:
        rec["malformed"] = str(e)
    return rec


def signed_input(rng, n, und, dens=0.6, wmax=3):
    for _ in range(500):
        A = inputs.rand_graph(rng, n, dens, und=und, wmax=wmax, signed=True)
        if (A > 0).any() and (A < 0).any():
            return A
    raise RuntimeError("no signed input")


def run(ctx):
    mc_cfgs = ["q_und4", "q_dir4", "q_dir3null"] if ctx.quick else \
              ["q_und4", "t_und4", "t_dir4", "q_dir3null", "t_und4null"]
    ctx.parallel([(lambda c=c: ctx.mc("MC_Signed.tla", "MC_Signed_%s.cfg" % c, tag="mc_" + c,
                                      workers=6, timeout=3000)) for c in mc_cfgs], width=4)
    per = 60 if ctx.quick else 600
    res = ctx.parallel([(lambda c=c: ctx.gen("MC_Signed.tla", "Gen_Signed_%s.cfg" % c, tag="sim_" + c,
                                             workers=4, timeout=600,
                                             extra=["-simulate", "num=%d" % per, "-depth", "100",
                                                    "-seed", str(ctx.seed + 3)])) for c in GEN], width=3)
    jobs = []
    for (cfg, fn), items in zip(GEN.items(), res):
        seen = set()
        for it in items:
            key = (str(it["R0"]), str(it["script"]))
            if key in seen:
                continue
            seen.add(key)
            n = len(it["R0"])
            per_itr = n * (n - 1) // 2 if fn == "randmio_und_signed" else n * (n - 1)
            jobs.append(dict(fn=fn, prop=PROP, R0=it["R0"], script=[list(x) for x in it["script"]],
                             itr=(it["iters"] + 0.5) / per_itr, expect=dict(R=it["R"], eff=it["eff"]),
                             src="model-behaviour"))
    # "all seeds" includes long runs of unlucky draws: the four-node picker redraws until its four
    # nodes are distinct (for n = 4 nine draws in ten are not).  Scripted behaviours are replayed with
    # 150 / 400 / 700 non-distinct quadruples in front of their first pick - invisible to the L2
    # machine (its Pick chooses four distinct nodes), so the predicted result is unchanged.  (The
    # picker redraws by recursion: beyond about 900 redraws in a row python's recursion limit ends the
    # call - probability below 1e-40 per call at n = 4 - so the prefixes stay below that.)
    urng = random.Random(ctx.seed * 17 + 11)
    cands = [j for j in jobs if any(it[0] == "q" for it in j["script"])]
    urng.shuffle(cands)
    for j in cands[:(45 if ctx.quick else 400)]:
        n = len(j["R0"])
        first = next(t for t, it in enumerate(j["script"]) if it[0] == "q")
        pref = []
        for _ in range(urng.choice([150, 400, 700])):
            q = [urng.randint(1, n) for _ in range(4)]
            while len(set(q)) == 4:
                q[urng.randrange(4)] = q[urng.randrange(4)]
            pref.append(["q"] + q)
        jobs.append(dict(j, script=j["script"][:first] + pref + j["script"][first:],
                         src="model-behaviour+unlucky-prefix"))
    nb = len(jobs)
    rng = random.Random(ctx.seed * 31 + 7)
    for t in range(160 if ctx.quick else 3000):
        fn = ["randmio_und_signed", "randmio_dir_signed"][t % 2]
        A = signed_input(rng, rng.randint(4, 8), und=(t % 2 == 0), dens=rng.choice([0.4, 0.7, 1.0]))
        jobs.append(dict(fn=fn, prop=PROP, R0=A.tolist(), itr=rng.choice([0, 0.2, 1, 2]),
                         seed=rng.randrange(2 ** 31), src="random",
                         dtype=rng.choice([None, None, "int", "int32"]),
                         layout=rng.choice([None, None, "F", "view"])))
        if rng.random() < 0.35:          # weight magnitudes: 256.. in narrow ints, 2**40.., 2**-560..
            p2 = rng.choice([8, 8, 40, -560])
            jobs[-1]["pow2"] = p2
            jobs[-1]["dtype"] = rng.choice({8: [None, "int", "int32", "int16", "float32"], 40: [None, "int"],
                                            -560: [None]}[p2])
    nr = len(jobs)
    for t in range(300 if ctx.quick else 5000):
        fn = ["null_model_und_sign", "null_model_dir_sign"][t % 2]
        n = rng.randint(4, 6)
        A = signed_input(rng, n, und=(t % 2 == 0), dens=rng.choice([0.5, 0.8, 1.0]))
        if t % 10 == 0:      # fully positive-connected input plus... (bin_swaps ignored branch)
            A = np.abs(A) + (A == 0) * 1.0
            np.fill_diagonal(A, 0)
            A[0, 1] = A[1, 0] = -2 if t % 2 == 0 else A[1, 0]
            A[0, 1] = -2
        if t % 7 == 0:
            # diagonal is documented to be cleared, whatever it holds (inf: Fisher z of a correlation matrix)
            np.fill_diagonal(A, rng.choice([1, -1, 2, np.inf, np.inf]))
        jobs.append(dict(fn=fn, W=A.tolist(), bin_swaps=rng.choice([0, 1, 5]),
                         wei_freq=rng.choice([0, 0.1, 0.25, 0.5, 1]), seed=rng.randrange(2 ** 31), src="random",
                         dtype=rng.choice([None, None, "int", "int32"]), layout=rng.choice([None, None, "F"])))
        if rng.random() < 0.35:
            p2 = rng.choice([8, 8, 40, -560])
            jobs[-1]["pow2"] = p2
            jobs[-1]["dtype"] = rng.choice({8: [None, "int", "int32", "int16"], 40: [None, "int"], -560: [None]}[p2])
    # mid-size null-model inputs with few small integer weights (seed round 7): the weight placement keeps
    # a residual strength per node; with exactly representable weights of several magnitudes it reaches
    # EXACTLY 0 at both end nodes of an open position on 10..40 % of 12..24-node inputs (3 % at 6 nodes)
    for t in range(40 if ctx.quick else 400):
        fn = ["null_model_und_sign", "null_model_dir_sign"][t % 2]
        A = signed_input(rng, rng.randint(12, 24), und=(t % 2 == 0), dens=rng.choice([0.3, 0.5, 0.8]))
        jobs.append(dict(fn=fn, W=A.tolist(), bin_swaps=rng.choice([0, 1, 2, 5]),
                         wei_freq=rng.choice([0.1, 0.25, 0.5, 1, 1]), seed=rng.randrange(2 ** 31), src="random-mid",
                         dtype=rng.choice([None, None, "int"]), layout=None))
    recs = pool.run_jobs(__name__, jobs, limit=15.0, reuse=True, abort=True)
    v1 = ctx.validate("Trace_Rewire.tla", "Trace_Rewire.cfg", recs[:nr], chunk=1500)
    v2 = ctx.validate("Trace_NullSign.tla", "Trace_NullSign.cfg", recs[nr:])
    ctx.judge(jobs, recs, v1 + v2)
    scripted = [r for r in recs[:nb] if not r.get("timeout")]
    ctx.extra["scripted_behaviours"] = nb
    ctx.extra["scripted_followed"] = sum(1 for r in scripted if r["script_status"] == "followed")
    ctx.extra["hook_events_validated"] = sum(len(r.get("events", [])) for r in recs[:nr])
    nt = set()
    for j, r in zip(jobs, recs):
        if r.get("events") and any(e["acc"] for e in r["events"]):
            nt.add((r["fn"], str(r["R0"]), str(j.get("script") or j.get("seed"))))
        elif r.get("W0") and r["W0"] != r["W"]:
            nt.add((r["fn"], str(r["W"]), j["seed"]))
    ctx.nontrivial = len(nt)
    ctx.rule = ("TLC -simulate behaviours of SignedImpl replayed through ScriptedRNG; seeded runs of the "
                "two signed rewiring routines (n 4..8) and of the two null models (n 4..6, |w| <= 3, "
                "bin_swaps in {0,1,5}, wei_freq in {0,.1,.5,1}); non-trivial = distinct run with an "
                "accepted swap, or null-model output different from its input")
    ctx.add_sample("scripted-behaviour", dict(job=jobs[0]))
    ctx.add_sample("null-model-call", dict(job=jobs[-1], W0=recs[-1].get("W0"), corr=recs[-1].get("corr")))
    ctx.assumptions += ["integer weights |w| <= 3 and n <= 6 for the correlation clause (32-bit products)",
                        "the dealing order of the null models is not modelled at L2 (float-valued sorting); "
                        "only its contract (any bijection) is"]
    return ctx.finish()


def replay(ctx, rp):
    job = rp["job"]
    recs = pool.run_jobs(__name__, [job], limit=30.0)
    if job["fn"].startswith("randmio"):
        v = ctx.validate("Trace_Rewire.tla", "Trace_Rewire.cfg", recs)
    else:
        v = ctx.validate("Trace_NullSign.tla", "Trace_NullSign.cfg", recs)
    core.log("replay verdict:", v[0])
    ctx.judge([job], recs, v)
    return ctx.finish()
