"""X03 - extended coverage (DESIGN section 8, item 4; not in MANIFEST): network motifs,
bct/algorithms/motifs.py: find_motif34, motif{3,4}{struct,funct}_{bin,wei}, make_motif34lib
and the bundled library motif34lib.mat.

mc:       spec/MotifLibImpl.tla (make_motif34lib's loops) refines Motifs: the generator's
                                connectivity tests are weak connectivity, the arrays hold exactly
                                54 / 3834 rows, the sorted degree label separates the 13 / 199
                                isomorphism classes (canonical form under S_3 / S_4), so the IDs are
                                a bijection classes <-> 1..13 / 1..199;
          spec/MotifImpl.tla    (the counting loops u < v1, v2[, v3] with the hash / containment
                                look-up into the library) refines the L0 counts on every digraph
                                with n <= 4, symmetric supports (and orientation schemes, thorough)
                                with n = 5, 6; lemmas: totals = number of connected induced
                                K-subgraphs, node counts add up to K x total, invariance under
                                relabelling, functional = structural x fixed sub-class bag;
          MC_Motifs_defect.cfg  the neighbour-vector construction of the Python port (one entry
                                short, integer-index "mask") must VIOLATE the refinement.
run:      the real routines on every digraph with n <= 4 (TLC-enumerated), sampled n = 5, random
          and structured graphs up to 12 nodes, several dtypes / layouts; weights 2^-g (exact).
          The library file is found next to the package; if the routines cannot find it under
          their own path rule (record kind "default" reports that), `motifs.motiflib` is pointed at
          it from outside so that everything behind the loading step can still be judged.
          make_motif34lib runs in a subprocess on a private copy of the package (never in /repo).
validate: spec/Trace_Motifs.tla judges every record.
"""
import contextlib
import io
import os
import random
import threading

import numpy as np

from .. import core, encode, inputs, pool

NCLS = {3: 13, 4: 199}
BIN_FNS = {(3, 0): "motif3struct_bin", (3, 1): "motif3funct_bin", (4, 0): "motif4struct_bin", (4, 1): "motif4funct_bin"}
WEI_FNS = {(3, 0): "motif3struct_wei", (3, 1): "motif3funct_wei", (4, 0): "motif4struct_wei", (4, 1): "motif4funct_wei"}

_ST = {}


# --------------------------------------------------------------------------- library access
def _find_bundled():
    base = os.path.join(core.REPO, "bct")
    hits = []
    for d, _, files in os.walk(base):
        if "motif34lib.mat" in files:
            hits.append(os.path.join(d, "motif34lib.mat"))
    hits.sort(key=len)
    return hits[0] if hits else None


def _row_code(row):
    """0/1 row -> integer whose binary digits are the row (first cell = most significant)"""
    c = 0
    for b in row:
        c = 2 * c + (1 if b else 0)
    return c


def _lib_arrays(mot, k):
    """the arrays exactly as the routines take them from loadmat"""
    s = str(k)
    return (np.asarray(mot["m" + s]), np.asarray(mot["m%sn" % s]).squeeze(),
            np.asarray(mot["id" + s]).squeeze(), np.asarray(mot["n" + s]).squeeze())


def _prep():
    """import the package under test; make the library loadable; representatives per id"""
    if _ST:
        return _ST
    import bct  # noqa
    import bct.algorithms.motifs as mo
    from scipy import io as sio
    _ST["mo"] = mo
    _ST["bundled"] = _find_bundled()
    _ST["default_exc"] = ""
    try:
        with contextlib.redirect_stdout(io.StringIO()):
            mo.find_motif34(1, 3)
    except Exception as e:     # noqa
        _ST["default_exc"] = encode.exc_name(e)
        if isinstance(e, (IOError, OSError)) and _ST["bundled"]:
            mo.motiflib = _ST["bundled"]          # os.path.join(dir, <absolute>) = <absolute>
    _ST["rep"] = {3: [], 4: []}
    if _ST["bundled"]:
        try:
            mot = sio.loadmat(_ST["bundled"])
            for k in (3, 4):
                m, _, ids, _ = _lib_arrays(mot, k)
                rep = {}
                for row, i in zip(m, ids):
                    rep.setdefault(int(i), _row_code(row))
                if sorted(rep) == list(range(1, NCLS[k] + 1)):
                    _ST["rep"][k] = [rep[i] for i in range(1, NCLS[k] + 1)]
        except Exception:       # noqa
            pass
    return _ST


# --------------------------------------------------------------------------- encodings
def _q(x):
    x = float(x)
    if np.isnan(x):
        return encode.NAN
    v = x * encode.Q6
    if v >= encode.INF:
        return encode.INF
    if v <= -encode.INF:
        return encode.NINF
    return int(round(v))


def _whole(*arrs):
    for a in arrs:
        a = np.asarray(a, dtype=float)
        if a.size and not (np.all(np.isfinite(a)) and np.all(a == np.round(a)) and np.all(np.abs(a) < 2e9)):
            return 0
    return 1


def _sparse(a, ndim, conv):
    a = np.asarray(a)
    if a.ndim != ndim or a.dtype == object:
        return []
    a = a.astype(float)
    out = []
    for idx in zip(*np.nonzero((a != 0) | np.isnan(a))):
        out.append([int(i) + 1 for i in idx] + [conv(a[idx])])
    return out


def _shape(a):
    try:
        return [int(x) for x in np.shape(a)]
    except Exception:       # noqa
        return [-1]


def _mk_input(job):
    """the argument as the caller would pass it (dtype / layout variety)"""
    A = np.array(job["A"], dtype=float)
    if job["kind"] == "wei":
        G = np.array(job["Gx"], dtype=float)
        A = np.where(A != 0, 2.0 ** (-G), 0.0)
    lay = job.get("layout", "c")
    dt = job.get("dtype", "float64")
    if dt == "list":
        return A.tolist()
    A = A.astype(dt)
    if lay == "f":
        A = np.asfortranarray(A)
    elif lay == "view":
        n = len(A)
        big = np.zeros((2 * n, 2 * n), dtype=A.dtype)
        big[::2, ::2] = A
        A = big[::2, ::2]
    return A


# --------------------------------------------------------------------------- real calls
def exec_count(job):
    st = _prep()
    import bct
    k, fu = job["k"], job["funct"]
    fn = (BIN_FNS if job["kind"] == "count" else WEI_FNS)[(k, fu)]
    A0 = np.array(job["A"], dtype=float)
    rec = dict(fn=fn, kind=job["kind"], n=len(A0), k=k, funct=fu, A=[[int(x != 0) for x in row] for row in A0],
               raised="", rep=st["rep"][k], whole=1, order="", f=[], F=[], I=[], Q=[],
               fshape=[], Fshape=[], Ishape=[], Qshape=[], Gx=job.get("Gx", []))
    arg = _mk_input(job)
    keep = np.array(arg, dtype=float, copy=True)
    try:
        out = getattr(bct, fn)(arg)
    except Exception as e:      # noqa
        rec["raised"] = encode.exc_name(e)
        return rec
    if not (isinstance(out, tuple) and len(out) == (2 if job["kind"] == "count" else 3)):
        rec["raised"] = "not_a_%d_tuple" % (2 if job["kind"] == "count" else 3)
        return rec
    if job["kind"] == "count":
        f, F = out
        if np.ndim(f) == 2 and np.ndim(F) == 1:     # documented order (F, f)
            f, F = F, f
            rec["order"] = "F_then_f"
        else:
            rec["order"] = "f_then_F"
        rec.update(fshape=_shape(f), Fshape=_shape(F), whole=_whole(f, F),
                   f=_sparse(f, 1, lambda x: int(round(x)) if np.isfinite(x) else encode.NAN),
                   F=_sparse(F, 2, lambda x: int(round(x)) if np.isfinite(x) else encode.NAN))
        if not rec["whole"]:
            rec["f"], rec["F"] = [], []
    else:
        I, Q, F = out
        rec.update(Ishape=_shape(I), Qshape=_shape(Q), Fshape=_shape(F), whole=_whole(F),
                   I=_sparse(I, 2, _q), Q=_sparse(Q, 2, _q),
                   F=_sparse(F, 2, lambda x: int(round(x)) if np.isfinite(x) else encode.NAN))
        if not rec["whole"]:
            rec["F"] = []
    if not np.array_equal(np.array(arg, dtype=float), keep):
        rec["raised"] = "argument_modified"
    return rec


def _encode_lib(mot, k, rec):
    try:
        m, mn, ids, ns = _lib_arrays(mot, k)
    except Exception as e:      # noqa
        rec["malformed"] = "missing_array:%s" % encode.exc_name(e)
        return
    nc = k * (k - 1)
    shapes = (m.shape, mn.shape, ids.shape, ns.shape)
    if m.ndim != 2 or m.shape[1] != nc or any(x.ndim != 1 or len(x) != len(m) for x in (mn, ids, ns)):
        rec["malformed"] = "shapes:%s" % (shapes,)
        return
    if not _whole(m, ids, ns) or not np.all((m == 0) | (m == 1)):
        rec["malformed"] = "values"
        return
    rows, bits = [], []
    for row, h, i, cnt in zip(m, mn, ids, ns):
        h = int(h)
        bits.append([int(b) for b in row])
        rows.append([_row_code(row), int(i), int(cnt), h // 10 ** 6, h % 10 ** 6])
    rec["rows"], rec["bits"] = rows, bits


def exec_lib(job):
    st = _prep()
    from scipy import io as sio
    k = job["k"]
    rec = dict(fn=job["fn"], kind="lib", k=k, raised="", kept=1, malformed="", rows=[], bits=[], printed=0)
    if job["fn"] == "motif34lib":
        if not st["bundled"]:
            rec["malformed"] = "no_library_file_in_package"
            return rec
        _encode_lib(sio.loadmat(st["bundled"]), k, rec)
        return rec
    # make_motif34lib writes next to its own source file: run it in a subprocess on a private
    # copy of the package (without the library file), then once more with the file present
    import shutil
    import subprocess
    import sys
    tmp = job["tmp"]
    shutil.rmtree(tmp, ignore_errors=True)
    try:
        shutil.copytree(os.path.join(core.REPO, "bct"), os.path.join(tmp, "bct"),
                        ignore=shutil.ignore_patterns("motif34lib.mat", "__pycache__"))
        script = ("import os, sys, bct\n"
                  "assert os.path.abspath(bct.__file__).startswith(os.path.abspath(sys.argv[1])), bct.__file__\n"
                  "try:\n    bct.make_motif34lib()\nexcept Exception as e:\n    print('EXC|' + type(e).__name__)\n")
        env = dict(os.environ, PYTHONPATH=tmp, PYTHONWARNINGS="ignore")

        def call():
            p = subprocess.run([sys.executable, "-c", script, tmp], cwd=tmp, env=env, stdout=subprocess.PIPE,
                               stderr=subprocess.STDOUT, text=True, timeout=70)
            exc = [l.split("|")[1] for l in p.stdout.splitlines() if l.startswith("EXC|")]
            if p.returncode != 0 and not exc:
                raise core.MachineryError("make_motif34lib subprocess failed: %s" % p.stdout[-800:])
            return exc[0] if exc else ""

        def written():
            out = []
            for d, _, files in os.walk(os.path.join(tmp, "bct")):
                out += [os.path.join(d, f) for f in files if f.endswith(".mat")]
            return sorted(out)
        rec["raised"] = call()
        if rec["raised"]:
            return rec
        files = written()
        if len(files) != 1 or os.path.basename(files[0]) != "motif34lib.mat":
            rec["malformed"] = "files_written:%s" % [os.path.relpath(f, tmp) for f in files]
            return rec
        with open(files[0], "rb") as f:
            before = f.read()
        again = call()
        with open(files[0], "rb") as f:
            after = f.read()
        rec["kept"] = 1 if (again == "" and before == after and written() == files) else 0
        try:
            mot = sio.loadmat(files[0])
        except Exception as e:      # noqa
            rec["malformed"] = "unloadable:%s" % encode.exc_name(e)
            return rec
        _encode_lib(mot, k, rec)
        return rec
    finally:
        shutil.rmtree(tmp, ignore_errors=True)


def exec_find(job):
    st = _prep()
    import bct
    kind, k = job["kind"], job.get("k", 3)
    rec = dict(fn="find_motif34", kind=kind, k=k, raised="", rep=st["rep"].get(k, []), whole=1)
    if kind == "default":
        rec["raised"] = st["default_exc"]
        return rec
    if kind == "iso":
        rec.update(m=job["m"], mats=[], shape=[])
        try:
            M = bct.find_motif34(job["m"], k)
        except Exception as e:      # noqa
            rec["raised"] = encode.exc_name(e)
            return rec
        M = np.asarray(M)
        rec["shape"] = _shape(M)
        if M.ndim == 3 and M.dtype != object and _whole(M):
            rec["mats"] = [[[int(x) for x in row] for row in M[:, :, t]] for t in range(M.shape[2])]
        else:
            rec["whole"] = 0
        return rec
    if kind == "ident":
        Mx = np.array(job["M"])
        rec.update(M=[[int(x != 0) for x in row] for row in Mx], result=[])
        arg = Mx.tolist() if job.get("dtype") == "list" else Mx.astype(job.get("dtype", "int64"))
        try:
            res = bct.find_motif34(arg)
        except Exception as e:      # noqa
            rec["raised"] = encode.exc_name(e)
            return rec
        try:
            res = np.atleast_1d(np.asarray(res)).ravel()
            rec["result"] = [int(x) if float(x) == int(x) else -1 for x in res][:8]
        except Exception:       # noqa
            rec["result"] = [-1, -1]
        return rec
    # bad
    rec["what"] = job["what"]
    try:
        if "M" in job:
            bct.find_motif34(np.array(job["M"]))
        else:
            bct.find_motif34(job["m"], job["n"])
    except Exception as e:      # noqa
        rec["raised"] = encode.exc_name(e)
    return rec


def exec_job(job):
    if job["kind"] in ("count", "wei"):
        return exec_count(job)
    if job["kind"] == "lib":
        return exec_lib(job)
    return exec_find(job)


# --------------------------------------------------------------------------- inputs
DTYPES = [("float64", "c"), ("float64", "f"), ("int64", "c"), ("bool", "c"), ("uint8", "c"),
          ("float32", "c"), ("float64", "view"), ("int32", "f")]      # (documented: np.ndarray; lists are not accepted)
GSETS = [[0], [3], [12], [0, 12], [0, 6, 12], [0, 4, 8, 12], [0, 3, 6, 9, 12], [0, 2, 4, 6, 8, 10, 12],
         list(range(13)), [0, 1], [5, 7]]


def structured(rng, n, kind):
    A = np.zeros((n, n), dtype=int)
    if kind == "ring":
        for i in range(n):
            A[i, (i + 1) % n] = 1
    elif kind == "ring2":
        for i in range(n):
            A[i, (i + 1) % n] = A[(i + 1) % n, i] = 1
    elif kind == "outstar":
        A[0, 1:] = 1
    elif kind == "instar":
        A[1:, 0] = 1
    elif kind == "clique_path":          # bidirectional clique + directed path hanging off it
        c = max(3, n // 2)
        A[:c, :c] = 1
        for i in range(c - 1, n - 1):
            A[i, i + 1] = 1
    elif kind == "tournament":
        for i in range(n):
            for j in range(i + 1, n):
                if rng.random() < 0.5:
                    A[i, j] = 1
                else:
                    A[j, i] = 1
    elif kind == "dag":
        for i in range(n):
            for j in range(i + 1, n):
                if rng.random() < 0.4:
                    A[i, j] = 1
    elif kind == "bipartite":
        h = n // 2
        for i in range(h):
            for j in range(h, n):
                r = rng.random()
                if r < 0.3:
                    A[i, j] = 1
                elif r < 0.5:
                    A[j, i] = 1
    elif kind == "two_parts":            # two components + isolated nodes
        h = n // 2
        for i in range(h - 1):
            A[i, i + 1] = 1
        for i in range(h, n - 2):
            A[i + 1, i] = A[i, i + 1] = 1
    elif kind == "complete":
        A[:, :] = 1
    np.fill_diagonal(A, 0)
    p = list(range(n))
    rng.shuffle(p)
    return A[np.ix_(p, p)]


KINDS = ["ring", "ring2", "outstar", "instar", "clique_path", "tournament", "dag", "bipartite", "two_parts", "complete"]


def rand_digraph(rng, n, p, recip=0.3):
    A = np.zeros((n, n), dtype=int)
    for i in range(n):
        for j in range(i + 1, n):
            if rng.random() < p:
                r = rng.random()
                if r < recip:
                    A[i, j] = A[j, i] = 1
                elif r < (1 + recip) / 2:
                    A[i, j] = 1
                else:
                    A[j, i] = 1
    return A


def count_job(rng, A, k, fu, src, plain=False):
    A = np.array(A)
    dt, lay = ("float64", "c") if plain else rng.choice(DTYPES)
    vals = A.astype(float)
    if not plain and dt in ("float64", "float32") and rng.random() < 0.4:   # "binary": any nonzero is a connection
        vals = vals * np.array([[rng.choice([1, 0.5, 3, -2]) for _ in row] for row in A])
    return dict(kind="count", k=k, funct=fu, A=vals.tolist(), dtype=dt, layout=lay, src=src)


def wei_job(rng, A, k, fu, src):
    A = np.array(A)
    gs = rng.choice(GSETS)
    Gx = [[rng.choice(gs) if x else 0 for x in row] for row in A]
    dt, lay = rng.choice([("float64", "c"), ("float64", "c"), ("float64", "f"), ("float64", "view")])
    return dict(kind="wei", k=k, funct=fu, A=A.astype(float).tolist(), Gx=Gx, dtype=dt, layout=lay,
                src=src + "-g" + "_".join(map(str, gs[:3])))


def build_jobs(ctx, rng):
    q = ctx.quick
    jobs = []
    # ---- the library, the generator, find_motif34
    for k in (3, 4):
        jobs.append(dict(kind="lib", fn="motif34lib", k=k))
        jobs.append(dict(kind="lib", fn="make_motif34lib", k=k,
                         tmp=os.path.join(ctx.work, "gen", "pkg%d" % k)))
    jobs.append(dict(kind="default"))
    for k in (3, 4):
        for m in range(1, NCLS[k] + 1):
            jobs.append(dict(kind="iso", k=k, m=m))
    pats3 = inputs.model_graphs(ctx, "dir", 3)
    pats4 = inputs.model_graphs(ctx, "dir", 4)
    for k, pats, cap in ((3, pats3, 64), (4, pats4, 500 if q else 4096)):
        for e in inputs.sample(rng, pats, cap):
            jobs.append(dict(kind="ident", k=k, M=inputs.mat_from_edges(k, e, und=False, dtype=int).tolist(),
                             dtype=rng.choice(["int64", "float64", "bool", "list"])))
    for n in (0, 2, 5, 1):
        jobs.append(dict(kind="bad", m=1, n=n, what="class_%d" % n))
    for s in (2, 5):
        jobs.append(dict(kind="bad", M=np.ones((s, s), dtype=int).tolist(), what="matrix_%dx%d" % (s, s)))
    # ---- every digraph on 3 and 4 nodes (TLC-enumerated)
    for n, pats in ((3, pats3), (4, pats4)):
        for e in pats:
            A = inputs.mat_from_edges(n, e, und=False, dtype=int)
            combos = [(k, fu) for k in (3, 4) if k <= n for fu in (0, 1)]
            if q and n == 4:        # quick: two of the four routines per digraph (seeded choice)
                combos = rng.sample(combos, 2)
            for k, fu in combos:
                jobs.append(count_job(rng, A, k, fu, "model-dir%d" % n, plain=(rng.random() < 0.7)))
        for e in (inputs.sample(rng, pats, 500) if q else pats):
            A = inputs.mat_from_edges(n, e, und=False, dtype=int)
            for k in (3, 4):
                if k > n:
                    continue
                for fu in (0, 1):
                    jobs.append(wei_job(rng, A, k, fu, "model-dir%d" % n))
    # ---- degenerate sizes
    for n in (1, 2, 3):
        A = np.ones((n, n), dtype=int) - np.eye(n, dtype=int)
        for k in (3, 4):
            for fu in (0, 1):
                jobs.append(count_job(rng, A, k, fu, "tiny", plain=True))
                jobs.append(wei_job(rng, A, k, fu, "tiny"))
    # ---- digraphs on 5 nodes, sampled
    for t in range(250 if q else 4000):
        A = rand_digraph(rng, 5, rng.choice([0.3, 0.5, 0.7, 0.9]), recip=rng.choice([0, 0.3, 0.7]))
        for k in (3, 4):
            for fu in (0, 1):
                jobs.append(count_job(rng, A, k, fu, "random-dir5"))
                if t % 2 == 0:
                    jobs.append(wei_job(rng, A, k, fu, "random-dir5"))
    # ---- random and structured graphs, 6..12 nodes
    for t in range(120 if q else 1500):
        n = rng.randint(6, 12)
        if t % 3 == 0:
            kind = KINDS[(t // 3) % len(KINDS)]
            if kind == "complete":
                n = rng.randint(5, 7)
            A = structured(rng, n, kind)
            src = "struct-" + kind
        else:
            A = rand_digraph(rng, n, rng.choice([0.1, 0.2, 0.3, 0.5]), recip=rng.choice([0, 0.3, 1]))
            src = "random"
        dense = A.sum() > 2.5 * n
        for k in (3, 4):
            for fu in (0, 1):
                if k == 4 and fu == 1 and dense and n > 9 and t % 4:
                    continue                      # a few only: the expected table is large
                jobs.append(count_job(rng, A, k, fu, src))
        # weighted: keep the number of motifs around a node below 1000 (10^-6 fixed point < 2^31)
        m = rng.randint(5, 8)
        B = A[:m, :m]
        if B.sum() <= 14:
            for k in (3, 4):
                for fu in (0, 1):
                    jobs.append(wei_job(rng, B, k, fu, src + "-sub%d" % m))
        elif B.sum() <= 24:
            jobs.append(wei_job(rng, B, 3, 0, src + "-sub%d" % m))
            jobs.append(wei_job(rng, B, 3, 1, src + "-sub%d" % m))
            jobs.append(wei_job(rng, B, 4, 0, src + "-sub%d" % m))
    # ---- self-connections are outside the domain (judged as skipped)
    for _ in range(6):
        A = rand_digraph(rng, 5, 0.5)
        A[rng.randrange(5), rng.randrange(5)] = 1
        np.fill_diagonal(A, [rng.choice([0, 1]) for _ in range(5)])
        jobs.append(count_job(rng, A, 3, rng.choice([0, 1]), "selfloops", plain=True))
    return jobs


# --------------------------------------------------------------------------- driver
QUICK_MODELS = [("MC_Motifs.tla", "MC_Motifs_f4n4o.cfg"), ("MC_Motifs.tla", "MC_Motifs_s3n4.cfg"),
                ("MC_Motifs.tla", "MC_Motifs_s4n4.cfg"), ("MC_Motifs.tla", "MC_Motifs_f3n4.cfg"),
                ("MC_Motifs.tla", "MC_Motifs_s4n5u.cfg"),
                ("MC_MotifLib.tla", "MC_MotifLib_k4.cfg"), ("MC_MotifLib.tla", "MC_MotifLib_k3.cfg")]
THOROUGH_MODELS = [("MC_Motifs.tla", "MC_Motifs_f4n4.cfg"), ("MC_Motifs.tla", "MC_Motifs_s4n6u_thorough.cfg"), ("MC_Motifs.tla", "MC_Motifs_s4n5o_thorough.cfg"),
                   ("MC_Motifs.tla", "MC_Motifs_s4n4l_thorough.cfg"), ("MC_Motifs.tla", "MC_Motifs_s3n6u_thorough.cfg"),
                   ("MC_Motifs.tla", "MC_Motifs_s3n5o_thorough.cfg"), ("MC_Motifs.tla", "MC_Motifs_s3n5u.cfg"),
                   ("MC_Motifs.tla", "MC_Motifs_s4n4o.cfg")] + QUICK_MODELS


def check_defect_model(ctx):
    """the Python port's neighbour vectors, modelled as coded, must NOT refine the definition"""
    r = ctx._tlc("MC_Motifs.tla", "MC_Motifs_defect.cfg", "mc_defect", workers=2, timeout=900)
    if "is violated" not in r["out"]:
        raise core.MachineryError("the as-coded model does not violate an invariant (see %s)" % r["outfile"])
    core.log("  mc MC_Motifs_defect             violates the refinement as it must (%.1fs)" % r["wall"])
    ctx.mc_runs.append(dict(model="MC_Motifs.tla", cfg="MC_Motifs_defect.cfg", purpose="expected_violation",
                            states_generated=r["generated"], distinct_states=r["distinct"], wall_s=round(r["wall"], 2)))


def run_models(ctx):
    models = QUICK_MODELS if ctx.quick else THOROUGH_MODELS
    thunks = [(lambda t=t, c=c: ctx.mc(t, c, workers=3 if ctx.quick else 4)) for t, c in models]
    thunks.append(lambda: check_defect_model(ctx))
    ctx.parallel(thunks, width=8 if ctx.quick else 6)


def weight(rec):
    if rec.get("timeout"):
        return 0
    if rec["kind"] in ("count", "wei"):
        return (1 + rec["n"] ** (rec["k"] - 1)) * (4 if rec["funct"] else 1) * (3 if rec["kind"] == "wei" else 1)
    return 50 if rec["kind"] == "lib" else 2


def validate_few_workers(ctx, records, tag, workers=3):
    """ctx.validate with a small worker count: TLC copies the (large) constant tables of
    Motifs.tla once per worker, about 2 s each, so 16 workers cost more than they bring"""
    import json
    live = [k for k, r in enumerate(records) if not r.get("timeout")]
    part = [records[k] for k in live]
    path = os.path.join(ctx.work, "trace_%s.json" % tag)
    with open(path, "w") as f:
        json.dump(part, f)
    r = ctx._tlc("Trace_Motifs.tla", "Trace_Motifs.cfg", "val_" + tag, env={"TRACE_FILE": path},
                 workers=workers, timeout=3600)
    if "No error has been found" not in r["out"]:
        raise core.MachineryError("validation %s crashed (see %s):\n%s" % (
            tag, r["outfile"], "\n".join(r["out"].splitlines()[-30:])))
    got = [None] * len(part)
    for line in r["out"].splitlines():
        line = line.strip()
        if line.startswith('"V|'):
            f = json.loads(line).split("|")
            got[int(f[1]) - 1] = (f[2], f[3], f[4])
    if any(v is None for v in got):
        raise core.MachineryError("validation %s: verdict lines missing (%s)" % (tag, r["outfile"]))
    with ctx.lock:
        ctx.states += r["distinct"]
        ctx.transitions += r["generated"]
        ctx.traces += len(part)
        ctx.val_runs.append(dict(trace_spec="Trace_Motifs.tla", records=len(part), states_generated=r["generated"],
                                 distinct_states=r["distinct"], wall_s=round(r["wall"], 2)))
    core.log("  validate %-22s records=%d %.1fs" % (tag, len(part), r["wall"]))
    full = [("skip:timeout", "na", "any")] * len(records)
    for k, v in zip(live, got):
        full[k] = v
    return full


def validate_parallel(ctx, recs, parts, par):
    """split into `parts` batches of similar cost (heaviest records spread round-robin)"""
    order = sorted(range(len(recs)), key=lambda i: -weight(recs[i]))
    groups = [order[p::parts] for p in range(parts)]
    groups = [sorted(g) for g in groups if g]
    thunks = [(lambda g=g, p=p: validate_few_workers(ctx, [recs[i] for i in g], "Trace_Motifs_p%d" % p))
              for p, g in enumerate(groups)]
    outs = ctx.parallel(thunks, width=par)
    verdicts = [None] * len(recs)
    for g, vs in zip(groups, outs):
        for i, v in zip(g, vs):
            verdicts[i] = v
    return verdicts


def what(job, rec, clause):
    k = rec.get("kind")
    if k in ("count", "wei"):
        s = "src=%s dtype=%s/%s n=%d A=%s raised=%s" % (job.get("src"), job.get("dtype"), job.get("layout"),
                                                       rec["n"], rec["A"], rec["raised"])
        if k == "wei":
            s += " Gx=%s I=%s Q=%s F=%s" % (rec["Gx"], rec["I"][:6], rec["Q"][:6], rec["F"][:6])
        else:
            s += " f=%s F=%s shapes=%s %s" % (rec["f"][:8], rec["F"][:8], rec["fshape"], rec["Fshape"])
        return s[:900]
    if k == "lib":
        return "k=%d raised=%s malformed=%s kept=%s rows=%d" % (rec["k"], rec["raised"], rec["malformed"],
                                                            rec["kept"], len(rec["rows"]))
    if k == "iso":
        return "k=%d m=%d raised=%s shape=%s first=%s" % (rec["k"], rec["m"], rec["raised"], rec["shape"], rec["mats"][:1])
    if k == "ident":
        return "k=%d M=%s raised=%s result=%s" % (rec["k"], rec["M"], rec["raised"], rec["result"])
    return "raised=%s" % rec.get("raised")


def run(ctx):
    result = {}

    def models():
        try:
            run_models(ctx)
        except Exception as e:      # noqa
            result["err"] = e
    rng = random.Random(ctx.seed)
    jobs = build_jobs(ctx, rng)         # (may run GenGraphs once; before the model thread starts)
    th = threading.Thread(target=models)
    th.start()
    try:
        recs = pool.run_jobs(__name__, jobs, limit=170.0, procs=8)
        verdicts = validate_parallel(ctx, recs, parts=4 if ctx.quick else 16, par=4)
    finally:
        th.join()
    if "err" in result:
        raise result["err"]
    ctx.judge(jobs, recs, verdicts, what=what)
    per_fn, seen = {}, set()
    for j, r, v in zip(jobs, recs, verdicts):
        per_fn[r["fn"]] = per_fn.get(r["fn"], 0) + 1
        if r.get("timeout") or v[0].startswith("skip"):
            continue
        if r["kind"] in ("count", "wei") and v[2] in ("one_connected_subgraph", "several_connected_subgraphs"):
            seen.add((r["fn"], str(r["A"]), str(r["Gx"])))
        elif r["kind"] in ("iso", "ident", "lib"):
            seen.add((r["fn"], r["kind"], r["k"], r.get("m"), str(r.get("M"))))
    ctx.nontrivial = len(seen)
    ctx.exhaustive = True
    ctx.extra["records_per_function"] = per_fn
    ctx.rule = ("binary routines: every digraph on 3 and 4 nodes (TLC-enumerated) x structural/functional x "
                "size 3/4 (quick: two of the four routines per 4-node digraph, seeded choice); weighted routines on %s of them with weights 2^-g, g drawn from %d exponent sets; "
                "random digraphs on 5 nodes; random and structured digraphs (rings, stars, clique+path, "
                "tournaments, DAGs, bipartite, two components, complete) on 6..12 nodes; arguments as "
                "float64/float32/int/bool/uint8 arrays, Fortran order, strided views, lists, non-0/1 "
                "values for the binary routines; find_motif34 for every id, for %s 4-node patterns and "
                "every 3-node pattern; the bundled library and the output of make_motif34lib.  "
                "non-trivial = distinct judged call on an input with >= 1 connected K-subgraph (or a "
                "library / find_motif34 record)" % ("a sample" if ctx.quick else "all", len(GSETS),
                                                     "500" if ctx.quick else "all 4096"))
    for kind in ("count", "wei", "iso", "lib"):
        for j, r, v in zip(jobs, recs, verdicts):
            if r.get("kind") == kind and not r.get("timeout") and kind != "lib" and r.get("n", 5) >= 4:
                ctx.add_sample(kind, dict(job=j, record=r, verdict=list(v)))
                break
    ctx.assumptions += [
        "TLC evaluates the L0 definitions of spec/Motifs.tla correctly",
        "which class an output row stands for is read off the library file the routines load (one row per "
        "id, loaded with scipy as the routines do); records are skipped if that is no bijection (the "
        "library record then fails)",
        "if the routines cannot find the library under their own path rule (judged once, kind 'default'), "
        "bct.algorithms.motifs.motiflib is pointed at the file from outside for all other records",
        "weights are 2^-g with integer g in 0..12: geometric means are bracketed by 2^-ceil(E/l) and "
        "2^-floor(E/l) (exact when l divides E); sums compared at 10^-6 with tolerance 2 units",
        "make_motif34lib runs in a subprocess on a private copy of the package without the library file; /repo is never written",
        "inputs without self-connections (the routines document binary/weighted directed matrices)"]
    return ctx.finish()


def replay(ctx, rp):
    j = rp["job"]
    if j.get("kind") == "lib" and "tmp" in j:
        j["tmp"] = os.path.join(ctx.work, "gen", os.path.basename(j["tmp"]))
    recs = pool.run_jobs(__name__, [j], limit=170.0)
    verdicts = validate_few_workers(ctx, recs, "replay", workers=2)
    core.log("replay verdict:", verdicts[0], what(j, recs[0], verdicts[0][0])[:600])
    ctx.judge([j], recs, verdicts, what=what)
    return ctx.finish()
